(** C18, second half: cleaning commutes with any respelling of the tag bodies that keeps the tree
    structure and the removal decisions.

    Two syntax trees are related by [same_tree P] when they have the same structure and the same
    texts, and the tag bodies at the same places are related by [P].  For two such trees without
    [unwrap-block] elements, and two configurations that take the same decision on the opening
    tags of corresponding elements, the outputs of [clean] are the renderings of two syntax trees
    that are related by [same_tree P] again ([clean_respell]).  When the second tree is the first
    one with a function [rho] applied to every tag body, the output of the respelled document is
    the respelled output ([clean_respell_map]).

    Part 1: [same_tree], documents, sizes, nodes.
    Part 2: closure of [same_tree] under corresponding masks and under normalisation.
    Part 3: the markers of a forest without unwrap-block elements are the spans of the maximal
            ready nodes ([tops]).
    Part 4: the new index of an outer position after a deletion ([rank_tr]).
    Part 5: one run of [clean] with its explicit mask.
    Part 6: the theorem and its corollaries.
    Part 7: an instance. *)
From Coq Require Import List NArith ZArith Arith Bool Lia PeanoNat.
Import ListNotations.
From Chiri Require Import Base.Bytes Base.Res Model.Tokenizer Model.TagParser Model.TreeParser
     Model.Finders Model.Markers Model.Format Model.Clean
     Spec.Ranges Spec.Forest Spec.Rename Spec.Simulation
     Proofs.ResLemmas Proofs.Utf8 Proofs.MarkerProofs Proofs.MarkerShape Proofs.RangeProofs
     Proofs.CollectProofs Proofs.RenameProofs Proofs.SimFlat Proofs.SimStrings Proofs.SimFront
     Proofs.MonoMap Proofs.SimClean Proofs.WellNested Proofs.DocMask Proofs.AstCollect
     Proofs.Idempotent Proofs.SimBody.

Ltac unfold_rb := unfold Format.range, Markers.range, Ranges.range in *.

(* ------------------------------------------------------------------------- *)
(** * Part 1: trees of the same structure *)

(** One node, and a forest. *)
Fixpoint same1 (P : str -> str -> Prop) (a a' : ast) {struct a} : Prop :=
  match a, a' with
  | AT t, AT t' => t = t'
  | AC b, AC b' => P b b'
  | AE b1 b2 kids, AE b1' b2' kids' =>
    P b1 b1' /\ P b2 b2' /\
    (fix go (l l' : list ast) {struct l} : Prop :=
       match l, l' with
       | [], [] => True
       | x :: r, x' :: r' => same1 P x x' /\ go r r'
       | _, _ => False
       end) kids kids'
  | _, _ => False
  end.

Fixpoint same_tree (P : str -> str -> Prop) (l l' : list ast) {struct l} : Prop :=
  match l, l' with
  | [], [] => True
  | x :: r, x' :: r' => same1 P x x' /\ same_tree P r r'
  | _, _ => False
  end.

Lemma same1_AE P b1 b2 kids a' :
  same1 P (AE b1 b2 kids) a' <->
  exists b1' b2' kids', a' = AE b1' b2' kids' /\ P b1 b1' /\ P b2 b2' /\ same_tree P kids kids'.
Proof.
  assert (forall l l',
    (fix go (l l' : list ast) {struct l} : Prop :=
       match l, l' with
       | [], [] => True
       | x :: r, x' :: r' => same1 P x x' /\ go r r'
       | _, _ => False
       end) l l' = same_tree P l l') as E.
  { induction l as [|x l IH]; intros [|x' l']; try reflexivity. cbn [same_tree]. rewrite IH. reflexivity. }
  split.
  - destruct a' as [t|b|c1 c2 k']; cbn [same1]; try contradiction.
    intros (H1 & H2 & H3). rewrite E in H3. exists c1, c2, k'. repeat split; assumption.
  - intros (c1 & c2 & k' & -> & H1 & H2 & H3). cbn [same1]. rewrite E. repeat split; assumption.
Qed.

Lemma same1_AT P t a' : same1 P (AT t) a' <-> a' = AT t.
Proof.
  split.
  - destruct a' as [u|b|c1 c2 k']; cbn [same1]; try contradiction. intros ->. reflexivity.
  - intros ->. reflexivity.
Qed.

Lemma same1_AC P b a' : same1 P (AC b) a' <-> exists b', a' = AC b' /\ P b b'.
Proof.
  split.
  - destruct a' as [u|c|c1 c2 k']; cbn [same1]; try contradiction. intros H. exists c. split; [reflexivity | exact H].
  - intros (c & -> & H). exact H.
Qed.

Lemma same_tree_nil P f' : same_tree P [] f' <-> f' = [].
Proof. destruct f'; cbn [same_tree]; split; intros H; try reflexivity; try contradiction; discriminate H. Qed.

Lemma same_tree_cons P x f f' :
  same_tree P (x :: f) f' <-> exists x' r', f' = x' :: r' /\ same1 P x x' /\ same_tree P f r'.
Proof.
  split.
  - destruct f' as [|x' r']; cbn [same_tree]; [contradiction|]. intros [H1 H2].
    exists x', r'. repeat split; assumption.
  - intros (x' & r' & -> & H1 & H2). split; assumption.
Qed.

Lemma same_tree_app P a a' b b' :
  same_tree P a a' -> same_tree P b b' -> same_tree P (a ++ b) (a' ++ b').
Proof.
  revert a'. induction a as [|x a IH]; intros a' Ha Hb.
  - apply same_tree_nil in Ha. subst a'. exact Hb.
  - apply same_tree_cons in Ha. destruct Ha as (x' & r' & -> & H1 & H2).
    cbn [app same_tree]. split; [exact H1 | apply IH; assumption].
Qed.

(** The induction principle that is used throughout: on the first tree, with the second one
    quantified. *)
Lemma same_ind (P : str -> str -> Prop) (Q1 : ast -> ast -> Prop) (Q : list ast -> list ast -> Prop) :
  (forall t, Q1 (AT t) (AT t)) ->
  (forall b b', P b b' -> Q1 (AC b) (AC b')) ->
  (forall b1 b2 kids b1' b2' kids', P b1 b1' -> P b2 b2' -> same_tree P kids kids' ->
     Q kids kids' -> Q1 (AE b1 b2 kids) (AE b1' b2' kids')) ->
  Q [] [] ->
  (forall x x' f f', same1 P x x' -> same_tree P f f' -> Q1 x x' -> Q f f' -> Q (x :: f) (x' :: f')) ->
  (forall a a', same1 P a a' -> Q1 a a') /\ (forall f f', same_tree P f f' -> Q f f').
Proof.
  intros HT HC HE Hn Hc.
  apply (ast_forest_ind (fun a => forall a', same1 P a a' -> Q1 a a')
                        (fun f => forall f', same_tree P f f' -> Q f f')).
  - intros t a' H. apply same1_AT in H. subst a'. apply HT.
  - intros b a' H. apply same1_AC in H. destruct H as (b' & -> & H). apply HC. exact H.
  - intros b1 b2 kids IH a' H. apply same1_AE in H. destruct H as (c1 & c2 & k' & -> & H1 & H2 & H3).
    apply HE; try assumption. apply IH. exact H3.
  - intros f' H. apply same_tree_nil in H. subst f'. exact Hn.
  - intros x f Hx Hf f' H. apply same_tree_cons in H. destruct H as (x' & r' & -> & H1 & H2).
    apply Hc; try assumption; [apply Hx | apply Hf]; assumption.
Qed.

(** ** Documents *)

Lemma shape_rel_app P a a' b b' : shape_rel P a a' -> shape_rel P b b' -> shape_rel P (a ++ b) (a' ++ b').
Proof. intros H1 H2. apply Forall2_app; assumption. Qed.

Lemma same_doc_both P :
  (forall a a', same1 P a a' -> shape_rel P (items_of a) (items_of a')) /\
  (forall f f', same_tree P f f' -> shape_rel P (doc_of f) (doc_of f')).
Proof.
  apply (same_ind P (fun a a' => shape_rel P (items_of a) (items_of a'))
                    (fun f f' => shape_rel P (doc_of f) (doc_of f'))).
  - intros t. constructor; [reflexivity | constructor].
  - intros b b' H. constructor; [exact H | constructor].
  - intros b1 b2 kids c1 c2 k' H1 H2 _ IH. rewrite !items_AE.
    apply shape_rel_app; [constructor; [exact H1 | constructor]|].
    apply shape_rel_app; [exact IH|]. constructor; [exact H2 | constructor].
  - constructor.
  - intros x x' f f' _ _ Hx Hf. rewrite !doc_of_cons. apply shape_rel_app; assumption.
Qed.

(** The documents of two trees of the same structure have the same shape, with related bodies. *)
Theorem same_tree_doc P f f' : same_tree P f f' -> shape_rel P (doc_of f) (doc_of f').
Proof. apply (proj2 (same_doc_both P)). Qed.

Lemma same1_doc P a a' : same1 P a a' -> shape_rel P (items_of a) (items_of a').
Proof. apply (proj1 (same_doc_both P)). Qed.

Lemma shape_rel_length P d1 d2 : shape_rel P d1 d2 -> length d1 = length d2.
Proof. intros H. apply same_shape_length. apply (shape_rel_same P). exact H. Qed.

Lemma same1_size P a a' : same1 P a a' -> size a = size a'.
Proof. intros H. rewrite <- !size_items. apply (shape_rel_length P). apply same1_doc. exact H. Qed.

Lemma same_tree_sizes P f f' : same_tree P f f' -> sizes f = sizes f'.
Proof. intros H. rewrite <- !sizes_doc. apply (shape_rel_length P). apply same_tree_doc. exact H. Qed.

(** ** The nodes correspond *)

(** The opening tag bodies of the [AE] nodes in pre-order. *)
Definition opens (f : list ast) : list str := map fst (ast_pairs f).

Lemma opens_cons x f : opens (x :: f) = opens [x] ++ opens f.
Proof. unfold opens. rewrite ast_pairs_cons, map_app. unfold ast_pairs. cbn [flat_map]. rewrite app_nil_r. reflexivity. Qed.

Lemma opens_AE b1 b2 kids : opens [AE b1 b2 kids] = b1 :: opens kids.
Proof. unfold opens, ast_pairs. cbn [flat_map pairs1 map fst app]. rewrite app_nil_r. reflexivity. Qed.

Lemma opens_AT t : opens [AT t] = [].
Proof. reflexivity. Qed.
Lemma opens_AC b : opens [AC b] = [].
Proof. reflexivity. Qed.

(** Corresponding nodes: the same item indices, related bodies. *)
Definition node_rel (P : str -> str -> Prop) (n n' : str * str * nat * nat) : Prop :=
  match n, n' with
  | (b1, b2, o, c), (b1', b2', o', c') => P b1 b1' /\ P b2 b2' /\ o = o' /\ c = c'
  end.

Lemma same_nodes_both P :
  (forall a a', same1 P a a' -> forall base, Forall2 (node_rel P) (nodes1 base a) (nodes1 base a')) /\
  (forall f f', same_tree P f f' -> forall base, Forall2 (node_rel P) (ast_nodes base f) (ast_nodes base f')).
Proof.
  apply (same_ind P
    (fun a a' => forall base, Forall2 (node_rel P) (nodes1 base a) (nodes1 base a'))
    (fun f f' => forall base, Forall2 (node_rel P) (ast_nodes base f) (ast_nodes base f'))).
  - intros t base. constructor.
  - intros b b' _ base. constructor.
  - intros b1 b2 kids c1 c2 k' H1 H2 Hk IH base. rewrite !nodes1_AE. constructor.
    + cbn [node_rel]. rewrite (same_tree_sizes P _ _ Hk). repeat split; assumption.
    + apply IH.
  - intros base. constructor.
  - intros x x' f f' Hx _ IHx IHf base. cbn [ast_nodes]. apply Forall2_app; [apply IHx|].
    rewrite (same1_size P _ _ Hx). apply IHf.
Qed.

(** The [AE] nodes of two trees of the same structure correspond: same indices of the two tags
    in the documents, related bodies. *)
Theorem same_tree_nodes P f f' base : same_tree P f f' ->
  Forall2 (node_rel P) (ast_nodes base f) (ast_nodes base f').
Proof. intros H. apply (proj2 (same_nodes_both P) f f' H). Qed.

Lemma same_opens_both P :
  (forall a a', same1 P a a' -> Forall2 P (opens [a]) (opens [a'])) /\
  (forall f f', same_tree P f f' -> Forall2 P (opens f) (opens f')).
Proof.
  apply (same_ind P (fun a a' => Forall2 P (opens [a]) (opens [a']))
                    (fun f f' => Forall2 P (opens f) (opens f'))).
  - intros t. constructor.
  - intros b b' _. constructor.
  - intros b1 b2 kids c1 c2 k' H1 _ _ IH. rewrite !opens_AE. constructor; assumption.
  - constructor.
  - intros x x' f f' _ _ Hx Hf. rewrite (opens_cons x), (opens_cons x'). apply Forall2_app; assumption.
Qed.

Theorem same_tree_opens P f f' : same_tree P f f' -> Forall2 P (opens f) (opens f').
Proof. apply (proj2 (same_opens_both P)). Qed.

(* ------------------------------------------------------------------------- *)
(** * Part 2: corresponding masks, and normalisation *)

(** Two masks agree at the corresponding outer positions of two documents ([sb], [sb'] are the
    symbol indices of the first symbols). *)
Definition agree (del del' : nat -> bool) (sb sb' : nat) (d d' : list item) : Prop :=
  forall j, outer d j -> j < length (flat d) -> del (sb + j) = del' (sb' + tr d d' j).

Lemma agree_txt_tail del del' sb sb' t r r' :
  agree del del' sb sb' (Txt t :: r) (Txt t :: r') -> agree del del' (sb + length t) (sb' + length t) r r'.
Proof.
  intros H j Hj Hl. rewrite <- !Nat.add_assoc, <- (tr_txt_ge t r (Txt t) r' j). apply H.
  - unfold outer. rewrite outer_txt_ge. exact Hj.
  - rewrite len_flat_txt. lia.
Qed.

Lemma agree_tag_tail del del' sb sb' b b' r r' :
  agree del del' sb sb' (Tag b :: r) (Tag b' :: r') ->
  agree del del' (sb + (length b + 2)) (sb' + (length b' + 2)) r r'.
Proof.
  intros H j Hj Hl.
  replace (sb + (length b + 2) + j) with (sb + (length b + 2 + j)) by lia.
  replace (sb' + (length b' + 2) + tr r r' j) with (sb' + (length b' + 2 + tr r r' j)) by lia.
  rewrite <- (tr_tag_ge b b' r r' j). apply H.
  - unfold outer. rewrite outer_tag_ge. exact Hj.
  - rewrite len_flat_tag. lia.
Qed.

Lemma agree_tag_head del del' sb sb' b b' r r' :
  agree del del' sb sb' (Tag b :: r) (Tag b' :: r') -> del sb = del' sb'.
Proof.
  intros H. pose proof (H 0 (outer_tag_0 b r) ltac:(rewrite len_flat_tag; lia)) as H0.
  rewrite tr_0, !Nat.add_0_r in H0. exact H0.
Qed.

Lemma agree_txt_head del del' sb sb' t r r' :
  agree del del' sb sb' (Txt t :: r) (Txt t :: r') -> kept_from sb del t = kept_from sb' del' t.
Proof.
  intros H. apply kept_from_ext. intros k Hk.
  rewrite (H k (outer_txt_lt t r k Hk)) by (rewrite len_flat_txt; lia).
  rewrite (tr_txt_lt t r _ r' k Hk). reflexivity.
Qed.

(** Skipping a prefix of the same shape. *)
Lemma agree_app_tail del del' : forall a a', same_shape a a' -> forall sb sb' r r',
  agree del del' sb sb' (a ++ r) (a' ++ r') ->
  agree del del' (sb + length (flat a)) (sb' + length (flat a')) r r'.
Proof.
  apply (same_shape_ind' (fun a a' => forall sb sb' r r',
    agree del del' sb sb' (a ++ r) (a' ++ r') ->
    agree del del' (sb + length (flat a)) (sb' + length (flat a')) r r')).
  - intros sb sb' r r' H. cbn [flat flat_map length]. rewrite !Nat.add_0_r. exact H.
  - intros t a a' _ IH sb sb' r r' H. cbn [app] in H. apply agree_txt_tail in H. apply IH in H.
    rewrite !len_flat_txt, !Nat.add_assoc. exact H.
  - intros b b' a a' _ IH sb sb' r r' H. cbn [app] in H. apply agree_tag_tail in H. apply IH in H.
    rewrite !len_flat_tag.
    replace (sb + (length b + 2 + length (flat a))) with (sb + (length b + 2) + length (flat a)) by lia.
    replace (sb' + (length b' + 2 + length (flat a'))) with (sb' + (length b' + 2) + length (flat a')) by lia.
    exact H.
Qed.

Lemma same_mask_both P del del' :
  (forall a a', same1 P a a' -> forall post post' sb sb',
     agree del del' sb sb' (items_of a ++ post) (items_of a' ++ post') ->
     same_tree P (mask1 del sb a) (mask1 del' sb' a')) /\
  (forall f f', same_tree P f f' -> forall post post' sb sb',
     agree del del' sb sb' (doc_of f ++ post) (doc_of f' ++ post') ->
     same_tree P (ast_mask del sb f) (ast_mask del' sb' f')).
Proof.
  apply (same_ind P
    (fun a a' => forall post post' sb sb',
       agree del del' sb sb' (items_of a ++ post) (items_of a' ++ post') ->
       same_tree P (mask1 del sb a) (mask1 del' sb' a'))
    (fun f f' => forall post post' sb sb',
       agree del del' sb sb' (doc_of f ++ post) (doc_of f' ++ post') ->
       same_tree P (ast_mask del sb f) (ast_mask del' sb' f'))).
  - intros t post post' sb sb' H. cbn [items_of app] in H. cbn [mask1].
    rewrite (agree_txt_head _ _ _ _ _ _ _ H). cbn [same_tree same1]. split; [reflexivity | exact I].
  - intros b b' Hb post post' sb sb' H. cbn [items_of app] in H. cbn [mask1].
    rewrite (agree_tag_head _ _ _ _ _ _ _ _ H). destruct (del' sb'); cbn [same_tree same1]; [exact I|].
    split; [exact Hb | exact I].
  - intros b1 b2 kids c1 c2 k' H1 H2 Hk IH post post' sb sb' H.
    rewrite !mask1_AE. rewrite !items_AE in H. rewrite <- !app_assoc in H. cbn [app] in H.
    rewrite (agree_tag_head _ _ _ _ _ _ _ _ H). apply agree_tag_tail in H.
    specialize (IH _ _ _ _ H).
    destruct (del' sb'); [exact IH|]. cbn [same_tree]. split; [|exact I].
    apply same1_AE. exists c1, c2, (ast_mask del' (sb' + (length c1 + 2)) k'). repeat split; assumption.
  - intros post post' sb sb' _. exact I.
  - intros x x' f f' Hx Hf IHx IHf post post' sb sb' H.
    rewrite !ast_mask_cons. rewrite !doc_of_cons, <- !app_assoc in H.
    apply same_tree_app; [apply (IHx _ _ _ _ H)|].
    apply (IHf post post'). unfold flen.
    apply agree_app_tail; [|exact H]. apply (shape_rel_same P). apply same1_doc. exact Hx.
Qed.

(** [same_tree] is closed under corresponding masks. *)
Theorem same_tree_mask P del del' f f' :
  same_tree P f f' -> agree del del' 0 0 (doc_of f) (doc_of f') ->
  same_tree P (ast_mask del 0 f) (ast_mask del' 0 f').
Proof.
  intros H Ha. apply (proj2 (same_mask_both P del del') f f' H [] []). rewrite !app_nil_r. exact Ha.
Qed.

Lemma same_acons' P x x' nr nr' :
  same1 P x x' -> same_tree P nr nr' -> same_tree P (acons' x nr) (acons' x' nr').
Proof.
  intros Hx Hn. destruct x as [t|b|b1 b2 k].
  - apply same1_AT in Hx. subst x'. cbn [acons']. destruct t as [|c t]; [exact Hn|]. cbn [acons].
    destruct nr as [|y nr].
    + apply same_tree_nil in Hn. subst nr'. cbn [same_tree same1]. split; [reflexivity | exact I].
    + apply same_tree_cons in Hn. destruct Hn as (y' & r' & -> & Hy & Hr).
      destruct y as [u|b|b1 b2 k].
      * apply same1_AT in Hy. subst y'. cbn [same_tree same1]. split; [reflexivity | exact Hr].
      * pose proof Hy as Hy'. apply same1_AC in Hy'. destruct Hy' as (b' & -> & _).
        cbn [same_tree]. split; [reflexivity|]. split; [exact Hy | exact Hr].
      * pose proof Hy as Hy'. apply same1_AE in Hy'. destruct Hy' as (c1 & c2 & k' & -> & _).
        cbn [same_tree]. split; [reflexivity|]. split; [exact Hy | exact Hr].
  - pose proof Hx as Hx'. apply same1_AC in Hx'. destruct Hx' as (b' & -> & _). cbn [acons' same_tree].
    split; assumption.
  - pose proof Hx as Hx'. apply same1_AE in Hx'. destruct Hx' as (c1 & c2 & k' & -> & _).
    cbn [acons' same_tree]. split; assumption.
Qed.

Lemma same_norm_both P :
  (forall a a', same1 P a a' -> same1 P (norm_a a) (norm_a a')) /\
  (forall f f', same_tree P f f' -> same_tree P (ast_norm f) (ast_norm f')).
Proof.
  apply (same_ind P (fun a a' => same1 P (norm_a a) (norm_a a'))
                    (fun f f' => same_tree P (ast_norm f) (ast_norm f'))).
  - intros t. reflexivity.
  - intros b b' H. exact H.
  - intros b1 b2 kids c1 c2 k' H1 H2 _ IH. rewrite !norm_a_AE. apply same1_AE.
    exists c1, c2, (ast_norm k'). repeat split; assumption.
  - exact I.
  - intros x x' f f' _ _ Hx Hf. cbn [ast_norm]. apply same_acons'; assumption.
Qed.

(** [same_tree] is closed under normalisation. *)
Theorem same_tree_norm P f f' : same_tree P f f' -> same_tree P (ast_norm f) (ast_norm f').
Proof. apply (proj2 (same_norm_both P)). Qed.

(* ------------------------------------------------------------------------- *)
(** * Part 3: the markers are the spans of the maximal ready nodes *)

(** The maximal ready nodes in document order, as pairs of item indices: the opening tag, and
    the item after the closing tag. *)
Fixpoint tops1 (cfg : config) (base : nat) (a : ast) : list (nat * nat) :=
  match a with
  | AT _ => []
  | AC _ => []
  | AE b1 b2 kids =>
    if el_readyb cfg b1 then [(base, S (S base + sizes kids))]
    else (fix go (b : nat) (l : list ast) : list (nat * nat) :=
            match l with
            | [] => []
            | x :: l' => tops1 cfg b x ++ go (b + size x) l'
            end) (S base) kids
  end.
Fixpoint tops (cfg : config) (base : nat) (f : list ast) : list (nat * nat) :=
  match f with
  | [] => []
  | x :: f' => tops1 cfg base x ++ tops cfg (base + size x) f'
  end.

Lemma tops1_AE cfg base b1 b2 kids :
  tops1 cfg base (AE b1 b2 kids) =
  if el_readyb cfg b1 then [(base, S (S base + sizes kids))] else tops cfg (S base) kids.
Proof.
  cbn [tops1]. destruct (el_readyb cfg b1); [reflexivity|]. generalize (S base). clear base.
  induction kids as [|x kids IH]; intros b; [reflexivity|]. cbn [tops]. rewrite <- IH. reflexivity.
Qed.

Lemma tops_bound_both cfg :
  (forall a base r, In r (tops1 cfg base a) -> base <= fst r /\ fst r < snd r /\ snd r <= base + size a) /\
  (forall f base r, In r (tops cfg base f) -> base <= fst r /\ fst r < snd r /\ snd r <= base + sizes f).
Proof.
  apply (ast_forest_ind
    (fun a => forall base r, In r (tops1 cfg base a) -> base <= fst r /\ fst r < snd r /\ snd r <= base + size a)
    (fun f => forall base r, In r (tops cfg base f) -> base <= fst r /\ fst r < snd r /\ snd r <= base + sizes f)).
  - intros t base r [].
  - intros b base r [].
  - intros b1 b2 kids IH base r H. rewrite tops1_AE in H. cbn [size]. fold (sizes kids).
    destruct (el_readyb cfg b1).
    + destruct H as [<-|[]]. cbn [fst snd]. lia.
    + apply IH in H. lia.
  - intros base r [].
  - intros x f Hx Hf base r H. cbn [tops] in H. rewrite sizes_cons. apply in_app_or in H.
    destruct H as [H|H]; [apply Hx in H | apply Hf in H]; lia.
Qed.

Lemma tops_bound cfg f r : In r (tops cfg 0 f) -> fst r <= length (doc_of f) /\ snd r <= length (doc_of f).
Proof.
  intros H. apply (proj2 (tops_bound_both cfg)) in H. rewrite sizes_doc. lia.
Qed.

(** The decisions on the opening tags, in pre-order. *)
Definition decisions (cfg : config) (f : list ast) : list bool := map (el_readyb cfg) (opens f).

Lemma app_eq_len {A} (a a' b b' : list A) : length a = length a' -> a ++ b = a' ++ b' -> a = a' /\ b = b'.
Proof.
  revert a'. induction a as [|x a IH]; intros [|x' a'] Hl H; try discriminate Hl.
  - split; [reflexivity | exact H].
  - cbn [app] in H. inversion H as [[E1 E2]]. cbn [length] in Hl.
    destruct (IH a' ltac:(lia) E2) as [-> ->]. split; reflexivity.
Qed.

Lemma decisions_cons cfg x f : decisions cfg (x :: f) = decisions cfg [x] ++ decisions cfg f.
Proof. unfold decisions. rewrite (opens_cons x f), map_app. reflexivity. Qed.

Lemma decisions_length P cfg cfg' f f' : same_tree P f f' -> length (decisions cfg f) = length (decisions cfg' f').
Proof.
  intros H. unfold decisions. rewrite !map_length.
  apply same_tree_opens in H. induction H as [|? ? ? ? _ _ IH]; [reflexivity | cbn [length]; congruence].
Qed.

Lemma same1_singleton P x x' : same1 P x x' -> same_tree P [x] [x'].
Proof. intros H. split; [exact H | exact I]. Qed.

Lemma same_tops_both P cfg cfg' :
  (forall a a', same1 P a a' -> decisions cfg [a] = decisions cfg' [a'] ->
     forall base, tops1 cfg base a = tops1 cfg' base a') /\
  (forall f f', same_tree P f f' -> decisions cfg f = decisions cfg' f' ->
     forall base, tops cfg base f = tops cfg' base f').
Proof.
  apply (same_ind P
    (fun a a' => decisions cfg [a] = decisions cfg' [a'] -> forall base, tops1 cfg base a = tops1 cfg' base a')
    (fun f f' => decisions cfg f = decisions cfg' f' -> forall base, tops cfg base f = tops cfg' base f')).
  - reflexivity.
  - reflexivity.
  - intros b1 b2 kids c1 c2 k' _ _ Hk IH Hd base. rewrite !tops1_AE.
    unfold decisions in Hd. rewrite !opens_AE in Hd. cbn [map] in Hd. inversion Hd as [[E1 E2]].
    rewrite E1, (same_tree_sizes P _ _ Hk). destruct (el_readyb cfg' c1); [reflexivity|].
    apply IH. exact E2.
  - reflexivity.
  - intros x x' f f' Hx Hf IHx IHf Hd base. rewrite (decisions_cons cfg x), (decisions_cons cfg' x') in Hd.
    apply app_eq_len in Hd; [|apply (decisions_length P); apply same1_singleton; exact Hx].
    destruct Hd as [D1 D2]. cbn [tops]. rewrite (IHx D1), (same1_size P _ _ Hx), (IHf D2). reflexivity.
Qed.

(** With the same decisions on corresponding nodes, the maximal ready nodes are the same. *)
Theorem same_tree_tops P cfg cfg' f f' :
  same_tree P f f' -> decisions cfg f = decisions cfg' f' -> tops cfg 0 f = tops cfg' 0 f'.
Proof. intros H Hd. apply (proj2 (same_tops_both P cfg cfg') f f' H Hd). Qed.

(** The roots of the forest of spans. *)
Lemma rforest_tops_both cfg F : mono F ->
  (forall a base, tag_strict F (nodes1 base a) ->
     flat_map flat_ranges_tree (rforest1 cfg F base a) = map (map_range F) (tops1 cfg base a)) /\
  (forall f base, tag_strict F (ast_nodes base f) ->
     flat_map flat_ranges_tree (rforest cfg F base f) = map (map_range F) (tops cfg base f)).
Proof.
  intros HF.
  apply (ast_forest_ind
    (fun a => forall base, tag_strict F (nodes1 base a) ->
       flat_map flat_ranges_tree (rforest1 cfg F base a) = map (map_range F) (tops1 cfg base a))
    (fun f => forall base, tag_strict F (ast_nodes base f) ->
       flat_map flat_ranges_tree (rforest cfg F base f) = map (map_range F) (tops cfg base f))).
  - reflexivity.
  - reflexivity.
  - intros b1 b2 kids IH base Hs. rewrite nodes1_AE in Hs. rewrite rforest1_AE, tops1_AE.
    destruct (Hs (b1, b2, base, S base + sizes kids) (or_introl eq_refl)) as [So _].
    cbn [node_open] in So.
    pose proof (HF (S base) (S (S base + sizes kids)) ltac:(lia)) as M.
    unfold span_tree.
    replace (F base <? F (S (S base + sizes kids))) with true by (symmetry; apply Nat.ltb_lt; lia).
    rewrite andb_true_r. destruct (el_readyb cfg b1).
    + reflexivity.
    + apply IH. intros n Hn. apply Hs. right. exact Hn.
  - reflexivity.
  - intros x f Hx Hf base Hs. cbn [ast_nodes] in Hs. apply tag_strict_app in Hs. destruct Hs as [S1 S2].
    cbn [rforest tops]. rewrite flat_map_app, map_app, (Hx base S1), (Hf _ S2). reflexivity.
Qed.

Lemma root_none_untouched t : root_none t -> untouched t.
Proof. destruct t as [[h [c|]] ch]; cbn [root_none]; intros H; [discriminate H | exact I]. Qed.

Lemma all_none_markers (ams : list marker) :
  (forall m, In m ams -> snd m = None) -> ams = map (fun r => (r, @None nat)) (map fst ams).
Proof.
  induction ams as [|[r o] ams IH]; intros H; [reflexivity|].
  cbn [map fst]. pose proof (H (r, o) (or_introl eq_refl)) as E. cbn [snd] in E. subst o.
  rewrite <- IH; [reflexivity|]. intros m Hm. apply H. right. exact Hm.
Qed.

(** The markers of a forest without unwrap-block elements: one marker without pair index for
    every maximal ready node, in document order. *)
Theorem markers_tops cfg f : Forall ast_ok f -> no_unwrap f ->
  exists ams, merge_markers (fst (a_collect cfg (doc_of f) false)) = Ok ams /\
    map fst ams = map (map_range (fstart (doc_of f))) (tops cfg 0 f) /\
    (forall m, In m ams -> snd m = None) /\
    sorted_nonempty_from 0 (map fst ams) /\
    (forall i, in_rangesb (map fst ams) i = del1 cfg f i).
Proof.
  intros Hok Hnu.
  destruct (a_collect_markers cfg f Hok Hnu) as (ams & E & S1 & _ & _ & K' & _).
  pose proof (markers_no_pairs cfg f ams Hok Hnu E) as Hnp.
  exists ams. split; [exact E|]. split; [|split; [exact Hnp | split; [exact S1 | exact K']]].
  pose proof (a_collect_wf cfg f Hok Hnu) as Hwf.
  rewrite (a_collect_rforest cfg f Hok Hnu) in E, Hwf.
  rewrite (merge_markers_shape _ _ _ ams Hwf) ; [| |exact E].
  - apply (proj2 (rforest_tops_both cfg (fstart (doc_of f)) (fstart_mono (doc_of f)))).
    apply ast_tag_strict.
  - pose proof (proj2 (rforest_roots_both cfg (fstart (doc_of f))) f 0) as Hr.
    rewrite Forall_forall in *. intros t Ht. apply root_none_untouched. apply Hr. exact Ht.
Qed.

(* ------------------------------------------------------------------------- *)
(** * Part 4: the new index of an outer position after a deletion *)

Lemma rank_from_kept : forall t b del, rank_from b del (length t) = length (kept_from b del t).
Proof.
  induction t as [|c t IH]; intros b del; [reflexivity|].
  cbn [length rank_from kept_from]. rewrite IH. destruct (del b); reflexivity.
Qed.

Lemma rank_from_ext2 : forall n a b P Q, (forall i, i < n -> P (a + i) = Q (b + i)) ->
  rank_from a P n = rank_from b Q n.
Proof.
  induction n as [|n IH]; intros a b P Q H; [reflexivity|].
  cbn [rank_from]. pose proof (H 0 ltac:(lia)) as H0. rewrite !Nat.add_0_r in H0. rewrite H0.
  rewrite (IH (S a) (S b) P Q); [reflexivity|].
  intros i Hi. replace (S a + i) with (a + S i) by lia. replace (S b + i) with (b + S i) by lia.
  apply H. lia.
Qed.

Lemma rank_from_mono k P n m : n <= m -> rank_from k P n <= rank_from k P m.
Proof. intros H. replace m with (n + (m - n)) by lia. rewrite rank_from_add. lia. Qed.

Lemma txt_le_outer t r1 it r2 k : k <= length t ->
  outerb (Txt t :: r1) k = true /\ tr (Txt t :: r1) (it :: r2) k = k.
Proof.
  intros H. destruct (Nat.eq_dec k (length t)) as [->|N].
  - pose proof (outer_txt_ge t r1 0) as E1. pose proof (tr_txt_ge t r1 it r2 0) as E2.
    rewrite Nat.add_0_r in E1, E2. rewrite E1, E2, outer_0, tr_0. split; [reflexivity | lia].
  - rewrite outer_txt_lt, tr_txt_lt by lia. split; reflexivity.
Qed.

(** After deleting two masks that agree at corresponding outer positions (and contain every tag
    wholly or not at all), the new index of an outer position is an outer position of the masked
    document, and the translation between the masked documents maps it to the new index of the
    translated position. *)
Lemma rank_tr P : forall d1 d2, shape_rel P d1 d2 -> forall del1 del2 b1 b2,
  agree del1 del2 b1 b2 d1 d2 -> item_respecting del1 b1 d1 -> item_respecting del2 b2 d2 ->
  forall j, outer d1 j ->
    outer (doc_mask del1 b1 d1) (rank_from b1 del1 j) /\
    tr (doc_mask del1 b1 d1) (doc_mask del2 b2 d2) (rank_from b1 del1 j) = rank_from b2 del2 (tr d1 d2 j).
Proof.
  unfold outer.
  apply (shape_rel_ind' P (fun d1 d2 => forall del1 del2 b1 b2,
    agree del1 del2 b1 b2 d1 d2 -> item_respecting del1 b1 d1 -> item_respecting del2 b2 d2 ->
    forall j, outerb d1 j = true ->
      outerb (doc_mask del1 b1 d1) (rank_from b1 del1 j) = true /\
      tr (doc_mask del1 b1 d1) (doc_mask del2 b2 d2) (rank_from b1 del1 j) = rank_from b2 del2 (tr d1 d2 j))).
  - intros del1 del2 b1 b2 _ _ _ j Hj. cbn [outerb] in Hj. apply Nat.eqb_eq in Hj. subst j.
    split; reflexivity.
  - intros t r1 r2 _ IH del1 del2 b1 b2 Ha I1 I2 j Hj. cbn [doc_mask].
    pose proof (agree_txt_head _ _ _ _ _ _ _ Ha) as Et.
    apply item_respecting_tail in I1, I2. rewrite (flat_item_len (Txt t)) in I1, I2.
    destruct (txt_cases t j) as [L|[j' ->]].
    + rewrite (tr_txt_lt t r1 _ r2 j L).
      assert (rank_from b2 del2 j = rank_from b1 del1 j) as ->.
      { symmetry. apply rank_from_ext2. intros i Hi.
        rewrite (Ha i (outer_txt_lt t r1 i ltac:(lia))) by (rewrite len_flat_txt; lia).
        rewrite (tr_txt_lt t r1 _ r2 i) by lia. reflexivity. }
      apply txt_le_outer. rewrite <- rank_from_kept. apply rank_from_mono. lia.
    + rewrite outer_txt_ge in Hj.
      destruct (IH del1 del2 _ _ (agree_txt_tail _ _ _ _ _ _ _ Ha) I1 I2 j' Hj) as [HO HT].
      rewrite tr_txt_ge, (rank_from_add (length t) j'), (rank_from_add (length t)), !rank_from_kept, <- Et.
      rewrite outer_txt_ge, tr_txt_ge, HT. split; [exact HO | reflexivity].
  - intros c1 c2 r1 r2 _ _ IH del1 del2 b1 b2 Ha I1 I2 j Hj.
    pose proof (agree_tag_head _ _ _ _ _ _ _ _ Ha) as H0.
    pose proof (item_respecting_head _ _ _ _ I1) as Hh1.
    pose proof (item_respecting_head _ _ _ _ I2) as Hh2.
    apply item_respecting_tail in I1, I2.
    rewrite (flat_item_len (Tag c1)) in I1. rewrite (flat_item_len (Tag c2)) in I2.
    destruct (tag_cases c1 j) as [->|[L|[j' ->]]].
    + rewrite tr_0. cbn [rank_from]. rewrite outer_0, tr_0. split; reflexivity.
    + rewrite (outer_tag_in c1 r1 j L) in Hj. discriminate Hj.
    + rewrite outer_tag_ge in Hj.
      destruct (IH del1 del2 _ _ (agree_tag_tail _ _ _ _ _ _ _ _ Ha) I1 I2 j' Hj) as [HO HT].
      rewrite tr_tag_ge, (rank_from_add (length c1 + 2) j'), (rank_from_add (length c2 + 2)).
      rewrite (rank_from_const (length c1 + 2) b1 del1 (del1 b1) Hh1).
      rewrite (rank_from_const (length c2 + 2) b2 del2 (del2 b2) Hh2).
      cbn [doc_mask]. rewrite H0. destruct (del2 b2).
      * cbn [Nat.add]. split; [exact HO | exact HT].
      * rewrite outer_tag_ge, tr_tag_ge, HT. split; [exact HO | reflexivity].
Qed.

(* ------------------------------------------------------------------------- *)
(** * Part 5: one run of [clean] with its explicit mask *)

(** The mask of one run: the spans [R] of the markers, and the whitespace ranges [aR] over the
    residual symbol list. *)
Definition run_mask (R aR : list (nat * nat)) (i : nat) : bool :=
  in_rangesb R i || in_rangesb aR (sindex R i).

(** [Proofs.Idempotent.clean_run_mask] with the markers and the whitespace ranges exposed. *)
Theorem clean_run_explicit cfg ds de f ams :
  good_delims ds de -> good_doc ds de (doc_of f) -> bodies_ok (doc_of f) ->
  merge_markers (fst (a_collect cfg (doc_of f) false)) = Ok ams ->
  (forall m, In m ams -> snd m = None) ->
  sorted_nonempty_from 0 (map fst ams) ->
  (forall i, in_rangesb (map fst ams) i = del1 cfg f i) ->
  exists aR,
    a_format_ranges (sdelete (map fst ams) (flat (doc_of f))) (a_removed_pos ams) = Ok aR /\
    pair_respecting (run_mask (map fst ams) aR) f /\
    clean cfg ds de (render ds de (doc_of f)) =
      Ok (rs ds de (sdel_from 0 (run_mask (map fst ams) aR) (flat (doc_of f)))).
Proof.
  intros Hgd Hdoc Hbod E Hnp S1 K'.
  pose proof (good_delims_sp_ok ds de Hgd) as Hsp.
  destruct (clean_rendered_np cfg ds de (doc_of f) ams Hgd Hdoc Hbod E Hnp)
    as (aR & EaR & Ecl & Hws & Hconf).
  pose proof (kept_tag_untouched ds de cfg f ams aR Hsp S1 K' Hconf) as KT.
  exists aR. split; [exact EaR|].
  unfold run_mask.
  set (doc := doc_of f) in *. set (R := map fst ams) in *. set (P1 := in_rangesb R) in *.
  set (l := flat doc) in *. set (l' := sdelete R l) in *.
  split; [split|].
  - (* constant on every tag *)
    intros it b Hit j Hj. cbn [Nat.add] in *. fold doc in Hit, Hj. fold doc.
    assert (P1 j = P1 (fstart doc it)) as Ec.
    { unfold P1. rewrite !K'. apply (del1_const_tag cfg f it b _ _ Hit); fold doc; [lia|].
      rewrite (AstCollect.fstart_tag doc it b Hit). lia. }
    rewrite Ec. destruct (P1 (fstart doc it)) eqn:E0; [reflexivity|]. cbn [orb].
    rewrite (KT it b Hit E0 j Hj). rewrite (KT it b Hit E0 (fstart doc it)); [reflexivity|].
    rewrite (AstCollect.fstart_tag doc it b Hit). lia.
  - (* the two tags of a node *)
    intros b1 b2 o c Hn.
    pose proof (ast_nodes_at f 0 _ Hn) as (i & j & -> & -> & _ & Hi & Hj). cbn [Nat.add].
    fold doc in Hi, Hj. fold doc.
    assert (P1 (fstart doc i) = P1 (fstart doc j)) as Ec.
    { unfold P1. rewrite !K'. apply (del1_node_tags' cfg f b1 b2 i j Hn). }
    rewrite <- Ec. destruct (P1 (fstart doc i)) eqn:E0; [reflexivity|]. cbn [orb].
    rewrite (KT i b1 Hi E0 (fstart doc i)) by (rewrite (AstCollect.fstart_tag doc i b1 Hi); lia).
    symmetry in Ec.
    rewrite (KT j b2 Hj Ec (fstart doc j)) by (rewrite (AstCollect.fstart_tag doc j b2 Hj); lia).
    reflexivity.
  - rewrite Ecl. unfold l', sdelete. rewrite sdel_compose. reflexivity.
Qed.

(* ------------------------------------------------------------------------- *)
(** * Part 6: cleaning commutes with respelling *)

Lemma ranges_on_tr d1 d2 R : same_shape d1 d2 -> ranges_on (outer d1) R ->
  ranges_on (outer d2) (map (map_range (tr d1 d2)) R).
Proof.
  intros H HR r' Hin. apply in_map_iff in Hin. destruct Hin as (r & <- & Hin).
  destruct (HR r Hin) as [Ha Hb]. split; [rewrite fst_map_range | rewrite snd_map_range];
    apply (tr_outer d1 d2 H); assumption.
Qed.

(** The general form: the decisions on the opening tags of corresponding elements agree. *)
Theorem clean_respell_gen : forall (P : str -> str -> Prop) cfg cfg' ds de f f' out,
  good_delims ds de ->
  good_doc ds de (doc_of f) -> bodies_ok (doc_of f) -> Forall ast_ok f -> no_unwrap f ->
  good_doc ds de (doc_of f') -> bodies_ok (doc_of f') -> Forall ast_ok f' -> no_unwrap f' ->
  same_tree P f f' ->
  decisions cfg f = decisions cfg' f' ->
  clean cfg ds de (render ds de (doc_of f)) = Ok out ->
  exists g g', out = render ds de (doc_of g) /\
               clean cfg' ds de (render ds de (doc_of f')) = Ok (render ds de (doc_of g')) /\
               same_tree P g g' /\ Forall ast_ok g /\ Forall ast_ok g'.
Proof.
  intros P cfg cfg' ds de f f' out Hgd Hdoc Hbod Hok Hnu Hdoc' Hbod' Hok' Hnu' Hst Hdec Hc.
  pose proof (same_tree_doc P f f' Hst) as HP.
  pose proof (shape_rel_same P _ _ HP) as Hsh.
  (* the markers *)
  destruct (markers_tops cfg f Hok Hnu) as (ams & E & ER & Hnp & S1 & K).
  destruct (markers_tops cfg' f' Hok' Hnu') as (ams' & E' & ER' & Hnp' & S1' & K').
  rewrite <- (same_tree_tops P cfg cfg' f f' Hst Hdec) in ER'.
  set (d := doc_of f) in *. set (d' := doc_of f') in *.
  set (R := map fst ams) in *. set (R' := map fst ams') in *.
  assert (ranges_on (outer d) R) as HRo.
  { intros r Hr. rewrite ER in Hr. apply in_map_iff in Hr. destruct Hr as (r0 & <- & Hr0).
    apply tops_bound in Hr0. fold d in Hr0. unfold range_on. rewrite fst_map_range, snd_map_range.
    split; apply (tr_fstart d d' Hsh); lia. }
  assert (R' = map (map_range (tr d d')) R) as HR'.
  { rewrite ER, ER', map_map. apply map_ext_in. intros r Hr. apply tops_bound in Hr. fold d in Hr.
    unfold map_range. cbn [fst snd].
    rewrite (proj2 (tr_fstart d d' Hsh (fst r) ltac:(lia))), (proj2 (tr_fstart d d' Hsh (snd r) ltac:(lia))).
    reflexivity. }
  pose proof (ranges_on_tr d d' R Hsh HRo) as HRo'. rewrite <- HR' in HRo'.
  (* the first deletion *)
  destruct (sdelete_shape P d d' R HP HRo) as (Es1 & Es1' & HP1). rewrite <- HR' in Es1', HP1.
  set (m1 := doc_mask (in_rangesb R) 0 d) in *. set (m1' := doc_mask (in_rangesb R') 0 d') in *.
  pose proof (shape_rel_same P _ _ HP1) as Hsh1.
  assert (agree (in_rangesb R) (in_rangesb R') 0 0 d d') as Ha1.
  { intros j Hj _. cbn [Nat.add]. rewrite HR'. symmetry. apply in_rangesb_tr; assumption. }
  pose proof (ranges_on_respecting d R HRo) as I1.
  pose proof (ranges_on_respecting d' R' HRo') as I1'.
  assert (forall j, outer d j ->
            outer m1 (sindex R j) /\ tr m1 m1' (sindex R j) = sindex R' (tr d d' j)) as Hrank.
  { intros j Hj. apply (rank_tr P d d' HP _ _ 0 0 Ha1 I1 I1' j Hj). }
  (* the two runs *)
  destruct (clean_run_explicit cfg ds de f ams Hgd Hdoc Hbod E Hnp S1 K) as (aR & EaR & Hpr & Ecl).
  destruct (clean_run_explicit cfg' ds de f' ams' Hgd Hdoc' Hbod' E' Hnp' S1' K')
    as (aR' & EaR' & Hpr' & Ecl').
  fold d in EaR, Hpr, Ecl. fold d' in EaR', Hpr', Ecl'. fold R in EaR, Hpr, Ecl. fold R' in EaR', Hpr', Ecl'.
  (* the removed positions correspond *)
  assert (a_removed_pos ams' = map (fun p => (tr m1 m1' (fst p), snd p)) (a_removed_pos ams)) as Epos.
  { pose proof (all_none_markers ams Hnp) as Hams. pose proof (all_none_markers ams' Hnp') as Hams'.
    fold R in Hams. fold R' in Hams'. rewrite HR' in Hams'.
    unfold a_removed_pos. fold R R'. rewrite Hams', Hams.
    rewrite !map_map. apply map_ext_in. intros r Hr. cbn [fst snd].
    rewrite fst_map_range. destruct (Hrank (fst r) (proj1 (HRo r Hr))) as [_ ->]. reflexivity. }
  assert (forall p, In p (a_removed_pos ams) -> outer m1 (fst p)) as Hpo.
  { intros p Hp. unfold a_removed_pos in Hp. apply in_map_iff in Hp. destruct Hp as (m & <- & Hm).
    cbn [fst]. fold R. apply Hrank. apply (HRo (fst m)). apply in_map. exact Hm. }
  assert (no_pairs (a_removed_pos ams)) as Hnpp.
  { intros p Hp. unfold a_removed_pos in Hp. apply in_map_iff in Hp. destruct Hp as (m & <- & Hm).
    cbn [snd]. apply Hnp. exact Hm. }
  (* the whitespace ranges correspond *)
  destruct (shape_format_ranges m1 m1' (a_removed_pos ams) Hsh1 Hpo Hnpp) as [Efr Hon].
  rewrite Es1 in EaR. rewrite Es1' in EaR'. rewrite <- Epos, EaR, EaR' in Efr.
  inversion Efr as [EaR2]. clear Efr.
  assert (ranges_on (outer m1) aR) as HaRo by (intros r Hr; apply (Hon aR EaR r Hr)).
  (* the run masks agree *)
  assert (agree (run_mask R aR) (run_mask R' aR') 0 0 d d') as Ha2.
  { intros j Hj Hl. cbn [Nat.add]. unfold run_mask.
    pose proof (Ha1 j Hj Hl) as Ej. cbn [Nat.add] in Ej. rewrite <- Ej. f_equal.
    destruct (Hrank j Hj) as [HO <-]. rewrite EaR2. symmetry. apply in_rangesb_tr; assumption. }
  (* the trees *)
  exists (ast_norm (ast_mask (run_mask R aR) 0 f)), (ast_norm (ast_mask (run_mask R' aR') 0 f')).
  split; [|split; [|split; [|split]]].
  - rewrite Ecl in Hc. inversion Hc. apply masked_rendering. exact Hpr.
  - rewrite Ecl'. f_equal. apply masked_rendering. exact Hpr'.
  - apply same_tree_norm. apply same_tree_mask; assumption.
  - apply masked_ok. exact Hok.
  - apply masked_ok. exact Hok'.
Qed.

(** ** Corollaries *)

Lemma Forall2_map_eq {A B} (Q : A -> A -> Prop) (g g' : A -> B) l l' :
  Forall2 Q l l' -> (forall x x', In x l -> In x' l' -> Q x x' -> g x = g' x') -> map g l = map g' l'.
Proof.
  induction 1 as [|x x' l l' Hx _ IH]; intros H; [reflexivity|]. cbn [map].
  rewrite (H x x' (or_introl eq_refl) (or_introl eq_refl) Hx), IH; [reflexivity|].
  intros y y' Hy Hy' Hq. apply H; [right; exact Hy | right; exact Hy' | exact Hq].
Qed.

Lemma Forall2_nth {A} (Q : A -> A -> Prop) l l' :
  length l = length l' ->
  (forall k x x', nth_error l k = Some x -> nth_error l' k = Some x' -> Q x x') -> Forall2 Q l l'.
Proof.
  revert l'. induction l as [|x l IH]; intros [|x' l'] Hl H; try discriminate Hl; constructor.
  - apply (H 0); reflexivity.
  - apply IH; [cbn [length] in Hl; lia|]. intros k y y' Hy Hy'. apply (H (S k)); assumption.
Qed.

(** The opening tag bodies are those of [ast_nodes]. *)
Lemma opens_nodes f base : opens f = map node_b1 (ast_nodes base f).
Proof.
  unfold opens. rewrite <- (nodes_pairs f base), map_map. apply map_ext.
  intros [[[b1 b2] o] c]. reflexivity.
Qed.

(** The form of the statement: the two configurations take the same decision on any two related
    bodies. *)
Theorem clean_respell : forall (P : str -> str -> Prop) cfg cfg' ds de f f' out,
  good_delims ds de ->
  good_doc ds de (doc_of f) -> bodies_ok (doc_of f) -> Forall ast_ok f -> no_unwrap f ->
  good_doc ds de (doc_of f') -> bodies_ok (doc_of f') -> Forall ast_ok f' -> no_unwrap f' ->
  same_tree P f f' ->
  (forall b b', P b b' -> el_readyb cfg b = el_readyb cfg' b') ->
  clean cfg ds de (render ds de (doc_of f)) = Ok out ->
  exists g g', out = render ds de (doc_of g) /\
               clean cfg' ds de (render ds de (doc_of f')) = Ok (render ds de (doc_of g')) /\
               same_tree P g g' /\ Forall ast_ok g /\ Forall ast_ok g'.
Proof.
  intros P cfg cfg' ds de f f' out Hgd Hdoc Hbod Hok Hnu Hdoc' Hbod' Hok' Hnu' Hst Hdec Hc.
  apply (clean_respell_gen P cfg cfg' ds de f f' out); try assumption.
  unfold decisions. apply (Forall2_map_eq P); [apply same_tree_opens; exact Hst|].
  intros b b' _ _ Hb. apply Hdec. exact Hb.
Qed.

(** The same with the condition on the decisions restricted to the opening tags of corresponding
    elements (the [k]-th elements of the two trees in document order). *)
Theorem clean_respell_nodes : forall (P : str -> str -> Prop) cfg cfg' ds de f f' out,
  good_delims ds de ->
  good_doc ds de (doc_of f) -> bodies_ok (doc_of f) -> Forall ast_ok f -> no_unwrap f ->
  good_doc ds de (doc_of f') -> bodies_ok (doc_of f') -> Forall ast_ok f' -> no_unwrap f' ->
  same_tree P f f' ->
  (forall k n n', nth_error (ast_nodes 0 f) k = Some n -> nth_error (ast_nodes 0 f') k = Some n' ->
     P (node_b1 n) (node_b1 n') -> readyb cfg n = readyb cfg' n') ->
  clean cfg ds de (render ds de (doc_of f)) = Ok out ->
  exists g g', out = render ds de (doc_of g) /\
               clean cfg' ds de (render ds de (doc_of f')) = Ok (render ds de (doc_of g')) /\
               same_tree P g g' /\ Forall ast_ok g /\ Forall ast_ok g'.
Proof.
  intros P cfg cfg' ds de f f' out Hgd Hdoc Hbod Hok Hnu Hdoc' Hbod' Hok' Hnu' Hst Hdec Hc.
  apply (clean_respell_gen P cfg cfg' ds de f f' out); try assumption.
  unfold decisions. rewrite (opens_nodes f 0), (opens_nodes f' 0), !map_map.
  pose proof (same_tree_nodes P f f' 0 Hst) as HN.
  apply (Forall2_map_eq (fun n n' => exists k, nth_error (ast_nodes 0 f) k = Some n /\
                                               nth_error (ast_nodes 0 f') k = Some n' /\
                                               P (node_b1 n) (node_b1 n'))).
  - apply Forall2_nth.
    + clear Hdec. induction HN as [|? ? ? ? _ _ IH]; [reflexivity | cbn [length]; congruence].
    + intros k n n' Hn Hn'. exists k. split; [exact Hn|]. split; [exact Hn'|].
      clear Hdec. revert k Hn Hn'. induction HN as [|x x' l l' Hx _ IH]; intros k Hn Hn'.
      * destruct k; discriminate Hn.
      * destruct k as [|k].
        -- cbn [nth_error] in Hn, Hn'. inversion Hn; inversion Hn'; subst.
           destruct n as [[[b1 b2] o] c], n' as [[[c1 c2] o'] c']. apply Hx.
        -- apply (IH k); assumption.
  - intros n n' _ _ (k & Hn & Hn' & Hp). apply (Hdec k n n' Hn Hn' Hp).
Qed.

(** ** Respelling by a function on tag bodies *)

Fixpoint map_a (rho : str -> str) (a : ast) : ast :=
  match a with
  | AT t => AT t
  | AC b => AC (rho b)
  | AE b1 b2 kids => AE (rho b1) (rho b2) (map (map_a rho) kids)
  end.
Definition map_ast (rho : str -> str) (f : list ast) : list ast := map (map_a rho) f.

Definition respelled (rho : str -> str) (b b' : str) : Prop := b' = rho b.

Lemma same_map_both rho :
  (forall a, same1 (respelled rho) a (map_a rho a)) /\
  (forall f, same_tree (respelled rho) f (map_ast rho f)).
Proof.
  apply (ast_forest_ind (fun a => same1 (respelled rho) a (map_a rho a))
                        (fun f => same_tree (respelled rho) f (map_ast rho f))).
  - intros t. reflexivity.
  - intros b. reflexivity.
  - intros b1 b2 kids IH. cbn [map_a]. apply same1_AE.
    exists (rho b1), (rho b2), (map_ast rho kids). repeat split. exact IH.
  - exact I.
  - intros x f Hx Hf. cbn [map_ast map same_tree]. split; [exact Hx | exact Hf].
Qed.

(** A tree and its respelling have the same structure ... *)
Theorem same_tree_map rho f : same_tree (respelled rho) f (map_ast rho f).
Proof. apply (proj2 (same_map_both rho)). Qed.

Lemma same_map_inv_both rho :
  (forall a a', same1 (respelled rho) a a' -> a' = map_a rho a) /\
  (forall f f', same_tree (respelled rho) f f' -> f' = map_ast rho f).
Proof.
  apply (same_ind (respelled rho) (fun a a' => a' = map_a rho a) (fun f f' => f' = map_ast rho f)).
  - reflexivity.
  - intros b b' ->. reflexivity.
  - intros b1 b2 kids c1 c2 k' -> -> _ ->. reflexivity.
  - reflexivity.
  - intros x x' f f' _ _ -> ->. reflexivity.
Qed.

(** ... and the respelling is the only tree related to it. *)
Theorem same_tree_map_inv rho g g' : same_tree (respelled rho) g g' -> g' = map_ast rho g.
Proof. apply (proj2 (same_map_inv_both rho)). Qed.

Lemma opens_map rho f : opens (map_ast rho f) = map rho (opens f).
Proof.
  pose proof (same_tree_opens _ _ _ (same_tree_map rho f)) as H.
  induction H as [|b b' l l' Hb _ IH]; [reflexivity|]. cbn [map]. rewrite <- IH, Hb. reflexivity.
Qed.

(** C18, second half, for forests without unwrap-block elements: when the tag bodies of the
    source are respelled by [rho], and the second configuration takes on every respelled opening
    tag the decision that the first one takes on the original, then the output for the respelled
    source is the respelled output. *)
Theorem clean_respell_map : forall (rho : str -> str) cfg cfg' ds de f out,
  good_delims ds de ->
  good_doc ds de (doc_of f) -> bodies_ok (doc_of f) -> Forall ast_ok f -> no_unwrap f ->
  good_doc ds de (doc_of (map_ast rho f)) -> bodies_ok (doc_of (map_ast rho f)) ->
  Forall ast_ok (map_ast rho f) -> no_unwrap (map_ast rho f) ->
  (forall b, In b (opens f) -> el_readyb cfg b = el_readyb cfg' (rho b)) ->
  clean cfg ds de (render ds de (doc_of f)) = Ok out ->
  exists g, out = render ds de (doc_of g) /\
            clean cfg' ds de (render ds de (doc_of (map_ast rho f))) =
              Ok (render ds de (doc_of (map_ast rho g))) /\
            Forall ast_ok g /\ Forall ast_ok (map_ast rho g).
Proof.
  intros rho cfg cfg' ds de f out Hgd Hdoc Hbod Hok Hnu Hdoc' Hbod' Hok' Hnu' Hdec Hc.
  destruct (clean_respell_gen (respelled rho) cfg cfg' ds de f (map_ast rho f) out Hgd
              Hdoc Hbod Hok Hnu Hdoc' Hbod' Hok' Hnu' (same_tree_map rho f)) as (g & g' & Eo & Ec & Hs & Hg & Hg').
  - unfold decisions. rewrite opens_map, map_map. apply map_ext_in. exact Hdec.
  - exact Hc.
  - apply same_tree_map_inv in Hs. subst g'. exists g. repeat split; assumption.
Qed.

(** The special case in which the decisions agree on all bodies. *)
Corollary clean_respell_map_all : forall (rho : str -> str) cfg cfg' ds de f out,
  good_delims ds de ->
  good_doc ds de (doc_of f) -> bodies_ok (doc_of f) -> Forall ast_ok f -> no_unwrap f ->
  good_doc ds de (doc_of (map_ast rho f)) -> bodies_ok (doc_of (map_ast rho f)) ->
  Forall ast_ok (map_ast rho f) -> no_unwrap (map_ast rho f) ->
  (forall b, el_readyb cfg b = el_readyb cfg' (rho b)) ->
  clean cfg ds de (render ds de (doc_of f)) = Ok out ->
  exists g, out = render ds de (doc_of g) /\
            clean cfg' ds de (render ds de (doc_of (map_ast rho f))) =
              Ok (render ds de (doc_of (map_ast rho g))).
Proof.
  intros rho cfg cfg' ds de f out Hgd Hdoc Hbod Hok Hnu Hdoc' Hbod' Hok' Hnu' Hdec Hc.
  destruct (clean_respell_map rho cfg cfg' ds de f out Hgd Hdoc Hbod Hok Hnu Hdoc' Hbod' Hok' Hnu'
              (fun b _ => Hdec b) Hc) as (g & E1 & E2 & _).
  exists g. split; assumption.
Qed.

(* ------------------------------------------------------------------------- *)
(** * Part 7: an instance *)

(** The tag name [tl] respelled as [time-limited], in opening and closing tags. *)
Definition s_tl : str := [116;108]%N.
Definition s_time_limited : str := [116;105;109;101;45;108;105;109;105;116;101;100]%N.
Definition rho_tl (b : str) : str :=
  if prefix s_tl b then s_time_limited ++ skipn 2 b
  else if prefix (SLASH :: s_tl) b then SLASH :: s_time_limited ++ skipn 3 b
  else b.

(** [ac_cfg] of [Proofs.AstCollect] (time-limited tag [tl], removal marker [rm] with the target
    [f]) and the same configuration with the time-limited tag [time-limited]. *)
Definition rs_cfg' : config :=
  mkConfig s_time_limited [43;48;48;58;48;48]%N 1000000000%Z [114;109]%N [[102]%N].

(** With the delimiters "<!" and ">":

      a
      <!tl to='2030-...'>                        (pending)
        p
        <!tl to='2000-...'>q<!rm name='g'>u<!/rm><!/tl>   (ready, with a pending element inside)
        r
        <!rm name='f'>x<!/rm><!=>                (ready; a tag that is not an element)
      <!/tl>
      c                                                                            *)
Definition rs_ast : list ast :=
  [ AT [97; 10]%N;
    AE b_tl_pending b_tl_close
       [ AT [10; 32; 32; 112; 10; 32; 32]%N;
         AE b_tl_ready b_tl_close [ AT [113%N]; AE b_rm_pending b_rm_close [ AT [117%N] ] ];
         AT [10; 32; 32; 114; 10; 32; 32]%N;
         AE b_rm_ready b_rm_close [ AT [120%N] ];
         AC [61%N];
         AT [10]%N ];
    AT [10; 99]%N ].
Definition rs_ast' : list ast := map_ast rho_tl rs_ast.

(** The output tree: the line of the first ready element is gone, the second ready element is
    gone. *)
Definition rs_out : list ast :=
  [ AT [97; 10]%N;
    AE b_tl_pending b_tl_close
       [ AT [10; 32; 32; 112; 10; 32; 32; 114; 10; 32; 32]%N; AC [61%N]; AT [10]%N ];
    AT [10; 99]%N ].

Example rs_respelled_tags :
  map (fun p => (fst p, snd p)) (ast_pairs rs_ast') =
  [ (s_time_limited ++ skipn 2 b_tl_pending, SLASH :: s_time_limited);
    (s_time_limited ++ skipn 2 b_tl_ready, SLASH :: s_time_limited);
    (b_rm_pending, b_rm_close); (b_rm_ready, b_rm_close) ].
Proof. vm_compute. reflexivity. Qed.

(** The decisions: the two configurations agree on corresponding opening tags; the first
    configuration on the respelled tree does not. *)
Example rs_decisions :
  decisions ac_cfg rs_ast = [false; true; false; true] /\
  decisions rs_cfg' rs_ast' = [false; true; false; true] /\
  decisions ac_cfg rs_ast' = [false; false; false; true].
Proof. repeat split; vm_compute; reflexivity. Qed.

(** Both runs, computed. *)
Example rs_first : clean ac_cfg id_ds id_de (render id_ds id_de (doc_of rs_ast)) =
                   Ok (render id_ds id_de (doc_of rs_out)).
Proof. vm_compute. reflexivity. Qed.

Example rs_second_computed :
  clean rs_cfg' id_ds id_de (render id_ds id_de (doc_of rs_ast')) =
  Ok (render id_ds id_de (doc_of (map_ast rho_tl rs_out))).
Proof. vm_compute. reflexivity. Qed.

Example rs_outputs_differ :
  render id_ds id_de (doc_of rs_out) <> render id_ds id_de (doc_of (map_ast rho_tl rs_out)) /\
  length (render id_ds id_de (doc_of rs_out)) < length (render id_ds id_de (doc_of rs_ast)).
Proof. split; [vm_compute; discriminate | vm_compute; lia]. Qed.

Example rs_same : same_tree (respelled rho_tl) rs_ast rs_ast' /\
                  same_tree (respelled rho_tl) rs_out (map_ast rho_tl rs_out).
Proof. split; apply same_tree_map. Qed.

(** The premises of the theorem. *)
Definition bodies_okb (doc : list item) : bool :=
  forallb (fun it => match it with
                     | Tag (b0 :: r) => char_len b0 <=? length (b0 :: r)
                     | _ => true
                     end) doc.

Lemma bodies_okb_sound doc : bodies_okb doc = true -> bodies_ok doc.
Proof.
  intros H b Hb. unfold bodies_okb in H. rewrite forallb_forall in H. specialize (H _ Hb).
  destruct b as [|b0 r]; [exact I|]. apply Nat.leb_le in H. exact H.
Qed.

Lemma forest_okb_sound f : forallb ast_okb f = true -> Forall ast_ok f.
Proof.
  intros H. apply Forall_forall. intros a Ha. apply ast_okb_sound.
  rewrite forallb_forall in H. apply H. exact Ha.
Qed.

Lemma no_unwrapb_sound f :
  forallb (fun n : node => negb (has_attr S_UNWRAP (el_attrs (el_of (node_b1 n))))) (ast_nodes 0 f) = true ->
  no_unwrap f.
Proof. intros H n Hn. rewrite forallb_forall in H. apply negb_true_iff. apply H. exact Hn. Qed.

Example rs_ok : Forall ast_ok rs_ast /\ Forall ast_ok rs_ast'.
Proof. split; apply forest_okb_sound; vm_compute; reflexivity. Qed.

Example rs_no_unwrap : no_unwrap rs_ast /\ no_unwrap rs_ast'.
Proof. split; apply no_unwrapb_sound; vm_compute; reflexivity. Qed.

Example rs_good :
  good_doc id_ds id_de (doc_of rs_ast) /\ bodies_ok (doc_of rs_ast) /\
  good_doc id_ds id_de (doc_of rs_ast') /\ bodies_ok (doc_of rs_ast').
Proof.
  split; [|split; [|split]].
  - apply doc_checkb_ok; [vm_compute; repeat split; discriminate | vm_compute; reflexivity].
  - apply bodies_okb_sound. vm_compute. reflexivity.
  - apply doc_checkb_ok; [vm_compute; repeat split; discriminate | vm_compute; reflexivity].
  - apply bodies_okb_sound. vm_compute. reflexivity.
Qed.

(** The second run by the theorem, from the first run. *)
Example rs_second :
  exists g, render id_ds id_de (doc_of rs_out) = render id_ds id_de (doc_of g) /\
            clean rs_cfg' id_ds id_de (render id_ds id_de (doc_of rs_ast')) =
              Ok (render id_ds id_de (doc_of (map_ast rho_tl g))).
Proof.
  destruct rs_good as (G1 & B1 & G2 & B2).
  assert (forall b, In b (opens rs_ast) -> el_readyb ac_cfg b = el_readyb rs_cfg' (rho_tl b)) as Hd.
  { intros b Hb. vm_compute in Hb.
    repeat (destruct Hb as [<-|Hb]; [vm_compute; reflexivity|]). destruct Hb. }
  destruct (clean_respell_map rho_tl ac_cfg rs_cfg' id_ds id_de rs_ast _ id_delims
              G1 B1 (proj1 rs_ok) (proj1 rs_no_unwrap) G2 B2 (proj2 rs_ok) (proj2 rs_no_unwrap)
              Hd rs_first) as (g & E1 & E2 & _).
  exists g. split; assumption.
Qed.

(** The general theorem on the instance, with the relation [respelled rho_tl]. *)
Example rs_general :
  exists g g', render id_ds id_de (doc_of rs_out) = render id_ds id_de (doc_of g) /\
    clean rs_cfg' id_ds id_de (render id_ds id_de (doc_of rs_ast')) = Ok (render id_ds id_de (doc_of g')) /\
    same_tree (respelled rho_tl) g g'.
Proof.
  destruct rs_good as (G1 & B1 & G2 & B2).
  destruct (clean_respell_gen (respelled rho_tl) ac_cfg rs_cfg' id_ds id_de rs_ast rs_ast' _ id_delims
              G1 B1 (proj1 rs_ok) (proj1 rs_no_unwrap) G2 B2 (proj2 rs_ok) (proj2 rs_no_unwrap)
              (proj1 rs_same) ltac:(vm_compute; reflexivity) rs_first) as (g & g' & E1 & E2 & Hs & _).
  exists g, g'. repeat split; assumption.
Qed.

Print Assumptions same_tree_doc.
Print Assumptions same_tree_nodes.
Print Assumptions same_tree_opens.
Print Assumptions same_tree_mask.
Print Assumptions same_tree_norm.
Print Assumptions same_tree_tops.
Print Assumptions markers_tops.
Print Assumptions rank_tr.
Print Assumptions clean_run_explicit.
Print Assumptions clean_respell_gen.
Print Assumptions clean_respell.
Print Assumptions clean_respell_nodes.
Print Assumptions same_tree_map.
Print Assumptions same_tree_map_inv.
Print Assumptions clean_respell_map.
Print Assumptions clean_respell_map_all.
Print Assumptions rs_decisions.
Print Assumptions rs_first.
Print Assumptions rs_second_computed.
Print Assumptions rs_outputs_differ.
Print Assumptions rs_ok.
Print Assumptions rs_no_unwrap.
Print Assumptions rs_good.
Print Assumptions rs_second.
Print Assumptions rs_general.
