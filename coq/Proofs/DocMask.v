(** C18, stage 4: what is left of a document after the cleaner has deleted symbols.

    The cleaner deletes (1) whole elements or, for "unwrap" elements, the two tags with some
    adjacent text, and then (2) whitespace inside texts.  What is left is again the rendering of an
    abstract syntax tree: the old tree with some nodes removed or spliced and texts shortened.

    Part 1: masks on documents ([doc_mask]): deleting symbols of the flat symbol list, where every
            tag is deleted as a whole or not at all, is the flat list of the masked document.
    Part 2: normalisation ([norm]): dropping empty texts and merging adjacent texts.
    Part 3: masks on syntax trees ([ast_mask]): removed and spliced nodes.
    Part 4: normalisation of syntax trees ([ast_norm]).
    Part 5: the combined statement ([masked_rendering], [masked_good]).
    Part 6: an instance. *)
From Coq Require Import List NArith ZArith Arith Bool Lia PeanoNat.
Import ListNotations.
From Chiri Require Import Base.Bytes Base.Res Model.TagParser Spec.Ranges Spec.Rename Spec.Simulation
  Proofs.BytesLemmas Proofs.Utf8 Proofs.RenameProofs Proofs.SimFlat Proofs.SimStrings
  Proofs.SimFront Proofs.MonoMap Proofs.WellNested.

(* ------------------------------------------------------------------------- *)
(** * Part 1: masks on documents *)

(** The bytes of [t] that are kept: those whose index, counted from [i], is not deleted. *)
Fixpoint kept_from (i : nat) (del : nat -> bool) (t : str) : str :=
  match t with
  | [] => []
  | c :: t' => if del i then kept_from (S i) del t' else c :: kept_from (S i) del t'
  end.

Lemma sdel_from_app : forall a b i P,
  sdel_from i P (a ++ b) = sdel_from i P a ++ sdel_from (i + length a) P b.
Proof.
  induction a as [|x a IH]; intros b i P.
  - cbn [app sdel_from length]. rewrite Nat.add_0_r. reflexivity.
  - cbn [app sdel_from length]. rewrite IH.
    replace (S i + length a) with (i + S (length a)) by lia. destruct (P i); reflexivity.
Qed.

Lemma sdel_from_map_B : forall t i P, sdel_from i P (map B t) = map B (kept_from i P t).
Proof.
  induction t as [|c t IH]; intros i P; [reflexivity|].
  cbn [map sdel_from kept_from]. rewrite IH. destruct (P i); reflexivity.
Qed.

Lemma sdel_from_all : forall l i P,
  (forall k, k < length l -> P (i + k) = true) -> sdel_from i P l = [].
Proof.
  induction l as [|x l IH]; intros i P H; [reflexivity|].
  cbn [sdel_from]. rewrite <- (Nat.add_0_r i) at 1. rewrite (H 0) by (cbn [length]; lia).
  apply IH. intros k Hk. replace (S i + k) with (i + S k) by lia. apply H. cbn [length]. lia.
Qed.

Lemma sdel_from_none : forall l i P,
  (forall k, k < length l -> P (i + k) = false) -> sdel_from i P l = l.
Proof.
  induction l as [|x l IH]; intros i P H; [reflexivity|].
  cbn [sdel_from]. rewrite <- (Nat.add_0_r i) at 1. rewrite (H 0) by (cbn [length]; lia).
  f_equal. apply IH. intros k Hk. replace (S i + k) with (i + S k) by lia. apply H.
  cbn [length]. lia.
Qed.

Lemma kept_from_in : forall t i del c, In c (kept_from i del t) -> In c t.
Proof.
  induction t as [|x t IH]; intros i del c H; [exact H|].
  cbn [kept_from] in H. destruct (del i).
  - right. apply (IH _ _ _ H).
  - destruct H as [H|H]; [left; exact H | right; apply (IH _ _ _ H)].
Qed.

(** A mask [del] over the symbol indices of [flat doc] offset by [base] (true = delete) respects
    the items: it is constant on the symbols of every tag. *)
Definition item_respecting (del : nat -> bool) (base : nat) (doc : list item) : Prop :=
  forall i b, nth_error doc i = Some (Tag b) ->
  forall j, base + fstart doc i <= j < base + fstart doc (S i) -> del j = del (base + fstart doc i).

(** The masked document: texts keep their undeleted bytes, a tag is kept iff its first symbol is.
    [base] is the symbol index of the first symbol of [doc]. *)
Fixpoint doc_mask (del : nat -> bool) (base : nat) (doc : list item) : list item :=
  match doc with
  | [] => []
  | Txt t :: rest => Txt (kept_from base del t) :: doc_mask del (base + length t) rest
  | Tag b :: rest =>
    if del base then doc_mask del (base + (length b + 2)) rest
    else Tag b :: doc_mask del (base + (length b + 2)) rest
  end.

Lemma fstart_0 doc : fstart doc 0 = 0.
Proof. reflexivity. Qed.

Lemma fstart_cons it doc i : fstart (it :: doc) (S i) = length (flat_item it) + fstart doc i.
Proof. unfold fstart. cbn [firstn flat flat_map]. apply app_length. Qed.

Lemma flat_cons it doc : flat (it :: doc) = flat_item it ++ flat doc.
Proof. reflexivity. Qed.

Lemma flat_tag_len b : length (flat [Tag b]) = length b + 2.
Proof. cbn [flat flat_map]. rewrite app_nil_r. apply (flat_item_len (Tag b)). Qed.

Lemma item_respecting_tail del base it doc :
  item_respecting del base (it :: doc) -> item_respecting del (base + length (flat_item it)) doc.
Proof.
  intros H i b Hi j Hj. specialize (H (S i) b Hi j). rewrite !fstart_cons in H.
  rewrite <- !Nat.add_assoc. apply H. lia.
Qed.

Lemma item_respecting_head del base b doc :
  item_respecting del base (Tag b :: doc) -> forall k, k < length b + 2 -> del (base + k) = del base.
Proof.
  intros H k Hk. specialize (H 0 b eq_refl (base + k)).
  rewrite fstart_cons, !fstart_0, (flat_item_len (Tag b)), !Nat.add_0_r in H. apply H. lia.
Qed.

Theorem doc_mask_flat : forall doc del base,
  item_respecting del base doc -> sdel_from base del (flat doc) = flat (doc_mask del base doc).
Proof.
  induction doc as [|it doc IH]; intros del base H; [reflexivity|].
  rewrite flat_cons, sdel_from_app. pose proof (item_respecting_tail _ _ _ _ H) as Ht.
  rewrite (IH del _ Ht). destruct it as [t|b].
  - cbn [flat_item doc_mask]. rewrite sdel_from_map_B, map_length, flat_cons. reflexivity.
  - rewrite (flat_item_len (Tag b)). cbn [doc_mask].
    pose proof (item_respecting_head _ _ _ _ H) as Hh.
    destruct (del base) eqn:E.
    + rewrite sdel_from_all; [reflexivity|].
      intros k Hk. rewrite (flat_item_len (Tag b)) in Hk. exact (Hh k Hk).
    + rewrite sdel_from_none; [reflexivity|].
      intros k Hk. rewrite (flat_item_len (Tag b)) in Hk. exact (Hh k Hk).
Qed.

Lemma doc_mask_app : forall a b del base,
  doc_mask del base (a ++ b) = doc_mask del base a ++ doc_mask del (base + length (flat a)) b.
Proof.
  induction a as [|it a IH]; intros b del base.
  - cbn [app doc_mask flat flat_map length]. rewrite Nat.add_0_r. reflexivity.
  - rewrite flat_cons, app_length. cbn [app]. destruct it as [t|c]; cbn [doc_mask].
    + rewrite IH, (flat_item_len (Txt t)).
      replace (base + (length t + length (flat a))) with (base + length t + length (flat a)) by lia.
      reflexivity.
    + rewrite IH, (flat_item_len (Tag c)).
      replace (base + (length c + 2 + length (flat a)))
        with (base + (length c + 2) + length (flat a)) by lia.
      destruct (del base); reflexivity.
Qed.

(** The texts of the masked document are the kept bytes of the texts, the tags are old tags. *)
Lemma doc_mask_texts : forall doc del base t',
  In (Txt t') (doc_mask del base doc) ->
  exists i t, nth_error doc i = Some (Txt t) /\ t' = kept_from (base + fstart doc i) del t.
Proof.
  induction doc as [|it doc IH]; intros del base t' H; [destruct H|].
  assert (In (Txt t') (doc_mask del (base + length (flat_item it)) doc) ->
    exists i t, nth_error (it :: doc) i = Some (Txt t) /\
                t' = kept_from (base + fstart (it :: doc) i) del t) as K.
  { intros Hin. destruct (IH _ _ _ Hin) as (i & t & Hi & ->). exists (S i), t.
    split; [exact Hi|]. rewrite fstart_cons, Nat.add_assoc. reflexivity. }
  destruct it as [t|b]; cbn [doc_mask] in H.
  - destruct H as [H|H].
    + exists 0, t. split; [reflexivity|]. rewrite fstart_0, Nat.add_0_r. inversion H. reflexivity.
    + apply K. rewrite (flat_item_len (Txt t)). exact H.
  - apply K. rewrite (flat_item_len (Tag b)).
    destruct (del base); [exact H|]. destruct H as [H|H]; [discriminate H | exact H].
Qed.

Lemma doc_mask_tags : forall doc del base b,
  In (Tag b) (doc_mask del base doc) -> In (Tag b) doc.
Proof.
  induction doc as [|it doc IH]; intros del base b H; [destruct H|].
  destruct it as [t|c]; cbn [doc_mask] in H.
  - destruct H as [H|H]; [discriminate H|]. right. apply (IH _ _ _ H).
  - destruct (del base).
    + right. apply (IH _ _ _ H).
    + destruct H as [H|H]; [left; exact H | right; apply (IH _ _ _ H)].
Qed.

(* ------------------------------------------------------------------------- *)
(** * Part 2: normalisation *)

(** Put a text in front of a normalised document. *)
Definition tcons (t : str) (nr : list item) : list item :=
  match t with
  | [] => nr
  | _ :: _ => match nr with Txt u :: r => Txt (t ++ u) :: r | _ => Txt t :: nr end
  end.

(** Drop empty texts and merge adjacent texts. *)
Fixpoint norm (doc : list item) : list item :=
  match doc with
  | [] => []
  | Txt t :: rest => tcons t (norm rest)
  | Tag b :: rest => Tag b :: norm rest
  end.

Definition tag_body (it : item) : list str := match it with Tag b => [b] | Txt _ => [] end.
Definition tags_of (doc : list item) : list str := flat_map tag_body doc.

Lemma flat_tcons t nr : flat (tcons t nr) = map B t ++ flat nr.
Proof.
  destruct t as [|c t]; [reflexivity|]. destruct nr as [|[u|b] r]; cbn [tcons]; try reflexivity.
  rewrite !flat_cons. cbn [flat_item]. rewrite map_app, <- app_assoc. reflexivity.
Qed.

Theorem flat_norm doc : flat (norm doc) = flat doc.
Proof.
  induction doc as [|[t|b] doc IH]; [reflexivity| |]; cbn [norm].
  - rewrite flat_tcons, IH. reflexivity.
  - rewrite !flat_cons, IH. reflexivity.
Qed.

Theorem render_norm ds de doc : render ds de (norm doc) = render ds de doc.
Proof. rewrite <- !rs_flat, flat_norm. reflexivity. Qed.

Lemma normal_tcons t nr : normal nr -> normal (tcons t nr).
Proof.
  intros H. destruct t as [|c t]; [exact H|]. destruct nr as [|[u|b] r]; cbn [tcons].
  - cbn [normal]. repeat split. discriminate.
  - cbn [normal] in *. destruct H as (_ & H1 & H2). repeat split; [discriminate | exact H1 | exact H2].
  - cbn [normal] in *. repeat split; try tauto. discriminate.
Qed.

Theorem normal_norm doc : (forall b, In (Tag b) doc -> b <> []) -> normal (norm doc).
Proof.
  induction doc as [|[t|b] doc IH]; intros H; [exact I| |]; cbn [norm].
  - apply normal_tcons. apply IH. intros b Hb. apply H. right. exact Hb.
  - cbn [normal]. split; [apply H; left; reflexivity|]. apply IH. intros c Hc. apply H. right. exact Hc.
Qed.

Lemma tags_of_tcons t nr : tags_of (tcons t nr) = tags_of nr.
Proof. destruct t as [|c t]; [reflexivity|]. destruct nr as [|[u|b] r]; reflexivity. Qed.

Theorem tags_of_norm doc : tags_of (norm doc) = tags_of doc.
Proof.
  induction doc as [|[t|b] doc IH]; [reflexivity| |]; cbn [norm].
  - rewrite tags_of_tcons. exact IH.
  - unfold tags_of in *. cbn [flat_map]. rewrite IH. reflexivity.
Qed.

Lemma in_tags_of doc b : In (Tag b) doc <-> In b (tags_of doc).
Proof.
  unfold tags_of. rewrite in_flat_map. split.
  - intros H. exists (Tag b). split; [exact H | left; reflexivity].
  - intros ([t|c] & H1 & H2); cbn [tag_body] in H2; [destruct H2|].
    destruct H2 as [->|[]]. exact H1.
Qed.

Theorem in_tag_norm doc b : In (Tag b) (norm doc) <-> In (Tag b) doc.
Proof. rewrite !in_tags_of, tags_of_norm. reflexivity. Qed.

Lemma in_txt_tcons t nr u : In (Txt u) (tcons t nr) ->
  u = t \/ In (Txt u) nr \/ exists v, In (Txt v) nr /\ u = t ++ v.
Proof.
  intros H. destruct t as [|c t]; [right; left; exact H|].
  destruct nr as [|[v|b] r]; cbn [tcons] in H.
  - destruct H as [H|[]]. left. inversion H. reflexivity.
  - destruct H as [H|H].
    + right. right. exists v. split; [left; reflexivity | inversion H; reflexivity].
    + right. left. right. exact H.
  - destruct H as [H|H]; [left; inversion H; reflexivity | right; left; exact H].
Qed.

(** Every text of the normalised document is a concatenation of texts of the document: a
    predicate on texts that is closed under [++] is inherited. *)
Theorem norm_texts (P : str -> Prop) : (forall a b, P a -> P b -> P (a ++ b)) ->
  forall doc, (forall t, In (Txt t) doc -> P t) -> forall t, In (Txt t) (norm doc) -> P t.
Proof.
  intros Happ. induction doc as [|[t|b] doc IH]; intros H u Hu; [destruct Hu| |]; cbn [norm] in Hu.
  - assert (forall v, In (Txt v) (norm doc) -> P v) as IH'.
    { apply IH. intros v Hv. apply H. right. exact Hv. }
    apply in_txt_tcons in Hu. destruct Hu as [->|[Hu|(v & Hv & ->)]].
    + apply H. left. reflexivity.
    + apply IH'. exact Hu.
    + apply Happ; [apply H; left; reflexivity | apply IH'; exact Hv].
  - destruct Hu as [Hu|Hu]; [discriminate Hu|]. apply IH; [|exact Hu].
    intros v Hv. apply H. right. exact Hv.
Qed.

Lemma wf_utf8_app a b : wf_utf8 a = true -> wf_utf8 b = true -> wf_utf8 (a ++ b) = true.
Proof. intros Ha Hb. apply wf_utf8_WF. apply WF_app; apply wf_utf8_WF; assumption. Qed.

Lemma disjoint_from_app ds de a b :
  disjoint_from ds de a -> disjoint_from ds de b -> disjoint_from ds de (a ++ b).
Proof. intros Ha Hb c Hc. apply in_app_or in Hc. destruct Hc; [apply Ha | apply Hb]; assumption. Qed.

Theorem norm_texts_wf doc : (forall t, In (Txt t) doc -> wf_utf8 t = true) ->
  forall t, In (Txt t) (norm doc) -> wf_utf8 t = true.
Proof. apply (norm_texts (fun t => wf_utf8 t = true)). exact wf_utf8_app. Qed.

Theorem norm_texts_disjoint ds de doc : (forall t, In (Txt t) doc -> disjoint_from ds de t) ->
  forall t, In (Txt t) (norm doc) -> disjoint_from ds de t.
Proof. apply (norm_texts (disjoint_from ds de)). apply disjoint_from_app. Qed.

Theorem good_doc_norm ds de doc :
  (forall t, In (Txt t) doc -> wf_utf8 t = true /\ disjoint_from ds de t) ->
  (forall b, In (Tag b) doc -> b <> [] /\ wf_utf8 b = true /\ disjoint_from ds de b) ->
  good_doc ds de (norm doc).
Proof.
  intros Ht Hb. unfold good_doc. split; [|split; [|split]].
  - apply normal_norm. intros b H. apply (Hb b H).
  - intros [t|b] Hi.
    + apply (norm_texts_disjoint ds de doc); [|exact Hi]. intros u Hu. apply (Ht u Hu).
    + apply (proj1 (in_tag_norm doc b)) in Hi. apply (Hb b Hi).
  - apply norm_texts_wf. intros u Hu. apply (Ht u Hu).
  - intros b Hi. apply (proj1 (in_tag_norm doc b)) in Hi. apply (Hb b Hi).
Qed.

Theorem bodies_ok_norm doc : bodies_ok doc -> bodies_ok (norm doc).
Proof. intros H b Hb. apply H. apply in_tag_norm. exact Hb. Qed.

Lemma tcons_app_tag t x b y : tcons t (x ++ Tag b :: y) = tcons t x ++ Tag b :: y.
Proof. destruct t as [|c t]; [reflexivity|]. destruct x as [|[u|d] r]; reflexivity. Qed.

(** Merging does not cross a tag. *)
Lemma norm_app_tag : forall a b r, norm (a ++ Tag b :: r) = norm a ++ Tag b :: norm r.
Proof.
  induction a as [|[t|c] a IH]; intros b r; [reflexivity| |]; cbn [app norm].
  - rewrite IH. apply tcons_app_tag.
  - rewrite IH. reflexivity.
Qed.

(* ------------------------------------------------------------------------- *)
(** * Part 3: masks on syntax trees *)

(** Induction on trees and forests together. *)
Lemma ast_forest_ind (P : ast -> Prop) (Q : list ast -> Prop) :
  (forall t, P (AT t)) -> (forall b, P (AC b)) ->
  (forall b1 b2 kids, Q kids -> P (AE b1 b2 kids)) ->
  Q [] -> (forall x f, P x -> Q f -> Q (x :: f)) ->
  (forall a, P a) /\ (forall f, Q f).
Proof.
  intros HT HC HE Hn Hc.
  assert (forall a, P a) as HP.
  { induction a as [t|b|b1 b2 kids IH] using ast_ind'; [apply HT | apply HC |].
    apply HE. induction IH as [|x l Hx _ IHl]; [exact Hn | apply Hc; assumption]. }
  split; [exact HP|]. induction f as [|x f IH]; [exact Hn | apply Hc; [apply HP | exact IH]].
Qed.

Lemma doc_of_cons x f : doc_of (x :: f) = items_of x ++ doc_of f.
Proof. reflexivity. Qed.

Lemma doc_of_app a b : doc_of (a ++ b) = doc_of a ++ doc_of b.
Proof. apply flat_map_app. Qed.

Lemma items_AE b1 b2 kids : items_of (AE b1 b2 kids) = [Tag b1] ++ doc_of kids ++ [Tag b2].
Proof. reflexivity. Qed.

(** The number of symbols. *)
Definition flen (a : ast) : nat := length (flat (items_of a)).
Definition flens (f : list ast) : nat := length (flat (doc_of f)).

Lemma flens_cons x f : flens (x :: f) = flen x + flens f.
Proof. unfold flens, flen. rewrite doc_of_cons, flat_app, app_length. reflexivity. Qed.

Lemma flen_AE b1 b2 kids : flen (AE b1 b2 kids) = (length b1 + 2) + flens kids + (length b2 + 2).
Proof.
  unfold flen, flens. rewrite items_AE, !flat_app, !app_length, !flat_tag_len. lia.
Qed.

(** The masked forest: [AT t] keeps its undeleted bytes, [AC b] is kept or dropped, and an [AE]
    node whose tags are deleted is replaced by its masked children.  [sb] is the symbol index of
    the first symbol. *)
Fixpoint mask1 (del : nat -> bool) (sb : nat) (a : ast) : list ast :=
  match a with
  | AT t => [AT (kept_from sb del t)]
  | AC b => if del sb then [] else [AC b]
  | AE b1 b2 kids =>
    let ks := (fix go (s : nat) (l : list ast) : list ast :=
                 match l with
                 | [] => []
                 | x :: l' => mask1 del s x ++ go (s + flen x) l'
                 end) (sb + (length b1 + 2)) kids in
    if del sb then ks else [AE b1 b2 ks]
  end.
Definition ast_mask (del : nat -> bool) : nat -> list ast -> list ast :=
  fix go (s : nat) (l : list ast) : list ast :=
    match l with
    | [] => []
    | x :: l' => mask1 del s x ++ go (s + flen x) l'
    end.

Lemma mask1_AE del sb b1 b2 kids :
  mask1 del sb (AE b1 b2 kids) =
  if del sb then ast_mask del (sb + (length b1 + 2)) kids
  else [AE b1 b2 (ast_mask del (sb + (length b1 + 2)) kids)].
Proof. reflexivity. Qed.

Lemma ast_mask_cons del sb x f :
  ast_mask del sb (x :: f) = mask1 del sb x ++ ast_mask del (sb + flen x) f.
Proof. reflexivity. Qed.

(** The two tags of every [AE] node are both deleted or both kept (structurally). *)
Fixpoint pair_eq1 (del : nat -> bool) (sb : nat) (a : ast) : Prop :=
  match a with
  | AT _ => True
  | AC _ => True
  | AE b1 b2 kids =>
    del sb = del (sb + (length b1 + 2) + flens kids) /\
    (fix go (s : nat) (l : list ast) : Prop :=
       match l with
       | [] => True
       | x :: l' => pair_eq1 del s x /\ go (s + flen x) l'
       end) (sb + (length b1 + 2)) kids
  end.
Definition pair_eqs (del : nat -> bool) : nat -> list ast -> Prop :=
  fix go (s : nat) (l : list ast) : Prop :=
    match l with
    | [] => True
    | x :: l' => pair_eq1 del s x /\ go (s + flen x) l'
    end.

Lemma pair_eq1_AE del sb b1 b2 kids :
  pair_eq1 del sb (AE b1 b2 kids) =
  (del sb = del (sb + (length b1 + 2) + flens kids) /\ pair_eqs del (sb + (length b1 + 2)) kids).
Proof. reflexivity. Qed.

Lemma pair_eqs_cons del sb x f :
  pair_eqs del sb (x :: f) = (pair_eq1 del sb x /\ pair_eqs del (sb + flen x) f).
Proof. reflexivity. Qed.

Lemma doc_mask_tag1 del sb b : doc_mask del sb [Tag b] = if del sb then [] else [Tag b].
Proof. reflexivity. Qed.

Lemma ast_mask_doc_both del :
  (forall a sb, pair_eq1 del sb a -> doc_of (mask1 del sb a) = doc_mask del sb (items_of a)) /\
  (forall f sb, pair_eqs del sb f -> doc_of (ast_mask del sb f) = doc_mask del sb (doc_of f)).
Proof.
  apply (ast_forest_ind
    (fun a => forall sb, pair_eq1 del sb a -> doc_of (mask1 del sb a) = doc_mask del sb (items_of a))
    (fun f => forall sb, pair_eqs del sb f -> doc_of (ast_mask del sb f) = doc_mask del sb (doc_of f))).
  - intros t sb _. reflexivity.
  - intros b sb _. cbn [mask1 items_of]. rewrite doc_mask_tag1. destruct (del sb); reflexivity.
  - intros b1 b2 kids IH sb H. rewrite pair_eq1_AE in H. destruct H as [He Hk].
    rewrite mask1_AE, items_AE, !doc_mask_app, flat_tag_len, !doc_mask_tag1.
    fold (flens kids). rewrite <- He, <- (IH _ Hk).
    destruct (del sb); [rewrite app_nil_r; reflexivity|].
    rewrite doc_of_cons, items_AE. cbn [doc_of flat_map]. rewrite app_nil_r. reflexivity.
  - intros sb _. reflexivity.
  - intros x f Hx Hf sb H. rewrite pair_eqs_cons in H. destruct H as [H1 H2].
    rewrite ast_mask_cons, doc_of_app, doc_of_cons, doc_mask_app.
    rewrite (Hx _ H1), (Hf _ H2). reflexivity.
Qed.

Theorem ast_mask_doc_gen del f sb :
  pair_eqs del sb f -> doc_of (ast_mask del sb f) = doc_mask del sb (doc_of f).
Proof. apply (proj2 (ast_mask_doc_both del)). Qed.

Lemma ast_mask_ok_both del :
  (forall a sb, ast_ok a -> Forall ast_ok (mask1 del sb a)) /\
  (forall f sb, Forall ast_ok f -> Forall ast_ok (ast_mask del sb f)).
Proof.
  apply (ast_forest_ind
    (fun a => forall sb, ast_ok a -> Forall ast_ok (mask1 del sb a))
    (fun f => forall sb, Forall ast_ok f -> Forall ast_ok (ast_mask del sb f))).
  - intros t sb _. repeat constructor.
  - intros b sb H. cbn [mask1]. destruct (del sb); [constructor | constructor; [exact H | constructor]].
  - intros b1 b2 kids IH sb H. rewrite mask1_AE.
    inversion H as [| |? ? ? el el' P1 S1 P2 S2 Ht Hk]; subst.
    destruct (del sb); [apply IH; exact Hk|]. constructor; [|constructor].
    apply (ok_AE b1 b2 _ el el'); try assumption. apply IH. exact Hk.
  - intros sb _. constructor.
  - intros x f Hx Hf sb H. inversion H; subst. rewrite ast_mask_cons. apply Forall_app.
    split; [apply Hx | apply Hf]; assumption.
Qed.

Theorem ast_mask_ok_gen del f sb : Forall ast_ok f -> Forall ast_ok (ast_mask del sb f).
Proof. apply (proj2 (ast_mask_ok_both del)). Qed.

(** ** The [AE] nodes *)

Definition node_bodies (n : str * str * nat * nat) : str * str :=
  match n with (b1, b2, _, _) => (b1, b2) end.

(** The tag bodies of the [AE] nodes in pre-order. *)
Fixpoint pairs1 (a : ast) : list (str * str) :=
  match a with
  | AT _ => []
  | AC _ => []
  | AE b1 b2 kids => (b1, b2) :: flat_map pairs1 kids
  end.
Definition ast_pairs (f : list ast) : list (str * str) := flat_map pairs1 f.

Lemma ast_pairs_cons x f : ast_pairs (x :: f) = pairs1 x ++ ast_pairs f.
Proof. reflexivity. Qed.

Lemma ast_pairs_app a b : ast_pairs (a ++ b) = ast_pairs a ++ ast_pairs b.
Proof. apply flat_map_app. Qed.

Lemma nodes_pairs_both :
  (forall a base, map node_bodies (nodes1 base a) = pairs1 a) /\
  (forall f base, map node_bodies (ast_nodes base f) = ast_pairs f).
Proof.
  apply (ast_forest_ind
    (fun a => forall base, map node_bodies (nodes1 base a) = pairs1 a)
    (fun f => forall base, map node_bodies (ast_nodes base f) = ast_pairs f)).
  - reflexivity.
  - reflexivity.
  - intros b1 b2 kids IH base. rewrite nodes1_AE. cbn [map node_bodies pairs1].
    fold (ast_pairs kids). rewrite IH. reflexivity.
  - reflexivity.
  - intros x f Hx Hf base. cbn [ast_nodes]. rewrite map_app, Hx, Hf. reflexivity.
Qed.

Theorem nodes_pairs f base : map node_bodies (ast_nodes base f) = ast_pairs f.
Proof. apply (proj2 nodes_pairs_both). Qed.

(** The tag bodies of the [AE] nodes whose opening tag is kept, in pre-order. *)
Fixpoint kpairs1 (del : nat -> bool) (sb : nat) (a : ast) : list (str * str) :=
  match a with
  | AT _ => []
  | AC _ => []
  | AE b1 b2 kids =>
    let ks := (fix go (s : nat) (l : list ast) : list (str * str) :=
                 match l with
                 | [] => []
                 | x :: l' => kpairs1 del s x ++ go (s + flen x) l'
                 end) (sb + (length b1 + 2)) kids in
    if del sb then ks else (b1, b2) :: ks
  end.
Definition kpairs (del : nat -> bool) : nat -> list ast -> list (str * str) :=
  fix go (s : nat) (l : list ast) : list (str * str) :=
    match l with
    | [] => []
    | x :: l' => kpairs1 del s x ++ go (s + flen x) l'
    end.

Lemma kpairs1_AE del sb b1 b2 kids :
  kpairs1 del sb (AE b1 b2 kids) =
  if del sb then kpairs del (sb + (length b1 + 2)) kids
  else (b1, b2) :: kpairs del (sb + (length b1 + 2)) kids.
Proof. reflexivity. Qed.

Lemma kpairs_cons del sb x f :
  kpairs del sb (x :: f) = kpairs1 del sb x ++ kpairs del (sb + flen x) f.
Proof. reflexivity. Qed.

Lemma mask_pairs_both del :
  (forall a sb, ast_pairs (mask1 del sb a) = kpairs1 del sb a) /\
  (forall f sb, ast_pairs (ast_mask del sb f) = kpairs del sb f).
Proof.
  apply (ast_forest_ind
    (fun a => forall sb, ast_pairs (mask1 del sb a) = kpairs1 del sb a)
    (fun f => forall sb, ast_pairs (ast_mask del sb f) = kpairs del sb f)).
  - reflexivity.
  - intros b sb. cbn [mask1 kpairs1]. destruct (del sb); reflexivity.
  - intros b1 b2 kids IH sb. rewrite mask1_AE, kpairs1_AE.
    destruct (del sb); [apply IH|]. rewrite ast_pairs_cons. cbn [pairs1].
    fold (ast_pairs (ast_mask del (sb + (length b1 + 2)) kids)). rewrite IH.
    cbn [ast_pairs flat_map]. rewrite app_nil_r. reflexivity.
  - reflexivity.
  - intros x f Hx Hf sb. rewrite ast_mask_cons, kpairs_cons, ast_pairs_app, Hx, Hf. reflexivity.
Qed.

Lemma fstart_ctx (pre rest : list item) n : n = length pre ->
  fstart (pre ++ rest) n = length (flat pre).
Proof. intros ->. apply fstart_pre. Qed.

Ltac list_eq := subst; cbn [app]; rewrite <- ?app_assoc; cbn [app]; reflexivity.

(** Within a document [pre ++ doc_of f ++ post]: the nodes of [f] (item indices from
    [length pre]) whose opening tag is kept are [kpairs] (symbol indices from
    [length (flat pre)]). *)
Lemma filter_pairs_both del :
  (forall a pre post doc ib sb, doc = pre ++ items_of a ++ post -> ib = length pre ->
     sb = length (flat pre) ->
     map node_bodies (filter (fun n => negb (del (fstart doc (node_open n)))) (nodes1 ib a))
     = kpairs1 del sb a) /\
  (forall f pre post doc ib sb, doc = pre ++ doc_of f ++ post -> ib = length pre ->
     sb = length (flat pre) ->
     map node_bodies (filter (fun n => negb (del (fstart doc (node_open n)))) (ast_nodes ib f))
     = kpairs del sb f).
Proof.
  apply (ast_forest_ind
    (fun a => forall pre post doc ib sb, doc = pre ++ items_of a ++ post -> ib = length pre ->
       sb = length (flat pre) ->
       map node_bodies (filter (fun n => negb (del (fstart doc (node_open n)))) (nodes1 ib a))
       = kpairs1 del sb a)
    (fun f => forall pre post doc ib sb, doc = pre ++ doc_of f ++ post -> ib = length pre ->
       sb = length (flat pre) ->
       map node_bodies (filter (fun n => negb (del (fstart doc (node_open n)))) (ast_nodes ib f))
       = kpairs del sb f)).
  - reflexivity.
  - reflexivity.
  - intros b1 b2 kids IH pre post doc ib sb Hd Hi Hs.
    rewrite nodes1_AE, kpairs1_AE. cbn [filter node_open].
    assert (fstart doc ib = sb) as ->.
    { rewrite Hd, Hs. apply fstart_ctx. exact Hi. }
    assert (map node_bodies (filter (fun n => negb (del (fstart doc (node_open n))))
                                    (ast_nodes (S ib) kids))
            = kpairs del (sb + (length b1 + 2)) kids) as E.
    { apply (IH (pre ++ [Tag b1]) (Tag b2 :: post) doc (S ib) (sb + (length b1 + 2))).
      - rewrite Hd, items_AE. list_eq.
      - rewrite app_length, Hi. cbn [length]. lia.
      - rewrite flat_app, app_length, flat_tag_len, Hs. reflexivity. }
    destruct (del sb); cbn [negb map node_bodies]; rewrite E; reflexivity.
  - reflexivity.
  - intros x f Hx Hf pre post doc ib sb Hd Hi Hs.
    cbn [ast_nodes]. rewrite filter_app, map_app, kpairs_cons.
    rewrite (Hx pre (doc_of f ++ post) doc ib sb), (Hf (pre ++ items_of x) post doc (ib + size x) (sb + flen x)).
    + reflexivity.
    + rewrite Hd, doc_of_cons. list_eq.
    + rewrite app_length, size_items, Hi. reflexivity.
    + rewrite flat_app, app_length, Hs. reflexivity.
    + rewrite Hd, doc_of_cons. list_eq.
    + exact Hi.
    + exact Hs.
Qed.

(** The [AE] nodes of the masked forest are the [AE] nodes whose tags are kept, in the same
    order. *)
Theorem ast_mask_nodes del f :
  map node_bodies (ast_nodes 0 (ast_mask del 0 f)) =
  map node_bodies (filter (fun n => negb (del (fstart (doc_of f) (node_open n)))) (ast_nodes 0 f)).
Proof.
  rewrite nodes_pairs, (proj2 (mask_pairs_both del)).
  symmetry. apply (proj2 (filter_pairs_both del) f [] []); try reflexivity.
  cbn [app]. rewrite app_nil_r. reflexivity.
Qed.

(** ** Pair-respecting masks *)

(** The mask is constant on every tag, and the two tags of every [AE] node are both deleted or
    both kept. *)
Definition pair_respecting (del : nat -> bool) (f : list ast) : Prop :=
  item_respecting del 0 (doc_of f) /\
  forall b1 b2 o c, In (b1, b2, o, c) (ast_nodes 0 f) ->
    del (fstart (doc_of f) o) = del (fstart (doc_of f) c).

Lemma pair_eqs_ctx_both del :
  (forall a pre post doc ib sb, doc = pre ++ items_of a ++ post -> ib = length pre ->
     sb = length (flat pre) ->
     (forall b1 b2 o c, In (b1, b2, o, c) (nodes1 ib a) -> del (fstart doc o) = del (fstart doc c)) ->
     pair_eq1 del sb a) /\
  (forall f pre post doc ib sb, doc = pre ++ doc_of f ++ post -> ib = length pre ->
     sb = length (flat pre) ->
     (forall b1 b2 o c, In (b1, b2, o, c) (ast_nodes ib f) -> del (fstart doc o) = del (fstart doc c)) ->
     pair_eqs del sb f).
Proof.
  apply (ast_forest_ind
    (fun a => forall pre post doc ib sb, doc = pre ++ items_of a ++ post -> ib = length pre ->
       sb = length (flat pre) ->
       (forall b1 b2 o c, In (b1, b2, o, c) (nodes1 ib a) -> del (fstart doc o) = del (fstart doc c)) ->
       pair_eq1 del sb a)
    (fun f => forall pre post doc ib sb, doc = pre ++ doc_of f ++ post -> ib = length pre ->
       sb = length (flat pre) ->
       (forall b1 b2 o c, In (b1, b2, o, c) (ast_nodes ib f) -> del (fstart doc o) = del (fstart doc c)) ->
       pair_eqs del sb f)).
  - intros; exact I.
  - intros; exact I.
  - intros b1 b2 kids IH pre post doc ib sb Hd Hi Hs H.
    rewrite pair_eq1_AE. split.
    + specialize (H b1 b2 ib (S ib + sizes kids)). rewrite nodes1_AE in H.
      specialize (H (or_introl eq_refl)).
      assert (fstart doc ib = sb) as E1.
      { rewrite Hd, Hs. apply fstart_ctx. exact Hi. }
      assert (fstart doc (S ib + sizes kids) = sb + (length b1 + 2) + flens kids) as E2.
      { replace doc with ((pre ++ [Tag b1] ++ doc_of kids) ++ Tag b2 :: post)
          by (rewrite Hd, items_AE; list_eq).
        rewrite fstart_ctx.
        - rewrite !flat_app, !app_length, flat_tag_len, Hs. unfold flens. lia.
        - rewrite !app_length, sizes_doc, Hi. cbn [length]. lia. }
      rewrite <- E1 at 1. rewrite <- E2. exact H.
    + apply (IH (pre ++ [Tag b1]) (Tag b2 :: post) doc (S ib)).
      * rewrite Hd, items_AE. list_eq.
      * rewrite app_length, Hi. cbn [length]. lia.
      * rewrite flat_app, app_length, flat_tag_len, Hs. reflexivity.
      * intros c1 c2 o c Hn. apply (H c1 c2). rewrite nodes1_AE. right. exact Hn.
  - intros; exact I.
  - intros x f Hx Hf pre post doc ib sb Hd Hi Hs H. rewrite pair_eqs_cons. split.
    + apply (Hx pre (doc_of f ++ post) doc ib); try assumption.
      * rewrite Hd, doc_of_cons. list_eq.
      * intros c1 c2 o c Hn. apply (H c1 c2). cbn [ast_nodes]. apply in_or_app. left. exact Hn.
    + apply (Hf (pre ++ items_of x) post doc (ib + size x)).
      * rewrite Hd, doc_of_cons. list_eq.
      * rewrite app_length, size_items, Hi. reflexivity.
      * rewrite flat_app, app_length, Hs. reflexivity.
      * intros c1 c2 o c Hn. apply (H c1 c2). cbn [ast_nodes]. apply in_or_app. right. exact Hn.
Qed.

Lemma pair_respecting_eqs del f : pair_respecting del f -> pair_eqs del 0 f.
Proof.
  intros [_ H]. apply (proj2 (pair_eqs_ctx_both del) f [] [] (doc_of f) 0 0); try reflexivity.
  - cbn [app]. rewrite app_nil_r. reflexivity.
  - exact H.
Qed.

Theorem ast_mask_doc del f :
  pair_respecting del f -> doc_of (ast_mask del 0 f) = doc_mask del 0 (doc_of f).
Proof. intros H. apply ast_mask_doc_gen. apply pair_respecting_eqs. exact H. Qed.

Theorem ast_mask_ok del f : Forall ast_ok f -> Forall ast_ok (ast_mask del 0 f).
Proof. apply ast_mask_ok_gen. Qed.

(* ------------------------------------------------------------------------- *)
(** * Part 4: normalisation of syntax trees *)

(** Put a text in front of a normalised forest. *)
Definition acons (t : str) (nr : list ast) : list ast :=
  match t with
  | [] => nr
  | _ :: _ => match nr with AT u :: r => AT (t ++ u) :: r | _ => AT t :: nr end
  end.
Definition acons' (x : ast) (nr : list ast) : list ast :=
  match x with AT t => acons t nr | _ => x :: nr end.

(** Drop empty texts and merge adjacent text siblings, at every level. *)
Fixpoint norm_a (a : ast) : ast :=
  match a with
  | AE b1 b2 kids =>
    AE b1 b2 ((fix go (l : list ast) : list ast :=
                 match l with
                 | [] => []
                 | x :: l' => acons' (norm_a x) (go l')
                 end) kids)
  | _ => a
  end.
Fixpoint ast_norm (f : list ast) : list ast :=
  match f with
  | [] => []
  | x :: f' => acons' (norm_a x) (ast_norm f')
  end.

Lemma norm_a_AE b1 b2 kids : norm_a (AE b1 b2 kids) = AE b1 b2 (ast_norm kids).
Proof. reflexivity. Qed.

Lemma doc_of_acons t nr : doc_of (acons t nr) = tcons t (doc_of nr).
Proof.
  destruct t as [|c t]; [reflexivity|]. destruct nr as [|[u|b|b1 b2 k] r]; reflexivity.
Qed.

Lemma ast_norm_doc_both :
  (forall a nr d, doc_of nr = norm d -> doc_of (acons' (norm_a a) nr) = norm (items_of a ++ d)) /\
  (forall f, doc_of (ast_norm f) = norm (doc_of f)).
Proof.
  apply (ast_forest_ind
    (fun a => forall nr d, doc_of nr = norm d -> doc_of (acons' (norm_a a) nr) = norm (items_of a ++ d))
    (fun f => doc_of (ast_norm f) = norm (doc_of f))).
  - intros t nr d H. cbn [norm_a acons' items_of app norm]. rewrite doc_of_acons, H. reflexivity.
  - intros b nr d H. cbn [norm_a acons' items_of app norm]. rewrite doc_of_cons, H. reflexivity.
  - intros b1 b2 kids IH nr d H. rewrite norm_a_AE. cbn [acons'].
    rewrite doc_of_cons, !items_AE, IH, H.
    cbn [app norm]. rewrite <- !app_assoc. cbn [app]. rewrite norm_app_tag. reflexivity.
  - reflexivity.
  - intros x f Hx Hf. cbn [ast_norm]. rewrite doc_of_cons. apply Hx. exact Hf.
Qed.

Theorem ast_norm_doc f : doc_of (ast_norm f) = norm (doc_of f).
Proof. apply (proj2 ast_norm_doc_both). Qed.

Lemma acons'_ok x nr : ast_ok x -> Forall ast_ok nr -> Forall ast_ok (acons' x nr).
Proof.
  intros Hx Hn. destruct x as [t|b|b1 b2 k]; cbn [acons']; try (constructor; assumption).
  destruct t as [|c t]; [exact Hn|]. destruct nr as [|[u|b|b1 b2 k] r]; cbn [acons].
  - repeat constructor.
  - inversion Hn; subst. constructor; [constructor | assumption].
  - constructor; [constructor | assumption].
  - constructor; [constructor | assumption].
Qed.

Lemma ast_norm_ok_both :
  (forall a, ast_ok a -> ast_ok (norm_a a)) /\
  (forall f, Forall ast_ok f -> Forall ast_ok (ast_norm f)).
Proof.
  apply (ast_forest_ind
    (fun a => ast_ok a -> ast_ok (norm_a a))
    (fun f => Forall ast_ok f -> Forall ast_ok (ast_norm f))).
  - intros t H. exact H.
  - intros b H. exact H.
  - intros b1 b2 kids IH H. rewrite norm_a_AE.
    inversion H as [| |? ? ? el el' P1 S1 P2 S2 Ht Hk]; subst.
    apply (ok_AE b1 b2 _ el el'); try assumption. apply IH. exact Hk.
  - intros _. constructor.
  - intros x f Hx Hf H. inversion H; subst. cbn [ast_norm]. apply acons'_ok; auto.
Qed.

Theorem ast_norm_ok f : Forall ast_ok f -> Forall ast_ok (ast_norm f).
Proof. apply (proj2 ast_norm_ok_both). Qed.

Lemma ast_pairs_acons' x nr : ast_pairs (acons' x nr) = pairs1 x ++ ast_pairs nr.
Proof.
  destruct x as [t|b|b1 b2 k]; cbn [acons']; try reflexivity.
  destruct t as [|c t]; [reflexivity|]. destruct nr as [|[u|b|b1 b2 k] r]; reflexivity.
Qed.

Lemma ast_norm_pairs_both :
  (forall a, pairs1 (norm_a a) = pairs1 a) /\ (forall f, ast_pairs (ast_norm f) = ast_pairs f).
Proof.
  apply (ast_forest_ind
    (fun a => pairs1 (norm_a a) = pairs1 a) (fun f => ast_pairs (ast_norm f) = ast_pairs f)).
  - reflexivity.
  - reflexivity.
  - intros b1 b2 kids IH. rewrite norm_a_AE. cbn [pairs1].
    fold (ast_pairs (ast_norm kids)). fold (ast_pairs kids). rewrite IH. reflexivity.
  - reflexivity.
  - intros x f Hx Hf. cbn [ast_norm]. rewrite ast_pairs_acons', ast_pairs_cons, Hx, Hf. reflexivity.
Qed.

(** The [AE] nodes keep their tag bodies and their order. *)
Theorem ast_norm_nodes f :
  map node_bodies (ast_nodes 0 (ast_norm f)) = map node_bodies (ast_nodes 0 f).
Proof. rewrite !nodes_pairs. apply (proj2 ast_norm_pairs_both). Qed.

(* ------------------------------------------------------------------------- *)
(** * Part 5: the combined statement *)

(** What is left of any rendering of the document of a syntax tree after deleting the symbols of
    a pair-respecting mask is the rendering of the document of a syntax tree again: the masked
    and normalised tree. *)
Theorem masked_rendering : forall ds de f del,
  pair_respecting del f ->
  rs ds de (sdel_from 0 del (flat (doc_of f))) =
  render ds de (doc_of (ast_norm (ast_mask del 0 f))).
Proof.
  intros ds de f del H.
  rewrite (doc_mask_flat _ _ _ (proj1 H)), rs_flat.
  rewrite ast_norm_doc, render_norm, (ast_mask_doc del f H). reflexivity.
Qed.

(** The same for a set of deleted index ranges. *)
Corollary masked_rendering_ranges : forall ds de f R,
  pair_respecting (in_rangesb R) f ->
  rs ds de (sdelete R (flat (doc_of f))) =
  render ds de (doc_of (ast_norm (ast_mask (in_rangesb R) 0 f))).
Proof. intros ds de f R H. unfold sdelete. apply masked_rendering. exact H. Qed.

(** The new document is good again when the kept bytes of every text are well-formed UTF-8. *)
Corollary masked_good : forall ds de f del,
  pair_respecting del f ->
  good_doc ds de (doc_of f) -> bodies_ok (doc_of f) ->
  (forall i t, nth_error (doc_of f) i = Some (Txt t) ->
     wf_utf8 (kept_from (fstart (doc_of f) i) del t) = true) ->
  good_doc ds de (doc_of (ast_norm (ast_mask del 0 f))) /\
  bodies_ok (doc_of (ast_norm (ast_mask del 0 f))).
Proof.
  intros ds de f del H (Hn & Hd & Hwt & Hwb) Hb Hk.
  rewrite ast_norm_doc, (ast_mask_doc del f H). split.
  - apply good_doc_norm.
    + intros t' Ht'. apply doc_mask_texts in Ht'. destruct Ht' as (i & t & Hi & ->).
      cbn [Nat.add]. split; [apply Hk; exact Hi|].
      intros c Hc. apply kept_from_in in Hc. apply nth_error_In in Hi.
      apply (Hd (Txt t) Hi c Hc).
    + intros b Hb'. apply doc_mask_tags in Hb'. split; [|split].
      * apply (normal_tag_ne _ _ Hn Hb').
      * apply Hwb. exact Hb'.
      * apply (Hd (Tag b) Hb').
  - apply bodies_ok_norm. intros b Hb'. apply doc_mask_tags in Hb'. apply Hb. exact Hb'.
Qed.

(** The tree is well formed again, and its [AE] nodes are the kept [AE] nodes. *)
Corollary masked_ok del f : Forall ast_ok f -> Forall ast_ok (ast_norm (ast_mask del 0 f)).
Proof. intros H. apply ast_norm_ok, ast_mask_ok. exact H. Qed.

Corollary masked_nodes del f :
  map node_bodies (ast_nodes 0 (ast_norm (ast_mask del 0 f))) =
  map node_bodies (filter (fun n => negb (del (fstart (doc_of f) (node_open n)))) (ast_nodes 0 f)).
Proof. rewrite ast_norm_nodes. apply ast_mask_nodes. Qed.

(* ------------------------------------------------------------------------- *)
(** * Part 6: an instance *)

(** Boolean checkers. *)
Definition item_respectingb (del : nat -> bool) (base : nat) (doc : list item) : bool :=
  forallb (fun i =>
    match nth_error doc i with
    | Some (Tag b) =>
      forallb (fun k => Bool.eqb (del (base + fstart doc i + k)) (del (base + fstart doc i)))
              (seq 0 (length b + 2))
    | _ => true
    end) (seq 0 (length doc)).

Definition pair_respectingb (del : nat -> bool) (f : list ast) : bool :=
  item_respectingb del 0 (doc_of f) &&
  forallb (fun n => Bool.eqb (del (fstart (doc_of f) (node_open n)))
                             (del (fstart (doc_of f) (node_close n)))) (ast_nodes 0 f).

Lemma item_respectingb_sound del base doc :
  item_respectingb del base doc = true -> item_respecting del base doc.
Proof.
  intros H i b Hi j Hj. unfold item_respectingb in H. rewrite forallb_forall in H.
  assert (i < length doc) as Hlt by (apply nth_error_Some; congruence).
  specialize (H i). rewrite Hi in H. rewrite in_seq in H. specialize (H ltac:(lia)).
  rewrite forallb_forall in H.
  rewrite (fstart_S doc i (Tag b) Hi), (flat_item_len (Tag b)) in Hj.
  specialize (H (j - (base + fstart doc i))). rewrite in_seq in H. specialize (H ltac:(lia)).
  apply eqb_prop in H. rewrite <- H. f_equal. lia.
Qed.

Lemma pair_respectingb_sound del f : pair_respectingb del f = true -> pair_respecting del f.
Proof.
  intros H. unfold pair_respectingb in H. apply andb_true_iff in H. destruct H as [H1 H2].
  split; [apply item_respectingb_sound; exact H1|].
  intros b1 b2 o c Hn. rewrite forallb_forall in H2. specialize (H2 _ Hn).
  cbn [node_open node_close] in H2. apply eqb_prop. exact H2.
Qed.

(** hi <a> "x " <b> y </b> " z" <c> w <=> </c> "q " </a> z *)
Definition dm_ast : list ast :=
  [ AT [104%N; 105%N];
    AE [97%N] [47%N; 97%N]
       [ AT [120%N; 32%N];
         AE [98%N] [47%N; 98%N] [ AT [121%N] ];
         AT [32%N; 122%N];
         AE [99%N] [47%N; 99%N] [ AT [119%N]; AC [61%N] ];
         AT [113%N; 32%N] ];
    AT [122%N] ].

(** Symbol indices: h 0, i 1, <a> 2-4, "x " 5-6, <b> 7-9, y 10, </b> 11-14, " z" 15-16,
    <c> 17-19, w 20, <=> 21-23, </c> 24-27, "q " 28-29, </a> 30-33, z 34.
    Deleted: the byte i; the whole element b; the byte z with the tag <c>; the tag </c>; the
    blank after q.  The element c is spliced into its parent. *)
Definition dm_ranges : list (nat * nat) := [(1, 2); (7, 15); (16, 20); (24, 28); (29, 30)].
Definition dm_del : nat -> bool := in_rangesb dm_ranges.

Example dm_ok : Forall ast_ok dm_ast.
Proof.
  apply Forall_forall. intros a Ha. apply ast_okb_sound.
  assert (forallb ast_okb dm_ast = true) as H by (vm_compute; reflexivity).
  rewrite forallb_forall in H. apply H. exact Ha.
Qed.

Example dm_flat_len : length (flat (doc_of dm_ast)) = 35.
Proof. vm_compute. reflexivity. Qed.

Example dm_nodes : ast_nodes 0 dm_ast =
  [ ([97%N], [47%N; 97%N], 1, 12); ([98%N], [47%N; 98%N], 3, 5); ([99%N], [47%N; 99%N], 7, 10) ].
Proof. vm_compute. reflexivity. Qed.

Example dm_respecting : pair_respecting dm_del dm_ast.
Proof. apply pair_respectingb_sound. vm_compute. reflexivity. Qed.

(** A mask that deletes only one tag of a pair is rejected.  (A whole deleted element leaves
    the empty text of its deleted content behind, see [dm_masked]; [ast_norm] drops it.) *)
Example dm_not_respecting : pair_respectingb (in_rangesb [(17, 20)]) dm_ast = false.
Proof. vm_compute. reflexivity. Qed.

Example dm_masked : ast_mask dm_del 0 dm_ast =
  [ AT [104%N];
    AE [97%N] [47%N; 97%N]
       [ AT [120%N; 32%N]; AT []; AT [32%N]; AT [119%N]; AC [61%N]; AT [113%N] ];
    AT [122%N] ].
Proof. vm_compute. reflexivity. Qed.

Example dm_result : ast_norm (ast_mask dm_del 0 dm_ast) =
  [ AT [104%N];
    AE [97%N] [47%N; 97%N] [ AT [120%N; 32%N; 32%N; 119%N]; AC [61%N]; AT [113%N] ];
    AT [122%N] ].
Proof. vm_compute. reflexivity. Qed.

(** Both sides of [masked_rendering] for the delimiters "<" and ">": h<a>x  w<=>q</a>z *)
Definition dm_out : str :=
  [104%N; 60%N; 97%N; 62%N; 120%N; 32%N; 32%N; 119%N; 60%N; 61%N; 62%N; 113%N;
   60%N; 47%N; 97%N; 62%N; 122%N].

Example dm_lhs : rs [60%N] [62%N] (sdel_from 0 dm_del (flat (doc_of dm_ast))) = dm_out.
Proof. vm_compute. reflexivity. Qed.

Example dm_rhs : render [60%N] [62%N] (doc_of (ast_norm (ast_mask dm_del 0 dm_ast))) = dm_out.
Proof. vm_compute. reflexivity. Qed.

(** ... and by the theorem. *)
Example dm_both :
  rs [60%N] [62%N] (sdel_from 0 dm_del (flat (doc_of dm_ast))) =
  render [60%N] [62%N] (doc_of (ast_norm (ast_mask dm_del 0 dm_ast))).
Proof. apply masked_rendering. exact dm_respecting. Qed.

(** The deleted bytes of the real rendering: the same string by [delete_ranges] on bytes. *)
Example dm_bytes :
  delete_ranges [(1, 2); (7, 15); (16, 20); (24, 28); (29, 30)]
                (render [60%N] [62%N] (doc_of dm_ast)) = dm_out.
Proof. vm_compute. reflexivity. Qed.

Example dm_kept_nodes :
  map node_bodies (ast_nodes 0 (ast_norm (ast_mask dm_del 0 dm_ast))) = [ ([97%N], [47%N; 97%N]) ].
Proof. vm_compute. reflexivity. Qed.

Ltac dm_disj :=
  let c := fresh "c" in let Hc := fresh "Hc" in
  intros c Hc; cbn [In] in Hc;
  repeat (destruct Hc as [<-|Hc]; [split; (intros [E|[]]; discriminate E)|]); destruct Hc.

Ltac dm_item :=
  match goal with
  | |- _ /\ _ /\ _ => split; [dm_disj | split; [vm_compute; reflexivity | vm_compute; lia]]
  | |- _ /\ _ => split; [dm_disj | vm_compute; reflexivity]
  end.

(** The hypotheses of [masked_good] hold for the instance. *)
Example dm_good_before : good_doc [60%N] [62%N] (doc_of dm_ast) /\ bodies_ok (doc_of dm_ast).
Proof.
  assert (forall it, In it (doc_of dm_ast) ->
    match it with
    | Txt t => disjoint_from [60%N] [62%N] t /\ wf_utf8 t = true
    | Tag b => disjoint_from [60%N] [62%N] b /\ wf_utf8 b = true /\ body_ok b
    end) as K.
  { intros it Hit. cbv [doc_of dm_ast flat_map items_of app] in Hit. cbn [In] in Hit.
    repeat (destruct Hit as [<-|Hit]; [dm_item|]). destruct Hit. }
  split; [split; [|split; [|split]]|].
  - vm_compute. repeat split; discriminate.
  - intros it Hit. specialize (K it Hit). destruct it; tauto.
  - intros t Ht. apply (K (Txt t) Ht).
  - intros b Hb. apply (K (Tag b) Hb).
  - intros b Hb. apply (K (Tag b) Hb).
Qed.

Example dm_kept_wf : forall i t, nth_error (doc_of dm_ast) i = Some (Txt t) ->
  wf_utf8 (kept_from (fstart (doc_of dm_ast) i) dm_del t) = true.
Proof.
  intros i t H.
  do 14 (destruct i as [|i];
         [vm_compute in H; try discriminate H; inversion H; subst t; vm_compute; reflexivity|]).
  vm_compute in H. destruct i; discriminate H.
Qed.

Example dm_good_after :
  good_doc [60%N] [62%N] (doc_of (ast_norm (ast_mask dm_del 0 dm_ast))) /\
  bodies_ok (doc_of (ast_norm (ast_mask dm_del 0 dm_ast))).
Proof.
  apply masked_good; [exact dm_respecting | apply dm_good_before | apply dm_good_before |
                      exact dm_kept_wf].
Qed.

Print Assumptions doc_mask_flat.
Print Assumptions doc_mask_app.
Print Assumptions doc_mask_texts.
Print Assumptions doc_mask_tags.
Print Assumptions flat_norm.
Print Assumptions render_norm.
Print Assumptions normal_norm.
Print Assumptions tags_of_norm.
Print Assumptions in_tag_norm.
Print Assumptions norm_texts.
Print Assumptions norm_texts_wf.
Print Assumptions norm_texts_disjoint.
Print Assumptions good_doc_norm.
Print Assumptions bodies_ok_norm.
Print Assumptions ast_mask_doc_gen.
Print Assumptions ast_mask_doc.
Print Assumptions ast_mask_ok_gen.
Print Assumptions ast_mask_ok.
Print Assumptions nodes_pairs.
Print Assumptions ast_mask_nodes.
Print Assumptions pair_respecting_eqs.
Print Assumptions ast_norm_doc.
Print Assumptions ast_norm_ok.
Print Assumptions ast_norm_nodes.
Print Assumptions masked_rendering.
Print Assumptions masked_rendering_ranges.
Print Assumptions masked_good.
Print Assumptions masked_ok.
Print Assumptions masked_nodes.
Print Assumptions item_respectingb_sound.
Print Assumptions pair_respectingb_sound.
Print Assumptions dm_ok.
Print Assumptions dm_respecting.
Print Assumptions dm_both.
Print Assumptions dm_good_after.
