(** C18, stage 2a: the range-level functions of the pipeline commute with strictly monotone maps
    of positions ([merge_markers], [sort_ranges], [merge_ranges], [merge_overlapped_ranges]), and
    deleting index ranges of a rendered symbol list yields the rendering of the abstractly
    deleted symbol list ([remove_markers], [get_removed_pos] on a rendering). *)
From Coq Require Import List NArith Arith Bool Lia PeanoNat.
Import ListNotations.
From Chiri Require Import Base.Bytes Base.Res Model.Markers Model.Format Spec.Ranges
     Proofs.ResLemmas Proofs.MarkerProofs Proofs.RangeProofs Proofs.SimFlat Proofs.SimFront.

(* ------------------------------------------------------------------------- *)
(** * Monotone maps of positions *)

(** A map of positions that is strictly monotone on [0, n]. *)
Definition mono_on (f : nat -> nat) (n : nat) : Prop :=
  forall a b, a < b -> b <= n -> f a < f b.

(** [map_range] and [map_rtree] are those of Proofs/SimFront.v. *)

Definition map_marker (f : nat -> nat) (m : marker) : marker := (map_range f (fst m), snd m).

(** Both ends of a range are at most [n]. *)
Definition range_le (n : nat) (r : nat * nat) : Prop := fst r <= n /\ snd r <= n.

Definition ranges_le (n : nat) (rs : list (nat * nat)) : Prop :=
  forall r, In r rs -> fst r <= n /\ snd r <= n.

Definition marker_le (n : nat) (m : marker) : Prop := range_le n (fst m).

(** All positions occurring in a tree are at most [n]. *)
Fixpoint rtree_le (n : nat) (t : rtree) : Prop :=
  match t with
  | RT (h, cl) ch =>
    (fst h <= n /\ snd h <= n) /\
    match cl with Some c => fst c <= n /\ snd c <= n | None => True end /\
    (fix all (l : list rtree) : Prop :=
       match l with
       | [] => True
       | c :: l' => rtree_le n c /\ all l'
       end) ch
  end.

Lemma rtree_le_unfold : forall n h cl ch,
  rtree_le n (RT (h, cl) ch) <->
  range_le n h /\ match cl with Some c => range_le n c | None => True end /\
  Forall (rtree_le n) ch.
Proof.
  intros n h cl ch. cbn [rtree_le]. unfold range_le.
  assert ((fix all (l : list rtree) : Prop :=
             match l with [] => True | c :: l' => rtree_le n c /\ all l' end) ch
          <-> Forall (rtree_le n) ch) as E.
  { induction ch as [|c ch IH]; [split; [constructor | exact (fun _ => I)]|].
    split.
    - intros [H1 H2]. constructor; [exact H1 | apply IH; exact H2].
    - intros H. inversion H; subst. split; [assumption | apply IH; assumption]. }
  rewrite E. tauto.
Qed.

Lemma fst_map_range : forall f r, fst (map_range f r) = f (fst r).
Proof. reflexivity. Qed.
Lemma snd_map_range : forall f r, snd (map_range f r) = f (snd r).
Proof. reflexivity. Qed.

Lemma in_firstn' {A} : forall i (l : list A) x, In x (firstn i l) -> In x l.
Proof.
  induction i as [|i IH]; intros [|y l] x H; cbn [firstn] in H; try destruct H as [].
  - left. assumption.
  - right. apply IH. assumption.
Qed.

Lemma in_skipn' {A} : forall i (l : list A) x, In x (skipn i l) -> In x l.
Proof.
  induction i as [|i IH]; intros [|y l] x H; cbn [skipn] in H; try exact H.
  right. apply IH. exact H.
Qed.

Lemma mono_lt_iff : forall f n a b, mono_on f n -> a <= n -> b <= n -> (f a < f b <-> a < b).
Proof.
  intros f n a b Hf Ha Hb. split; intros H.
  - destruct (Nat.lt_trichotomy a b) as [L|[L|L]]; [exact L | subst; lia |].
    pose proof (Hf b a L Ha). lia.
  - apply Hf; assumption.
Qed.

Lemma mono_le_iff : forall f n a b, mono_on f n -> a <= n -> b <= n -> (f a <= f b <-> a <= b).
Proof.
  intros f n a b Hf Ha Hb. pose proof (mono_lt_iff f n b a Hf Hb Ha). lia.
Qed.

Lemma mono_inj : forall f n a b, mono_on f n -> a <= n -> b <= n -> f a = f b -> a = b.
Proof.
  intros f n a b Hf Ha Hb E.
  pose proof (mono_le_iff f n a b Hf Ha Hb). pose proof (mono_le_iff f n b a Hf Hb Ha). lia.
Qed.

Lemma mono_leb : forall f n a b, mono_on f n -> a <= n -> b <= n -> (f a <=? f b) = (a <=? b).
Proof.
  intros f n a b Hf Ha Hb. pose proof (mono_le_iff f n a b Hf Ha Hb).
  destruct (Nat.leb_spec (f a) (f b)); destruct (Nat.leb_spec a b); try reflexivity; lia.
Qed.

Lemma mono_ltb : forall f n a b, mono_on f n -> a <= n -> b <= n -> (f a <? f b) = (a <? b).
Proof.
  intros f n a b Hf Ha Hb. pose proof (mono_lt_iff f n a b Hf Ha Hb).
  destruct (Nat.ltb_spec (f a) (f b)); destruct (Nat.ltb_spec a b); try reflexivity; lia.
Qed.

Lemma mono_min : forall f n a b, mono_on f n -> a <= n -> b <= n ->
  Nat.min (f a) (f b) = f (Nat.min a b).
Proof.
  intros f n a b Hf Ha Hb. pose proof (mono_le_iff f n a b Hf Ha Hb).
  pose proof (mono_le_iff f n b a Hf Hb Ha).
  destruct (Nat.le_ge_cases a b) as [L|L].
  - rewrite (Nat.min_l a b L). apply Nat.min_l. lia.
  - rewrite (Nat.min_r a b L). apply Nat.min_r. lia.
Qed.

Lemma mono_max : forall f n a b, mono_on f n -> a <= n -> b <= n ->
  Nat.max (f a) (f b) = f (Nat.max a b).
Proof.
  intros f n a b Hf Ha Hb. pose proof (mono_le_iff f n a b Hf Ha Hb).
  pose proof (mono_le_iff f n b a Hf Hb Ha).
  destruct (Nat.le_ge_cases a b) as [L|L].
  - rewrite (Nat.max_r a b L). apply Nat.max_r. lia.
  - rewrite (Nat.max_l a b L). apply Nat.max_l. lia.
Qed.

Lemma ranges_le_cons : forall n r rs, ranges_le n (r :: rs) <-> range_le n r /\ ranges_le n rs.
Proof.
  intros n r rs. unfold ranges_le, range_le. split.
  - intros H. split; [apply H; left; reflexivity | intros r' Hin; apply H; right; exact Hin].
  - intros [H1 H2] r' [<- | Hin]; [exact H1 | apply H2; exact Hin].
Qed.

Lemma ranges_le_app : forall n l1 l2, ranges_le n (l1 ++ l2) <-> ranges_le n l1 /\ ranges_le n l2.
Proof.
  intros n l1 l2. unfold ranges_le. split.
  - intros H. split; intros r Hin; apply H; apply in_or_app; [left | right]; exact Hin.
  - intros [H1 H2] r Hin. apply in_app_or in Hin. destruct Hin; [apply H1 | apply H2]; assumption.
Qed.

Lemma ranges_le_nil : forall n, ranges_le n [].
Proof. intros n r []. Qed.

(* ------------------------------------------------------------------------- *)
(** * Part 2: the range-list functions of the formatter *)

Lemma insert_sorted_mono : forall f n r l, mono_on f n -> range_le n r -> ranges_le n l ->
  insert_sorted (map_range f r) (map (map_range f) l) = map (map_range f) (insert_sorted r l).
Proof.
  intros f n r l Hf Hr. induction l as [|x l IH]; intros Hl; [reflexivity|].
  apply ranges_le_cons in Hl. destruct Hl as [Hx Hl].
  cbn [map insert_sorted]. rewrite !fst_map_range.
  rewrite (mono_leb f n (fst r) (fst x) Hf (proj1 Hr) (proj1 Hx)).
  destruct (fst r <=? fst x); cbn [map]; [reflexivity|].
  rewrite IH by exact Hl. reflexivity.
Qed.

Lemma insert_sorted_le : forall n r l, range_le n r -> ranges_le n l ->
  ranges_le n (insert_sorted r l).
Proof.
  intros n r l Hr. induction l as [|x l IH]; intros Hl.
  - cbn [insert_sorted]. apply ranges_le_cons. split; [exact Hr | exact Hl].
  - cbn [insert_sorted]. destruct (fst r <=? fst x).
    + apply ranges_le_cons. split; [exact Hr | exact Hl].
    + apply ranges_le_cons in Hl. destruct Hl as [Hx Hl].
      apply ranges_le_cons. split; [exact Hx | apply IH; exact Hl].
Qed.

Lemma sort_ranges_le : forall n rs, ranges_le n rs -> ranges_le n (sort_ranges rs).
Proof.
  intros n rs. induction rs as [|r rs IH]; intros H; [exact H|].
  apply ranges_le_cons in H. destruct H as [Hr Hrs].
  cbn [sort_ranges fold_right]. apply insert_sorted_le; [exact Hr | apply IH; exact Hrs].
Qed.

Theorem sort_ranges_mono : forall f n rs, mono_on f n ->
  (forall r, In r rs -> fst r <= n /\ snd r <= n) ->
  sort_ranges (map (map_range f) rs) = map (map_range f) (sort_ranges rs).
Proof.
  intros f n rs Hf. induction rs as [|r rs IH]; intros H; [reflexivity|].
  apply (ranges_le_cons n r rs) in H. destruct H as [Hr Hrs].
  cbn [map sort_ranges fold_right]. fold (sort_ranges (map (map_range f) rs)).
  fold (sort_ranges rs). rewrite IH by exact Hrs.
  apply (insert_sorted_mono f n); [exact Hf | exact Hr | apply sort_ranges_le; exact Hrs].
Qed.

Lemma index_map {A B} (g : A -> B) : forall (l : list A) i,
  index (map g l) i = match index l i with Ok x => Ok (g x) | Panic => Panic end.
Proof.
  intros l i. unfold index. rewrite nth_error_map. destruct (nth_error l i); reflexivity.
Qed.

Lemma index_in {A} : forall (l : list A) i x, index l i = Ok x -> In x l.
Proof.
  intros l i x H. unfold index in H. destruct (nth_error l i) eqn:E; [|discriminate H].
  inversion H; subst. apply nth_error_In in E. exact E.
Qed.

Lemma seek_mono : forall f n rs c x, mono_on f n -> ranges_le n rs -> x <= n ->
  seek (map (map_range f) rs) c (f x) = seek rs c x.
Proof.
  intros f n rs c x Hf Hrs Hx. induction c as [|c IH].
  - cbn [seek]. unfold Format.range. rewrite index_map. destruct (index rs 0) as [r|] eqn:E; cbn [bind]; [|reflexivity].
    rewrite fst_map_range.
    rewrite (mono_ltb f n (fst r) x Hf (proj1 (Hrs r (index_in _ _ _ E))) Hx). reflexivity.
  - cbn [seek]. unfold Format.range. rewrite index_map. destruct (index rs (S c)) as [r|] eqn:E; cbn [bind]; [|reflexivity].
    rewrite fst_map_range.
    rewrite (mono_ltb f n (fst r) x Hf (proj1 (Hrs r (index_in _ _ _ E))) Hx).
    destruct (fst r <? x); [reflexivity | exact IH].
Qed.

Lemma insert_at_map {A B} (g : A -> B) : forall (l : list A) i x,
  insert_at (map g l) i (g x) =
  match insert_at l i x with Ok o => Ok (map g o) | Panic => Panic end.
Proof.
  intros l i x. unfold insert_at. rewrite map_length. destruct (i <=? length l); [|reflexivity].
  rewrite map_app. cbn [map]. rewrite firstn_map, skipn_map. reflexivity.
Qed.

Lemma insert_at_le : forall n (l : list range) i x o, ranges_le n l -> range_le n x ->
  insert_at l i x = Ok o -> ranges_le n o.
Proof.
  intros n l i x o Hl Hx H. unfold insert_at in H. destruct (i <=? length l); [|discriminate H].
  inversion H; subst. apply ranges_le_app. split.
  - intros r Hin. apply Hl. apply (in_firstn' i). exact Hin.
  - apply ranges_le_cons. split; [exact Hx|]. intros r Hin. apply Hl. apply (in_skipn' i). exact Hin.
Qed.

Lemma merge_ranges_loop_mono : forall f n rev_new rs cursor,
  mono_on f n -> ranges_le n rs -> ranges_le n rev_new ->
  merge_ranges_loop (map (map_range f) rs) cursor (map (map_range f) rev_new) =
  match merge_ranges_loop rs cursor rev_new with
  | Ok out => Ok (map (map_range f) out)
  | Panic => Panic
  end.
Proof.
  intros f n rev_new. induction rev_new as [|nr rest IH]; intros rs cursor Hf Hrs Hnew;
    [reflexivity|].
  apply ranges_le_cons in Hnew. destruct Hnew as [Hnr Hrest].
  cbn [map merge_ranges_loop]. rewrite fst_map_range.
  assert (match cursor with
          | Some c => seek (map (map_range f) rs) c (f (fst nr))
          | None => Ok None
          end =
          match cursor with Some c => seek rs c (fst nr) | None => Ok None end) as E.
  { destruct cursor as [c|]; [|reflexivity]. apply (seek_mono f n); [exact Hf | exact Hrs | apply Hnr]. }
  rewrite E. clear E.
  destruct (match cursor with Some c => seek rs c (fst nr) | None => Ok None end) as [cursor'|];
    cbn [bind]; [|reflexivity].
  assert (forall i, bind (insert_at (map (map_range f) rs) i (map_range f nr))
                         (fun ranges' => merge_ranges_loop ranges' cursor' (map (map_range f) rest)) =
                    match bind (insert_at rs i nr) (fun ranges' => merge_ranges_loop ranges' cursor' rest) with
                    | Ok out => Ok (map (map_range f) out)
                    | Panic => Panic
                    end) as K.
  { intros i. rewrite insert_at_map. destruct (insert_at rs i nr) as [o|] eqn:Ei; cbn [bind]; [|reflexivity].
    apply IH; [exact Hf | | exact Hrest]. apply (insert_at_le n rs i nr o Hrs Hnr Ei). }
  destruct cursor' as [c|]; apply K.
Qed.

Theorem merge_ranges_mono : forall f n rs new, mono_on f n ->
  (forall r, In r rs -> fst r <= n /\ snd r <= n) ->
  (forall r, In r new -> fst r <= n /\ snd r <= n) ->
  merge_ranges (map (map_range f) rs) (map (map_range f) new) =
  match merge_ranges rs new with Ok out => Ok (map (map_range f) out) | Panic => Panic end.
Proof.
  intros f n rs new Hf Hrs Hnew. unfold merge_ranges. destruct rs as [|r0 rs']; [reflexivity|].
  cbn [map]. change (map_range f r0 :: map (map_range f) rs') with (map (map_range f) (r0 :: rs')).
  rewrite map_length, <- map_rev.
  apply (merge_ranges_loop_mono f n); [exact Hf | exact Hrs |].
  intros r Hin. apply Hnew. apply in_rev. exact Hin.
Qed.

Lemma mo_step_mono : forall f n done cur r, mono_on f n -> range_le n cur -> range_le n r ->
  mo_step (map (map_range f) done, map_range f cur) (map_range f r) =
  (map (map_range f) (fst (mo_step (done, cur) r)), map_range f (snd (mo_step (done, cur) r))) /\
  range_le n (snd (mo_step (done, cur) r)).
Proof.
  intros f n done cur r Hf [Hc1 Hc2] [Hr1 Hr2]. unfold mo_step.
  rewrite !fst_map_range, !snd_map_range.
  rewrite (mono_leb f n (fst r) (snd cur) Hf Hr1 Hc2).
  destruct (fst r <=? snd cur); cbn [fst snd].
  - split.
    + rewrite (mono_max f n (snd cur) (snd r) Hf Hc2 Hr2). reflexivity.
    + split; cbn [fst snd]; [exact Hc1 | apply Nat.max_lub; assumption].
  - split; [|split; assumption]. rewrite map_app. reflexivity.
Qed.

Lemma mo_fold_mono : forall f n rest done cur, mono_on f n -> range_le n cur -> ranges_le n rest ->
  fold_left mo_step (map (map_range f) rest) (map (map_range f) done, map_range f cur) =
  (map (map_range f) (fst (fold_left mo_step rest (done, cur))),
   map_range f (snd (fold_left mo_step rest (done, cur)))).
Proof.
  intros f n rest. induction rest as [|r rest IH]; intros done cur Hf Hcur Hrest; [reflexivity|].
  apply ranges_le_cons in Hrest. destruct Hrest as [Hr Hrest].
  cbn [map fold_left]. destruct (mo_step_mono f n done cur r Hf Hcur Hr) as [E Hle].
  rewrite E. destruct (mo_step (done, cur) r) as [done' cur']. cbn [fst snd] in *.
  apply IH; assumption.
Qed.

Theorem merge_overlapped_mono : forall f n rs, mono_on f n ->
  (forall r, In r rs -> fst r <= n /\ snd r <= n) ->
  merge_overlapped_ranges (map (map_range f) rs) = map (map_range f) (merge_overlapped_ranges rs).
Proof.
  intros f n rs Hf Hrs. destruct rs as [|r0 rest]; [reflexivity|].
  apply (ranges_le_cons n r0 rest) in Hrs. destruct Hrs as [H0 Hrest].
  cbn [map]. rewrite !merge_overlapped_unfold.
  pose proof (mo_fold_mono f n rest [] r0 Hf H0 Hrest) as E. cbn [map] in E.
  etransitivity; [exact (f_equal mo_out E)|]. unfold mo_out. cbn [fst snd].
  rewrite map_app. reflexivity.
Qed.

(* ------------------------------------------------------------------------- *)
(** * Part 1: [merge_markers] *)

Lemma contains_mono : forall f n m x, mono_on f n -> range_le n m -> x <= n ->
  contains (map_range f m) (f x) = contains m x.
Proof.
  intros f n m x Hf [H1 H2] Hx. unfold contains. rewrite fst_map_range, snd_map_range.
  rewrite (mono_leb f n (fst m) x Hf H1 Hx), (mono_ltb f n x (snd m) Hf Hx H2). reflexivity.
Qed.

Lemma mcm_le : forall n ch m c, Forall (marker_le n) ch -> range_le n m ->
  range_le n (fst (merge_child_markers ch m c)).
Proof.
  intros n ch. induction ch as [|[cr ci] rest IH]; intros m c Hch Hm; [exact Hm|].
  inversion Hch as [|x l Hc Hrest]; subst. cbn [merge_child_markers].
  destruct (contains m (fst cr) || contains m (snd cr)); [|exact Hm].
  apply IH; [exact Hrest|]. destruct Hm as [Hm1 Hm2]. destruct Hc as [Hc1 Hc2]. cbn [fst] in Hc1, Hc2.
  split; cbn [fst snd]; [lia | apply Nat.max_lub; assumption].
Qed.

Lemma mcm_mono : forall f n ch m c, mono_on f n -> Forall (marker_le n) ch -> range_le n m ->
  merge_child_markers (map (map_marker f) ch) (map_range f m) c =
  (map_range f (fst (merge_child_markers ch m c)), snd (merge_child_markers ch m c)).
Proof.
  intros f n ch. induction ch as [|[cr ci] rest IH]; intros m c Hf Hch Hm; [reflexivity|].
  inversion Hch as [|x l Hc Hrest]; subst. destruct Hc as [Hc1 Hc2]. cbn [fst] in Hc1, Hc2.
  cbn [map merge_child_markers]. unfold map_marker at 1. cbn [fst snd].
  rewrite !fst_map_range, !snd_map_range.
  rewrite (contains_mono f n m (fst cr) Hf Hm Hc1), (contains_mono f n m (snd cr) Hf Hm Hc2).
  destruct (contains m (fst cr) || contains m (snd cr)); [|reflexivity].
  destruct Hm as [Hm1 Hm2].
  rewrite (mono_min f n (fst m) (fst cr) Hf Hm1 Hc1), (mono_max f n (snd m) (snd cr) Hf Hm2 Hc2).
  change (f (Nat.min (fst m) (fst cr)), f (Nat.max (snd m) (snd cr)))
    with (map_range f (Nat.min (fst m) (fst cr), Nat.max (snd m) (snd cr))).
  apply IH; [exact Hf | exact Hrest|].
  split; cbn [fst snd]; [lia | apply Nat.max_lub; assumption].
Qed.

Lemma slice_list_map {A B} (g : A -> B) : forall (l : list A) a b,
  slice_list (map g l) a b =
  match slice_list l a b with Ok k => Ok (map g k) | Panic => Panic end.
Proof.
  intros l a b. unfold slice_list. rewrite map_length.
  destruct ((a <=? b) && (b <=? length l)); [|reflexivity].
  rewrite skipn_map, firstn_map. reflexivity.
Qed.

Lemma slice_list_forall {A} (Q : A -> Prop) : forall (l : list A) a b k,
  slice_list l a b = Ok k -> Forall Q l -> Forall Q k.
Proof.
  intros l a b k H Hl. unfold slice_list in H.
  destruct ((a <=? b) && (b <=? length l)); [|discriminate H]. inversion H; subst.
  rewrite Forall_forall in *. intros x Hin. apply Hl.
  apply (in_skipn' a). apply (in_firstn' (b - a)). exact Hin.
Qed.

Lemma rebase_one_map : forall f s e cur c,
  rebase_one s e cur (map_marker f c) = map_marker f (rebase_one s e cur c).
Proof.
  intros f s e cur [r [i|]]; unfold rebase_one, map_marker; cbn [fst snd];
    [destruct (Markers.in_range s e i)|]; reflexivity.
Qed.

Lemma rebase_map : forall f s e cur l,
  map (rebase_one s e cur) (map (map_marker f) l) = map (map_marker f) (map (rebase_one s e cur) l).
Proof.
  intros f s e cur l. rewrite !map_map. apply map_ext. intros c. apply rebase_one_map.
Qed.

Lemma rebase_le : forall n s e cur l, Forall (marker_le n) l ->
  Forall (marker_le n) (map (rebase_one s e cur) l).
Proof.
  intros n s e cur l H. induction H as [|c l Hc Hl IH]; [constructor|].
  cbn [map]. constructor; [|exact IH]. unfold marker_le in *.
  destruct c as [r [i|]]; unfold rebase_one; cbn [fst snd];
    [destruct (Markers.in_range s e i)|]; exact Hc.
Qed.

Definition opt_range_le (n : nat) (e : option (nat * nat)) : Prop :=
  match e with Some c => range_le n c | None => True end.

Lemma merge_tree_body_mono : forall f n acc m e cm, mono_on f n ->
  range_le n m -> opt_range_le n e -> Forall (marker_le n) cm ->
  merge_tree_body (map (map_marker f) acc) (map_range f m) (option_map (map_range f) e)
                  (map (map_marker f) cm) =
  match merge_tree_body acc m e cm with
  | Ok r => Ok (map (map_marker f) r)
  | Panic => Panic
  end.
Proof.
  intros f n acc m e cm Hf Hm He Hcm. unfold merge_tree_body.
  rewrite (mcm_mono f n cm m 0 Hf Hcm Hm).
  destruct (merge_child_markers cm m 0) as [m' sc]. cbn [fst snd].
  destruct e as [em|]; cbn [option_map].
  - rewrite <- map_rev.
    rewrite (mcm_mono f n (rev cm) em 0 Hf (Forall_rev Hcm) He).
    destruct (merge_child_markers (rev cm) em 0) as [em' k]. cbn [fst snd].
    rewrite !map_length.
    destruct (csub (length cm) k) as [ec|]; cbn [bind]; [|reflexivity].
    destruct (ec <? sc).
    + rewrite map_app. reflexivity.
    + rewrite slice_list_map. destruct (slice_list cm sc ec) as [kept|]; cbn [bind]; [|reflexivity].
      rewrite !rebase_foldM. cbn [bind app]. rewrite map_length, rebase_map.
      rewrite map_app. cbn [map]. rewrite map_app. reflexivity.
  - rewrite map_app. reflexivity.
Qed.

Lemma merge_tree_body_le : forall n acc m e cm r,
  range_le n m -> opt_range_le n e -> Forall (marker_le n) cm -> Forall (marker_le n) acc ->
  merge_tree_body acc m e cm = Ok r -> Forall (marker_le n) r.
Proof.
  intros n acc m e cm r Hm He Hcm Hacc H. unfold merge_tree_body in H.
  pose proof (mcm_le n cm m 0 Hcm Hm) as L1.
  destruct (merge_child_markers cm m 0) as [m' sc]. cbn [fst] in L1.
  destruct e as [em|].
  - pose proof (mcm_le n (rev cm) em 0 (Forall_rev Hcm) He) as L2.
    destruct (merge_child_markers (rev cm) em 0) as [em' k]. cbn [fst] in L2.
    destruct (csub (length cm) k) as [ec|]; cbn [bind] in H; [|discriminate H].
    destruct (ec <? sc).
    + inversion H; subst. apply Forall_app. split; [exact Hacc|].
      constructor; [|constructor]. split; cbn [fst snd]; [apply L1 | apply L2].
    + destruct (slice_list cm sc ec) as [kept|] eqn:Ek; cbn [bind] in H; [|discriminate H].
      rewrite rebase_foldM in H. cbn [bind app] in H. inversion H; subst.
      apply Forall_app. split; [exact Hacc|]. constructor; [exact L1|].
      apply Forall_app. split.
      * apply rebase_le. apply (slice_list_forall _ cm sc ec kept Ek Hcm).
      * constructor; [exact L2 | constructor].
  - inversion H; subst. apply Forall_app. split; [exact Hacc|]. constructor; [exact L1 | constructor].
Qed.

(** The statement proved by induction on the tree. *)
Definition mt_mono (f : nat -> nat) (n : nat) (t : rtree) : Prop :=
  rtree_le n t -> forall acc,
  merge_tree (map (map_marker f) acc) (map_rtree f t) =
  match merge_tree acc t with Ok r => Ok (map (map_marker f) r) | Panic => Panic end /\
  (forall r, merge_tree acc t = Ok r -> Forall (marker_le n) acc -> Forall (marker_le n) r).

Lemma mt_forest_mono : forall f n F, Forall (mt_mono f n) F -> Forall (rtree_le n) F ->
  forall acc,
  foldM merge_tree (map (map_rtree f) F) (map (map_marker f) acc) =
  match foldM merge_tree F acc with Ok r => Ok (map (map_marker f) r) | Panic => Panic end /\
  (forall r, foldM merge_tree F acc = Ok r -> Forall (marker_le n) acc -> Forall (marker_le n) r).
Proof.
  intros f n F HP. induction HP as [|t F Ht HF IH]; intros Hle acc.
  - cbn [map foldM]. split; [reflexivity|]. intros r H Hacc. inversion H; subst. exact Hacc.
  - inversion Hle as [|x l Hlt HlF]; subst. cbn [map foldM].
    destruct (Ht Hlt acc) as [E L]. rewrite E.
    destruct (merge_tree acc t) as [a'|]; cbn [bind].
    + destruct (IH HlF a') as [E' L']. split; [exact E'|].
      intros r H Hacc. apply (L' r H). apply (L a' eq_refl Hacc).
    + split; [reflexivity | intros r H; discriminate H].
Qed.

Lemma mt_mono_all : forall f n, mono_on f n -> forall t, mt_mono f n t.
Proof.
  intros f n Hf. apply rtree_ind'. intros [m e] ch HP. unfold mt_mono. intros Hle acc.
  apply rtree_le_unfold in Hle. destruct Hle as (Hm & He & Hch).
  cbn [map_rtree]. rewrite !merge_tree_unfold_body.
  destruct (mt_forest_mono f n ch HP Hch []) as [E L]. cbn [map] in E. rewrite E.
  destruct (foldM merge_tree ch []) as [cm|]; cbn [bind].
  - assert (Forall (marker_le n) cm) as Hcm by (apply (L cm eq_refl); constructor).
    split.
    + apply (merge_tree_body_mono f n); assumption.
    + intros r H Hacc. apply (merge_tree_body_le n acc m e cm r); assumption.
  - split; [reflexivity | intros r H; discriminate H].
Qed.

Theorem merge_tree_mono : forall f n acc t, mono_on f n -> rtree_le n t ->
  merge_tree (map (map_marker f) acc) (map_rtree f t) =
  match merge_tree acc t with Ok r => Ok (map (map_marker f) r) | Panic => Panic end.
Proof. intros f n acc t Hf Hle. apply (mt_mono_all f n Hf t Hle acc). Qed.

Theorem merge_markers_mono : forall f n F,
  mono_on f n -> Forall (rtree_le n) F ->
  merge_markers (map (map_rtree f) F) =
  match merge_markers F with Ok ms => Ok (map (map_marker f) ms) | Panic => Panic end.
Proof.
  intros f n F Hf Hle. unfold merge_markers.
  assert (Forall (mt_mono f n) F) as HP.
  { apply Forall_forall. intros t _. apply mt_mono_all. exact Hf. }
  destruct (mt_forest_mono f n F HP Hle []) as [E _]. exact E.
Qed.

(** The markers produced from a bounded forest are bounded. *)
Theorem merge_markers_le : forall n F ms,
  Forall (rtree_le n) F -> merge_markers F = Ok ms -> Forall (marker_le n) ms.
Proof.
  intros n F ms Hle H. unfold merge_markers in H.
  assert (mono_on (fun x => x) n) as Hid by (intros a b Hab _; exact Hab).
  assert (Forall (mt_mono (fun x => x) n) F) as HP.
  { apply Forall_forall. intros t _. apply mt_mono_all. exact Hid. }
  destruct (mt_forest_mono (fun x => x) n F HP Hle []) as [_ L]. apply (L ms H). constructor.
Qed.

(* ------------------------------------------------------------------------- *)
(** * Part 3: deleting index ranges of a symbol list *)

Theorem pos_mono_on : forall ds de l, ds <> [] -> de <> [] -> mono_on (pos ds de l) (length l).
Proof.
  intros ds de l Hds Hde a b Hab Hb. apply pos_strict; [split; assumption | exact Hab | exact Hb].
Qed.

(** Delete the symbols whose index (counted from [i]) satisfies [P]. *)
Fixpoint sdel_from (i : nat) (P : nat -> bool) (l : list sym) : list sym :=
  match l with
  | [] => []
  | x :: l' => if P i then sdel_from (S i) P l' else x :: sdel_from (S i) P l'
  end.

(** Delete the symbols with index in one of the ranges. *)
Definition sdelete (R : list (nat * nat)) (l : list sym) : list sym :=
  sdel_from 0 (in_rangesb R) l.

(** The new index of old index [j]: the number of kept symbols before [j]. *)
Definition sindex (R : list (nat * nat)) (j : nat) : nat := rank (in_rangesb R) j.

Lemma delete_where_from_app : forall a b k P,
  delete_where_from k P (a ++ b) = delete_where_from k P a ++ delete_where_from (k + length a) P b.
Proof.
  induction a as [|x a IH]; intros b k P.
  - cbn [app delete_where_from length]. rewrite Nat.add_0_r. reflexivity.
  - cbn [app delete_where_from length]. rewrite IH.
    replace (S k + length a) with (k + S (length a)) by lia.
    destruct (P k); reflexivity.
Qed.

Lemma delete_where_from_const : forall a k P c,
  (forall q, q < length a -> P (k + q) = c) ->
  delete_where_from k P a = if c then [] else a.
Proof.
  induction a as [|x a IH]; intros k P c H; [destruct c; reflexivity|].
  cbn [delete_where_from]. pose proof (H 0 ltac:(cbn [length]; lia)) as H0.
  rewrite Nat.add_0_r in H0. rewrite H0.
  rewrite (IH (S k) P c).
  - destruct c; reflexivity.
  - intros q Hq. replace (S k + q) with (k + S q) by lia. apply H. cbn [length]. lia.
Qed.

Lemma rank_from_const : forall n k P c,
  (forall q, q < n -> P (k + q) = c) -> rank_from k P n = if c then 0 else n.
Proof.
  intros n k P c H. destruct c.
  - apply rank_from_all_true. intros i H1 H2. replace i with (k + (i - k)) by lia. apply H. lia.
  - apply rank_from_all_false. intros i H1 H2. replace i with (k + (i - k)) by lia. apply H. lia.
Qed.

Lemma pos_cons_S : forall ds de x l j,
  pos ds de (x :: l) (S j) = length (rsym ds de x) + pos ds de l j.
Proof.
  intros ds de x l j. unfold pos. cbn [firstn rs flat_map]. rewrite app_length. reflexivity.
Qed.

Lemma pos_0 : forall ds de l, pos ds de l 0 = 0.
Proof. reflexivity. Qed.

(** The hypothesis relating a predicate [P] on byte positions (offset [k]) with a predicate [Q] on
    symbol indices (offset [i]): every byte of symbol [j] is selected iff symbol [j] is. *)
Definition sym_pred (ds de : str) (l : list sym) (k i : nat) (P Q : nat -> bool) : Prop :=
  forall j x q, nth_error l j = Some x -> q < length (rsym ds de x) ->
                P (k + pos ds de l j + q) = Q (i + j).

Lemma sym_pred_tail : forall ds de x l k i P Q,
  sym_pred ds de (x :: l) k i P Q -> sym_pred ds de l (k + length (rsym ds de x)) (S i) P Q.
Proof.
  intros ds de x l k i P Q H j y q Hj Hq.
  specialize (H (S j) y q Hj Hq). rewrite pos_cons_S in H.
  replace (S i + j) with (i + S j) by lia. rewrite <- H. f_equal. lia.
Qed.

Lemma sym_pred_head : forall ds de x l k i P Q,
  sym_pred ds de (x :: l) k i P Q -> forall q, q < length (rsym ds de x) -> P (k + q) = Q i.
Proof.
  intros ds de x l k i P Q H q Hq. specialize (H 0 x q eq_refl Hq).
  rewrite pos_0, !Nat.add_0_r in H. exact H.
Qed.

Lemma dw_rs : forall ds de l k i P Q, sym_pred ds de l k i P Q ->
  delete_where_from k P (rs ds de l) = rs ds de (sdel_from i Q l).
Proof.
  intros ds de l. induction l as [|x l IH]; intros k i P Q H; [reflexivity|].
  cbn [rs flat_map sdel_from]. fold (rs ds de l).
  rewrite delete_where_from_app.
  rewrite (delete_where_from_const _ k P (Q i) (sym_pred_head ds de x l k i P Q H)).
  rewrite (IH _ (S i) P Q (sym_pred_tail ds de x l k i P Q H)).
  destruct (Q i); reflexivity.
Qed.

Lemma rank_rs : forall ds de l k i P Q, sym_pred ds de l k i P Q -> forall j,
  rank_from k P (pos ds de l j) = pos ds de (sdel_from i Q l) (rank_from i Q j).
Proof.
  intros ds de l. induction l as [|x l IH]; intros k i P Q H j.
  - unfold pos. rewrite !firstn_nil. reflexivity.
  - destruct j as [|j]; [reflexivity|].
    rewrite pos_cons_S, rank_from_add.
    rewrite (rank_from_const _ k P (Q i) (sym_pred_head ds de x l k i P Q H)).
    rewrite (IH _ (S i) P Q (sym_pred_tail ds de x l k i P Q H)).
    cbn [rank_from sdel_from]. destruct (Q i); cbn [Nat.add]; [reflexivity|].
    rewrite pos_cons_S. reflexivity.
Qed.

Lemma in_rangeb_pos : forall ds de l r j x q,
  nth_error l j = Some x -> q < length (rsym ds de x) ->
  in_rangeb (map_range (pos ds de l) r) (pos ds de l j + q) = in_rangeb r j.
Proof.
  intros ds de l r j x q Hj Hq. unfold in_rangeb. rewrite fst_map_range, snd_map_range.
  pose proof (pos_S ds de l j x Hj) as HS.
  f_equal.
  - destruct (Nat.leb_spec (fst r) j) as [L|L].
    + apply Nat.leb_le. pose proof (pos_mono ds de l (fst r) j L). lia.
    + apply Nat.leb_gt. pose proof (pos_mono ds de l (S j) (fst r) L). lia.
  - destruct (Nat.ltb_spec j (snd r)) as [L|L].
    + apply Nat.ltb_lt. pose proof (pos_mono ds de l (S j) (snd r) L). lia.
    + apply Nat.ltb_ge. pose proof (pos_mono ds de l (snd r) j L). lia.
Qed.

Lemma in_rangesb_pos : forall ds de l R j x q,
  nth_error l j = Some x -> q < length (rsym ds de x) ->
  in_rangesb (map (map_range (pos ds de l)) R) (pos ds de l j + q) = in_rangesb R j.
Proof.
  intros ds de l R j x q Hj Hq. induction R as [|r R IH]; [reflexivity|].
  cbn [map]. rewrite !in_rangesb_cons, IH, (in_rangeb_pos ds de l r j x q Hj Hq). reflexivity.
Qed.

Lemma sym_pred_ranges : forall ds de l R,
  sym_pred ds de l 0 0 (in_rangesb (map (map_range (pos ds de l)) R)) (in_rangesb R).
Proof.
  intros ds de l R j x q Hj Hq. cbn [Nat.add]. apply (in_rangesb_pos ds de l R j x q Hj Hq).
Qed.

(** (a) Deleting the rendered ranges from the rendering is rendering the abstractly deleted list.
    This holds for every list of ranges and every pair of delimiters. *)
Theorem rs_sdelete_gen : forall ds de l R,
  delete_ranges (map (map_range (pos ds de l)) R) (rs ds de l) = rs ds de (sdelete R l).
Proof.
  intros ds de l R. unfold delete_ranges, delete_where, sdelete.
  apply dw_rs. apply sym_pred_ranges.
Qed.

(** (b) The position of index [j] in the deleted text; again unconditional. *)
Theorem pos_sdelete_gen : forall ds de l R j,
  rank (in_rangesb (map (map_range (pos ds de l)) R)) (pos ds de l j) =
  pos ds de (sdelete R l) (sindex R j).
Proof.
  intros ds de l R j. unfold rank, sdelete, sindex, rank.
  apply rank_rs. apply sym_pred_ranges.
Qed.

(** The statements in the requested form. *)
Theorem rs_sdelete : forall ds de l R,
  sorted_from 0 R -> bounded_by (length l) R ->
  delete_ranges (map (map_range (pos ds de l)) R) (rs ds de l) = rs ds de (sdelete R l).
Proof. intros ds de l R _ _. apply rs_sdelete_gen. Qed.

Theorem pos_sdelete : forall ds de l R j,
  sorted_from 0 R -> bounded_by (length l) R -> j <= length l ->
  in_rangesb R j = false \/ (exists r, In r R /\ fst r = j) ->
  rank (in_rangesb (map (map_range (pos ds de l)) R)) (pos ds de l j) =
  pos ds de (sdelete R l) (sindex R j).
Proof. intros ds de l R j _ _ _ _. apply pos_sdelete_gen. Qed.

(** Sortedness is preserved by weakly monotone maps. *)
Lemma sorted_from_map : forall (g : nat -> nat), (forall a b, a <= b -> g a <= g b) ->
  forall R lo, sorted_from lo R -> sorted_from (g lo) (map (map_range g) R).
Proof.
  intros g Hg R. induction R as [|[a b] R IH]; intros lo H; [exact I|].
  cbn [sorted_from] in H. destruct H as (H1 & H2 & H3).
  cbn [map]. unfold map_range at 1. cbn [fst snd sorted_from].
  repeat split; [apply Hg; exact H1 | apply Hg; exact H2 | apply IH; exact H3].
Qed.

Lemma sorted_from_map_pos : forall ds de l R,
  sorted_from 0 R -> sorted_from 0 (map (map_range (pos ds de l)) R).
Proof.
  intros ds de l R H. change 0 with (pos ds de l 0) at 1.
  apply sorted_from_map; [|exact H]. intros a b Hab. apply pos_mono. exact Hab.
Qed.

Lemma map_fst_map_marker : forall f (ms : list marker),
  map fst (map (map_marker f) ms) = map (map_range f) (map fst ms).
Proof. intros f ms. rewrite !map_map. reflexivity. Qed.

Lemma length_sdel_from : forall l i P, length (sdel_from i P l) = rank_from i P (length l).
Proof.
  induction l as [|x l IH]; intros i P; [reflexivity|].
  cbn [sdel_from length rank_from]. destruct (P i); cbn [length Nat.add]; rewrite IH; reflexivity.
Qed.

Lemma length_sdelete : forall R l, length (sdelete R l) = sindex R (length l).
Proof. intros R l. apply length_sdel_from. Qed.

(** Removal of markers on a rendered symbol list. *)
Theorem remove_markers_rs : forall ds de l (ms : list marker) out,
  sorted_from 0 (map fst ms) -> bounded_by (length l) (map fst ms) ->
  remove_markers (rs ds de l) (map (map_marker (pos ds de l)) ms) = Ok out ->
  out = rs ds de (sdelete (map fst ms) l).
Proof.
  intros ds de l ms out Hs _ H.
  apply remove_markers_sound in H.
  - rewrite H, map_fst_map_marker. apply rs_sdelete_gen.
  - rewrite map_fst_map_marker. apply sorted_from_map_pos. exact Hs.
Qed.

(** The removed positions on a rendered symbol list. *)
Theorem get_removed_pos_rs : forall ds de l (ms : list marker),
  sorted_from 0 (map fst ms) -> bounded_by (length l) (map fst ms) ->
  get_removed_pos (map (map_marker (pos ds de l)) ms) =
  Ok (map (fun m => (pos ds de (sdelete (map fst ms) l) (sindex (map fst ms) (fst (fst m))), snd m))
          ms).
Proof.
  intros ds de l ms Hs _.
  assert (sorted_from 0 (map fst (map (map_marker (pos ds de l)) ms))) as Hs'.
  { rewrite map_fst_map_marker. apply sorted_from_map_pos. exact Hs. }
  rewrite (get_removed_pos_ok _ Hs'), (removed_positions_rank _ Hs').
  f_equal. rewrite map_map. apply map_ext. intros m.
  rewrite map_fst_map_marker. unfold map_marker at 1 2. cbn [fst snd]. rewrite fst_map_range.
  rewrite pos_sdelete_gen. reflexivity.
Qed.

Print Assumptions merge_markers_mono.
Print Assumptions merge_tree_mono.
Print Assumptions merge_markers_le.
Print Assumptions sort_ranges_mono.
Print Assumptions merge_ranges_mono.
Print Assumptions merge_overlapped_mono.
Print Assumptions pos_mono_on.
Print Assumptions rs_sdelete_gen.
Print Assumptions pos_sdelete_gen.
Print Assumptions rs_sdelete.
Print Assumptions pos_sdelete.
Print Assumptions remove_markers_rs.
Print Assumptions get_removed_pos_rs.
