(** Characterisation of the line-break / character finders (Model/Finders.v) and of the
    formatters built from them (Model/Format.v). *)
From Coq Require Import List NArith Arith Bool Lia PeanoNat.
Import ListNotations.
From Chiri Require Import Base.Bytes Base.Res Model.Finders Model.Format Spec.Ranges
  Proofs.ResLemmas Proofs.BytesLemmas Proofs.Utf8.

(* ------------------------------------------------------------------------- *)
(** * Bytes *)

Lemma blank_not_NL b : is_blank b = true -> b <> NL.
Proof.
  unfold is_blank. intros H E. subst b. vm_compute in H. discriminate H.
Qed.

Lemma blank_ascii b : is_blank b = true -> (b <? 128)%N = true.
Proof.
  unfold is_blank. intros H. apply orb_true_iff in H.
  destruct H as [H|H]; apply beq_eq in H; subst b; reflexivity.
Qed.

Lemma blank_is_ws b : is_blank b = true -> is_ws b = true.
Proof.
  unfold is_blank, is_ws. intros H. rewrite H. reflexivity.
Qed.

Lemma NL_is_ws : is_ws NL = true.
Proof. reflexivity. Qed.

Lemma NL_not_blank : is_blank NL = false.
Proof. reflexivity. Qed.

Lemma NL_ascii : (NL <? 128)%N = true.
Proof. reflexivity. Qed.

Lemma cont_not_NL c : is_cont c = true -> c <> NL.
Proof. intros H E. subst c. vm_compute in H. discriminate H. Qed.

(* ------------------------------------------------------------------------- *)
(** * Boundaries *)

Lemma nonboundary_cont s i : is_boundary s i = false -> i < length s ->
  exists c, nth_error s i = Some c /\ is_cont c = true.
Proof.
  unfold is_boundary. intros H L. destruct i as [|i]; [discriminate H|].
  destruct (nth_error s (S i)) as [c|] eqn:N.
  - exists c. split; [reflexivity|]. destruct (is_cont c); [reflexivity | discriminate H].
  - apply nth_error_None in N. lia.
Qed.

Lemma nonboundary_not_NL s i : is_boundary s i = false -> nth_error s i <> Some NL.
Proof.
  intros H E.
  assert (i < length s) as L by (apply nth_error_Some; congruence).
  destruct (nonboundary_cont s i H L) as (c & N & C).
  rewrite N in E. inversion E; subst c. vm_compute in C. discriminate C.
Qed.

Lemma after_ascii_boundary s p b : wf_utf8 s = true -> is_boundary s p = true ->
  nth_error s p = Some b -> (b <? 128)%N = true -> is_boundary s (S p) = true.
Proof.
  intros Hs Hb Hn Ha.
  destruct (wf_next_char_boundary s p b Hs Hb Hn) as [_ H].
  unfold char_len in H. rewrite Ha in H. rewrite Nat.add_1_r in H. exact H.
Qed.

Lemma after_nl_boundary : forall s p, wf_utf8 s = true -> is_boundary s p = true -> nth_error s p = Some NL ->
  is_boundary s (S p) = true.
Proof.
  intros s p Hs Hb Hn. apply (after_ascii_boundary s p NL Hs Hb Hn NL_ascii).
Qed.

(** A position that the finders skip: not a boundary, or a blank. *)
Definition skipped (s : str) (i : nat) : Prop :=
  is_boundary s i = false \/ exists b, nth_error s i = Some b /\ is_blank b = true.

(** In a well-formed string a run of skipped positions that starts on a boundary consists of
    blanks on boundaries only, and ends on a boundary. *)
Lemma skipped_run s a : wf_utf8 s = true -> is_boundary s a = true ->
  forall n, (forall i, a <= i -> i < a + n -> skipped s i) ->
  is_boundary s (a + n) = true /\
  forall i, a <= i -> i < a + n ->
    is_boundary s i = true /\ exists b, nth_error s i = Some b /\ is_blank b = true.
Proof.
  intros Hs Ha. induction n as [|n IH]; intros Hsk.
  - rewrite Nat.add_0_r. split; [exact Ha|]. intros i H1 H2. lia.
  - destruct IH as [Hbn Hall]; [intros i H1 H2; apply Hsk; lia|].
    assert (skipped s (a + n)) as Hlast by (apply Hsk; lia).
    destruct Hlast as [Hnb | (b & Hn & Hbl)]; [congruence|].
    split.
    + rewrite Nat.add_succ_r.
      apply (after_ascii_boundary s (a + n) b Hs Hbn Hn). apply blank_ascii. exact Hbl.
    + intros i H1 H2. destruct (Nat.eq_dec i (a + n)) as [E|NE].
      * subst i. split; [exact Hbn|]. exists b. auto.
      * apply Hall; lia.
Qed.

Lemma skipped_run_range s a b : wf_utf8 s = true -> is_boundary s a = true -> a <= b ->
  (forall i, a <= i -> i < b -> skipped s i) ->
  is_boundary s b = true /\
  forall i, a <= i -> i < b ->
    is_boundary s i = true /\ exists c, nth_error s i = Some c /\ is_blank c = true.
Proof.
  intros Hs Ha Hab Hsk.
  replace b with (a + (b - a)) in * by lia.
  apply skipped_run; assumption.
Qed.

(* ------------------------------------------------------------------------- *)
(** * The two check functions *)

Lemma check_lb_skip s c : check_lb s c = CSkip -> skipped s c.
Proof.
  unfold check_lb, skipped. destruct (is_boundary s c); cbn [negb]; intros H; [|left; reflexivity].
  right. destruct (nth_error s c) as [b|]; [|discriminate H].
  exists b. split; [reflexivity|]. unfold is_blank.
  destruct (beq b SP || beq b TAB); [reflexivity|].
  destruct (beq b NL); discriminate H.
Qed.

Lemma check_lb_found s c : check_lb s c = CFound ->
  is_boundary s c = true /\ nth_error s c = Some NL.
Proof.
  unfold check_lb. destruct (is_boundary s c); cbn [negb]; intros H; [|discriminate H].
  split; [reflexivity|]. destruct (nth_error s c) as [b|]; [|discriminate H].
  destruct (beq b SP || beq b TAB); [discriminate H|].
  destruct (beq b NL) eqn:E; [|discriminate H]. apply beq_eq in E. subst b. reflexivity.
Qed.

Lemma check_lb_none s c : check_lb s c = CNone -> c < length s ->
  is_boundary s c = true /\ exists b, nth_error s c = Some b /\ is_blank b = false /\ b <> NL.
Proof.
  unfold check_lb. destruct (is_boundary s c); cbn [negb]; intros H L; [|discriminate H].
  split; [reflexivity|]. destruct (nth_error s c) as [b|] eqn:N.
  - exists b. split; [reflexivity|]. unfold is_blank.
    destruct (beq b SP || beq b TAB); [discriminate H|]. split; [reflexivity|].
    destruct (beq b NL) eqn:E; [discriminate H|]. apply beq_neq in E. exact E.
  - apply nth_error_None in N. lia.
Qed.

Lemma check_char_skip s c : check_char s c = CSkip -> skipped s c.
Proof.
  unfold check_char, skipped. destruct (is_boundary s c); cbn [negb]; intros H; [|left; reflexivity].
  right. destruct (nth_error s c) as [b|]; [|discriminate H].
  exists b. split; [reflexivity|]. unfold is_blank.
  destruct (beq b SP || beq b TAB); [reflexivity | discriminate H].
Qed.

Lemma check_char_found s c : check_char s c = CFound ->
  is_boundary s c = true /\ exists b, nth_error s c = Some b /\ is_blank b = false.
Proof.
  unfold check_char. destruct (is_boundary s c); cbn [negb]; intros H; [|discriminate H].
  split; [reflexivity|]. destruct (nth_error s c) as [b|]; [|discriminate H].
  exists b. split; [reflexivity|]. unfold is_blank.
  destruct (beq b SP || beq b TAB); [discriminate H | reflexivity].
Qed.

(** A skipped position never holds a line break. *)
Lemma skipped_not_NL s i : skipped s i -> nth_error s i <> Some NL.
Proof.
  intros [H | (b & N & B)].
  - apply nonboundary_not_NL. exact H.
  - rewrite N. intros E. inversion E; subst b. discriminate B.
Qed.

(* ------------------------------------------------------------------------- *)
(** * find_next_lb *)

(** A position the line-break finder passes: skipped, or (without pause) any other byte
    that is not a line break. *)
Definition passed (s : str) (pause : bool) (i : nat) : Prop :=
  skipped s i \/ (pause = false /\ nth_error s i <> Some NL).

Lemma passed_not_NL s pause i : passed s pause i -> nth_error s i <> Some NL.
Proof. intros [H | [_ H]]; [apply skipped_not_NL; exact H | exact H]. Qed.

Lemma passed_pause s i : passed s true i -> skipped s i.
Proof. intros [H | [H _]]; [exact H | discriminate H]. Qed.

Lemma find_next_lb_loop_spec : forall fuel s cursor pause p,
  find_next_lb_loop fuel s cursor pause = Some p ->
  cursor <= p /\ p < length s /\ nth_error s p = Some NL /\ is_boundary s p = true /\
  forall i, cursor <= i -> i < p -> passed s pause i.
Proof.
  induction fuel as [|f IH]; intros s cursor pause p H; cbn [find_next_lb_loop] in H;
    [discriminate H|].
  destruct (Nat.leb_spec (length s) cursor) as [L|L]; [discriminate H|].
  destruct (check_lb s cursor) eqn:C.
  - apply IH in H. destruct H as (H1 & H2 & H3 & H4 & H5).
    repeat split; try assumption; try lia.
    intros i Hi1 Hi2. destruct (Nat.eq_dec i cursor) as [E|NE].
    + subst i. left. apply check_lb_skip. exact C.
    + apply H5; lia.
  - inversion H; subst p. apply check_lb_found in C. destruct C as [C1 C2].
    repeat split; try assumption; try lia.
  - destruct pause; [discriminate H|].
    apply IH in H. destruct H as (H1 & H2 & H3 & H4 & H5).
    repeat split; try assumption; try lia.
    intros i Hi1 Hi2. destruct (Nat.eq_dec i cursor) as [E|NE].
    + subst i. right. split; [reflexivity|].
      destruct (check_lb_none s cursor C L) as (_ & b & N & _ & Hb).
      rewrite N. intros E. inversion E. contradiction.
    + apply H5; lia.
Qed.

Lemma find_next_lb_some : forall s pos pause p, find_next_lb s pos pause = Some p ->
  pos <= p /\ p < length s /\ nth_error s p = Some NL /\ is_boundary s p = true.
Proof.
  unfold find_next_lb. intros s pos pause p H.
  apply find_next_lb_loop_spec in H. destruct H as (H1 & H2 & H3 & H4 & _). auto.
Qed.

Lemma find_next_lb_passed s pos pause p : find_next_lb s pos pause = Some p ->
  forall i, pos <= i -> i < p -> passed s pause i.
Proof.
  unfold find_next_lb. intros H.
  apply find_next_lb_loop_spec in H. destruct H as (_ & _ & _ & _ & H). exact H.
Qed.

(** Without pause and with enough fuel, [None] means there is no line break ahead. *)
Lemma find_next_lb_loop_none : forall fuel s cursor,
  length s - cursor < fuel -> find_next_lb_loop fuel s cursor false = None ->
  forall i, cursor <= i -> nth_error s i <> Some NL.
Proof.
  induction fuel as [|f IH]; intros s cursor Hf H i Hi; [lia|].
  cbn [find_next_lb_loop] in H.
  destruct (Nat.leb_spec (length s) cursor) as [L|L].
  - intros E. assert (i < length s) by (apply nth_error_Some; congruence). lia.
  - destruct (Nat.eq_dec i cursor) as [E|NE].
    + subst i. destruct (check_lb s cursor) eqn:C.
      * apply skipped_not_NL. apply check_lb_skip. exact C.
      * discriminate H.
      * destruct (check_lb_none s cursor C L) as (_ & b & N & _ & Hb).
        rewrite N. intros E. inversion E. contradiction.
    + assert (find_next_lb_loop f s (S cursor) false = None) as H'
        by (destruct (check_lb s cursor); [exact H | discriminate H | exact H]).
      apply (IH s (S cursor)); [lia | exact H' | lia].
Qed.

(* ------------------------------------------------------------------------- *)
(** * find_prev_lb *)

Lemma find_prev_lb_spec : forall s cursor pause p,
  find_prev_lb s cursor pause = Some p ->
  p < cursor /\ p < length s /\ nth_error s p = Some NL /\ is_boundary s p = true /\
  forall i, p < i -> i < cursor -> passed s pause i.
Proof.
  intros s cursor pause p. induction cursor as [|c IH]; intros H; cbn [find_prev_lb] in H;
    [discriminate H|].
  destruct (Nat.leb_spec (length s) c) as [L|L]; [discriminate H|].
  destruct (check_lb s c) eqn:C.
  - apply IH in H. destruct H as (H1 & H2 & H3 & H4 & H5).
    repeat split; try assumption; try lia.
    intros i Hi1 Hi2. destruct (Nat.eq_dec i c) as [E|NE].
    + subst i. left. apply check_lb_skip. exact C.
    + apply H5; lia.
  - inversion H; subst p. apply check_lb_found in C. destruct C as [C1 C2].
    repeat split; try assumption; try lia.
  - destruct pause; [discriminate H|].
    apply IH in H. destruct H as (H1 & H2 & H3 & H4 & H5).
    repeat split; try assumption; try lia.
    intros i Hi1 Hi2. destruct (Nat.eq_dec i c) as [E|NE].
    + subst i. right. split; [reflexivity|].
      destruct (check_lb_none s c C L) as (_ & b & N & _ & Hb).
      rewrite N. intros E. inversion E. contradiction.
    + apply H5; lia.
Qed.

Lemma find_prev_lb_some : forall s pos pause p, find_prev_lb s pos pause = Some p ->
  p < pos /\ p < length s /\ nth_error s p = Some NL /\ is_boundary s p = true.
Proof.
  intros s pos pause p H.
  apply find_prev_lb_spec in H. destruct H as (H1 & H2 & H3 & H4 & _). auto.
Qed.

Lemma find_prev_lb_none_gen : forall s cursor, cursor <= length s ->
  find_prev_lb s cursor false = None -> forall i, i < cursor -> nth_error s i <> Some NL.
Proof.
  intros s. induction cursor as [|c IH]; intros Hc H i Hi; [lia|].
  cbn [find_prev_lb] in H.
  destruct (Nat.leb_spec (length s) c) as [L|L]; [lia|].
  destruct (Nat.eq_dec i c) as [E|NE].
  - subst i. destruct (check_lb s c) eqn:C.
    + apply skipped_not_NL. apply check_lb_skip. exact C.
    + discriminate H.
    + destruct (check_lb_none s c C L) as (_ & b & N & _ & Hb).
      rewrite N. intros E. inversion E. contradiction.
  - assert (find_prev_lb s c false = None) as H'
      by (destruct (check_lb s c); [exact H | discriminate H | exact H]).
    apply IH; [lia | exact H' | lia].
Qed.

(* ------------------------------------------------------------------------- *)
(** * find_next_char *)

Lemma find_next_char_loop_spec : forall fuel s cursor p,
  find_next_char_loop fuel s cursor = Some p ->
  cursor <= p /\ p < length s /\ is_boundary s p = true /\
  (exists b, nth_error s p = Some b /\ is_blank b = false) /\
  forall i, cursor <= i -> i < p -> skipped s i.
Proof.
  induction fuel as [|f IH]; intros s cursor p H; cbn [find_next_char_loop] in H;
    [discriminate H|].
  destruct (Nat.leb_spec (length s) cursor) as [L|L]; cbn [orb] in H; [discriminate H|].
  destruct (cursor =? 0); [discriminate H|].
  destruct (check_char s cursor) eqn:C.
  - apply IH in H. destruct H as (H1 & H2 & H3 & H4 & H5).
    repeat split; try assumption; try lia.
    intros i Hi1 Hi2. destruct (Nat.eq_dec i cursor) as [E|NE].
    + subst i. apply check_char_skip. exact C.
    + apply H5; lia.
  - inversion H; subst p. apply check_char_found in C. destruct C as [C1 C2].
    repeat split; try assumption; try lia.
  - discriminate H.
Qed.

Lemma find_next_char_some : forall s pos p, find_next_char s pos = Some p ->
  pos <= p /\ p < length s /\ is_boundary s p = true /\
  exists b, nth_error s p = Some b /\ is_blank b = false.
Proof.
  unfold find_next_char. intros s pos p H.
  apply find_next_char_loop_spec in H. destruct H as (H1 & H2 & H3 & H4 & _). auto.
Qed.

Lemma find_next_char_skipped s pos p : find_next_char s pos = Some p ->
  forall i, pos <= i -> i < p -> skipped s i.
Proof.
  unfold find_next_char. intros H.
  apply find_next_char_loop_spec in H. destruct H as (_ & _ & _ & _ & H). exact H.
Qed.

(* ------------------------------------------------------------------------- *)
(** * Finders on well-formed strings, from a boundary *)

Lemma find_next_lb_pause_run s pos p : wf_utf8 s = true -> is_boundary s pos = true ->
  find_next_lb s pos true = Some p ->
  forall i, pos <= i -> i < p ->
    is_boundary s i = true /\ exists c, nth_error s i = Some c /\ is_blank c = true.
Proof.
  intros Hs Hb H.
  pose proof (find_next_lb_some _ _ _ _ H) as (H1 & _).
  apply (skipped_run_range s pos p Hs Hb H1).
  intros i Hi1 Hi2. apply passed_pause. apply (find_next_lb_passed _ _ _ _ H); assumption.
Qed.

Lemma find_next_lb_pause_blank : forall s pos p, wf_utf8 s = true -> is_boundary s pos = true ->
  find_next_lb s pos true = Some p ->
  forall i b, pos <= i -> i < p -> nth_error s i = Some b -> is_blank b = true.
Proof.
  intros s pos p Hs Hb H i b Hi1 Hi2 Hn.
  destruct (find_next_lb_pause_run s pos p Hs Hb H i Hi1 Hi2) as (_ & c & Hc & Hbl).
  congruence.
Qed.

Lemma find_prev_lb_pause_run s pos p : wf_utf8 s = true ->
  find_prev_lb s pos true = Some p ->
  forall i, p < i -> i < pos ->
    is_boundary s i = true /\ exists c, nth_error s i = Some c /\ is_blank c = true.
Proof.
  intros Hs H.
  pose proof (find_prev_lb_spec _ _ _ _ H) as (H1 & H2 & H3 & H4 & H5).
  pose proof (after_nl_boundary s p Hs H4 H3) as Hb.
  intros i Hi1 Hi2.
  apply (skipped_run_range s (S p) pos Hs Hb); [lia | | lia | lia].
  intros j Hj1 Hj2. apply passed_pause. apply H5; lia.
Qed.

Lemma find_prev_lb_pause_blank : forall s pos p, wf_utf8 s = true -> is_boundary s pos = true -> pos <= length s ->
  find_prev_lb s pos true = Some p ->
  forall i b, p < i -> i < pos -> nth_error s i = Some b -> is_blank b = true.
Proof.
  intros s pos p Hs _ _ H i b Hi1 Hi2 Hn.
  destruct (find_prev_lb_pause_run s pos p Hs H i Hi1 Hi2) as (_ & c & Hc & Hbl).
  congruence.
Qed.

Lemma find_next_char_run s pos p : wf_utf8 s = true -> is_boundary s pos = true ->
  find_next_char s pos = Some p ->
  forall i, pos <= i -> i < p ->
    is_boundary s i = true /\ exists c, nth_error s i = Some c /\ is_blank c = true.
Proof.
  intros Hs Hb H.
  pose proof (find_next_char_some _ _ _ H) as (H1 & _).
  apply (skipped_run_range s pos p Hs Hb H1).
  apply (find_next_char_skipped _ _ _ H).
Qed.

Lemma find_next_char_blank : forall s pos p, wf_utf8 s = true -> is_boundary s pos = true ->
  find_next_char s pos = Some p ->
  forall i b, pos <= i -> i < p -> nth_error s i = Some b -> is_blank b = true.
Proof.
  intros s pos p Hs Hb H i b Hi1 Hi2 Hn.
  destruct (find_next_char_run s pos p Hs Hb H i Hi1 Hi2) as (_ & c & Hc & Hbl).
  congruence.
Qed.

(** These four hold for every string and position; the well-formedness and boundary
    hypotheses are not used. *)
Lemma find_next_lb_first : forall s pos p, wf_utf8 s = true -> is_boundary s pos = true ->
  find_next_lb s pos false = Some p -> forall i, pos <= i -> i < p -> nth_error s i <> Some NL.
Proof.
  intros s pos p _ _ H i Hi1 Hi2.
  apply (passed_not_NL s false). apply (find_next_lb_passed _ _ _ _ H); assumption.
Qed.

Lemma find_next_lb_none : forall s pos, wf_utf8 s = true -> is_boundary s pos = true ->
  find_next_lb s pos false = None -> forall i, pos <= i -> nth_error s i <> Some NL.
Proof.
  unfold find_next_lb. intros s pos _ _ H i Hi.
  apply (find_next_lb_loop_none (S (length s - pos)) s pos); [lia | exact H | exact Hi].
Qed.

Lemma find_prev_lb_last : forall s pos p, wf_utf8 s = true -> is_boundary s pos = true -> pos <= length s ->
  find_prev_lb s pos false = Some p -> forall i, p < i -> i < pos -> nth_error s i <> Some NL.
Proof.
  intros s pos p _ _ _ H i Hi1 Hi2.
  apply find_prev_lb_spec in H. destruct H as (_ & _ & _ & _ & H).
  apply (passed_not_NL s false). apply H; assumption.
Qed.

Lemma find_prev_lb_none : forall s pos, wf_utf8 s = true -> is_boundary s pos = true -> pos <= length s ->
  find_prev_lb s pos false = None -> forall i, i < pos -> nth_error s i <> Some NL.
Proof.
  intros s pos _ _ Hl H i Hi.
  apply (find_prev_lb_none_gen s pos Hl H i Hi).
Qed.

(* ------------------------------------------------------------------------- *)
(** * The seam formatters *)

(** What every seam formatter guarantees about the range it returns. *)
Definition good (s : str) (pos : nat) (r : range) : Prop :=
  fst r <= pos /\ pos <= snd r /\ snd r <= length s /\ ranges_only_ws s [r] /\
  is_boundary s (fst r) = true /\ is_boundary s (snd r) = true.

Lemma ranges_only_ws_single s a e :
  (forall i b, a <= i -> i < e -> nth_error s i = Some b -> is_ws b = true) ->
  ranges_only_ws s [(a, e)].
Proof.
  intros H r i b [<- | []] [Hi1 Hi2] Hn. cbn [fst snd] in Hi1, Hi2. apply (H i b); assumption.
Qed.

Lemma ranges_only_ws_single_inv s a e : ranges_only_ws s [(a, e)] ->
  forall i b, a <= i -> i < e -> nth_error s i = Some b -> is_ws b = true.
Proof.
  intros H i b Hi1 Hi2 Hn. apply (H (a, e) i b); [left; reflexivity | split; assumption | exact Hn].
Qed.

Lemma ranges_only_blank_single s a e :
  (forall i b, a <= i -> i < e -> nth_error s i = Some b -> is_blank b = true) ->
  ranges_only_blank s [(a, e)].
Proof.
  intros H r i b [<- | []] [Hi1 Hi2] Hn. cbn [fst snd] in Hi1, Hi2. apply (H i b); assumption.
Qed.

Lemma good_empty s pos : is_boundary s pos = true -> pos <= length s -> good s pos (pos, pos).
Proof.
  intros Hb Hl. unfold good. cbn [fst snd]. repeat split; try assumption; try lia.
  apply ranges_only_ws_single. intros i b Hi1 Hi2. lia.
Qed.

Lemma good_merge s pos a b r : good s pos (a, b) -> good s pos r ->
  good s pos (Nat.min a (fst r), Nat.max b (snd r)).
Proof.
  destruct r as [a' b']. unfold good. cbn [fst snd].
  intros (H1 & H2 & H3 & H4 & H5 & H6) (G1 & G2 & G3 & G4 & G5 & G6).
  split; [lia|]. split; [lia|]. split; [lia|]. split; [|split].
  - apply ranges_only_ws_single. intros i c Hi1 Hi2 Hn.
    assert ((a <= i /\ i < b) \/ (a' <= i /\ i < b')) as [[K1 K2] | [K1 K2]] by lia.
    + apply (ranges_only_ws_single_inv s a b H4 i c K1 K2 Hn).
    + apply (ranges_only_ws_single_inv s a' b' G4 i c K1 K2 Hn).
  - destruct (Nat.min_spec a a') as [[_ ->] | [_ ->]]; assumption.
  - destruct (Nat.max_spec b b') as [[_ ->] | [_ ->]]; assumption.
Qed.

(** ** indent_remover *)

Lemma indent_loop_spec s : forall cursor c, indent_loop s cursor = Some c ->
  exists c', c = S c' /\ c' < cursor /\ nth_error s c' = Some NL /\ is_boundary s c' = true /\
             forall i, c' < i -> i < cursor -> skipped s i.
Proof.
  induction cursor as [|k IH]; intros c H; cbn [indent_loop] in H; [discriminate H|].
  destruct (is_boundary s k) eqn:B.
  - destruct (nth_error s k) as [b|] eqn:N; [|discriminate H].
    destruct (beq b SP || beq b TAB) eqn:BL.
    + apply IH in H. destruct H as (c' & -> & H1 & H2 & H3 & H4).
      exists c'. repeat split; try assumption; try lia.
      intros i Hi1 Hi2. destruct (Nat.eq_dec i k) as [E|NE].
      * subst i. right. exists b. split; [exact N | exact BL].
      * apply H4; lia.
    + destruct (beq b NL) eqn:E; [|discriminate H]. apply beq_eq in E. subst b.
      inversion H; subst c. exists k. repeat split; try assumption; try lia.
  - apply IH in H. destruct H as (c' & -> & H1 & H2 & H3 & H4).
    exists c'. repeat split; try assumption; try lia.
    intros i Hi1 Hi2. destruct (Nat.eq_dec i k) as [E|NE].
    + subst i. left. exact B.
    + apply H4; lia.
Qed.

Lemma indent_remover_total s pos : exists r, indent_remover s pos = Ok r.
Proof.
  unfold indent_remover.
  match goal with |- context [if ?c then _ else _] => destruct c end; [eexists; reflexivity|].
  destruct (indent_loop s pos); eexists; reflexivity.
Qed.

Lemma indent_remover_spec s pos a b : wf_utf8 s = true -> is_boundary s pos = true ->
  pos <= length s -> indent_remover s pos = Ok (a, b) -> good s pos (a, b).
Proof.
  intros Hs Hb Hl H. unfold indent_remover in H.
  match type of H with (if ?c then _ else _) = _ => destruct c end.
  - inversion H; subst a b. apply good_empty; assumption.
  - destruct (indent_loop s pos) as [c|] eqn:IL.
    + inversion H; subst a b.
      apply indent_loop_spec in IL. destruct IL as (c' & -> & H1 & H2 & H3 & H4).
      pose proof (after_nl_boundary s c' Hs H3 H2) as Hb'.
      assert (S c' <= pos) as Hle by lia.
      destruct (skipped_run_range s (S c') pos Hs Hb' Hle) as [_ Hrun];
        [intros i Hi1 Hi2; apply H4; lia|].
      unfold good. cbn [fst snd]. repeat split; try assumption; try lia.
      apply ranges_only_ws_single. intros i b Hi1 Hi2 Hn.
      destruct (Hrun i Hi1 Hi2) as (_ & d & Hd & Hbl).
      apply blank_is_ws. congruence.
    + inversion H; subst a b. apply good_empty; assumption.
Qed.

(** ** two_next / two_prev *)

Lemma two_next_spec s pos lb : wf_utf8 s = true -> is_boundary s pos = true ->
  two_next s pos = Some lb ->
  pos < lb /\ lb < length s /\ is_boundary s lb = true /\
  forall i b, pos <= i -> i < lb -> nth_error s i = Some b -> is_ws b = true.
Proof.
  intros Hs Hb H. unfold two_next in H.
  destruct (find_next_lb s pos true) as [p|] eqn:F1; [|discriminate H].
  pose proof (find_next_lb_some _ _ _ _ F1) as (P1 & P2 & P3 & P4).
  pose proof (after_nl_boundary s p Hs P4 P3) as Hb'. rewrite <- Nat.add_1_r in Hb'.
  pose proof (find_next_lb_some _ _ _ _ H) as (Q1 & Q2 & Q3 & Q4).
  split; [lia|]. split; [exact Q2|]. split; [exact Q4|].
  intros i b Hi1 Hi2 Hn.
  destruct (Nat.lt_trichotomy i p) as [L | [E | G]].
  - apply blank_is_ws. apply (find_next_lb_pause_blank s pos p Hs Hb F1 i b); assumption.
  - subst i. rewrite P3 in Hn. inversion Hn. reflexivity.
  - apply blank_is_ws. apply (find_next_lb_pause_blank s (p + 1) lb Hs Hb' H i b); try assumption; lia.
Qed.

Lemma two_prev_spec s pos lb : wf_utf8 s = true ->
  two_prev s pos = Some lb ->
  lb + 1 <= pos /\ is_boundary s (lb + 1) = true /\
  forall i b, lb + 1 <= i -> i < pos -> nth_error s i = Some b -> is_ws b = true.
Proof.
  intros Hs H. unfold two_prev in H.
  destruct (find_prev_lb s pos true) as [p|] eqn:F1; [|discriminate H].
  pose proof (find_prev_lb_some _ _ _ _ F1) as (P1 & P2 & P3 & P4).
  pose proof (find_prev_lb_some _ _ _ _ H) as (Q1 & Q2 & Q3 & Q4).
  pose proof (after_nl_boundary s lb Hs Q4 Q3) as Hb'. rewrite <- Nat.add_1_r in Hb'.
  split; [lia|]. split; [exact Hb'|].
  intros i b Hi1 Hi2 Hn.
  destruct (Nat.lt_trichotomy i p) as [L | [E | G]].
  - apply blank_is_ws.
    destruct (find_prev_lb_pause_run s p lb Hs H i) as (_ & c & Hc & Hbl); [lia | lia | congruence].
  - subst i. rewrite P3 in Hn. inversion Hn. reflexivity.
  - apply blank_is_ws.
    destruct (find_prev_lb_pause_run s pos p Hs F1 i) as (_ & c & Hc & Hbl); [lia | lia | congruence].
Qed.

(** ** empty_line_remover *)

Lemma empty_line_remover_total s pos : is_boundary s pos = true ->
  exists r, empty_line_remover s pos = Ok r.
Proof.
  intros Hb. unfold empty_line_remover. rewrite Hb. cbn [negb].
  match goal with |- context [if negb ?c then _ else _] => destruct c end; cbn [negb];
    [|eexists; reflexivity].
  destruct (residue_is_blank s pos); cbn [negb]; [|eexists; reflexivity].
  destruct (is_none (two_next s pos) && is_none (two_prev s pos)); eexists; reflexivity.
Qed.

Lemma empty_line_remover_spec s pos a b : wf_utf8 s = true -> is_boundary s pos = true ->
  pos <= length s -> empty_line_remover s pos = Ok (a, b) -> good s pos (a, b).
Proof.
  intros Hs Hb Hl H. unfold empty_line_remover in H. rewrite Hb in H. cbn [negb] in H.
  destruct (nth_error s pos) as [c|] eqn:N; cbn [negb] in H;
    [|inversion H; subst a b; apply good_empty; assumption].
  destruct (beq c NL) eqn:E; cbn [negb] in H;
    [|inversion H; subst a b; apply good_empty; assumption].
  apply beq_eq in E. subst c.
  destruct (residue_is_blank s pos); cbn [negb] in H;
    [|inversion H; subst a b; apply good_empty; assumption].
  destruct (is_none (two_next s pos) && is_none (two_prev s pos));
    [|inversion H; subst a b; apply good_empty; assumption].
  inversion H; subst a b.
  assert (pos < length s) as L by (apply nth_error_Some; congruence).
  pose proof (after_nl_boundary s pos Hs Hb N) as Hb'. rewrite <- Nat.add_1_r in Hb'.
  unfold good. cbn [fst snd]. repeat split; try assumption; try lia.
  apply ranges_only_ws_single. intros i c Hi1 Hi2 Hn.
  assert (i = pos) as -> by lia. rewrite N in Hn. inversion Hn. reflexivity.
Qed.

(** ** prev_line_break_remover / next_line_break_remover *)

Lemma prev_line_break_remover_total s pos : exists r, prev_line_break_remover s pos = Ok r.
Proof. unfold prev_line_break_remover. destruct (two_prev s pos); eexists; reflexivity. Qed.

Lemma next_line_break_remover_total s pos : exists r, next_line_break_remover s pos = Ok r.
Proof.
  unfold next_line_break_remover.
  destruct (negb (is_boundary s pos)); [eexists; reflexivity|].
  destruct (negb (residue_is_blank s pos)); [eexists; reflexivity|].
  destruct (two_next s pos); eexists; reflexivity.
Qed.

Lemma prev_line_break_remover_spec s pos a b : wf_utf8 s = true -> is_boundary s pos = true ->
  pos <= length s -> prev_line_break_remover s pos = Ok (a, b) -> good s pos (a, b).
Proof.
  intros Hs Hb Hl H. unfold prev_line_break_remover in H.
  destruct (two_prev s pos) as [lb|] eqn:T.
  - inversion H; subst a b. destruct (two_prev_spec s pos lb Hs T) as (T1 & T2 & T3).
    unfold good. cbn [fst snd]. repeat split; try assumption; try lia.
    apply ranges_only_ws_single. exact T3.
  - inversion H; subst a b. apply good_empty; assumption.
Qed.

Lemma next_line_break_remover_spec s pos a b : wf_utf8 s = true -> is_boundary s pos = true ->
  pos <= length s -> next_line_break_remover s pos = Ok (a, b) -> good s pos (a, b).
Proof.
  intros Hs Hb Hl H. unfold next_line_break_remover in H.
  destruct (negb (is_boundary s pos));
    [inversion H; subst a b; apply good_empty; assumption|].
  destruct (negb (residue_is_blank s pos));
    [inversion H; subst a b; apply good_empty; assumption|].
  destruct (two_next s pos) as [lb|] eqn:T.
  - inversion H; subst a b. destruct (two_next_spec s pos lb Hs Hb T) as (T1 & T2 & T3 & T4).
    unfold good. cbn [fst snd]. repeat split; try assumption; try lia.
    apply ranges_only_ws_single. exact T4.
  - inversion H; subst a b. apply good_empty; assumption.
Qed.

(** ** The four together *)

Theorem seam_formatter_total : forall f s pos, In f seam_formatters -> is_boundary s pos = true ->
  exists r, f s pos = Ok r.
Proof.
  intros f s pos Hin Hb. unfold seam_formatters in Hin. cbn [In] in Hin.
  destruct Hin as [<- | [<- | [<- | [<- | []]]]].
  - apply indent_remover_total.
  - apply empty_line_remover_total. exact Hb.
  - apply prev_line_break_remover_total.
  - apply next_line_break_remover_total.
Qed.

Lemma seam_formatter_good f s pos a b : In f seam_formatters ->
  wf_utf8 s = true -> is_boundary s pos = true -> pos <= length s -> f s pos = Ok (a, b) ->
  good s pos (a, b).
Proof.
  intros Hin Hs Hb Hl H. unfold seam_formatters in Hin. cbn [In] in Hin.
  destruct Hin as [<- | [<- | [<- | [<- | []]]]].
  - apply indent_remover_spec; assumption.
  - apply empty_line_remover_spec; assumption.
  - apply prev_line_break_remover_spec; assumption.
  - apply next_line_break_remover_spec; assumption.
Qed.

Theorem seam_formatter_spec : forall f s pos a b, In f seam_formatters ->
  wf_utf8 s = true -> is_boundary s pos = true -> pos <= length s -> f s pos = Ok (a, b) ->
  a <= pos /\ pos <= b /\ b <= length s /\ ranges_only_ws s [(a, b)] /\
  is_boundary s a = true /\ is_boundary s b = true.
Proof.
  intros f s pos a b Hin Hs Hb Hl H.
  apply (seam_formatter_good f s pos a b Hin Hs Hb Hl H).
Qed.

(* ------------------------------------------------------------------------- *)
(** * format_block *)

Definition fb_step (s : str) (pos : nat) (r : range) (f : str -> nat -> res range) : res range :=
  '(a, b) <- f s pos ;; Ok (Nat.min a (fst r), Nat.max b (snd r)).

Lemma seam_hull_of_unfold s pos :
  seam_hull_of s pos = foldM (fb_step s pos) seam_formatters (pos, pos).
Proof. reflexivity. Qed.

(** [all_blank_before]: every byte in front of the position is a blank. *)
Lemma all_blank_before_spec : forall s a,
  all_blank_before s a = true <->
  (forall i b, i < a -> nth_error s i = Some b -> is_blank b = true).
Proof.
  unfold all_blank_before. induction s as [|c s IH]; intros a.
  - rewrite firstn_nil. cbn [forallb]. split; [|reflexivity].
    intros _ i b _ H. destruct i; discriminate H.
  - destruct a as [|a].
    + cbn [firstn forallb]. split; [intros _ i b H; lia | reflexivity].
    + cbn [firstn forallb]. rewrite andb_true_iff, IH. split.
      * intros [H1 H2] i b Hi Hn. destruct i as [|i]; cbn [nth_error] in Hn.
        -- inversion Hn; subst b. exact H1.
        -- apply (H2 i b); [lia | exact Hn].
      * intros H. split.
        -- apply (H 0 c); [lia | reflexivity].
        -- intros i b Hi Hn. apply (H (S i) b); [lia | exact Hn].
Qed.

Lemma all_blank_before_true s a : all_blank_before s a = true ->
  forall i b, i < a -> nth_error s i = Some b -> is_blank b = true.
Proof. apply all_blank_before_spec. Qed.

Lemma all_blank_before_intro s a :
  (forall i b, i < a -> nth_error s i = Some b -> is_blank b = true) -> all_blank_before s a = true.
Proof. apply all_blank_before_spec. Qed.

(** A byte that is not a blank in front of the position: the position is not on a blank first line. *)
Lemma all_blank_before_false s a i b : i < a -> nth_error s i = Some b -> is_blank b = false ->
  all_blank_before s a = false.
Proof.
  intros Hi Hn Hb. destruct (all_blank_before s a) eqn:E; [|reflexivity].
  rewrite (all_blank_before_true s a E i b Hi Hn) in Hb. discriminate Hb.
Qed.

Lemma all_blank_before_after_NL s a i : i < a -> nth_error s i = Some NL -> all_blank_before s a = false.
Proof. intros Hi Hn. apply (all_blank_before_false s a i NL Hi Hn NL_not_blank). Qed.

Lemma all_blank_before_0 s : all_blank_before s 0 = true.
Proof. reflexivity. Qed.

Lemma all_blank_before_mono s a a' : a' <= a -> all_blank_before s a = true -> all_blank_before s a' = true.
Proof.
  intros Hle H. apply all_blank_before_intro. intros i b Hi Hn.
  apply (all_blank_before_true s a H i b); [lia | exact Hn].
Qed.

(** [format_block] from the hull of the four seam formatters. *)
Lemma format_block_hull s pos r : seam_hull_of s pos = Ok r ->
  format_block s pos = Ok (if (pos <? snd r) && all_blank_before s (fst r) then (0, snd r) else r).
Proof.
  intros H. unfold format_block. rewrite H. cbn [bind].
  destruct ((pos <? snd r) && all_blank_before s (fst r)); reflexivity.
Qed.

(** The hull is kept when it does not reach behind the seam ... *)
Lemma format_block_hull_no_lb s pos a : seam_hull_of s pos = Ok (a, pos) ->
  format_block s pos = Ok (a, pos).
Proof.
  intros H. rewrite (format_block_hull s pos _ H). cbn [fst snd]. rewrite Nat.ltb_irrefl. reflexivity.
Qed.

(** ... and when something else than blanks stands in front of it. *)
Lemma format_block_hull_not_first s pos a b : seam_hull_of s pos = Ok (a, b) ->
  all_blank_before s a = false -> format_block s pos = Ok (a, b).
Proof.
  intros H E. rewrite (format_block_hull s pos _ H). cbn [fst snd]. rewrite E, andb_false_r. reflexivity.
Qed.

Lemma format_block_hull_first s pos a b : seam_hull_of s pos = Ok (a, b) -> pos < b ->
  all_blank_before s a = true -> format_block s pos = Ok (0, b).
Proof.
  intros H L E. rewrite (format_block_hull s pos _ H). cbn [fst snd]. rewrite E.
  destruct (Nat.ltb_spec pos b) as [_|K]; [reflexivity | lia].
Qed.

Lemma format_block_hull_inv s pos r : format_block s pos = Ok r ->
  exists h, seam_hull_of s pos = Ok h /\
            r = (if (pos <? snd h) && all_blank_before s (fst h) then (0, snd h) else h).
Proof.
  intros H. unfold format_block in H. destruct (seam_hull_of s pos) as [h|] eqn:E; [|discriminate H].
  exists h. split; [reflexivity|]. cbn [bind] in H.
  destruct ((pos <? snd h) && all_blank_before s (fst h)); inversion H; reflexivity.
Qed.

Lemma fb_fold_total s pos : forall fs,
  (forall f, In f fs -> exists r, f s pos = Ok r) ->
  forall r0, exists r, foldM (fb_step s pos) fs r0 = Ok r.
Proof.
  induction fs as [|f fs IH]; intros Hall r0; cbn [foldM].
  - exists r0. reflexivity.
  - destruct (Hall f) as [[a b] E]; [left; reflexivity|].
    unfold fb_step at 1. rewrite E. cbn [bind].
    apply IH. intros g Hg. apply Hall. right. exact Hg.
Qed.

Lemma fb_fold_good s pos : forall fs,
  (forall f a b, In f fs -> f s pos = Ok (a, b) -> good s pos (a, b)) ->
  forall r0 r, good s pos r0 -> foldM (fb_step s pos) fs r0 = Ok r -> good s pos r.
Proof.
  induction fs as [|f fs IH]; intros Hall r0 r G H; cbn [foldM] in H.
  - inversion H; subst r. exact G.
  - unfold fb_step at 1 in H.
    destruct (f s pos) as [[a b]|] eqn:E; cbn [bind] in H; [|discriminate H].
    apply (IH (fun g a' b' Hg => Hall g a' b' (or_intror Hg)) _ r) in H; [exact H|].
    apply good_merge; [|exact G]. apply (Hall f a b); [left; reflexivity | exact E].
Qed.

Theorem seam_hull_of_total : forall s pos, is_boundary s pos = true -> exists r, seam_hull_of s pos = Ok r.
Proof.
  intros s pos Hb. rewrite seam_hull_of_unfold. apply fb_fold_total.
  intros f Hin. apply seam_formatter_total; assumption.
Qed.

Theorem seam_hull_of_spec : forall s pos a b,
  wf_utf8 s = true -> is_boundary s pos = true -> pos <= length s -> seam_hull_of s pos = Ok (a, b) ->
  a <= pos /\ pos <= b /\ b <= length s /\ ranges_only_ws s [(a, b)] /\
  is_boundary s a = true /\ is_boundary s b = true.
Proof.
  intros s pos a b Hs Hb Hl H. rewrite seam_hull_of_unfold in H.
  apply (fb_fold_good s pos seam_formatters) with (r0 := (pos, pos)) (r := (a, b)).
  - intros f a' b' Hin E. apply (seam_formatter_good f s pos a' b' Hin Hs Hb Hl E).
  - apply good_empty; assumption.
  - exact H.
Qed.

Theorem format_block_total : forall s pos, is_boundary s pos = true -> exists r, format_block s pos = Ok r.
Proof.
  intros s pos Hb. destruct (seam_hull_of_total s pos Hb) as [r E].
  eexists. apply (format_block_hull s pos r E).
Qed.

(** The range of [format_block] against the hull: the same end, the same start or 0, and in the
    latter case only blanks in front of the hull. *)
Lemma format_block_vs_hull s pos a b : format_block s pos = Ok (a, b) ->
  exists a0, seam_hull_of s pos = Ok (a0, b) /\
    (a = a0 \/ (a = 0 /\ pos < b /\ all_blank_before s a0 = true)).
Proof.
  intros H. destruct (format_block_hull_inv s pos _ H) as ([a0 b0] & E & R). cbn [fst snd] in R.
  destruct (Nat.ltb_spec pos b0) as [L|L]; cbn [andb] in R.
  - destruct (all_blank_before s a0) eqn:AB; inversion R; subst a b; exists a0.
    + split; [exact E|]. right. auto.
    + split; [exact E|]. left. reflexivity.
  - inversion R; subst a b. exists a0. split; [exact E|]. left. reflexivity.
Qed.

Theorem format_block_spec : forall s pos a b,
  wf_utf8 s = true -> is_boundary s pos = true -> pos <= length s -> format_block s pos = Ok (a, b) ->
  a <= pos /\ pos <= b /\ b <= length s /\ ranges_only_ws s [(a, b)] /\
  is_boundary s a = true /\ is_boundary s b = true.
Proof.
  intros s pos a b Hs Hb Hl H.
  destruct (format_block_vs_hull s pos a b H) as (a0 & E & C).
  destruct (seam_hull_of_spec s pos a0 b Hs Hb Hl E) as (G1 & G2 & G3 & G4 & G5 & G6).
  destruct C as [-> | (-> & L & AB)]; [repeat split; assumption|].
  split; [lia|]. split; [exact G2|]. split; [exact G3|]. split; [|split; [reflexivity | exact G6]].
  apply ranges_only_ws_single. intros i c Hi1 Hi2 Hn.
  destruct (Nat.lt_ge_cases i a0) as [K|K].
  - apply blank_is_ws. apply (all_blank_before_true s a0 AB i c K Hn).
  - apply (ranges_only_ws_single_inv s a0 b G4 i c K Hi2 Hn).
Qed.

(* ------------------------------------------------------------------------- *)
(** * The block formatter *)

Lemma get_indent_len_total s pos : exists n, get_indent_len s pos = Ok n.
Proof.
  unfold get_indent_len.
  destruct (find_prev_lb s pos false) as [p|] eqn:F; [|exists 0; reflexivity].
  destruct (find_next_char s (p + 1)) as [e|] eqn:C; [|exists 0; reflexivity].
  apply find_next_char_some in C. destruct C as (C1 & _).
  rewrite (csub_le e p) by lia. cbn [bind]. rewrite csub_le by lia. eexists; reflexivity.
Qed.

Theorem block_indent_total : forall s a b, exists rs, block_indent_remover s a b = Ok rs.
Proof.
  intros s a b. unfold block_indent_remover.
  assert (exists ofs, match find_prev_lb s a true with
                      | Some pos => x <- csub a pos ;; csub x 1
                      | None => Ok (if all_blank_before s a then a else 0)
                      end = Ok ofs) as [ofs ->].
  { destruct (find_prev_lb s a true) as [p|] eqn:F; [|eexists; reflexivity].
    apply find_prev_lb_some in F. destruct F as (F1 & _).
    rewrite (csub_le a p) by lia. cbn [bind]. rewrite csub_le by lia. eexists; reflexivity. }
  cbn [bind]. cbv zeta.
  match goal with |- context [get_indent_len s ?cp] =>
    destruct (get_indent_len_total s cp) as [n ->] end.
  cbn [bind]. eexists; reflexivity.
Qed.

Lemma sorted_nonempty_weaken lo lo' rs : lo' <= lo ->
  sorted_nonempty_from lo rs -> sorted_nonempty_from lo' rs.
Proof.
  intros Hle. destruct rs as [|[a b] rest]; cbn [sorted_nonempty_from]; [auto|].
  intros (H1 & H2 & H3). repeat split; try assumption; lia.
Qed.

(** What [block_indent_remover] guarantees about each range. *)
Definition good_block (s : str) (hi : nat) (r : range) : Prop :=
  snd r < hi /\ snd r <= length s /\ ranges_only_blank s [r] /\
  is_boundary s (fst r) = true /\ is_boundary s (snd r) = true.

Lemma block_loop_spec : forall fuel s e cp ofs len positions,
  wf_utf8 s = true -> is_boundary s cp = true ->
  exists extra,
    block_loop fuel s e cp ofs len positions = positions ++ extra /\
    sorted_nonempty_from cp extra /\
    forall r, In r extra -> good_block s e r.
Proof.
  induction fuel as [|f IH]; intros s e cp ofs len positions Hs Hb.
  { exists []. cbn [block_loop]. rewrite app_nil_r. cbn [sorted_nonempty_from In]. tauto. }
  assert (exists extra : list range, positions = positions ++ extra /\
            sorted_nonempty_from cp extra /\ forall r, In r extra -> good_block s e r) as Hstop.
  { exists []. rewrite app_nil_r. cbn [sorted_nonempty_from In]. tauto. }
  cbn [block_loop].
  destruct (cp <? e) eqn:Lt; [|exact Hstop].
  destruct (find_next_lb s cp false) as [lb|] eqn:F; [|exact Hstop].
  cbv zeta.
  destruct (Nat.ltb_spec e (lb + 1)) as [Lt2|Lt2]; [exact Hstop|].
  pose proof (find_next_lb_some _ _ _ _ F) as (F1 & F2 & F3 & F4).
  pose proof (after_nl_boundary s lb Hs F4 F3) as Hb'. rewrite <- Nat.add_1_r in Hb'.
  destruct (find_next_char s cp) as [ip|] eqn:FC.
  - pose proof (find_next_char_some _ _ _ FC) as (C1 & C2 & C3 & C4).
    pose proof (find_next_char_run s cp ip Hs Hb FC) as Hrun.
    assert (ip <= lb) as Hip.
    { destruct (Nat.le_gt_cases ip lb) as [K|K]; [exact K|].
      destruct (Hrun lb F1 K) as (_ & c & Hc & Hbl).
      rewrite F3 in Hc. inversion Hc; subst c. discriminate Hbl. }
    remember (Nat.min (cp + ofs) ip) as a' eqn:Ea.
    remember (Nat.min (a' + len) ip) as b' eqn:Eb.
    assert (cp <= a' /\ a' <= b' /\ b' <= ip) as (A1 & A2 & A3) by lia.
    destruct (Nat.eqb_spec a' b') as [Eab|Nab].
    + destruct (IH s e (lb + 1) ofs len positions Hs Hb') as (extra & E1 & E2 & E3).
      exists extra. split; [exact E1|]. split; [|exact E3].
      apply (sorted_nonempty_weaken (lb + 1)); [lia | exact E2].
    + destruct (IH s e (lb + 1) ofs len (positions ++ [(a', b')]) Hs Hb') as (extra & E1 & E2 & E3).
      exists ((a', b') :: extra). split; [|split].
      * rewrite E1, <- app_assoc. reflexivity.
      * cbn [sorted_nonempty_from]. split; [lia|]. split; [lia|].
        apply (sorted_nonempty_weaken (lb + 1)); [lia | exact E2].
      * intros r [<- | Hin]; [|apply E3; exact Hin].
        unfold good_block. cbn [fst snd].
        assert (forall k, cp <= k -> k <= ip -> is_boundary s k = true) as Hbd.
        { intros k K1 K2. destruct (Nat.eq_dec k ip) as [->|NE]; [exact C3|].
          destruct (Hrun k) as [Hk _]; [lia | lia | exact Hk]. }
        split; [lia|]. split; [lia|]. split; [|split].
        -- apply ranges_only_blank_single. intros i c Hi1 Hi2 Hn.
           destruct (Hrun i) as (_ & d & Hd & Hbl); [lia | lia | congruence].
        -- apply Hbd; lia.
        -- apply Hbd; lia.
  - destruct (IH s e (lb + 1) ofs len positions Hs Hb') as (extra & E1 & E2 & E3).
    exists extra. split; [exact E1|]. split; [|exact E3].
    apply (sorted_nonempty_weaken (lb + 1)); [lia | exact E2].
Qed.

Lemma Ok_inj {A} (x y : A) : Ok x = Ok y -> x = y.
Proof. intros H. inversion H. reflexivity. Qed.

Theorem block_indent_spec : forall s a b rs, wf_utf8 s = true -> block_indent_remover s a b = Ok rs ->
  sorted_nonempty_from (S a) rs /\
  (forall r, In r rs -> snd r < b /\ snd r <= length s /\ ranges_only_blank s [r] /\
                        is_boundary s (fst r) = true /\ is_boundary s (snd r) = true).
Proof.
  intros s a b rs Hs H. unfold block_indent_remover in H.
  apply bind_ok in H. destruct H as (ofs & _ & H).
  apply bind_ok in H. destruct H as (first & _ & H). apply Ok_inj in H. rename H into Hrs.
  destruct (find_next_lb s a false) as [p|] eqn:F.
  - pose proof (find_next_lb_some _ _ _ _ F) as (F1 & F2 & F3 & F4).
    pose proof (after_nl_boundary s p Hs F4 F3) as Hb'. rewrite <- Nat.add_1_r in Hb'.
    destruct (block_loop_spec (S (length s)) s b (p + 1) ofs (first - ofs) [] Hs Hb')
      as (extra & E1 & E2 & E3).
    rewrite <- Hrs, E1. cbn [app]. split; [|exact E3].
    apply (sorted_nonempty_weaken (p + 1)); [lia | exact E2].
  - destruct (block_loop_spec (S (length s)) s b (length s) ofs (first - ofs) []
                Hs (is_boundary_length s)) as (extra & E1 & E2 & E3).
    rewrite <- Hrs, E1. cbn [app]. split; [|exact E3].
    destruct extra as [|[a' b'] rest]; [exact I|].
    cbn [sorted_nonempty_from] in E2. destruct E2 as (K1 & K2 & _).
    destruct (E3 (a', b')) as (_ & K3 & _); [left; reflexivity|]. cbn [snd] in K3. lia.
Qed.

(* ------------------------------------------------------------------------- *)
Print Assumptions find_next_lb_some.
Print Assumptions find_prev_lb_some.
Print Assumptions find_next_char_some.
Print Assumptions find_next_lb_pause_blank.
Print Assumptions find_prev_lb_pause_blank.
Print Assumptions find_next_char_blank.
Print Assumptions find_next_lb_first.
Print Assumptions find_next_lb_none.
Print Assumptions find_prev_lb_last.
Print Assumptions find_prev_lb_none.
Print Assumptions after_nl_boundary.
Print Assumptions seam_formatter_total.
Print Assumptions seam_formatter_spec.
Print Assumptions seam_hull_of_total.
Print Assumptions seam_hull_of_spec.
Print Assumptions format_block_hull.
Print Assumptions all_blank_before_spec.
Print Assumptions format_block_total.
Print Assumptions format_block_spec.
Print Assumptions block_indent_total.
Print Assumptions block_indent_spec.
