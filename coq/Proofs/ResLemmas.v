(** Inversion lemmas and tactics for the [res] monad. *)
From Coq Require Import List NArith Arith Bool Lia.
Import ListNotations.
From Chiri Require Import Base.Bytes Base.Res.

Lemma bind_ok {A B} (r : res A) (f : A -> res B) (b : B) :
  bind r f = Ok b -> exists a, r = Ok a /\ f a = Ok b.
Proof. destruct r as [a|]; simpl; intros H; [exists a; auto | discriminate]. Qed.

Lemma bind_ok_intro {A B} (r : res A) (f : A -> res B) a :
  r = Ok a -> bind r f = f a.
Proof. intros ->; reflexivity. Qed.

(** Decompose hypotheses of the form [bind r f = Ok b]. *)
Ltac inv_bind H :=
  let a := fresh "v" in
  let H1 := fresh "Hb" in
  let H2 := fresh "Hk" in
  apply bind_ok in H; destruct H as [a [H1 H2]].

Ltac inv_ok :=
  repeat match goal with
         | HH : Ok _ = Ok _ |- _ => inversion HH; subst; clear HH
         | HH : Panic = Ok _ |- _ => discriminate HH
         | HH : Ok _ = Panic |- _ => discriminate HH
         end.

Lemma csub_ok a b c : csub a b = Ok c -> b <= a /\ c = a - b.
Proof.
  unfold csub. destruct (Nat.leb_spec b a); intros HH; inversion HH; auto.
Qed.

Lemma csub_le a b : b <= a -> csub a b = Ok (a - b).
Proof. intros H. unfold csub. destruct (Nat.leb_spec b a); [reflexivity | lia]. Qed.

Lemma foldM_app {A B} (f : A -> B -> res A) l1 l2 a :
  foldM f (l1 ++ l2) a = bind (foldM f l1 a) (foldM f l2).
Proof.
  revert a. induction l1 as [|x l1 IH]; intros a; simpl; [reflexivity|].
  destruct (f a x); simpl; auto.
Qed.

Lemma foldM_nil {A B} (f : A -> B -> res A) a : foldM f [] a = Ok a.
Proof. reflexivity. Qed.
