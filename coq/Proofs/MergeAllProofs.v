(** C17: the merge of the pending regions into the ready regions ([merge_all], the model of the
    loop of Remover::build_remove_marker_all) lists every ready region once, exactly the pending
    regions that do not lie inside a ready region, and everything in source order. *)
From Coq Require Import List NArith Arith Bool Lia PeanoNat.
Import ListNotations.
From Chiri Require Import Base.Bytes Base.Res Model.Markers Spec.Ranges Spec.MergeSpec.

(* ------------------------------------------------------------------------- *)
(** * Vocabulary *)

Definition startm (p : marker) : nat := fst (fst p).
Definition tag (p : marker) : marker * bool := (p, false).

(** squashed by one ready range *)
Definition sq1 (r : Markers.range) (p : marker) : bool :=
  contains r (fst (fst p)) && contains r (snd (fst p)).

Lemma squashed_nil p : squashed [] p = false.
Proof. reflexivity. Qed.

Lemma squashed_cons r ready p : squashed (r :: ready) p = sq1 (fst r) p || squashed ready p.
Proof. reflexivity. Qed.

(** The pending ranges consumed for the ready range [r] (those that start before its end), and
    the ones left for later. *)
Fixpoint tp_cons (r : Markers.range) (pend : list marker) : list marker :=
  match pend with
  | [] => []
  | p :: rest => if snd r <=? startm p then [] else p :: tp_cons r rest
  end.

Fixpoint tp_rest (r : Markers.range) (pend : list marker) : list marker :=
  match pend with
  | [] => []
  | p :: rest => if snd r <=? startm p then pend else tp_rest r rest
  end.

Definition listed_before (r : Markers.range) (p : marker) : bool :=
  negb (sq1 r p) && (startm p <? fst r).
Definition listed_after (r : Markers.range) (p : marker) : bool :=
  negb (sq1 r p) && negb (startm p <? fst r).

(* ------------------------------------------------------------------------- *)
(** * take_pending and merge_all as equations *)

Lemma take_pending_eq r : forall pend before after,
  take_pending r pend before after =
  (before ++ map tag (filter (listed_before r) (tp_cons r pend)),
   after ++ map tag (filter (listed_after r) (tp_cons r pend)),
   tp_rest r pend).
Proof.
  induction pend as [|[p pidx] rest IH]; intros before after.
  - cbn. rewrite !app_nil_r. reflexivity.
  - cbn [take_pending tp_cons tp_rest]. change (startm (p, pidx)) with (fst p).
    destruct (snd r <=? fst p) eqn:E1.
    + cbn. rewrite !app_nil_r. reflexivity.
    + cbn [filter].
      change (listed_before r (p, pidx))
        with (negb (contains r (fst p) && contains r (snd p)) && (fst p <? fst r)).
      change (listed_after r (p, pidx))
        with (negb (contains r (fst p) && contains r (snd p)) && negb (fst p <? fst r)).
      destruct (contains r (fst p) && contains r (snd p)) eqn:E2; cbn [negb andb].
      * apply IH.
      * destruct (fst p <? fst r) eqn:E3; cbn [negb]; rewrite IH; cbn [map];
          rewrite <- ?app_assoc; reflexivity.
Qed.

Lemma merge_all_step r idx rest pend merged :
  merge_all ((r, idx) :: rest) pend merged =
  merge_all rest (tp_rest r pend)
            (merged ++ map tag (filter (listed_before r) (tp_cons r pend))
                    ++ [((r, idx), true)]
                    ++ map tag (filter (listed_after r) (tp_cons r pend))).
Proof. cbn [merge_all]. rewrite take_pending_eq. reflexivity. Qed.

Lemma merge_all_acc : forall ready pend merged,
  merge_all ready pend merged = merged ++ merge_all ready pend [].
Proof.
  induction ready as [|[r idx] rest IH]; intros pend merged.
  - reflexivity.
  - rewrite !merge_all_step. rewrite IH. rewrite (IH _ ([] ++ _)). cbn [app].
    rewrite <- !app_assoc. reflexivity.
Qed.

Lemma merge_all_cons r idx rest pend :
  merge_all ((r, idx) :: rest) pend [] =
  map tag (filter (listed_before r) (tp_cons r pend))
  ++ [((r, idx), true)]
  ++ map tag (filter (listed_after r) (tp_cons r pend))
  ++ merge_all rest (tp_rest r pend) [].
Proof.
  rewrite merge_all_step, merge_all_acc. cbn [app]. rewrite <- !app_assoc. reflexivity.
Qed.

(* ------------------------------------------------------------------------- *)
(** * Sorted pending lists *)

Lemma tp_split r : forall pend, pend = tp_cons r pend ++ tp_rest r pend.
Proof.
  induction pend as [|p rest IH]; [reflexivity|].
  cbn [tp_cons tp_rest]. destruct (snd r <=? startm p); [reflexivity|].
  cbn [app]. f_equal. exact IH.
Qed.

Lemma tp_cons_lt r : forall pend p, In p (tp_cons r pend) -> startm p < snd r.
Proof.
  induction pend as [|q rest IH]; intros p Hin; [destruct Hin|].
  cbn [tp_cons] in Hin. destruct (Nat.leb_spec (snd r) (startm q)) as [L|L]; [destruct Hin|].
  destruct Hin as [<-|Hin]; [exact L | apply IH; exact Hin].
Qed.

Lemma sorted_lower : forall (l : list marker) lo,
  sorted_nonempty_from lo (map fst l) -> forall p, In p l -> lo <= startm p.
Proof.
  induction l as [|[[a b] i] l IH]; intros lo H p Hin; [destruct Hin|].
  cbn [map fst sorted_nonempty_from] in H. destruct H as (H1 & H2 & H3).
  destruct Hin as [<-|Hin]; [exact H1|].
  specialize (IH b H3 p Hin). lia.
Qed.

Lemma sorted_weaken : forall (l : list Markers.range) lo lo',
  lo' <= lo -> sorted_nonempty_from lo l -> sorted_nonempty_from lo' l.
Proof.
  intros [|[a b] l] lo lo' Hle; cbn [sorted_nonempty_from]; [auto|].
  intros (H1 & H2 & H3). repeat split; try assumption; lia.
Qed.

Lemma tp_cons_sorted r : forall pend lo,
  sorted_nonempty_from lo (map fst pend) -> sorted_nonempty_from lo (map fst (tp_cons r pend)).
Proof.
  induction pend as [|[[a b] i] rest IH]; intros lo H; [exact I|].
  cbn [tp_cons]. match goal with |- context [if ?c then _ else _] => destruct c end; [exact I|].
  cbn [map fst sorted_nonempty_from] in *. destruct H as (H1 & H2 & H3).
  repeat split; try assumption. apply IH. exact H3.
Qed.

Lemma tp_rest_sorted r : forall pend lo,
  sorted_nonempty_from lo (map fst pend) -> sorted_nonempty_from (snd r) (map fst (tp_rest r pend)).
Proof.
  induction pend as [|[[a b] i] rest IH]; intros lo H; [exact I|].
  cbn [tp_rest]. unfold startm. cbn [fst].
  destruct (Nat.leb_spec (snd r) a) as [L|L].
  - cbn [map fst sorted_nonempty_from] in *. destruct H as (H1 & H2 & H3).
    repeat split; assumption.
  - cbn [map fst sorted_nonempty_from] in H. destruct H as (_ & _ & H3). apply (IH b). exact H3.
Qed.

(** On a list sorted by start, the elements that start before a threshold precede the others. *)
Lemma filter_threshold (g : marker -> bool) x : forall (l : list marker) lo,
  sorted_nonempty_from lo (map fst l) ->
  filter (fun p => g p && (startm p <? x)) l ++ filter (fun p => g p && negb (startm p <? x)) l
  = filter g l.
Proof.
  induction l as [|[[a b] i] l IH]; intros lo H; [reflexivity|].
  cbn [map fst sorted_nonempty_from] in H. destruct H as (H1 & H2 & H3).
  cbn [filter].
  match goal with |- context [?s <? x] => destruct (Nat.ltb_spec s x) as [L|L] end;
    change (startm (a, b, i)) with a in L; cbn [negb].
  - rewrite !andb_true_r, andb_false_r.
    match goal with |- context [if ?c then _ else _] => destruct c end; cbn [app];
      rewrite (IH b H3); reflexivity.
  - rewrite andb_false_r, andb_true_r.
    assert (filter (fun p => g p && (startm p <? x)) l = []) as E1.
    { rewrite <- (filter_ext_in (fun _ => false)).
      - clear. induction l as [|q l IHl]; [reflexivity | exact IHl].
      - intros p Hin. pose proof (sorted_lower l b H3 p Hin) as Hp.
        destruct (Nat.ltb_spec (startm p) x); [lia|]. rewrite andb_false_r. reflexivity. }
    assert (filter (fun p => g p && negb (startm p <? x)) l = filter g l) as E2.
    { apply filter_ext_in. intros p Hin. pose proof (sorted_lower l b H3 p Hin) as Hp.
      destruct (Nat.ltb_spec (startm p) x); [lia|]. apply andb_true_r. }
    rewrite E1, E2. reflexivity.
Qed.

(* ------------------------------------------------------------------------- *)
(** * Squashing against sorted, disjoint ready ranges *)

(** A range that starts before all the ready ranges is not inside one of them. *)
Lemma squashed_before : forall (ready : list marker) lo p,
  sorted_nonempty_from lo (map fst ready) -> startm p < lo -> squashed ready p = false.
Proof.
  induction ready as [|[[a b] i] ready IH]; intros lo p H Hp; [reflexivity|].
  cbn [map fst sorted_nonempty_from] in H. destruct H as (H1 & H2 & H3).
  rewrite squashed_cons. cbn [fst]. rewrite (IH b p H3) by lia. rewrite orb_false_r.
  unfold sq1, contains. cbn [fst snd]. unfold startm in Hp.
  destruct (Nat.leb_spec a (fst (fst p))); [lia|]. reflexivity.
Qed.

(** A range that starts at or after the end of [r] is not inside [r]. *)
Lemma sq1_after r p : snd r <= startm p -> sq1 r p = false.
Proof.
  intros H. unfold sq1, contains. unfold startm in H.
  destruct (Nat.ltb_spec (fst (fst p)) (snd r)); [lia|]. rewrite andb_false_r. reflexivity.
Qed.

(* ------------------------------------------------------------------------- *)
(** * Filters over tagged lists *)

Lemma filter_ready_tag (l : list marker) : filter (fun x : marker * bool => snd x) (map tag l) = [].
Proof. induction l as [|p l IH]; [reflexivity | exact IH]. Qed.

Lemma filter_pending_tag (l : list marker) :
  map fst (filter (fun x : marker * bool => negb (snd x)) (map tag l)) = l.
Proof. induction l as [|p l IH]; [reflexivity|]. cbn. f_equal. exact IH. Qed.

(* ------------------------------------------------------------------------- *)
(** * Source order with an explicit lower bound *)

Definition startx (x : marker * bool) : nat := fst (fst (fst x)).

Fixpoint ss_from (lo : nat) (l : list (marker * bool)) : Prop :=
  match l with
  | [] => True
  | x :: rest => lo <= startx x /\ ss_from (startx x) rest
  end.

Lemma ss_from_weaken l lo lo' : lo' <= lo -> ss_from lo l -> ss_from lo' l.
Proof.
  destruct l as [|x l]; cbn [ss_from]; [auto|]. intros Hle [H1 H2]. split; [lia | exact H2].
Qed.

Lemma ss_from_starts_sorted : forall l lo, ss_from lo l -> starts_sorted l.
Proof.
  induction l as [|x l IH]; intros lo H; [exact I|].
  cbn [ss_from] in H. destruct H as [_ H2].
  destruct l as [|y l]; [exact I|].
  change (startx x <= startx y /\ starts_sorted (y :: l)).
  split; [cbn [ss_from] in H2; tauto | apply (IH (startx x)); exact H2].
Qed.

Lemma ss_from_app : forall l1 lo hi l2,
  ss_from lo l1 -> (forall x, In x l1 -> startx x <= hi) -> lo <= hi -> ss_from hi l2 ->
  ss_from lo (l1 ++ l2).
Proof.
  induction l1 as [|x l1 IH]; intros lo hi l2 H1 Hb Hle H2; cbn [app].
  - apply (ss_from_weaken l2 hi lo Hle H2).
  - cbn [ss_from] in *. destruct H1 as [H1 H1']. split; [exact H1|].
    apply (IH (startx x) hi l2 H1').
    + intros y Hy. apply Hb. right. exact Hy.
    + apply Hb. left. reflexivity.
    + exact H2.
Qed.

Lemma ss_from_filter (f : marker -> bool) : forall (l : list marker) lo lo2,
  sorted_nonempty_from lo (map fst l) ->
  (forall p, In p l -> f p = true -> lo2 <= startm p) ->
  ss_from lo2 (map tag (filter f l)).
Proof.
  induction l as [|[[a b] i] l IH]; intros lo lo2 H Hlo; [exact I|].
  cbn [map fst sorted_nonempty_from] in H. destruct H as (H1 & H2 & H3).
  cbn [filter]. match goal with |- context [if ?c then _ else _] => destruct c eqn:E end.
  - cbn [map ss_from]. split.
    + apply (Hlo (a, b, i) (or_introl eq_refl) E).
    + apply (IH b); [exact H3|]. intros p Hin _.
      pose proof (sorted_lower l b H3 p Hin) as Hp. unfold tag, startx. cbn [fst]. lia.
  - apply (IH b); [exact H3|]. intros p Hin Hf. apply Hlo; [right; exact Hin | exact Hf].
Qed.

Lemma ss_from_pending : forall (l : list marker) lo,
  sorted_nonempty_from lo (map fst l) -> ss_from lo (map (fun v => (v, false)) l).
Proof.
  induction l as [|[[a b] i] l IH]; intros lo H; [exact I|].
  cbn [map fst sorted_nonempty_from] in H. destruct H as (H1 & H2 & H3).
  cbn [map ss_from]. split; [exact H1|].
  apply (ss_from_weaken _ b); [unfold startx; cbn [fst]; lia | apply IH; exact H3].
Qed.

Lemma in_tag_filter f (l : list marker) x :
  In x (map tag (filter f l)) -> exists p, x = (p, false) /\ In p l /\ f p = true.
Proof.
  intros H. apply in_map_iff in H. destruct H as (p & <- & Hp). apply filter_In in Hp.
  exists p. split; [reflexivity | exact Hp].
Qed.

(* ------------------------------------------------------------------------- *)
(** * The three parts of the specification *)

(** every Ready region exactly once, in order (no hypothesis needed) *)
Lemma merge_all_ready : forall ready pend,
  map fst (filter (fun x : marker * bool => snd x) (merge_all ready pend [])) = ready.
Proof.
  induction ready as [|[r idx] rest IH]; intros pend.
  - cbn [merge_all app].
    change (map (fun v : marker => (v, false)) pend) with (map tag pend).
    rewrite filter_ready_tag. reflexivity.
  - rewrite merge_all_cons. rewrite !filter_app, !filter_ready_tag. cbn [filter snd app map fst].
    f_equal. apply IH.
Qed.

(** exactly the pending regions that do not lie inside a ready region, in order *)
Lemma merge_all_pending : forall ready pend lo lo',
  sorted_nonempty_from lo (map fst ready) -> sorted_nonempty_from lo' (map fst pend) ->
  map fst (filter (fun x : marker * bool => negb (snd x)) (merge_all ready pend []))
  = filter (fun p => negb (squashed ready p)) pend.
Proof.
  induction ready as [|[[a b] idx] rest IH]; intros pend lo lo' Hr Hp.
  - cbn [merge_all app].
    change (map (fun v : marker => (v, false)) pend) with (map tag pend).
    rewrite filter_pending_tag.
    rewrite <- (filter_ext_in (fun _ => true)).
    + clear. induction pend as [|p l IHl]; [reflexivity | cbn [filter]; f_equal; exact IHl].
    + intros p _. reflexivity.
  - cbn [map fst sorted_nonempty_from] in Hr. destruct Hr as (R1 & R2 & R3).
    set (r := (a, b)) in *.
    rewrite merge_all_cons. rewrite !filter_app, !map_app, !filter_pending_tag.
    cbn [filter snd negb map app].
    rewrite (IH (tp_rest r pend) b b R3 (tp_rest_sorted r pend lo' Hp)).
    rewrite (tp_split r pend) at 4. rewrite filter_app.
    rewrite app_assoc. f_equal.
    + unfold listed_before, listed_after.
      rewrite (filter_threshold (fun p => negb (sq1 r p)) (fst r) (tp_cons r pend) lo'
                 (tp_cons_sorted r pend lo' Hp)).
      apply filter_ext_in. intros p Hin. rewrite squashed_cons. cbn [fst].
      rewrite (squashed_before rest b p R3); [rewrite orb_false_r; reflexivity|].
      apply (tp_cons_lt r pend p Hin).
    + apply filter_ext_in. intros p Hin. rewrite squashed_cons. cbn [fst].
      rewrite (sq1_after r p); [reflexivity|].
      apply (sorted_lower (tp_rest r pend) (snd r)); [apply (tp_rest_sorted r pend lo' Hp) | exact Hin].
Qed.

(** source order *)
Lemma merge_all_order : forall ready pend lo lo',
  sorted_nonempty_from lo (map fst ready) -> sorted_nonempty_from lo' (map fst pend) ->
  ss_from (Nat.min lo lo') (merge_all ready pend []).
Proof.
  induction ready as [|[[a b] idx] rest IH]; intros pend lo lo' Hr Hp.
  - cbn [merge_all app]. apply (ss_from_weaken _ lo'); [lia|]. apply ss_from_pending. exact Hp.
  - cbn [map fst sorted_nonempty_from] in Hr. destruct Hr as (R1 & R2 & R3).
    set (r := (a, b)) in *.
    rewrite merge_all_cons.
    pose proof (tp_cons_sorted r pend lo' Hp) as Hc.
    pose proof (IH (tp_rest r pend) b b R3 (tp_rest_sorted r pend lo' Hp)) as Htail.
    rewrite Nat.min_id in Htail.
    (* the ones listed before r *)
    apply (ss_from_app _ _ a).
    + apply (ss_from_filter _ _ lo'); [exact Hc|]. intros p Hin _.
      pose proof (sorted_lower _ lo' Hc p Hin). lia.
    + intros x Hx. apply in_tag_filter in Hx. destruct Hx as (p & -> & _ & Hf).
      unfold listed_before in Hf. apply andb_true_iff in Hf. destruct Hf as [_ Hf].
      apply Nat.ltb_lt in Hf. change (fst r) with a in Hf.
      unfold startx, startm in *. cbn [fst] in *. lia.
    + lia.
    + (* r itself *)
      cbn [app ss_from]. split; [exact (le_n a)|].
      change (startx (r, idx, true)) with a.
      (* the ones listed after r *)
      apply (ss_from_app _ _ b).
      * apply (ss_from_filter _ _ lo'); [exact Hc|]. intros p Hin Hf.
        unfold listed_after in Hf. apply andb_true_iff in Hf. destruct Hf as [_ Hf].
        change (fst r) with a in Hf.
        destruct (Nat.ltb_spec (startm p) a) as [L|L]; [discriminate Hf | exact L].
      * intros x Hx. apply in_tag_filter in Hx. destruct Hx as (p & -> & Hin & _).
        pose proof (tp_cons_lt r pend p Hin) as Hlt. change (snd r) with b in Hlt.
        unfold startx, startm in *. cbn [fst snd] in *. lia.
      * lia.
      * exact Htail.
Qed.

(* ------------------------------------------------------------------------- *)
(** * The specification *)

Theorem merge_all_spec : forall (ready pend : list marker) lo lo',
  sorted_nonempty_from lo (map fst ready) -> sorted_nonempty_from lo' (map fst pend) ->
  let out := merge_all ready pend [] in
  (* every Ready region exactly once, in order *)
  map fst (filter (fun x => snd x) out) = ready /\
  (* exactly the pending regions that do not lie inside a ready region, in order *)
  map fst (filter (fun x => negb (snd x)) out) = filter (fun p => negb (squashed ready p)) pend /\
  (* source order *)
  starts_sorted out.
Proof.
  intros ready pend lo lo' Hr Hp out. subst out. split; [|split].
  - apply merge_all_ready.
  - apply (merge_all_pending ready pend lo lo' Hr Hp).
  - apply (ss_from_starts_sorted _ (Nat.min lo lo')). apply (merge_all_order ready pend lo lo' Hr Hp).
Qed.

Print Assumptions merge_all_spec.
