(** C10: the fuel-based recursive-descent tree parser of Model/TreeParser.v computes exactly the
    tree of the one-pass stack machine of Spec/Stack.v; structural facts about that tree. *)
From Coq Require Import List NArith Arith Bool Lia PeanoNat.
Import ListNotations.
From Chiri Require Import Base.Bytes Base.Res Model.Tokenizer Model.TagParser Model.TreeParser
     Spec.Stack Proofs.ResLemmas Proofs.BytesLemmas.

(* classification of tokens used by the specification *)
Definition cls_of (ds de : str) (t : token) : option element :=
  match parse_token ds de t with Ok o => o | Panic => None end.

(* ------------------------------------------------------------------------------------------ *)
(** * Part 1: every token appears exactly once, in document order *)

Lemma flatten_app a b : flatten (a ++ b) = flatten a ++ flatten b.
Proof. unfold flatten. apply flat_map_app. Qed.

Lemma flatten_cons_text t ps : flatten (PText t :: ps) = t :: flatten ps.
Proof. reflexivity. Qed.

Ltac list_norm :=
  unfold flatten;
  repeat (rewrite flat_map_app || rewrite app_nil_r || rewrite <- app_assoc || (progress simpl)).

(** Token content of the open frames, outermost first (the list is innermost first). *)
Fixpoint frames_content (fs : list frame) : list token :=
  match fs with
  | [] => []
  | f :: fs' => frames_content fs' ++ fr_tok f :: flatten (fr_children f)
  end.

Definition content (st : mstate) : list token :=
  flatten (snd st) ++ frames_content (fst st).

Lemma content_push st ps : content (push_parts st ps) = content st ++ flatten ps.
Proof.
  destruct st as [[|f fs] root]; unfold content; simpl.
  - rewrite flatten_app, !app_nil_r. reflexivity.
  - rewrite flatten_app, <- !app_assoc. simpl. reflexivity.
Qed.

Lemma content_close name t fs : forall root carry,
  existsb (fun f => str_eqb (el_name (fr_el f)) name) fs = true ->
  content (close_frame name t fs root carry)
  = flatten root ++ frames_content fs ++ flatten carry ++ [t].
Proof.
  induction fs as [|f fs IH]; intros root carry Hex.
  - simpl in Hex. discriminate.
  - cbn [close_frame existsb] in *.
    destruct (str_eqb (el_name (fr_el f)) name) eqn:E.
    + rewrite content_push. unfold content. list_norm. reflexivity.
    + simpl in Hex. rewrite IH by exact Hex. list_norm. reflexivity.
Qed.

Lemma flatten_finish fs : forall root carry,
  flatten (finish fs root carry) = flatten root ++ frames_content fs ++ flatten carry.
Proof.
  induction fs as [|f fs IH]; intros root carry; simpl.
  - apply flatten_app.
  - rewrite IH, flatten_cons_text, flatten_app, <- !app_assoc. reflexivity.
Qed.

Lemma content_mstep cls st t : content (mstep cls st t) = content st ++ [t].
Proof.
  unfold mstep. destruct (cls t) as [el|].
  - destruct (is_closer el (fst st)) eqn:Hc.
    + unfold is_closer in Hc. apply andb_true_iff in Hc. destruct Hc as [_ Hex].
      rewrite content_close by exact Hex. unfold content. simpl.
      rewrite <- !app_assoc. reflexivity.
    + unfold content. simpl. rewrite <- !app_assoc. reflexivity.
  - rewrite content_push. reflexivity.
Qed.

Lemma content_fold cls ts : forall st,
  content (fold_left (mstep cls) ts st) = content st ++ ts.
Proof.
  induction ts as [|t ts IH]; intros st; simpl.
  - rewrite app_nil_r. reflexivity.
  - rewrite IH, content_mstep, <- app_assoc. reflexivity.
Qed.

Theorem stack_tree_flatten : forall cls tokens, flatten (stack_tree cls tokens) = tokens.
Proof.
  intros cls tokens. unfold stack_tree.
  pose proof (content_fold cls tokens ([], [])) as Hc.
  destruct (fold_left (mstep cls) tokens ([], [])) as [stack root].
  rewrite flatten_finish. unfold content in Hc. simpl in *.
  rewrite app_nil_r. exact Hc.
Qed.

(* ------------------------------------------------------------------------------------------ *)
(** * Part 2: every element of the tree is a well-formed opener/closer pair *)

Definition wf_elem (cls : token -> option element) (x : element * token * token) : Prop :=
  let '(el, st, et) := x in
  cls st = Some el /\
  exists el', cls et = Some el' /\ starts_with_slash (el_name el') = true /\
              trim_slashes (el_name el') = el_name el.

Definition good (cls : token -> option element) (ps : list part) : Prop :=
  Forall (wf_elem cls) (all_elements ps).

Definition good_frame (cls : token -> option element) (f : frame) : Prop :=
  cls (fr_tok f) = Some (fr_el f) /\ good cls (fr_children f).

Definition good_state (cls : token -> option element) (st : mstate) : Prop :=
  Forall (good_frame cls) (fst st) /\ good cls (snd st).

Lemma all_elements_app a b : all_elements (a ++ b) = all_elements a ++ all_elements b.
Proof. unfold all_elements. apply flat_map_app. Qed.

Lemma good_app cls a b : good cls a -> good cls b -> good cls (a ++ b).
Proof.
  unfold good. intros Ha Hb. rewrite all_elements_app. apply Forall_app. split; assumption.
Qed.

Lemma good_nil cls : good cls [].
Proof. constructor. Qed.

Lemma good_cons_text cls t ps : good cls ps -> good cls (PText t :: ps).
Proof. intros H. exact H. Qed.

Lemma good_elem cls el st et ch :
  wf_elem cls (el, st, et) -> good cls ch -> good cls [PElem el st et ch].
Proof.
  intros Hw Hch. unfold good, all_elements. simpl. rewrite app_nil_r.
  constructor; assumption.
Qed.

Lemma good_push cls st ps :
  good_state cls st -> good cls ps -> good_state cls (push_parts st ps).
Proof.
  destruct st as [[|f fs] root]; unfold good_state; simpl; intros [Hfs Hroot] Hps.
  - split; [constructor | apply good_app; assumption].
  - inversion Hfs as [|f' fs' Hf Hfs']; subst.
    split; [|assumption]. constructor; [|assumption].
    destruct Hf as [Hf1 Hf2]. split; simpl; [assumption | apply good_app; assumption].
Qed.

Lemma good_close cls t el' fs : forall root carry,
  cls t = Some el' -> starts_with_slash (el_name el') = true ->
  good_state cls (fs, root) -> good cls carry ->
  good_state cls (close_frame (trim_slashes (el_name el')) t fs root carry).
Proof.
  induction fs as [|f fs IH]; intros root carry Hcls Hsl [Hfs Hroot] Hcarry;
    cbn [close_frame fst snd] in *.
  - split; [constructor | apply good_app; assumption].
  - inversion Hfs as [|f' fs' Hf Hfs']; subst. destruct Hf as [Hf1 Hf2].
    destruct (str_eqb (el_name (fr_el f)) (trim_slashes (el_name el'))) eqn:E.
    + apply good_push; [split; assumption|].
      apply good_elem; [|apply good_app; assumption].
      apply str_eqb_eq in E. simpl. split; [assumption|].
      exists el'. repeat split; [assumption | assumption | symmetry; assumption].
    + apply IH; try assumption; [split; assumption|].
      apply good_cons_text. apply good_app; assumption.
Qed.

Lemma good_finish cls fs : forall root carry,
  good_state cls (fs, root) -> good cls carry -> good cls (finish fs root carry).
Proof.
  induction fs as [|f fs IH]; intros root carry [Hfs Hroot] Hcarry; cbn [finish fst snd] in *.
  - apply good_app; assumption.
  - inversion Hfs as [|f' fs' Hf Hfs']; subst. destruct Hf as [Hf1 Hf2].
    apply IH; [split; assumption|].
    apply good_cons_text. apply good_app; assumption.
Qed.

Lemma good_mstep cls st t : good_state cls st -> good_state cls (mstep cls st t).
Proof.
  intros Hst. unfold mstep. destruct (cls t) as [el|] eqn:Hcls.
  - destruct (is_closer el (fst st)) eqn:Hc.
    + unfold is_closer in Hc. apply andb_true_iff in Hc. destruct Hc as [Hsl _].
      destruct st as [fs root]. simpl.
      apply good_close; [assumption | assumption | assumption | apply good_nil].
    + destruct Hst as [Hfs Hroot]. split; simpl; [|assumption].
      constructor; [|assumption]. split; simpl; [assumption | apply good_nil].
  - apply good_push; [assumption|]. apply good_cons_text, good_nil.
Qed.

Lemma good_fold cls ts : forall st,
  good_state cls st -> good_state cls (fold_left (mstep cls) ts st).
Proof.
  induction ts as [|t ts IH]; intros st Hst; simpl; [assumption|].
  apply IH, good_mstep, Hst.
Qed.

Lemma stack_tree_good cls tokens : good cls (stack_tree cls tokens).
Proof.
  unfold stack_tree.
  assert (Hg : good_state cls (fold_left (mstep cls) tokens ([], []))).
  { apply good_fold. split; simpl; [constructor | apply good_nil]. }
  destruct (fold_left (mstep cls) tokens ([], [])) as [stack root].
  apply good_finish; [assumption | apply good_nil].
Qed.

Theorem stack_tree_elements_wellformed : forall cls tokens el st et,
  In (el, st, et) (all_elements (stack_tree cls tokens)) ->
  cls st = Some el /\ exists el', cls et = Some el' /\ starts_with_slash (el_name el') = true /\
                                  trim_slashes (el_name el') = el_name el.
Proof.
  intros cls tokens el st et Hin.
  pose proof (stack_tree_good cls tokens) as Hg. unfold good in Hg.
  rewrite Forall_forall in Hg. apply (Hg _ Hin).
Qed.

(* ------------------------------------------------------------------------------------------ *)
(** * Part 3: the recursive-descent parser computes the stack machine's tree *)

(** The tokens at positions [a .. b). *)
Definition seg (tokens : list token) (a b : nat) : list token :=
  firstn (b - a) (skipn a tokens).

Lemma firstn_add {A} n m : forall (l : list A),
  firstn (n + m) l = firstn n l ++ firstn m (skipn n l).
Proof.
  induction n as [|n IH]; intros l; simpl; [reflexivity|].
  destruct l as [|x l]; simpl.
  - rewrite firstn_nil. reflexivity.
  - rewrite IH. reflexivity.
Qed.

Lemma skipn_add {A} n m : forall (l : list A), skipn m (skipn n l) = skipn (n + m) l.
Proof.
  induction n as [|n IH]; intros l; simpl; [reflexivity|].
  destruct l as [|x l]; simpl.
  - apply skipn_nil.
  - apply IH.
Qed.

Lemma seg_split tokens a b c : a <= b -> b <= c ->
  seg tokens a c = seg tokens a b ++ seg tokens b c.
Proof.
  intros Hab Hbc. unfold seg.
  replace (c - a) with ((b - a) + (c - b)) by lia.
  rewrite firstn_add, skipn_add.
  replace (a + (b - a)) with b by lia. reflexivity.
Qed.

Lemma skipn_nth {A} n : forall (l : list A) x,
  nth_error l n = Some x -> skipn n l = x :: skipn (S n) l.
Proof.
  induction n as [|n IH]; intros l x Hn; destruct l as [|y l]; simpl in *; try discriminate.
  - inversion Hn; reflexivity.
  - apply IH. exact Hn.
Qed.

Lemma seg_one tokens a t : nth_error tokens a = Some t -> seg tokens a (a + 1) = [t].
Proof.
  intros Hn. unfold seg. replace (a + 1 - a) with 1 by lia.
  rewrite (skipn_nth _ _ _ Hn). reflexivity.
Qed.

Lemma seg_none tokens a b : length tokens <= a -> seg tokens a b = [].
Proof.
  intros Hle. unfold seg. rewrite skipn_all2 by exact Hle. apply firstn_nil.
Qed.

Lemma seg_all tokens c : length tokens <= c -> seg tokens 0 c = tokens.
Proof.
  intros Hle. unfold seg. simpl. apply firstn_all2. lia.
Qed.

Definition names (fs : list frame) : list str := map (fun f => el_name (fr_el f)) fs.

Definition finish_st (st : mstate) : list part := finish (fst st) (snd st) [].

Lemma names_push st ps : names (fst (push_parts st ps)) = names (fst st).
Proof. destruct st as [[|f fs] root]; reflexivity. Qed.

Lemma close_push name t st ps carry :
  close_frame name t (fst (push_parts st ps)) (snd (push_parts st ps)) carry
  = close_frame name t (fst st) (snd st) (ps ++ carry).
Proof.
  destruct st as [[|f fs] root]; simpl; rewrite <- app_assoc; reflexivity.
Qed.

Lemma finish_push st ps carry :
  finish (fst (push_parts st ps)) (snd (push_parts st ps)) carry
  = finish (fst st) (snd st) (ps ++ carry).
Proof.
  destruct st as [[|f fs] root]; simpl; rewrite <- app_assoc; reflexivity.
Qed.

Lemma existsb_rev {A} (g : A -> bool) l : existsb g (rev l) = existsb g l.
Proof.
  induction l as [|x l IH]; simpl; [reflexivity|].
  rewrite existsb_app, IH. simpl. rewrite orb_false_r. apply orb_comm.
Qed.

Lemma existsb_names (g : str -> bool) fs :
  existsb (fun f => g (el_name (fr_el f))) fs = existsb g (names fs).
Proof.
  induction fs as [|f fs IH]; simpl; [reflexivity|]. rewrite IH. reflexivity.
Qed.

Lemma is_closer_names el fs parents : names fs = rev parents ->
  is_closer el fs
  = starts_with_slash (el_name el)
    && existsb (fun p => str_eqb p (trim_slashes (el_name el))) parents.
Proof.
  intros Hn. unfold is_closer. f_equal.
  rewrite (existsb_names (fun p => str_eqb p (trim_slashes (el_name el)))), Hn.
  apply existsb_rev.
Qed.

Lemma tree_S f ds de tokens cursor parts parents :
  tree (S f) ds de tokens cursor parts parents =
    match nth_error tokens cursor with
    | None => Ok (cursor + 1, parts, None)
    | Some t =>
      pel <- parse_token ds de t ;;
      match pel with
      | None => tree f ds de tokens (cursor + 1) (parts ++ [PText t]) parents
      | Some el =>
        if starts_with_slash (el_name el)
           && existsb (fun p => str_eqb p (trim_slashes (el_name el))) parents
        then Ok (cursor + 1, parts, Some (t, el))
        else
          '(new_cursor, children, end_part) <-
             tree f ds de tokens (cursor + 1) [] (parents ++ [el_name el]) ;;
          match end_part with
          | Some (end_token, end_el) =>
            if str_eqb (el_name el) (trim_slashes (el_name end_el))
            then tree f ds de tokens new_cursor
                      (parts ++ [PElem el t end_token children]) parents
            else Ok (new_cursor, parts ++ PText t :: children, Some (end_token, end_el))
          | None =>
            tree f ds de tokens new_cursor (parts ++ PText t :: children) parents
          end
      end
    end.
Proof. reflexivity. Qed.

Lemma tree_end f ds de tokens cursor parts parents : length tokens <= cursor ->
  tree (S f) ds de tokens cursor parts parents = Ok (cursor + 1, parts, None).
Proof.
  intros Hle. rewrite tree_S. apply nth_error_None in Hle. rewrite Hle. reflexivity.
Qed.

(** What a call of [tree] returns, in terms of the machine: for every machine state whose open
    frames carry the names [parents], running the machine over the consumed tokens is the same as
    adding the new parts to the innermost collection and then closing (resp. finishing). *)
Lemma tree_sim ds de tokens :
  (forall t, In t tokens -> exists o, parse_token ds de t = Ok o) ->
  forall fuel cursor parts parents,
  length tokens - cursor + 1 <= fuel ->
  exists cursor' new e,
    tree fuel ds de tokens cursor parts parents = Ok (cursor', parts ++ new, e) /\
    cursor < cursor' /\
    match e with
    | Some (t, el) =>
        existsb (fun p => str_eqb p (trim_slashes (el_name el))) parents = true /\
        forall st, names (fst st) = rev parents ->
          fold_left (mstep (cls_of ds de)) (seg tokens cursor cursor') st
          = close_frame (trim_slashes (el_name el)) t (fst st) (snd st) new
    | None =>
        length tokens < cursor' /\
        forall st, names (fst st) = rev parents ->
          finish_st (fold_left (mstep (cls_of ds de)) (seg tokens cursor cursor') st)
          = finish (fst st) (snd st) new
    end.
Proof.
  intros Hok. induction fuel as [|f IH]; intros cursor parts parents Hfuel; [lia|].
  rewrite tree_S. destruct (nth_error tokens cursor) as [t|] eqn:Hnth.
  - assert (Hlt : cursor < length tokens) by (apply nth_error_Some; congruence).
    destruct (Hok t (nth_error_In _ _ Hnth)) as [o Ho]. rewrite Ho. cbn [bind].
    assert (Hcls : cls_of ds de t = o) by (unfold cls_of; rewrite Ho; reflexivity).
    pose proof (seg_one _ _ _ Hnth) as Hseg1.
    destruct o as [el|].
    + destruct (starts_with_slash (el_name el)
                && existsb (fun p => str_eqb p (trim_slashes (el_name el))) parents) eqn:Hc.
      * (* a closing tag of an open ancestor *)
        exists (cursor + 1), [], (Some (t, el)).
        split; [rewrite app_nil_r; reflexivity|]. split; [lia|].
        split; [apply andb_true_iff in Hc; apply Hc|].
        intros st Hn. rewrite Hseg1. simpl. unfold mstep. rewrite Hcls.
        rewrite (is_closer_names _ _ _ Hn), Hc. reflexivity.
      * (* an opener *)
        assert (Hstep : forall st, names (fst st) = rev parents ->
                  mstep (cls_of ds de) st t = (mkFrame t el [] :: fst st, snd st) /\
                  names (mkFrame t el [] :: fst st) = rev (parents ++ [el_name el])).
        { intros st Hn. split.
          - unfold mstep. rewrite Hcls, (is_closer_names _ _ _ Hn), Hc. reflexivity.
          - rewrite rev_unit. simpl. rewrite Hn. reflexivity. }
        destruct (IH (cursor + 1) [] (parents ++ [el_name el]) ltac:(lia))
          as (c1 & ch & e1 & Ht1 & Hc1 & He1).
        rewrite Ht1. cbn [bind app].
        destruct e1 as [[t2 el2]|].
        -- destruct He1 as [Hex1 Hm1].
           destruct (str_eqb (el_name el) (trim_slashes (el_name el2))) eqn:Em.
           ++ (* closed by its own closing tag *)
              assert (Hmid : forall st, names (fst st) = rev parents ->
                        fold_left (mstep (cls_of ds de)) (seg tokens cursor c1) st
                        = push_parts st [PElem el t t2 ch]).
              { intros st Hn. destruct (Hstep st Hn) as [Hs1 Hs2].
                rewrite (seg_split tokens cursor (cursor + 1) c1) by lia.
                rewrite Hseg1. simpl. rewrite Hs1.
                rewrite (Hm1 (mkFrame t el [] :: fst st, snd st) Hs2). cbn [fst snd close_frame fr_el fr_tok fr_children app].
                rewrite Em. destruct st as [fs root]. reflexivity. }
              destruct (IH c1 (parts ++ [PElem el t t2 ch]) parents ltac:(lia))
                as (c2 & new2 & e2 & Ht2 & Hc2 & He2).
              exists c2, (PElem el t t2 ch :: new2), e2.
              split; [rewrite Ht2, <- app_assoc; reflexivity|]. split; [lia|].
              destruct e2 as [[t3 el3]|].
              ** destruct He2 as [Hex2 Hm2]. split; [exact Hex2|].
                 intros st Hn. rewrite (seg_split tokens cursor c1 c2) by lia.
                 rewrite fold_left_app, (Hmid st Hn).
                 rewrite Hm2 by (rewrite names_push; exact Hn).
                 rewrite close_push. reflexivity.
              ** destruct He2 as [Hlen2 Hm2]. split; [exact Hlen2|].
                 intros st Hn. rewrite (seg_split tokens cursor c1 c2) by lia.
                 rewrite fold_left_app, (Hmid st Hn).
                 rewrite Hm2 by (rewrite names_push; exact Hn).
                 rewrite finish_push. reflexivity.
           ++ (* the closing tag belongs to an outer ancestor: hoist *)
              exists c1, (PText t :: ch), (Some (t2, el2)).
              split; [reflexivity|]. split; [lia|]. split.
              { rewrite existsb_app in Hex1. simpl in Hex1. rewrite Em in Hex1.
                rewrite !orb_false_r in Hex1. exact Hex1. }
              intros st Hn. destruct (Hstep st Hn) as [Hs1 Hs2].
              rewrite (seg_split tokens cursor (cursor + 1) c1) by lia.
              rewrite Hseg1. simpl. rewrite Hs1.
              rewrite (Hm1 (mkFrame t el [] :: fst st, snd st) Hs2). cbn [fst snd close_frame fr_el fr_tok fr_children app].
              rewrite Em. reflexivity.
        -- (* end of input inside the element *)
           destruct He1 as [Hlen1 Hm1].
           destruct f as [|f']; [lia|].
           rewrite tree_end by lia.
           exists (c1 + 1), (PText t :: ch), None.
           split; [reflexivity|]. split; [lia|]. split; [lia|].
           intros st Hn. destruct (Hstep st Hn) as [Hs1 Hs2].
           rewrite (seg_split tokens cursor c1 (c1 + 1)) by lia.
           rewrite (seg_none tokens c1) by lia. rewrite app_nil_r.
           rewrite (seg_split tokens cursor (cursor + 1) c1) by lia.
           rewrite Hseg1. simpl. rewrite Hs1.
           rewrite (Hm1 (mkFrame t el [] :: fst st, snd st) Hs2). reflexivity.
    + (* a text token, or a tag that is not an element *)
      destruct (IH (cursor + 1) (parts ++ [PText t]) parents ltac:(lia))
        as (c2 & new2 & e2 & Ht2 & Hc2 & He2).
      assert (Hmid : forall st, mstep (cls_of ds de) st t = push_parts st [PText t]).
      { intros st. unfold mstep. rewrite Hcls. reflexivity. }
      exists c2, (PText t :: new2), e2.
      split; [rewrite Ht2, <- app_assoc; reflexivity|]. split; [lia|].
      destruct e2 as [[t3 el3]|].
      * destruct He2 as [Hex2 Hm2]. split; [exact Hex2|].
        intros st Hn. rewrite (seg_split tokens cursor (cursor + 1) c2) by lia.
        rewrite Hseg1. simpl. rewrite Hmid.
        rewrite Hm2 by (rewrite names_push; exact Hn).
        rewrite close_push. reflexivity.
      * destruct He2 as [Hlen2 Hm2]. split; [exact Hlen2|].
        intros st Hn. rewrite (seg_split tokens cursor (cursor + 1) c2) by lia.
        rewrite Hseg1. simpl. rewrite Hmid.
        rewrite Hm2 by (rewrite names_push; exact Hn).
        rewrite finish_push. reflexivity.
  - (* end of input *)
    apply nth_error_None in Hnth.
    exists (cursor + 1), [], None.
    split; [rewrite app_nil_r; reflexivity|]. split; [lia|]. split; [lia|].
    intros st Hn. rewrite seg_none by exact Hnth. reflexivity.
Qed.

(* C10 main theorem: whenever no tag parse panics, the model's tree is the stack machine's tree *)
Theorem parse_tree_stack : forall ds de tokens,
  (forall t, In t tokens -> exists o, parse_token ds de t = Ok o) ->
  parse_tree ds de tokens = Ok (stack_tree (cls_of ds de) tokens).
Proof.
  intros ds de tokens Hok. unfold parse_tree.
  destruct (tree_sim ds de tokens Hok (2 * length tokens + 2) 0 [] [] ltac:(lia))
    as (c & new & e & Ht & Hc & He).
  rewrite Ht. cbn [bind app].
  destruct e as [[t el]|].
  - destruct He as [Hex _]. simpl in Hex. discriminate.
  - destruct He as [Hlen Hm]. specialize (Hm ([], []) eq_refl).
    rewrite seg_all in Hm by lia.
    unfold stack_tree. unfold finish_st in Hm.
    destruct (fold_left (mstep (cls_of ds de)) tokens ([], [])) as [stack root].
    simpl in Hm. rewrite Hm. reflexivity.
Qed.

Corollary parse_tree_flatten : forall ds de tokens parts,
  (forall t, In t tokens -> exists o, parse_token ds de t = Ok o) ->
  parse_tree ds de tokens = Ok parts -> flatten parts = tokens.
Proof.
  intros ds de tokens parts Hok Hp.
  rewrite (parse_tree_stack ds de tokens Hok) in Hp. inversion Hp; subst.
  apply stack_tree_flatten.
Qed.

Print Assumptions parse_tree_stack.
Print Assumptions stack_tree_flatten.
Print Assumptions parse_tree_flatten.
Print Assumptions stack_tree_elements_wellformed.
