(** C18, stage 3: the whole pipeline on a rendering.  [clean] run on [render ds de doc] returns the
    rendering, with the same spelling, of a symbol list [a_clean cfg doc] that does not depend on
    the spelling of the delimiters. *)
From Coq Require Import List NArith ZArith Arith Bool Lia PeanoNat.
Import ListNotations.
From Chiri Require Import Base.Bytes Base.Res Model.Tokenizer Model.TagParser Model.TreeParser
     Model.Finders Model.Markers Model.Format Model.Clean
     Spec.Ranges Spec.Forest Spec.Rename Spec.Simulation
     Proofs.ResLemmas Proofs.Utf8 Proofs.MarkerProofs Proofs.RangeProofs Proofs.CollectProofs
     Proofs.FormatterProofs Proofs.FormatAssembly Proofs.CleanProofs
     Proofs.RenameProofs Proofs.SimFlat Proofs.SimStrings Proofs.SimFront Proofs.MonoMap.

(* ------------------------------------------------------------------------- *)
(** * The abstract pipeline *)

(** The removed positions over the residual symbol list (mirror of [get_removed_pos]). *)
Definition a_removed_pos (ams : list marker) : list (nat * option nat) :=
  map (fun m : marker => (sindex (map fst ams) (fst (fst m)), snd m)) ams.

(** The step of the fold of [format_ranges] (mirror of [fr_step]). *)
Definition a_fr_step (l : list sym) (arpos : list (nat * option nat))
           (acc : list (nat * nat) * list (nat * nat)) (pp : nat * option nat)
  : res (list (nat * nat) * list (nat * nat)) :=
  let '(ranges, open) := acc in
  let '(j, pair_idx) := pp in
  r <- a_format_block l j ;;
  let ranges := ranges ++ [r] in
  match pair_idx with
  | Some pi =>
    '(pair_start, _) <- index arpos pi ;;
    if j <? pair_start then Ok (ranges, open ++ a_block_indent l j pair_start)
    else Ok (ranges, open)
  | None => Ok (ranges, open)
  end.

(** Mirror of [format_ranges] over symbol indices. *)
Definition a_format_ranges (l : list sym) (arpos : list (nat * option nat)) : res (list (nat * nat)) :=
  '(ranges, open) <- foldM (a_fr_step l arpos) arpos ([], []) ;;
  ranges <- merge_ranges ranges (sort_ranges open) ;;
  Ok (merge_overlapped_ranges ranges).

(** The abstract cleaner: a function of the configuration and the document only. *)
Definition a_clean (cfg : config) (doc : list item) : res (list sym) :=
  ams <- merge_markers (fst (a_collect cfg doc false)) ;;
  let l' := sdelete (map fst ams) (flat doc) in
  aR <- a_format_ranges l' (a_removed_pos ams) ;;
  Ok (sdelete aR l').

(* ------------------------------------------------------------------------- *)
(** * The formatter stage on a rendered symbol list *)

Ltac unfold_ranges := unfold Format.range, Markers.range, Ranges.range in *.

Definition map_pp (f : nat -> nat) (pp : nat * option nat) : nat * option nat := (f (fst pp), snd pp).

Lemma ranges_le_Forall n (rs : list (nat * nat)) :
  Forall (fun r => fst r <= n /\ snd r <= n) rs -> ranges_le n rs.
Proof. intros H r Hin. rewrite Forall_forall in H. apply H. exact Hin. Qed.

Lemma fr_step_flat ds de l arpos ranges open j pi :
  sp_ok ds de -> nb_ok de l -> head_ok l ->
  (forall p, In p arpos -> fst p <= length l) ->
  j <= length l -> ranges_le (length l) ranges -> ranges_le (length l) open ->
  fr_step (rs ds de l) (map (map_pp (pos ds de l)) arpos)
          (map (map_range (pos ds de l)) ranges, map (map_range (pos ds de l)) open)
          (pos ds de l j, pi) =
  match a_fr_step l arpos (ranges, open) (j, pi) with
  | Ok ro => Ok (map (map_range (pos ds de l)) (fst ro), map (map_range (pos ds de l)) (snd ro))
  | Panic => Panic
  end /\
  (forall ro, a_fr_step l arpos (ranges, open) (j, pi) = Ok ro ->
              ranges_le (length l) (fst ro) /\ ranges_le (length l) (snd ro)).
Proof.
  intros Hsp Hnb Hh Hpos Hj Hr Ho.
  unfold fr_step, a_fr_step. unfold_ranges.
  rewrite (format_block_flat ds de l j Hsp Hh Hj).
  pose proof (a_format_block_in_len l j Hj) as Hin.
  destruct (a_format_block l j) as [[x y]|]; cbn [mapr bind];
    [|split; [reflexivity | intros ro H; discriminate H]].
  cbn [in_len] in Hin.
  assert (ranges_le (length l) (ranges ++ [(x, y)])) as Hr'.
  { apply ranges_le_app. split; [exact Hr|]. intros r [<-|[]]. exact Hin. }
  assert (map (map_range (pos ds de l)) ranges ++ [prange ds de l (x, y)] =
          map (map_range (pos ds de l)) (ranges ++ [(x, y)])) as E1.
  { rewrite map_app. reflexivity. }
  unfold_ranges. rewrite E1. clear E1.
  destruct pi as [pi|].
  2:{ split; [reflexivity|]. intros ro H. inversion H; subst. cbn [fst snd]. split; assumption. }
  rewrite index_map.
  destruct (index arpos pi) as [[ps q]|] eqn:Ei; cbn [bind];
    [|split; [reflexivity | intros ro H; discriminate H]].
  pose proof (Hpos _ (index_in _ _ _ Ei)) as Hps. cbn [fst] in Hps.
  unfold map_pp at 1. cbn [fst snd].
  rewrite (pos_ltb ds de l j ps (sp_ok_ne ds de Hsp) Hj Hps).
  destruct (j <? ps).
  2:{ split; [reflexivity|]. intros ro H. inversion H; subst. cbn [fst snd]. split; assumption. }
  rewrite (block_indent_flat ds de l j ps Hsp Hnb Hh Hj Hps). cbn [bind].
  pose proof (ranges_le_Forall _ _ (a_block_indent_in_len l j ps)) as Hbi.
  split.
  - cbn [fst snd]. rewrite !map_app. reflexivity.
  - intros ro H. inversion H; subst. cbn [fst snd]. split; [exact Hr'|].
    apply ranges_le_app. split; assumption.
Qed.

Lemma fr_fold_flat ds de l arpos :
  sp_ok ds de -> nb_ok de l -> head_ok l ->
  (forall p, In p arpos -> fst p <= length l) ->
  forall lst ranges open,
  (forall p, In p lst -> fst p <= length l) ->
  ranges_le (length l) ranges -> ranges_le (length l) open ->
  foldM (fr_step (rs ds de l) (map (map_pp (pos ds de l)) arpos))
        (map (map_pp (pos ds de l)) lst)
        (map (map_range (pos ds de l)) ranges, map (map_range (pos ds de l)) open) =
  match foldM (a_fr_step l arpos) lst (ranges, open) with
  | Ok ro => Ok (map (map_range (pos ds de l)) (fst ro), map (map_range (pos ds de l)) (snd ro))
  | Panic => Panic
  end /\
  (forall ro, foldM (a_fr_step l arpos) lst (ranges, open) = Ok ro ->
              ranges_le (length l) (fst ro) /\ ranges_le (length l) (snd ro)).
Proof.
  intros Hsp Hnb Hh Hpos lst. induction lst as [|[j pi] rest IH]; intros ranges open Hl Hr Ho.
  - cbn [map foldM]. split; [reflexivity|]. intros ro H. inversion H; subst. split; assumption.
  - cbn [map foldM]. unfold map_pp at 2. cbn [fst snd].
    pose proof (Hl (j, pi) (or_introl eq_refl)) as Hj. cbn [fst] in Hj.
    destruct (fr_step_flat ds de l arpos ranges open j pi Hsp Hnb Hh Hpos Hj Hr Ho) as [E L].
    rewrite E. clear E.
    destruct (a_fr_step l arpos (ranges, open) (j, pi)) as [[r o]|]; cbn [bind fst snd];
      [|split; [reflexivity | intros ro H; discriminate H]].
    destruct (L (r, o) eq_refl) as [Lr Lo]. cbn [fst snd] in Lr, Lo.
    apply IH; [|exact Lr | exact Lo].
    intros p Hin. apply Hl. right. exact Hin.
Qed.

Lemma merge_ranges_loop_le n : forall rev_new (rs : list (nat * nat)) cursor out,
  ranges_le n rs -> ranges_le n rev_new ->
  merge_ranges_loop rs cursor rev_new = Ok out -> ranges_le n out.
Proof.
  induction rev_new as [|nr rest IH]; intros rs cursor out Hrs Hnew H.
  - cbn [merge_ranges_loop] in H. inversion H; subst. exact Hrs.
  - apply ranges_le_cons in Hnew. destruct Hnew as [Hnr Hrest].
    cbn [merge_ranges_loop] in H. unfold_ranges.
    destruct (match cursor with Some c => seek rs c (fst nr) | None => Ok None end) as [cursor'|];
      cbn [bind] in H; [|discriminate H].
    destruct cursor' as [c|].
    + destruct (insert_at rs (c + 1) nr) as [o|] eqn:Ei; cbn [bind] in H; [|discriminate H].
      apply (IH o (Some c) out); [|exact Hrest | exact H].
      apply (insert_at_le n rs (c + 1) nr o Hrs Hnr Ei).
    + destruct (insert_at rs 0 nr) as [o|] eqn:Ei; cbn [bind] in H; [|discriminate H].
      apply (IH o None out); [|exact Hrest | exact H].
      apply (insert_at_le n rs 0 nr o Hrs Hnr Ei).
Qed.

Lemma merge_ranges_le n (rs new out : list (nat * nat)) :
  ranges_le n rs -> ranges_le n new -> merge_ranges rs new = Ok out -> ranges_le n out.
Proof.
  intros Hrs Hnew H. unfold merge_ranges in H. destruct rs as [|r0 rs'].
  - inversion H; subst. exact Hrs.
  - eapply (merge_ranges_loop_le n (rev new) (r0 :: rs')); [exact Hrs | | exact H].
    intros r Hin. apply Hnew. apply in_rev. exact Hin.
Qed.

Theorem format_ranges_flat ds de l arpos :
  sp_ok ds de -> nb_ok de l -> head_ok l ->
  (forall p, In p arpos -> fst p <= length l) ->
  format_ranges (rs ds de l) (map (map_pp (pos ds de l)) arpos) =
  match a_format_ranges l arpos with
  | Ok aR => Ok (map (map_range (pos ds de l)) aR)
  | Panic => Panic
  end.
Proof.
  intros Hsp Hnb Hh Hpos.
  pose proof (sp_ok_ne ds de Hsp) as [Nds Nde].
  pose proof (pos_mono_on ds de l Nds Nde) as Hf.
  rewrite format_ranges_unfold. unfold a_format_ranges.
  destruct (fr_fold_flat ds de l arpos Hsp Hnb Hh Hpos arpos [] [] Hpos
              (ranges_le_nil _) (ranges_le_nil _)) as [E L].
  cbn [map] in E. unfold_ranges. rewrite E. clear E.
  destruct (foldM (a_fr_step l arpos) arpos ([], [])) as [[ranges open]|]; cbn [bind fst snd];
    [|reflexivity].
  destruct (L (ranges, open) eq_refl) as [Lr Lo]. cbn [fst snd] in Lr, Lo.
  rewrite (sort_ranges_mono _ _ open Hf Lo).
  pose proof (sort_ranges_le _ _ Lo) as Lso.
  rewrite (merge_ranges_mono _ _ ranges (sort_ranges open) Hf Lr Lso).
  destruct (merge_ranges ranges (sort_ranges open)) as [merged|] eqn:Em; cbn [bind]; [|reflexivity].
  pose proof (merge_ranges_le _ _ _ _ Lr Lso Em) as Lm.
  rewrite (merge_overlapped_mono _ _ merged Hf Lm). reflexivity.
Qed.

(* ------------------------------------------------------------------------- *)
(** * Side conditions *)

Lemma Forall_app_inv {A} (Q : A -> Prop) (a b : list A) : Forall Q (a ++ b) -> Forall Q a /\ Forall Q b.
Proof. intros H. apply Forall_app in H. exact H. Qed.

Lemma rtree_positions_le n : forall t, Forall (fun p => p <= n) (rtree_positions t) -> rtree_le n t.
Proof.
  induction t as [[h cl] ch IH] using rtree_ind'. intros H.
  cbn [rtree_positions] in H. apply Forall_app_inv in H. destruct H as [Hr Hch].
  apply rtree_le_unfold. unfold rr_positions in Hr. cbn [fst snd] in Hr.
  inversion Hr as [|x1 l1 H1 Hr1]; subst. inversion Hr1 as [|x2 l2 H2 Hr2]; subst.
  split; [split; assumption|]. split.
  - destruct cl as [c|]; [|exact I].
    inversion Hr2 as [|x3 l3 H3 Hr3]; subst. inversion Hr3 as [|x4 l4 H4 Hr4]; subst.
    split; assumption.
  - clear Hr Hr1 Hr2 H1 H2. induction IH as [|c ch' Hc Hrest IH']; [constructor|].
    cbn [flat_map] in Hch. apply Forall_app_inv in Hch. destruct Hch as [Hc1 Hc2].
    constructor; [apply Hc; exact Hc1 | apply IH'; exact Hc2].
Qed.

Lemma forest_positions_le n : forall F, Forall (fun p => p <= n) (forest_positions F) ->
  Forall (rtree_le n) F.
Proof.
  induction F as [|t F IH]; intros H; [constructor|].
  unfold forest_positions in H. cbn [flat_map] in H. apply Forall_app_inv in H. destruct H as [H1 H2].
  constructor; [apply rtree_positions_le; exact H1 | apply IH; exact H2].
Qed.

(** The first symbol of a symbol list with a well-formed rendering is not a continuation byte. *)
Lemma wf_head_ok ds de l : wf_utf8 (rs ds de l) = true -> head_ok l.
Proof.
  intros H. destruct l as [|[c| |] l']; cbn [head_ok]; try exact I.
  apply wf_utf8_WF in H. cbn [rs flat_map rsym app] in H.
  apply (WF_head_not_cont c _ H).
Qed.

Lemma sindex_le R l a : a <= length l -> sindex R a <= length (sdelete R l).
Proof. intros H. rewrite length_sdelete. unfold sindex. apply rank_monotone. exact H. Qed.

(* ------------------------------------------------------------------------- *)
(** * The main theorem *)

(** The sharp form: under the premises the abstract cleaner does not panic. *)
Theorem clean_rendered_ok : forall cfg ds de doc,
  good_delims ds de -> good_doc ds de doc -> bodies_ok doc -> de_nb de ->
  exists l', a_clean cfg doc = Ok l' /\
             clean cfg ds de (render ds de doc) = Ok (rs ds de l').
Proof.
  intros cfg ds de doc Hgd Hdoc Hbod Hnb.
  pose proof (good_delims_sp_ok ds de Hgd) as Hsp.
  destruct (good_delims_ne ds de Hgd) as [Nds Nde].
  pose proof Hgd as (_ & _ & Wds & Wde & _).
  pose proof (render_wf ds de doc Hgd Hdoc) as Hs.
  destruct (collect_rendered cfg ds de doc false Hgd Hdoc Hbod) as (parts & Hf & Ec & _).
  destruct (markers_spec cfg ds de _ parts Hs Wds Wde Nds Nde Hf)
    as (ms & Em & Hsnf & Hbd & Hob & Hpc & _).
  pose proof (sorted_nonempty_sorted 0 _ Hsnf) as Hsorted.
  (* the abstract markers *)
  set (l := flat doc) in *.
  set (F := fst (a_collect cfg doc false)) in *.
  pose proof (pos_mono_on ds de l Nds Nde) as Hmono.
  assert (Forall (rtree_le (length l)) F) as HF.
  { apply forest_positions_le. apply (proj1 (a_collect_bound cfg doc false)). }
  pose proof Em as Em0.
  unfold markers_of in Em0. rewrite Hf in Em0. cbn [bind] in Em0.
  unfold build_remove_marker in Em0.
  rewrite Ec, (merge_markers_mono _ _ F Hmono HF) in Em0.
  destruct (merge_markers F) as [ams|] eqn:Eams; [|discriminate Em0].
  inversion Em0 as [Ems]. clear Em0.
  pose proof (merge_markers_le _ F ams HF Eams) as Hle.
  set (R := map fst ams).
  set (l' := sdelete R l).
  assert (map fst ms = map (map_range (pos ds de l)) R) as EfR.
  { rewrite <- Ems. apply map_fst_map_marker. }
  assert (render ds de doc = rs ds de l) as Es by (symmetry; apply rs_flat).
  (* as in [clean_run] *)
  set (P1 := in_rangesb (map fst ms)).
  set (removed := delete_ranges (map fst ms) (render ds de doc)).
  set (rpos := map (fun m : marker => (rank P1 (fst (fst m)), snd m)) ms).
  assert (Hwr : wf_utf8 removed = true) by (apply delete_ranges_wf; assumption).
  assert (Hp1 : forall p pi, In (p, pi) rpos -> p <= length removed /\ is_boundary removed p = true).
  { intros p pi Hin. unfold rpos in Hin. apply in_map_iff in Hin.
    destruct Hin as (m & Em' & Hm). inversion Em'; subst p pi.
    assert (Hr : In (fst m) (map fst ms)) by (apply in_map; exact Hm).
    destruct (Hob _ Hr) as [Ha _].
    pose proof (boundary_le _ _ Ha) as Hle'.
    split.
    - unfold removed, delete_ranges. rewrite delete_where_length. apply rank_monotone. exact Hle'.
    - apply delete_ranges_boundary; assumption. }
  assert (Hp2 : forall p pi, In (p, Some pi) rpos -> pi < length rpos).
  { intros p pi Hin. unfold rpos in *. rewrite map_length. apply in_map_iff in Hin.
    destruct Hin as (m & Em' & Hm). inversion Em' as [[E1 E2]].
    apply In_nth_error in Hm. destruct Hm as [k Hk].
    destruct m as [r o]. cbn [snd] in E2. subst o.
    destruct (Hpc k r pi Hk) as [_ (r' & Hn)].
    apply nth_error_Some. congruence. }
  destruct (format_spec removed rpos Hwr Hp1 Hp2) as (rs0 & Efr & _ & _ & _ & _ & Efmt & _).
  (* the removed text and the removed positions are renderings *)
  assert (removed = rs ds de l') as Erem.
  { unfold removed. rewrite EfR, Es. apply rs_sdelete_gen. }
  assert (rpos = map (map_pp (pos ds de l')) (a_removed_pos ams)) as Erpos.
  { unfold rpos, a_removed_pos, P1. rewrite EfR, <- Ems. rewrite !map_map. apply map_ext. intros m.
    unfold map_pp, map_marker. cbn [fst snd]. rewrite fst_map_range.
    fold R. rewrite pos_sdelete_gen. reflexivity. }
  assert (forall p, In p (a_removed_pos ams) -> fst p <= length l') as Hapos.
  { intros p Hin. unfold a_removed_pos in Hin. apply in_map_iff in Hin.
    destruct Hin as (m & <- & Hm). cbn [fst]. fold R. apply sindex_le.
    rewrite Forall_forall in Hle. apply (Hle m Hm). }
  assert (head_ok l') as Hh' by (apply (wf_head_ok ds de); rewrite <- Erem; exact Hwr).
  assert (nb_ok de l') as Hnb' by (left; exact Hnb).
  pose proof (format_ranges_flat ds de l' (a_removed_pos ams) Hsp Hnb' Hh' Hapos) as Eflat.
  rewrite <- Erem, <- Erpos, Efr in Eflat.
  destruct (a_format_ranges l' (a_removed_pos ams)) as [aR|] eqn:EaR; [|discriminate Eflat].
  inversion Eflat as [Ers0]. clear Eflat.
  exists (sdelete aR l'). split.
  - unfold a_clean. fold F. rewrite Eams. cbn [bind]. fold R. fold l. fold l'.
    rewrite EaR. reflexivity.
  - unfold clean. rewrite Em. cbn [bind].
    rewrite (remove_markers_ok _ ms Hsorted Hbd Hob Hs). cbn [bind].
    rewrite (get_removed_pos_ok ms Hsorted). cbn [bind].
    rewrite (removed_positions_rank ms Hsorted).
    change (format removed rpos = Ok (rs ds de (sdelete aR l'))). rewrite Efmt. f_equal.
    rewrite Ers0, Erem. apply rs_sdelete_gen.
Qed.

Theorem clean_rendered : forall cfg ds de doc,
  good_delims ds de -> good_doc ds de doc -> bodies_ok doc -> de_nb de ->
  clean cfg ds de (render ds de doc) =
  match a_clean cfg doc with Ok l' => Ok (rs ds de l') | Panic => Panic end.
Proof.
  intros cfg ds de doc Hgd Hdoc Hbod Hnb.
  destruct (clean_rendered_ok cfg ds de doc Hgd Hdoc Hbod Hnb) as (l' & Ea & Ec).
  rewrite Ea. exact Ec.
Qed.

Theorem clean_two_spellings : forall cfg dsA deA dsB deB doc,
  good_delims dsA deA -> good_delims dsB deB -> good_doc dsA deA doc -> good_doc dsB deB doc ->
  bodies_ok doc -> de_nb deA -> de_nb deB ->
  exists l', clean cfg dsA deA (render dsA deA doc) = Ok (rs dsA deA l') /\
             clean cfg dsB deB (render dsB deB doc) = Ok (rs dsB deB l').
Proof.
  intros cfg dsA deA dsB deB doc HgA HgB HdA HdB Hbod HnA HnB.
  destruct (clean_rendered_ok cfg dsA deA doc HgA HdA Hbod HnA) as (l' & Ea & EcA).
  exists l'. split; [exact EcA|].
  rewrite (clean_rendered cfg dsB deB doc HgB HdB Hbod HnB), Ea. reflexivity.
Qed.

(* ------------------------------------------------------------------------- *)
(** * Non-vacuity *)

(** A decidable form of the conditions on a document, for the example. *)
Definition item_bytes (i : item) : str := match i with Txt t => t | Tag b => b end.
Definition mem_b (b : byte) (x : str) : bool := existsb (N.eqb b) x.
Definition doc_checkb (ds de : str) (doc : list item) : bool :=
  forallb (fun i => forallb (fun b => negb (mem_b b ds) && negb (mem_b b de)) (item_bytes i)
                    && wf_utf8 (item_bytes i)) doc.

Lemma mem_b_false b x : mem_b b x = false -> ~ In b x.
Proof.
  intros H Hin. unfold mem_b in H.
  assert (existsb (N.eqb b) x = true) as E.
  { apply existsb_exists. exists b. split; [exact Hin | apply N.eqb_refl]. }
  rewrite E in H. discriminate H.
Qed.

Lemma doc_checkb_ok ds de doc : normal doc -> doc_checkb ds de doc = true -> good_doc ds de doc.
Proof.
  intros Hn H. unfold doc_checkb in H. rewrite forallb_forall in H.
  assert (forall i, In i doc -> disjoint_from ds de (item_bytes i) /\ wf_utf8 (item_bytes i) = true) as K.
  { intros i Hin. specialize (H i Hin). apply andb_prop in H. destruct H as [H1 H2]. split; [|exact H2].
    rewrite forallb_forall in H1. intros b Hb. specialize (H1 b Hb). apply andb_prop in H1.
    destruct H1 as [H3 H4]. apply negb_true_iff in H3, H4.
    split; apply mem_b_false; assumption. }
  split; [exact Hn|]. split; [|split].
  - intros i Hin. destruct (K i Hin) as [H1 _]. destruct i; exact H1.
  - intros t Hin. apply (K (Txt t) Hin).
  - intros b Hin. apply (K (Tag b) Hin).
Qed.

(** The example: ["a\n  " <rm name='f' unwrap-block> "\n    x\n    " <k> "\n    y\n  " </rm> "\n b"];
    the element is unwrapped (its first and last lines go) and the kept line is dedented. *)
Definition ex_cfg : config :=
  mkConfig [116;108]%N [43;48;48;58;48;48]%N 1000000000%Z [114;109]%N [[102]%N].
Definition ex_doc : list item :=
  [Txt [97;10;32;32]%N;
   Tag [114;109;32;110;97;109;101;61;39;102;39;32;117;110;119;114;97;112;45;98;108;111;99;107]%N;
   Txt [10;32;32;32;32;120;10;32;32;32;32]%N; Tag [107]%N; Txt [10;32;32;32;32;121;10;32;32]%N;
   Tag [47;114;109]%N; Txt [10;32;98]%N].
(** ["a\n  " <k> "\n b"] *)
Definition ex_out : list sym :=
  [B 97%N; B 10%N; B 32%N; B 32%N; DS; B 107%N; DE; B 10%N; B 32%N; B 98%N].

Example a_clean_example :
  a_clean ex_cfg ex_doc = Ok ex_out /\
  0 < length ex_out /\ length ex_out < length (flat ex_doc) /\
  clean ex_cfg [60;33]%N [62]%N (render [60;33]%N [62]%N ex_doc) = Ok (rs [60;33]%N [62]%N ex_out) /\
  clean ex_cfg [123;123]%N [125;125]%N (render [123;123]%N [125;125]%N ex_doc) = Ok (rs [123;123]%N [125;125]%N ex_out).
Proof.
  split; [vm_compute; reflexivity|].
  split; [vm_compute; lia|].
  split; [vm_compute; lia|].
  split; vm_compute; reflexivity.
Qed.

(** The premises of [clean_rendered] hold for the example with both spellings. *)
Example a_clean_example_premises :
  good_delims [60;33]%N [62]%N /\ good_delims [123;123]%N [125;125]%N /\
  good_doc [60;33]%N [62]%N ex_doc /\ good_doc [123;123]%N [125;125]%N ex_doc /\
  bodies_ok ex_doc /\ de_nb [62]%N /\ de_nb [125;125]%N.
Proof.
  assert (forall ds de, ds <> [] -> de <> [] -> wf_utf8 ds = true -> wf_utf8 de = true ->
            mem_b NL ds = false -> mem_b NL de = false ->
            match ds with b :: _ => is_ws b = false | [] => False end ->
            match rev de with b :: _ => is_ws b = false | [] => False end -> good_delims ds de) as G.
  { intros ds de H1 H2 H3 H4 H5 H6 H7 H8. unfold good_delims.
    repeat split; try assumption; apply mem_b_false; assumption. }
  assert (normal ex_doc) as Hn by (cbn; repeat split; discriminate).
  split; [apply G; try discriminate; vm_compute; reflexivity|].
  split; [apply G; try discriminate; vm_compute; reflexivity|].
  split; [apply doc_checkb_ok; [exact Hn | vm_compute; reflexivity]|].
  split; [apply doc_checkb_ok; [exact Hn | vm_compute; reflexivity]|].
  split.
  - intros b Hin. cbn in Hin.
    repeat (destruct Hin as [E|Hin]; [try discriminate E; inversion E; subst; cbn; lia|]).
    destruct Hin.
  - split; intros c E; inversion E; subst; vm_compute; reflexivity.
Qed.

Print Assumptions format_ranges_flat.
Print Assumptions clean_rendered_ok.
Print Assumptions clean_rendered.
Print Assumptions clean_two_spellings.
