(** Assembly, part 1: the parsed tree is ordered; [collect] yields a well-formed forest whose
    ranges are the extents; every extent endpoint is a character boundary. *)
From Coq Require Import List NArith ZArith Arith Bool Lia PeanoNat.
Import ListNotations.
From Chiri Require Import Base.Bytes Base.Res Model.Tokenizer Model.TagParser Model.TreeParser
     Model.Finders Model.Markers Model.Format Model.Clean
     Spec.Ranges Spec.Forest Spec.Extents Spec.Stack
     Proofs.ResLemmas Proofs.BytesLemmas Proofs.Utf8 Proofs.TokenizerProofs Proofs.TagProofs
     Proofs.TreeProofs Proofs.MarkerProofs Proofs.RangeProofs Proofs.FormatterProofs
     Proofs.C04Proofs.

(* ------------------------------------------------------------------------- *)
(** * 1. Ordered trees *)

(** The last byte position (exclusive) of a part. *)
Definition part_hi (p : part) : nat :=
  match p with PText t => tk_bend t | PElem _ _ et _ => tk_bend et end.

(** A part is ordered within [lo, hi]: every token is non-empty; a text token lies in [lo, hi];
    an element's opening token starts at or after [lo], its children follow the opening token in
    order and end at or before the start of the closing token, which ends at or before [hi]. *)
Fixpoint ordered_part (lo hi : nat) (p : part) {struct p} : Prop :=
  match p with
  | PText t => lo <= tk_bstart t /\ tk_bstart t < tk_bend t /\ tk_bend t <= hi
  | PElem el st et ch =>
    lo <= tk_bstart st /\ tk_bstart st < tk_bend st /\
    tk_bstart et < tk_bend et /\ tk_bend et <= hi /\
    (fix ordered_children (lo' : nat) (l : list part) {struct l} : Prop :=
       match l with
       | [] => lo' <= tk_bstart et
       | c :: l' => ordered_part lo' (tk_bstart et) c /\ ordered_children (part_hi c) l'
       end) (tk_bend st) ch
  end.

Fixpoint ordered_parts (lo hi : nat) (l : list part) : Prop :=
  match l with
  | [] => lo <= hi
  | c :: l' => ordered_part lo hi c /\ ordered_parts (part_hi c) hi l'
  end.

Lemma ordered_part_elem lo hi el st et ch :
  ordered_part lo hi (PElem el st et ch) <->
  (lo <= tk_bstart st /\ tk_bstart st < tk_bend st /\
   tk_bstart et < tk_bend et /\ tk_bend et <= hi /\
   ordered_parts (tk_bend st) (tk_bstart et) ch).
Proof.
  assert (Hch : forall l lo' hi',
    (fix ordered_children (lo' : nat) (l : list part) {struct l} : Prop :=
       match l with
       | [] => lo' <= hi'
       | c :: l' => ordered_part lo' hi' c /\ ordered_children (part_hi c) l'
       end) lo' l <-> ordered_parts lo' hi' l).
  { induction l as [|c l IH]; intros lo' hi'; [simpl; tauto|].
    cbn [ordered_parts]. rewrite <- IH. tauto. }
  cbn [ordered_part]. rewrite Hch. tauto.
Qed.

Lemma ordered_part_mono p lo hi lo' hi' :
  ordered_part lo hi p -> lo' <= lo -> hi <= hi' -> ordered_part lo' hi' p.
Proof.
  destruct p as [el st et ch | t]; intros H Hl Hh.
  - apply ordered_part_elem in H. apply ordered_part_elem.
    destruct H as (H1 & H2 & H3 & H4 & H5). repeat split; try assumption; lia.
  - cbn [ordered_part] in *. lia.
Qed.

Lemma ordered_parts_le_gen l :
  Forall (fun p => forall lo hi, ordered_part lo hi p -> lo < part_hi p /\ part_hi p <= hi) l ->
  forall lo hi, ordered_parts lo hi l -> lo <= hi.
Proof.
  induction 1 as [|c l Hc Hl IH]; intros lo hi H; cbn [ordered_parts] in H; [exact H|].
  destruct H as [H1 H2]. apply Hc in H1. apply IH in H2. lia.
Qed.

Lemma ordered_part_bounds p : forall lo hi,
  ordered_part lo hi p -> lo < part_hi p /\ part_hi p <= hi.
Proof.
  induction p as [t | el st et ch IH] using part_ind'; intros lo hi H.
  - cbn [ordered_part part_hi] in *. lia.
  - apply ordered_part_elem in H. destruct H as (H1 & H2 & H3 & H4 & H5).
    apply (ordered_parts_le_gen ch IH) in H5. cbn [part_hi]. lia.
Qed.

Lemma ordered_parts_le l : forall lo hi, ordered_parts lo hi l -> lo <= hi.
Proof.
  apply ordered_parts_le_gen. apply Forall_forall. intros p _. apply ordered_part_bounds.
Qed.

Lemma ordered_parts_mono l : forall lo hi lo' hi',
  ordered_parts lo hi l -> lo' <= lo -> hi <= hi' -> ordered_parts lo' hi' l.
Proof.
  induction l as [|c l IH]; intros lo hi lo' hi' H Hl Hh; cbn [ordered_parts] in *; [lia|].
  destruct H as [Hc Hr]. split.
  - eapply ordered_part_mono; eauto.
  - eapply IH; eauto.
Qed.

(** ** From the token chain to the ordering *)

Fixpoint bchain (b : nat) (ts : list token) : Prop :=
  match ts with [] => True | t :: r => tk_bstart t = b /\ bchain (tk_bend t) r end.

Lemma chained_bchain ts : forall b p, chained b p ts -> bchain b ts.
Proof.
  induction ts as [|t ts IH]; intros b p H; cbn [chained bchain] in *; [exact I|].
  destruct H as (H1 & _ & H3). split; [exact H1 | eapply IH; exact H3].
Qed.

Lemma last_bend_app l1 : forall l2 b, last_bend b (l1 ++ l2) = last_bend (last_bend b l1) l2.
Proof. induction l1 as [|t l1 IH]; intros l2 b; cbn [app last_bend]; [reflexivity | apply IH]. Qed.

Lemma bchain_app l1 : forall l2 b,
  bchain b (l1 ++ l2) <-> bchain b l1 /\ bchain (last_bend b l1) l2.
Proof.
  induction l1 as [|t l1 IH]; intros l2 b; cbn [app bchain last_bend]; [tauto|].
  rewrite IH. tauto.
Qed.

Definition nonempty_toks (ts : list token) : Prop := forall t, In t ts -> tk_bstart t < tk_bend t.

Lemma nonempty_toks_app l1 l2 : nonempty_toks (l1 ++ l2) <-> nonempty_toks l1 /\ nonempty_toks l2.
Proof.
  unfold nonempty_toks. split.
  - intros H. split; intros t Ht; apply H; apply in_or_app; auto.
  - intros [H1 H2] t Ht. apply in_app_or in Ht. destruct Ht; auto.
Qed.

Lemma last_bend_ge ts : forall b, bchain b ts -> nonempty_toks ts -> b <= last_bend b ts.
Proof.
  induction ts as [|t ts IH]; intros b Hc Hn; cbn [last_bend bchain] in *; [lia|].
  destruct Hc as [E Hc].
  assert (tk_bstart t < tk_bend t) by (apply Hn; left; reflexivity).
  specialize (IH (tk_bend t) Hc).
  assert (nonempty_toks ts) as Hn' by (intros x Hx; apply Hn; right; exact Hx).
  specialize (IH Hn'). lia.
Qed.

Definition chain_ordered (p : part) : Prop :=
  forall b, bchain b (flatten_part p) -> nonempty_toks (flatten_part p) ->
    ordered_part b (last_bend b (flatten_part p)) p /\
    part_hi p = last_bend b (flatten_part p).

Lemma flatten_cons c l : flatten (c :: l) = flatten_part c ++ flatten l.
Proof. reflexivity. Qed.

Lemma chain_ordered_list l : Forall chain_ordered l ->
  forall b, bchain b (flatten l) -> nonempty_toks (flatten l) ->
    ordered_parts b (last_bend b (flatten l)) l.
Proof.
  induction 1 as [|c l Hc Hl IH]; intros b Hb Hn.
  - cbn. lia.
  - rewrite flatten_cons in *. apply bchain_app in Hb. destruct Hb as [Hb1 Hb2].
    apply nonempty_toks_app in Hn. destruct Hn as [Hn1 Hn2].
    destruct (Hc b Hb1 Hn1) as [Ho Eh].
    rewrite last_bend_app. cbn [ordered_parts]. split.
    + eapply ordered_part_mono; [exact Ho | lia |].
      apply last_bend_ge; assumption.
    + rewrite Eh. apply IH; assumption.
Qed.

Lemma all_chain_ordered p : chain_ordered p.
Proof.
  induction p as [t | el st et ch IH] using part_ind'; intros b Hb Hn.
  - cbn [flatten_part bchain last_bend ordered_part part_hi] in *.
    destruct Hb as [E _]. assert (tk_bstart t < tk_bend t) by (apply Hn; left; reflexivity).
    split; [lia | reflexivity].
  - cbn [flatten_part] in *. fold (flatten ch) in *.
    cbn [bchain] in Hb. destruct Hb as [E Hb].
    apply bchain_app in Hb. destruct Hb as [Hb1 Hb2].
    cbn [bchain] in Hb2. destruct Hb2 as [E2 _].
    assert (Hst : tk_bstart st < tk_bend st) by (apply Hn; left; reflexivity).
    assert (Het : tk_bstart et < tk_bend et).
    { apply Hn. right. apply in_or_app. right. left. reflexivity. }
    assert (Hnc : nonempty_toks (flatten ch)).
    { intros x Hx. apply Hn. right. apply in_or_app. left. exact Hx. }
    cbn [last_bend part_hi]. rewrite last_bend_app. cbn [last_bend].
    split; [|reflexivity].
    apply ordered_part_elem. repeat split; try lia.
    rewrite E2. apply chain_ordered_list; assumption.
Qed.

Lemma chain_ordered_parts ps b :
  bchain b (flatten ps) -> nonempty_toks (flatten ps) ->
  ordered_parts b (last_bend b (flatten ps)) ps.
Proof.
  apply chain_ordered_list. apply Forall_forall. intros p _. apply all_chain_ordered.
Qed.

(** ** Tokens of elements are tokens of the document *)

Lemma elements_tokens_in p : forall el st et,
  In (el, st, et) (elements_of p) -> In st (flatten_part p) /\ In et (flatten_part p).
Proof.
  induction p as [t | el0 st0 et0 ch IH] using part_ind'; intros el st et H.
  - destruct H.
  - cbn [elements_of flatten_part] in *. destruct H as [H | H].
    + inversion H; subst. split; [left; reflexivity|].
      right. apply in_or_app. right. left. reflexivity.
    + apply in_flat_map in H. destruct H as (c & Hc & Hin).
      rewrite Forall_forall in IH. destruct (IH c Hc _ _ _ Hin) as [H1 H2].
      split; right; apply in_or_app; left; apply in_flat_map; exists c; split; assumption.
Qed.

Lemma all_elements_tokens_in ps el st et :
  In (el, st, et) (all_elements ps) -> In st (flatten ps) /\ In et (flatten ps).
Proof.
  unfold all_elements, flatten. intros H. apply in_flat_map in H. destruct H as (p & Hp & Hin).
  destruct (elements_tokens_in p _ _ _ Hin) as [H1 H2].
  split; apply in_flat_map; exists p; split; assumption.
Qed.

(** ** Well-formedness of token texts; totality of the front end *)

Lemma WF_sub s a b : WF s -> a <= b -> is_boundary s a = true -> is_boundary s b = true ->
  WF (sub s a b).
Proof.
  intros Hs Hab Ha Hb.
  pose proof (boundary_WF_skipn s a Hs Ha) as Wa.
  pose proof (boundary_WF_skipn s b Hs Hb) as Wb.
  eapply WF_prefix; [exact Wa | | exact Wb].
  symmetry. apply sub_skipn. exact Hab.
Qed.

Lemma token_ok_wf s ds de t : wf_utf8 s = true -> token_ok s ds de t -> wf_utf8 (tk_value t) = true.
Proof.
  intros Hs (H1 & H2 & H3 & H4 & H5 & _). apply wf_utf8_WF. rewrite H3.
  apply WF_sub; [apply wf_utf8_WF; exact Hs | lia | assumption | assumption].
Qed.

Lemma token_parse_ok s ds de t :
  wf_utf8 s = true -> wf_utf8 ds = true -> wf_utf8 de = true -> token_ok s ds de t ->
  exists o, parse_token ds de t = Ok o.
Proof.
  intros Hs Hds Hde Ht. unfold parse_token. destruct (tk_elem t).
  - apply parse_value_total; [exact (token_ok_wf s ds de t Hs Ht) | assumption | assumption].
  - eexists; reflexivity.
Qed.

Theorem front_end_total : forall ds de s,
  wf_utf8 s = true -> wf_utf8 ds = true -> wf_utf8 de = true -> ds <> [] -> de <> [] ->
  exists parts, front_end ds de s = Ok parts.
Proof.
  intros ds de s Hs Hds Hde Nds Nde.
  destruct (tokenize_total s ds de Hs Hds Hde Nds Nde) as [ts Hts].
  unfold front_end. rewrite Hts. cbn [bind].
  destruct (tokenize_partition s ds de ts Hts) as (_ & _ & _ & _ & Hok).
  eexists. apply parse_tree_stack. intros t Ht. exact (token_parse_ok s ds de t Hs Hds Hde (Hok t Ht)).
Qed.

Lemma front_end_inv ds de s parts :
  wf_utf8 s = true -> wf_utf8 ds = true -> wf_utf8 de = true ->
  front_end ds de s = Ok parts ->
  exists ts, tokenize s ds de = Ok ts /\ flatten parts = ts.
Proof.
  intros Hs Hds Hde H. unfold front_end in H. inv_bind H.
  exists v. split; [exact Hb|].
  destruct (tokenize_partition s ds de v Hb) as (_ & _ & _ & _ & Hok).
  eapply parse_tree_flatten; [|exact Hk].
  intros t Ht. exact (token_parse_ok s ds de t Hs Hds Hde (Hok t Ht)).
Qed.

Theorem front_end_ordered : forall ds de s parts,
  wf_utf8 s = true -> wf_utf8 ds = true -> wf_utf8 de = true -> ds <> [] -> de <> [] ->
  front_end ds de s = Ok parts -> ordered_parts 0 (length s) parts
  /\ (forall el st et, In (el, st, et) (all_elements parts) ->
        is_boundary s (tk_bstart st) = true /\ is_boundary s (tk_bend st) = true /\
        is_boundary s (tk_bstart et) = true /\ is_boundary s (tk_bend et) = true).
Proof.
  intros ds de s parts Hs Hds Hde Nds Nde H.
  destruct (front_end_inv ds de s parts Hs Hds Hde H) as (ts & Hts & Hfl).
  destruct (tokenize_partition s ds de ts Hts) as (_ & Hch & Hlast & _ & Hok).
  split.
  - rewrite <- Hlast, <- Hfl. apply chain_ordered_parts.
    + rewrite Hfl. eapply chained_bchain; exact Hch.
    + rewrite Hfl. intros t Ht. destruct (Hok t Ht) as (H1 & _). exact H1.
  - intros el st et Hin. apply all_elements_tokens_in in Hin. rewrite Hfl in Hin.
    destruct Hin as [H1 H2].
    destruct (Hok st H1) as (_ & _ & _ & Ha & Hb & _).
    destruct (Hok et H2) as (_ & _ & _ & Hc & Hd & _). auto.
Qed.

(* ------------------------------------------------------------------------- *)
(** * 2. [collect] *)

Definition cfst (cfg : config) (s : str) (pending : bool) (c : part) : list rtree :=
  fst (collect_part cfg s pending c).
Definition csnd (cfg : config) (s : str) (pending : bool) (c : part) : list rtree :=
  snd (collect_part cfg s pending c).

Lemma collect_fold cfg s pending l : forall acc,
  fold_left (collect_step cfg s pending) l acc =
  (fst acc ++ flat_map (cfst cfg s pending) l, snd acc ++ flat_map (csnd cfg s pending) l).
Proof.
  induction l as [|c l IH]; intros acc; cbn [fold_left flat_map].
  - rewrite !app_nil_r. destruct acc; reflexivity.
  - rewrite IH. unfold collect_step, cfst, csnd.
    destruct (collect_part cfg s pending c) as [x y]. cbn [fst snd].
    rewrite <- !app_assoc. reflexivity.
Qed.

Lemma collect_part_elem cfg s pending el st et children :
  collect_part cfg s pending (PElem el st et children) =
  match element_range cfg s pending el st et with
  | Some (r, true) => ([RT r (flat_map (cfst cfg s pending) children)],
                       flat_map (csnd cfg s pending) children)
  | Some (r, false) => (flat_map (cfst cfg s pending) children,
                        [RT r (flat_map (csnd cfg s pending) children)])
  | None => (flat_map (cfst cfg s pending) children, flat_map (csnd cfg s pending) children)
  end.
Proof.
  cbn [collect_part].
  change (fun acc c => let '(x, y) := collect_part cfg s pending c in (fst acc ++ x, snd acc ++ y))
    with (collect_step cfg s pending).
  rewrite collect_fold. reflexivity.
Qed.

Lemma collect_eq cfg s pending parts :
  collect cfg s pending parts =
  (flat_map (cfst cfg s pending) parts, flat_map (csnd cfg s pending) parts).
Proof.
  unfold collect.
  change (fun acc c => let '(x, y) := collect_part cfg s pending c in (fst acc ++ x, snd acc ++ y))
    with (collect_step cfg s pending).
  rewrite collect_fold. reflexivity.
Qed.

(** ** Monotonicity and concatenation of well-formed forests *)

Lemma wf_rtree_mono t lo hi lo' hi' :
  wf_rtree lo hi t -> lo' <= lo -> hi <= hi' -> wf_rtree lo' hi' t.
Proof.
  destruct t as [[h cl] ch]. intros H Hl Hh. apply wf_rtree_unfold in H. apply wf_rtree_unfold.
  destruct H as (H1 & H2 & H3 & H4 & H5).
  split; [lia|]. split; [exact H2|]. split; [lia|]. split; assumption.
Qed.

Lemma wf_forest_mono f : forall lo hi lo' hi',
  wf_forest lo hi f -> lo' <= lo -> hi <= hi' -> wf_forest lo' hi' f.
Proof.
  induction f as [|t f IH]; intros lo hi lo' hi' H Hl Hh; cbn [wf_forest] in *; [exact I|].
  destruct H as [Ht Hf]. split.
  - eapply wf_rtree_mono; eauto.
  - eapply IH; eauto.
Qed.

Lemma wf_forest_app f1 : forall f2 lo mid hi,
  lo <= mid -> mid <= hi -> wf_forest lo mid f1 -> wf_forest mid hi f2 ->
  wf_forest lo hi (f1 ++ f2).
Proof.
  induction f1 as [|t f1 IH]; intros f2 lo mid hi Hl Hh H1 H2; cbn [app].
  - eapply wf_forest_mono; eauto.
  - cbn [wf_forest] in *. destruct H1 as [Ht Hf]. split.
    + eapply wf_rtree_mono; eauto.
    + pose proof (wf_rtree_bounds _ _ _ Ht) as [Hb1 Hb2].
      eapply IH with (mid := mid); eauto.
Qed.

(** ** The shape of the range built for one element *)

Definition ub_end (content : str) (st : token) : option nat :=
  match find_next_lb content (tk_bend st) false with
  | Some pos => find_next_lb content (pos + 1) false
  | None => None
  end.
Definition ub_start (content : str) (et : token) : option nat :=
  match find_prev_lb content (tk_bstart et) false with
  | Some pos => find_prev_lb content pos false
  | None => None
  end.

Lemma unwrap_build_eq content st et :
  unwrap_build content st et =
  match ub_end content st, ub_start content et with
  | Some e, Some s =>
    if e <? s then ((tk_bstart st, e), Some (s + 1, tk_bend et))
    else if s =? e then ((tk_bstart st, tk_bend et), None)
    else ((tk_bstart st, tk_bstart st), None)
  | _, _ => ((tk_bstart st, tk_bstart st), None)
  end.
Proof. reflexivity. Qed.

Lemma ub_end_some content st e : ub_end content st = Some e ->
  tk_bend st < e /\ e < length content /\ is_boundary content e = true.
Proof.
  unfold ub_end. destruct (find_next_lb content (tk_bend st) false) as [p|] eqn:E; [|discriminate].
  intros E2. apply find_next_lb_some in E. apply find_next_lb_some in E2.
  destruct E as (A1 & _). destruct E2 as (B1 & B2 & _ & B4). repeat split; [lia | lia | exact B4].
Qed.

Lemma ub_start_some content et s' : ub_start content et = Some s' ->
  s' + 1 < tk_bstart et /\
  (wf_utf8 content = true -> is_boundary content (s' + 1) = true).
Proof.
  unfold ub_start. destruct (find_prev_lb content (tk_bstart et) false) as [p|] eqn:E; [|discriminate].
  intros E2. apply find_prev_lb_some in E. apply find_prev_lb_some in E2.
  destruct E as (A1 & _). destruct E2 as (B1 & B2 & B3 & B4). split; [lia|].
  intros Hw. rewrite Nat.add_1_r. apply after_nl_boundary; assumption.
Qed.

Lemma create_shape content el st et h cl :
  tk_bstart st < tk_bend st -> tk_bend st <= tk_bstart et -> tk_bstart et < tk_bend et ->
  create content el st et = (h, cl) ->
  fst h = tk_bstart st /\
  (fst h < snd h ->
   rr_hi (h, cl) = tk_bend et /\
   match cl with Some tl => snd h <= fst tl /\ fst tl < snd tl | None => True end).
Proof.
  intros Hst Hmid Het. unfold create. destruct (has_attr S_UNWRAP (el_attrs el)).
  - rewrite unwrap_build_eq.
    destruct (ub_end content st) as [e|] eqn:Ee.
    2:{ intros H; inversion H; subst; cbn [fst snd]. split; [reflexivity | lia]. }
    destruct (ub_start content et) as [s'|] eqn:Es.
    2:{ intros H; inversion H; subst; cbn [fst snd]. split; [reflexivity | lia]. }
    apply ub_end_some in Ee. apply ub_start_some in Es.
    destruct Ee as (E1 & E2 & _). destruct Es as (S1 & _).
    destruct (Nat.ltb_spec e s') as [L|L].
    + intros H; inversion H; subst; cbn [fst snd]. split; [reflexivity|].
      intros _. unfold rr_hi. cbn [fst snd]. split; [reflexivity | lia].
    + destruct (Nat.eqb_spec s' e) as [Q|Q];
        intros H; inversion H; subst; cbn [fst snd]; (split; [reflexivity|]).
      * intros _. unfold rr_hi. cbn [fst snd]. auto.
      * lia.
  - intros H; inversion H; subst; cbn [fst snd]. split; [reflexivity|].
    intros _. unfold rr_hi. cbn [fst snd]. auto.
Qed.

Lemma element_range_some cfg content pending el st et r b :
  element_range cfg content pending el st et = Some (r, b) ->
  r = create content el st et /\ fst (fst r) < snd (fst r).
Proof.
  unfold element_range.
  destruct (status cfg el) as [[|]|]; [| destruct pending |]; try discriminate;
    destruct (create content el st et) as [[a b'] cl];
    (destruct (Nat.ltb_spec a b') as [L|L]; [|discriminate]);
    intros H; inversion H; subst; cbn [fst snd]; auto.
Qed.

(** ** [collect] yields a well-formed forest *)

Definition collect_wf (cfg : config) (s : str) (pending : bool) (p : part) : Prop :=
  forall lo hi, ordered_part lo hi p -> wf_forest lo (part_hi p) (cfst cfg s pending p).

Lemma collect_wf_list cfg s pending l : Forall (collect_wf cfg s pending) l ->
  forall lo hi, ordered_parts lo hi l -> wf_forest lo hi (flat_map (cfst cfg s pending) l).
Proof.
  induction 1 as [|c l Hc Hl IH]; intros lo hi H; cbn [flat_map ordered_parts] in *; [exact I|].
  destruct H as [H1 H2]. pose proof (ordered_part_bounds c lo hi H1) as [B1 B2].
  apply wf_forest_app with (mid := part_hi c); [lia | lia | |].
  - apply (Hc lo hi H1).
  - apply IH. exact H2.
Qed.

Lemma all_collect_wf cfg s pending p : collect_wf cfg s pending p.
Proof.
  induction p as [t | el st et ch IH] using part_ind'; intros lo hi H.
  - exact I.
  - apply ordered_part_elem in H. destruct H as (H1 & H2 & H3 & H4 & H5).
    pose proof (ordered_parts_le _ _ _ H5) as Hmid.
    pose proof (collect_wf_list cfg s pending ch IH _ _ H5) as Hch.
    unfold cfst. rewrite collect_part_elem. cbn [part_hi].
    destruct (element_range cfg s pending el st et) as [[r [|]]|] eqn:E; cbn [fst].
    + apply element_range_some in E. destruct E as [Er Hne].
      destruct r as [h cl]. cbn [fst] in Hne. symmetry in Er.
      destruct (create_shape s el st et h cl H2 Hmid H3 Er) as [Eh Hsh].
      destruct (Hsh Hne) as [Ehi Hcl].
      cbn [wf_forest]. split; [|exact I].
      apply wf_rtree_unfold. rewrite Ehi, Eh in *.
      split; [lia|]. split; [exact Hne|]. split; [lia|]. split; [exact Hcl|].
      eapply wf_forest_mono; [exact Hch | lia | lia].
    + eapply wf_forest_mono; [exact Hch | lia | lia].
    + eapply wf_forest_mono; [exact Hch | lia | lia].
Qed.

Theorem collect_wf_forest : forall cfg s parts pending,
  wf_utf8 s = true -> ordered_parts 0 (length s) parts ->
  wf_forest 0 (length s) (fst (collect cfg s pending parts)).
Proof.
  intros cfg s parts pending _ H. rewrite collect_eq. cbn [fst].
  apply collect_wf_list; [|exact H].
  apply Forall_forall. intros p _. apply all_collect_wf.
Qed.

(** ** The ranges of the forest are the extents *)

Lemma forest_ranges_app a b : forest_ranges (a ++ b) = forest_ranges a ++ forest_ranges b.
Proof. unfold forest_ranges. apply flat_map_app. Qed.

Lemma flat_map_flat_map {A B C} (f : A -> list B) (g : B -> list C) l :
  flat_map g (flat_map f l) = flat_map (fun x => flat_map g (f x)) l.
Proof.
  induction l as [|x l IH]; cbn [flat_map]; [reflexivity|].
  rewrite flat_map_app, IH. reflexivity.
Qed.

Lemma flat_map_ext_Forall {A B} (f g : A -> list B) l :
  Forall (fun x => f x = g x) l -> flat_map f l = flat_map g l.
Proof.
  induction 1 as [|x l Hx Hl IH]; cbn [flat_map]; [reflexivity|]. rewrite Hx, IH. reflexivity.
Qed.

Lemma collect_part_ranges cfg s p :
  forest_ranges (cfst cfg s false p) = flat_map (element_extent cfg s) (elements_of p).
Proof.
  induction p as [t | el st et ch IH] using part_ind'; [reflexivity|].
  assert (Hch : forest_ranges (flat_map (cfst cfg s false) ch)
                = flat_map (element_extent cfg s) (flat_map elements_of ch)).
  { unfold forest_ranges at 1. rewrite !flat_map_flat_map.
    apply flat_map_ext_Forall. exact IH. }
  unfold cfst. rewrite collect_part_elem. cbn [elements_of flat_map].
  cbn [element_extent].
  destruct (element_range cfg s false el st et) as [[r [|]]|] eqn:E; cbn [fst].
  - unfold forest_ranges at 1. cbn [flat_map rtree_ranges]. rewrite app_nil_r.
    fold (forest_ranges (flat_map (cfst cfg s false) ch)). rewrite Hch. reflexivity.
  - exfalso. eapply element_range_false_not_pending; eauto.
  - cbn [app]. exact Hch.
Qed.

Theorem collect_ranges_are_extents : forall cfg s parts,
  forest_ranges (fst (collect cfg s false parts)) = extents cfg s parts.
Proof.
  intros cfg s parts. rewrite collect_eq. cbn [fst]. unfold extents, all_elements.
  unfold forest_ranges. rewrite !flat_map_flat_map.
  apply flat_map_ext_Forall. apply Forall_forall. intros p _. apply collect_part_ranges.
Qed.

(** ** Extent endpoints are character boundaries *)

Lemma create_boundaries content el st et :
  wf_utf8 content = true ->
  is_boundary content (tk_bstart st) = true -> is_boundary content (tk_bend et) = true ->
  on_boundaries content (rr_ranges (create content el st et)).
Proof.
  intros Hw Hs He. unfold create. destruct (has_attr S_UNWRAP (el_attrs el)).
  - rewrite unwrap_build_eq.
    destruct (ub_end content st) as [e|] eqn:Ee;
      [destruct (ub_start content et) as [s'|] eqn:Es|].
    + apply ub_end_some in Ee. apply ub_start_some in Es.
      destruct Ee as (_ & _ & Eb). destruct Es as (_ & Sb). specialize (Sb Hw).
      destruct (e <? s'); [|destruct (s' =? e)]; unfold rr_ranges; cbn [fst snd];
        intros r [<-|Hr]; cbn [fst snd]; auto; destruct Hr as [<-|[]]; cbn [fst snd]; auto.
    + unfold rr_ranges; cbn [fst snd]. intros r [<-|[]]; cbn [fst snd]; auto.
    + unfold rr_ranges; cbn [fst snd]. intros r [<-|[]]; cbn [fst snd]; auto.
  - unfold rr_ranges; cbn [fst snd]. intros r [<-|[]]; cbn [fst snd]; auto.
Qed.

Theorem extents_on_boundaries : forall cfg ds de s parts,
  wf_utf8 s = true -> wf_utf8 ds = true -> wf_utf8 de = true -> ds <> [] -> de <> [] ->
  front_end ds de s = Ok parts -> on_boundaries s (extents cfg s parts).
Proof.
  intros cfg ds de s parts Hs Hds Hde Nds Nde Hf.
  destruct (front_end_ordered ds de s parts Hs Hds Hde Nds Nde Hf) as [_ Hb].
  intros r Hr. unfold extents in Hr. apply in_flat_map in Hr.
  destruct Hr as ([[el st] et] & Hin & Hr). cbn [element_extent] in Hr.
  destruct (element_range cfg s false el st et) as [[r0 [|]]|] eqn:E;
    [| destruct Hr | destruct Hr].
  apply element_range_some in E. destruct E as [-> _].
  destruct (Hb el st et Hin) as (B1 & _ & _ & B4).
  exact (create_boundaries s el st et Hs B1 B4 r Hr).
Qed.
