(** C18, stage 4: the collection of removable ranges on the document of an abstract syntax tree.

    Part 1: [a_collect] on [doc_of f] is a structural recursion over the syntax tree.
    Part 2: without unwrap-block elements the ready forest is built from the spans of the ready
            nodes; its ranges, its well-formedness, the merged markers and the mask [del1].
    Part 3: the structure of the mask (constant on items, equal on the two tags of a node).
    Part 4: no ready node: nothing is collected and the abstract cleaner is the identity.
    Part 5: an instance. *)
From Coq Require Import List NArith ZArith Arith Bool Lia PeanoNat.
Import ListNotations.
From Chiri Require Import Base.Bytes Base.Res Model.Tokenizer Model.TagParser Model.TreeParser
  Model.Markers Model.Format Model.Clean Spec.Ranges Spec.Forest Spec.Rename Spec.Simulation
  Proofs.RangeProofs Proofs.MarkerProofs Proofs.CollectProofs
  Proofs.SimFlat Proofs.SimStrings Proofs.SimFront Proofs.MonoMap Proofs.SimClean
  Proofs.WellNested.

Ltac unfold_rg := unfold Format.range, Markers.range, Ranges.range in *.

(* ------------------------------------------------------------------------- *)
(** * Part 1: the collection as a structural recursion *)

Definition pair_app (r r' : list rtree * list rtree) : list rtree * list rtree :=
  (fst r ++ fst r', snd r ++ snd r').

(** What [a_collect_part] does at an element, given the collection of its children. *)
Definition collect_node (cfg : config) (doc : list item) (pending : bool)
           (el : element) (o c : nat) (chp : list rtree * list rtree) : list rtree * list rtree :=
  match a_element_range cfg doc pending el o c with
  | Some (r, true) => ([RT r (fst chp)], snd chp)
  | Some (r, false) => (fst chp, [RT r (snd chp)])
  | None => chp
  end.

Fixpoint ast_collect1 (cfg : config) (doc : list item) (pending : bool) (base : nat) (a : ast)
  : list rtree * list rtree :=
  match a with
  | AT _ => ([], [])
  | AC _ => ([], [])
  | AE b1 b2 kids =>
    collect_node cfg doc pending (el_of b1) base (S base + sizes kids)
      ((fix go (b : nat) (l : list ast) : list rtree * list rtree :=
          match l with
          | [] => ([], [])
          | x :: l' => pair_app (ast_collect1 cfg doc pending b x) (go (b + size x) l')
          end) (S base) kids)
  end.

Fixpoint ast_collect (cfg : config) (doc : list item) (pending : bool) (base : nat) (f : list ast)
  : list rtree * list rtree :=
  match f with
  | [] => ([], [])
  | x :: f' => pair_app (ast_collect1 cfg doc pending base x)
                        (ast_collect cfg doc pending (base + size x) f')
  end.

Lemma ast_collect1_AE cfg doc pending base b1 b2 kids :
  ast_collect1 cfg doc pending base (AE b1 b2 kids) =
  collect_node cfg doc pending (el_of b1) base (S base + sizes kids)
               (ast_collect cfg doc pending (S base) kids).
Proof.
  cbn [ast_collect1]. f_equal. generalize (S base). clear base.
  induction kids as [|x kids IH]; intros b; [reflexivity|].
  cbn [ast_collect]. rewrite <- IH. reflexivity.
Qed.

Definition part_pair (cfg : config) (doc : list item) (pending : bool) (ps : list apart)
  : list rtree * list rtree :=
  (flat_map (fun x => fst (a_collect_part cfg doc pending x)) ps,
   flat_map (fun x => snd (a_collect_part cfg doc pending x)) ps).

Lemma collect_forest_aux cfg doc pending f :
  Forall (fun a => forall base,
            a_collect_part cfg doc pending (atree1 base a) = ast_collect1 cfg doc pending base a) f ->
  forall base, part_pair cfg doc pending (atree_of base f) = ast_collect cfg doc pending base f.
Proof.
  induction 1 as [|x f Hx _ IH]; intros base; [reflexivity|].
  cbn [atree_of ast_collect]. rewrite <- IH, <- Hx. unfold part_pair, pair_app. cbn [flat_map fst snd].
  reflexivity.
Qed.

Lemma collect_part_atree1 cfg doc pending a : forall base,
  a_collect_part cfg doc pending (atree1 base a) = ast_collect1 cfg doc pending base a.
Proof.
  induction a as [t | b | b1 b2 kids IH] using ast_ind'; intros base; try reflexivity.
  rewrite atree1_AE, ast_collect1_AE. rewrite <- (collect_forest_aux cfg doc pending kids IH).
  cbn [a_collect_part]. unfold collect_node, part_pair. cbn [fst snd].
  destruct (a_element_range cfg doc pending (el_of b1) base (S base + sizes kids)) as [[r [|]]|];
    reflexivity.
Qed.

(** The collection on the mirror tree of a forest, for any document. *)
Theorem collect_atree cfg doc pending f base :
  part_pair cfg doc pending (atree_of base f) = ast_collect cfg doc pending base f.
Proof.
  apply collect_forest_aux. apply Forall_forall. intros a _. apply collect_part_atree1.
Qed.

(** (1) [a_collect] on the document of a well-formed forest. *)
Theorem a_collect_ast cfg pending f : Forall ast_ok f ->
  a_collect cfg (doc_of f) pending = ast_collect cfg (doc_of f) pending 0 f.
Proof.
  intros Hok. unfold a_collect. rewrite (astack_tree_ast f Hok).
  apply (collect_atree cfg (doc_of f) pending f 0).
Qed.

(* ------------------------------------------------------------------------- *)
(** * Part 2: the ready forest without unwrap-block elements *)

Definition node : Type := (str * str * nat * nat)%type.
Definition node_b1 (n : node) : str := match n with (b1, _, _, _) => b1 end.

(** A node is ready when the decision for its parsed opening tag is "remove now". *)
Definition ready (cfg : config) (n : node) : Prop := status cfg (el_of (node_b1 n)) = Some true.
Definition el_readyb (cfg : config) (b1 : str) : bool :=
  match status cfg (el_of b1) with Some true => true | _ => false end.
Definition readyb (cfg : config) (n : node) : bool := el_readyb cfg (node_b1 n).

Lemma readyb_spec cfg n : readyb cfg n = true <-> ready cfg n.
Proof.
  unfold readyb, el_readyb, ready. destruct (status cfg (el_of (node_b1 n))) as [[|]|];
    split; intros H; try reflexivity; discriminate H.
Qed.

(** No node of the list is an unwrap-block element. *)
Definition nu_nodes (ns : list node) : Prop :=
  forall n, In n ns -> has_attr S_UNWRAP (el_attrs (el_of (node_b1 n))) = false.
Definition no_unwrap (f : list ast) : Prop := nu_nodes (ast_nodes 0 f).

Lemma nu_nodes_app a b : nu_nodes (a ++ b) <-> nu_nodes a /\ nu_nodes b.
Proof.
  unfold nu_nodes. split.
  - intros H. split; intros n Hn; apply H; apply in_or_app; [left | right]; exact Hn.
  - intros [H1 H2] n Hn. apply in_app_or in Hn. destruct Hn as [Hn|Hn]; [apply H1 | apply H2]; exact Hn.
Qed.

(** The span of a node under a position function [F] on item indices (later [fstart doc]): from
    the first symbol of the opening tag to just after the last symbol of the closing tag. *)
Definition span_tree (cfg : config) (F : nat -> nat) (b1 : str) (o c : nat) (ch : list rtree)
  : list rtree :=
  if el_readyb cfg b1 && (F o <? F (S c)) then [RT ((F o, F (S c)), None) ch] else ch.

Fixpoint rforest1 (cfg : config) (F : nat -> nat) (base : nat) (a : ast) : list rtree :=
  match a with
  | AT _ => []
  | AC _ => []
  | AE b1 b2 kids =>
    span_tree cfg F b1 base (S base + sizes kids)
      ((fix go (b : nat) (l : list ast) : list rtree :=
          match l with
          | [] => []
          | x :: l' => rforest1 cfg F b x ++ go (b + size x) l'
          end) (S base) kids)
  end.

Fixpoint rforest (cfg : config) (F : nat -> nat) (base : nat) (f : list ast) : list rtree :=
  match f with
  | [] => []
  | x :: f' => rforest1 cfg F base x ++ rforest cfg F (base + size x) f'
  end.

Lemma rforest1_AE cfg F base b1 b2 kids :
  rforest1 cfg F base (AE b1 b2 kids) =
  span_tree cfg F b1 base (S base + sizes kids) (rforest cfg F (S base) kids).
Proof.
  cbn [rforest1]. f_equal. generalize (S base). clear base.
  induction kids as [|x kids IH]; intros b; [reflexivity|].
  cbn [rforest]. rewrite <- IH. reflexivity.
Qed.

Lemma a_element_range_nu cfg doc el o c : has_attr S_UNWRAP (el_attrs el) = false ->
  a_element_range cfg doc false el o c =
  if (match status cfg el with Some true => true | _ => false end)
     && (fstart doc o <? fstart doc (S c))
  then Some (((fstart doc o, fstart doc (S c)), None), true) else None.
Proof.
  intros H. unfold a_element_range, a_create. rewrite H.
  destruct (status cfg el) as [[|]|]; cbn [andb]; try reflexivity.
Qed.

Lemma collect_node_nu cfg doc b1 o c chp : has_attr S_UNWRAP (el_attrs (el_of b1)) = false ->
  fst (collect_node cfg doc false (el_of b1) o c chp) = span_tree cfg (fstart doc) b1 o c (fst chp).
Proof.
  intros H. unfold collect_node, span_tree, el_readyb. rewrite (a_element_range_nu cfg doc _ o c H).
  destruct (_ && _); reflexivity.
Qed.

Lemma rforest_forest_aux cfg doc f :
  Forall (fun a => forall base, nu_nodes (nodes1 base a) ->
            fst (ast_collect1 cfg doc false base a) = rforest1 cfg (fstart doc) base a) f ->
  forall base, nu_nodes (ast_nodes base f) ->
    fst (ast_collect cfg doc false base f) = rforest cfg (fstart doc) base f.
Proof.
  induction 1 as [|x f Hx _ IH]; intros base Hnu; [reflexivity|].
  cbn [ast_nodes] in Hnu. apply nu_nodes_app in Hnu. destruct Hnu as [N1 N2].
  cbn [ast_collect rforest]. unfold pair_app. cbn [fst]. rewrite (Hx base N1), (IH _ N2). reflexivity.
Qed.

Lemma rforest1_collect cfg doc a : forall base, nu_nodes (nodes1 base a) ->
  fst (ast_collect1 cfg doc false base a) = rforest1 cfg (fstart doc) base a.
Proof.
  induction a as [t | b | b1 b2 kids IH] using ast_ind'; intros base Hnu; try reflexivity.
  rewrite nodes1_AE in Hnu. rewrite ast_collect1_AE, rforest1_AE.
  rewrite collect_node_nu by (apply (Hnu (b1, b2, base, S base + sizes kids)); left; reflexivity).
  f_equal. apply (rforest_forest_aux cfg doc kids IH).
  intros n Hn. apply Hnu. right. exact Hn.
Qed.

(** Without unwrap-block elements the ready forest is the forest of the spans of the ready nodes. *)
Theorem rforest_collect cfg doc f base : nu_nodes (ast_nodes base f) ->
  fst (ast_collect cfg doc false base f) = rforest cfg (fstart doc) base f.
Proof.
  apply rforest_forest_aux. apply Forall_forall. intros a _. apply rforest1_collect.
Qed.

Corollary a_collect_rforest cfg f : Forall ast_ok f -> no_unwrap f ->
  fst (a_collect cfg (doc_of f) false) = rforest cfg (fstart (doc_of f)) 0 f.
Proof. intros Hok Hnu. rewrite (a_collect_ast cfg false f Hok). apply rforest_collect. exact Hnu. Qed.

(** ** The ranges of the forest of spans *)

Definition node_span (F : nat -> nat) (n : node) : nat * nat := (F (node_open n), F (S (node_close n))).

Definition ranges_are (cfg : config) (F : nat -> nat) (rs : list Ranges.range) (ns : list node) : Prop :=
  forall r, In r rs <->
    exists n, In n ns /\ readyb cfg n = true /\ F (node_open n) < F (S (node_close n)) /\
              r = node_span F n.

Lemma ranges_are_app cfg F r1 n1 r2 n2 :
  ranges_are cfg F r1 n1 -> ranges_are cfg F r2 n2 -> ranges_are cfg F (r1 ++ r2) (n1 ++ n2).
Proof.
  intros H1 H2 r. rewrite in_app_iff, (H1 r), (H2 r). split.
  - intros [(n & Hn & K)|(n & Hn & K)]; exists n; (split; [apply in_or_app | exact K]);
      [left | right]; exact Hn.
  - intros (n & Hn & K). apply in_app_or in Hn. destruct Hn as [Hn|Hn]; [left | right];
      exists n; (split; [exact Hn | exact K]).
Qed.

Lemma rforest_ranges_aux cfg F f :
  Forall (fun a => forall base,
            ranges_are cfg F (forest_ranges (rforest1 cfg F base a)) (nodes1 base a)) f ->
  forall base, ranges_are cfg F (forest_ranges (rforest cfg F base f)) (ast_nodes base f).
Proof.
  induction 1 as [|x f Hx _ IH]; intros base.
  - intros r. cbn. split; [intros [] | intros (n & [] & _)].
  - cbn [rforest ast_nodes]. rewrite forest_ranges_app. apply ranges_are_app; [apply Hx | apply IH].
Qed.

Lemma rforest1_ranges cfg F a : forall base,
  ranges_are cfg F (forest_ranges (rforest1 cfg F base a)) (nodes1 base a).
Proof.
  induction a as [t | b | b1 b2 kids IH] using ast_ind'; intros base.
  - intros r. cbn. split; [intros [] | intros (n & [] & _)].
  - intros r. cbn. split; [intros [] | intros (n & [] & _)].
  - rewrite rforest1_AE, nodes1_AE.
    pose proof (rforest_ranges_aux cfg F kids IH (S base)) as Hk.
    set (n0 := (b1, b2, base, S base + sizes kids) : node).
    unfold span_tree. intros r.
    destruct (el_readyb cfg b1 && (F base <? F (S (S base + sizes kids)))) eqn:E.
    + apply andb_true_iff in E. destruct E as [E1 E2]. apply Nat.ltb_lt in E2.
      unfold forest_ranges at 1. cbn [flat_map rtree_ranges rr_ranges fst snd app].
      rewrite app_nil_r. fold (forest_ranges (rforest cfg F (S base) kids)). split.
      * intros [<-|Hr].
        -- exists n0. split; [left; reflexivity|]. split; [exact E1|]. split; [exact E2 | reflexivity].
        -- apply Hk in Hr. destruct Hr as (n & Hn & K). exists n. split; [right; exact Hn | exact K].
      * intros (n & [<-|Hn] & K).
        -- left. destruct K as (_ & _ & ->). reflexivity.
        -- right. apply Hk. exists n. split; [exact Hn | exact K].
    + rewrite (Hk r). split.
      * intros (n & Hn & K). exists n. split; [right; exact Hn | exact K].
      * intros (n & [<-|Hn] & K).
        -- exfalso. destruct K as (K1 & K2 & _). unfold readyb in K1. cbn [node_b1 n0] in K1.
           cbn [node_open node_close n0] in K2. apply Nat.ltb_lt in K2. rewrite K1, K2 in E.
           discriminate E.
        -- exists n. split; [exact Hn | exact K].
Qed.

Theorem rforest_ranges cfg F f base :
  ranges_are cfg F (forest_ranges (rforest cfg F base f)) (ast_nodes base f).
Proof.
  apply rforest_ranges_aux. apply Forall_forall. intros a _. apply rforest1_ranges.
Qed.

(** A position lies in the span of a ready node. *)
Definition in_ready_span (cfg : config) (F : nat -> nat) (ns : list node) (i : nat) : Prop :=
  exists n, In n ns /\ ready cfg n /\ F (node_open n) <= i < F (S (node_close n)).

Lemma rforest_in_ranges cfg F f base i :
  in_ranges (forest_ranges (rforest cfg F base f)) i <-> in_ready_span cfg F (ast_nodes base f) i.
Proof.
  unfold in_ranges, in_ready_span. split.
  - intros (r & Hr & Hi). apply rforest_ranges in Hr. destruct Hr as (n & Hn & R & _ & ->).
    exists n. split; [exact Hn|]. split; [apply readyb_spec; exact R|].
    unfold in_range, node_span in Hi. cbn [fst snd] in Hi. exact Hi.
  - intros (n & Hn & R & Hi). exists (node_span F n). split.
    + apply rforest_ranges. exists n. split; [exact Hn|]. split; [apply readyb_spec; exact R|].
      split; [lia | reflexivity].
    + unfold in_range, node_span. cbn [fst snd]. exact Hi.
Qed.

(** (2) The ranges of the ready forest are the spans of the ready nodes. *)
Theorem a_collect_ranges cfg f : Forall ast_ok f -> no_unwrap f ->
  forall i, in_ranges (forest_ranges (fst (a_collect cfg (doc_of f) false))) i <->
    exists n, In n (ast_nodes 0 f) /\ ready cfg n /\
              fstart (doc_of f) (node_open n) <= i < fstart (doc_of f) (S (node_close n)).
Proof.
  intros Hok Hnu i. rewrite (a_collect_rforest cfg f Hok Hnu). apply rforest_in_ranges.
Qed.

(** ** Well-formedness of the forest of spans *)

(** The two facts about [fstart doc] that are used: it is monotone, and it increases strictly
    across the two tags of every node (a tag has at least two symbols). *)
Definition mono (F : nat -> nat) : Prop := forall i j, i <= j -> F i <= F j.
Definition tag_strict (F : nat -> nat) (ns : list node) : Prop :=
  forall n, In n ns -> F (node_open n) < F (S (node_open n)) /\ F (node_close n) < F (S (node_close n)).

Lemma tag_strict_app F a b : tag_strict F (a ++ b) <-> tag_strict F a /\ tag_strict F b.
Proof.
  unfold tag_strict. split.
  - intros H. split; intros n Hn; apply H; apply in_or_app; [left | right]; exact Hn.
  - intros [H1 H2] n Hn. apply in_app_or in Hn. destruct Hn as [Hn|Hn]; [apply H1 | apply H2]; exact Hn.
Qed.

Lemma wf_rforest_aux cfg F f : mono F ->
  Forall (fun a => forall base lo hi, tag_strict F (nodes1 base a) ->
            lo <= F base -> F (base + size a) <= hi -> wf_forest lo hi (rforest1 cfg F base a)) f ->
  forall base lo hi, tag_strict F (ast_nodes base f) ->
    lo <= F base -> F (base + sizes f) <= hi -> wf_forest lo hi (rforest cfg F base f).
Proof.
  intros HF. induction 1 as [|x f Hx _ IH]; intros base lo hi Hs Hlo Hhi; [exact I|].
  cbn [ast_nodes] in Hs. apply tag_strict_app in Hs. destruct Hs as [S1 S2].
  rewrite sizes_cons in Hhi. cbn [rforest].
  pose proof (HF base (base + size x) ltac:(lia)).
  pose proof (HF (base + size x) (base + (size x + sizes f)) ltac:(lia)).
  apply (wf_forest_app _ _ lo (F (base + size x)) hi); try lia.
  - apply Hx; [exact S1 | exact Hlo | lia].
  - apply IH; [exact S2 | lia | rewrite <- Nat.add_assoc; exact Hhi].
Qed.

Lemma wf_rforest1 cfg F a : mono F -> forall base lo hi, tag_strict F (nodes1 base a) ->
  lo <= F base -> F (base + size a) <= hi -> wf_forest lo hi (rforest1 cfg F base a).
Proof.
  intros HF. induction a as [t | b | b1 b2 kids IH] using ast_ind'; intros base lo hi Hs Hlo Hhi;
    try exact I.
  rewrite nodes1_AE in Hs. rewrite rforest1_AE.
  destruct (Hs (b1, b2, base, S base + sizes kids) (or_introl eq_refl)) as [So Sc].
  cbn [node_open node_close] in So, Sc.
  assert (tag_strict F (ast_nodes (S base) kids)) as Sk by (intros n Hn; apply Hs; right; exact Hn).
  cbn [size] in Hhi. fold (sizes kids) in Hhi.
  replace (base + S (S (sizes kids))) with (S (S base + sizes kids)) in Hhi by lia.
  pose proof (wf_rforest_aux cfg F kids HF IH (S base)) as Hk.
  pose proof (HF (S base) (S base + sizes kids) ltac:(lia)) as M1.
  unfold span_tree. destruct (el_readyb cfg b1 && (F base <? F (S (S base + sizes kids)))) eqn:E.
  - apply andb_true_iff in E. destruct E as [_ E2]. apply Nat.ltb_lt in E2.
    cbn [wf_forest]. split; [|exact I]. apply wf_rtree_unfold. unfold rr_hi. cbn [fst snd].
    split; [exact Hlo|]. split; [exact E2|]. split; [exact Hhi|]. split; [exact I|].
    apply Hk; [exact Sk | lia | lia].
  - apply Hk; [exact Sk | lia | lia].
Qed.

Theorem wf_rforest cfg F f base lo hi : mono F -> tag_strict F (ast_nodes base f) ->
  lo <= F base -> F (base + sizes f) <= hi -> wf_forest lo hi (rforest cfg F base f).
Proof.
  intros HF. apply (wf_rforest_aux cfg F f HF). apply Forall_forall. intros a _.
  apply (wf_rforest1 cfg F a HF).
Qed.

(** ** [fstart] is monotone, and strict across tags *)

Lemma fstart_mono doc : mono (fstart doc).
Proof.
  intros i j Hij. replace (fstart doc i) with (fstart (firstn j doc) i).
  - apply (fstart_le (firstn j doc) i).
  - unfold fstart. rewrite firstn_firstn, Nat.min_l by exact Hij. reflexivity.
Qed.

Lemma fstart_0 doc : fstart doc 0 = 0.
Proof. reflexivity. Qed.

Lemma fstart_tag doc i b : nth_error doc i = Some (Tag b) ->
  fstart doc (S i) = fstart doc i + length b + 2.
Proof. intros H. rewrite (fstart_S doc i _ H), flat_item_len. lia. Qed.

Lemma ast_tag_strict f : tag_strict (fstart (doc_of f)) (ast_nodes 0 f).
Proof.
  intros n Hn. pose proof (ast_nodes_at f 0 n Hn) as Ha. destruct n as [[[b1 b2] o] c].
  destruct Ha as (i & j & -> & -> & _ & Hi & Hj). cbn [node_open node_close Nat.add].
  rewrite (fstart_tag _ _ _ Hi), (fstart_tag _ _ _ Hj). lia.
Qed.

(** (3) The ready forest is well formed. *)
Theorem a_collect_wf cfg f : Forall ast_ok f -> no_unwrap f ->
  wf_forest 0 (length (flat (doc_of f))) (fst (a_collect cfg (doc_of f) false)).
Proof.
  intros Hok Hnu. rewrite (a_collect_rforest cfg f Hok Hnu).
  apply wf_rforest; [apply fstart_mono | apply ast_tag_strict | lia |].
  cbn [Nat.add]. rewrite <- sizes_doc. rewrite fstart_all by lia. lia.
Qed.

(** ** The merged markers and the mask *)

Definition span_hasb (F : nat -> nat) (n : node) (i : nat) : bool :=
  (F (node_open n) <=? i) && (i <? F (S (node_close n))).

(** The mask over a position function, and the mask of a forest: position [i] of [flat (doc_of f)]
    lies in the span of a ready node. *)
Definition del_mask (cfg : config) (F : nat -> nat) (ns : list node) (i : nat) : bool :=
  existsb (fun n => readyb cfg n && span_hasb F n i) ns.
Definition del1 (cfg : config) (f : list ast) (i : nat) : bool :=
  del_mask cfg (fstart (doc_of f)) (ast_nodes 0 f) i.

Lemma del_mask_spec cfg F ns i : del_mask cfg F ns i = true <-> in_ready_span cfg F ns i.
Proof.
  unfold del_mask, in_ready_span, span_hasb. rewrite existsb_exists. split.
  - intros (n & Hn & H). apply andb_true_iff in H. destruct H as [R H].
    apply andb_true_iff in H. destruct H as [H1 H2]. apply Nat.leb_le in H1. apply Nat.ltb_lt in H2.
    exists n. split; [exact Hn|]. split; [apply readyb_spec; exact R | lia].
  - intros (n & Hn & R & H). exists n. split; [exact Hn|]. apply andb_true_iff. split.
    + apply readyb_spec. exact R.
    + apply andb_true_iff. split; [apply Nat.leb_le | apply Nat.ltb_lt]; lia.
Qed.

Lemma del1_spec cfg f i : del1 cfg f i = true <->
  exists n, In n (ast_nodes 0 f) /\ ready cfg n /\
            fstart (doc_of f) (node_open n) <= i < fstart (doc_of f) (S (node_close n)).
Proof. apply del_mask_spec. Qed.

(** [sdel_from] only looks at the predicate pointwise. *)
Lemma sdel_from_ext P Q : (forall i, P i = Q i) -> forall l k, sdel_from k P l = sdel_from k Q l.
Proof.
  intros H. induction l as [|x l IH]; intros k; [reflexivity|].
  cbn [sdel_from]. rewrite (H k), (IH (S k)). reflexivity.
Qed.

(** (4) The merged markers of the ready forest: they exist, are sorted, non-empty and bounded, and
    cover exactly the mask. *)
Theorem a_collect_markers cfg f : Forall ast_ok f -> no_unwrap f ->
  exists ams, merge_markers (fst (a_collect cfg (doc_of f) false)) = Ok ams /\
    sorted_nonempty_from 0 (map fst ams) /\
    bounded_by (length (flat (doc_of f))) (map fst ams) /\
    (forall i, in_rangesb (map fst ams) i = true <->
       exists n, In n (ast_nodes 0 f) /\ ready cfg n /\
                 fstart (doc_of f) (node_open n) <= i < fstart (doc_of f) (S (node_close n))) /\
    (forall i, in_rangesb (map fst ams) i = del1 cfg f i) /\
    sdelete (map fst ams) (flat (doc_of f)) = sdel_from 0 (del1 cfg f) (flat (doc_of f)).
Proof.
  intros Hok Hnu.
  destruct (merge_markers_spec _ 0 _ (a_collect_wf cfg f Hok Hnu)) as (ams & E & S1 & B1 & P1 & _).
  assert (forall i, in_rangesb (map fst ams) i = true <->
       exists n, In n (ast_nodes 0 f) /\ ready cfg n /\
                 fstart (doc_of f) (node_open n) <= i < fstart (doc_of f) (S (node_close n))) as K.
  { intros i. rewrite in_rangesb_spec, (P1 i). apply a_collect_ranges; assumption. }
  assert (forall i, in_rangesb (map fst ams) i = del1 cfg f i) as K'.
  { intros i. apply eq_true_iff_eq. rewrite (K i). symmetry. apply del1_spec. }
  exists ams. repeat split; try assumption; try (apply K).
  unfold sdelete. apply sdel_from_ext. exact K'.
Qed.

(* ------------------------------------------------------------------------- *)
(** * Part 3: the structure of the mask *)

(** ** The spans of the nodes of a forest are nested or disjoint *)

(** Two nodes are equal in their indices, strictly nested, or disjoint (over item indices). *)
Definition laminar (n m : node) : Prop :=
  node_close n < node_open m \/ node_close m < node_open n \/
  (node_open m < node_open n /\ node_close n < node_close m) \/
  (node_open n < node_open m /\ node_close m < node_close n) \/
  (node_open n = node_open m /\ node_close n = node_close m).

Lemma nodes1_range a base n : In n (nodes1 base a) ->
  base <= node_open n /\ node_open n < node_close n /\ node_close n < base + size a.
Proof. intros H. rewrite <- size_items. apply node_at_range. apply nodes1_at. exact H. Qed.

Lemma ast_nodes_range' f base n : In n (ast_nodes base f) ->
  base <= node_open n /\ node_open n < node_close n /\ node_close n < base + sizes f.
Proof. intros H. rewrite <- sizes_doc. apply ast_nodes_range. exact H. Qed.

Lemma laminar_forest_aux f :
  Forall (fun a => forall base n m, In n (nodes1 base a) -> In m (nodes1 base a) -> laminar n m) f ->
  forall base n m, In n (ast_nodes base f) -> In m (ast_nodes base f) -> laminar n m.
Proof.
  induction 1 as [|x f Hx _ IH]; intros base n m Hn Hm; [destruct Hn|].
  cbn [ast_nodes] in Hn, Hm. apply in_app_or in Hn. apply in_app_or in Hm.
  destruct Hn as [Hn|Hn], Hm as [Hm|Hm].
  - apply (Hx base); assumption.
  - apply nodes1_range in Hn. apply ast_nodes_range' in Hm. left. lia.
  - apply ast_nodes_range' in Hn. apply nodes1_range in Hm. right. left. lia.
  - apply (IH (base + size x)); assumption.
Qed.

Lemma laminar_nodes1 a : forall base n m, In n (nodes1 base a) -> In m (nodes1 base a) -> laminar n m.
Proof.
  induction a as [t | b | b1 b2 kids IH] using ast_ind'; intros base n m Hn Hm;
    [destruct Hn | destruct Hn |].
  rewrite nodes1_AE in Hn, Hm. destruct Hn as [<-|Hn], Hm as [<-|Hm].
  - do 4 right. split; reflexivity.
  - apply ast_nodes_range' in Hm. unfold laminar. cbn [node_open node_close]. do 3 right. left. lia.
  - apply ast_nodes_range' in Hn. unfold laminar. cbn [node_open node_close]. right. right. left. lia.
  - apply (laminar_forest_aux kids IH (S base)); assumption.
Qed.

Theorem ast_nodes_laminar f base n m :
  In n (ast_nodes base f) -> In m (ast_nodes base f) -> laminar n m.
Proof.
  apply laminar_forest_aux. apply Forall_forall. intros a _. apply laminar_nodes1.
Qed.

(** ** The mask over item indices *)

(** Item [i] lies between the two tags of node [n] (inclusive). *)
Definition node_hasb (n : node) (i : nat) : bool := (node_open n <=? i) && (i <=? node_close n).

(** Item [i] belongs to a ready node. *)
Definition item_mask (cfg : config) (ns : list node) (i : nat) : bool :=
  existsb (fun n => readyb cfg n && node_hasb n i) ns.
Definition idel1 (cfg : config) (f : list ast) (i : nat) : bool := item_mask cfg (ast_nodes 0 f) i.

(** A symbol of item [i] lies in the span of a node iff the item lies between its two tags: this
    needs monotonicity only. *)
Lemma span_hasb_item F n i p : mono F -> F i <= p < F (S i) -> span_hasb F n p = node_hasb n i.
Proof.
  intros HF Hp. unfold span_hasb, node_hasb.
  destruct (Nat.leb_spec (node_open n) i) as [H1|H1].
  - pose proof (HF _ _ H1). destruct (Nat.leb_spec i (node_close n)) as [H2|H2].
    + pose proof (HF (S i) (S (node_close n)) ltac:(lia)).
      destruct (Nat.leb_spec (F (node_open n)) p); [|lia].
      destruct (Nat.ltb_spec p (F (S (node_close n)))); [reflexivity | lia].
    + pose proof (HF (S (node_close n)) i ltac:(lia)).
      destruct (Nat.ltb_spec p (F (S (node_close n)))); [lia|]. apply andb_false_r.
  - pose proof (HF (S i) (node_open n) ltac:(lia)).
    destruct (Nat.leb_spec (F (node_open n)) p); [lia | reflexivity].
Qed.

Lemma existsb_ext_in {A} (g h : A -> bool) l : (forall x, In x l -> g x = h x) -> existsb g l = existsb h l.
Proof.
  induction l as [|x l IH]; intros H; [reflexivity|]. cbn [existsb].
  rewrite (H x (or_introl eq_refl)), IH; [reflexivity|]. intros y Hy. apply H. right. exact Hy.
Qed.

Lemma del_mask_item cfg F ns i p : mono F -> F i <= p < F (S i) ->
  del_mask cfg F ns p = item_mask cfg ns i.
Proof.
  intros HF Hp. unfold del_mask, item_mask. apply existsb_ext_in. intros n _.
  rewrite (span_hasb_item F n i p HF Hp). reflexivity.
Qed.

(** The mask is the item mask on every symbol of an item (text or tag). *)
Theorem del1_item cfg f i p :
  fstart (doc_of f) i <= p < fstart (doc_of f) (S i) -> del1 cfg f p = idel1 cfg f i.
Proof. apply del_mask_item. apply fstart_mono. Qed.

(** (5a) The mask is constant on the symbols of an item, in particular of a tag. *)
Theorem del1_const_item cfg f i p q :
  fstart (doc_of f) i <= p < fstart (doc_of f) (S i) ->
  fstart (doc_of f) i <= q < fstart (doc_of f) (S i) -> del1 cfg f p = del1 cfg f q.
Proof. intros Hp Hq. rewrite (del1_item cfg f i p Hp), (del1_item cfg f i q Hq). reflexivity. Qed.

Corollary del1_const_tag cfg f i b p q : nth_error (doc_of f) i = Some (Tag b) ->
  fstart (doc_of f) i <= p < fstart (doc_of f) (S i) ->
  fstart (doc_of f) i <= q < fstart (doc_of f) (S i) -> del1 cfg f p = del1 cfg f q.
Proof. intros _. apply del1_const_item. Qed.

(** The first symbol of a tag item is a symbol of that item. *)
Lemma del1_tag_start cfg f i b : nth_error (doc_of f) i = Some (Tag b) ->
  del1 cfg f (fstart (doc_of f) i) = idel1 cfg f i.
Proof. intros H. apply del1_item. rewrite (fstart_tag _ _ _ H). lia. Qed.

(** The two tags of a node belong to the same nodes. *)
Lemma node_hasb_laminar n m : node_open n < node_close n -> node_open m < node_close m ->
  laminar n m -> node_hasb m (node_open n) = node_hasb m (node_close n).
Proof.
  intros Hn Hm L. unfold node_hasb.
  destruct (Nat.leb_spec (node_open m) (node_open n)), (Nat.leb_spec (node_open n) (node_close m)),
    (Nat.leb_spec (node_open m) (node_close n)), (Nat.leb_spec (node_close n) (node_close m));
    cbn [andb]; try reflexivity; exfalso; unfold laminar in L; lia.
Qed.

Lemma item_mask_node cfg f base n : In n (ast_nodes base f) ->
  item_mask cfg (ast_nodes base f) (node_open n) = item_mask cfg (ast_nodes base f) (node_close n).
Proof.
  intros Hn. unfold item_mask. apply existsb_ext_in. intros m Hm. f_equal.
  apply node_hasb_laminar.
  - apply (ast_nodes_range f base n Hn).
  - apply (ast_nodes_range f base m Hm).
  - apply (ast_nodes_laminar f base n m Hn Hm).
Qed.

(** (5b) The opening tag and the closing tag of a node are deleted together or kept together. *)
Theorem del1_node_tags cfg f n : In n (ast_nodes 0 f) ->
  del1 cfg f (fstart (doc_of f) (node_open n)) = del1 cfg f (fstart (doc_of f) (node_close n)).
Proof.
  intros Hn. pose proof (ast_nodes_at f 0 n Hn) as Ha.
  assert (exists b1 b2, nth_error (doc_of f) (node_open n) = Some (Tag b1) /\
                        nth_error (doc_of f) (node_close n) = Some (Tag b2)) as (b1 & b2 & Ho & Hc).
  { destruct n as [[[b1 b2] o] c]. destruct Ha as (i & j & -> & -> & _ & Hi & Hj).
    exists b1, b2. split; assumption. }
  rewrite (del1_tag_start cfg f _ b1 Ho), (del1_tag_start cfg f _ b2 Hc).
  apply item_mask_node. exact Hn.
Qed.

Corollary del1_node_tags' cfg f b1 b2 o c : In (b1, b2, o, c) (ast_nodes 0 f) ->
  del1 cfg f (fstart (doc_of f) o) = del1 cfg f (fstart (doc_of f) c).
Proof. apply (del1_node_tags cfg f (b1, b2, o, c)). Qed.

(** (5c) A node whose opening tag is kept is not ready. *)
Theorem del1_open_kept cfg f n : In n (ast_nodes 0 f) ->
  del1 cfg f (fstart (doc_of f) (node_open n)) = false -> ~ ready cfg n.
Proof.
  intros Hn Hd R. assert (del1 cfg f (fstart (doc_of f) (node_open n)) = true) as E.
  { apply del1_spec. exists n. split; [exact Hn|]. split; [exact R|].
    destruct (ast_tag_strict f n Hn) as [So _]. destruct (ast_nodes_range f 0 n Hn) as (_ & Hoc & _).
    pose proof (fstart_mono (doc_of f) (S (node_open n)) (S (node_close n)) ltac:(lia)). lia. }
  rewrite E in Hd. discriminate Hd.
Qed.

Corollary del1_open_kept' cfg f b1 b2 o c : In (b1, b2, o, c) (ast_nodes 0 f) ->
  del1 cfg f (fstart (doc_of f) o) = false -> status cfg (el_of b1) <> Some true.
Proof. apply (del1_open_kept cfg f (b1, b2, o, c)). Qed.

(** Conversely, the tags of a ready node are deleted. *)
Theorem del1_ready_tags cfg f n : In n (ast_nodes 0 f) -> ready cfg n ->
  del1 cfg f (fstart (doc_of f) (node_open n)) = true /\
  del1 cfg f (fstart (doc_of f) (node_close n)) = true.
Proof.
  intros Hn R. rewrite <- (del1_node_tags cfg f n Hn).
  destruct (del1 cfg f (fstart (doc_of f) (node_open n))) eqn:E; [split; reflexivity|].
  exfalso. exact (del1_open_kept cfg f n Hn E R).
Qed.

(* ------------------------------------------------------------------------- *)
(** * Part 4: no ready node *)

Definition none_ready (cfg : config) (ns : list node) : Prop := forall n, In n ns -> ~ ready cfg n.

Lemma none_ready_app cfg a b : none_ready cfg (a ++ b) <-> none_ready cfg a /\ none_ready cfg b.
Proof.
  unfold none_ready. split.
  - intros H. split; intros n Hn; apply H; apply in_or_app; [left | right]; exact Hn.
  - intros [H1 H2] n Hn. apply in_app_or in Hn. destruct Hn as [Hn|Hn]; [apply H1 | apply H2]; exact Hn.
Qed.

(** An element that is not ready is not collected when pending elements are not asked for
    (whether or not it is an unwrap-block element). *)
Lemma a_element_range_not_ready cfg doc el o c : status cfg el <> Some true ->
  a_element_range cfg doc false el o c = None.
Proof.
  intros H. unfold a_element_range. destruct (status cfg el) as [[|]|]; [|reflexivity..].
  exfalso. apply H. reflexivity.
Qed.

Lemma no_ready_forest_aux cfg doc f :
  Forall (fun a => forall base, none_ready cfg (nodes1 base a) ->
            fst (ast_collect1 cfg doc false base a) = []) f ->
  forall base, none_ready cfg (ast_nodes base f) -> fst (ast_collect cfg doc false base f) = [].
Proof.
  induction 1 as [|x f Hx _ IH]; intros base Hn; [reflexivity|].
  cbn [ast_nodes] in Hn. apply none_ready_app in Hn. destruct Hn as [N1 N2].
  cbn [ast_collect]. unfold pair_app. cbn [fst]. rewrite (Hx base N1), (IH _ N2). reflexivity.
Qed.

Lemma no_ready_collect1 cfg doc a : forall base, none_ready cfg (nodes1 base a) ->
  fst (ast_collect1 cfg doc false base a) = [].
Proof.
  induction a as [t | b | b1 b2 kids IH] using ast_ind'; intros base Hn; try reflexivity.
  rewrite nodes1_AE in Hn. rewrite ast_collect1_AE. unfold collect_node.
  rewrite a_element_range_not_ready
    by (apply (Hn (b1, b2, base, S base + sizes kids)); left; reflexivity).
  apply (no_ready_forest_aux cfg doc kids IH). intros n Hm. apply Hn. right. exact Hm.
Qed.

Theorem no_ready_collect cfg doc f base : none_ready cfg (ast_nodes base f) ->
  fst (ast_collect cfg doc false base f) = [].
Proof.
  apply no_ready_forest_aux. apply Forall_forall. intros a _. apply no_ready_collect1.
Qed.

(** (6) Without a ready node nothing is collected ... *)
Theorem a_collect_none_ready cfg f :
  (forall b1 b2 o c, In (b1, b2, o, c) (ast_nodes 0 f) -> status cfg (el_of b1) <> Some true) ->
  Forall ast_ok f -> fst (a_collect cfg (doc_of f) false) = [].
Proof.
  intros Hn Hok. rewrite (a_collect_ast cfg false f Hok). apply no_ready_collect.
  intros [[[b1 b2] o] c] Hin. apply (Hn b1 b2 o c Hin).
Qed.

Lemma sdel_from_none P : (forall i, P i = false) -> forall l k, sdel_from k P l = l.
Proof.
  intros H. induction l as [|x l IH]; intros k; [reflexivity|].
  cbn [sdel_from]. rewrite (H k), (IH (S k)). reflexivity.
Qed.

Lemma sdelete_nil l : sdelete [] l = l.
Proof. unfold sdelete. apply sdel_from_none. intros i. reflexivity. Qed.

Lemma a_format_ranges_nil l : a_format_ranges l [] = Ok [].
Proof. reflexivity. Qed.

(** ... and the abstract cleaner returns the document unchanged. *)
Theorem a_clean_none_ready cfg f :
  (forall b1 b2 o c, In (b1, b2, o, c) (ast_nodes 0 f) -> status cfg (el_of b1) <> Some true) ->
  Forall ast_ok f -> a_clean cfg (doc_of f) = Ok (flat (doc_of f)).
Proof.
  intros Hn Hok. unfold a_clean. rewrite (a_collect_none_ready cfg f Hn Hok).
  change (merge_markers []) with (Ok (@nil marker)). cbn [bind map].
  rewrite sdelete_nil. change (a_removed_pos []) with (@nil (nat * option nat)).
  rewrite a_format_ranges_nil. cbn [bind]. rewrite sdelete_nil. reflexivity.
Qed.

(** Without a ready node the mask is empty. *)
Lemma del1_none_ready cfg f : none_ready cfg (ast_nodes 0 f) -> forall i, del1 cfg f i = false.
Proof.
  intros Hn i. destruct (del1 cfg f i) eqn:E; [|reflexivity]. exfalso.
  apply del1_spec in E. destruct E as (n & Hin & R & _). exact (Hn n Hin R).
Qed.

(* ------------------------------------------------------------------------- *)
(** * Part 5: an instance *)

(** Time-limited tag "tl" (offset "+00:00", now = 1000000000 = 2001-09-09), removal marker "rm"
    with the target "f". *)
Definition ac_cfg : config :=
  mkConfig [116;108]%N [43;48;48;58;48;48]%N 1000000000%Z [114;109]%N [[102]%N].

(** [tl to='2000-01-01 00:00:00'] (expired: ready) and [tl to='2030-01-01 00:00:00'] (pending);
    [rm name='f'] (ready) and [rm name='g'] (pending). *)
Definition b_tl_ready : str :=
  [116;108;32;116;111;61;39;50;48;48;48;45;48;49;45;48;49;32;48;48;58;48;48;58;48;48;39]%N.
Definition b_tl_pending : str :=
  [116;108;32;116;111;61;39;50;48;51;48;45;48;49;45;48;49;32;48;48;58;48;48;58;48;48;39]%N.
Definition b_tl_close : str := [47;116;108]%N.
Definition b_rm_ready : str := [114;109;32;110;97;109;101;61;39;102;39]%N.
Definition b_rm_pending : str := [114;109;32;110;97;109;101;61;39;103;39]%N.
Definition b_rm_close : str := [47;114;109]%N.

(** "a" <tl ready> "x" <tl pending> "y" </tl> "z" </tl> "b"
        <rm pending> "p" <rm ready> "q" </rm> "r" </rm> "c":
    a ready time-limited element containing a pending one, next to a pending element containing
    a ready one. *)
Definition ac_ast : list ast :=
  [ AT [97%N];
    AE b_tl_ready b_tl_close
       [ AT [120%N]; AE b_tl_pending b_tl_close [ AT [121%N] ]; AT [122%N] ];
    AT [98%N];
    AE b_rm_pending b_rm_close
       [ AT [112%N]; AE b_rm_ready b_rm_close [ AT [113%N] ]; AT [114%N] ];
    AT [99%N] ].

Example ac_ok : Forall ast_ok ac_ast.
Proof.
  apply Forall_forall. intros a Ha. apply ast_okb_sound.
  assert (forallb ast_okb ac_ast = true) as H by (vm_compute; reflexivity).
  rewrite forallb_forall in H. apply H. exact Ha.
Qed.

Example ac_no_unwrap : no_unwrap ac_ast.
Proof.
  assert (forallb (fun n : node => negb (has_attr S_UNWRAP (el_attrs (el_of (node_b1 n)))))
                  (ast_nodes 0 ac_ast) = true) as H by (vm_compute; reflexivity).
  rewrite forallb_forall in H. intros n Hn. apply negb_true_iff. apply H. exact Hn.
Qed.

(** The nodes (open item, close item) and their readiness. *)
Example ac_nodes :
  map (fun n : node => (node_open n, node_close n, readyb ac_cfg n)) (ast_nodes 0 ac_ast) =
  [ (1, 7, true); (3, 5, false); (9, 15, false); (11, 13, true) ].
Proof. vm_compute. reflexivity. Qed.

(** The symbol index of the first symbol of each of the 17 items, and the length. *)
Example ac_fstart :
  map (fstart (doc_of ac_ast)) (seq 0 18) =
  [0; 1; 30; 31; 60; 61; 66; 67; 72; 73; 86; 87; 100; 101; 106; 107; 112; 113].
Proof. vm_compute. reflexivity. Qed.

(** The ready forest: the span [1, 72) of the outer ready element (the pending element inside
    it leaves no trace), and the span [87, 106) of the ready element inside the pending one. *)
Example ac_forest :
  fst (a_collect ac_cfg (doc_of ac_ast) false) =
  [ RT ((1, 72), None) []; RT ((87, 106), None) [] ].
Proof. vm_compute. reflexivity. Qed.

Example ac_forest_ast :
  fst (ast_collect ac_cfg (doc_of ac_ast) false 0 ac_ast) = fst (a_collect ac_cfg (doc_of ac_ast) false)
  /\ rforest ac_cfg (fstart (doc_of ac_ast)) 0 ac_ast = fst (a_collect ac_cfg (doc_of ac_ast) false).
Proof. split; vm_compute; reflexivity. Qed.

(** With pending elements: the pending forest holds the inner pending element of the first
    element and the outer pending element. *)
Example ac_forest_pending :
  a_collect ac_cfg (doc_of ac_ast) true =
  ([ RT ((1, 72), None) []; RT ((87, 106), None) [] ],
   [ RT ((31, 66), None) []; RT ((73, 112), None) [] ]).
Proof. vm_compute. reflexivity. Qed.

Example ac_markers :
  merge_markers (fst (a_collect ac_cfg (doc_of ac_ast) false)) =
  Ok [ ((1, 72), None); ((87, 106), None) ].
Proof. vm_compute. reflexivity. Qed.

(** The mask: exactly the positions of the two spans. *)
Example ac_del1 :
  filter (del1 ac_cfg ac_ast) (seq 0 113) = seq 1 71 ++ seq 87 19.
Proof. vm_compute. reflexivity. Qed.

Example ac_idel1 :
  map (idel1 ac_cfg ac_ast) (seq 0 17) =
  [false; true; true; true; true; true; true; true; false;
   false; false; true; true; true; false; false; false].
Proof. vm_compute. reflexivity. Qed.

(** The first deletion: "a" "b" <rm pending> "p" "r" </rm> "c". *)
Example ac_sdelete :
  sdel_from 0 (del1 ac_cfg ac_ast) (flat (doc_of ac_ast)) =
  [B 97%N; B 98%N; DS] ++ map B b_rm_pending ++ [DE; B 112%N; B 114%N; DS] ++ map B b_rm_close
  ++ [DE; B 99%N].
Proof. vm_compute. reflexivity. Qed.

(** The same through the theorem. *)
Example ac_markers_thm :
  exists ams, merge_markers (fst (a_collect ac_cfg (doc_of ac_ast) false)) = Ok ams /\
    (forall i, in_rangesb (map fst ams) i = del1 ac_cfg ac_ast i) /\
    sdelete (map fst ams) (flat (doc_of ac_ast)) = sdel_from 0 (del1 ac_cfg ac_ast) (flat (doc_of ac_ast)).
Proof.
  destruct (a_collect_markers ac_cfg ac_ast ac_ok ac_no_unwrap) as (ams & E & _ & _ & _ & K & D).
  exists ams. split; [exact E|]. split; [exact K | exact D].
Qed.

(** The whole abstract pipeline on the example. *)
Example ac_clean :
  a_clean ac_cfg (doc_of ac_ast) =
  Ok ([B 97%N; B 98%N; DS] ++ map B b_rm_pending ++ [DE; B 112%N; B 114%N; DS] ++ map B b_rm_close
      ++ [DE; B 99%N]).
Proof. vm_compute. reflexivity. Qed.

(** An instance without a ready node: the pending half of the example. *)
Definition ac_ast2 : list ast :=
  [ AT [98%N]; AE b_rm_pending b_rm_close [ AT [112%N]; AE b_tl_pending b_tl_close [ AT [113%N] ] ] ].

Example ac2_clean : a_clean ac_cfg (doc_of ac_ast2) = Ok (flat (doc_of ac_ast2)).
Proof.
  apply a_clean_none_ready.
  - assert (forallb (fun n : node => negb (readyb ac_cfg n)) (ast_nodes 0 ac_ast2) = true) as H
      by (vm_compute; reflexivity).
    rewrite forallb_forall in H. intros b1 b2 o c Hn R.
    specialize (H _ Hn). apply negb_true_iff in H.
    apply (readyb_spec ac_cfg (b1, b2, o, c)) in R. rewrite R in H. discriminate H.
  - apply Forall_forall. intros a Ha. apply ast_okb_sound.
    assert (forallb ast_okb ac_ast2 = true) as H by (vm_compute; reflexivity).
    rewrite forallb_forall in H. apply H. exact Ha.
Qed.

Print Assumptions a_collect_ast.
Print Assumptions collect_atree.
Print Assumptions rforest_collect.
Print Assumptions a_collect_rforest.
Print Assumptions rforest_ranges.
Print Assumptions a_collect_ranges.
Print Assumptions wf_rforest.
Print Assumptions fstart_mono.
Print Assumptions ast_tag_strict.
Print Assumptions a_collect_wf.
Print Assumptions del1_spec.
Print Assumptions sdel_from_ext.
Print Assumptions a_collect_markers.
Print Assumptions ast_nodes_laminar.
Print Assumptions del1_item.
Print Assumptions del1_const_item.
Print Assumptions del1_const_tag.
Print Assumptions del1_node_tags.
Print Assumptions del1_node_tags'.
Print Assumptions del1_open_kept.
Print Assumptions del1_open_kept'.
Print Assumptions del1_ready_tags.
Print Assumptions no_ready_collect.
Print Assumptions a_collect_none_ready.
Print Assumptions a_clean_none_ready.
Print Assumptions del1_none_ready.
Print Assumptions ac_ok.
Print Assumptions ac_no_unwrap.
Print Assumptions ac_forest.
Print Assumptions ac_markers.
Print Assumptions ac_del1.
Print Assumptions ac_markers_thm.
Print Assumptions ac_clean.
Print Assumptions ac2_clean.
