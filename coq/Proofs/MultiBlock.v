(** C13 for a document with SEVERAL blocks at top level,

      s = T0 ++ B1 ++ T1 ++ B2 ++ T2 ++ ... ++ Bn ++ Tn,

    every [Bi] the rendering of a ready default-strategy element whose two tags stand alone on
    their lines, every [Ti] plain text.

    Part 1: the removal stage on the rendering of any syntax tree without unwrap-block elements
            ([clean_tops]), and on the multi-block document ([mb_removal]).
    Part 2: the formatter stage when no marker carries a pair index ([format_no_pairs]).
    Part 3: the join [J A Z] of two texts at a seam, defined on the texts alone.
    Part 4: the seam formatter at a line seam is the cut of [J] ([format_block_J]); locality
            ([format_block_local]).
    Part 5: the main theorem ([clean_multi_block]).
    Part 6: what [J] does to the lines ([J_nonblank_lines], [J_blank_count]), the same for the
            whole document ([fold_J_nonblank_lines], [doc_blank_count]); no residue
            ([clean_multi_block_no_residue]).
    Part 7: an instance with three blocks, and what the model does when two blocks are not
            separated by a non-blank line. *)
From Coq Require Import List NArith ZArith Arith Bool Lia PeanoNat.
Import ListNotations.
From Chiri Require Import Base.Bytes Base.Res Model.Tokenizer Model.TagParser Model.TreeParser
     Model.Finders Model.Markers Model.Format Model.Clean
     Spec.Ranges Spec.Forest Spec.Rename Spec.Simulation Spec.Lines
     Proofs.ResLemmas Proofs.BytesLemmas Proofs.Utf8 Proofs.MarkerProofs Proofs.RangeProofs
     Proofs.CollectProofs Proofs.FormatterProofs Proofs.FormatAssembly Proofs.CleanProofs
     Proofs.ConfinedProofs Proofs.RenameProofs Proofs.SimFlat Proofs.SimStrings Proofs.SimFront
     Proofs.MonoMap Proofs.SimClean Proofs.SeamProofs Proofs.BlockDoc Proofs.WellNested
     Proofs.DocMask Proofs.AstCollect Proofs.Idempotent Proofs.RespellBodies.

Ltac unfold_rg := unfold marker, Format.range, Markers.range, Ranges.range in *.

(* ------------------------------------------------------------------------- *)
(** * Part 1: the removal stage *)

Definition no_pair (r : nat * nat) : marker := (r, @None nat).

(** The byte spans of the maximal ready elements of a tree. *)
Definition top_marks (cfg : config) (ds de : str) (f : list ast) : list (nat * nat) :=
  map (map_range (item_start ds de (doc_of f))) (tops cfg 0 f).

(** On the rendering of a syntax tree without unwrap-block elements the markers are the spans of
    the maximal ready elements, none with a pair index, and [clean] is the formatter stage on
    what is left after deleting them. *)
Theorem clean_tops : forall cfg ds de f,
  good_delims ds de -> good_doc ds de (doc_of f) -> bodies_ok (doc_of f) ->
  Forall ast_ok f -> no_unwrap f ->
  let s := render ds de (doc_of f) in
  let ms := map no_pair (top_marks cfg ds de f) in
  markers_of cfg ds de s = Ok ms /\
  sorted_nonempty_from 0 (top_marks cfg ds de f) /\
  wf_utf8 (delete_ranges (top_marks cfg ds de f) s) = true /\
  remove_markers s ms = Ok (delete_ranges (top_marks cfg ds de f) s) /\
  get_removed_pos ms = Ok (removed_positions 0 ms) /\
  clean cfg ds de s = format (delete_ranges (top_marks cfg ds de f) s) (removed_positions 0 ms).
Proof.
  intros cfg ds de f Hgd Hdoc Hbod Hok Hnu s ms.
  destruct (good_delims_ne ds de Hgd) as [Nds Nde].
  pose proof Hgd as (_ & _ & Wds & Wde & _).
  pose proof (render_wf ds de (doc_of f) Hgd Hdoc) as Hs. fold s in Hs.
  destruct (collect_rendered cfg ds de (doc_of f) false Hgd Hdoc Hbod) as (parts & Hf & Ec & _).
  fold s in Hf, Ec.
  destruct (markers_spec cfg ds de s parts Hs Wds Wde Nds Nde Hf)
    as (ms0 & Em & Hsnf & Hbd & Hob & _ & _).
  destruct (markers_tops cfg f Hok Hnu) as (ams & Eams & Etops & Hnp & _ & _).
  set (l := flat (doc_of f)) in *.
  set (F := fst (a_collect cfg (doc_of f) false)) in *.
  pose proof (pos_mono_on ds de l Nds Nde) as Hmono.
  assert (Forall (rtree_le (length l)) F) as HF.
  { apply forest_positions_le. apply (proj1 (a_collect_bound cfg (doc_of f) false)). }
  pose proof Em as Em0.
  unfold markers_of in Em0. rewrite Hf in Em0. cbn [bind] in Em0.
  unfold build_remove_marker in Em0.
  rewrite Ec, (merge_markers_mono _ _ F Hmono HF), Eams in Em0.
  inversion Em0 as [Ems]. clear Em0.
  assert (ms0 = ms) as E0.
  { rewrite <- Ems. unfold ms, top_marks. rewrite (all_none_markers ams Hnp), Etops.
    rewrite !map_map. apply map_ext_in. intros [o c] Hin.
    unfold map_marker, no_pair, map_range. cbn [fst snd].
    pose proof (tops_bound cfg f (o, c) Hin) as [B1 B2]. cbn [fst snd] in B1, B2.
    unfold l. rewrite !pos_fstart by assumption. reflexivity. }
  rewrite E0 in Em, Hsnf, Hbd, Hob. clear E0 Ems ms0.
  assert (map fst ms = top_marks cfg ds de f) as Efst.
  { unfold ms. rewrite map_map. cbn [no_pair fst]. apply map_id. }
  unfold_rg. rewrite Efst in Hsnf, Hbd, Hob.
  pose proof (sorted_nonempty_sorted 0 _ Hsnf) as Hsorted.
  assert (remove_markers s ms = Ok (delete_ranges (top_marks cfg ds de f) s)) as Erm.
  { pose proof (remove_markers_ok s ms) as R. unfold_rg. rewrite Efst in R.
    apply R; assumption. }
  assert (get_removed_pos ms = Ok (removed_positions 0 ms)) as Egp.
  { pose proof (get_removed_pos_ok ms) as R. unfold_rg. rewrite Efst in R. apply R. exact Hsorted. }
  split; [exact Em|]. split; [exact Hsnf|].
  split; [apply delete_ranges_wf; assumption|]. split; [exact Erm|]. split; [exact Egp|].
  unfold clean. rewrite Em. cbn [bind]. rewrite Erm. cbn [bind]. rewrite Egp. reflexivity.
Qed.

(* ------------------------------------------------------------------------- *)
(** ** The multi-block document *)

(** A block: the bodies of its two tags, its children, and the text that follows it. *)
Definition block : Type := (str * str * list ast * str)%type.
Definition blk_b1 (b : block) : str := match b with (b1, _, _, _) => b1 end.
Definition blk_ast (b : block) : ast := match b with (b1, b2, kids, _) => AE b1 b2 kids end.
Definition blk_text (b : block) : str := match b with (_, _, _, T) => T end.

(** A text item, unless the text is empty (documents are in normal form). *)
Definition txt (T : str) : list ast := match T with [] => [] | _ :: _ => [AT T] end.

Fixpoint blocks_ast (bs : list block) : list ast :=
  match bs with
  | [] => []
  | b :: r => blk_ast b :: txt (blk_text b) ++ blocks_ast r
  end.
(** [T0 B1 T1 ... Bn Tn] *)
Definition mb_ast (T0 : str) (bs : list block) : list ast := txt T0 ++ blocks_ast bs.

(** The bytes of a block: from the first byte of its opening tag to the last of its closing tag. *)
Definition blk_bytes (ds de : str) (b : block) : str := render ds de (items_of (blk_ast b)).

Fixpoint mb_render (ds de : str) (bs : list block) : str :=
  match bs with
  | [] => []
  | b :: r => blk_bytes ds de b ++ blk_text b ++ mb_render ds de r
  end.

(** The spans of the blocks when the first one starts at [off]. *)
Fixpoint mb_marks (ds de : str) (off : nat) (bs : list block) : list (nat * nat) :=
  match bs with
  | [] => []
  | b :: r => (off, off + length (blk_bytes ds de b))
              :: mb_marks ds de (off + length (blk_bytes ds de b) + length (blk_text b)) r
  end.

(** The seams in the remaining text [T0 ++ T1 ++ ... ++ Tn]: [p_i = length (T0 ++ ... ++ T(i-1))]. *)
Fixpoint seams (off : nat) (Ts : list str) : list nat :=
  match Ts with
  | [] => []
  | T :: r => off :: seams (off + length T) r
  end.

Definition mb_texts (bs : list block) : list str := map blk_text bs.
Definition mb_rest (T0 : str) (bs : list block) : str := T0 ++ concat (mb_texts bs).

Lemma render_app ds de a b : render ds de (a ++ b) = render ds de a ++ render ds de b.
Proof. apply flat_map_app. Qed.

Lemma render_txt ds de T : render ds de (doc_of (txt T)) = T.
Proof.
  destruct T as [|c T]; [reflexivity|].
  cbn [txt doc_of flat_map items_of render render_item app]. rewrite !app_nil_r. reflexivity.
Qed.

Lemma doc_of_blocks_cons b r :
  doc_of (blocks_ast (b :: r)) = items_of (blk_ast b) ++ doc_of (txt (blk_text b)) ++ doc_of (blocks_ast r).
Proof. cbn [blocks_ast]. rewrite doc_of_cons, doc_of_app. reflexivity. Qed.

Lemma blocks_render ds de bs : render ds de (doc_of (blocks_ast bs)) = mb_render ds de bs.
Proof.
  induction bs as [|b r IH]; [reflexivity|].
  rewrite doc_of_blocks_cons, !render_app, render_txt, IH. reflexivity.
Qed.

Lemma mb_render_eq ds de T0 bs :
  render ds de (doc_of (mb_ast T0 bs)) = T0 ++ mb_render ds de bs.
Proof. unfold mb_ast. rewrite doc_of_app, render_app, render_txt, blocks_render. reflexivity. Qed.

Lemma item_start_at ds de a b : item_start ds de (a ++ b) (length a) = length (render ds de a).
Proof.
  rewrite item_start_eq by (rewrite app_length; lia).
  rewrite firstn_app, firstn_all, Nat.sub_diag. cbn [firstn]. rewrite app_nil_r. reflexivity.
Qed.

Lemma tops_txt cfg base T g : tops cfg base (txt T ++ g) = tops cfg (base + length (doc_of (txt T))) g.
Proof.
  destruct T as [|c T]; cbn [txt app].
  - cbn. rewrite Nat.add_0_r. reflexivity.
  - cbn [tops tops1 app size doc_of flat_map items_of length]. reflexivity.
Qed.

Definition blk_ready (cfg : config) (b : block) : Prop := el_readyb cfg (blk_b1 b) = true.

Lemma tops_blocks cfg ds de : forall bs, Forall (blk_ready cfg) bs -> forall pre,
  map (map_range (item_start ds de (pre ++ doc_of (blocks_ast bs)))) (tops cfg (length pre) (blocks_ast bs))
  = mb_marks ds de (length (render ds de pre)) bs.
Proof.
  induction bs as [|b r IH]; intros Hr pre; [reflexivity|].
  inversion Hr as [|? ? Hb Hr']; subst.
  destruct b as [[[b1 b2] kids] T]. unfold blk_ready in Hb. cbn [blk_b1] in Hb.
  rewrite doc_of_blocks_cons. cbn [blocks_ast blk_ast blk_text tops].
  rewrite tops1_AE, Hb. cbn [app map mb_marks]. f_equal.
  - unfold map_range. cbn [fst snd]. f_equal.
    + apply item_start_at.
    + replace (S (S (length pre) + sizes kids)) with (length (pre ++ items_of (AE b1 b2 kids)))
        by (rewrite app_length, size_items; cbn [size]; fold (sizes kids); lia).
      rewrite app_assoc, item_start_at, render_app, app_length. reflexivity.
  - rewrite tops_txt.
    replace (length pre + size (AE b1 b2 kids) + length (doc_of (txt T)))
      with (length (pre ++ items_of (AE b1 b2 kids) ++ doc_of (txt T)))
      by (rewrite !app_length, size_items; lia).
    replace (pre ++ items_of (AE b1 b2 kids) ++ doc_of (txt T) ++ doc_of (blocks_ast r))
      with ((pre ++ items_of (AE b1 b2 kids) ++ doc_of (txt T)) ++ doc_of (blocks_ast r))
      by (rewrite <- !app_assoc; reflexivity).
    rewrite (IH Hr'). f_equal. rewrite !render_app, render_txt, !app_length.
    unfold blk_bytes. cbn [blk_ast blk_text]. lia.
Qed.

Lemma mb_top_marks cfg ds de T0 bs : Forall (blk_ready cfg) bs ->
  top_marks cfg ds de (mb_ast T0 bs) = mb_marks ds de (length T0) bs.
Proof.
  intros Hr. unfold top_marks, mb_ast. rewrite doc_of_app.
  pose proof (tops_txt cfg 0 T0 (blocks_ast bs)) as E. cbn [Nat.add] in E. rewrite E.
  rewrite (tops_blocks cfg ds de bs Hr (doc_of (txt T0))), render_txt. reflexivity.
Qed.

(** Deleting the spans of the blocks leaves the texts. *)
Lemma delete_where_from_all : forall s k P, (forall i, i < length s -> P (k + i) = true) ->
  delete_where_from k P s = [].
Proof.
  induction s as [|c s IH]; intros k P H; [reflexivity|].
  cbn [delete_where_from]. pose proof (H 0 ltac:(cbn [length]; lia)) as H0.
  rewrite Nat.add_0_r in H0. rewrite H0. apply IH. intros i Hi.
  replace (S k + i) with (k + S i) by lia. apply H. cbn [length]. lia.
Qed.

Lemma delete_where_from_none : forall s k P, (forall i, i < length s -> P (k + i) = false) ->
  delete_where_from k P s = s.
Proof.
  induction s as [|c s IH]; intros k P H; [reflexivity|].
  cbn [delete_where_from]. pose proof (H 0 ltac:(cbn [length]; lia)) as H0.
  rewrite Nat.add_0_r in H0. rewrite H0. f_equal. apply IH. intros i Hi.
  replace (S k + i) with (k + S i) by lia. apply H. cbn [length]. lia.
Qed.

Lemma mb_marks_below ds de : forall bs off i, i < off -> in_rangesb (mb_marks ds de off bs) i = false.
Proof.
  induction bs as [|b r IH]; intros off i Hi; [reflexivity|].
  cbn [mb_marks]. rewrite in_rangesb_cons. rewrite IH by lia.
  unfold in_rangeb. cbn [fst snd]. destruct (Nat.leb_spec off i); [lia|]. reflexivity.
Qed.

Lemma delete_marks ds de : forall bs off P,
  (forall i, off <= i -> P i = in_rangesb (mb_marks ds de off bs) i) ->
  delete_where_from off P (mb_render ds de bs) = concat (mb_texts bs).
Proof.
  induction bs as [|b r IH]; intros off P HP; [reflexivity|].
  cbn [mb_render mb_texts map concat]. cbn [mb_marks] in HP.
  set (nb := length (blk_bytes ds de b)) in *. set (nt := length (blk_text b)) in *.
  rewrite !delete_where_from_app. fold nb nt.
  rewrite delete_where_from_all, delete_where_from_none; cbn [app].
  - f_equal. fold (mb_texts r). apply IH. intros i Hi. rewrite HP by lia.
    rewrite in_rangesb_cons. unfold in_rangeb. cbn [fst snd].
    destruct (Nat.ltb_spec i (off + nb)); [lia|]. rewrite andb_false_r. reflexivity.
  - intros i Hi. fold nt in Hi. rewrite HP by lia. rewrite in_rangesb_cons.
    rewrite mb_marks_below by lia. unfold in_rangeb. cbn [fst snd].
    destruct (Nat.ltb_spec (off + nb + i) (off + nb)); [lia|]. rewrite andb_false_r. reflexivity.
  - intros i Hi. fold nb in Hi. rewrite HP by lia. rewrite in_rangesb_cons. unfold in_rangeb.
    cbn [fst snd]. destruct (Nat.leb_spec off (off + i)); [|lia].
    destruct (Nat.ltb_spec (off + i) (off + nb)); [reflexivity | lia].
Qed.

Lemma mb_delete ds de T0 bs :
  delete_ranges (mb_marks ds de (length T0) bs) (T0 ++ mb_render ds de bs) = mb_rest T0 bs.
Proof.
  unfold delete_ranges, delete_where, mb_rest. rewrite delete_where_from_app. cbn [Nat.add].
  rewrite delete_where_from_none.
  - f_equal. apply delete_marks. reflexivity.
  - intros i Hi. apply mb_marks_below. lia.
Qed.

(** The removed positions are the seams, none with a pair index. *)
Lemma mb_removed_positions ds de : forall bs off rl, rl <= off ->
  removed_positions rl (map no_pair (mb_marks ds de off bs)) =
  map (fun p => (p, @None nat)) (seams (off - rl) (mb_texts bs)).
Proof.
  induction bs as [|b r IH]; intros off rl Hle; [reflexivity|].
  cbn [mb_marks map removed_positions no_pair mb_texts seams]. f_equal.
  fold (mb_texts r). rewrite IH by lia. do 2 f_equal. lia.
Qed.

(** Part 1 of the theorem: removal. *)
Theorem mb_removal : forall cfg ds de T0 bs,
  let f := mb_ast T0 bs in
  good_delims ds de -> good_doc ds de (doc_of f) -> bodies_ok (doc_of f) ->
  Forall ast_ok f -> no_unwrap f -> Forall (blk_ready cfg) bs ->
  let s := T0 ++ mb_render ds de bs in
  let ms := map no_pair (mb_marks ds de (length T0) bs) in
  let rpos := map (fun p => (p, @None nat)) (seams (length T0) (mb_texts bs)) in
  render ds de (doc_of f) = s /\
  markers_of cfg ds de s = Ok ms /\
  wf_utf8 (mb_rest T0 bs) = true /\
  remove_markers s ms = Ok (mb_rest T0 bs) /\
  get_removed_pos ms = Ok rpos /\
  clean cfg ds de s = format (mb_rest T0 bs) rpos.
Proof.
  intros cfg ds de T0 bs f Hgd Hdoc Hbod Hok Hnu Hr s ms rpos.
  destruct (clean_tops cfg ds de f Hgd Hdoc Hbod Hok Hnu) as (Em & _ & Ew & Erm & Egp & Ecl).
  unfold f in Em, Ew, Erm, Egp, Ecl.
  rewrite (mb_top_marks cfg ds de T0 bs Hr), mb_render_eq in *.
  rewrite mb_delete in Ew, Erm, Ecl.
  rewrite (mb_removed_positions ds de bs (length T0) 0 ltac:(lia)), Nat.sub_0_r in Egp, Ecl.
  split; [apply mb_render_eq|]. repeat split; assumption.
Qed.

(* ------------------------------------------------------------------------- *)
(** * Part 2: the formatter stage without pair indices *)

(** The seam ranges, one after the other. *)
Fixpoint fb_all (s : str) (ps : list nat) : res (list (nat * nat)) :=
  match ps with
  | [] => Ok []
  | p :: r => x <- format_block s p ;; xs <- fb_all s r ;; Ok (x :: xs)
  end.

Lemma fr_fold_none s rpos : forall ps acc,
  foldM (fr_step s rpos) (map (fun p => (p, @None nat)) ps) (acc, []) =
  (xs <- fb_all s ps ;; Ok (acc ++ xs, [])).
Proof.
  induction ps as [|p r IH]; intros acc.
  - cbn [map foldM fb_all bind]. rewrite app_nil_r. reflexivity.
  - cbn [map foldM fb_all]. unfold fr_step at 1. unfold_rg.
    destruct (format_block s p) as [x|]; cbn [bind]; [|reflexivity].
    rewrite IH. destruct (fb_all s r) as [xs|]; cbn [bind]; [|reflexivity].
    rewrite <- app_assoc. reflexivity.
Qed.

Lemma merge_ranges_nil ranges : merge_ranges ranges [] = Ok ranges.
Proof. destruct ranges; reflexivity. Qed.

Lemma mo_fold_separated : forall rest done cur,
  separated_from (S (snd cur)) rest ->
  mo_out (fold_left mo_step rest (done, cur)) = done ++ cur :: rest.
Proof.
  induction rest as [|[a b] rest IH]; intros done cur H.
  - reflexivity.
  - cbn [separated_from] in H. destruct H as (H1 & H2 & H3).
    cbn [fold_left]. unfold mo_step at 2. cbn [fst snd].
    destruct (Nat.leb_spec a (snd cur)) as [L|_]; [lia|].
    rewrite IH by exact H3. rewrite <- app_assoc. reflexivity.
Qed.

(** Ranges that are already separated are left as they are. *)
Lemma merge_overlapped_id lo rs : separated_from lo rs -> merge_overlapped_ranges rs = rs.
Proof.
  destruct rs as [|[a b] rest]; intros H; [reflexivity|].
  cbn [separated_from] in H. destruct H as (_ & _ & H).
  rewrite merge_overlapped_unfold. apply (mo_fold_separated rest [] (a, b)). exact H.
Qed.

Theorem format_no_pairs : forall s ps rs lo,
  fb_all s ps = Ok rs -> separated_from lo rs ->
  format_ranges s (map (fun p => (p, @None nat)) ps) = Ok rs /\
  format s (map (fun p => (p, @None nat)) ps) = delete_ranges_rev s rs.
Proof.
  intros s ps rs lo E Hsep.
  assert (format_ranges s (map (fun p => (p, @None nat)) ps) = Ok rs) as Efr.
  { rewrite format_ranges_unfold, fr_fold_none, E. cbn [bind app].
    change (sort_ranges []) with (@nil range). rewrite merge_ranges_nil. cbn [bind].
    rewrite (merge_overlapped_id lo rs Hsep). reflexivity. }
  split; [exact Efr|]. unfold format. rewrite Efr. reflexivity.
Qed.

(* ------------------------------------------------------------------------- *)
(** * Part 3: joining two texts at a seam *)

Definition blanks (w : str) : Prop := Forall (fun c => is_blank c = true) w.

(** The longest prefix of blanks, and the rest. *)
Fixpoint span_blank (z : str) : str * str :=
  match z with
  | c :: z' => if is_blank c then let (w, r) := span_blank z' in (c :: w, r) else ([], z)
  | [] => ([], [])
  end.

(** [z] begins with a blank line that is terminated by a line break: the length of its content. *)
Definition blank_line_len (z : str) : option nat :=
  let (w, r) := span_blank z in
  match r with
  | c :: _ => if beq c NL then Some (length w) else None
  | [] => None
  end.

(** The blanks at the end of [A] (the indentation residue in front of the seam). *)
Definition ind_len (A : str) : nat := length (fst (span_blank (rev A))).

(** The line before the residue's line is blank and preceded by a line break: the length of its
    content. *)
Definition pb (A : str) : option nat :=
  match snd (span_blank (rev A)) with
  | c :: r => if beq c NL then blank_line_len r else None
  | [] => None
  end.

(** How many bytes go from the end of [A] and from the start of [Z] when the two texts are joined
    at a seam where [A] ends at the start of a line (after indentation only) and [Z] begins with
    a line break or is empty. *)
Definition jl (A Z : str) : nat :=
  match pb A with
  | Some k => ind_len A + 1 + k
  | None => match Z with [] => 0 | _ :: _ => ind_len A end
  end.
Definition jr (A Z : str) : nat :=
  match Z with
  | [] => 0
  | _ :: Zt => match blank_line_len Zt with
               | Some k => 1 + k
               | None => match pb A with Some _ => 0 | None => 1 end
               end
  end.

(** The join. *)
Definition J (A Z : str) : str := firstn (length A - jl A Z) A ++ skipn (jr A Z) Z.

(** ** [span_blank] *)

Lemma span_blank_eq z : z = fst (span_blank z) ++ snd (span_blank z).
Proof.
  induction z as [|c z IH]; [reflexivity|]. cbn [span_blank].
  destruct (is_blank c); [|reflexivity]. destruct (span_blank z) as [w r]. cbn [fst snd app] in *.
  f_equal. exact IH.
Qed.

Lemma span_blank_blanks z : blanks (fst (span_blank z)).
Proof.
  induction z as [|c z IH]; [constructor|]. cbn [span_blank].
  destruct (is_blank c) eqn:E; [|constructor]. destruct (span_blank z) as [w r]. cbn [fst] in *.
  constructor; assumption.
Qed.

Lemma span_blank_stop : forall w c y, blanks w -> is_blank c = false ->
  span_blank (w ++ c :: y) = (w, c :: y).
Proof.
  induction w as [|d w IH]; intros c y Hw Hc.
  - cbn [app span_blank]. rewrite Hc. reflexivity.
  - inversion Hw as [|? ? Hd Hw']; subst. cbn [app span_blank]. rewrite Hd, (IH c y Hw' Hc). reflexivity.
Qed.

Lemma span_blank_all : forall w, blanks w -> span_blank w = (w, []).
Proof.
  induction w as [|d w IH]; intros Hw; [reflexivity|].
  inversion Hw as [|? ? Hd Hw']; subst. cbn [span_blank]. rewrite Hd, (IH Hw'). reflexivity.
Qed.

(** The shapes of a text seen from its start. *)
Lemma span_cases z :
  blanks z \/ exists w c y, z = w ++ c :: y /\ blanks w /\ is_blank c = false.
Proof.
  induction z as [|d z IH]; [left; constructor|].
  destruct (is_blank d) eqn:Ed.
  - destruct IH as [IH | (w & c & y & -> & Hw & Hc)].
    + left. constructor; assumption.
    + right. exists (d :: w), c, y. split; [reflexivity|]. split; [constructor; assumption | exact Hc].
  - right. exists [], d, z. split; [reflexivity|]. split; [constructor | exact Ed].
Qed.

Lemma blanks_no_NL w : blanks w -> ~ In NL w.
Proof.
  intros Hw Hin. unfold blanks in Hw. rewrite Forall_forall in Hw. specialize (Hw NL Hin). discriminate Hw.
Qed.

Lemma blanks_rev w : blanks w -> blanks (rev w).
Proof. apply Forall_rev. Qed.

Lemma blanks_app a b : blanks a -> blanks b -> blanks (a ++ b).
Proof. intros Ha Hb. apply Forall_app. split; assumption. Qed.

Lemma not_ws_parts c : is_ws c = false <-> is_blank c = false /\ beq c NL = false.
Proof. unfold is_ws, is_blank. rewrite orb_false_iff. reflexivity. Qed.

Lemma rev_split {X} (x : list X) c y : rev (x ++ c :: y) = rev y ++ c :: rev x.
Proof. rewrite rev_app_distr. cbn [rev]. rewrite <- app_assoc. reflexivity. Qed.

(** ** [blank_line_len] *)

Lemma bll_some w y : blanks w -> blank_line_len (w ++ NL :: y) = Some (length w).
Proof.
  intros Hw. unfold blank_line_len. rewrite (span_blank_stop w NL y Hw NL_not_blank). reflexivity.
Qed.

Lemma bll_blank w : blanks w -> blank_line_len w = None.
Proof. intros Hw. unfold blank_line_len. rewrite (span_blank_all w Hw). reflexivity. Qed.

Lemma bll_code w c y : blanks w -> is_ws c = false -> blank_line_len (w ++ c :: y) = None.
Proof.
  intros Hw Hc. apply not_ws_parts in Hc. destruct Hc as [Hb Hn].
  unfold blank_line_len. rewrite (span_blank_stop w c y Hw Hb), Hn. reflexivity.
Qed.

Lemma bll_cases z :
  (exists w y, z = w ++ NL :: y /\ blanks w /\ blank_line_len z = Some (length w)) \/
  (blank_line_len z = None /\ first_line_not_blank z).
Proof.
  destruct (span_cases z) as [Hz | (w & c & y & -> & Hw & Hc)].
  - right. split; [apply bll_blank; exact Hz|]. left. apply blanks_no_NL. exact Hz.
  - destruct (beq c NL) eqn:En.
    + apply beq_eq in En. subst c. left. exists w, y. split; [reflexivity|]. split; [exact Hw|].
      apply bll_some. exact Hw.
    + assert (is_ws c = false) as Hws by (apply not_ws_parts; split; assumption).
      right. split; [apply bll_code; assumption|]. right. exists w, c, y.
      split; [reflexivity|]. split; [exact Hws | apply blanks_no_NL; exact Hw].
Qed.

(** A text with a byte that is not a blank: what follows it does not matter. *)
Definition has_nonblank (z : str) : Prop := exists c, In c z /\ is_blank c = false.

Lemma has_nonblank_split z : has_nonblank z ->
  exists w c y, z = w ++ c :: y /\ blanks w /\ is_blank c = false.
Proof.
  intros (c & Hin & Hc). destruct (span_cases z) as [Hz | H]; [|exact H].
  unfold blanks in Hz. rewrite Forall_forall in Hz. rewrite (Hz c Hin) in Hc. discriminate Hc.
Qed.

Lemma bll_app z post : has_nonblank z -> blank_line_len (z ++ post) = blank_line_len z.
Proof.
  intros H. destruct (has_nonblank_split z H) as (w & c & y & -> & Hw & Hc).
  unfold blank_line_len. rewrite <- app_assoc. cbn [app].
  rewrite !(span_blank_stop w c _ Hw Hc). reflexivity.
Qed.

(** The line break of a leading blank line comes before any byte that is not whitespace. *)
Lemma bll_lt u c y k : is_ws c = false -> blank_line_len (u ++ c :: y) = Some k -> k < length u.
Proof.
  intros Hc. apply not_ws_parts in Hc. destruct Hc as [Hb Hn].
  destruct (span_cases u) as [Hu | (w & d & y' & -> & Hw & Hd)].
  - unfold blank_line_len. rewrite (span_blank_stop u c y Hu Hb), Hn. discriminate.
  - rewrite <- app_assoc. cbn [app]. unfold blank_line_len.
    rewrite (span_blank_stop w d _ Hw Hd). destruct (beq d NL); [|discriminate].
    intros E. inversion E; subst. rewrite app_length. cbn [length]. lia.
Qed.

(** ** The end of the text in front of the seam *)

Lemma span_rev_line A0 ind : blanks ind ->
  span_blank (rev (A0 ++ NL :: ind)) = (rev ind, NL :: rev A0).
Proof.
  intros Hi. rewrite rev_split. apply span_blank_stop; [apply blanks_rev; exact Hi | exact NL_not_blank].
Qed.

Lemma pb_line A0 ind : blanks ind -> pb (A0 ++ NL :: ind) = blank_line_len (rev A0).
Proof. intros Hi. unfold pb. rewrite (span_rev_line A0 ind Hi). reflexivity. Qed.

Lemma ind_len_line A0 ind : blanks ind -> ind_len (A0 ++ NL :: ind) = length ind.
Proof. intros Hi. unfold ind_len. rewrite (span_rev_line A0 ind Hi). apply rev_length. Qed.

Lemma pb_blank A : blanks A -> pb A = None.
Proof. intros H. unfold pb. rewrite (span_blank_all _ (blanks_rev A H)). reflexivity. Qed.

Lemma ind_len_blank A : blanks A -> ind_len A = length A.
Proof. intros H. unfold ind_len. rewrite (span_blank_all _ (blanks_rev A H)). apply rev_length. Qed.

Lemma pb_cases A0 :
  (exists A1 w, A0 = A1 ++ NL :: w /\ blanks w /\ blank_line_len (rev A0) = Some (length w)) \/
  (blank_line_len (rev A0) = None /\ last_line_not_blank A0).
Proof.
  destruct (bll_cases (rev A0)) as [(w & y & E & Hw & El) | (El & Hf)].
  - left. exists (rev y), (rev w). split; [|split; [apply blanks_rev; exact Hw|]].
    + rewrite <- (rev_involutive A0), E. apply rev_split.
    + rewrite rev_length. exact El.
  - right. split; [exact El|]. destruct Hf as [Hn | (t & c & y & E & Hc & Ht)].
    + left. intros Hin. apply Hn. apply in_rev in Hin. exact Hin.
    + right. exists (rev y), c, (rev t). split; [|split; [exact Hc|]].
      * rewrite <- (rev_involutive A0), E. apply rev_split.
      * intros Hin. apply Ht. apply in_rev. exact Hin.
Qed.

(* ------------------------------------------------------------------------- *)
(** * Part 4: the seam formatter at a line seam *)

Lemma nth_error_mid {X} (x : list X) c y : nth_error (x ++ c :: y) (length x) = Some c.
Proof. rewrite nth_error_app2 by lia. rewrite Nat.sub_diag. reflexivity. Qed.

Lemma nth_error_run {X} (x w y : list X) i b :
  length x <= i -> i < length x + length w -> nth_error (x ++ w ++ y) i = Some b -> In b w.
Proof.
  intros H1 H2 Hn. rewrite nth_error_app2 in Hn by lia. rewrite nth_error_app1 in Hn by lia.
  apply (nth_error_In _ _ Hn).
Qed.

Lemma blanks_in w b : blanks w -> In b w -> is_blank b = true.
Proof. unfold blanks. rewrite Forall_forall. intros H Hin. apply H. exact Hin. Qed.

Lemma prev_blank_intro A1 w rest : blanks w ->
  prev_line_blank ((A1 ++ NL :: w) ++ rest) (length (A1 ++ NL :: w) + 1) (length A1).
Proof.
  intros Hw. rewrite app_length. cbn [length]. split; [lia|]. split.
  - rewrite <- app_assoc. apply nth_error_mid.
  - intros i b H1 H2 Hn. apply (blanks_in w b Hw).
    rewrite <- app_assoc in Hn. cbn [app] in Hn.
    change (A1 ++ NL :: w ++ rest) with (A1 ++ [NL] ++ w ++ rest) in Hn. rewrite app_assoc in Hn.
    apply (nth_error_run (A1 ++ [NL]) w rest i b); rewrite ?app_length; cbn [length]; try lia.
    exact Hn.
Qed.

Lemma next_blank_intro pre w y : blanks w ->
  next_line_blank (pre ++ NL :: w ++ NL :: y) (length pre) (length pre + 1 + length w).
Proof.
  intros Hw. split; [lia|]. split.
  - change (pre ++ NL :: w ++ NL :: y) with (pre ++ [NL] ++ w ++ NL :: y). rewrite !app_assoc.
    replace (length pre + 1 + length w) with (length ((pre ++ [NL]) ++ w))
      by (rewrite !app_length; cbn [length]; lia).
    apply nth_error_mid.
  - intros i b H1 H2 Hn. apply (blanks_in w b Hw).
    change (pre ++ NL :: w ++ NL :: y) with (pre ++ [NL] ++ w ++ NL :: y) in Hn.
    rewrite app_assoc in Hn.
    apply (nth_error_run (pre ++ [NL]) w (NL :: y) i b); rewrite ?app_length; cbn [length]; try lia.
    exact Hn.
Qed.

(** The facts about the seam of [A0 ++ NL :: ind ++ rest]. *)
Lemma line_seam_facts A0 ind rest : blanks ind ->
  let s := A0 ++ NL :: ind ++ rest in
  let ls := length A0 + 1 in
  let p := length A0 + 1 + length ind in
  1 <= ls /\ ls <= p /\ nth_error s (ls - 1) = Some NL /\
  (forall i b, ls <= i -> i < p -> nth_error s i = Some b -> is_blank b = true).
Proof.
  intros Hi s ls p. split; [unfold ls; lia|]. split; [unfold ls, p; lia|]. split.
  - unfold s, ls. replace (length A0 + 1 - 1) with (length A0) by lia. apply nth_error_mid.
  - intros i b H1 H2 Hn. apply (blanks_in ind b Hi). unfold s, ls, p in *.
    change (A0 ++ NL :: ind ++ rest) with (A0 ++ [NL] ++ ind ++ rest) in Hn. rewrite app_assoc in Hn.
    apply (nth_error_run (A0 ++ [NL]) ind rest i b); rewrite ?app_length; cbn [length]; try lia.
    exact Hn.
Qed.

(** A seam in the middle of the text: [A = A0 ++ NL :: ind], [Z = NL :: Zt]. *)
Lemma fbJ_mid A0 ind Zt :
  wf_utf8 (A0 ++ NL :: ind ++ NL :: Zt) = true -> blanks ind ->
  let A := A0 ++ NL :: ind in
  let Z := NL :: Zt in
  format_block (A0 ++ NL :: ind ++ NL :: Zt) (length A) = Ok (length A - jl A Z, length A + jr A Z).
Proof.
  intros Hwf Hi A Z.
  set (s := A0 ++ NL :: ind ++ NL :: Zt) in *.
  destruct (line_seam_facts A0 ind (NL :: Zt) Hi) as (L1 & L2 & Nl & Hbl). fold s in Nl, Hbl.
  set (ls := length A0 + 1) in *. set (p := length A0 + 1 + length ind) in *.
  assert (length A = p) as EA by (unfold A, p; rewrite app_length; cbn [length]; lia).
  assert (nth_error s p = Some NL) as Np.
  { unfold s. change (A0 ++ NL :: ind ++ NL :: Zt) with (A0 ++ [NL] ++ ind ++ NL :: Zt).
    rewrite !app_assoc. replace p with (length ((A0 ++ [NL]) ++ ind))
      by (unfold p; rewrite !app_length; cbn [length]; lia). apply nth_error_mid. }
  pose proof (NL_boundary s p Np) as Bp.
  destruct (seam_hull s ls p Hwf Np Bp L1 L2 Nl Hbl) as (H1 & H2 & H3 & H4).
  assert (s = A ++ NL :: Zt) as EsA by (unfold s, A; rewrite <- app_assoc; reflexivity).
  pose proof (pb_line A0 ind Hi) as Epl. pose proof (ind_len_line A0 ind Hi) as Eil.
  fold A in Epl, Eil. unfold jl, jr, Z. rewrite EA, !Epl, Eil.
  destruct (pb_cases A0) as [(A1 & w & E0 & Hw & Epb) | (Epb & HL)];
    destruct (bll_cases Zt) as [(w' & y & EZ & Hw' & Ebl) | (Ebl & HF)]; rewrite Epb, Ebl.
  - (* both neighbour lines blank *)
    assert (prev_line_blank s ls (length A1)) as PB.
    { unfold s, ls. rewrite E0.
      change ((A1 ++ NL :: w) ++ NL :: ind ++ NL :: Zt) with ((A1 ++ NL :: w) ++ (NL :: ind ++ NL :: Zt)).
      apply prev_blank_intro. exact Hw. }
    assert (next_line_blank s p (p + 1 + length w')) as NB.
    { rewrite EsA, EZ, <- EA. apply next_blank_intro. exact Hw'. }
    assert (length A0 = length A1 + 1 + length w) as LA0 by (rewrite E0, app_length; cbn [length]; lia).
    rewrite (H4 _ _ PB NB). f_equal. f_equal; unfold p; lia.
  - assert (prev_line_blank s ls (length A1)) as PB.
    { unfold s, ls. rewrite E0.
      change ((A1 ++ NL :: w) ++ NL :: ind ++ NL :: Zt) with ((A1 ++ NL :: w) ++ (NL :: ind ++ NL :: Zt)).
      apply prev_blank_intro. exact Hw. }
    assert (next_line_not_blank s p) as NB.
    { rewrite EsA, <- EA. apply next_line_not_blank_simple. exact HF. }
    assert (length A0 = length A1 + 1 + length w) as LA0 by (rewrite E0, app_length; cbn [length]; lia).
    rewrite (H2 _ PB NB). f_equal. f_equal; unfold p; lia.
  - assert (prev_line_not_blank s ls) as PB.
    { unfold s, ls. apply prev_line_not_blank_simple. exact HL. }
    assert (next_line_blank s p (p + 1 + length w')) as NB.
    { rewrite EsA, EZ, <- EA. apply next_blank_intro. exact Hw'. }
    rewrite (H3 _ PB NB). f_equal. f_equal; unfold ls, p; lia.
  - assert (prev_line_not_blank s ls) as PB.
    { unfold s, ls. apply prev_line_not_blank_simple. exact HL. }
    assert (next_line_not_blank s p) as NB.
    { rewrite EsA, <- EA. apply next_line_not_blank_simple. exact HF. }
    rewrite (H1 PB NB). f_equal. f_equal; unfold ls, p; lia.
Qed.

(** A seam on the first line of the file: [A] is blanks only, [Z = NL :: Zt]. *)
Lemma fbJ_start A Zt :
  wf_utf8 (A ++ NL :: Zt) = true -> blanks A ->
  let Z := NL :: Zt in
  format_block (A ++ NL :: Zt) (length A) = Ok (length A - jl A Z, length A + jr A Z).
Proof.
  intros Hwf HA Z. set (s := A ++ NL :: Zt) in *. set (p := length A).
  assert (nth_error s p = Some NL) as Np by apply nth_error_mid.
  pose proof (NL_boundary s p Np) as Bp.
  assert (forall i b, i < p -> nth_error s i = Some b -> is_blank b = true) as Hbl.
  { intros i b Hi Hn. unfold s in Hn. rewrite nth_error_app1 in Hn by exact Hi.
    apply (blanks_in A b HA). apply (nth_error_In _ _ Hn). }
  unfold jl, jr, Z. rewrite (pb_blank A HA), (ind_len_blank A HA). fold p.
  replace (p - p) with 0 by lia.
  destruct (bll_cases Zt) as [(w' & y & EZ & Hw' & Ebl) | (Ebl & HF)]; rewrite Ebl.
  - assert (next_line_blank s p (p + 1 + length w')) as NB.
    { unfold s, p. rewrite EZ. apply next_blank_intro. exact Hw'. }
    rewrite (seam_at_file_start_next_blank s p _ Hwf Np Bp Hbl NB). f_equal. f_equal. lia.
  - assert (next_line_not_blank s p) as NB.
    { unfold s, p. apply next_line_not_blank_simple. exact HF. }
    apply (format_block_hull_first s p p (p + 1)); [|lia | apply all_blank_before_intro; exact Hbl].
    rewrite (seam_hull_of_file_start s p Hwf Np Bp Hbl).
    rewrite (two_next_not_blank s p Hwf Np Bp NB). reflexivity.
Qed.

(** ** The seam at the end of the file *)

Lemma two_next_eof s : two_next s (length s) = None.
Proof.
  unfold two_next, find_next_lb. rewrite Nat.sub_diag. cbn [find_next_lb_loop].
  rewrite Nat.leb_refl. reflexivity.
Qed.

Lemma seam_hull_of_eof s :
  seam_hull_of s (length s) =
  Ok (match two_prev s (length s) with Some q => Nat.min (q + 1) (length s) | None => length s end,
      length s).
Proof.
  set (p := length s).
  assert (indent_remover s p = Ok (p, p)) as E1.
  { unfold indent_remover, p. rewrite Nat.leb_refl. reflexivity. }
  assert (nth_error s p = None) as Nn by (apply nth_error_None; unfold p; lia).
  assert (empty_line_remover s p = Ok (p, p)) as E2.
  { unfold empty_line_remover, p. rewrite is_boundary_length. fold p. rewrite Nn. reflexivity. }
  assert (next_line_break_remover s p = Ok (p, p)) as E4.
  { unfold next_line_break_remover. unfold p at 3. rewrite two_next_eof.
    destruct (negb (is_boundary s p)); [reflexivity|].
    destruct (negb (residue_is_blank s p)); reflexivity. }
  unfold seam_hull_of, seam_formatters. cbn [foldM]. rewrite E1. cbn [bind fst snd].
  rewrite E2. cbn [bind fst snd]. unfold prev_line_break_remover.
  destruct (two_prev s p) as [q|]; cbn [bind fst snd]; rewrite E4; cbn [bind fst snd];
    f_equal; f_equal; lia.
Qed.

Lemma format_block_eof s :
  format_block s (length s) =
  Ok (match two_prev s (length s) with Some q => Nat.min (q + 1) (length s) | None => length s end,
      length s).
Proof. apply format_block_hull_no_lb. apply seam_hull_of_eof. Qed.

(** [two_prev] at a seam that may be the end of the text. *)
Lemma g_first_prev s ls p : p <= length s -> 1 <= ls -> ls <= p -> nth_error s (ls - 1) = Some NL ->
  (forall i b, ls <= i -> i < p -> nth_error s i = Some b -> is_blank b = true) ->
  find_prev_lb s p true = Some (ls - 1).
Proof.
  intros Hp H1 H2 Nl Hbl. apply find_prev_lb_blank_run; [exact Nl | lia | exact Hp|].
  intros i b Hi1 Hi2 Hn. apply (Hbl i b); [lia | lia | exact Hn].
Qed.

Lemma g_two_prev_blank s ls p q : p <= length s -> 1 <= ls -> ls <= p ->
  nth_error s (ls - 1) = Some NL ->
  (forall i b, ls <= i -> i < p -> nth_error s i = Some b -> is_blank b = true) ->
  prev_line_blank s ls q -> two_prev s p = Some q.
Proof.
  intros Hp H1 H2 Nl Hbl (Q1 & Q2 & Q3). unfold two_prev.
  rewrite (g_first_prev s ls p Hp H1 H2 Nl Hbl).
  pose proof (nth_error_lt s _ NL Nl) as Ll.
  apply find_prev_lb_blank_run; [exact Q2 | lia | lia|].
  intros i b Hi1 Hi2 Hn. apply (Q3 i b); [lia | lia | exact Hn].
Qed.

Lemma g_two_prev_not_blank s ls p : wf_utf8 s = true -> p <= length s -> 1 <= ls -> ls <= p ->
  nth_error s (ls - 1) = Some NL ->
  (forall i b, ls <= i -> i < p -> nth_error s i = Some b -> is_blank b = true) ->
  prev_line_not_blank s ls -> two_prev s p = None.
Proof.
  intros Hs Hp H1 H2 Nl Hbl Hnb. destruct (two_prev s p) as [q|] eqn:T; [|reflexivity].
  exfalso. apply (Hnb q). unfold two_prev in T.
  rewrite (g_first_prev s ls p Hp H1 H2 Nl Hbl) in T.
  pose proof (find_prev_lb_some _ _ _ _ T) as (P1 & P2 & P3 & P4).
  split; [lia|]. split; [exact P3|]. intros i b Hi1 Hi2 Hn.
  destruct (find_prev_lb_pause_run s (ls - 1) q Hs T i) as (_ & c & Hc & Hcb); [lia | lia|].
  congruence.
Qed.

(** The file ends at the seam, after a line break and indentation. *)
Lemma fbJ_end A0 ind :
  wf_utf8 (A0 ++ NL :: ind) = true -> blanks ind ->
  let A := A0 ++ NL :: ind in
  format_block A (length A) = Ok (length A - jl A [], length A + jr A []).
Proof.
  intros Hwf Hi A.
  destruct (line_seam_facts A0 ind [] Hi) as (L1 & L2 & Nl & Hbl). rewrite app_nil_r in Nl, Hbl.
  fold A in Nl, Hbl.
  set (ls := length A0 + 1) in *. set (p := length A0 + 1 + length ind) in *.
  assert (length A = p) as EA by (unfold A, p; rewrite app_length; cbn [length]; lia).
  pose proof (pb_line A0 ind Hi) as Epl. pose proof (ind_len_line A0 ind Hi) as Eil.
  fold A in Epl, Eil. rewrite format_block_eof. unfold jl, jr. rewrite Epl, Eil, EA.
  assert (p <= length A) as Hp by lia.
  destruct (pb_cases A0) as [(A1 & w & E0 & Hw & Epb) | (Epb & HL)]; rewrite Epb.
  - assert (prev_line_blank A ls (length A1)) as PB.
    { unfold A, ls. rewrite E0.
      change ((A1 ++ NL :: w) ++ NL :: ind) with ((A1 ++ NL :: w) ++ (NL :: ind)).
      apply prev_blank_intro. exact Hw. }
    assert (length A0 = length A1 + 1 + length w) as LA0 by (rewrite E0, app_length; cbn [length]; lia).
    rewrite (g_two_prev_blank A ls p _ Hp L1 L2 Nl Hbl PB). f_equal. f_equal; unfold p; lia.
  - assert (prev_line_not_blank A ls) as PB.
    { unfold A, ls. apply prev_line_not_blank_simple. exact HL. }
    rewrite (g_two_prev_not_blank A ls p Hwf Hp L1 L2 Nl Hbl PB). f_equal. f_equal; lia.
Qed.

(** The whole file was one block: only its indentation is left. *)
Lemma fbJ_all A : blanks A -> format_block A (length A) = Ok (length A - jl A [], length A + jr A []).
Proof.
  intros HA. rewrite format_block_eof. unfold jl, jr. rewrite (pb_blank A HA).
  assert (two_prev A (length A) = None) as ->.
  { unfold two_prev. rewrite find_prev_lb_blank_none; [reflexivity|].
    intros i b _ Hn. apply (blanks_in A b HA). apply (nth_error_In _ _ Hn). }
  f_equal. f_equal; lia.
Qed.

(** ** The theorem: at a line seam the range of [format_block] is the cut of [J] *)

(** [A] ends at the start of a line, after indentation only: it is blanks only (the seam is on
    the first line of the file), or it ends with a line break followed by blanks. *)
Definition ends_ls (A : str) : Prop :=
  blanks A \/ exists A0 ind, A = A0 ++ NL :: ind /\ blanks ind.
(** [Z] is empty (the file ends at the seam) or begins with a line break. *)
Definition starts_nl (Z : str) : Prop := Z = [] \/ exists Zt, Z = NL :: Zt.

Theorem format_block_J : forall A Z,
  wf_utf8 (A ++ Z) = true -> ends_ls A -> starts_nl Z ->
  format_block (A ++ Z) (length A) = Ok (length A - jl A Z, length A + jr A Z).
Proof.
  intros A Z Hwf [HA | (A0 & ind & -> & Hi)] [-> | (Zt & ->)].
  - rewrite app_nil_r. apply fbJ_all. exact HA.
  - apply fbJ_start; assumption.
  - rewrite app_nil_r in *. apply fbJ_end; assumption.
  - rewrite <- app_assoc in *. cbn [app] in *. apply (fbJ_mid A0 ind Zt Hwf Hi).
Qed.

(** Deleting that range from [A ++ Z] gives [J A Z]. *)
Lemma jl_le A Z : jl A Z <= length A.
Proof.
  unfold jl, ind_len, pb. pose proof (span_blank_eq (rev A)) as E.
  destruct (span_blank (rev A)) as [w r]. cbn [fst snd] in *.
  assert (length A = length w + length r) as L by (rewrite <- rev_length, E, app_length; reflexivity).
  destruct r as [|c r].
  - destruct Z; lia.
  - cbn [length] in L. destruct (beq c NL); [|destruct Z; lia].
    unfold blank_line_len. pose proof (span_blank_eq r) as E2.
    destruct (span_blank r) as [w2 r2]. cbn [fst snd] in E2.
    assert (length r = length w2 + length r2) as L2 by (rewrite E2, app_length; reflexivity).
    destruct r2 as [|d r2]; [destruct Z; lia|]. destruct (beq d NL); [lia | destruct Z; lia].
Qed.

Lemma J_cut A Z :
  firstn (length A - jl A Z) (A ++ Z) ++ skipn (length A + jr A Z) (A ++ Z) = J A Z.
Proof.
  unfold J. rewrite firstn_app. replace (length A - jl A Z - length A) with 0 by lia.
  cbn [firstn]. rewrite app_nil_r. f_equal.
  rewrite skipn_app. rewrite skipn_all2 by lia. cbn [app]. f_equal. lia.
Qed.

(* ------------------------------------------------------------------------- *)
(** ** Locality: the cut depends on the neighbourhood of the seam only *)

(** [A] ends with a line break and indentation, and a byte that is not a blank (a line break
    counts) stands before that line break.  [Z] begins with a line break and has a byte that is not
    a blank after it. *)
Definition anchoredL (A : str) : Prop :=
  exists A0 ind, A = A0 ++ NL :: ind /\ blanks ind /\ has_nonblank A0.
Definition anchoredR (Z : str) : Prop := exists Zt, Z = NL :: Zt /\ has_nonblank Zt.

Lemma has_nonblank_rev z : has_nonblank z -> has_nonblank (rev z).
Proof. intros (c & Hin & Hc). exists c. split; [apply in_rev in Hin; exact Hin | exact Hc]. Qed.

Lemma pb_pre pre A : anchoredL A -> pb (pre ++ A) = pb A /\ ind_len (pre ++ A) = ind_len A.
Proof.
  intros (A0 & ind & -> & Hi & Hn). rewrite app_assoc.
  rewrite !pb_line, !ind_len_line by exact Hi. split; [|reflexivity].
  rewrite rev_app_distr. apply bll_app. apply has_nonblank_rev. exact Hn.
Qed.

Lemma jl_pre pre A Z : anchoredL A -> jl (pre ++ A) Z = jl A Z.
Proof. intros H. destruct (pb_pre pre A H) as [E1 E2]. unfold jl. rewrite E1, E2. reflexivity. Qed.

Lemma jr_pre pre A Z : anchoredL A -> jr (pre ++ A) Z = jr A Z.
Proof. intros H. destruct (pb_pre pre A H) as [E1 _]. unfold jr. rewrite E1. reflexivity. Qed.

Lemma jl_post A Z post : anchoredR Z -> jl A (Z ++ post) = jl A Z.
Proof. intros (Zt & -> & _). reflexivity. Qed.

Lemma jr_post A Z post : anchoredR Z -> jr A (Z ++ post) = jr A Z.
Proof. intros (Zt & -> & Hn). unfold jr. cbn [app]. rewrite (bll_app Zt post Hn). reflexivity. Qed.

Lemma ends_ls_pre pre A : pre = [] \/ anchoredL A -> ends_ls A -> ends_ls (pre ++ A).
Proof.
  intros [-> | (A0 & ind & -> & Hi & _)] HA; [exact HA|].
  right. exists (pre ++ A0), ind. split; [apply app_assoc | exact Hi].
Qed.

Lemma starts_nl_post Z post : post = [] \/ anchoredR Z -> starts_nl Z -> starts_nl (Z ++ post).
Proof.
  intros [-> | (Zt & -> & _)] HZ; [rewrite app_nil_r; exact HZ|].
  right. exists (Zt ++ post). reflexivity.
Qed.

(** Part 2 of the theorem: the seam formatter is local.  In a text [pre ++ A ++ Z ++ post] with a
    line seam between [A] and [Z], the range of [format_block] is the cut of [A] and [Z],
    whatever [pre] and [post] are, as soon as [A] has a byte that is not a blank before its last
    line break (or [pre] is empty) and [Z] one after its first line break (or [post] is empty). *)
Theorem format_block_local : forall pre A Z post,
  wf_utf8 (pre ++ A ++ Z ++ post) = true -> ends_ls A -> starts_nl Z ->
  pre = [] \/ anchoredL A -> post = [] \/ anchoredR Z ->
  format_block (pre ++ A ++ Z ++ post) (length pre + length A) =
  Ok (length pre + (length A - jl A Z), length pre + (length A + jr A Z)).
Proof.
  intros pre A Z post Hwf HA HZ HL HR.
  replace (pre ++ A ++ Z ++ post) with ((pre ++ A) ++ (Z ++ post)) in * by (rewrite <- app_assoc; reflexivity).
  rewrite <- app_length.
  rewrite (format_block_J (pre ++ A) (Z ++ post) Hwf (ends_ls_pre pre A HL HA) (starts_nl_post Z post HR HZ)).
  assert (jl (pre ++ A) (Z ++ post) = jl A Z /\ jr (pre ++ A) (Z ++ post) = jr A Z) as [E1 E2].
  { assert (jl A (Z ++ post) = jl A Z /\ jr A (Z ++ post) = jr A Z) as [F1 F2].
    { destruct HR as [-> | HR]; [rewrite app_nil_r; split; reflexivity|].
      split; [apply jl_post | apply jr_post]; exact HR. }
    destruct HL as [-> | HL]; [split; assumption|].
    rewrite jl_pre, jr_pre by exact HL. split; assumption. }
  rewrite E1, E2. pose proof (jl_le A Z). rewrite app_length. f_equal. f_equal; lia.
Qed.

(** The same as a shift of the range computed on [A ++ Z] alone. *)
Corollary format_block_local_shift : forall pre A Z post,
  wf_utf8 (pre ++ A ++ Z ++ post) = true -> wf_utf8 (A ++ Z) = true -> ends_ls A -> starts_nl Z ->
  pre = [] \/ anchoredL A -> post = [] \/ anchoredR Z ->
  exists a b, format_block (A ++ Z) (length A) = Ok (a, b) /\
    format_block (pre ++ A ++ Z ++ post) (length pre + length A) = Ok (length pre + a, length pre + b).
Proof.
  intros pre A Z post Hwf Hwf' HA HZ HL HR.
  exists (length A - jl A Z), (length A + jr A Z). split.
  - apply format_block_J; assumption.
  - apply format_block_local; assumption.
Qed.

(** ** A byte that is not whitespace shields the cut *)

Definition nonws (z : str) : Prop := exists c, In c z /\ is_ws c = false.

Lemma nonws_split z : nonws z -> exists U c V, z = U ++ c :: V /\ is_ws c = false.
Proof.
  intros (c & Hin & Hc). apply in_split in Hin. destruct Hin as (U & V & ->).
  exists U, c, V. split; [reflexivity | exact Hc].
Qed.

Lemma nonws_anchoredL A : ends_ls A -> nonws A -> anchoredL A.
Proof.
  intros [HA | (A0 & ind & -> & Hi)] (c & Hin & Hc); apply not_ws_parts in Hc; destruct Hc as [Hb Hn].
  - rewrite (blanks_in A c HA Hin) in Hb. discriminate Hb.
  - exists A0, ind. split; [reflexivity|]. split; [exact Hi|]. exists c. split; [|exact Hb].
    apply in_app_or in Hin. destruct Hin as [Hin | [<- | Hin]]; [exact Hin | discriminate Hn |].
    rewrite (blanks_in ind c Hi Hin) in Hb. discriminate Hb.
Qed.

Lemma nonws_anchoredR Z : starts_nl Z -> nonws Z -> anchoredR Z.
Proof.
  intros [-> | (Zt & ->)] (c & Hin & Hc); [destruct Hin|].
  apply not_ws_parts in Hc. destruct Hc as [Hb Hn].
  exists Zt. split; [reflexivity|]. exists c. split; [|exact Hb].
  destruct Hin as [<- | Hin]; [discriminate Hn | exact Hin].
Qed.

(** What stands in front of a byte that is not whitespace does not matter. *)
Lemma pb_nonws U c V : is_ws c = false ->
  pb (U ++ c :: V) = pb (c :: V) /\ ind_len (U ++ c :: V) = ind_len (c :: V).
Proof.
  intros Hc. apply not_ws_parts in Hc. destruct Hc as [Hb Hn].
  unfold pb, ind_len. rewrite rev_split. cbn [rev].
  destruct (span_cases (rev V)) as [HV | (w & d & y & E & Hw & Hd)].
  - rewrite (span_blank_stop (rev V) c (rev U) HV Hb), (span_blank_stop (rev V) c [] HV Hb).
    cbn [fst snd]. rewrite Hn. split; reflexivity.
  - rewrite E, <- !app_assoc. cbn [app].
    rewrite (span_blank_stop w d _ Hw Hd), (span_blank_stop w d _ Hw Hd). cbn [fst snd].
    split; [|reflexivity]. destruct (beq d NL); [|reflexivity].
    change (y ++ c :: rev U) with (y ++ [c] ++ rev U). rewrite app_assoc. apply bll_app.
    exists c. split; [apply in_or_app; right; left; reflexivity | exact Hb].
Qed.

Lemma jl_nonws U c V Z : is_ws c = false -> jl (U ++ c :: V) Z = jl (c :: V) Z.
Proof. intros Hc. destruct (pb_nonws U c V Hc) as [E1 E2]. unfold jl. rewrite E1, E2. reflexivity. Qed.

Lemma jr_nonws U c V Z : is_ws c = false -> jr (U ++ c :: V) Z = jr (c :: V) Z.
Proof. intros Hc. destruct (pb_nonws U c V Hc) as [E1 _]. unfold jr. rewrite E1. reflexivity. Qed.

(** The cut stays behind the last byte of [A] that is not whitespace ... *)
Lemma jl_le_nonws U c V Z : is_ws c = false -> jl (U ++ c :: V) Z <= length V.
Proof.
  intros Hc. pose proof Hc as Hc'. apply not_ws_parts in Hc'. destruct Hc' as [Hb Hn].
  unfold jl, pb, ind_len. rewrite rev_split.
  destruct (span_cases (rev V)) as [HV | (w & d & y & E & Hw & Hd)].
  - rewrite (span_blank_stop (rev V) c (rev U) HV Hb). cbn [fst snd]. rewrite Hn, rev_length.
    destruct Z; lia.
  - assert (length V = length w + S (length y)) as LV
      by (rewrite <- rev_length, E, app_length; reflexivity).
    rewrite E, <- !app_assoc. cbn [app]. rewrite (span_blank_stop w d _ Hw Hd). cbn [fst snd].
    destruct (beq d NL); [|destruct Z; lia].
    destruct (blank_line_len (y ++ c :: rev U)) as [k|] eqn:Eb; [|destruct Z; lia].
    pose proof (bll_lt y c (rev U) k Hc Eb). lia.
Qed.

(** ... and in front of the first such byte of [Z]. *)
Lemma jr_le_nonws A U c V : starts_nl (U ++ c :: V) -> is_ws c = false -> jr A (U ++ c :: V) <= length U.
Proof.
  intros HZ Hc. pose proof Hc as Hc'. apply not_ws_parts in Hc'. destruct Hc' as [Hb Hn].
  destruct HZ as [E | (Zt & E)]; [destruct U; discriminate E|].
  destruct U as [|u U]; cbn [app] in E; inversion E; subst; [discriminate Hn|].
  unfold jr. cbn [app length].
  destruct (blank_line_len (U ++ c :: V)) as [k|] eqn:Eb.
  - pose proof (bll_lt U c V k Hc Eb). lia.
  - destruct (pb A); lia.
Qed.

(* ------------------------------------------------------------------------- *)
(** * Part 5: the main theorem *)

(** The cuts at the seams of [A ++ T1 ++ T2 ++ ...], the first seam at [p]. *)
Fixpoint cuts (p : nat) (A : str) (Ts : list str) : list (nat * nat) :=
  match Ts with
  | [] => []
  | Z :: r => (p - jl A Z, p + jr A Z) :: cuts (p + length Z) Z r
  end.

(** The hypotheses on the texts [T0; T1; ...; Tn]: every seam is a line seam (the text before it
    ends at the start of a line after indentation only, the text after it is empty or begins with
    a line break), and every text between two blocks has a byte that is not whitespace. *)
Fixpoint chain_ok (A : str) (Ts : list str) : Prop :=
  match Ts with
  | [] => True
  | Z :: r => ends_ls A /\ starts_nl Z /\ match r with [] => True | _ :: _ => nonws Z end /\ chain_ok Z r
  end.

Lemma fb_all_cuts : forall Ts pre A,
  wf_utf8 (pre ++ A ++ concat Ts) = true -> chain_ok A Ts -> Ts = [] \/ pre = [] \/ nonws A ->
  fb_all (pre ++ A ++ concat Ts) (seams (length pre + length A) Ts) =
  Ok (cuts (length pre + length A) A Ts).
Proof.
  induction Ts as [|Z r IH]; intros pre A Hwf Hc Hp; [reflexivity|].
  cbn [chain_ok] in Hc. destruct Hc as (HA & HZ & Hn & Hc').
  cbn [concat seams cuts fb_all] in *.
  assert (pre = [] \/ anchoredL A) as HL.
  { destruct Hp as [E | [E | E]]; [discriminate E | left; exact E | right; apply nonws_anchoredL; assumption]. }
  assert (concat r = [] \/ anchoredR Z) as HR.
  { destruct r; [left; reflexivity | right; apply nonws_anchoredR; assumption]. }
  rewrite (format_block_local pre A Z (concat r) Hwf HA HZ HL HR). cbn [bind].
  replace (pre ++ A ++ Z ++ concat r) with ((pre ++ A) ++ Z ++ concat r) in * by (rewrite <- app_assoc; reflexivity).
  replace (length pre + length A + length Z) with (length (pre ++ A) + length Z) by (rewrite app_length; lia).
  rewrite (IH (pre ++ A) Z Hwf Hc').
  - cbn [bind]. pose proof (jl_le A Z). rewrite app_length. f_equal. f_equal. f_equal; lia.
  - destruct r; [left; reflexivity | right; right; exact Hn].
Qed.

Lemma cuts_sep : forall Ts A p lo, chain_ok A Ts ->
  (forall Z r, Ts = Z :: r -> lo + jl A Z <= p) -> separated_from lo (cuts p A Ts).
Proof.
  induction Ts as [|Z r IH]; intros A p lo Hc Hlo; [exact I|].
  cbn [chain_ok] in Hc. destruct Hc as (HA & HZ & Hn & Hc').
  specialize (Hlo Z r eq_refl). cbn [cuts separated_from].
  split; [lia|]. split; [lia|]. apply IH; [exact Hc'|].
  intros Z2 r2 ->. destruct (nonws_split Z Hn) as (U & c & V & -> & Hcw).
  pose proof (jr_le_nonws A U c V HZ Hcw). pose proof (jl_le_nonws U c V Z2 Hcw).
  rewrite app_length. cbn [length]. lia.
Qed.

(** Every seam is a character boundary of the remaining text. *)
Lemma seams_boundary : forall Ts pre A, chain_ok A Ts ->
  forall p, In p (seams (length pre + length A) Ts) ->
  p <= length (pre ++ A ++ concat Ts) /\ is_boundary (pre ++ A ++ concat Ts) p = true.
Proof.
  induction Ts as [|Z r IH]; intros pre A Hc p Hin; [destruct Hin|].
  cbn [chain_ok] in Hc. destruct Hc as (HA & HZ & Hn & Hc').
  cbn [seams concat] in *. destruct Hin as [<- | Hin].
  - destruct HZ as [-> | (Zt & ->)].
    + destruct r as [|Z2 r]; [|destruct Hn as (c & [] & _)].
      cbn [concat app]. rewrite !app_nil_r, <- app_length. split; [lia | apply is_boundary_length].
    + assert (nth_error (pre ++ A ++ (NL :: Zt) ++ concat r) (length pre + length A) = Some NL) as Np.
      { rewrite app_assoc, <- app_length. cbn [app]. apply nth_error_mid. }
      split; [apply Nat.lt_le_incl; apply (nth_error_lt _ _ NL Np) | apply NL_boundary; exact Np].
  - replace (pre ++ A ++ Z ++ concat r) with ((pre ++ A) ++ Z ++ concat r) by (rewrite <- app_assoc; reflexivity).
    apply (IH (pre ++ A) Z Hc'). rewrite app_length. exact Hin.
Qed.

(** ** Deleting the cuts, text by text *)

(** The output built from the original texts: of every text the part between the cut at its
    start ([skip] bytes) and the cut at its end. *)
Fixpoint out_orig (skip : nat) (A : str) (Ts : list str) : str :=
  match Ts with
  | [] => skipn skip A
  | Z :: r => firstn (length A - jl A Z - skip) (skipn skip A) ++ out_orig (jr A Z) Z r
  end.

Fixpoint fits (skip : nat) (A : str) (Ts : list str) : Prop :=
  match Ts with
  | [] => True
  | Z :: r => skip + jl A Z <= length A /\ jr A Z <= length Z /\ fits (jr A Z) Z r
  end.

Lemma bll_len z k : blank_line_len z = Some k -> k < length z.
Proof.
  unfold blank_line_len. pose proof (span_blank_eq z) as E. destruct (span_blank z) as [w r].
  cbn [fst snd] in E. destruct r as [|c r]; [discriminate|]. destruct (beq c NL); [|discriminate].
  intros H. inversion H; subst. rewrite app_length. cbn [length]. lia.
Qed.

Lemma jr_le A Z : jr A Z <= length Z.
Proof.
  unfold jr. destruct Z as [|d Zt]; [lia|]. cbn [length].
  destruct (blank_line_len Zt) as [k|] eqn:E; [pose proof (bll_len Zt k E); lia|].
  destruct (pb A); lia.
Qed.

Lemma chain_fits : forall Ts A skip, chain_ok A Ts ->
  (forall Z r, Ts = Z :: r -> skip + jl A Z <= length A) -> fits skip A Ts.
Proof.
  induction Ts as [|Z r IH]; intros A skip Hc Hs; [exact I|].
  cbn [chain_ok] in Hc. destruct Hc as (HA & HZ & Hn & Hc').
  specialize (Hs Z r eq_refl). cbn [fits]. split; [exact Hs|]. split; [apply jr_le|].
  apply IH; [exact Hc'|]. intros Z2 r2 ->.
  destruct (nonws_split Z Hn) as (U & c & V & -> & Hcw).
  pose proof (jr_le_nonws A U c V HZ Hcw). pose proof (jl_le_nonws U c V Z2 Hcw).
  rewrite app_length. cbn [length]. lia.
Qed.

Lemma cuts_lower : forall Ts A skip p i, fits skip A Ts -> i + length A < p + skip ->
  in_rangesb (cuts p A Ts) i = false.
Proof.
  induction Ts as [|Z r IH]; intros A skip p i Hf Hi; [reflexivity|].
  cbn [fits] in Hf. destruct Hf as (F1 & F2 & F3). cbn [cuts]. rewrite in_rangesb_cons.
  rewrite (IH Z (jr A Z) (p + length Z) i F3) by lia. unfold in_rangeb. cbn [fst snd].
  destruct (Nat.leb_spec (p - jl A Z) i); [lia|]. reflexivity.
Qed.

Lemma del_cuts : forall Ts A skip off P, fits skip A Ts -> skip <= length A ->
  (forall i, off + skip <= i -> P i = in_rangesb (cuts (off + length A) A Ts) i) ->
  delete_where_from (off + skip) P (skipn skip A ++ concat Ts) = out_orig skip A Ts.
Proof.
  induction Ts as [|Z r IH]; intros A skip off P Hf Hs HP.
  - cbn [concat out_orig]. rewrite app_nil_r. apply delete_where_from_none.
    intros i Hi. rewrite HP by lia. reflexivity.
  - cbn [fits] in Hf. destruct Hf as (F1 & F2 & F3). cbn [concat out_orig cuts] in *.
    set (l := jl A Z) in *. set (rr := jr A Z) in *. set (A' := skipn skip A).
    assert (length A' = length A - skip) as LA' by (unfold A'; apply skipn_length).
    set (n := length A - l - skip).
    set (K := firstn n A'). set (D := skipn n A'). set (F := firstn rr Z).
    assert (length K = n) as LK by (unfold K; rewrite firstn_length; lia).
    assert (length D = l) as LD by (unfold D; rewrite skipn_length; lia).
    assert (length F = rr) as LF by (unfold F; rewrite firstn_length; lia).
    assert (A' ++ Z ++ concat r = K ++ (D ++ F) ++ skipn rr Z ++ concat r) as E.
    { unfold K, D, F. rewrite <- !app_assoc. rewrite (app_assoc (firstn n A')), firstn_skipn.
      f_equal. rewrite app_assoc, firstn_skipn. reflexivity. }
    rewrite E, (delete_where_from_app K), (delete_where_from_app (D ++ F)).
    rewrite (delete_where_from_none K), (delete_where_from_all (D ++ F)).
    + cbn [app]. f_equal.
      replace (off + skip + length K + length (D ++ F)) with (off + length A + rr)
        by (rewrite app_length; lia).
      apply (IH Z rr (off + length A) P F3 F2).
      intros i Hi. rewrite HP by lia. rewrite in_rangesb_cons. unfold in_rangeb. cbn [fst snd].
      destruct (Nat.ltb_spec i (off + length A + rr)); [lia|]. rewrite andb_false_r. reflexivity.
    + intros i Hi. rewrite app_length in Hi. rewrite HP by lia. rewrite in_rangesb_cons.
      unfold in_rangeb. cbn [fst snd].
      destruct (Nat.leb_spec (off + length A - l) (off + skip + length K + i)); [|lia].
      destruct (Nat.ltb_spec (off + skip + length K + i) (off + length A + rr)); [reflexivity | lia].
    + intros i Hi. rewrite HP by lia. rewrite in_rangesb_cons.
      rewrite (cuts_lower r Z rr (off + length A + length Z) (off + skip + i) F3) by lia.
      unfold in_rangeb. cbn [fst snd].
      destruct (Nat.leb_spec (off + length A - l) (off + skip + i)); [lia|]. reflexivity.
Qed.

(** ** The same output as a fold of [J] over the texts *)

Lemma J_shield pre A skip Z :
  (pre = [] /\ skip = 0) \/ (exists U c V, A = U ++ c :: V /\ is_ws c = false /\ skip <= length U) ->
  J (pre ++ skipn skip A) Z = (pre ++ firstn (length A - jl A Z - skip) (skipn skip A)) ++ skipn (jr A Z) Z.
Proof.
  intros H.
  assert (jl (pre ++ skipn skip A) Z = jl A Z /\ jr (pre ++ skipn skip A) Z = jr A Z /\
          skip + jl A Z <= length A) as (E1 & E2 & L).
  { destruct H as [[-> ->] | (U & c & V & -> & Hc & Hs)].
    - cbn [skipn app]. pose proof (jl_le A Z). repeat split; lia.
    - rewrite skipn_app. replace (skip - length U) with 0 by lia. cbn [skipn].
      rewrite app_assoc. rewrite !jl_nonws, !jr_nonws by exact Hc.
      pose proof (jl_le_nonws U c V Z Hc) as B. rewrite jl_nonws in B by exact Hc.
      rewrite app_length. cbn [length]. repeat split; lia. }
  unfold J. rewrite E1, E2. f_equal.
  rewrite app_length, skipn_length, firstn_app.
  rewrite firstn_all2 by lia. f_equal. f_equal. lia.
Qed.

Lemma fold_J_orig : forall Ts pre A skip, chain_ok A Ts ->
  Ts = [] \/ (pre = [] /\ skip = 0) \/
    (exists U c V, A = U ++ c :: V /\ is_ws c = false /\ skip <= length U) ->
  fold_left J Ts (pre ++ skipn skip A) = pre ++ out_orig skip A Ts.
Proof.
  induction Ts as [|Z r IH]; intros pre A skip Hc H; [reflexivity|].
  cbn [chain_ok] in Hc. destruct Hc as (HA & HZ & Hn & Hc').
  cbn [fold_left out_orig].
  rewrite J_shield by (destruct H as [E | H]; [discriminate E | exact H]).
  rewrite (IH _ Z (jr A Z) Hc').
  - rewrite <- app_assoc. reflexivity.
  - destruct r as [|Z2 r]; [left; reflexivity|]. right. right.
    destruct (nonws_split Z Hn) as (U & c & V & -> & Hcw).
    exists U, c, V. split; [reflexivity|]. split; [exact Hcw|]. apply jr_le_nonws; assumption.
Qed.

(** ** The theorem *)

Theorem clean_multi_block : forall cfg ds de T0 bs,
  let f := mb_ast T0 bs in
  good_delims ds de -> good_doc ds de (doc_of f) -> bodies_ok (doc_of f) ->
  Forall ast_ok f -> no_unwrap f -> Forall (blk_ready cfg) bs ->
  chain_ok T0 (mb_texts bs) ->
  let Ts := mb_texts bs in
  let s' := mb_rest T0 bs in
  let ps := seams (length T0) Ts in
  let rs := cuts (length T0) T0 Ts in
  (* the seam ranges are the local cuts, they are separated, and nothing is merged *)
  fb_all s' ps = Ok rs /\ separated_from 0 rs /\
  format_ranges s' (map (fun p => (p, @None nat)) ps) = Ok rs /\
  (* the output *)
  clean cfg ds de (T0 ++ mb_render ds de bs) = Ok (delete_ranges rs s') /\
  delete_ranges rs s' = fold_left J Ts T0.
Proof.
  intros cfg ds de T0 bs f Hgd Hdoc Hbod Hok Hnu Hr Hc Ts s' ps rs.
  destruct (mb_removal cfg ds de T0 bs Hgd Hdoc Hbod Hok Hnu Hr) as (_ & _ & Ew & _ & _ & Ecl).
  fold Ts in Ecl. fold s' in Ew, Ecl. fold ps in Ecl.
  assert (fb_all s' ps = Ok rs) as Efb.
  { apply (fb_all_cuts Ts [] T0); [exact Ew | exact Hc | right; left; reflexivity]. }
  assert (separated_from 0 rs) as Hsep.
  { apply cuts_sep; [exact Hc|]. intros Z r _. apply jl_le. }
  destruct (format_no_pairs s' ps rs 0 Efb Hsep) as [Efr _].
  split; [exact Efb|]. split; [exact Hsep|]. split; [exact Efr|]. split.
  - rewrite Ecl.
    destruct (format_spec s' (map (fun p => (p, @None nat)) ps) Ew) as (rs0 & Efr0 & _ & _ & _ & _ & Ef & _).
    + intros p pi Hin. apply in_map_iff in Hin. destruct Hin as (p' & E & Hin). inversion E; subst.
      apply (seams_boundary Ts [] T0 Hc p Hin).
    + intros p pi Hin. apply in_map_iff in Hin. destruct Hin as (p' & E & _). discriminate E.
    + rewrite Efr in Efr0. inversion Efr0; subst rs0. exact Ef.
  - transitivity (out_orig 0 T0 Ts).
    + unfold delete_ranges, delete_where.
      apply (del_cuts Ts T0 0 0 (in_rangesb rs)); [|lia | intros i _; reflexivity].
      apply chain_fits; [exact Hc|]. intros Z r _. apply jl_le.
    + symmetry. apply (fold_J_orig Ts [] T0 0 Hc). right. left. split; reflexivity.
Qed.

(** The output text by text: of every [Ti] the bytes from [jr T(i-1) Ti] (the cut at its start)
    up to [length Ti - jl Ti T(i+1)] (the cut at its end) survive, and nothing else: the output
    is [T0' ++ T1' ++ ... ++ Tn'] with [Ti'] a contiguous piece of [Ti]. *)
Corollary clean_multi_block_pieces : forall cfg ds de T0 bs,
  let f := mb_ast T0 bs in
  good_delims ds de -> good_doc ds de (doc_of f) -> bodies_ok (doc_of f) ->
  Forall ast_ok f -> no_unwrap f -> Forall (blk_ready cfg) bs ->
  chain_ok T0 (mb_texts bs) ->
  clean cfg ds de (T0 ++ mb_render ds de bs) = Ok (out_orig 0 T0 (mb_texts bs)) /\
  fits 0 T0 (mb_texts bs).
Proof.
  intros cfg ds de T0 bs f Hgd Hdoc Hbod Hok Hnu Hr Hc.
  destruct (clean_multi_block cfg ds de T0 bs Hgd Hdoc Hbod Hok Hnu Hr Hc) as (_ & _ & _ & Ecl & Ef).
  split.
  - rewrite Ecl, Ef. f_equal. apply (fold_J_orig (mb_texts bs) [] T0 0 Hc). right. left. split; reflexivity.
  - apply chain_fits; [exact Hc|]. intros Z r _. apply jl_le.
Qed.

(* ------------------------------------------------------------------------- *)
(** * Part 6: what [J] does to the lines *)

(** ** The explicit cases of [J] *)

Lemma firstn_exact {X} (x y : list X) n : n = length x -> firstn n (x ++ y) = x.
Proof. intros ->. rewrite firstn_app, firstn_all, Nat.sub_diag. cbn [firstn]. apply app_nil_r. Qed.

Lemma skipn_exact {X} (x y : list X) n : n = length x -> skipn n (x ++ y) = y.
Proof. intros ->. rewrite skipn_app, skipn_all, Nat.sub_diag. reflexivity. Qed.

(** What is kept of [A = A0 ++ NL :: ind] in front of a seam that is not the end of the file. *)
Lemma keepL_code A0 ind Z : blanks ind -> Z <> [] -> blank_line_len (rev A0) = None ->
  firstn (length (A0 ++ NL :: ind) - jl (A0 ++ NL :: ind) Z) (A0 ++ NL :: ind) = A0 ++ [NL].
Proof.
  intros Hi HZ Epb. unfold jl. rewrite (pb_line A0 ind Hi), (ind_len_line A0 ind Hi), Epb.
  destruct Z as [|d Zt]; [contradiction|].
  change (A0 ++ NL :: ind) with (A0 ++ [NL] ++ ind). rewrite app_assoc. apply firstn_exact.
  rewrite !app_length. cbn [length]. lia.
Qed.

Lemma keepL_blank A1 w ind Z : blanks ind -> blanks w ->
  firstn (length ((A1 ++ NL :: w) ++ NL :: ind) - jl ((A1 ++ NL :: w) ++ NL :: ind) Z)
         ((A1 ++ NL :: w) ++ NL :: ind) = A1 ++ [NL].
Proof.
  intros Hi Hw. unfold jl. rewrite (pb_line _ ind Hi), (ind_len_line _ ind Hi).
  rewrite rev_split, (bll_some (rev w) (rev A1) (blanks_rev w Hw)), rev_length.
  replace ((A1 ++ NL :: w) ++ NL :: ind) with ((A1 ++ [NL]) ++ (w ++ NL :: ind))
    by (rewrite <- !app_assoc; reflexivity).
  apply firstn_exact. rewrite !app_length. cbn [length]. rewrite ?app_length. cbn [length]. lia.
Qed.

(** What is kept of [Z = NL :: Zt] behind the seam. *)
Lemma keepR_blank A w y : blanks w -> skipn (jr A (NL :: w ++ NL :: y)) (NL :: w ++ NL :: y) = NL :: y.
Proof.
  intros Hw. unfold jr. rewrite (bll_some w y Hw).
  change (NL :: w ++ NL :: y) with ((NL :: w) ++ NL :: y). apply skipn_exact. reflexivity.
Qed.

Lemma keepR_code A Zt : blank_line_len Zt = None ->
  skipn (jr A (NL :: Zt)) (NL :: Zt) = match pb A with Some _ => NL :: Zt | None => Zt end.
Proof. intros E. unfold jr. rewrite E. destruct (pb A); reflexivity. Qed.

(** The four cases in the middle of the file. *)
Theorem J_mid_neither A0 ind Zt : blanks ind ->
  blank_line_len (rev A0) = None -> blank_line_len Zt = None ->
  J (A0 ++ NL :: ind) (NL :: Zt) = A0 ++ NL :: Zt.
Proof.
  intros Hi Ea Ez. unfold J. rewrite (keepL_code A0 ind (NL :: Zt) Hi ltac:(intros E; discriminate E) Ea).
  rewrite (keepR_code _ Zt Ez), (pb_line A0 ind Hi), Ea, <- app_assoc. reflexivity.
Qed.

Theorem J_mid_prev A1 w ind Zt : blanks ind -> blanks w -> blank_line_len Zt = None ->
  J ((A1 ++ NL :: w) ++ NL :: ind) (NL :: Zt) = A1 ++ NL :: NL :: Zt.
Proof.
  intros Hi Hw Ez. unfold J. rewrite (keepL_blank A1 w ind _ Hi Hw).
  rewrite (keepR_code _ Zt Ez), (pb_line _ ind Hi), rev_split, (bll_some _ _ (blanks_rev w Hw)).
  rewrite <- app_assoc. reflexivity.
Qed.

Theorem J_mid_next A0 ind w y : blanks ind -> blanks w -> blank_line_len (rev A0) = None ->
  J (A0 ++ NL :: ind) (NL :: w ++ NL :: y) = A0 ++ NL :: NL :: y.
Proof.
  intros Hi Hw Ea. unfold J. rewrite (keepL_code A0 ind (NL :: w ++ NL :: y) Hi ltac:(intros E; discriminate E) Ea).
  rewrite (keepR_blank _ w y Hw), <- app_assoc. reflexivity.
Qed.

Theorem J_mid_both A1 w ind w' y : blanks ind -> blanks w -> blanks w' ->
  J ((A1 ++ NL :: w) ++ NL :: ind) (NL :: w' ++ NL :: y) = A1 ++ NL :: NL :: y.
Proof.
  intros Hi Hw Hw'. unfold J. rewrite (keepL_blank A1 w ind _ Hi Hw).
  rewrite (keepR_blank _ w' y Hw'), <- app_assoc. reflexivity.
Qed.

(** At the start of the file ([A] is the indentation of the first block). *)
Theorem J_start_code A Zt : blanks A -> blank_line_len Zt = None -> J A (NL :: Zt) = Zt.
Proof.
  intros HA Ez. unfold J. rewrite (keepR_code A Zt Ez), (pb_blank A HA).
  unfold jl. rewrite (pb_blank A HA), (ind_len_blank A HA), Nat.sub_diag. reflexivity.
Qed.

Theorem J_start_blank A w y : blanks A -> blanks w -> J A (NL :: w ++ NL :: y) = NL :: y.
Proof.
  intros HA Hw. unfold J. rewrite (keepR_blank A w y Hw).
  unfold jl. rewrite (pb_blank A HA), (ind_len_blank A HA), Nat.sub_diag. reflexivity.
Qed.

(** At the end of the file: the residue stays unless the line before it is blank. *)
Theorem J_end_code A0 ind : blanks ind -> blank_line_len (rev A0) = None ->
  J (A0 ++ NL :: ind) [] = A0 ++ NL :: ind.
Proof.
  intros Hi Ea. unfold J, jl, jr. rewrite (pb_line A0 ind Hi), Ea, Nat.sub_0_r, firstn_all.
  apply app_nil_r.
Qed.

Theorem J_end_blank A1 w ind : blanks ind -> blanks w ->
  J ((A1 ++ NL :: w) ++ NL :: ind) [] = A1 ++ [NL].
Proof.
  intros Hi Hw. unfold J. rewrite (keepL_blank A1 w ind [] Hi Hw). apply app_nil_r.
Qed.

Theorem J_all A : blanks A -> J A [] = A.
Proof.
  intros HA. unfold J, jl, jr. rewrite (pb_blank A HA), Nat.sub_0_r, firstn_all. apply app_nil_r.
Qed.

(** ** Lines *)

Fixpoint lines (s : str) : list str :=
  match s with
  | [] => [[]]
  | c :: s' => if beq c NL then [] :: lines s'
               else match lines s' with l :: ls => (c :: l) :: ls | [] => [[c]] end
  end.

Definition blankb (l : str) : bool := forallb is_blank l.
(** The lines with a byte that is not a blank, in order. *)
Definition nbl (s : str) : list str := filter (fun l => negb (blankb l)) (lines s).

Lemma lines_nonempty s : lines s <> [].
Proof.
  induction s as [|c s IH]; [discriminate|]. cbn [lines]. destruct (beq c NL); [discriminate|].
  destruct (lines s); discriminate.
Qed.

Lemma lines_app_nl : forall x y, lines (x ++ NL :: y) = lines x ++ lines y.
Proof.
  induction x as [|c x IH]; intros y; [reflexivity|].
  cbn [app lines]. rewrite IH. destruct (beq c NL); [reflexivity|].
  destruct (lines x) as [|l ls] eqn:E; [destruct (lines_nonempty x E)|]. reflexivity.
Qed.

Lemma lines_no_nl : forall w, ~ In NL w -> lines w = [w].
Proof.
  induction w as [|c w IH]; intros H; [reflexivity|]. cbn [lines].
  destruct (beq c NL) eqn:E; [apply beq_eq in E; subst c; destruct H; left; reflexivity|].
  rewrite IH; [reflexivity|]. intros Hin. apply H. right. exact Hin.
Qed.

Lemma blankb_blanks w : blankb w = true <-> blanks w.
Proof. unfold blankb, blanks. rewrite forallb_forall, Forall_forall. reflexivity. Qed.

Lemma nbl_app_nl x y : nbl (x ++ NL :: y) = nbl x ++ nbl y.
Proof. unfold nbl. rewrite lines_app_nl. apply filter_app. Qed.

Lemma nbl_blank w : blanks w -> nbl w = [].
Proof.
  intros Hw. unfold nbl. rewrite (lines_no_nl w (blanks_no_NL w Hw)). cbn [filter].
  rewrite (proj2 (blankb_blanks w) Hw). reflexivity.
Qed.

Lemma nbl_nil : nbl [] = [].
Proof. reflexivity. Qed.

Lemma nbl_nl y : nbl (NL :: y) = nbl y.
Proof. apply (nbl_app_nl [] y). Qed.

Lemma nbl_snoc_nl x : nbl (x ++ [NL]) = nbl x.
Proof. rewrite nbl_app_nl, nbl_nil. apply app_nil_r. Qed.

(** (a) Every line of [A] and of [Z] that is not blank is a line of [J A Z], byte for byte and in
    order, and [J A Z] has no other line that is not blank. *)
Theorem J_nonblank_lines : forall A Z, ends_ls A -> starts_nl Z -> nbl (J A Z) = nbl A ++ nbl Z.
Proof.
  intros A Z [HA | (A0 & ind & -> & Hi)] [-> | (Zt & ->)].
  - rewrite (J_all A HA), nbl_nil. symmetry. apply app_nil_r.
  - rewrite (nbl_blank A HA), nbl_nl. cbn [app].
    destruct (bll_cases Zt) as [(w & y & -> & Hw & _) | (Ez & _)].
    + rewrite (J_start_blank A w y HA Hw), nbl_nl, nbl_app_nl, (nbl_blank w Hw). reflexivity.
    + rewrite (J_start_code A Zt HA Ez). reflexivity.
  - rewrite nbl_nil, app_nil_r.
    destruct (pb_cases A0) as [(A1 & w & -> & Hw & _) | (Ea & _)].
    + rewrite (J_end_blank A1 w ind Hi Hw), nbl_snoc_nl, !nbl_app_nl.
      rewrite (nbl_blank w Hw), (nbl_blank ind Hi), !app_nil_r. reflexivity.
    + rewrite (J_end_code A0 ind Hi Ea). reflexivity.
  - rewrite nbl_nl, nbl_app_nl, (nbl_blank ind Hi), app_nil_r.
    destruct (pb_cases A0) as [(A1 & w & -> & Hw & _) | (Ea & _)];
      destruct (bll_cases Zt) as [(w' & y & -> & Hw' & _) | (Ez & _)].
    + rewrite (J_mid_both A1 w ind w' y Hi Hw Hw'), !nbl_app_nl, nbl_nl.
      rewrite (nbl_blank w Hw), (nbl_blank w' Hw'), app_nil_r. reflexivity.
    + rewrite (J_mid_prev A1 w ind Zt Hi Hw Ez), !nbl_app_nl, nbl_nl.
      rewrite (nbl_blank w Hw), app_nil_r. reflexivity.
    + rewrite (J_mid_next A0 ind w' y Hi Hw' Ea), !nbl_app_nl, nbl_nl.
      rewrite (nbl_blank w' Hw'). reflexivity.
    + rewrite (J_mid_neither A0 ind Zt Hi Ea Ez), nbl_app_nl. reflexivity.
Qed.

(** The same for the whole fold: the lines of the output that are not blank are those of the
    texts, in order. *)
Lemma ends_ls_after_nonws Z U c V : ends_ls Z -> Z = U ++ c :: V -> is_ws c = false ->
  exists A0 ind, V = A0 ++ NL :: ind /\ blanks ind.
Proof.
  intros HZ E Hc. apply not_ws_parts in Hc. destruct Hc as [Hb Hn].
  destruct HZ as [HZ | (A0 & ind & E' & Hi)].
  - rewrite (blanks_in Z c HZ) in Hb; [discriminate Hb|]. rewrite E. apply in_or_app. right. left. reflexivity.
  - rewrite E in E'. apply app_eq_app in E'. destruct E' as (l & [[E1 E2] | [E1 E2]]).
    + destruct l as [|d l]; cbn [app] in E2; inversion E2; subst.
      * discriminate Hn.
      * rewrite (blanks_in _ c Hi) in Hb; [discriminate Hb|]. apply in_or_app. right. left. reflexivity.
    + destruct l as [|d l]; cbn [app] in E2; inversion E2; subst.
      * discriminate Hn.
      * exists l, ind. split; [reflexivity | exact Hi].
Qed.

Lemma J_ends_ls A Z : starts_nl Z -> ends_ls Z -> nonws Z -> ends_ls (J A Z).
Proof.
  intros HS HZ Hn. destruct (nonws_split Z Hn) as (U & c & V & E & Hc).
  destruct (ends_ls_after_nonws Z U c V HZ E Hc) as (A0 & ind & -> & Hi). subst Z.
  pose proof (jr_le_nonws A U c (A0 ++ NL :: ind) HS Hc) as L.
  right. exists (firstn (length A - jl A (U ++ c :: A0 ++ NL :: ind)) A ++
                 skipn (jr A (U ++ c :: A0 ++ NL :: ind)) U ++ c :: A0), ind.
  split; [|exact Hi]. unfold J. rewrite skipn_app.
  replace (jr A (U ++ c :: A0 ++ NL :: ind) - length U) with 0 by lia. cbn [skipn].
  rewrite <- !app_assoc. reflexivity.
Qed.

Lemma chain_ok_swap A A' Ts : chain_ok A Ts -> (Ts <> [] -> ends_ls A') -> chain_ok A' Ts.
Proof.
  destruct Ts as [|Z r]; intros H H'; [exact I|]. cbn [chain_ok] in *.
  destruct H as (_ & H). split; [apply H'; discriminate | exact H].
Qed.

Theorem fold_J_nonblank_lines : forall Ts A, chain_ok A Ts ->
  nbl (fold_left J Ts A) = nbl A ++ concat (map nbl Ts).
Proof.
  induction Ts as [|Z r IH]; intros A Hc; [symmetry; apply app_nil_r|].
  pose proof Hc as Hc0. cbn [chain_ok] in Hc. destruct Hc as (HA & HZ & Hn & Hc').
  cbn [fold_left map concat]. rewrite IH.
  - rewrite (J_nonblank_lines A Z HA HZ), <- app_assoc. reflexivity.
  - apply (chain_ok_swap Z _ r Hc'). intros Hr. destruct r as [|Z2 r]; [contradiction|].
    cbn [chain_ok] in Hc'. destruct Hc' as (HZe & _). apply J_ends_ls; assumption.
Qed.

(** ** (b) The number of blank lines between the neighbours of a removed block *)

Lemma lines_inv_cons : forall s l L, lines s = l :: L ->
  ~ In NL l /\ ((L = [] /\ s = l) \/ exists s2, s = l ++ NL :: s2 /\ lines s2 = L).
Proof.
  induction s as [|c s IH]; intros l L H.
  - cbn [lines] in H. inversion H; subst. split; [intros []|]. left. split; reflexivity.
  - cbn [lines] in H. destruct (beq c NL) eqn:Ec.
    + apply beq_eq in Ec. subst c. inversion H; subst. split; [intros []|]. right. exists s. split; reflexivity.
    + destruct (lines s) as [|l' L'] eqn:El; [destruct (lines_nonempty s El)|].
      inversion H; subst. destruct (IH l' L eq_refl) as [Hn Hs]. split.
      * intros [E | Hin]; [subst c; discriminate Ec | exact (Hn Hin)].
      * destruct Hs as [[-> ->] | (s2 & -> & E2)]; [left; split; reflexivity|].
        right. exists s2. split; [reflexivity | exact E2].
Qed.

Lemma lines_last : forall L s l, lines s = L ++ [l] ->
  ~ In NL l /\ ((L = [] /\ s = l) \/ exists s1, s = s1 ++ NL :: l /\ lines s1 = L).
Proof.
  induction L as [|l0 L IH]; intros s l H.
  - cbn [app] in H. destruct (lines_inv_cons s l [] H) as [Hn [[_ ->] | (s2 & _ & E2)]].
    + split; [exact Hn|]. left. split; reflexivity.
    + destruct (lines_nonempty s2 E2).
  - cbn [app] in H. destruct (lines_inv_cons s l0 (L ++ [l]) H) as [Hn0 [[E _] | (s2 & -> & E2)]].
    + destruct L; discriminate E.
    + destruct (IH s2 l E2) as [Hn [[-> ->] | (s1 & -> & E1)]]; (split; [exact Hn|]); right.
      * exists l0. split; [reflexivity | apply lines_no_nl; exact Hn0].
      * exists (l0 ++ NL :: s1). split; [rewrite <- app_assoc; reflexivity|].
        rewrite lines_app_nl, (lines_no_nl l0 Hn0), E1. reflexivity.
Qed.

(** A line without line break and with a byte that is not a blank is not a blank line. *)
Lemma bll_code_line l rest : ~ In NL l -> has_nonblank l -> blank_line_len (l ++ rest) = None.
Proof.
  intros Hn H. destruct (has_nonblank_split l H) as (w & c & y & -> & Hw & Hc).
  rewrite <- app_assoc. cbn [app]. unfold blank_line_len. rewrite (span_blank_stop w c _ Hw Hc).
  destruct (beq c NL) eqn:E; [|reflexivity]. apply beq_eq in E. subst c.
  destruct Hn. apply in_or_app. right. left. reflexivity.
Qed.

Definition all_blank_lines (M : list str) : Prop := Forall blanks M.

Ltac ltb_lia :=
  repeat match goal with |- context [?a <? ?b] => destruct (Nat.ltb_spec a b) end;
  cbn [andb]; unfold str, byte in *; lia.

Lemma snoc_cases {X} (l : list X) : l = [] \/ exists l' x, l = l' ++ [x].
Proof. induction l as [|x l _] using rev_ind; [left; reflexivity | right; exists l, x; reflexivity]. Qed.

(** The text in front of the seam, [A = A0 ++ NL :: ind], ends with a line [la] that is not
    blank followed by [b = length BA] blank lines; the text behind it, [Z = NL :: Zt], begins with
    [a = length BZ] blank lines followed by a line [lz] that is not blank.  Then in [J A Z]
    exactly [a + b - (1 if a > 0 and b > 0)] blank lines stand between [la] and [lz], all other
    lines are as they were, and the residue [ind] is gone. *)
Theorem J_blank_count : forall A0 ind Zt LA la BA BZ lz LZ,
  blanks ind ->
  lines A0 = LA ++ [la] ++ BA -> has_nonblank la -> all_blank_lines BA ->
  lines Zt = BZ ++ [lz] ++ LZ -> has_nonblank lz -> all_blank_lines BZ ->
  exists M, lines (J (A0 ++ NL :: ind) (NL :: Zt)) = LA ++ [la] ++ M ++ [lz] ++ LZ /\
    all_blank_lines M /\
    length M = length BZ + length BA -
               (if (0 <? length BZ) && (0 <? length BA) then 1 else 0).
Proof.
  intros A0 ind Zt LA la BA BZ lz LZ Hi EA Hla HBA EZ Hlz HBZ.
  (* the text behind the seam *)
  assert ((BZ = [] /\ blank_line_len Zt = None) \/
          (exists w BZ' y, BZ = w :: BZ' /\ blanks w /\ Zt = w ++ NL :: y /\ lines y = BZ' ++ [lz] ++ LZ)) as CZ.
  { destruct BZ as [|w BZ'].
    - left. split; [reflexivity|]. cbn [app] in EZ.
      destruct (lines_inv_cons Zt lz LZ EZ) as [Hn [[_ ->] | (s2 & -> & _)]].
      + rewrite <- (app_nil_r lz). apply bll_code_line; assumption.
      + apply bll_code_line; assumption.
    - right. cbn [app] in EZ. inversion HBZ as [|? ? Hw HBZ']; subst.
      destruct (lines_inv_cons Zt w _ EZ) as [Hn [[E _] | (y & -> & Ey)]].
      + destruct BZ'; discriminate E.
      + exists w, BZ', y. repeat split; try assumption; reflexivity. }
  (* the text in front of the seam *)
  assert ((BA = [] /\ blank_line_len (rev A0) = None) \/
          (exists BA' w A1, BA = BA' ++ [w] /\ blanks w /\ A0 = A1 ++ NL :: w /\ lines A1 = LA ++ [la] ++ BA')) as CA.
  { destruct (snoc_cases BA) as [-> | (BA' & w & ->)].
    - left. split; [reflexivity|]. rewrite app_nil_r in EA.
      destruct (lines_last LA A0 la EA) as [Hn [[_ ->] | (s1 & -> & _)]].
      + rewrite <- (app_nil_r (rev la)). apply bll_code_line.
        * intros Hin. apply Hn. apply in_rev. exact Hin.
        * apply has_nonblank_rev. exact Hla.
      + rewrite rev_split. apply bll_code_line.
        * intros Hin. apply Hn. apply in_rev. exact Hin.
        * apply has_nonblank_rev. exact Hla.
    - right. unfold all_blank_lines in HBA. apply Forall_app in HBA. destruct HBA as [HBA' Hw].
      inversion Hw as [|? ? Hw' _]; subst.
      replace (LA ++ [la] ++ BA' ++ [w]) with ((LA ++ [la] ++ BA') ++ [w]) in EA
        by (rewrite <- !app_assoc; reflexivity).
      destruct (lines_last _ A0 w EA) as [Hn [[E _] | (s1 & -> & E1)]].
      + destruct LA; discriminate E.
      + exists BA', w, s1. repeat split; try assumption; reflexivity. }
  destruct CA as [[-> Ea] | (BA' & w & A1 & -> & Hw & -> & E1)];
    destruct CZ as [[-> Ez] | (w' & BZ' & y & -> & Hw' & -> & Ey)].
  - exists []. rewrite (J_mid_neither A0 ind Zt Hi Ea Ez), lines_app_nl, EA, EZ.
    rewrite <- !app_assoc. split; [reflexivity|]. split; [constructor | reflexivity].
  - exists ([] :: BZ'). rewrite (J_mid_next A0 ind w' y Hi Hw' Ea), lines_app_nl, EA.
    change (lines (NL :: y)) with ([] :: lines y). rewrite Ey, <- !app_assoc.
    split; [reflexivity|]. inversion HBZ; subst. split; [constructor; [constructor | assumption]|].
    cbn [length app]. ltb_lia.
  - exists (BA' ++ [[]]). rewrite (J_mid_prev A1 w ind Zt Hi Hw Ez), lines_app_nl, E1.
    change (lines (NL :: Zt)) with ([] :: lines Zt). rewrite EZ, <- !app_assoc.
    split; [reflexivity|]. unfold all_blank_lines in *. apply Forall_app in HBA. destruct HBA as [HBA' _].
    split; [apply Forall_app; split; [exact HBA' | constructor; constructor]|].
    rewrite !app_length. cbn [length]. ltb_lia.
  - exists (BA' ++ [[]] ++ BZ'). rewrite (J_mid_both A1 w ind w' y Hi Hw Hw'), lines_app_nl, E1.
    change (lines (NL :: y)) with ([] :: lines y). rewrite Ey, <- !app_assoc.
    split; [reflexivity|]. unfold all_blank_lines in *. apply Forall_app in HBA. destruct HBA as [HBA' _].
    inversion HBZ; subst.
    split; [apply Forall_app; split; [exact HBA' | constructor; [constructor | assumption]]|].
    rewrite !app_length. cbn [length]. rewrite ?app_length. cbn [length]. ltb_lia.
Qed.

(* ------------------------------------------------------------------------- *)
(** ** (b) for the whole document *)

(** What is kept of [A] and of [Z], by shape. *)
Lemma keepL_shape A Z : ends_ls A -> Z <> [] ->
  (blanks A /\ firstn (length A - jl A Z) A = []) \/
  (exists A0 ind X, A = A0 ++ NL :: ind /\ blanks ind /\
     firstn (length A - jl A Z) A = X ++ [NL] /\
     (X = A0 \/ exists w, blanks w /\ A0 = X ++ NL :: w)).
Proof.
  intros [HA | (A0 & ind & -> & Hi)] HZ.
  - left. split; [exact HA|]. unfold jl. rewrite (pb_blank A HA), (ind_len_blank A HA).
    destruct Z; [contradiction|]. rewrite Nat.sub_diag. reflexivity.
  - right. destruct (pb_cases A0) as [(A1 & w & -> & Hw & _) | (Ea & _)].
    + exists (A1 ++ NL :: w), ind, A1. split; [reflexivity|]. split; [exact Hi|].
      split; [apply keepL_blank; assumption|]. right. exists w. split; [exact Hw | reflexivity].
    + exists A0, ind, A0. split; [reflexivity|]. split; [exact Hi|].
      split; [apply keepL_code; assumption|]. left. reflexivity.
Qed.

Lemma keepR_shape A Zt :
  let R := skipn (jr A (NL :: Zt)) (NL :: Zt) in
  R = Zt \/ R = NL :: Zt \/ exists w y, blanks w /\ Zt = w ++ NL :: y /\ R = NL :: y.
Proof.
  intros R. unfold R. destruct (bll_cases Zt) as [(w & y & -> & Hw & _) | (Ez & _)].
  - right. right. exists w, y. split; [exact Hw|]. split; [reflexivity | apply keepR_blank; exact Hw].
  - rewrite (keepR_code A Zt Ez). destruct (pb A); [right; left | left]; reflexivity.
Qed.

Lemma has_nonblank_not_blanks l : has_nonblank l -> blanks l -> False.
Proof. intros (c & Hin & Hc) Hb. rewrite (blanks_in l c Hb Hin) in Hc. discriminate Hc. Qed.

(** A line that is not blank is not the blank last element. *)
Lemma peel {X : list str} {b L1 l L2} : X ++ [b] = L1 ++ l :: L2 -> blanks b -> has_nonblank l ->
  exists L2a, X = L1 ++ l :: L2a.
Proof.
  intros E Hb Hl. destruct (snoc_cases L2) as [-> | (L2a & x & ->)].
  - apply app_inj_tail in E. destruct E as [_ ->]. destruct (has_nonblank_not_blanks l Hl Hb).
  - replace (L1 ++ l :: L2a ++ [x]) with ((L1 ++ l :: L2a) ++ [x]) in E by (rewrite <- app_assoc; reflexivity).
    apply app_inj_tail in E. destruct E as [-> _]. exists L2a. reflexivity.
Qed.

(** The lines of [A] up to a line that is not blank are lines of [J A Z], unchanged. *)
Lemma J_lines_prefix A Z L1 l L2 : ends_ls A -> starts_nl Z ->
  lines A = L1 ++ l :: L2 -> has_nonblank l -> exists L2', lines (J A Z) = L1 ++ l :: L2'.
Proof.
  intros HA HZ EL Hl.
  assert (~ blanks A) as NB.
  { intros HB. rewrite (lines_no_nl A (blanks_no_NL A HB)) in EL.
    destruct L1 as [|x L1]; cbn [app] in EL; inversion EL as [[E1 E2]].
    - subst l. exact (has_nonblank_not_blanks A Hl HB).
    - destruct L1; discriminate E2. }
  destruct HZ as [-> | (Zt & ->)].
  - destruct HA as [HB | (A0 & ind & -> & Hi)]; [contradiction|].
    rewrite lines_app_nl, (lines_no_nl ind (blanks_no_NL ind Hi)) in EL.
    destruct (peel EL Hi Hl) as (L2a & E0).
    destruct (pb_cases A0) as [(A1 & w & -> & Hw & _) | (Ea & _)].
    + rewrite (J_end_blank A1 w ind Hi Hw). rewrite lines_app_nl, (lines_no_nl w (blanks_no_NL w Hw)) in E0.
      destruct (peel E0 Hw Hl) as (L2b & E1). rewrite lines_app_nl, E1, <- app_assoc. eexists. reflexivity.
    + rewrite (J_end_code A0 ind Hi Ea), lines_app_nl, E0, <- app_assoc. eexists. reflexivity.
  - destruct (keepL_shape A (NL :: Zt) HA ltac:(intros E; discriminate E))
      as [[HB _] | (A0 & ind & X & -> & Hi & EK & HX)]; [contradiction|].
    unfold J. rewrite EK, <- app_assoc. cbn [app]. rewrite lines_app_nl.
    rewrite lines_app_nl, (lines_no_nl ind (blanks_no_NL ind Hi)) in EL.
    destruct (peel EL Hi Hl) as (L2a & E0).
    destruct HX as [-> | (w & Hw & ->)].
    + rewrite E0, <- app_assoc. eexists. reflexivity.
    + rewrite lines_app_nl, (lines_no_nl w (blanks_no_NL w Hw)) in E0.
      destruct (peel E0 Hw Hl) as (L2b & E1). rewrite E1, <- app_assoc. eexists. reflexivity.
Qed.

(** The lines of [Z] from a line that is not blank on are lines of [J A Z], unchanged. *)
Lemma J_lines_suffix A Z L1 l L2 : ends_ls A -> starts_nl Z ->
  lines Z = L1 ++ l :: L2 -> has_nonblank l -> exists L1', lines (J A Z) = L1' ++ l :: L2.
Proof.
  intros HA HZ EL Hl. destruct HZ as [-> | (Zt & ->)].
  - cbn [lines] in EL. destruct L1 as [|x L1]; cbn [app] in EL; inversion EL as [[E1 E2]].
    + subst l. destruct Hl as (c & [] & _).
    + destruct L1; discriminate E2.
  - change (lines (NL :: Zt)) with ([] :: lines Zt) in EL.
    destruct L1 as [|x L1t]; cbn [app] in EL; inversion EL as [[E1 E2]].
    { subst l. destruct Hl as (c & [] & _). }
    assert (exists L1', lines (skipn (jr A (NL :: Zt)) (NL :: Zt)) = L1' ++ l :: L2) as (LR & ER).
    { destruct (keepR_shape A Zt) as [-> | [-> | (w & y & Hw & -> & ->)]].
      - exists L1t. exact E2.
      - exists ([] :: L1t). change (lines (NL :: Zt)) with ([] :: lines Zt). rewrite E2. reflexivity.
      - rewrite lines_app_nl, (lines_no_nl w (blanks_no_NL w Hw)) in E2. cbn [app] in E2.
        destruct L1t as [|x' L1u]; cbn [app] in E2; inversion E2 as [[F1 F2]].
        + subst l. destruct (has_nonblank_not_blanks w Hl Hw).
        + exists ([] :: L1u). change (lines (NL :: y)) with ([] :: lines y). rewrite F2. reflexivity. }
    destruct (keepL_shape A (NL :: Zt) HA ltac:(intros E; discriminate E))
      as [[_ EK] | (A0 & ind & X & -> & Hi & EK & _)]; unfold J; rewrite EK.
    + cbn [app]. exists LR. exact ER.
    + rewrite <- app_assoc. cbn [app]. rewrite lines_app_nl, ER. exists (lines X ++ LR).
      rewrite <- app_assoc. reflexivity.
Qed.

(** The join of all texts, and the hypotheses on them. *)
Definition joinall (l : list str) : str := match l with [] => [] | x :: r => fold_left J r x end.
Definition chain_all (l : list str) : Prop := match l with [] => True | x :: r => chain_ok x r end.

Lemma chain_ok_prefix : forall Ts1 Ts2 A, chain_ok A (Ts1 ++ Ts2) -> chain_ok A Ts1.
Proof.
  induction Ts1 as [|Z r IH]; intros Ts2 A H; [exact I|].
  cbn [app chain_ok] in *. destruct H as (H1 & H2 & H3 & H4).
  split; [exact H1|]. split; [exact H2|]. split; [|apply (IH Ts2 Z H4)].
  destruct r; [exact I|]. exact H3.
Qed.

Lemma chain_ok_suffix : forall Ts1 Z Ts2 A, chain_ok A (Ts1 ++ Z :: Ts2) ->
  chain_ok Z Ts2 /\ starts_nl Z /\ (Ts2 <> [] -> ends_ls Z /\ nonws Z).
Proof.
  induction Ts1 as [|Y r IH]; intros Z Ts2 A H.
  - cbn [app chain_ok] in H. destruct H as (_ & H2 & H3 & H4). split; [exact H4|]. split; [exact H2|].
    intros Hne. destruct Ts2 as [|Z2 Ts2]; [contradiction|]. cbn [chain_ok] in H4. split; [apply H4 | exact H3].
  - cbn [app chain_ok] in H. destruct H as (_ & _ & _ & H4). apply (IH Z Ts2 Y H4).
Qed.

Lemma chain_fold_ends : forall Ts T0 A, chain_ok T0 (Ts ++ [A]) ->
  ends_ls (fold_left J Ts T0) /\ starts_nl A.
Proof.
  induction Ts as [|Z r IH]; intros T0 A H.
  - cbn [app chain_ok fold_left] in *. destruct H as (H1 & H2 & _). split; assumption.
  - cbn [app chain_ok fold_left] in *. destruct H as (H1 & H2 & H3 & H4). apply IH.
    apply (chain_ok_swap Z _ _ H4). intros _.
    assert (r ++ [A] <> []) as Hne by (destruct r; discriminate).
    destruct (r ++ [A]) as [|Z2 r2] eqn:E; [contradiction|].
    cbn [chain_ok] in H4. destruct H4 as (H5 & _). apply J_ends_ls; assumption.
Qed.

Lemma joinall_snoc_lines Pre A L1 l L2 : chain_all (Pre ++ [A]) ->
  lines A = L1 ++ l :: L2 -> has_nonblank l ->
  exists L1', lines (joinall (Pre ++ [A])) = L1' ++ l :: L2.
Proof.
  intros Hc EL Hl. destruct Pre as [|T0 Pre']; cbn [app joinall chain_all] in *.
  - exists L1. exact EL.
  - rewrite fold_left_app. cbn [fold_left].
    destruct (chain_fold_ends Pre' T0 A Hc) as [H1 H2].
    apply (J_lines_suffix _ A L1 l L2 H1 H2 EL Hl).
Qed.

Lemma fold_J_lines_prefix : forall Post X L1 l L2, chain_ok X Post ->
  lines X = L1 ++ l :: L2 -> has_nonblank l ->
  exists L2', lines (fold_left J Post X) = L1 ++ l :: L2'.
Proof.
  induction Post as [|Z r IH]; intros X L1 l L2 Hc EL Hl; [exists L2; exact EL|].
  pose proof Hc as Hc0. cbn [chain_ok] in Hc. destruct Hc as (HA & HZ & Hn & Hc').
  cbn [fold_left]. destruct (J_lines_prefix X Z L1 l L2 HA HZ EL Hl) as (L2a & E1).
  apply (IH (J X Z) L1 l L2a); [|exact E1 | exact Hl].
  apply (chain_ok_swap Z _ r Hc'). intros Hr. destruct r as [|Z2 r]; [contradiction|].
  cbn [chain_ok] in Hc'. destruct Hc' as (HZe & _). apply J_ends_ls; assumption.
Qed.

(** (b) for the document: the texts are [Pre ++ [A; Z] ++ Post], a block stood between [A] and
    [Z].  [A = A0 ++ NL :: ind] ends with a line [la] that is not blank, [b = length BA] blank lines
    and the indentation of the block; [Z = NL :: Zt] begins (after the line break that ended the
    block's last line) with [a = length BZ] blank lines and a line [lz] that is not blank.  In the
    output of the whole document [la] and [lz] are lines, and exactly
    [a + b - (1 if a > 0 and b > 0)] lines, all blank, stand between them. *)
Theorem doc_blank_count : forall Pre A0 ind Zt Post LA la BA BZ lz LZ,
  chain_all (Pre ++ (A0 ++ NL :: ind) :: (NL :: Zt) :: Post) -> blanks ind ->
  lines A0 = LA ++ [la] ++ BA -> has_nonblank la -> all_blank_lines BA ->
  lines Zt = BZ ++ [lz] ++ LZ -> has_nonblank lz -> all_blank_lines BZ ->
  exists L' M L'',
    lines (joinall (Pre ++ (A0 ++ NL :: ind) :: (NL :: Zt) :: Post)) = L' ++ [la] ++ M ++ [lz] ++ L'' /\
    all_blank_lines M /\
    length M = length BZ + length BA - (if (0 <? length BZ) && (0 <? length BA) then 1 else 0).
Proof.
  intros Pre A0 ind Zt Post LA la BA BZ lz LZ Hc Hi EA Hla HBA EZ Hlz HBZ.
  set (A := A0 ++ NL :: ind) in *. set (Z := NL :: Zt) in *.
  (* the texts up to A *)
  assert (chain_all (Pre ++ [A])) as Hc1.
  { destruct Pre as [|T0 Pre']; cbn [app chain_all] in *; [exact I|].
    replace (Pre' ++ A :: Z :: Post) with ((Pre' ++ [A]) ++ Z :: Post) in Hc by (rewrite <- app_assoc; reflexivity).
    apply (chain_ok_prefix _ _ _ Hc). }
  assert (lines A = LA ++ la :: (BA ++ [ind])) as ELA.
  { unfold A. rewrite lines_app_nl, EA, (lines_no_nl ind (blanks_no_NL ind Hi)), <- !app_assoc. reflexivity. }
  destruct (joinall_snoc_lines Pre A LA la (BA ++ [ind]) Hc1 ELA Hla) as (L' & E1).
  set (acc := joinall (Pre ++ [A])) in *.
  replace (L' ++ la :: BA ++ [ind]) with ((L' ++ la :: BA) ++ [ind]) in E1 by (rewrite <- app_assoc; reflexivity).
  destruct (lines_last _ acc ind E1) as [_ [[E _] | (s1 & Eacc & Es1)]]; [destruct L'; discriminate E|].
  (* the seam between A and Z *)
  assert (lines s1 = L' ++ [la] ++ BA) as Es1' by exact Es1.
  destruct (J_blank_count s1 ind Zt L' la BA BZ lz LZ Hi Es1' Hla HBA EZ Hlz HBZ) as (M & EJ & HM & LM).
  rewrite <- Eacc in EJ. fold Z in EJ.
  (* the texts behind Z *)
  assert (joinall (Pre ++ A :: Z :: Post) = fold_left J Post (J acc Z)) as Ejoin.
  { unfold acc. destruct Pre as [|T0 Pre']; cbn [app joinall fold_left]; [reflexivity|].
    replace (Pre' ++ A :: Z :: Post) with ((Pre' ++ [A]) ++ Z :: Post) by (rewrite <- app_assoc; reflexivity).
    rewrite fold_left_app. reflexivity. }
  assert (chain_ok (J acc Z) Post) as Hc3.
  { assert (chain_ok Z Post /\ starts_nl Z /\ (Post <> [] -> ends_ls Z /\ nonws Z)) as (C1 & C2 & C3).
    { destruct Pre as [|T0 Pre']; cbn [app chain_all] in Hc.
      - apply (chain_ok_suffix [] Z Post A Hc).
      - apply (chain_ok_suffix (Pre' ++ [A]) Z Post T0). rewrite <- app_assoc. exact Hc. }
    apply (chain_ok_swap Z _ Post C1). intros Hne. destruct (C3 Hne) as [C4 C5].
    apply J_ends_ls; assumption. }
  replace (L' ++ [la] ++ M ++ [lz] ++ LZ) with ((L' ++ [la] ++ M) ++ lz :: LZ) in EJ
    by (rewrite <- !app_assoc; reflexivity).
  destruct (fold_J_lines_prefix Post (J acc Z) _ lz LZ Hc3 EJ Hlz) as (L'' & EF).
  exists L', M, L''. rewrite Ejoin, EF, <- !app_assoc. split; [reflexivity|]. split; assumption.
Qed.

(* ------------------------------------------------------------------------- *)
(** ** No residue: every text begins and ends with a line of code *)

(** The first line of [C] has a byte that is not whitespace; the last line of [C] has one. *)
Definition first_code (C : str) : Prop := exists w c y, C = w ++ c :: y /\ blanks w /\ is_ws c = false.
Definition last_code (C : str) : Prop := exists y c w, C = y ++ c :: w /\ blanks w /\ is_ws c = false.

Lemma first_code_bll C rest : first_code C -> blank_line_len (C ++ rest) = None.
Proof.
  intros (w & c & y & -> & Hw & Hc). rewrite <- app_assoc. cbn [app]. apply bll_code; assumption.
Qed.

Lemma last_code_bll C : last_code C -> blank_line_len (rev C) = None.
Proof.
  intros (y & c & w & -> & Hw & Hc). rewrite rev_split. apply bll_code; [apply blanks_rev|]; assumption.
Qed.

Lemma last_code_app X C : last_code C -> last_code (X ++ C).
Proof.
  intros (y & c & w & -> & Hw & Hc). exists (X ++ y), c, w. split; [apply app_assoc|]. split; assumption.
Qed.

Lemma first_code_nonws C rest : first_code C -> nonws (NL :: C ++ rest).
Proof.
  intros (w & c & y & -> & _ & Hc). exists c. split; [|exact Hc].
  right. apply in_or_app. left. apply in_or_app. right. left. reflexivity.
Qed.

(** Between two lines of code the seam leaves exactly one line break. *)
Theorem J_code A0 ind C rest : blanks ind -> last_code A0 -> first_code C ->
  J (A0 ++ NL :: ind) (NL :: C ++ rest) = A0 ++ NL :: C ++ rest.
Proof.
  intros Hi HA HC. apply J_mid_neither; [exact Hi | apply last_code_bll; exact HA | apply first_code_bll; exact HC].
Qed.

(** The texts [T1 = NL :: C1 ++ NL :: ind2], ..., [Tn = NL :: Cn], and the output behind [C0]. *)
Fixpoint nr_texts (mid : list (str * str)) (Cn : str) : list str :=
  match mid with
  | [] => [NL :: Cn]
  | (C, ind) :: r => (NL :: C ++ NL :: ind) :: nr_texts r Cn
  end.
Fixpoint nr_out (mid : list (str * str)) (Cn : str) : str :=
  match mid with
  | [] => NL :: Cn
  | (C, ind) :: r => NL :: C ++ nr_out r Cn
  end.
Definition nr_ok (mid : list (str * str)) : Prop :=
  Forall (fun ci => first_code (fst ci) /\ last_code (fst ci) /\ blanks (snd ci)) mid.

Lemma fold_J_no_residue : forall mid C0 ind0 Cn,
  blanks ind0 -> last_code C0 -> nr_ok mid -> first_code Cn ->
  fold_left J (nr_texts mid Cn) (C0 ++ NL :: ind0) = C0 ++ nr_out mid Cn.
Proof.
  induction mid as [|[C ind] r IH]; intros C0 ind0 Cn Hi H0 Hm Hn.
  - cbn [nr_texts nr_out fold_left]. rewrite <- (app_nil_r Cn) at 1.
    rewrite (J_code C0 ind0 Cn [] Hi H0 Hn), app_nil_r. reflexivity.
  - inversion Hm as [|? ? (H1 & H2 & H3) Hm']; subst. cbn [fst snd] in *.
    cbn [nr_texts nr_out fold_left]. rewrite (J_code C0 ind0 C (NL :: ind) Hi H0 H1).
    replace (C0 ++ NL :: C ++ NL :: ind) with ((C0 ++ NL :: C) ++ NL :: ind)
      by (rewrite <- app_assoc; reflexivity).
    assert (last_code (C0 ++ NL :: C)) as H0'.
    { change (C0 ++ NL :: C) with (C0 ++ [NL] ++ C). rewrite app_assoc. apply last_code_app. exact H2. }
    rewrite (IH (C0 ++ NL :: C) ind Cn H3 H0' Hm' Hn).
    rewrite <- app_assoc. reflexivity.
Qed.

Lemma nr_texts_nonempty mid Cn : nr_texts mid Cn <> [].
Proof. destruct mid as [|[C ind] r]; discriminate. Qed.

Lemma nr_chain : forall mid A Cn, ends_ls A -> nr_ok mid -> chain_ok A (nr_texts mid Cn).
Proof.
  induction mid as [|[C ind] r IH]; intros A Cn HA Hm.
  - cbn [nr_texts chain_ok]. split; [exact HA|]. split; [right; exists Cn; reflexivity|]. split; exact I.
  - inversion Hm as [|? ? (H1 & H2 & H3) Hm']; subst. cbn [fst snd] in *.
    cbn [nr_texts chain_ok]. split; [exact HA|]. split; [right; eexists; reflexivity|]. split.
    + destruct (nr_texts r Cn) eqn:E; [destruct (nr_texts_nonempty r Cn E)|].
      apply first_code_nonws. exact H1.
    + apply IH; [|exact Hm']. right. exists (NL :: C), ind. split; [reflexivity | exact H3].
Qed.

(** The first block starts the file: its indentation goes as well. *)
Lemma fold_J_no_residue_start : forall mid ind0 Cn,
  blanks ind0 -> nr_ok mid -> first_code Cn ->
  fold_left J (nr_texts mid Cn) ind0 = skipn 1 (nr_out mid Cn).
Proof.
  intros [|[C ind] r] ind0 Cn Hi Hm Hn.
  - cbn [nr_texts nr_out fold_left skipn]. apply J_start_code; [exact Hi|].
    rewrite <- (app_nil_r Cn). apply first_code_bll. exact Hn.
  - inversion Hm as [|? ? (H1 & H2 & H3) Hm']; subst. cbn [fst snd] in *.
    cbn [nr_texts nr_out fold_left skipn].
    rewrite (J_start_code ind0 (C ++ NL :: ind) Hi (first_code_bll C _ H1)).
    apply fold_J_no_residue; assumption.
Qed.

(** Part 4 of the theorem: when every text begins and ends with a line of code, the output is
    the input without the lines of the blocks: of every block only one line break is left. *)
Theorem clean_multi_block_no_residue : forall cfg ds de C0 ind0 bs mid Cn,
  let T0 := C0 ++ NL :: ind0 in
  let f := mb_ast T0 bs in
  good_delims ds de -> good_doc ds de (doc_of f) -> bodies_ok (doc_of f) ->
  Forall ast_ok f -> no_unwrap f -> Forall (blk_ready cfg) bs ->
  blanks ind0 -> last_code C0 -> mb_texts bs = nr_texts mid Cn -> nr_ok mid -> first_code Cn ->
  clean cfg ds de (T0 ++ mb_render ds de bs) = Ok (C0 ++ nr_out mid Cn).
Proof.
  intros cfg ds de C0 ind0 bs mid Cn T0 f Hgd Hdoc Hbod Hok Hnu Hr Hi H0 ET Hm Hn.
  assert (chain_ok T0 (mb_texts bs)) as Hc.
  { rewrite ET. apply nr_chain; [|exact Hm]. right. exists C0, ind0. split; [reflexivity | exact Hi]. }
  destruct (clean_multi_block cfg ds de T0 bs Hgd Hdoc Hbod Hok Hnu Hr Hc) as (_ & _ & _ & Ecl & Ef).
  rewrite Ecl, Ef, ET. f_equal. apply fold_J_no_residue; assumption.
Qed.

(** The lines of the output that are not blank are those of the texts, for every multi-block
    document of the theorem. *)
Corollary clean_multi_block_lines : forall cfg ds de T0 bs,
  let f := mb_ast T0 bs in
  good_delims ds de -> good_doc ds de (doc_of f) -> bodies_ok (doc_of f) ->
  Forall ast_ok f -> no_unwrap f -> Forall (blk_ready cfg) bs ->
  chain_ok T0 (mb_texts bs) ->
  exists out, clean cfg ds de (T0 ++ mb_render ds de bs) = Ok out /\
    out = fold_left J (mb_texts bs) T0 /\
    nbl out = nbl T0 ++ concat (map nbl (mb_texts bs)).
Proof.
  intros cfg ds de T0 bs f Hgd Hdoc Hbod Hok Hnu Hr Hc.
  destruct (clean_multi_block cfg ds de T0 bs Hgd Hdoc Hbod Hok Hnu Hr Hc) as (_ & _ & _ & Ecl & Ef).
  exists (fold_left J (mb_texts bs) T0). split; [rewrite Ecl, Ef; reflexivity|].
  split; [reflexivity|]. apply fold_J_nonblank_lines. exact Hc.
Qed.

(** (b) for the output of [clean]: the texts [T0; T1; ...; Tn] are [Pre ++ [A; Z] ++ Post]. *)
Corollary clean_multi_block_blank_count : forall cfg ds de T0 bs Pre A0 ind Zt Post LA la BA BZ lz LZ,
  let f := mb_ast T0 bs in
  good_delims ds de -> good_doc ds de (doc_of f) -> bodies_ok (doc_of f) ->
  Forall ast_ok f -> no_unwrap f -> Forall (blk_ready cfg) bs ->
  chain_ok T0 (mb_texts bs) ->
  T0 :: mb_texts bs = Pre ++ (A0 ++ NL :: ind) :: (NL :: Zt) :: Post -> blanks ind ->
  lines A0 = LA ++ [la] ++ BA -> has_nonblank la -> all_blank_lines BA ->
  lines Zt = BZ ++ [lz] ++ LZ -> has_nonblank lz -> all_blank_lines BZ ->
  exists out L' M L'',
    clean cfg ds de (T0 ++ mb_render ds de bs) = Ok out /\
    lines out = L' ++ [la] ++ M ++ [lz] ++ L'' /\ all_blank_lines M /\
    length M = length BZ + length BA - (if (0 <? length BZ) && (0 <? length BA) then 1 else 0).
Proof.
  intros cfg ds de T0 bs Pre A0 ind Zt Post LA la BA BZ lz LZ f Hgd Hdoc Hbod Hok Hnu Hr Hc
         ET Hi EA Hla HBA EZ Hlz HBZ.
  destruct (clean_multi_block cfg ds de T0 bs Hgd Hdoc Hbod Hok Hnu Hr Hc) as (_ & _ & _ & Ecl & Ef).
  assert (chain_all (Pre ++ (A0 ++ NL :: ind) :: (NL :: Zt) :: Post)) as Hca by (rewrite <- ET; exact Hc).
  destruct (doc_blank_count Pre A0 ind Zt Post LA la BA BZ lz LZ Hca Hi EA Hla HBA EZ Hlz HBZ)
    as (L' & M & L'' & EL & HM & LM).
  rewrite <- ET in EL. cbn [joinall] in EL.
  exists (fold_left J (mb_texts bs) T0), L', M, L''.
  split; [rewrite Ecl, Ef; reflexivity|]. split; [exact EL|]. split; assumption.
Qed.

(* ------------------------------------------------------------------------- *)
(** * Part 7: an instance, and what happens without separation *)

(** Three blocks: the first starts the file (indented by two blanks); the second has an empty
    line before and after it and contains a pending element (everything inside goes); the second
    and the third are separated by the single line of code "y".

<<
  <!tl to='2000-01-01 00:00:00'>
  old
  <!/tl>
x

  <!rm name='f'>
  <!tl to='2030-01-01 00:00:00'>q<!/tl>
  <!/rm>

y
<!tl to='2000-01-01 00:00:00'>
w
<!/tl>
z
>> *)
Definition mbx_T0 : str := [32;32]%N.
Definition mbx_T1 : str := [10;120;10;10;32;32]%N.       (* "\nx\n\n  " *)
Definition mbx_T2 : str := [10;10;121;10]%N.             (* "\n\ny\n" *)
Definition mbx_T3 : str := [10;122;10]%N.                (* "\nz\n" *)
Definition mbx_bs : list block :=
  [ (b_tl_ready, b_tl_close, [AT [10;32;32;111;108;100;10;32;32]%N], mbx_T1);
    (b_rm_ready, b_rm_close,
     [AT [10;32;32]%N; AE b_tl_pending b_tl_close [AT [113]%N]; AT [10;32;32]%N], mbx_T2);
    (b_tl_ready, b_tl_close, [AT [10;119;10]%N], mbx_T3) ].
Definition mbx_out : str := [120;10;10;121;10;122;10]%N.  (* "x\n\ny\nz\n" *)

Example mbx_premises :
  let f := mb_ast mbx_T0 mbx_bs in
  good_delims id_ds id_de /\ good_doc id_ds id_de (doc_of f) /\ bodies_ok (doc_of f) /\
  Forall ast_ok f /\ no_unwrap f /\ Forall (blk_ready ac_cfg) mbx_bs /\
  chain_ok mbx_T0 (mb_texts mbx_bs).
Proof.
  intros f. split; [exact id_delims|]. split.
  { apply doc_checkb_ok; [vm_compute; repeat split; discriminate | vm_compute; reflexivity]. }
  split; [apply bodies_okb_sound; vm_compute; reflexivity|].
  split; [apply forest_okb_sound; vm_compute; reflexivity|].
  split; [apply no_unwrapb_sound; vm_compute; reflexivity|].
  split; [repeat constructor|].
  cbn [mbx_bs mb_texts map blk_text chain_ok].
  assert (forall w, forallb is_blank w = true -> blanks w) as Bl by (intros w; apply blankb_blanks).
  split; [left; apply Bl; reflexivity|].
  split; [right; eexists; reflexivity|].
  split; [exists 120%N; split; [cbn; tauto | reflexivity]|].
  split; [right; exists [10;120;10]%N, [32;32]%N; split; [reflexivity | apply Bl; reflexivity]|].
  split; [right; eexists; reflexivity|].
  split; [exists 121%N; split; [cbn; tauto | reflexivity]|].
  split; [right; exists [10;10;121]%N, []; split; [reflexivity | constructor]|].
  split; [right; eexists; reflexivity|]. split; exact I.
Qed.

(** The rendering, the seams and their ranges, and the output, by the theorem. *)
Example mbx_clean :
  let s := mbx_T0 ++ mb_render id_ds id_de mbx_bs in
  s = render id_ds id_de (doc_of (mb_ast mbx_T0 mbx_bs)) /\
  length s = 162 /\
  mb_rest mbx_T0 mbx_bs = [32;32;10;120;10;10;32;32;10;10;121;10;10;122;10]%N /\
  seams (length mbx_T0) (mb_texts mbx_bs) = [2; 8; 12] /\
  cuts (length mbx_T0) mbx_T0 (mb_texts mbx_bs) = [(0, 3); (5, 9); (12, 13)] /\
  clean ac_cfg id_ds id_de s = Ok mbx_out.
Proof.
  intros s. destruct mbx_premises as (Hgd & Hdoc & Hbod & Hok & Hnu & Hr & Hc).
  destruct (clean_multi_block ac_cfg id_ds id_de mbx_T0 mbx_bs Hgd Hdoc Hbod Hok Hnu Hr Hc)
    as (_ & _ & _ & Ecl & Ef).
  split; [symmetry; apply mb_render_eq|]. split; [vm_compute; reflexivity|].
  split; [vm_compute; reflexivity|]. split; [vm_compute; reflexivity|].
  split; [vm_compute; reflexivity|].
  (* by the theorem; only the fold of [J] over the four texts is computed *)
  unfold s. rewrite Ecl, Ef. vm_compute. reflexivity.
Qed.

(** The same value by running the model. *)
Example mbx_run :
  clean ac_cfg id_ds id_de (mbx_T0 ++ mb_render id_ds id_de mbx_bs) = Ok mbx_out.
Proof. vm_compute. reflexivity. Qed.

(** Around the second block: one empty line before it, one after it, one left
    ([a + b - 1 = 1]); the lines that are not blank are those of the texts. *)
Example mbx_lines :
  lines mbx_out = [[120]; []; [121]; [122]; []]%N /\
  nbl mbx_out = nbl mbx_T0 ++ nbl mbx_T1 ++ nbl mbx_T2 ++ nbl mbx_T3.
Proof. split; vm_compute; reflexivity. Qed.

(** The same for the second block by the theorem: [A = T1 = "\nx\n" ++ NL :: "  "] ends with the
    line "x" and one empty line, [Z = T2 = NL :: "\ny\n"] begins with one empty line and the line
    "y": one blank line is left between "x" and "y". *)
Example mbx_count :
  exists out L' M L'',
    clean ac_cfg id_ds id_de (mbx_T0 ++ mb_render id_ds id_de mbx_bs) = Ok out /\
    lines out = L' ++ [[120%N]] ++ M ++ [[121%N]] ++ L'' /\ all_blank_lines M /\ length M = 1.
Proof.
  destruct mbx_premises as (Hgd & Hdoc & Hbod & Hok & Hnu & Hr & Hc).
  assert (forall w, forallb is_blank w = true -> blanks w) as Bl by (intros w; apply blankb_blanks).
  apply (clean_multi_block_blank_count ac_cfg id_ds id_de mbx_T0 mbx_bs
           [mbx_T0] [10;120;10]%N [32;32]%N [10;121;10]%N [mbx_T3]
           [[]] [120%N] [[]] [[]] [121%N] [[]] Hgd Hdoc Hbod Hok Hnu Hr Hc).
  - reflexivity.
  - apply Bl. reflexivity.
  - reflexivity.
  - exists 120%N. split; [left; reflexivity | reflexivity].
  - repeat constructor.
  - reflexivity.
  - exists 121%N. split; [left; reflexivity | reflexivity].
  - repeat constructor.
Qed.

(** ** Without separation

    When two blocks follow each other with nothing but a line break between them,
    "a\n<B>\n<B>\nb", the remaining text is "a\n\n\nb" with the seams 2 and 3.  Each seam sees the
    line of the other one as a blank neighbour line: both ranges are (2, 3), they are merged, one
    line break of the two is deleted and the output "a\n\nb" has a blank line that is no line of
    the input (the fold of [J] would give "a\nb").  The property excludes this case (the blocks
    are not separated by a line that is not blank). *)
Definition mbx_blk (T : str) : block := (b_tl_ready, b_tl_close, [AT [10;119;10]%N], T).

Example mbx_unseparated :
  let bs := [mbx_blk [10]%N; mbx_blk [10;98]%N] in
  mb_rest [97;10]%N bs = [97;10;10;10;98]%N /\
  seams 2 (mb_texts bs) = [2; 3] /\
  fb_all [97;10;10;10;98]%N [2; 3] = Ok [(2, 3); (2, 3)] /\
  format_ranges [97;10;10;10;98]%N [(2, None); (3, None)] = Ok [(2, 3)] /\
  clean ac_cfg id_ds id_de ([97;10]%N ++ mb_render id_ds id_de bs) = Ok [97;10;10;98]%N /\
  fold_left J (mb_texts bs) [97;10]%N = [97;10;98]%N /\
  ~ chain_ok [97;10]%N (mb_texts bs).
Proof.
  intros bs. repeat (split; [vm_compute; reflexivity|]).
  cbn [bs mb_texts map mbx_blk blk_text chain_ok]. intros (_ & _ & (c & Hin & Hc) & _).
  destruct Hin as [<- | []]. discriminate Hc.
Qed.

(** With blank lines only between the two blocks, "a\n\n<B>\n\n\n<B>\n\nb": the two ranges
    (2, 4) and (5, 7) are disjoint but both blocks share their blank neighbour lines; here the
    output happens to agree with the fold of [J]. *)
Example mbx_blank_between :
  let bs := [mbx_blk [10;10;10]%N; mbx_blk [10;10;98]%N] in
  fb_all (mb_rest [97;10;10]%N bs) (seams 3 (mb_texts bs)) = Ok [(2, 4); (5, 7)] /\
  clean ac_cfg id_ds id_de ([97;10;10]%N ++ mb_render id_ds id_de bs) = Ok [97;10;10;10;98]%N /\
  fold_left J (mb_texts bs) [97;10;10]%N = [97;10;10;10;98]%N.
Proof. intros bs. repeat split; vm_compute; reflexivity. Qed.

(** At the end of the file the indentation of the last block stays when the line before it is
    not blank: "x\n <B>" gives "x\n " (the model of the Rust code, not a property of C13: the
    residue is no line of its own with a line break, and it is blank). *)
Example mbx_end_of_file :
  clean ac_cfg id_ds id_de ([120;10;32]%N ++ mb_render id_ds id_de [mbx_blk []]) = Ok [120;10;32]%N /\
  J [120;10;32]%N [] = [120;10;32]%N.
Proof. split; vm_compute; reflexivity. Qed.

(* ------------------------------------------------------------------------- *)
Print Assumptions clean_tops.
Print Assumptions mb_removal.
Print Assumptions format_no_pairs.
Print Assumptions format_block_J.
Print Assumptions format_block_local.
Print Assumptions format_block_local_shift.
Print Assumptions clean_multi_block.
Print Assumptions clean_multi_block_pieces.
Print Assumptions J_nonblank_lines.
Print Assumptions fold_J_nonblank_lines.
Print Assumptions J_blank_count.
Print Assumptions doc_blank_count.
Print Assumptions clean_multi_block_blank_count.
Print Assumptions J_mid_neither.
Print Assumptions J_mid_prev.
Print Assumptions J_mid_next.
Print Assumptions J_mid_both.
Print Assumptions J_start_code.
Print Assumptions J_start_blank.
Print Assumptions J_end_code.
Print Assumptions J_end_blank.
Print Assumptions J_all.
Print Assumptions clean_multi_block_no_residue.
Print Assumptions fold_J_no_residue_start.
Print Assumptions clean_multi_block_lines.
Print Assumptions mbx_premises.
Print Assumptions mbx_clean.
Print Assumptions mbx_count.
Print Assumptions mbx_unseparated.
