(** C18: the tokenizer does not depend on the spelling of the delimiters, on documents in which
    the delimiter bytes occur nowhere else.

    DEVIATION from the requested statements.  [scan] (and the model, and the Rust code) skips
    [char_len b0] bytes after the start delimiter, where [b0] is the first byte of the body.  If
    the body is shorter than [char_len b0] (possible only for ill-formed UTF-8) the skip runs
    into / beyond the end delimiter and the statements are FALSE (see [scan_rendered_counterexample]
    and [token_kinds_counterexample] below).  Weakest natural repair: every tag body contains its
    whole first character, [bodies_ok doc].  It follows from [wf_utf8 body = true]
    ([wf_bodies_ok]); [_wf] variants of the theorems are provided. *)
From Coq Require Import List NArith Arith Bool Lia PeanoNat.
Import ListNotations.
From Chiri Require Import Base.Bytes Base.Res Model.Tokenizer Model.TagParser Spec.Scan Spec.Rename
  Proofs.ResLemmas Proofs.BytesLemmas Proofs.Utf8 Proofs.TokenizerProofs.

(** The extra premise: the first character of every tag body lies within the body. *)
Definition body_ok (b : str) : Prop :=
  match b with [] => True | b0 :: _ => char_len b0 <= length b end.
Definition bodies_ok (doc : list item) : Prop := forall b, In (Tag b) doc -> body_ok b.

(* ------------------------------------------------------------------------- *)
(** * Counterexamples to the statements without [bodies_ok] *)

Lemma scan_rendered_counterexample :
  let ds := [60%N] in let de := [62%N] in let doc := [Tag [200%N]] in
  ds <> [] /\ de <> [] /\ normal doc /\ doc_disjoint ds de doc /\
  scan_spans (render ds de doc) ds de = [(false, 0, 3)] /\
  spans_of ds de 0 doc = [(true, 0, 3)].
Proof.
  cbv zeta. split; [discriminate|]. split; [discriminate|].
  split; [cbn; split; [discriminate | exact I]|].
  split.
  - intros i [H|[]]. subst i. intros b [Hb|[]]. subst b.
    split; intros [E|[]]; discriminate E.
  - split; vm_compute; reflexivity.
Qed.

Lemma token_kinds_counterexample :
  let ds := [60%N] in let de := [62%N] in
  let doc := [Tag [200%N]; Txt [65%N]; Tag [66%N]] in
  normal doc /\ doc_disjoint ds de doc /\
  exists ts, tokenize (render ds de doc) ds de = Ok ts /\ length ts = 1 /\ length doc = 3.
Proof.
  cbv zeta. split; [|split].
  - cbn. repeat split; discriminate.
  - intros i [H|[H|[H|[]]]]; subst i; intros b [Hb|[]]; subst b;
      (split; intros [E|[]]; discriminate E).
  - eexists. split; [vm_compute; reflexivity|]. split; reflexivity.
Qed.

(* ------------------------------------------------------------------------- *)
(** * Searching for a pattern whose bytes do not occur in the skipped text *)

Lemma prefix_head_notin p c s : p <> [] -> ~ In c p -> prefix p (c :: s) = false.
Proof.
  intros Hp Hc. destruct p as [|a p']; [congruence|]. cbn [prefix].
  assert (Hn : beq a c = false).
  { apply beq_neq. intros E. apply Hc. left. exact E. }
  rewrite Hn. reflexivity.
Qed.

Lemma find_sub_prefix p s : prefix p s = true -> find_sub p s = Some 0.
Proof. intros H. destruct s; cbn [find_sub]; rewrite H; reflexivity. Qed.

Lemma find_sub_skip : forall p t y,
  (forall b, In b t -> ~ In b p) -> p <> [] -> find_sub p (t ++ p ++ y) = Some (length t).
Proof.
  intros p t y Ht Hp. induction t as [|c t IH].
  - cbn [app length]. apply find_sub_prefix. apply prefix_app.
  - cbn [app length find_sub].
    rewrite (prefix_head_notin p c (t ++ p ++ y) Hp (Ht c (or_introl eq_refl))).
    rewrite IH; [reflexivity|]. intros b Hb. apply Ht. right. exact Hb.
Qed.

Lemma find_sub_absent : forall p t,
  (forall b, In b t -> ~ In b p) -> p <> [] -> find_sub p t = None.
Proof.
  intros p t Ht Hp. induction t as [|c t IH].
  - destruct p as [|a p']; [congruence|]. reflexivity.
  - cbn [find_sub].
    rewrite (prefix_head_notin p c t Hp (Ht c (or_introl eq_refl))).
    rewrite IH; [reflexivity|]. intros b Hb. apply Ht. right. exact Hb.
Qed.

Lemma skipn_app_eq {A} : forall n (l r : list A), n = length l -> skipn n (l ++ r) = r.
Proof.
  intros n l r E. subst n. induction l as [|a l IH]; [reflexivity|]. cbn. exact IH.
Qed.

Lemma In_skipn {A} (x : A) k l : In x (skipn k l) -> In x l.
Proof.
  intros H. rewrite <- (firstn_skipn k l). apply in_or_app. right. exact H.
Qed.

(* ------------------------------------------------------------------------- *)
(** * One round of the scan on a rendered tag preceded by text *)

Lemma elem_of_render ds de t b y :
  ds <> [] -> de <> [] ->
  (forall x, In x t -> ~ In x ds) -> disjoint_from ds de b -> b <> [] -> body_ok b ->
  elem_of ds de (t ++ ds ++ b ++ de ++ y)
  = Some (length t, length t + length ds + length b + length de).
Proof.
  intros Nds Nde Ht Hb Nb Hok. unfold elem_of.
  rewrite (find_sub_skip ds t (b ++ de ++ y) Ht Nds).
  assert (S1 : skipn (length t + length ds) (t ++ ds ++ b ++ de ++ y) = b ++ de ++ y).
  { rewrite (app_assoc t ds). apply skipn_app_eq. rewrite app_length. reflexivity. }
  destruct b as [|b0 b']; [congruence|].
  rewrite S1. cbn [app]. unfold body_ok in Hok.
  set (k := char_len b0) in *.
  assert (S2 : skipn (length t + length ds + k) (t ++ ds ++ (b0 :: b') ++ de ++ y)
               = skipn k (b0 :: b') ++ de ++ y).
  { rewrite <- skipn_add. rewrite S1. rewrite skipn_app.
    replace (k - length (b0 :: b')) with 0 by lia. reflexivity. }
  cbn [app] in S2. rewrite S2.
  rewrite find_sub_skip; [| | exact Nde].
  - rewrite skipn_length. f_equal. f_equal. cbn [length] in *. lia.
  - intros x Hx. apply In_skipn in Hx. apply (Hb x Hx).
Qed.

Lemma elem_of_text ds t : ds <> [] -> (forall x, In x t -> ~ In x ds) ->
  forall de, elem_of ds de t = None.
Proof.
  intros Nds Ht de. unfold elem_of. rewrite (find_sub_absent ds t Ht Nds). reflexivity.
Qed.

(* ------------------------------------------------------------------------- *)
(** * The scan of a rendered document *)

Lemma doc_disjoint_tail ds de i doc : doc_disjoint ds de (i :: doc) -> doc_disjoint ds de doc.
Proof. intros H j Hj. apply H. right. exact Hj. Qed.

Lemma bodies_ok_tail i doc : bodies_ok (i :: doc) -> bodies_ok doc.
Proof. intros H b Hb. apply H. right. exact Hb. Qed.

Lemma normal_tail i doc : normal (i :: doc) -> normal doc.
Proof. destruct i; cbn; tauto. Qed.

Lemma scan_render_gen ds de : ds <> [] -> de <> [] ->
  forall n doc, length doc <= n -> forall fuel pos,
  normal doc -> doc_disjoint ds de doc -> bodies_ok doc ->
  length (render ds de doc) < fuel ->
  scan fuel ds de pos (render ds de doc) = spans_of ds de pos doc.
Proof.
  intros Nds Nde.
  assert (Lds : 1 <= length ds) by (destruct ds; [congruence | cbn; lia]).
  induction n as [|n IH]; intros doc Hlen fuel pos Hn Hd Hb Hf.
  - destruct doc; [|cbn in Hlen; lia]. cbn. apply scan_nil.
  - destruct doc as [|[t|b] rest].
    + cbn. apply scan_nil.
    + (* text first *)
      destruct rest as [|[t2|b] rest'].
      * (* trailing text *)
        cbn [render flat_map render_item spans_of] in *. rewrite app_nil_r in *.
        destruct Hn as [Nt _].
        destruct fuel as [|f]; [lia|].
        rewrite scan_S by exact Nt.
        rewrite elem_of_text; [reflexivity | exact Nds |].
        intros x Hx. apply (Hd (Txt t) (or_introl eq_refl) x Hx).
      * cbn in Hn. tauto.
      * (* text, then a tag *)
        cbn [render flat_map render_item spans_of] in *.
        fold (render ds de rest') in *.
        destruct Hn as [Nt [_ [Nb Hn]]].
        destruct fuel as [|f]; [lia|].
        rewrite <- !app_assoc.
        rewrite scan_S by (destruct t; [congruence | discriminate]).
        rewrite elem_of_render; try assumption.
        -- assert (Ht0 : (length t =? 0) = false).
           { apply Nat.eqb_neq. destruct t; [congruence | cbn; lia]. }
           rewrite Ht0. cbn [app].
           rewrite (app_assoc ds b), (app_assoc (ds ++ b) de), (app_assoc t).
           rewrite skipn_app_eq by (rewrite !app_length; lia).
           rewrite IH.
           ++ rewrite !app_length.
              replace (pos + length t + (length ds + (length b + length de)))
                with (pos + (length t + length ds + length b + length de)) by lia.
              reflexivity.
           ++ cbn in Hlen. lia.
           ++ exact Hn.
           ++ apply doc_disjoint_tail with (i := Tag b).
              apply doc_disjoint_tail with (i := Txt t). exact Hd.
           ++ apply bodies_ok_tail with (i := Tag b).
              apply bodies_ok_tail with (i := Txt t). exact Hb.
           ++ rewrite !app_length in Hf. lia.
        -- intros x Hx. apply (Hd (Txt t) (or_introl eq_refl) x Hx).
        -- apply (Hd (Tag b) (or_intror (or_introl eq_refl))).
        -- apply Hb. right. left. reflexivity.
    + (* tag first *)
      cbn [render flat_map render_item spans_of] in *.
      fold (render ds de rest) in *.
      destruct Hn as [Nb Hn].
      destruct fuel as [|f]; [lia|].
      rewrite <- !app_assoc.
      rewrite scan_S by (destruct ds; [congruence | discriminate]).
      change (ds ++ b ++ de ++ render ds de rest)
        with ([] ++ ds ++ b ++ de ++ render ds de rest) at 1.
      rewrite elem_of_render; try assumption.
      * cbn [length Nat.eqb app Nat.add].
        rewrite (app_assoc ds b), (app_assoc (ds ++ b) de).
        rewrite skipn_app_eq by (rewrite !app_length; lia).
        rewrite IH.
        -- rewrite !app_length. rewrite Nat.add_0_r.
           replace (length ds + (length b + length de))
             with (length ds + length b + length de) by lia.
           reflexivity.
        -- cbn in Hlen. lia.
        -- exact Hn.
        -- apply doc_disjoint_tail with (i := Tag b). exact Hd.
        -- apply bodies_ok_tail with (i := Tag b). exact Hb.
        -- rewrite !app_length in Hf. lia.
      * intros x [].
      * apply (Hd (Tag b) (or_introl eq_refl)).
      * apply Hb. left. reflexivity.
Qed.

(** the textbook scan of a rendered document yields exactly the items' spans, whatever the spelling *)
Theorem scan_rendered : forall ds de doc,
  ds <> [] -> de <> [] -> normal doc -> doc_disjoint ds de doc -> bodies_ok doc ->
  scan_spans (render ds de doc) ds de = spans_of ds de 0 doc.
Proof.
  intros ds de doc Nds Nde Hn Hd Hb. unfold scan_spans.
  apply (scan_render_gen ds de Nds Nde (length doc) doc); auto.
Qed.

(** hence the model's tokens are the items (kinds and spans) *)
Corollary tokenize_rendered : forall ds de doc ts,
  ds <> [] -> de <> [] -> normal doc -> doc_disjoint ds de doc -> bodies_ok doc ->
  tokenize (render ds de doc) ds de = Ok ts ->
  map span_of ts = spans_of ds de 0 doc.
Proof.
  intros ds de doc ts Nds Nde Hn Hd Hb H.
  rewrite (tokenize_scan _ _ _ _ H). apply scan_rendered; assumption.
Qed.

(** The kinds of the spans of a document: independent of spelling and offset. *)
Definition kind_of (i : item) : bool := match i with Txt _ => false | Tag _ => true end.

Lemma spans_of_kinds ds de : forall doc pos,
  map (fun sp : bool * nat * nat => fst (fst sp)) (spans_of ds de pos doc) = map kind_of doc.
Proof.
  induction doc as [|i doc IH]; intros pos; [reflexivity|].
  cbn [spans_of map fst]. rewrite IH. destruct i; reflexivity.
Qed.

Lemma map_span_kinds ts :
  map (fun sp : bool * nat * nat => fst (fst sp)) (map span_of ts) = map tk_elem ts.
Proof. rewrite map_map. reflexivity. Qed.

Lemma token_kinds_rendered ds de doc ts :
  ds <> [] -> de <> [] -> normal doc -> doc_disjoint ds de doc -> bodies_ok doc ->
  tokenize (render ds de doc) ds de = Ok ts ->
  map tk_elem ts = map kind_of doc.
Proof.
  intros Nds Nde Hn Hd Hb H.
  rewrite <- map_span_kinds.
  rewrite (tokenize_rendered ds de doc ts Nds Nde Hn Hd Hb H).
  apply spans_of_kinds.
Qed.

(** the token kinds and the order of items do not depend on the spelling at all *)
Corollary token_kinds_independent : forall ds de ds' de' doc ts ts',
  ds <> [] -> de <> [] -> ds' <> [] -> de' <> [] -> normal doc ->
  doc_disjoint ds de doc -> doc_disjoint ds' de' doc -> bodies_ok doc ->
  tokenize (render ds de doc) ds de = Ok ts -> tokenize (render ds' de' doc) ds' de' = Ok ts' ->
  map tk_elem ts = map tk_elem ts' /\ length ts = length doc.
Proof.
  intros ds de ds' de' doc ts ts' Nds Nde Nds' Nde' Hn Hd Hd' Hb H H'.
  pose proof (token_kinds_rendered ds de doc ts Nds Nde Hn Hd Hb H) as K.
  pose proof (token_kinds_rendered ds' de' doc ts' Nds' Nde' Hn Hd' Hb H') as K'.
  split.
  - rewrite K, K'. reflexivity.
  - rewrite <- (map_length tk_elem ts), K. apply map_length.
Qed.

(* ------------------------------------------------------------------------- *)
(** * Well-formed UTF-8 bodies satisfy the extra premise *)

Lemma wf_body_ok b : wf_utf8 b = true -> body_ok b.
Proof.
  intros H. apply wf_utf8_WF in H. unfold body_ok.
  destruct b as [|b0 b'].
  - exact I.
  - apply WF_cons_inv in H. destruct H as [_ [cs [rest [E [L _]]]]].
    subst b'. cbn [length]. rewrite app_length.
    pose proof (char_len_pos b0). lia.
Qed.

Lemma wf_bodies_ok doc : (forall b, In (Tag b) doc -> wf_utf8 b = true) -> bodies_ok doc.
Proof. intros H b Hb. apply wf_body_ok. apply H. exact Hb. Qed.

Theorem scan_rendered_wf : forall ds de doc,
  ds <> [] -> de <> [] -> normal doc -> doc_disjoint ds de doc ->
  (forall b, In (Tag b) doc -> wf_utf8 b = true) ->
  scan_spans (render ds de doc) ds de = spans_of ds de 0 doc.
Proof. intros. apply scan_rendered; auto using wf_bodies_ok. Qed.

Corollary tokenize_rendered_wf : forall ds de doc ts,
  ds <> [] -> de <> [] -> normal doc -> doc_disjoint ds de doc ->
  (forall b, In (Tag b) doc -> wf_utf8 b = true) ->
  tokenize (render ds de doc) ds de = Ok ts ->
  map span_of ts = spans_of ds de 0 doc.
Proof. intros. apply tokenize_rendered; auto using wf_bodies_ok. Qed.

Corollary token_kinds_independent_wf : forall ds de ds' de' doc ts ts',
  ds <> [] -> de <> [] -> ds' <> [] -> de' <> [] -> normal doc ->
  doc_disjoint ds de doc -> doc_disjoint ds' de' doc ->
  (forall b, In (Tag b) doc -> wf_utf8 b = true) ->
  tokenize (render ds de doc) ds de = Ok ts -> tokenize (render ds' de' doc) ds' de' = Ok ts' ->
  map tk_elem ts = map tk_elem ts' /\ length ts = length doc.
Proof.
  intros ds de ds' de' doc ts ts' ? ? ? ? ? ? ? Hwf ? ?.
  apply (token_kinds_independent ds de ds' de' doc ts ts'); auto using wf_bodies_ok.
Qed.

(* ------------------------------------------------------------------------- *)
(** * Exactly one copy of each delimiter is stripped from a tag *)

Lemma trim_start_once p x y :
  p <> [] -> x <> [] -> (forall b, In b x -> ~ In b p) ->
  trim_start p (p ++ x ++ y) = x ++ y.
Proof.
  intros Np Nx Hx. unfold trim_start.
  destruct p as [|a p'] eqn:Ep; [congruence|]. rewrite <- Ep in *.
  assert (Hl : length (p ++ x ++ y) = S (length (p' ++ x ++ y))).
  { rewrite Ep. reflexivity. }
  rewrite Hl. cbn [trim_start_matches].
  rewrite prefix_app. rewrite skipn_app_eq by reflexivity.
  destruct (length (p' ++ x ++ y)) as [|f]; [reflexivity|].
  cbn [trim_start_matches].
  destruct x as [|c x']; [congruence|]. cbn [app].
  rewrite prefix_head_notin; [reflexivity | exact Np |].
  apply Hx. left. reflexivity.
Qed.

Lemma rev_nonempty {A} (l : list A) : l <> [] -> rev l <> [].
Proof.
  intros H E. apply H. rewrite <- (rev_involutive l). rewrite E. reflexivity.
Qed.

(** exactly one copy of each delimiter is stripped from a tag: the parsed tag depends on the
    body only *)
Theorem parse_value_rendered : forall ds de body,
  ds <> [] -> de <> [] -> body <> [] -> disjoint_from ds de body ->
  parse_value ds de (ds ++ body ++ de) = parse_target body.
Proof.
  intros ds de body Nds Nde Nb Hd. unfold parse_value. f_equal.
  rewrite trim_start_once; [| exact Nds | exact Nb | intros b Hb; apply (Hd b Hb)].
  unfold trim_end. rewrite rev_app_distr.
  rewrite <- (app_nil_r (rev body)) at 1.
  rewrite trim_start_once.
  - rewrite app_nil_r. apply rev_involutive.
  - apply rev_nonempty. exact Nde.
  - apply rev_nonempty. exact Nb.
  - intros b Hb Hb'. apply in_rev in Hb. apply in_rev in Hb'. apply (Hd b Hb). exact Hb'.
Qed.

Print Assumptions scan_rendered.
Print Assumptions tokenize_rendered.
Print Assumptions token_kinds_independent.
Print Assumptions parse_value_rendered.
Print Assumptions scan_rendered_wf.
Print Assumptions tokenize_rendered_wf.
Print Assumptions token_kinds_independent_wf.
Print Assumptions scan_rendered_counterexample.
Print Assumptions token_kinds_counterexample.
