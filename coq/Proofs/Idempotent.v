(** C19, first half: cleaning the output again with the same time and targets changes nothing.

    Proved for the renderings of abstract syntax trees in which no element uses the
    [unwrap-block] strategy.  The condition [de_nb] of [Proofs.SimClean.clean_rendered_ok] (the
    end delimiter does not start with a blank) is not needed: it only serves the block dedenter,
    which does not run when no marker carries a pair index (Parts 3 and 4).

    Part 1: two deletions on a symbol list composed into one mask.
    Part 2: deleting whitespace bytes from well-formed UTF-8.
    Part 3: without unwrap-block elements no marker carries a pair index.
    Part 4: the formatter stage without pairs on a rendered symbol list (no condition on the
            first byte of the end delimiter is needed).
    Part 5: one run of [clean] on a rendering, with what is known about the whitespace ranges.
    Part 6: a whitespace range never reaches into a kept tag.
    Part 7: the output is the rendering of a syntax tree without ready elements
            ([clean_output_ast]); idempotence ([clean_idempotent_default]).
    Part 8: an instance. *)
From Coq Require Import List NArith ZArith Arith Bool Lia PeanoNat.
Import ListNotations.
From Chiri Require Import Base.Bytes Base.Res Model.Tokenizer Model.TagParser Model.TreeParser
     Model.Finders Model.Markers Model.Format Model.Clean
     Spec.Ranges Spec.Forest Spec.Rename Spec.Simulation
     Proofs.ResLemmas Proofs.Utf8 Proofs.MarkerProofs Proofs.RangeProofs Proofs.CollectProofs
     Proofs.FormatterProofs Proofs.FormatAssembly Proofs.CleanProofs Proofs.ConfinedProofs
     Proofs.RenameProofs Proofs.SimFlat Proofs.SimStrings Proofs.SimFront Proofs.MonoMap
     Proofs.SimClean Proofs.WellNested Proofs.DocMask Proofs.AstCollect.

Ltac unfold_rgs := unfold Format.range, Markers.range, Ranges.range in *.

(* ------------------------------------------------------------------------- *)
(** * Part 1: two deletions composed into one mask *)

Lemma sdel_from_ext_ge P Q : forall l k,
  (forall i, k <= i -> P i = Q i) -> sdel_from k P l = sdel_from k Q l.
Proof.
  induction l as [|x l IH]; intros k H; [reflexivity|].
  cbn [sdel_from]. rewrite (H k) by lia. rewrite (IH (S k)); [reflexivity|].
  intros i Hi. apply H. lia.
Qed.

Lemma sdel_compose_gen P Q : forall l j k,
  sdel_from j Q (sdel_from k P l) =
  sdel_from k (fun i => P i || Q (j + rank_from k P (i - k))) l.
Proof.
  induction l as [|x l IH]; intros j k; [reflexivity|].
  cbn [sdel_from]. rewrite Nat.sub_diag. cbn [rank_from]. rewrite Nat.add_0_r.
  destruct (P k) eqn:E; cbn [orb].
  - rewrite (IH j (S k)). apply sdel_from_ext_ge. intros i Hi.
    replace (i - k) with (S (i - S k)) by lia. cbn [rank_from]. rewrite E. reflexivity.
  - cbn [sdel_from].
    assert (sdel_from (S j) Q (sdel_from (S k) P l) =
            sdel_from (S k) (fun i => P i || Q (j + rank_from k P (i - k))) l) as E'.
    { rewrite (IH (S j) (S k)). apply sdel_from_ext_ge. intros i Hi.
      replace (i - k) with (S (i - S k)) by lia. cbn [rank_from]. rewrite E.
      replace (j + (1 + rank_from (S k) P (i - S k))) with (S j + rank_from (S k) P (i - S k)) by lia.
      reflexivity. }
    rewrite E'. reflexivity.
Qed.

(** Deleting [Q] from what [P] leaves is deleting one mask over the old indices. *)
Theorem sdel_compose P Q l :
  sdel_from 0 Q (sdel_from 0 P l) = sdel_from 0 (fun i => P i || Q (rank P i)) l.
Proof.
  rewrite sdel_compose_gen. apply sdel_from_ext_ge. intros i _.
  rewrite Nat.sub_0_r. reflexivity.
Qed.

Lemma nth_sdel_gen P : forall l k i, P (k + i) = false ->
  nth_error (sdel_from k P l) (rank_from k P i) = nth_error l i.
Proof.
  induction l as [|x l IH]; intros k i H.
  - cbn [sdel_from]. destruct i; destruct (rank_from k P _); reflexivity.
  - destruct i as [|i].
    + rewrite Nat.add_0_r in H. cbn [sdel_from rank_from]. rewrite H. reflexivity.
    + cbn [sdel_from rank_from nth_error].
      replace (k + S i) with (S k + i) in H by lia.
      destruct (P k); cbn [Nat.add nth_error]; apply IH; exact H.
Qed.

(** A kept symbol is found at its rank. *)
Theorem nth_sdel P l i : P i = false ->
  nth_error (sdel_from 0 P l) (rank P i) = nth_error l i.
Proof. intros H. apply (nth_sdel_gen P l 0 i). exact H. Qed.

(* ------------------------------------------------------------------------- *)
(** * Part 2: deleting whitespace bytes from well-formed UTF-8 *)

Lemma kept_from_app : forall a b i P,
  kept_from i P (a ++ b) = kept_from i P a ++ kept_from (i + length a) P b.
Proof.
  induction a as [|c a IH]; intros b i P.
  - cbn [app kept_from length]. rewrite Nat.add_0_r. reflexivity.
  - cbn [app kept_from length]. rewrite IH.
    replace (S i + length a) with (i + S (length a)) by lia. destruct (P i); reflexivity.
Qed.

Lemma kept_from_none : forall t i P,
  (forall q, q < length t -> P (i + q) = false) -> kept_from i P t = t.
Proof.
  induction t as [|c t IH]; intros i P H; [reflexivity|].
  cbn [kept_from]. rewrite <- (Nat.add_0_r i) at 1. rewrite (H 0) by (cbn [length]; lia).
  f_equal. apply IH. intros q Hq. replace (S i + q) with (i + S q) by lia. apply H.
  cbn [length]. lia.
Qed.

Lemma kept_from_all : forall t i P,
  (forall q, q < length t -> P (i + q) = true) -> kept_from i P t = [].
Proof.
  induction t as [|c t IH]; intros i P H; [reflexivity|].
  cbn [kept_from]. rewrite <- (Nat.add_0_r i) at 1. rewrite (H 0) by (cbn [length]; lia).
  apply IH. intros q Hq. replace (S i + q) with (i + S q) by lia. apply H.
  cbn [length]. lia.
Qed.

Lemma ws_char_len c : is_ws c = true -> char_len c = 1.
Proof.
  unfold is_ws, beq. intros H. apply orb_true_iff in H. destruct H as [H|H].
  - apply orb_true_iff in H. destruct H as [H|H]; apply N.eqb_eq in H; subst c; reflexivity.
  - apply N.eqb_eq in H. subst c. reflexivity.
Qed.

Lemma WF_kept t : WF t -> forall i P,
  (forall q c, P (i + q) = true -> nth_error t q = Some c -> is_ws c = true) ->
  WF (kept_from i P t).
Proof.
  induction 1 as [|b cs rest Hl Hlen Hc Hrest IH]; intros i P H; [constructor|].
  cbn [kept_from]. destruct (P i) eqn:E.
  - assert (is_ws b = true) as Hw.
    { apply (H 0 b); [rewrite Nat.add_0_r; exact E | reflexivity]. }
    rewrite (ws_char_len b Hw) in Hlen. destruct cs; [|discriminate Hlen]. cbn [app].
    apply IH. intros q c Hq Hn. apply (H (S q) c); [|exact Hn].
    replace (i + S q) with (S i + q) by lia. exact Hq.
  - rewrite kept_from_app. rewrite (kept_from_none cs).
    + apply WF_char; try assumption. apply IH. intros q c Hq Hn.
      apply (H (S (length cs + q)) c).
      * replace (i + S (length cs + q)) with (S i + length cs + q) by lia. exact Hq.
      * cbn [nth_error]. rewrite nth_error_app2 by lia.
        replace (length cs + q - length cs) with q by lia. exact Hn.
    + intros q Hq. destruct (P (S i + q)) eqn:E2; [|reflexivity]. exfalso.
      destruct (nth_error cs q) as [c|] eqn:En; [|apply nth_error_None in En; lia].
      assert (is_ws c = true) as Hw.
      { apply (H (S q) c); [replace (i + S q) with (S i + q) by lia; exact E2|].
        cbn [nth_error]. rewrite nth_error_app1 by exact Hq. exact En. }
      rewrite forallb_forall in Hc. pose proof (Hc c (nth_error_In _ _ En)) as Hcc.
      rewrite (cont_not_ws c Hcc) in Hw. discriminate Hw.
Qed.

(** Deleting whitespace bytes only keeps a string well formed. *)
Theorem wf_kept_ws t i P : wf_utf8 t = true ->
  (forall q c, P (i + q) = true -> nth_error t q = Some c -> is_ws c = true) ->
  wf_utf8 (kept_from i P t) = true.
Proof. intros Hw H. apply wf_utf8_WF. apply WF_kept; [apply wf_utf8_WF; exact Hw | exact H]. Qed.

(* ------------------------------------------------------------------------- *)
(** * Part 3: no pair index without unwrap-block elements *)

Definition root_none (t : rtree) : Prop := match t with RT (_, e) _ => e = None end.

Lemma rforest_roots_both cfg F :
  (forall a base, Forall root_none (rforest1 cfg F base a)) /\
  (forall f base, Forall root_none (rforest cfg F base f)).
Proof.
  apply (ast_forest_ind
    (fun a => forall base, Forall root_none (rforest1 cfg F base a))
    (fun f => forall base, Forall root_none (rforest cfg F base f))).
  - intros t base. constructor.
  - intros b base. constructor.
  - intros b1 b2 kids IH base. rewrite rforest1_AE. unfold span_tree.
    destruct (el_readyb cfg b1 && (F base <? F (S (S base + sizes kids)))).
    + constructor; [reflexivity | constructor].
    + apply IH.
  - intros base. constructor.
  - intros x f Hx Hf base. cbn [rforest]. apply Forall_app. split; [apply Hx | apply Hf].
Qed.

Lemma merge_tree_root_none acc t r : root_none t -> merge_tree acc t = Ok r ->
  exists m, r = acc ++ [(m, None)].
Proof.
  destruct t as [[m e] ch]. cbn [root_none]. intros -> H.
  rewrite merge_tree_unfold_body in H. inv_bind H. unfold merge_tree_body in Hk.
  destruct (merge_child_markers v m 0) as [m' sc]. inversion Hk. exists m'. reflexivity.
Qed.

Lemma merge_fold_no_pairs : forall F acc r, Forall root_none F ->
  (forall m, In m acc -> snd m = None) -> foldM merge_tree F acc = Ok r ->
  forall m, In m r -> snd m = None.
Proof.
  induction F as [|t F IH]; intros acc r HF Hacc H.
  - cbn [foldM] in H. inversion H; subst. exact Hacc.
  - inversion HF as [|? ? Ht HF']; subst. cbn [foldM] in H. inv_bind H.
    destruct (merge_tree_root_none acc t v Ht Hb) as (m0 & ->).
    apply (IH (acc ++ [(m0, None)]) r HF'); [|exact Hk].
    intros m Hm. apply in_app_or in Hm. destruct Hm as [Hm|[<-|[]]]; [apply Hacc; exact Hm | reflexivity].
Qed.

(** The markers of a forest without unwrap-block elements carry no pair index. *)
Theorem markers_no_pairs cfg f ams : Forall ast_ok f -> no_unwrap f ->
  merge_markers (fst (a_collect cfg (doc_of f) false)) = Ok ams ->
  forall m, In m ams -> snd m = None.
Proof.
  intros Hok Hnu H. rewrite (a_collect_rforest cfg f Hok Hnu) in H.
  apply (merge_fold_no_pairs _ [] ams
           (proj2 (rforest_roots_both cfg (fstart (doc_of f))) f 0)); [|exact H].
  intros m [].
Qed.

(* ------------------------------------------------------------------------- *)
(** * Part 4: the formatter stage without pairs on a rendered symbol list *)

Definition no_pairs (arpos : list (nat * option nat)) : Prop := forall p, In p arpos -> snd p = None.

Lemma fr_fold_flat_np ds de l arpos0 :
  sp_ok ds de -> head_ok l ->
  forall lst ranges open,
  (forall p, In p lst -> fst p <= length l) -> no_pairs lst ->
  ranges_le (length l) ranges ->
  foldM (fr_step (rs ds de l) (map (map_pp (pos ds de l)) arpos0))
        (map (map_pp (pos ds de l)) lst)
        (map (map_range (pos ds de l)) ranges, map (map_range (pos ds de l)) open) =
  match foldM (a_fr_step l arpos0) lst (ranges, open) with
  | Ok ro => Ok (map (map_range (pos ds de l)) (fst ro), map (map_range (pos ds de l)) (snd ro))
  | Panic => Panic
  end /\
  (forall ro, foldM (a_fr_step l arpos0) lst (ranges, open) = Ok ro ->
              ranges_le (length l) (fst ro) /\ snd ro = open).
Proof.
  intros Hsp Hh lst. induction lst as [|[j pi] rest IH]; intros ranges open Hl Hnp Hr.
  - cbn [map foldM]. split; [reflexivity|]. intros ro H. inversion H; subst. split; [exact Hr | reflexivity].
  - pose proof (Hl (j, pi) (or_introl eq_refl)) as Hj. cbn [fst] in Hj.
    pose proof (Hnp (j, pi) (or_introl eq_refl)) as Hpi. cbn [snd] in Hpi. subst pi.
    cbn [map foldM]. unfold map_pp at 2. cbn [fst snd].
    unfold fr_step at 1, a_fr_step at 1 3. unfold_rgs.
    rewrite (format_block_flat ds de l j Hsp Hh Hj).
    pose proof (a_format_block_in_len l j Hj) as Hin.
    destruct (a_format_block l j) as [[x y]|]; cbn [mapr bind];
      [|split; [reflexivity | intros ro H; discriminate H]].
    cbn [in_len] in Hin.
    assert (ranges_le (length l) (ranges ++ [(x, y)])) as Hr'.
    { apply ranges_le_app. split; [exact Hr|]. intros r [<-|[]]. exact Hin. }
    assert (map (map_range (pos ds de l)) ranges ++ [prange ds de l (x, y)] =
            map (map_range (pos ds de l)) (ranges ++ [(x, y)])) as E1.
    { rewrite map_app. reflexivity. }
    unfold_rgs. rewrite E1. clear E1.
    apply IH; [|intros p Hp; apply Hnp; right; exact Hp | exact Hr'].
    intros p Hp. apply Hl. right. exact Hp.
Qed.

Theorem format_ranges_flat_np ds de l arpos :
  sp_ok ds de -> head_ok l ->
  (forall p, In p arpos -> fst p <= length l) -> no_pairs arpos ->
  format_ranges (rs ds de l) (map (map_pp (pos ds de l)) arpos) =
  match a_format_ranges l arpos with
  | Ok aR => Ok (map (map_range (pos ds de l)) aR)
  | Panic => Panic
  end.
Proof.
  intros Hsp Hh Hpos Hnp.
  pose proof (sp_ok_ne ds de Hsp) as [Nds Nde].
  pose proof (pos_mono_on ds de l Nds Nde) as Hf.
  rewrite format_ranges_unfold. unfold a_format_ranges.
  destruct (fr_fold_flat_np ds de l arpos Hsp Hh arpos [] [] Hpos Hnp (ranges_le_nil _)) as [E L].
  cbn [map] in E. unfold_rgs. rewrite E. clear E.
  destruct (foldM (a_fr_step l arpos) arpos ([], [])) as [[ranges open]|]; cbn [bind fst snd];
    [|reflexivity].
  destruct (L (ranges, open) eq_refl) as [Lr Lo]. cbn [fst snd] in Lr, Lo. subst open.
  pose proof (ranges_le_nil (length l)) as Lo.
  rewrite (sort_ranges_mono _ _ (@nil (nat * nat)) Hf Lo).
  pose proof (sort_ranges_le _ _ Lo) as Lso.
  rewrite (merge_ranges_mono _ _ ranges (sort_ranges (@nil (nat * nat))) Hf Lr Lso).
  destruct (merge_ranges ranges (sort_ranges (@nil (nat * nat)))) as [merged|] eqn:Em; cbn [bind]; [|reflexivity].
  pose proof (merge_ranges_le _ _ _ _ Lr Lso Em) as Lm.
  rewrite (merge_overlapped_mono _ _ merged Hf Lm). reflexivity.
Qed.

(* ------------------------------------------------------------------------- *)
(** * Part 5: one run of [clean] on a rendering whose markers carry no pair index *)

Lemma in_ranges_map_pos ds de l aR k : ne2 ds de -> k < length l -> in_ranges aR k ->
  forall i, pos ds de l k <= i < pos ds de l (S k) ->
  exists r, In r (map (map_range (pos ds de l)) aR) /\ in_range r i.
Proof.
  intros Hne Hk ((a & b) & Hin & Ha & Hb) i Hi. cbn [fst snd] in Ha, Hb.
  exists (map_range (pos ds de l) (a, b)). split; [apply in_map; exact Hin|].
  unfold in_range. rewrite fst_map_range, snd_map_range. cbn [fst snd].
  pose proof (pos_mono ds de l a k Ha). pose proof (pos_mono ds de l (S k) b ltac:(lia)). lia.
Qed.

(** The run: the whitespace ranges [aR] over the residual symbol list [l'] exist; every deleted
    symbol is a whitespace byte; and every deleted symbol is linked to a seam by whitespace bytes
    only. *)
Theorem clean_rendered_np : forall cfg ds de doc ams,
  good_delims ds de -> good_doc ds de doc -> bodies_ok doc ->
  merge_markers (fst (a_collect cfg doc false)) = Ok ams ->
  (forall m, In m ams -> snd m = None) ->
  exists aR,
    a_format_ranges (sdelete (map fst ams) (flat doc)) (a_removed_pos ams) = Ok aR /\
    clean cfg ds de (render ds de doc) =
      Ok (rs ds de (sdelete aR (sdelete (map fst ams) (flat doc)))) /\
    (forall k c, in_ranges aR k -> nth_error (sdelete (map fst ams) (flat doc)) k = Some (B c) ->
                 is_ws c = true) /\
    (forall k, in_ranges aR k -> k < length (sdelete (map fst ams) (flat doc)) ->
       exists m, In m ams /\
         let l' := sdelete (map fst ams) (flat doc) in
         let jm := sindex (map fst ams) (fst (fst m)) in
         jm <= length l' /\
         forall j b, ((pos ds de l' k <= j /\ j < pos ds de l' jm) \/
                      (pos ds de l' jm <= j /\ j <= pos ds de l' k)) ->
                     nth_error (rs ds de l') j = Some b -> is_ws b = true).
Proof.
  intros cfg ds de doc ams Hgd Hdoc Hbod Eams Hnp.
  pose proof (good_delims_sp_ok ds de Hgd) as Hsp.
  destruct (good_delims_ne ds de Hgd) as [Nds Nde].
  pose proof Hgd as (_ & _ & Wds & Wde & _).
  pose proof (render_wf ds de doc Hgd Hdoc) as Hs.
  destruct (collect_rendered cfg ds de doc false Hgd Hdoc Hbod) as (parts & Hf & Ec & _).
  destruct (markers_spec cfg ds de _ parts Hs Wds Wde Nds Nde Hf)
    as (ms & Em & Hsnf & Hbd & Hob & Hpc & _).
  pose proof (sorted_nonempty_sorted 0 _ Hsnf) as Hsorted.
  set (l := flat doc) in *.
  set (F := fst (a_collect cfg doc false)) in *.
  pose proof (pos_mono_on ds de l Nds Nde) as Hmono.
  assert (Forall (rtree_le (length l)) F) as HF.
  { apply forest_positions_le. apply (proj1 (a_collect_bound cfg doc false)). }
  pose proof Em as Em0.
  unfold markers_of in Em0. rewrite Hf in Em0. cbn [bind] in Em0.
  unfold build_remove_marker in Em0.
  rewrite Ec, (merge_markers_mono _ _ F Hmono HF), Eams in Em0.
  inversion Em0 as [Ems]. clear Em0.
  pose proof (merge_markers_le _ F ams HF Eams) as Hle.
  set (R := map fst ams).
  set (l' := sdelete R l).
  assert (map fst ms = map (map_range (pos ds de l)) R) as EfR.
  { rewrite <- Ems. apply map_fst_map_marker. }
  assert (render ds de doc = rs ds de l) as Es by (symmetry; apply rs_flat).
  set (P1 := in_rangesb (map fst ms)).
  set (removed := delete_ranges (map fst ms) (render ds de doc)).
  set (rpos := map (fun m : marker => (rank P1 (fst (fst m)), snd m)) ms).
  assert (Hwr : wf_utf8 removed = true) by (apply delete_ranges_wf; assumption).
  assert (Hp1 : forall p pi, In (p, pi) rpos -> p <= length removed /\ is_boundary removed p = true).
  { intros p pi Hin. unfold rpos in Hin. apply in_map_iff in Hin.
    destruct Hin as (m & Em' & Hm). inversion Em'; subst p pi.
    assert (Hr : In (fst m) (map fst ms)) by (apply in_map; exact Hm).
    destruct (Hob _ Hr) as [Ha _].
    pose proof (boundary_le _ _ Ha) as Hle'.
    split.
    - unfold removed, delete_ranges. rewrite delete_where_length. apply rank_monotone. exact Hle'.
    - apply delete_ranges_boundary; assumption. }
  assert (Hp2 : forall p pi, In (p, Some pi) rpos -> pi < length rpos).
  { intros p pi Hin. unfold rpos in *. rewrite map_length. apply in_map_iff in Hin.
    destruct Hin as (m & Em' & Hm). inversion Em' as [[E1 E2]].
    apply In_nth_error in Hm. destruct Hm as [k Hk].
    destruct m as [r o]. cbn [snd] in E2. subst o.
    destruct (Hpc k r pi Hk) as [_ (r' & Hn)].
    apply nth_error_Some. congruence. }
  destruct (format_spec removed rpos Hwr Hp1 Hp2) as (rs0 & Efr & _ & _ & _ & Hws & Efmt & _).
  assert (removed = rs ds de l') as Erem.
  { unfold removed. rewrite EfR, Es. apply rs_sdelete_gen. }
  assert (rpos = map (map_pp (pos ds de l')) (a_removed_pos ams)) as Erpos.
  { unfold rpos, a_removed_pos, P1. rewrite EfR, <- Ems. rewrite !map_map. apply map_ext. intros m.
    unfold map_pp, map_marker. cbn [fst snd]. rewrite fst_map_range.
    fold R. rewrite pos_sdelete_gen. reflexivity. }
  assert (forall p, In p (a_removed_pos ams) -> fst p <= length l') as Hapos.
  { intros p Hin. unfold a_removed_pos in Hin. apply in_map_iff in Hin.
    destruct Hin as (m & <- & Hm). cbn [fst]. fold R. apply sindex_le.
    rewrite Forall_forall in Hle. apply (Hle m Hm). }
  assert (no_pairs (a_removed_pos ams)) as Hanp.
  { intros p Hin. unfold a_removed_pos in Hin. apply in_map_iff in Hin.
    destruct Hin as (m & <- & Hm). cbn [snd]. apply Hnp. exact Hm. }
  assert (head_ok l') as Hh' by (apply (wf_head_ok ds de); rewrite <- Erem; exact Hwr).
  pose proof (format_ranges_flat_np ds de l' (a_removed_pos ams) Hsp Hh' Hapos Hanp) as Eflat.
  rewrite <- Erem, <- Erpos, Efr in Eflat.
  destruct (a_format_ranges l' (a_removed_pos ams)) as [aR|] eqn:EaR; [|discriminate Eflat].
  inversion Eflat as [Ers0]. clear Eflat.
  exists aR. split; [reflexivity|]. split; [|split].
  - unfold clean. rewrite Em. cbn [bind].
    rewrite (remove_markers_ok _ ms Hsorted Hbd Hob Hs). cbn [bind].
    rewrite (get_removed_pos_ok ms Hsorted). cbn [bind].
    rewrite (removed_positions_rank ms Hsorted).
    change (format removed rpos = Ok (rs ds de (sdelete aR l'))). rewrite Efmt. f_equal.
    rewrite Ers0, Erem. apply rs_sdelete_gen.
  - intros k c Hk Hn.
    assert (k < length l') as Hkl by (apply nth_error_Some; congruence).
    destruct (pos_byte ds de l' k c Hn) as [Hb HS].
    destruct (in_ranges_map_pos ds de l' aR k (conj Nds Nde) Hkl Hk (pos ds de l' k) ltac:(lia))
      as (r & Hr & Hi).
    rewrite <- Ers0 in Hr. apply (Hws r _ c Hr Hi). rewrite Erem. exact Hb.
  - intros k Hk Hkl.
    pose proof (pos_S_lt ds de l' k (conj Nds Nde) Hkl) as Hlt.
    destruct (in_ranges_map_pos ds de l' aR k (conj Nds Nde) Hkl Hk (pos ds de l' k) ltac:(lia))
      as (r & Hr & Hi).
    rewrite <- Ers0 in Hr.
    destruct (format_confined removed rpos rs0 Hwr Hp1 Hp2 Efr (pos ds de l' k)
                (ex_intro _ r (conj Hr Hi))) as [(p & pi & Hp & Hc)|(p & pi & q & qi & ls & Hp & _)].
    + rewrite Erpos in Hp. apply in_map_iff in Hp. destruct Hp as ([jm pj] & Ep & Hin).
      unfold map_pp in Ep. cbn [fst snd] in Ep. inversion Ep; subst p pi.
      pose proof (Hapos _ Hin) as Hjl. cbn [fst] in Hjl.
      unfold a_removed_pos in Hin. apply in_map_iff in Hin. destruct Hin as (m & Em' & Hm).
      inversion Em'; subst jm pj.
      exists m. split; [exact Hm|]. cbv zeta. fold R. fold l'. split; [exact Hjl|].
      intros j b Hj Hn. apply (Hc j b); [exact Hj|]. rewrite Erem. exact Hn.
    + exfalso. rewrite Erpos in Hp. apply in_map_iff in Hp. destruct Hp as (pp & Ep & Hin).
      pose proof (Hanp pp Hin) as Hn. unfold map_pp in Ep. inversion Ep as [[E1 E2]].
      rewrite Hn in E2. discriminate E2.
Qed.

(* ------------------------------------------------------------------------- *)
(** * Part 6: a whitespace range never reaches into a kept tag *)

(** A symbol [k] between the two delimiters of a tag ([u], [v]) cannot be linked by whitespace
    bytes to a seam [jm] that is not strictly inside the tag: the first byte of the start
    delimiter and the last character of the end delimiter are not whitespace. *)
Lemma seam_not_across_tag ds de l' k u v jm :
  sp_ok ds de -> u <= k <= v -> nth_error l' u = Some DS -> nth_error l' v = Some DE ->
  jm <= u \/ v < jm ->
  (forall j b, ((pos ds de l' k <= j /\ j < pos ds de l' jm) \/
                (pos ds de l' jm <= j /\ j <= pos ds de l' k)) ->
               nth_error (rs ds de l') j = Some b -> is_ws b = true) -> False.
Proof.
  intros [Hds Hde] Hk Hu Hv Hjm H. destruct Hjm as [Hjm|Hjm].
  - destruct (ds_run ds de l' u Hds Hu) as (d0 & Hn & _ & Hw & _).
    rewrite (H (pos ds de l' u) d0) in Hw; [discriminate Hw | | exact Hn].
    right. split; apply pos_mono; lia.
  - destruct (de_run ds de l' v Hde Hv) as (n & lead & m & Hlen & Hn & _ & Hw & _ & _ & HS & _).
    rewrite (H (pos ds de l' v + n) lead) in Hw; [discriminate Hw | | exact Hn].
    left. pose proof (pos_mono ds de l' k v ltac:(lia)).
    pose proof (pos_mono ds de l' (S v) jm ltac:(lia)). lia.
Qed.

Lemma rank_kept_run P s n : (forall j, s <= j < s + n -> P j = false) ->
  forall q, q <= n -> rank P (s + q) = rank P s + q.
Proof.
  intros H q Hq. rewrite rank_add. f_equal. apply rank_from_all_false.
  intros i Hi1 Hi2. apply H. lia.
Qed.

Lemma kept_tag_untouched ds de cfg f (ams : list marker) aR :
  sp_ok ds de ->
  sorted_nonempty_from 0 (map fst ams) ->
  (forall i, in_rangesb (map fst ams) i = del1 cfg f i) ->
  (forall k, in_ranges aR k -> k < length (sdelete (map fst ams) (flat (doc_of f))) ->
     exists m, In m ams /\
       let l' := sdelete (map fst ams) (flat (doc_of f)) in
       let jm := sindex (map fst ams) (fst (fst m)) in
       jm <= length l' /\
       forall j b, ((pos ds de l' k <= j /\ j < pos ds de l' jm) \/
                    (pos ds de l' jm <= j /\ j <= pos ds de l' k)) ->
                   nth_error (rs ds de l') j = Some b -> is_ws b = true) ->
  forall it b, nth_error (doc_of f) it = Some (Tag b) ->
  in_rangesb (map fst ams) (fstart (doc_of f) it) = false ->
  forall j, fstart (doc_of f) it <= j < fstart (doc_of f) (S it) ->
  in_rangesb aR (sindex (map fst ams) j) = false.
Proof.
  intros Hsp S1 K' Hconf it b Hit Hs j Hj.
  set (doc := doc_of f) in *. set (R := map fst ams) in *. set (P1 := in_rangesb R) in *.
  set (l := flat doc) in *. set (l' := sdelete R l) in *. set (s := fstart doc it) in *.
  pose proof (AstCollect.fstart_tag doc it b Hit) as HS. fold s in HS.
  assert (forall q, s <= q < s + (length b + 2) -> P1 q = false) as Hconst.
  { intros q Hq. unfold P1. rewrite K'.
    rewrite (del1_const_tag cfg f it b q s Hit); [rewrite <- K'; exact Hs | |]; fold doc; fold s; lia. }
  destruct (in_rangesb aR (sindex R j)) eqn:E; [exfalso | reflexivity].
  apply in_rangesb_spec in E. unfold sindex in E. fold P1 in E.
  set (u := rank P1 s) in *.
  assert (rank P1 j = u + (j - s)) as Ek.
  { replace j with (s + (j - s)) at 1 by lia. apply (rank_kept_run P1 s _ Hconst). lia. }
  assert (rank P1 (s + (length b + 1)) = u + (length b + 1)) as Ev.
  { apply (rank_kept_run P1 s _ Hconst). lia. }
  assert (rank P1 (s + (length b + 2)) = u + (length b + 2)) as Ee.
  { apply (rank_kept_run P1 s _ Hconst). lia. }
  assert (nth_error l' u = Some DS) as Hu.
  { unfold l', sdelete, u. fold P1. rewrite (nth_sdel P1 l s) by (apply Hconst; lia).
    apply (sym_at_tag doc it b Hit). }
  assert (nth_error l' (u + (length b + 1)) = Some DE) as Hv.
  { rewrite <- Ev. unfold l', sdelete. fold P1. rewrite (nth_sdel P1 l) by (apply Hconst; lia).
    pose proof (sym_at_body doc it (length b) b Hit (le_n _)) as Hb.
    rewrite Nat.ltb_irrefl in Hb. cbn [aidx] in Hb. fold s in Hb.
    replace (s + (length b + 1)) with (s + 1 + length b) by lia. exact Hb. }
  assert (u + (length b + 1) < length l') as Hvl by (apply nth_error_Some; congruence).
  rewrite Ek in E.
  destruct (Hconf (u + (j - s)) E ltac:(fold doc; fold R; fold l; fold l'; lia))
    as (m & Hm & Hjl & Hws).
  fold doc R l l' in Hjl, Hws. unfold sindex in Hjl, Hws. fold P1 in Hjl, Hws.
  assert (In (fst m) R) as HmR by (apply in_map; exact Hm).
  pose proof (snf_In_lt R 0 (fst m) S1 HmR) as Hab.
  assert (P1 (fst (fst m)) = true) as Ha.
  { apply in_rangesb_spec. exists (fst m). split; [exact HmR|]. unfold in_range. lia. }
  apply (seam_not_across_tag ds de l' (u + (j - s)) u (u + (length b + 1)) (rank P1 (fst (fst m)))
           Hsp ltac:(lia) Hu Hv); [|exact Hws].
  destruct (Nat.lt_ge_cases (fst (fst m)) s) as [L|L].
  - left. apply rank_monotone. lia.
  - right. destruct (Nat.lt_ge_cases (fst (fst m)) (s + (length b + 2))) as [L2|L2].
    + rewrite (Hconst (fst (fst m))) in Ha by lia. discriminate Ha.
    + pose proof (rank_monotone P1 _ _ L2). lia.
Qed.

(* ------------------------------------------------------------------------- *)
(** * Part 7: the output of one run, and idempotence *)

(** One run of [clean] on the rendering of a forest without unwrap-block elements deletes one
    pair-respecting mask [del] from the symbol list: [del] contains the spans of the ready nodes
    ([del1]), and otherwise whitespace bytes of texts only. *)
Theorem clean_run_mask cfg ds de f :
  good_delims ds de -> good_doc ds de (doc_of f) -> bodies_ok (doc_of f) ->
  Forall ast_ok f -> no_unwrap f ->
  exists del,
    pair_respecting del f /\
    (forall i t, nth_error (doc_of f) i = Some (Txt t) ->
       wf_utf8 (kept_from (fstart (doc_of f) i) del t) = true) /\
    (forall i, del i = false -> del1 cfg f i = false) /\
    (forall i, del1 cfg f i = true -> del i = true) /\
    (forall it b, nth_error (doc_of f) it = Some (Tag b) ->
       del (fstart (doc_of f) it) = del1 cfg f (fstart (doc_of f) it)) /\
    clean cfg ds de (render ds de (doc_of f)) =
      Ok (rs ds de (sdel_from 0 del (flat (doc_of f)))).
Proof.
  intros Hgd Hdoc Hbod Hok Hnu.
  pose proof (good_delims_sp_ok ds de Hgd) as Hsp.
  destruct (a_collect_markers cfg f Hok Hnu) as (ams & E & S1 & _ & _ & K' & _).
  pose proof (markers_no_pairs cfg f ams Hok Hnu E) as Hnp.
  destruct (clean_rendered_np cfg ds de (doc_of f) ams Hgd Hdoc Hbod E Hnp)
    as (aR & _ & Ecl & Hws & Hconf).
  pose proof (kept_tag_untouched ds de cfg f ams aR Hsp S1 K' Hconf) as KT.
  set (doc := doc_of f) in *. set (R := map fst ams) in *. set (P1 := in_rangesb R) in *.
  set (l := flat doc) in *. set (l' := sdelete R l) in *.
  unfold sindex in KT. fold P1 in KT.
  exists (fun i => P1 i || in_rangesb aR (rank P1 i)).
  split; [split|split; [|split; [|split; [|split]]]].
  - (* constant on every tag *)
    intros it b Hit j Hj. cbn [Nat.add] in *. fold doc in Hit, Hj. fold doc.
    assert (P1 j = P1 (fstart doc it)) as Ec.
    { unfold P1. rewrite !K'. apply (del1_const_tag cfg f it b _ _ Hit); fold doc; [lia|].
      rewrite (AstCollect.fstart_tag doc it b Hit). lia. }
    rewrite Ec. destruct (P1 (fstart doc it)) eqn:E0; [reflexivity|]. cbn [orb].
    rewrite (KT it b Hit E0 j Hj). rewrite (KT it b Hit E0 (fstart doc it)); [reflexivity|].
    rewrite (AstCollect.fstart_tag doc it b Hit). lia.
  - (* the two tags of a node *)
    intros b1 b2 o c Hn.
    pose proof (ast_nodes_at f 0 _ Hn) as (i & j & -> & -> & _ & Hi & Hj). cbn [Nat.add].
    fold doc in Hi, Hj. fold doc.
    assert (P1 (fstart doc i) = P1 (fstart doc j)) as Ec.
    { unfold P1. rewrite !K'. apply (del1_node_tags' cfg f b1 b2 i j Hn). }
    rewrite <- Ec. destruct (P1 (fstart doc i)) eqn:E0; [reflexivity|]. cbn [orb].
    rewrite (KT i b1 Hi E0 (fstart doc i)) by (rewrite (AstCollect.fstart_tag doc i b1 Hi); lia).
    symmetry in Ec.
    rewrite (KT j b2 Hj Ec (fstart doc j)) by (rewrite (AstCollect.fstart_tag doc j b2 Hj); lia).
    reflexivity.
  - (* the kept bytes of a text *)
    intros i t Hi. set (s := fstart doc i).
    pose proof (fstart_S doc i _ Hi) as HS. rewrite (flat_item_len (Txt t)) in HS. fold s in HS.
    assert (forall q, q < length t -> P1 (s + q) = P1 s) as Hconst.
    { intros q Hq. unfold P1. rewrite !K'. apply (del1_const_item cfg f i); fold doc; fold s; lia. }
    destruct (P1 s) eqn:E0.
    + rewrite kept_from_all; [reflexivity|]. intros q Hq. rewrite (Hconst q Hq). reflexivity.
    + apply wf_kept_ws.
      * destruct Hdoc as (_ & _ & Hwt & _). apply Hwt. apply (nth_error_In _ _ Hi).
      * intros q c Hq Hn.
        assert (q < length t) as Hql by (apply nth_error_Some; congruence).
        rewrite (Hconst q Hql) in Hq. cbn [orb] in Hq. apply in_rangesb_spec in Hq.
        apply (Hws _ c Hq). fold doc R l l'. unfold l', sdelete. fold P1.
        rewrite (nth_sdel P1 l (s + q)) by (apply Hconst; exact Hql).
        pose proof (sym_at_txt doc i q t Hi Hql) as Hb. cbn [aidx] in Hb. fold s in Hb.
        unfold l. rewrite Hb, Hn. reflexivity.
  - intros i Hi. apply orb_false_iff in Hi. destruct Hi as [Hi _]. rewrite <- K'. exact Hi.
  - intros i Hi. fold (P1 i) in K'. unfold P1 at 1. rewrite K', Hi. reflexivity.
  - intros it b Hit. fold doc in Hit. fold doc. rewrite <- K'.
    destruct (P1 (fstart doc it)) eqn:E0; [reflexivity|]. cbn [orb].
    apply (KT it b Hit E0). rewrite (AstCollect.fstart_tag doc it b Hit). lia.
  - rewrite Ecl. fold doc R l l'. unfold l', sdelete. rewrite sdel_compose. reflexivity.
Qed.

(** Without a ready node [clean] returns the rendering unchanged. *)
Theorem clean_none_ready cfg ds de f :
  good_delims ds de -> good_doc ds de (doc_of f) -> bodies_ok (doc_of f) -> Forall ast_ok f ->
  (forall b1 b2 o c, In (b1, b2, o, c) (ast_nodes 0 f) -> status cfg (el_of b1) <> Some true) ->
  clean cfg ds de (render ds de (doc_of f)) = Ok (render ds de (doc_of f)).
Proof.
  intros Hgd Hdoc Hbod Hok Hn.
  assert (merge_markers (fst (a_collect cfg (doc_of f) false)) = Ok []) as E.
  { rewrite (a_collect_none_ready cfg f Hn Hok). reflexivity. }
  destruct (clean_rendered_np cfg ds de (doc_of f) [] Hgd Hdoc Hbod E (fun m H => match H with end))
    as (aR & EaR & Ecl & _).
  cbn [map] in EaR, Ecl. rewrite sdelete_nil in EaR, Ecl.
  change (a_removed_pos []) with (@nil (nat * option nat)) in EaR.
  rewrite a_format_ranges_nil in EaR. inversion EaR; subst aR.
  rewrite sdelete_nil, rs_flat in Ecl. exact Ecl.
Qed.

(** The output of one run is the rendering of a well-formed syntax tree again.  Its elements are
    the elements of the input that do not lie in (and are not) a ready element, in the same
    order, and none of them is ready. *)
Theorem clean_output_ast_keep : forall cfg ds de f out,
  good_delims ds de -> good_doc ds de (doc_of f) -> bodies_ok (doc_of f) ->
  Forall ast_ok f -> no_unwrap f ->
  clean cfg ds de (render ds de (doc_of f)) = Ok out ->
  exists f2, out = render ds de (doc_of f2) /\ Forall ast_ok f2 /\
    good_doc ds de (doc_of f2) /\ bodies_ok (doc_of f2) /\
    map node_bodies (ast_nodes 0 f2) =
    map node_bodies (filter (fun n => negb (del1 cfg f (fstart (doc_of f) (node_open n))))
                            (ast_nodes 0 f)).
Proof.
  intros cfg ds de f out Hgd Hdoc Hbod Hok Hnu Hc.
  destruct (clean_run_mask cfg ds de f Hgd Hdoc Hbod Hok Hnu)
    as (del & Hpr & Hwf & _ & _ & Htag & Ecl).
  rewrite Ecl in Hc. inversion Hc as [Eout]. clear Hc.
  exists (ast_norm (ast_mask del 0 f)).
  destruct (masked_good ds de f del Hpr Hdoc Hbod Hwf) as [Hg2 Hb2].
  split; [apply masked_rendering; exact Hpr|]. split; [apply masked_ok; exact Hok|].
  split; [exact Hg2|]. split; [exact Hb2|].
  rewrite masked_nodes. f_equal. apply filter_ext_in. intros n Hn. f_equal.
  destruct n as [[[b1 b2] o] c]. cbn [node_open].
  pose proof (ast_nodes_at f 0 _ Hn) as (i & j & -> & _ & _ & Hi & _). cbn [Nat.add].
  apply (Htag i b1 Hi).
Qed.

Theorem clean_output_ast : forall cfg ds de f out,
  good_delims ds de -> good_doc ds de (doc_of f) -> bodies_ok (doc_of f) ->
  Forall ast_ok f -> no_unwrap f ->
  clean cfg ds de (render ds de (doc_of f)) = Ok out ->
  exists f2, out = render ds de (doc_of f2) /\ Forall ast_ok f2 /\
    good_doc ds de (doc_of f2) /\ bodies_ok (doc_of f2) /\
    (forall b1 b2 o c, In (b1, b2, o, c) (ast_nodes 0 f2) -> status cfg (el_of b1) <> Some true) /\
    (* the surviving elements are elements of the input, in order *)
    exists keep, map node_bodies (ast_nodes 0 f2) = map node_bodies (filter keep (ast_nodes 0 f)).
Proof.
  intros cfg ds de f out Hgd Hdoc Hbod Hok Hnu Hc.
  destruct (clean_output_ast_keep cfg ds de f out Hgd Hdoc Hbod Hok Hnu Hc)
    as (f2 & Eo & Hok2 & Hg2 & Hb2 & Hnodes).
  exists f2. split; [exact Eo|]. split; [exact Hok2|]. split; [exact Hg2|]. split; [exact Hb2|].
  split; [|eexists; exact Hnodes].
  intros b1 b2 o c Hin.
  assert (In (b1, b2) (map node_bodies (ast_nodes 0 f2))) as Hm.
  { apply in_map_iff. exists (b1, b2, o, c). split; [reflexivity | exact Hin]. }
  rewrite Hnodes in Hm. apply in_map_iff in Hm. destruct Hm as ([[[c1 c2] o'] c'] & Eb & Hf).
  cbn [node_bodies] in Eb. inversion Eb; subst c1 c2.
  apply filter_In in Hf. destruct Hf as [Hf Hk]. cbn [node_open] in Hk.
  apply negb_true_iff in Hk. apply (del1_open_kept' cfg f b1 b2 o' c' Hf Hk).
Qed.

(** C19, first half, for forests without unwrap-block elements. *)
Theorem clean_idempotent_default : forall cfg ds de f out,
  good_delims ds de -> good_doc ds de (doc_of f) -> bodies_ok (doc_of f) ->
  Forall ast_ok f -> no_unwrap f ->
  clean cfg ds de (render ds de (doc_of f)) = Ok out ->
  clean cfg ds de out = Ok out.
Proof.
  intros cfg ds de f out Hgd Hdoc Hbod Hok Hnu Hc.
  destruct (clean_output_ast cfg ds de f out Hgd Hdoc Hbod Hok Hnu Hc)
    as (f2 & -> & Hok2 & Hg2 & Hb2 & Hnr & _).
  apply clean_none_ready; assumption.
Qed.

(* ------------------------------------------------------------------------- *)
(** * Part 8: an instance *)

(** With the configuration [ac_cfg] of [Proofs.AstCollect] (removal marker "rm", target "f") and
    the delimiters "<!" and ">":

      a
      <!rm name='g'>          (pending)
        p
        <!rm name='f'>q<!/rm> (ready, on a line of its own, indented)
        r
      <!/rm>
      c                                                                            *)
Definition id_ast : list ast :=
  [ AT [97; 10]%N;
    AE b_rm_pending b_rm_close
       [ AT [10; 32; 32; 112; 10; 32; 32]%N;
         AE b_rm_ready b_rm_close [ AT [113%N] ];
         AT [10; 32; 32; 114; 10]%N ];
    AT [10; 99]%N ].
Definition id_ds : str := [60; 33]%N.
Definition id_de : str := [62]%N.

(** The line of the ready element is gone, with its indentation and its line break. *)
Definition id_out : str :=
  [97; 10; 60; 33; 114; 109; 32; 110; 97; 109; 101; 61; 39; 103; 39; 62; 10; 32; 32; 112;
   10; 32; 32; 114; 10; 60; 33; 47; 114; 109; 62; 10; 99]%N.

Example id_ok : Forall ast_ok id_ast.
Proof.
  apply Forall_forall. intros a Ha. apply ast_okb_sound.
  assert (forallb ast_okb id_ast = true) as H by (vm_compute; reflexivity).
  rewrite forallb_forall in H. apply H. exact Ha.
Qed.

Example id_no_unwrap : no_unwrap id_ast.
Proof.
  assert (forallb (fun n : node => negb (has_attr S_UNWRAP (el_attrs (el_of (node_b1 n)))))
                  (ast_nodes 0 id_ast) = true) as H by (vm_compute; reflexivity).
  rewrite forallb_forall in H. intros n Hn. apply negb_true_iff. apply H. exact Hn.
Qed.

Example id_nodes :
  map (fun n : node => (node_open n, node_close n, readyb ac_cfg n)) (ast_nodes 0 id_ast) =
  [ (1, 7, false); (3, 5, true) ].
Proof. vm_compute. reflexivity. Qed.

Example id_delims : good_delims id_ds id_de.
Proof.
  unfold good_delims, id_ds, id_de.
  repeat split; try discriminate; try (vm_compute; reflexivity);
    apply mem_b_false; vm_compute; reflexivity.
Qed.

Example id_good : good_doc id_ds id_de (doc_of id_ast) /\ bodies_ok (doc_of id_ast).
Proof.
  split.
  - apply doc_checkb_ok; [cbn; repeat split; discriminate | vm_compute; reflexivity].
  - intros b Hin. cbn in Hin.
    repeat (destruct Hin as [E|Hin]; [try discriminate E; inversion E; subst; cbn; lia|]).
    destruct Hin.
Qed.

(** The first run, computed. *)
Example id_first : clean ac_cfg id_ds id_de (render id_ds id_de (doc_of id_ast)) = Ok id_out.
Proof. vm_compute. reflexivity. Qed.

Example id_shorter : length id_out < length (render id_ds id_de (doc_of id_ast)).
Proof. vm_compute. lia. Qed.

(** The second run, computed ... *)
Example id_second_computed : clean ac_cfg id_ds id_de id_out = Ok id_out.
Proof. vm_compute. reflexivity. Qed.

(** ... and by the theorem. *)
Example id_second : clean ac_cfg id_ds id_de id_out = Ok id_out.
Proof.
  apply (clean_idempotent_default ac_cfg id_ds id_de id_ast id_out id_delims
           (proj1 id_good) (proj2 id_good) id_ok id_no_unwrap id_first).
Qed.

(** The syntax tree of the output: the pending element with one merged text. *)
Definition id_ast2 : list ast :=
  [ AT [97; 10]%N;
    AE b_rm_pending b_rm_close [ AT [10; 32; 32; 112; 10; 32; 32; 114; 10]%N ];
    AT [10; 99]%N ].

Example id_out_ast : id_out = render id_ds id_de (doc_of id_ast2).
Proof. vm_compute. reflexivity. Qed.

Example id_output_ast :
  exists f2, id_out = render id_ds id_de (doc_of f2) /\ Forall ast_ok f2 /\
    map node_bodies (ast_nodes 0 f2) = [ (b_rm_pending, b_rm_close) ].
Proof.
  destruct (clean_output_ast_keep ac_cfg id_ds id_de id_ast id_out id_delims
              (proj1 id_good) (proj2 id_good) id_ok id_no_unwrap id_first)
    as (f2 & E & Hok & _ & _ & Hn).
  exists f2. split; [exact E|]. split; [exact Hok|]. rewrite Hn. vm_compute. reflexivity.
Qed.

Print Assumptions sdel_compose.
Print Assumptions nth_sdel.
Print Assumptions wf_kept_ws.
Print Assumptions markers_no_pairs.
Print Assumptions format_ranges_flat_np.
Print Assumptions clean_rendered_np.
Print Assumptions seam_not_across_tag.
Print Assumptions kept_tag_untouched.
Print Assumptions clean_run_mask.
Print Assumptions clean_none_ready.
Print Assumptions clean_output_ast_keep.
Print Assumptions clean_output_ast.
Print Assumptions clean_idempotent_default.
Print Assumptions id_first.
Print Assumptions id_second.
Print Assumptions id_output_ast.
