(** C18, stage 3: the stack machine on well-nested inputs, and abstract syntax trees of documents.

    Part 1: on a well-nested sequence (of item indices, or of tokens) the one-pass stack machine of
            Spec/Stack.v (and its index version of Proofs/SimFront.v) returns the mirror tree.
    Part 2: documents given by an abstract syntax tree; the tree of the front end on any rendering
            of such a document is the mirror tree of the syntax tree.
    Part 3: an instance. *)
From Coq Require Import List NArith ZArith Arith Bool Lia PeanoNat.
Import ListNotations.
From Chiri Require Import Base.Bytes Base.Res Model.Tokenizer Model.TagParser Model.TreeParser
  Model.Clean Spec.Rename Spec.Simulation Spec.Stack
  Proofs.BytesLemmas Proofs.TreeProofs Proofs.RenameProofs Proofs.SimFront.

(* ------------------------------------------------------------------------- *)
(** * Part 1: the machine on well-nested sequences *)

(** A trimmed name never begins with a slash: an opener that can be closed at all has a name
    without a leading slash. *)
Lemma starts_with_slash_trim s : starts_with_slash (trim_slashes s) = false.
Proof.
  induction s as [|b s IH]; [reflexivity|]. cbn [trim_slashes].
  destruct (beq b SLASH) eqn:E; [exact IH|]. cbn [starts_with_slash]. exact E.
Qed.

(** ** Over item indices *)

(** [wn cls ks ps]: the index sequence [ks] is well nested with respect to the classifier [cls],
    and [ps] is its mirror tree. *)
Inductive wn (cls : nat -> option element) : list nat -> list apart -> Prop :=
| wn_nil : wn cls [] []
| wn_text k ks ps : cls k = None -> wn cls ks ps -> wn cls (k :: ks) (AText k :: ps)
| wn_elem o c el el' inner kids ks ps :
    cls o = Some el -> starts_with_slash (el_name el) = false ->
    cls c = Some el' -> starts_with_slash (el_name el') = true ->
    trim_slashes (el_name el') = el_name el ->
    wn cls inner kids -> wn cls ks ps ->
    wn cls (o :: inner ++ c :: ks) (AElem el o c kids :: ps).

(** The hypothesis on the name of the opener follows from the one on the closer. *)
Lemma wn_elem' cls o c el el' inner kids ks ps :
  cls o = Some el ->
  cls c = Some el' -> starts_with_slash (el_name el') = true ->
  trim_slashes (el_name el') = el_name el ->
  wn cls inner kids -> wn cls ks ps ->
  wn cls (o :: inner ++ c :: ks) (AElem el o c kids :: ps).
Proof.
  intros Ho Hc Hs Ht Hi Hk. apply (wn_elem cls o c el el'); try assumption.
  rewrite <- Ht. apply starts_with_slash_trim.
Qed.

Lemma wn_app cls ks1 ps1 : wn cls ks1 ps1 -> forall ks2 ps2, wn cls ks2 ps2 ->
  wn cls (ks1 ++ ks2) (ps1 ++ ps2).
Proof.
  induction 1 as [| k ks ps Hk _ IH | o c el el' inner kids ks ps Ho So Hc Sc Ht Hi _ _ IH];
    intros ks2 ps2 H2.
  - exact H2.
  - cbn [app]. apply wn_text; [exact Hk | apply IH; exact H2].
  - cbn [app]. rewrite <- app_assoc. cbn [app].
    apply (wn_elem cls o c el el'); try assumption. apply IH. exact H2.
Qed.

Lemma apush_nil st : apush_parts st [] = st.
Proof.
  destruct st as [[|[i e ch] fs] root]; cbn [apush_parts af_idx af_el af_children];
    rewrite app_nil_r; reflexivity.
Qed.

Lemma apush_app st a b : apush_parts (apush_parts st a) b = apush_parts st (a ++ b).
Proof.
  destruct st as [[|f fs] root]; cbn [apush_parts af_idx af_el af_children];
    rewrite app_assoc; reflexivity.
Qed.

(** The generalisation: from ANY state, a well-nested sequence appends its mirror tree to the
    innermost open frame (to the top level when no frame is open) and changes nothing else.  In
    particular every closer inside finds its own opener as the innermost frame of that name. *)
Theorem wn_fold cls ks ps : wn cls ks ps ->
  forall st, fold_left (amstep cls) ks st = apush_parts st ps.
Proof.
  induction 1 as [| k ks ps Hk _ IH | o c el el' inner kids ks ps Ho So Hc Sc Ht _ IHi _ IHk];
    intros st.
  - cbn [fold_left]. symmetry. apply apush_nil.
  - cbn [fold_left]. unfold amstep at 2. rewrite Hk. rewrite IH. apply apush_app.
  - cbn [fold_left]. rewrite fold_left_app. cbn [fold_left].
    (* the opener *)
    assert (amstep cls st o = (mkAFrame o el [] :: fst st, snd st)) as E1.
    { unfold amstep. rewrite Ho. unfold ais_closer. rewrite So. reflexivity. }
    rewrite E1, IHi. cbn [apush_parts af_idx af_el af_children app].
    (* the closer *)
    assert (amstep cls (mkAFrame o el kids :: fst st, snd st) c
            = apush_parts st [AElem el o c kids]) as E2.
    { unfold amstep. rewrite Hc. cbn [fst snd]. unfold ais_closer. rewrite Sc.
      cbn [existsb af_el andb]. rewrite Ht, str_eqb_refl. cbn [orb].
      cbn [aclose_frame af_el af_idx af_children]. rewrite str_eqb_refl, app_nil_r.
      destruct st as [fs root]. reflexivity. }
    rewrite E2, IHk. apply apush_app.
Qed.

Theorem wn_astack_run cls ks ps : wn cls ks ps -> astack_run cls ks = ps.
Proof.
  intros H. unfold astack_run. rewrite (wn_fold cls ks ps H).
  cbn [apush_parts afinish app]. apply app_nil_r.
Qed.

(** ** Over tokens: the machine of Spec/Stack.v *)

Inductive wnt (cls : token -> option element) : list token -> list part -> Prop :=
| wnt_nil : wnt cls [] []
| wnt_text t ts ps : cls t = None -> wnt cls ts ps -> wnt cls (t :: ts) (PText t :: ps)
| wnt_elem o c el el' inner kids ts ps :
    cls o = Some el -> starts_with_slash (el_name el) = false ->
    cls c = Some el' -> starts_with_slash (el_name el') = true ->
    trim_slashes (el_name el') = el_name el ->
    wnt cls inner kids -> wnt cls ts ps ->
    wnt cls (o :: inner ++ c :: ts) (PElem el o c kids :: ps).

Lemma push_nil st : push_parts st [] = st.
Proof.
  destruct st as [[|[i e ch] fs] root]; cbn [push_parts fr_tok fr_el fr_children];
    rewrite app_nil_r; reflexivity.
Qed.

Lemma push_app st a b : push_parts (push_parts st a) b = push_parts st (a ++ b).
Proof.
  destruct st as [[|f fs] root]; cbn [push_parts fr_tok fr_el fr_children];
    rewrite app_assoc; reflexivity.
Qed.

Theorem wnt_fold cls ts ps : wnt cls ts ps ->
  forall st, fold_left (mstep cls) ts st = push_parts st ps.
Proof.
  induction 1 as [| k ks ps Hk _ IH | o c el el' inner kids ks ps Ho So Hc Sc Ht _ IHi _ IHk];
    intros st.
  - cbn [fold_left]. symmetry. apply push_nil.
  - cbn [fold_left]. unfold mstep at 2. rewrite Hk. rewrite IH. apply push_app.
  - cbn [fold_left]. rewrite fold_left_app. cbn [fold_left].
    assert (mstep cls st o = (mkFrame o el [] :: fst st, snd st)) as E1.
    { unfold mstep. rewrite Ho. unfold is_closer. rewrite So. reflexivity. }
    rewrite E1, IHi. cbn [push_parts fr_tok fr_el fr_children app].
    assert (mstep cls (mkFrame o el kids :: fst st, snd st) c
            = push_parts st [PElem el o c kids]) as E2.
    { unfold mstep. rewrite Hc. cbn [fst snd]. unfold is_closer. rewrite Sc.
      cbn [existsb fr_el andb]. rewrite Ht, str_eqb_refl. cbn [orb].
      cbn [close_frame fr_el fr_tok fr_children]. rewrite str_eqb_refl, app_nil_r.
      destruct st as [fs root]. reflexivity. }
    rewrite E2, IHk. apply push_app.
Qed.

Theorem wnt_stack_tree cls ts ps : wnt cls ts ps -> stack_tree cls ts = ps.
Proof.
  intros H. unfold stack_tree. rewrite (wnt_fold cls ts ps H).
  cbn [push_parts finish app]. apply app_nil_r.
Qed.

(** Instantiating indices by tokens maps well-nested index sequences to well-nested token
    sequences (so the token-level theorem also follows through [stack_tree_of]). *)
Lemma wn_wnt tok cls acls' ks ps : wn acls' ks ps ->
  (forall k, In k ks -> cls (tok k) = acls' k) ->
  wnt cls (map tok ks) (map (part_of tok) ps).
Proof.
  induction 1 as [| k ks ps Hk _ IH | o c el el' inner kids ks ps Ho So Hc Sc Ht _ IHi _ IHk];
    intros E.
  - constructor.
  - cbn [map part_of]. apply wnt_text.
    + rewrite E by (left; reflexivity). exact Hk.
    + apply IH. intros j Hj. apply E. right. exact Hj.
  - cbn [map part_of]. rewrite map_app. cbn [map].
    apply (wnt_elem cls (tok o) (tok c) el el'); try assumption.
    + rewrite E by (left; reflexivity). exact Ho.
    + rewrite E; [exact Hc|]. right. apply in_or_app. right. left. reflexivity.
    + apply IHi. intros j Hj. apply E. right. apply in_or_app. left. exact Hj.
    + apply IHk. intros j Hj. apply E. right. apply in_or_app. right. right. exact Hj.
Qed.

(* ------------------------------------------------------------------------- *)
(** * Part 2: abstract syntax trees of documents *)

Inductive ast :=
| AT (t : str)                          (* a text *)
| AC (b : str)                          (* a tag that is not an element *)
| AE (b1 b2 : str) (kids : list ast).   (* an element: opening tag body, closing tag body, children *)

Fixpoint ast_ind' (P : ast -> Prop)
         (HT : forall t, P (AT t))
         (HC : forall b, P (AC b))
         (HE : forall b1 b2 kids, Forall P kids -> P (AE b1 b2 kids))
         (a : ast) : P a :=
  match a with
  | AT t => HT t
  | AC b => HC b
  | AE b1 b2 kids =>
    HE b1 b2 kids
       ((fix go (l : list ast) : Forall P l :=
           match l with
           | [] => Forall_nil P
           | x :: l' => Forall_cons x (ast_ind' P HT HC HE x) (go l')
           end) kids)
  end.

Fixpoint items_of (a : ast) : list item :=
  match a with
  | AT t => [Txt t]
  | AC b => [Tag b]
  | AE b1 b2 kids => Tag b1 :: flat_map items_of kids ++ [Tag b2]
  end.
Definition doc_of (f : list ast) : list item := flat_map items_of f.

(** The number of items. *)
Fixpoint size (a : ast) : nat :=
  match a with
  | AT _ => 1
  | AC _ => 1
  | AE _ _ kids => S (S (list_sum (map size kids)))
  end.
Definition sizes (f : list ast) : nat := list_sum (map size f).

(** The class of an item, and the element of a tag body (a dummy when there is none). *)
Definition icls (it : item) : option element :=
  match it with
  | Tag b => match parse_target b with Ok o => o | Panic => None end
  | Txt _ => None
  end.
Definition el0 : element := mkElement [] [].
Definition el_of (b : str) : element :=
  match icls (Tag b) with Some el => el | None => el0 end.

Inductive ast_ok : ast -> Prop :=
| ok_AT t : ast_ok (AT t)
| ok_AC b : parse_target b = Ok None -> ast_ok (AC b)
| ok_AE b1 b2 kids el el' :
    parse_target b1 = Ok (Some el) -> starts_with_slash (el_name el) = false ->
    parse_target b2 = Ok (Some el') -> starts_with_slash (el_name el') = true ->
    trim_slashes (el_name el') = el_name el ->
    Forall ast_ok kids ->
    ast_ok (AE b1 b2 kids).

(** A decision procedure for [ast_ok] (used in Part 3). *)
Definition is_none_tag (b : str) : bool :=
  match parse_target b with Ok None => true | _ => false end.
Definition pair_ok (b1 b2 : str) : bool :=
  match parse_target b1, parse_target b2 with
  | Ok (Some el), Ok (Some el') =>
    negb (starts_with_slash (el_name el)) && starts_with_slash (el_name el')
    && str_eqb (trim_slashes (el_name el')) (el_name el)
  | _, _ => false
  end.
Fixpoint ast_okb (a : ast) : bool :=
  match a with
  | AT _ => true
  | AC b => is_none_tag b
  | AE b1 b2 kids => pair_ok b1 b2 && forallb ast_okb kids
  end.

Lemma ast_okb_sound a : ast_okb a = true -> ast_ok a.
Proof.
  induction a as [t | b | b1 b2 kids IH] using ast_ind'; cbn [ast_okb]; intros H.
  - constructor.
  - constructor. unfold is_none_tag in H.
    destruct (parse_target b) as [[?|]|]; [discriminate | reflexivity | discriminate].
  - apply andb_true_iff in H. destruct H as [H1 H2]. unfold pair_ok in H1.
    destruct (parse_target b1) as [[el|]|] eqn:E1; try discriminate.
    destruct (parse_target b2) as [[el'|]|] eqn:E2; try discriminate.
    apply andb_true_iff in H1. destruct H1 as [H1 H3]. apply andb_true_iff in H1.
    destruct H1 as [H1 H4]. apply negb_true_iff in H1. apply str_eqb_eq in H3.
    apply (ok_AE b1 b2 kids el el'); try assumption; try reflexivity.
    rewrite forallb_forall in H2. rewrite Forall_forall in *. intros x Hx.
    apply (IH x Hx). apply H2. exact Hx.
Qed.

(** The mirror tree: the item indices are the positions in [doc_of f] offset by [base]. *)
Fixpoint atree1 (base : nat) (a : ast) : apart :=
  match a with
  | AT _ => AText base
  | AC _ => AText base
  | AE b1 b2 kids =>
    AElem (el_of b1) base (S base + sizes kids)
          ((fix go (b : nat) (l : list ast) : list apart :=
              match l with
              | [] => []
              | x :: l' => atree1 b x :: go (b + size x) l'
              end) (S base) kids)
  end.
Fixpoint atree_of (base : nat) (f : list ast) : list apart :=
  match f with
  | [] => []
  | x :: f' => atree1 base x :: atree_of (base + size x) f'
  end.

Lemma atree1_AE base b1 b2 kids :
  atree1 base (AE b1 b2 kids) = AElem (el_of b1) base (S base + sizes kids) (atree_of (S base) kids).
Proof. reflexivity. Qed.

Lemma sizes_cons x f : sizes (x :: f) = size x + sizes f.
Proof. reflexivity. Qed.

Lemma size_items a : length (items_of a) = size a.
Proof.
  induction a as [t | b | b1 b2 kids IH] using ast_ind'; try reflexivity.
  cbn [items_of size length]. rewrite app_length. cbn [length]. rewrite Nat.add_1_r. do 2 f_equal.
  induction IH as [|x l Hx _ IHl]; [reflexivity|].
  cbn [flat_map map list_sum]. rewrite app_length, Hx, IHl. reflexivity.
Qed.

Lemma sizes_doc f : length (doc_of f) = sizes f.
Proof.
  unfold doc_of, sizes. induction f as [|x f IH]; [reflexivity|].
  cbn [flat_map map list_sum]. rewrite app_length, size_items, IH. reflexivity.
Qed.

Lemma acls_icls doc k :
  acls doc k = match nth_error doc k with Some it => icls it | None => None end.
Proof. unfold acls, icls. destruct (nth_error doc k) as [[t|b]|]; reflexivity. Qed.

(** [cls] classifies the indices [base ..] as the items of [its]. *)
Definition cls_on (cls : nat -> option element) (base : nat) (its : list item) : Prop :=
  forall k it, nth_error its k = Some it -> cls (base + k) = icls it.

Lemma cls_on_app cls base a b : cls_on cls base (a ++ b) ->
  cls_on cls base a /\ cls_on cls (base + length a) b.
Proof.
  intros H. split; intros k it Hk.
  - apply H. rewrite nth_error_app1; [exact Hk|]. apply nth_error_Some. congruence.
  - rewrite <- Nat.add_assoc. apply H. rewrite nth_error_app2 by lia.
    replace (length a + k - length a) with k by lia. exact Hk.
Qed.

Lemma cls_on_acls doc : cls_on (acls doc) 0 doc.
Proof. intros k it Hk. cbn [Nat.add]. rewrite acls_icls, Hk. reflexivity. Qed.

Definition wn_ast (cls : nat -> option element) (a : ast) : Prop :=
  forall base, ast_ok a -> cls_on cls base (items_of a) ->
  wn cls (seq base (size a)) [atree1 base a].

Lemma wn_forest_aux cls f : Forall (wn_ast cls) f ->
  forall base, Forall ast_ok f -> cls_on cls base (doc_of f) ->
  wn cls (seq base (sizes f)) (atree_of base f).
Proof.
  induction 1 as [|x f Hx _ IH]; intros base Hok Hc.
  - constructor.
  - inversion Hok as [|? ? Ox Of]; subst.
    unfold doc_of in Hc. cbn [flat_map] in Hc. apply cls_on_app in Hc. destruct Hc as [C1 C2].
    rewrite size_items in C2.
    rewrite sizes_cons. cbn [atree_of]. rewrite seq_app.
    apply (wn_app cls _ [atree1 base x]).
    + apply Hx; assumption.
    + apply IH; assumption.
Qed.

Lemma wn_ast_all cls a : wn_ast cls a.
Proof.
  induction a as [t | b | b1 b2 kids IH] using ast_ind'; intros base Hok Hc.
  - cbn [size seq atree1]. apply wn_text; [|constructor].
    rewrite <- (Nat.add_0_r base). apply (Hc 0 (Txt t)). reflexivity.
  - cbn [size seq atree1]. apply wn_text; [|constructor].
    rewrite <- (Nat.add_0_r base). rewrite (Hc 0 (Tag b)) by reflexivity.
    inversion Hok as [|? Hb|]; subst. unfold icls. rewrite Hb. reflexivity.
  - inversion Hok as [| |? ? ? el el' P1 S1 P2 S2 Ht Hk]; subst.
    rewrite atree1_AE. cbn [size]. fold (sizes kids).
    assert (icls (Tag b1) = Some el) as I1 by (unfold icls; rewrite P1; reflexivity).
    assert (icls (Tag b2) = Some el') as I2 by (unfold icls; rewrite P2; reflexivity).
    assert (el_of b1 = el) as -> by (unfold el_of; rewrite I1; reflexivity).
    replace (S (S (sizes kids))) with (S (sizes kids + 1)) by lia.
    cbn [seq]. rewrite seq_app. cbn [seq].
    cbn [items_of] in Hc.
    assert (cls base = Some el) as Co.
    { rewrite <- (Nat.add_0_r base). rewrite (Hc 0 (Tag b1)) by reflexivity. exact I1. }
    change (Tag b1 :: flat_map items_of kids ++ [Tag b2])
      with ([Tag b1] ++ doc_of kids ++ [Tag b2]) in Hc.
    apply cls_on_app in Hc. destruct Hc as [_ Hc]. cbn [length] in Hc.
    apply cls_on_app in Hc. destruct Hc as [Ck Cc]. rewrite sizes_doc in Cc.
    rewrite Nat.add_1_r in Ck, Cc.
    assert (cls (S base + sizes kids) = Some el') as Cc'.
    { rewrite <- (Nat.add_0_r (S base + sizes kids)). rewrite (Cc 0 (Tag b2)) by reflexivity.
      exact I2. }
    apply (wn_elem cls base (S base + sizes kids) el el' _ _ [] []); try assumption.
    + apply wn_forest_aux; assumption.
    + constructor.
Qed.

(** The item indices [base ..] of a forest are well nested, with mirror tree [atree_of base f]. *)
Theorem wn_forest cls f base : Forall ast_ok f -> cls_on cls base (doc_of f) ->
  wn cls (seq base (length (doc_of f))) (atree_of base f).
Proof.
  intros Hok Hc. rewrite sizes_doc. apply wn_forest_aux; try assumption.
  apply Forall_forall. intros x _. apply wn_ast_all.
Qed.

Corollary wn_doc f : Forall ast_ok f ->
  wn (acls (doc_of f)) (seq 0 (length (doc_of f))) (atree_of 0 f).
Proof. intros H. apply wn_forest; [exact H | apply cls_on_acls]. Qed.

Theorem astack_tree_ast f : Forall ast_ok f ->
  astack_tree (acls (doc_of f)) (length (doc_of f)) = atree_of 0 f.
Proof. intros H. unfold astack_tree. apply wn_astack_run. apply wn_doc. exact H. Qed.

(** The front end on any rendering of the document of a syntax tree. *)
Corollary front_end_ast ds de f :
  good_delims ds de -> good_doc ds de (doc_of f) -> bodies_ok (doc_of f) -> Forall ast_ok f ->
  exists ts, tokenize (render ds de (doc_of f)) ds de = Ok ts /\
    tokens_items ds de (doc_of f) ts /\
    front_end ds de (render ds de (doc_of f)) = Ok (map (part_of (tokd ts)) (atree_of 0 f)).
Proof.
  intros Hg Hd Hb Hok.
  destruct (tokenize_rendered_total ds de (doc_of f) Hg Hd Hb) as (ts & H & Ht).
  exists ts. split; [exact H|]. split; [exact Ht|].
  rewrite (front_end_rendered ds de (doc_of f) ts Hg Hd Hb H), (astack_tree_ast f Hok). reflexivity.
Qed.

(** The token sequence of such a rendering is well nested at the token level, too. *)
Corollary wnt_ast ds de f ts :
  good_delims ds de -> good_doc ds de (doc_of f) -> bodies_ok (doc_of f) -> Forall ast_ok f ->
  tokenize (render ds de (doc_of f)) ds de = Ok ts ->
  wnt (cls_of ds de) ts (map (part_of (tokd ts)) (atree_of 0 f)).
Proof.
  intros Hg Hd Hb Hok H. pose proof (tokens_rendered ds de _ ts Hg Hd Hb H) as Ht.
  rewrite (tokd_seq ts) at 1. pose proof Ht as [Hlen _]. rewrite Hlen.
  apply (wn_wnt (tokd ts) (cls_of ds de) (acls (doc_of f))); [apply wn_doc; exact Hok|].
  intros k Hk. apply in_seq in Hk. apply (cls_of_rendered ds de (doc_of f) ts k Hg Hd Ht). lia.
Qed.

(** ** The elements of the mirror tree are the [AE] nodes *)

(** The elements of a tree in document order (pre-order), with the indices of their two tags. *)
Fixpoint aelems1 (p : apart) : list (element * nat * nat) :=
  match p with
  | AText _ => []
  | AElem el o c ch => (el, o, c) :: flat_map aelems1 ch
  end.
Definition aelements (ps : list apart) : list (element * nat * nat) := flat_map aelems1 ps.

(** The [AE] nodes of a forest in pre-order: the two tag bodies, and the positions of the two tags
    in [doc_of f] offset by [base]. *)
Fixpoint nodes1 (base : nat) (a : ast) : list (str * str * nat * nat) :=
  match a with
  | AT _ => []
  | AC _ => []
  | AE b1 b2 kids =>
    (b1, b2, base, S base + sizes kids) ::
    (fix go (b : nat) (l : list ast) : list (str * str * nat * nat) :=
       match l with
       | [] => []
       | x :: l' => nodes1 b x ++ go (b + size x) l'
       end) (S base) kids
  end.
Fixpoint ast_nodes (base : nat) (f : list ast) : list (str * str * nat * nat) :=
  match f with
  | [] => []
  | x :: f' => nodes1 base x ++ ast_nodes (base + size x) f'
  end.

Lemma nodes1_AE base b1 b2 kids :
  nodes1 base (AE b1 b2 kids) = (b1, b2, base, S base + sizes kids) :: ast_nodes (S base) kids.
Proof. reflexivity. Qed.

Definition node_elem (n : str * str * nat * nat) : element * nat * nat :=
  match n with (b1, _, o, c) => (el_of b1, o, c) end.

Lemma aelements_forest_aux f :
  Forall (fun a => forall base, aelems1 (atree1 base a) = map node_elem (nodes1 base a)) f ->
  forall base, aelements (atree_of base f) = map node_elem (ast_nodes base f).
Proof.
  induction 1 as [|x f Hx _ IH]; intros base; [reflexivity|].
  unfold aelements in *. cbn [atree_of flat_map ast_nodes]. rewrite map_app, Hx, IH. reflexivity.
Qed.

Lemma aelems1_atree1 a : forall base, aelems1 (atree1 base a) = map node_elem (nodes1 base a).
Proof.
  induction a as [t | b | b1 b2 kids IH] using ast_ind'; intros base; try reflexivity.
  rewrite atree1_AE, nodes1_AE. cbn [aelems1 map node_elem]. f_equal.
  apply (aelements_forest_aux kids IH).
Qed.

(** Structurally: the elements of the mirror tree are the [AE] nodes in pre-order. *)
Theorem aelements_atree f base : aelements (atree_of base f) = map node_elem (ast_nodes base f).
Proof.
  apply aelements_forest_aux. apply Forall_forall. intros a _. apply aelems1_atree1.
Qed.

(** What [ast_nodes] lists: the indices point at the two tags of the node, in this order, within
    the document. *)
Definition node_at (its : list item) (base : nat) (n : str * str * nat * nat) : Prop :=
  match n with
  | (b1, b2, o, c) =>
    exists i j, o = base + i /\ c = base + j /\ i < j /\
                nth_error its i = Some (Tag b1) /\ nth_error its j = Some (Tag b2)
  end.

Lemma node_at_app_l its its' base n : node_at its base n -> node_at (its ++ its') base n.
Proof.
  destruct n as [[[b1 b2] o] c]. intros (i & j & -> & -> & Hij & Hi & Hj).
  exists i, j. repeat split; try assumption.
  - rewrite nth_error_app1; [exact Hi | apply nth_error_Some; congruence].
  - rewrite nth_error_app1; [exact Hj | apply nth_error_Some; congruence].
Qed.

Lemma node_at_app_r its' its base n :
  node_at its (base + length its') n -> node_at (its' ++ its) base n.
Proof.
  destruct n as [[[b1 b2] o] c]. intros (i & j & -> & -> & Hij & Hi & Hj).
  exists (length its' + i), (length its' + j). repeat split; try lia.
  - rewrite nth_error_app2 by lia. rewrite <- Hi. f_equal. lia.
  - rewrite nth_error_app2 by lia. rewrite <- Hj. f_equal. lia.
Qed.

Lemma nodes_forest_aux f :
  Forall (fun a => forall base n, In n (nodes1 base a) -> node_at (items_of a) base n) f ->
  forall base n, In n (ast_nodes base f) -> node_at (doc_of f) base n.
Proof.
  induction 1 as [|x f Hx _ IH]; intros base n Hn; [destruct Hn|].
  cbn [ast_nodes] in Hn. unfold doc_of. cbn [flat_map]. apply in_app_or in Hn.
  destruct Hn as [Hn|Hn].
  - apply node_at_app_l. apply Hx. exact Hn.
  - apply node_at_app_r. rewrite size_items. apply IH. exact Hn.
Qed.

Lemma nodes1_at a : forall base n, In n (nodes1 base a) -> node_at (items_of a) base n.
Proof.
  induction a as [t | b | b1 b2 kids IH] using ast_ind'; intros base n Hn;
    [destruct Hn | destruct Hn |].
  rewrite nodes1_AE in Hn. cbn [items_of]. destruct Hn as [<-|Hn].
  - exists 0, (S (sizes kids)). repeat split; try lia.
    cbn [nth_error]. fold (doc_of kids). rewrite nth_error_app2 by (rewrite sizes_doc; lia).
    rewrite sizes_doc, Nat.sub_diag. reflexivity.
  - change (Tag b1 :: flat_map items_of kids ++ [Tag b2])
      with ([Tag b1] ++ doc_of kids ++ [Tag b2]).
    apply node_at_app_r. apply node_at_app_l. cbn [length]. rewrite Nat.add_1_r.
    apply (nodes_forest_aux kids IH). exact Hn.
Qed.

Theorem ast_nodes_at f base n : In n (ast_nodes base f) -> node_at (doc_of f) base n.
Proof.
  apply nodes_forest_aux. apply Forall_forall. intros a _. apply nodes1_at.
Qed.

(** Pre-order is document order: the indices of the opening tags increase strictly along
    [ast_nodes], and they lie within the forest. *)
Definition node_open (n : str * str * nat * nat) : nat := match n with (_, _, o, _) => o end.
Definition node_close (n : str * str * nat * nat) : nat := match n with (_, _, _, c) => c end.

Lemma node_at_range its base n : node_at its base n ->
  base <= node_open n /\ node_open n < node_close n /\ node_close n < base + length its.
Proof.
  destruct n as [[[b1 b2] o] c]. intros (i & j & -> & -> & Hij & Hi & Hj). cbn [node_open node_close].
  assert (j < length its) by (apply nth_error_Some; congruence). lia.
Qed.

Lemma FOP_app {A} (R : A -> A -> Prop) l1 l2 :
  ForallOrdPairs R l1 -> ForallOrdPairs R l2 -> (forall a b, In a l1 -> In b l2 -> R a b) ->
  ForallOrdPairs R (l1 ++ l2).
Proof.
  induction 1 as [|a l1 Ha _ IH]; intros H2 H; [exact H2|].
  cbn [app]. constructor.
  - apply Forall_app. split; [exact Ha|]. apply Forall_forall. intros b Hb. apply H; [left; reflexivity | exact Hb].
  - apply IH; [exact H2|]. intros x y Hx Hy. apply H; [right; exact Hx | exact Hy].
Qed.

Lemma nodes_sorted_aux f :
  Forall (fun a => forall base, ForallOrdPairs lt (map node_open (nodes1 base a))) f ->
  forall base, ForallOrdPairs lt (map node_open (ast_nodes base f)).
Proof.
  induction 1 as [|x f Hx _ IH]; intros base; [constructor|].
  cbn [ast_nodes]. rewrite map_app. apply FOP_app; [apply Hx | apply IH |].
  intros a b Ha Hb. apply in_map_iff in Ha. destruct Ha as (n & <- & Hn).
  apply in_map_iff in Hb. destruct Hb as (m & <- & Hm).
  apply nodes1_at, node_at_range in Hn. apply ast_nodes_at, node_at_range in Hm.
  rewrite size_items in Hn. lia.
Qed.

Lemma nodes1_sorted a : forall base, ForallOrdPairs lt (map node_open (nodes1 base a)).
Proof.
  induction a as [t | b | b1 b2 kids IH] using ast_ind'; intros base;
    [constructor | constructor |].
  rewrite nodes1_AE. cbn [map node_open]. constructor.
  - apply Forall_forall. intros o Ho.
    apply in_map_iff in Ho. destruct Ho as (m & <- & Hm).
    apply ast_nodes_at, node_at_range in Hm. lia.
  - apply (nodes_sorted_aux kids IH).
Qed.

Theorem ast_nodes_sorted f base : ForallOrdPairs lt (map node_open (ast_nodes base f)).
Proof.
  apply nodes_sorted_aux. apply Forall_forall. intros a _. apply nodes1_sorted.
Qed.

Theorem ast_nodes_range f base n : In n (ast_nodes base f) ->
  base <= node_open n /\ node_open n < node_close n /\ node_close n < base + length (doc_of f).
Proof. intros H. apply node_at_range. apply ast_nodes_at. exact H. Qed.

(** For a well-formed forest the element of a node is the parsed opening tag. *)
Lemma ast_nodes_ok f : Forall ast_ok f -> forall base b1 b2 o c, In (b1, b2, o, c) (ast_nodes base f) ->
  exists el el', parse_target b1 = Ok (Some el) /\ el_of b1 = el /\
                 starts_with_slash (el_name el) = false /\
                 parse_target b2 = Ok (Some el') /\ starts_with_slash (el_name el') = true /\
                 trim_slashes (el_name el') = el_name el.
Proof.
  assert (forall a, ast_ok a -> forall base b1 b2 o c, In (b1, b2, o, c) (nodes1 base a) ->
    exists el el', parse_target b1 = Ok (Some el) /\ el_of b1 = el /\
                 starts_with_slash (el_name el) = false /\
                 parse_target b2 = Ok (Some el') /\ starts_with_slash (el_name el') = true /\
                 trim_slashes (el_name el') = el_name el) as H1.
  { induction a as [t | b | a1 a2 kids IH] using ast_ind'; intros Hok base b1 b2 o c Hn;
      [destruct Hn | destruct Hn |].
    inversion Hok as [| |? ? ? el el' P1 S1 P2 S2 Ht Hk]; subst.
    rewrite nodes1_AE in Hn. destruct Hn as [E|Hn].
    - inversion E; subst. exists el, el'. repeat split; try assumption.
      unfold el_of, icls. rewrite P1. reflexivity.
    - clear Hok P1 P2. revert Hn. generalize (S base). clear base.
      induction kids as [|x kids IHk]; intros base Hn; [destruct Hn|].
      inversion IH; subst. inversion Hk; subst. cbn [ast_nodes] in Hn.
      apply in_app_or in Hn. destruct Hn as [Hn|Hn]; eauto. }
  intros Hok. induction Hok as [|x f Hx _ IH]; intros base b1 b2 o c Hn; [destruct Hn|].
  cbn [ast_nodes] in Hn. apply in_app_or in Hn. destruct Hn as [Hn|Hn]; eauto.
Qed.

(** The elements found by the machine on the document of a well-formed forest. *)
Corollary aelements_ast f : Forall ast_ok f ->
  aelements (astack_tree (acls (doc_of f)) (length (doc_of f))) = map node_elem (ast_nodes 0 f).
Proof. intros H. rewrite (astack_tree_ast f H). apply aelements_atree. Qed.

(* ------------------------------------------------------------------------- *)
(** * Part 3: an instance *)

(** text, <a>, text, <a x="1">, <=>, text, </a>, </a>, <b>, <//b>, text: an element inside an
    element of the same name, a tag that is not an element, texts, and a closer with two slashes. *)
Definition ex_ast : list ast :=
  [ AT [104%N; 105%N];
    AE [97%N] [47%N; 97%N]
       [ AT [120%N];
         AE [97%N; 32%N; 120%N; 61%N; 34%N; 49%N; 34%N] [47%N; 97%N]
            [ AC [61%N]; AT [121%N] ] ];
    AE [98%N] [47%N; 47%N; 98%N] [];
    AT [122%N] ].

Example ex_doc : doc_of ex_ast =
  [ Txt [104%N; 105%N]; Tag [97%N]; Txt [120%N]; Tag [97%N; 32%N; 120%N; 61%N; 34%N; 49%N; 34%N];
    Tag [61%N]; Txt [121%N]; Tag [47%N; 97%N]; Tag [47%N; 97%N]; Tag [98%N]; Tag [47%N; 47%N; 98%N];
    Txt [122%N] ].
Proof. reflexivity. Qed.

Example ex_ok : Forall ast_ok ex_ast.
Proof.
  apply Forall_forall. intros a Ha. apply ast_okb_sound.
  assert (forallb ast_okb ex_ast = true) as H by (vm_compute; reflexivity).
  rewrite forallb_forall in H. apply H. exact Ha.
Qed.

Example ex_tree : atree_of 0 ex_ast =
  [ AText 0;
    AElem (mkElement [97%N] []) 1 7
      [ AText 2;
        AElem (mkElement [97%N] [([120%N], Some [49%N])]) 3 6 [ AText 4; AText 5 ] ];
    AElem (mkElement [98%N] []) 8 9 [];
    AText 10 ].
Proof. vm_compute. reflexivity. Qed.

(** Computed directly by the machine, without the theorem ... *)
Example ex_machine :
  astack_tree (acls (doc_of ex_ast)) (length (doc_of ex_ast)) = atree_of 0 ex_ast.
Proof. vm_compute. reflexivity. Qed.

(** ... and by the theorem. *)
Example ex_machine' :
  astack_tree (acls (doc_of ex_ast)) (length (doc_of ex_ast)) = atree_of 0 ex_ast.
Proof. apply astack_tree_ast. exact ex_ok. Qed.

Example ex_elements :
  aelements (atree_of 0 ex_ast) =
  [ (mkElement [97%N] [], 1, 7); (mkElement [97%N] [([120%N], Some [49%N])], 3, 6);
    (mkElement [98%N] [], 8, 9) ].
Proof. vm_compute. reflexivity. Qed.

(** The real front end on the rendering with the delimiters "<" and ">". *)
Example ex_front_end :
  let ds := [60%N] in let de := [62%N] in
  exists ts, tokenize (render ds de (doc_of ex_ast)) ds de = Ok ts /\
    front_end ds de (render ds de (doc_of ex_ast)) = Ok (map (part_of (tokd ts)) (atree_of 0 ex_ast)).
Proof.
  cbv zeta.
  destruct (tokenize (render [60%N] [62%N] (doc_of ex_ast)) [60%N] [62%N]) as [ts|] eqn:E.
  - exists ts. split; [reflexivity|]. revert E. vm_compute. intros E. inversion E. reflexivity.
  - exfalso. revert E. vm_compute. discriminate.
Qed.

Print Assumptions starts_with_slash_trim.
Print Assumptions wn_app.
Print Assumptions wn_fold.
Print Assumptions wn_astack_run.
Print Assumptions wnt_fold.
Print Assumptions wnt_stack_tree.
Print Assumptions wn_wnt.
Print Assumptions ast_okb_sound.
Print Assumptions wn_forest.
Print Assumptions wn_doc.
Print Assumptions astack_tree_ast.
Print Assumptions front_end_ast.
Print Assumptions wnt_ast.
Print Assumptions aelements_atree.
Print Assumptions ast_nodes_at.
Print Assumptions ast_nodes_sorted.
Print Assumptions ast_nodes_range.
Print Assumptions ast_nodes_ok.
Print Assumptions aelements_ast.
Print Assumptions ex_ok.
Print Assumptions ex_machine.
Print Assumptions ex_front_end.
