(** The exact output of [merge_markers] (Model/Markers.v) on forests in which no child range
    touches the opening or the closing part of its (unwrapped) parent. *)
From Coq Require Import List Arith Bool Lia PeanoNat.
Import ListNotations.
From Chiri Require Import Base.Bytes Base.Res Model.Markers Spec.Ranges Spec.Forest
     Proofs.ResLemmas Proofs.MarkerProofs.

(* the regions an element contributes when nothing overlaps its parts: a default-strategy element is
   one region (its nested regions are not listed); an unwrapped element is its opening part, the
   regions of its children, and its closing part *)
Fixpoint flat_ranges_tree (t : rtree) : list Ranges.range :=
  match t with
  | RT (h, None) _ => [h]
  | RT (h, Some tl) ch => h :: flat_map flat_ranges_tree ch ++ [tl]
  end.

(* no child range touches the opening or the closing part of an unwrapped element, at any depth *)
Fixpoint untouched (t : rtree) : Prop :=
  match t with
  | RT (h, None) ch => True
  | RT (h, Some tl) ch =>
    (fix all (l : list rtree) : Prop :=
       match l with
       | [] => True
       | c :: l' => (match c with RT (hc, _) _ => snd h < fst hc end) /\ rtree_hi c < fst tl /\ untouched c /\ all l'
       end) ch
  end.

(** * Unfolding [untouched] *)

Definition rtree_lo (t : rtree) : nat := match t with RT (hc, _) _ => fst hc end.

Lemma untouched_some : forall h tl ch,
  untouched (RT (h, Some tl) ch) <->
  Forall (fun c => snd h < rtree_lo c /\ rtree_hi c < fst tl /\ untouched c) ch.
Proof.
  intros h tl ch. cbn [untouched].
  induction ch as [|c ch IH].
  - split; [intros _; constructor | intros _; exact I].
  - split.
    + intros [H1 [H2 [H3 H4]]]. constructor.
      * split; [|split; assumption]. destruct c as [[hc clc] chc]. exact H1.
      * apply IH. exact H4.
    + intros HF. inversion HF as [|c0 ch0 [H1 [H2 H3]] H4]; subst c0 ch0.
      split; [destruct c as [[hc clc] chc]; exact H1|].
      split; [exact H2|]. split; [exact H3|]. apply IH. exact H4.
Qed.

(** * Where the markers of a tree and of a forest lie *)

Lemma wf_rtree_lo_self : forall lo hi t, wf_rtree lo hi t -> wf_rtree (rtree_lo t) hi t.
Proof.
  intros lo hi [[h cl] ch] H. apply wf_rtree_unfold in H. apply wf_rtree_unfold.
  cbn [rtree_lo]. destruct H as [H1 [H2 [H3 [H4 H5]]]].
  split; [lia|]. split; [exact H2|]. split; [exact H3|]. split; [exact H4 | exact H5].
Qed.

Lemma tree_range_bounds : forall t acc lo hi new,
  wf_rtree lo hi t -> merge_tree acc t = Ok (acc ++ new) ->
  forall r, In r (map fst new) -> rtree_lo t <= fst r /\ fst r < snd r /\ snd r <= rtree_hi t.
Proof.
  intros t acc lo hi new Hwf Hm r Hr.
  destruct (all_tree_ok t acc (rtree_lo t) hi (wf_rtree_lo_self _ _ _ Hwf))
    as [new' [E [S1 [B1 _]]]].
  rewrite Hm in E. injection E as E. apply app_inv_head in E. subst new'.
  destruct (snf_in _ _ _ S1 Hr) as [H1 [H2 _]]. apply B1 in Hr. lia.
Qed.

Lemma forest_range_bounds : forall f acc lo hi new b c,
  wf_forest lo hi f -> foldM merge_tree f acc = Ok (acc ++ new) ->
  Forall (fun t => b < rtree_lo t /\ rtree_hi t < c) f ->
  forall r, In r (map fst new) -> b < fst r /\ fst r < snd r /\ snd r < c.
Proof.
  induction f as [|t f IH]; intros acc lo hi new b c Hwf Hm HF r Hr.
  - cbn [foldM] in Hm. injection Hm as Hm.
    rewrite <- (app_nil_r acc) in Hm at 1. apply app_inv_head in Hm. subst new.
    destruct Hr.
  - cbn [wf_forest] in Hwf. destruct Hwf as [Hwt Hwf].
    inversion HF as [|t0 f0 [Hb Hc] HF']; subst t0 f0.
    destruct (all_tree_ok t acc lo hi Hwt) as [new1 [E1 _]].
    assert (HFok : Forall tree_ok f) by (apply Forall_forall; intros t' _; apply all_tree_ok).
    destruct (forest_ok f HFok (acc ++ new1) (rtree_hi t) hi Hwf) as [new2 [E2 _]].
    cbn [foldM] in Hm. rewrite E1 in Hm. cbn [bind] in Hm.
    assert (Hnew : new = new1 ++ new2).
    { rewrite E2 in Hm. injection Hm as Hm. rewrite <- app_assoc in Hm.
      apply app_inv_head in Hm. symmetry. exact Hm. }
    subst new. rewrite map_app in Hr. apply in_app_or in Hr. destruct Hr as [Hr | Hr].
    + destruct (tree_range_bounds t acc lo hi new1 Hwt E1 r Hr) as [H1 [H2 H3]]. lia.
    + apply (IH (acc ++ new1) (rtree_hi t) hi new2 b c Hwf E2 HF' r Hr).
Qed.

(** * The scans absorb nothing *)

Lemma scan_none_first : forall (cs : list marker) (m : Markers.range),
  (forall r, In r (map fst cs) ->
     contains m (fst r) = false /\ contains m (snd r) = false) ->
  merge_child_markers cs m 0 = (m, 0).
Proof.
  intros [|[x p] cs] m H; [reflexivity|].
  cbn [merge_child_markers].
  destruct (H x) as [H1 H2]; [left; reflexivity|].
  rewrite H1, H2. reflexivity.
Qed.

Lemma slice_list_all : forall (A : Type) (l : list A), slice_list l 0 (length l) = Ok l.
Proof.
  intros A l. unfold slice_list. cbn [Nat.leb]. rewrite Nat.leb_refl. cbn [andb skipn].
  rewrite Nat.sub_0_r, firstn_all. reflexivity.
Qed.

(** The body of [merge_tree] for an unwrapped element none of whose child markers touches the
    opening or the closing part. *)
Lemma body_some_untouched : forall acc a b c d (cs : list marker),
  (forall r, In r (map fst cs) -> b <= fst r /\ fst r < snd r /\ snd r < c) ->
  a < b -> c < d ->
  exists new, merge_tree_body acc (a, b) (Some (c, d)) cs = Ok (acc ++ new) /\
              map fst new = (a, b) :: map fst cs ++ [(c, d)].
Proof.
  intros acc a b c d cs Hcs Hab Hcd.
  assert (Hh : merge_child_markers cs (a, b) 0 = ((a, b), 0)).
  { apply scan_none_first. intros r Hr. apply Hcs in Hr.
    rewrite !contains_false. cbn [fst snd]. lia. }
  assert (Ht : merge_child_markers (rev cs) (c, d) 0 = ((c, d), 0)).
  { apply scan_none_first. intros r Hr. rewrite map_rev in Hr. apply in_rev in Hr.
    apply Hcs in Hr. rewrite !contains_false. cbn [fst snd]. lia. }
  unfold merge_tree_body. rewrite Hh, Ht.
  rewrite (csub_le (length cs) 0) by lia. rewrite Nat.sub_0_r. cbn [bind].
  assert (Hltb : (length cs <? 0) = false) by (apply Nat.ltb_ge; lia).
  rewrite Hltb, slice_list_all. cbn [bind]. rewrite rebase_foldM. cbn [bind app].
  eexists. split; [reflexivity|].
  cbn [map fst]. rewrite map_app, map_fst_rebase. reflexivity.
Qed.

(** The body of [merge_tree] for a default-strategy element: one marker, the element itself. *)
Lemma body_none_shape : forall acc a b cs src,
  a < b -> seg_inv 0 (S a) (b - 1) src cs ->
  merge_tree_body acc (a, b) None cs = Ok (acc ++ [((a, b), None)]).
Proof.
  intros acc a b cs src Hab [Scs [Bcs _]].
  destruct (head_scan cs a b (S a) 0) as [b' [h1 [h2 [Hh [Hcs [Hbb [Sh2 [Hposh Hendh]]]]]]]];
    [lia | exact Hab | exact Scs |].
  assert (Hb' : b' = b).
  { destruct Hendh as [Hb' | [r [Hr Hb']]]; [exact Hb'|].
    assert (Hr' : In r (map fst cs)).
    { rewrite Hcs, map_app. apply in_or_app. left. exact Hr. }
    apply Bcs in Hr'. lia. }
  subst b'. unfold merge_tree_body. rewrite Hh. reflexivity.
Qed.

(** * The shape of the output for trees and forests *)

Definition tree_shape (t : rtree) : Prop :=
  forall acc lo hi, wf_rtree lo hi t -> untouched t ->
    exists new, merge_tree acc t = Ok (acc ++ new) /\ map fst new = flat_ranges_tree t.

Lemma forest_shape : forall f, Forall tree_shape f ->
  forall acc lo hi, wf_forest lo hi f -> Forall untouched f ->
    exists new, foldM merge_tree f acc = Ok (acc ++ new) /\
                map fst new = flat_map flat_ranges_tree f.
Proof.
  induction f as [|t f IH]; intros HF acc lo hi Hwf Hu.
  - exists []. cbn [foldM]. rewrite app_nil_r. split; reflexivity.
  - inversion HF as [|t0 f0 Ht Hf]; subst t0 f0.
    inversion Hu as [|t0 f0 Hut Huf]; subst t0 f0.
    cbn [wf_forest] in Hwf. destruct Hwf as [Hwt Hwf].
    destruct (Ht acc lo hi Hwt Hut) as [new1 [E1 M1]].
    destruct (IH Hf (acc ++ new1) (rtree_hi t) hi Hwf Huf) as [new2 [E2 M2]].
    exists (new1 ++ new2). cbn [foldM]. rewrite E1. cbn [bind]. rewrite E2.
    split; [rewrite app_assoc; reflexivity|].
    cbn [flat_map]. rewrite map_app. exact (f_equal2 (@app _) M1 M2).
Qed.

Lemma all_tree_shape : forall t, tree_shape t.
Proof.
  induction t as [[h cl] ch IHch] using rtree_ind'.
  intros acc lo hi Hwf Hu. apply wf_rtree_unfold in Hwf.
  destruct Hwf as [H1 [H2 [H3 [H4 H5]]]].
  destruct h as [a b]. cbn [fst snd] in *.
  destruct cl as [[c d]|].
  - (* unwrapped *)
    apply untouched_some in Hu. cbn [fst snd] in Hu.
    unfold rr_hi in H5. cbn [fst snd] in H5. destruct H4 as [H4 H6].
    assert (Huc : Forall untouched ch).
    { apply Forall_forall. intros x Hx. rewrite Forall_forall in Hu. apply Hu in Hx. tauto. }
    assert (Hbc : Forall (fun t => b < rtree_lo t /\ rtree_hi t < c) ch).
    { apply Forall_forall. intros x Hx. rewrite Forall_forall in Hu. apply Hu in Hx. tauto. }
    destruct (forest_shape ch IHch [] _ _ H5 Huc) as [cs [Ecs Mcs]].
    assert (Hcs : forall r, In r (map fst cs) -> b <= fst r /\ fst r < snd r /\ snd r < c).
    { intros r Hr.
      destruct (forest_range_bounds ch [] _ _ cs b c H5 Ecs Hbc r Hr) as [A [B C]]. lia. }
    cbn [app] in Ecs.
    destruct (body_some_untouched acc a b c d cs Hcs H2 H6) as [new [E M]].
    exists new. rewrite merge_tree_unfold_body, Ecs. cbn [bind].
    split; [exact E|]. rewrite M, Mcs. reflexivity.
  - (* default strategy *)
    unfold rr_hi in H5. cbn [fst snd] in H5.
    assert (HFok : Forall tree_ok ch) by (apply Forall_forall; intros t' _; apply all_tree_ok).
    destruct (forest_ok ch HFok [] _ _ H5) as [cs [Ecs Ics]].
    cbn [app length] in Ecs, Ics.
    exists [((a, b), None)]. rewrite merge_tree_unfold_body, Ecs. cbn [bind].
    split; [|reflexivity].
    apply body_none_shape with (src := forest_ranges ch); assumption.
Qed.

(** * Main theorem *)

Theorem merge_markers_shape : forall f lo hi ms,
  wf_forest lo hi f -> Forall untouched f -> merge_markers f = Ok ms ->
  map fst ms = flat_map flat_ranges_tree f.
Proof.
  intros f lo hi ms Hwf Hu Hm.
  assert (HF : Forall tree_shape f) by (apply Forall_forall; intros t _; apply all_tree_shape).
  destruct (forest_shape f HF [] lo hi Hwf Hu) as [new [E M]].
  unfold merge_markers in Hm. cbn [app] in E. rewrite Hm in E. injection E as E. subst new.
  exact M.
Qed.

(** * The same with a weak inequality for the opening part

    [contains] is a half-open test, so a child that starts exactly where the opening part ends is
    not absorbed: [snd h <= fst hc] is enough for the opening part.  (For the closing part the
    strict inequality is needed: [merge_markers [RT ((0,5), Some (9,12)) [RT ((6,9), None) []]]]
    is [Ok [((0,5), Some 1); ((6,12), Some 0)]].) *)

Fixpoint untouched_le (t : rtree) : Prop :=
  match t with
  | RT (h, None) ch => True
  | RT (h, Some tl) ch =>
    (fix all (l : list rtree) : Prop :=
       match l with
       | [] => True
       | c :: l' => (match c with RT (hc, _) _ => snd h <= fst hc end) /\ rtree_hi c < fst tl /\ untouched_le c /\ all l'
       end) ch
  end.

Lemma untouched_le_some : forall h tl ch,
  untouched_le (RT (h, Some tl) ch) <->
  Forall (fun c => snd h <= rtree_lo c /\ rtree_hi c < fst tl /\ untouched_le c) ch.
Proof.
  intros h tl ch. cbn [untouched_le].
  induction ch as [|c ch IH].
  - split; [intros _; constructor | intros _; exact I].
  - split.
    + intros [H1 [H2 [H3 H4]]]. constructor.
      * split; [|split; assumption]. destruct c as [[hc clc] chc]. exact H1.
      * apply IH. exact H4.
    + intros HF. inversion HF as [|c0 ch0 [H1 [H2 H3]] H4]; subst c0 ch0.
      split; [destruct c as [[hc clc] chc]; exact H1|].
      split; [exact H2|]. split; [exact H3|]. apply IH. exact H4.
Qed.

Lemma untouched_weaken : forall t, untouched t -> untouched_le t.
Proof.
  induction t as [[h cl] ch IHch] using rtree_ind'. intros Hu.
  destruct cl as [tl|]; [|exact I].
  apply untouched_some in Hu. apply untouched_le_some.
  rewrite Forall_forall in *. intros c Hc.
  destruct (Hu c Hc) as [H1 [H2 H3]].
  split; [lia|]. split; [exact H2|]. apply IHch; assumption.
Qed.

Definition tree_shape_le (t : rtree) : Prop :=
  forall acc lo hi, wf_rtree lo hi t -> untouched_le t ->
    exists new, merge_tree acc t = Ok (acc ++ new) /\ map fst new = flat_ranges_tree t.

Lemma forest_shape_le : forall f, Forall tree_shape_le f ->
  forall acc lo hi, wf_forest lo hi f -> Forall untouched_le f ->
    exists new, foldM merge_tree f acc = Ok (acc ++ new) /\
                map fst new = flat_map flat_ranges_tree f.
Proof.
  induction f as [|t f IH]; intros HF acc lo hi Hwf Hu.
  - exists []. cbn [foldM]. rewrite app_nil_r. split; reflexivity.
  - inversion HF as [|t0 f0 Ht Hf]; subst t0 f0.
    inversion Hu as [|t0 f0 Hut Huf]; subst t0 f0.
    cbn [wf_forest] in Hwf. destruct Hwf as [Hwt Hwf].
    destruct (Ht acc lo hi Hwt Hut) as [new1 [E1 M1]].
    destruct (IH Hf (acc ++ new1) (rtree_hi t) hi Hwf Huf) as [new2 [E2 M2]].
    exists (new1 ++ new2). cbn [foldM]. rewrite E1. cbn [bind]. rewrite E2.
    split; [rewrite app_assoc; reflexivity|].
    cbn [flat_map]. rewrite map_app. exact (f_equal2 (@app _) M1 M2).
Qed.

Lemma all_tree_shape_le : forall t, tree_shape_le t.
Proof.
  induction t as [[h cl] ch IHch] using rtree_ind'.
  intros acc lo hi Hwf Hu. apply wf_rtree_unfold in Hwf.
  destruct Hwf as [H1 [H2 [H3 [H4 H5]]]].
  destruct h as [a b]. cbn [fst snd] in *.
  destruct cl as [[c d]|].
  - apply untouched_le_some in Hu. cbn [fst snd] in Hu.
    unfold rr_hi in H5. cbn [fst snd] in H5. destruct H4 as [H4 H6].
    assert (Huc : Forall untouched_le ch).
    { apply Forall_forall. intros x Hx. rewrite Forall_forall in Hu. apply Hu in Hx. tauto. }
    assert (Hbc : Forall (fun t => b - 1 < rtree_lo t /\ rtree_hi t < c) ch).
    { apply Forall_forall. intros x Hx. rewrite Forall_forall in Hu. apply Hu in Hx.
      split; [lia | tauto]. }
    destruct (forest_shape_le ch IHch [] _ _ H5 Huc) as [cs [Ecs Mcs]].
    assert (Hcs : forall r, In r (map fst cs) -> b <= fst r /\ fst r < snd r /\ snd r < c).
    { intros r Hr.
      destruct (forest_range_bounds ch [] _ _ cs (b - 1) c H5 Ecs Hbc r Hr) as [A [B C]]. lia. }
    cbn [app] in Ecs.
    destruct (body_some_untouched acc a b c d cs Hcs H2 H6) as [new [E M]].
    exists new. rewrite merge_tree_unfold_body, Ecs. cbn [bind].
    split; [exact E|]. rewrite M, Mcs. reflexivity.
  - unfold rr_hi in H5. cbn [fst snd] in H5.
    assert (HFok : Forall tree_ok ch) by (apply Forall_forall; intros t' _; apply all_tree_ok).
    destruct (forest_ok ch HFok [] _ _ H5) as [cs [Ecs Ics]].
    cbn [app length] in Ecs, Ics.
    exists [((a, b), None)]. rewrite merge_tree_unfold_body, Ecs. cbn [bind].
    split; [|reflexivity].
    apply body_none_shape with (src := forest_ranges ch); assumption.
Qed.

Theorem merge_markers_shape_le : forall f lo hi ms,
  wf_forest lo hi f -> Forall untouched_le f -> merge_markers f = Ok ms ->
  map fst ms = flat_map flat_ranges_tree f.
Proof.
  intros f lo hi ms Hwf Hu Hm.
  assert (HF : Forall tree_shape_le f)
    by (apply Forall_forall; intros t _; apply all_tree_shape_le).
  destruct (forest_shape_le f HF [] lo hi Hwf Hu) as [new [E M]].
  unfold merge_markers in Hm. cbn [app] in E. rewrite Hm in E. injection E as E. subst new.
  exact M.
Qed.

(** The strict version is not vacuous and the closing-part inequality cannot be weakened. *)
Example shape_head_le :
  merge_markers [RT ((0,5), Some (9,12)) [RT ((5,7), None) []]]
  = Ok [((0,5), Some 2); ((5,7), None); ((9,12), Some 0)].
Proof. vm_compute. reflexivity. Qed.

Example shape_tail_le_fails :
  merge_markers [RT ((0,5), Some (9,12)) [RT ((6,9), None) []]]
  = Ok [((0,5), Some 1); ((6,12), Some 0)].
Proof. vm_compute. reflexivity. Qed.

Print Assumptions merge_markers_shape.
Print Assumptions merge_markers_shape_le.
