(** The list renderer never panics on sane input: build_item, get_line_range, build_pretty_string
    and build_list are total on non-empty, bounded, boundary-aligned regions of a well-formed
    source. *)
From Coq Require Import List NArith Arith Bool Lia PeanoNat.
Import ListNotations.
From Chiri Require Import Base.Bytes Base.Res Model.Finders Model.Markers Model.ListRender Spec.ListSpec
     Proofs.ResLemmas Proofs.BytesLemmas Proofs.Utf8 Proofs.ListProofs.

(* ------------------------------------------------------------------------- *)
(** * One item *)

(** one item never panics for a non-empty region on character boundaries of a well-formed source *)
Theorem build_item_total : forall content a b is_removal coloring lr,
  wf_utf8 content = true -> a < b -> b <= length content ->
  is_boundary content a = true -> is_boundary content b = true ->
  exists out, build_item content a b is_removal coloring (Some lr) = Ok out.
Proof.
  intros content a b is_removal coloring [first last] Hwf Hab Hb Ba Bb.
  assert (WF content) as HW by (apply wf_utf8_WF; exact Hwf).
  unfold build_item. cbv beta iota zeta.
  rewrite (csub_le b a) by lia. cbn [bind].
  match goal with |- exists _, (if ?c then _ else _) = _ => assert (c = false) as E0 end.
  { destruct content; [cbn [length] in Hb; lia|]. rewrite orb_false_r. apply Nat.eqb_neq. lia. }
  rewrite E0. clear E0.
  rewrite (csub_le b 1) by lia. cbn [bind].
  fold (prev_start content a) (prev_start content (b - 1)) (next_end content (b - 1)).
  rewrite (prev_start_line_start content a) by lia.
  rewrite (prev_start_line_start content (b - 1)) by lia.
  pose proof (line_start_boundary content a HW ltac:(lia)) as Bls.
  pose proof (line_start_boundary content (b - 1) HW ltac:(lia)) as Bles.
  destruct (line_start_of_spec content a) as (A1 & _ & _).
  destruct (line_start_of_spec content (b - 1)) as (B1 & _ & _).
  destruct (next_end_spec content (b - 1) ltac:(lia)) as (N1 & N2 & _ & _).
  pose proof (next_end_boundary content (b - 1) ltac:(lia)) as N5.
  set (ls := line_start_of content a) in *.
  set (les := line_start_of content (b - 1)) in *.
  set (le := next_end content (b - 1)) in *.
  (* the end of the coloured part: the end of the region or the end of its last line *)
  assert (a <= Nat.min b le /\ Nat.min b le <= le /\ Nat.min b le <= length content /\
          is_boundary content (Nat.min b le) = true) as (M1 & M2 & M3 & M4).
  { destruct (Nat.min_spec b le) as [[L E]|[L E]]; rewrite E; repeat split; (assumption || lia). }
  set (ce := Nat.min b le) in *.
  destruct coloring; cbv beta iota zeta.
  - rewrite (csub_le le ls) by lia. cbn [bind].
    rewrite (slice_ok content a ce) by (assumption || lia). cbn [bind].
    rewrite (slice_ok content ls a) by (assumption || lia). cbn [bind].
    rewrite (slice_ok content ce le) by (assumption || lia). cbn [bind].
    rewrite (csub_le a ls) by lia. cbn [bind].
    rewrite (csub_le b les) by lia. cbn [bind].
    rewrite (csub_le (b - les) 1) by lia. cbn [bind].
    rewrite (slice_ok content les b) by (assumption || lia). cbn [bind].
    assert (LINE_COLUMN_WIDTH = 9) as HLCW by reflexivity.
    pose proof (count_tabspace_le (sub content ls a)) as T1.
    rewrite (sub_length content ls a) in T1 by lia.
    pose proof (count_tabspace_le (sub content les b)) as T2.
    rewrite (sub_length content les b) in T2 by lia.
    rewrite (csub_le (LINE_COLUMN_WIDTH + (a - ls))) by lia. cbn [bind].
    rewrite (csub_le (b - les - 1 + LINE_COLUMN_WIDTH)) by lia. cbn [bind].
    eexists. reflexivity.
  - rewrite (csub_le le ls) by lia. cbn [bind].
    rewrite (slice_ok content a ce) by (assumption || lia). cbn [bind].
    rewrite (slice_ok content ls a) by (assumption || lia). cbn [bind].
    rewrite (slice_ok content ce le) by (assumption || lia). cbn [bind].
    rewrite (csub_le a ls) by lia. cbn [bind].
    rewrite (csub_le b les) by lia. cbn [bind].
    rewrite (csub_le (b - les) 1) by lia. cbn [bind].
    rewrite (slice_ok content les b) by (assumption || lia). cbn [bind].
    assert (LINE_COLUMN_WIDTH = 9) as HLCW by reflexivity.
    pose proof (count_tabspace_le (sub content ls a)) as T1.
    rewrite (sub_length content ls a) in T1 by lia.
    pose proof (count_tabspace_le (sub content les b)) as T2.
    rewrite (sub_length content les b) in T2 by lia.
    rewrite (csub_le (LINE_COLUMN_WIDTH + (a - ls))) by lia. cbn [bind].
    rewrite (csub_le (b - les - 1 + LINE_COLUMN_WIDTH)) by lia. cbn [bind].
    eexists. reflexivity.
Qed.

Theorem get_line_range_total : forall m r, fst r < snd r -> exists lr, get_line_range m r = Ok lr.
Proof.
  intros m r H. unfold get_line_range. rewrite (csub_le (snd r) 1) by lia. cbn [bind].
  eexists. reflexivity.
Qed.

(* ------------------------------------------------------------------------- *)
(** * The two list builders *)

Definition regions_ok (content : str) (markers : list (marker * bool)) : Prop :=
  forall r p st, In ((r, p), st) markers ->
    fst r < snd r /\ snd r <= length content /\
    is_boundary content (fst r) = true /\ is_boundary content (snd r) = true.

Lemma foldM_total {A B} (f : A -> B -> res A) : forall l,
  (forall a x, In x l -> exists a', f a x = Ok a') ->
  forall a, exists a', foldM f l a = Ok a'.
Proof.
  induction l as [|x l IH]; intros Hall a; cbn [foldM].
  - exists a. reflexivity.
  - destruct (Hall a x (or_introl eq_refl)) as [a' E]. rewrite E. cbn [bind].
    apply IH. intros a0 y Hy. apply Hall. right. exact Hy.
Qed.

Theorem build_pretty_string_total : forall content markers,
  wf_utf8 content = true -> regions_ok content markers -> exists out, build_pretty_string content markers = Ok out.
Proof.
  intros content markers Hwf Hok. unfold build_pretty_string. cbv zeta.
  match goal with |- exists _, bind (foldM ?f _ _) _ = _ =>
    destruct (foldM_total f markers) with (a := (@nil byte, 1)) as [[out idx] E] end.
  - intros [out idx] [[r p] st] Hin.
    destruct (Hok r p st Hin) as (H1 & H2 & H3 & H4).
    destruct (get_line_range_total (build_line_map content) r H1) as [lr Elr].
    rewrite Elr. cbn [bind].
    destruct (build_item_total content (fst r) (snd r) st true lr Hwf H1 H2 H3 H4) as [item Eit].
    rewrite Eit. cbn [bind]. eexists. reflexivity.
  - rewrite E. cbn [bind]. eexists. reflexivity.
Qed.

Theorem build_list_total : forall content markers,
  wf_utf8 content = true -> regions_ok content markers -> exists items, build_list content markers = Ok items.
Proof.
  intros content markers Hwf Hok. unfold build_list. cbv zeta.
  apply foldM_total.
  intros acc [[r p] st] Hin.
  destruct (Hok r p st Hin) as (H1 & H2 & H3 & H4).
  destruct (get_line_range_total (build_line_map content) r H1) as [lr Elr].
  rewrite Elr. cbn [bind].
  destruct (build_item_total content (fst r) (snd r) st false lr Hwf H1 H2 H3 H4) as [item Eit].
  rewrite Eit. cbn [bind]. eexists. reflexivity.
Qed.

Print Assumptions build_item_total.
Print Assumptions get_line_range_total.
Print Assumptions build_pretty_string_total.
Print Assumptions build_list_total.
