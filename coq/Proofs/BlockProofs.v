(** C12: exact characterisation of the block dedenter ([block_indent_remover]). *)
From Coq Require Import List NArith Arith Bool Lia PeanoNat.
Import ListNotations.
From Chiri Require Import Base.Bytes Base.Res Model.Finders Model.Format Spec.Ranges Spec.Lines
  Proofs.ResLemmas Proofs.BytesLemmas Proofs.Utf8 Proofs.FormatterProofs Proofs.UnwrapProofs.

(* ------------------------------------------------------------------------- *)
(** * The specification *)

(** The ranges to delete for the lines starting at [ls] (a line start) and ending before
    [end_pos]: a line is processed when the position after its line break is <= end_pos; a line
    with [ib] leading blanks loses the bytes [ls + min ofs ib, ls + min (ofs + len) ib). *)
Fixpoint dedent_lines (fuel : nat) (s : str) (end_pos ls ofs len : nat) : list (nat * nat) :=
  match fuel with
  | 0 => []
  | S f =>
    if ls <? end_pos then
      match find_next_lb s ls false with
      | Some lb =>
        if end_pos <? S lb then []
        else
          let ib := leading_blanks (skipn ls s) in
          let a := ls + Nat.min ofs ib in
          let b := ls + Nat.min (ofs + len) ib in
          (if a =? b then [] else [(a, b)]) ++ dedent_lines f s end_pos (S lb) ofs len
      | None => []
      end
    else []
  end.

(* ------------------------------------------------------------------------- *)
(** * Lists and leading blanks *)

Lemma nth_error_skipn_add {A} (l : list A) a k : nth_error (skipn a l) k = nth_error l (a + k).
Proof.
  revert l. induction a as [|a IH]; intros l; [reflexivity|].
  destruct l as [|x l]; cbn [skipn Nat.add nth_error].
  - destruct k; reflexivity.
  - apply IH.
Qed.

Lemma skipn_S_tl {A} (l : list A) i b tl : skipn i l = b :: tl -> skipn (S i) l = tl.
Proof.
  intros H. replace (S i) with (i + 1) by lia. rewrite <- skipn_add, H. reflexivity.
Qed.

(** Every byte among the leading blanks is a blank. *)
Lemma leading_blanks_blank l : forall k b, k < leading_blanks l -> nth_error l k = Some b ->
  is_blank b = true.
Proof.
  induction l as [|x l IH]; intros k b Hk Hn; cbn [leading_blanks] in Hk; [lia|].
  destruct (is_blank x) eqn:E; [|lia].
  destruct k as [|k]; cbn [nth_error] in Hn.
  - inversion Hn; subst b. exact E.
  - apply (IH k b); [lia | exact Hn].
Qed.

(** The leading blanks stop at the latest at the first non-blank byte. *)
Lemma leading_blanks_le l : forall k b, nth_error l k = Some b -> is_blank b = false ->
  leading_blanks l <= k.
Proof.
  induction l as [|x l IH]; intros k b Hn Hb; cbn [leading_blanks]; [lia|].
  destruct k as [|k]; cbn [nth_error] in Hn.
  - inversion Hn; subst x. rewrite Hb. lia.
  - destruct (is_blank x); [|lia]. specialize (IH k b Hn Hb). lia.
Qed.

(** The same two facts, positioned in the string. *)
Lemma leading_blanks_at_blank s ls i b :
  ls <= i -> i < ls + leading_blanks (skipn ls s) -> nth_error s i = Some b -> is_blank b = true.
Proof.
  intros H1 H2 Hn. apply (leading_blanks_blank (skipn ls s) (i - ls) b); [lia|].
  rewrite nth_error_skipn_add. replace (ls + (i - ls)) with i by lia. exact Hn.
Qed.

Lemma leading_blanks_at_le s ls q b :
  ls <= q -> nth_error s q = Some b -> is_blank b = false ->
  ls + leading_blanks (skipn ls s) <= q.
Proof.
  intros H1 Hn Hb.
  assert (leading_blanks (skipn ls s) <= q - ls) as K; [|lia].
  apply (leading_blanks_le (skipn ls s) (q - ls) b); [|exact Hb].
  rewrite nth_error_skipn_add. replace (ls + (q - ls)) with q by lia. exact Hn.
Qed.

(* ------------------------------------------------------------------------- *)
(** * find_next_char from a line start *)

(** From a non-zero boundary of a well-formed string, when a non-blank byte follows the leading
    blanks, [find_next_char] finds exactly that byte. *)
Lemma find_next_char_loop_exact : forall fuel s cursor,
  wf_utf8 s = true -> is_boundary s cursor = true -> cursor <> 0 ->
  cursor + leading_blanks (skipn cursor s) < length s -> length s - cursor < fuel ->
  find_next_char_loop fuel s cursor = Some (cursor + leading_blanks (skipn cursor s)).
Proof.
  induction fuel as [|f IH]; intros s cursor Hs Hb Hc Hlt Hf; [lia|].
  cbn [find_next_char_loop].
  destruct (Nat.leb_spec (length s) cursor) as [L|L]; [lia|].
  destruct (Nat.eqb_spec cursor 0) as [E|_]; [contradiction|]. cbn [orb].
  destruct (nth_error s cursor) as [b|] eqn:N; [|apply nth_error_None in N; lia].
  destruct (nth_skipn_cons s cursor b N) as [tl Etl].
  pose proof (skipn_S_tl s cursor b tl Etl) as Etl'.
  rewrite Etl in Hlt |- *. cbn [leading_blanks] in Hlt |- *.
  unfold check_char. rewrite Hb, N. cbn [negb].
  fold (is_blank b). destruct (is_blank b) eqn:BL.
  - rewrite IH.
    + rewrite Etl'. f_equal. lia.
    + exact Hs.
    + apply (after_ascii_boundary s cursor b Hs Hb N). apply blank_ascii. exact BL.
    + lia.
    + rewrite Etl'. lia.
    + lia.
  - f_equal. lia.
Qed.

Lemma find_next_char_exact s ls :
  wf_utf8 s = true -> is_boundary s ls = true -> ls <> 0 ->
  ls + leading_blanks (skipn ls s) < length s ->
  find_next_char s ls = Some (ls + leading_blanks (skipn ls s)).
Proof.
  intros Hs Hb Hc Hlt. unfold find_next_char.
  apply find_next_char_loop_exact; try assumption. lia.
Qed.

(** In particular when a line break follows. *)
Lemma find_next_char_before_nl s ls lb :
  wf_utf8 s = true -> is_boundary s ls = true -> ls <> 0 ->
  ls <= lb -> nth_error s lb = Some NL ->
  find_next_char s ls = Some (ls + leading_blanks (skipn ls s)) /\
  ls + leading_blanks (skipn ls s) <= lb.
Proof.
  intros Hs Hb Hc Hle Hn.
  pose proof (leading_blanks_at_le s ls lb NL Hle Hn NL_not_blank) as K.
  assert (lb < length s) as L by (apply nth_error_Some; congruence).
  split; [|exact K]. apply find_next_char_exact; try assumption. lia.
Qed.

(* ------------------------------------------------------------------------- *)
(** * The loop *)

Lemma find_next_lb_at_end s pause : find_next_lb s (length s) pause = None.
Proof.
  unfold find_next_lb. rewrite Nat.sub_diag. cbn [find_next_lb_loop].
  rewrite Nat.leb_refl. reflexivity.
Qed.

(** With the same fuel, the loop of the model appends exactly [dedent_lines] to its accumulator
    (from a non-zero line start, where [find_next_char] does not hit its [cursor == 0] exit). *)
Lemma block_loop_dedent : forall fuel s e cp ofs len acc,
  wf_utf8 s = true -> is_boundary s cp = true -> cp <> 0 ->
  block_loop fuel s e cp ofs len acc = acc ++ dedent_lines fuel s e cp ofs len.
Proof.
  induction fuel as [|f IH]; intros s e cp ofs len acc Hs Hb Hc; cbn [block_loop dedent_lines];
    [rewrite app_nil_r; reflexivity|].
  destruct (cp <? e); [|rewrite app_nil_r; reflexivity].
  destruct (find_next_lb s cp false) as [lb|] eqn:F; [|rewrite app_nil_r; reflexivity].
  cbv zeta. rewrite Nat.add_1_r.
  destruct (e <? S lb); [rewrite app_nil_r; reflexivity|].
  pose proof (find_next_lb_some _ _ _ _ F) as (F1 & F2 & F3 & F4).
  pose proof (after_nl_boundary s lb Hs F4 F3) as Hb'.
  destruct (find_next_char_before_nl s cp lb Hs Hb Hc F1 F3) as [FC Hib].
  rewrite FC.
  remember (leading_blanks (skipn cp s)) as ib eqn:Eib.
  replace (Nat.min (cp + ofs) (cp + ib)) with (cp + Nat.min ofs ib) by lia.
  replace (Nat.min (cp + Nat.min ofs ib + len) (cp + ib)) with (cp + Nat.min (ofs + len) ib) by lia.
  destruct (cp + Nat.min ofs ib =? cp + Nat.min (ofs + len) ib).
  - rewrite (IH s e (S lb) ofs len acc Hs Hb') by lia. reflexivity.
  - rewrite (IH s e (S lb) ofs len _ Hs Hb') by lia. rewrite <- app_assoc. reflexivity.
Qed.

(** When no line break follows, both loops stop at once. *)
Lemma block_loop_no_nl fuel s e cp ofs len acc :
  find_next_lb s cp false = None -> block_loop fuel s e cp ofs len acc = acc.
Proof.
  intros F. destruct fuel as [|f]; cbn [block_loop]; [reflexivity|].
  rewrite F. destruct (cp <? e); reflexivity.
Qed.

Lemma dedent_lines_no_nl fuel s e ls ofs len :
  find_next_lb s ls false = None -> dedent_lines fuel s e ls ofs len = [].
Proof.
  intros F. destruct fuel as [|f]; cbn [dedent_lines]; [reflexivity|].
  rewrite F. destruct (ls <? e); reflexivity.
Qed.

(* ------------------------------------------------------------------------- *)
(** * get_indent_len at a line start *)

Lemma find_prev_lb_after_nl s p pause : nth_error s p = Some NL ->
  find_prev_lb s (S p) pause = Some p.
Proof.
  intros H. cbn [find_prev_lb].
  assert (p < length s) as L by (apply nth_error_Some; congruence).
  destruct (Nat.leb_spec (length s) p) as [K|_]; [lia|].
  rewrite (NL_check_lb s p H). reflexivity.
Qed.

(** The indentation of the line that starts after the line break [p], when that line is
    terminated by a line break. *)
Lemma get_indent_len_line s p lb : wf_utf8 s = true ->
  nth_error s p = Some NL -> S p <= lb -> nth_error s lb = Some NL ->
  get_indent_len s (S p) = Ok (leading_blanks (skipn (S p) s)).
Proof.
  intros Hs Hp Hle Hlb. unfold get_indent_len.
  rewrite (find_prev_lb_after_nl s p false Hp). rewrite Nat.add_1_r.
  pose proof (after_nl_boundary s p Hs (NL_boundary s p Hp) Hp) as Hb.
  destruct (find_next_char_before_nl s (S p) lb Hs Hb (Nat.neq_succ_0 p) Hle Hlb) as [FC _].
  rewrite FC.
  rewrite (csub_le (S p + leading_blanks (skipn (S p) s)) p) by lia. cbn [bind].
  rewrite csub_le by lia. f_equal. lia.
Qed.

(* ------------------------------------------------------------------------- *)
(** * C12: the block dedenter, exactly *)

Theorem block_indent_exact : forall s start_pos end_pos,
  wf_utf8 s = true ->
  block_indent_remover s start_pos end_pos =
  Ok (let ofs := match find_prev_lb s start_pos true with
                   | Some p => start_pos - p - 1
                   | None => if all_blank_before s start_pos then start_pos else 0
                   end in
      let first := match find_next_lb s start_pos false with Some p => S p | None => length s end in
      let len := leading_blanks (skipn first s) - ofs in
      dedent_lines (S (length s)) s end_pos first ofs len).
Proof.
  intros s a e Hs. unfold block_indent_remover. cbv zeta.
  assert (match find_prev_lb s a true with
          | Some pos => x <- csub a pos ;; csub x 1
          | None => Ok (if all_blank_before s a then a else 0)
          end = Ok (match find_prev_lb s a true with
                    | Some p => a - p - 1
                    | None => if all_blank_before s a then a else 0
                    end)) as Hofs.
  { destruct (find_prev_lb s a true) as [p|] eqn:F; [|reflexivity].
    apply find_prev_lb_some in F. destruct F as (F1 & _).
    rewrite (csub_le a p) by lia. cbn [bind]. rewrite csub_le by lia. reflexivity. }
  rewrite Hofs. cbn [bind]. clear Hofs.
  remember (match find_prev_lb s a true with
            | Some p => a - p - 1
            | None => if all_blank_before s a then a else 0
            end) as ofs eqn:Eofs.
  destruct (find_next_lb s a false) as [p|] eqn:F.
  - rewrite Nat.add_1_r.
    pose proof (find_next_lb_some _ _ _ _ F) as (F1 & F2 & F3 & F4).
    pose proof (after_nl_boundary s p Hs F4 F3) as Hb.
    destruct (find_next_lb s (S p) false) as [lb|] eqn:F'.
    + pose proof (find_next_lb_some _ _ _ _ F') as (G1 & G2 & G3 & G4).
      rewrite (get_indent_len_line s p lb Hs F3 G1 G3). cbn [bind].
      rewrite (block_loop_dedent _ s e (S p) ofs _ [] Hs Hb (Nat.neq_succ_0 p)). reflexivity.
    + destruct (get_indent_len_total s (S p)) as [n ->]. cbn [bind].
      rewrite (block_loop_no_nl _ s e (S p) ofs _ [] F').
      rewrite (dedent_lines_no_nl _ s e (S p) ofs _ F'). reflexivity.
  - destruct (get_indent_len_total s (length s)) as [n ->]. cbn [bind].
    rewrite (block_loop_no_nl _ s e (length s) ofs _ [] (find_next_lb_at_end s false)).
    rewrite (dedent_lines_no_nl _ s e (length s) ofs _ (find_next_lb_at_end s false)). reflexivity.
Qed.

(* ------------------------------------------------------------------------- *)
(** * What the offset is *)

(** When the seam is preceded on its line by blanks only, [find_prev_lb .. true] finds the line
    break that starts the line, and the offset [start_pos - p - 1] is the number of those blanks. *)
Theorem indent_offset_spec : forall s start_pos p, wf_utf8 s = true -> is_boundary s start_pos = true -> start_pos <= length s ->
  find_prev_lb s start_pos true = Some p ->
  is_prev_nl s start_pos p /\ (forall i b, p < i -> i < start_pos -> nth_error s i = Some b -> is_blank b = true).
Proof.
  intros s a p Hs Hb Hl F.
  pose proof (find_prev_lb_spec _ _ _ _ F) as (H1 & H2 & H3 & H4 & H5).
  split.
  - split; [exact H1|]. split; [exact H3|].
    intros j Hj1 Hj2. apply (passed_not_NL s true). apply H5; assumption.
  - apply (find_prev_lb_pause_blank s a p Hs Hb Hl F).
Qed.

(** The first line of the file: when only blanks stand in front of the seam there is no line break
    to find, and the offset is the seam's position, i.e. again the number of those blanks (the
    column of the opening tag).  Before the repair of the block formatter the offset was 0 there. *)
Lemma blank_check_lb s i b : nth_error s i = Some b -> is_blank b = true -> check_lb s i = CSkip.
Proof.
  intros N B. unfold check_lb.
  assert (is_boundary s i = true) as ->.
  { unfold is_boundary. destruct i as [|i]; [reflexivity|]. rewrite N.
    unfold is_blank in B. apply orb_true_iff in B.
    destruct B as [B|B]; apply beq_eq in B; subst b; reflexivity. }
  cbn [negb]. rewrite N. unfold is_blank in B. rewrite B. reflexivity.
Qed.

Theorem indent_offset_first_line : forall s start_pos pause,
  all_blank_before s start_pos = true -> find_prev_lb s start_pos pause = None.
Proof.
  intros s a pause H. pose proof (all_blank_before_true s a H) as Hbl. clear H.
  induction a as [|c IH]; [reflexivity|].
  cbn [find_prev_lb]. destruct (Nat.leb_spec (length s) c) as [L|L]; [reflexivity|].
  destruct (nth_error s c) as [b|] eqn:Nc; [|apply nth_error_None in Nc; lia].
  rewrite (blank_check_lb s c b Nc); [|apply (Hbl c b); [lia | exact Nc]].
  apply IH. intros i d Hi Hn. apply (Hbl i d); [lia | exact Hn].
Qed.

Theorem block_indent_exact_first_line : forall s start_pos end_pos,
  wf_utf8 s = true -> all_blank_before s start_pos = true ->
  block_indent_remover s start_pos end_pos =
  Ok (let ofs := start_pos in
      let first := match find_next_lb s start_pos false with Some p => S p | None => length s end in
      let len := leading_blanks (skipn first s) - ofs in
      dedent_lines (S (length s)) s end_pos first ofs len).
Proof.
  intros s a e Hs H. rewrite (block_indent_exact s a e Hs).
  rewrite (indent_offset_first_line s a true H), H. reflexivity.
Qed.

(** Otherwise (no line break in front of the seam on its line, and something else than blanks
    before it: code precedes the tag on its line) the offset is 0, as before. *)
Theorem indent_offset_after_code : forall s start_pos end_pos,
  wf_utf8 s = true -> find_prev_lb s start_pos true = None -> all_blank_before s start_pos = false ->
  block_indent_remover s start_pos end_pos =
  Ok (let ofs := 0 in
      let first := match find_next_lb s start_pos false with Some p => S p | None => length s end in
      let len := leading_blanks (skipn first s) - ofs in
      dedent_lines (S (length s)) s end_pos first ofs len).
Proof.
  intros s a e Hs F H. rewrite (block_indent_exact s a e Hs). rewrite F, H. reflexivity.
Qed.

(* ------------------------------------------------------------------------- *)
(** * Every deleted range consists of leading blanks of its line *)

Theorem dedent_lines_leading : forall fuel s end_pos ls ofs len r,
  wf_utf8 s = true -> is_line_start s ls -> In r (dedent_lines fuel s end_pos ls ofs len) ->
  exists ls', is_line_start s ls' /\ ls' <= fst r /\ fst r < snd r /\
              (forall i b, ls' <= i -> i < snd r -> nth_error s i = Some b -> is_blank b = true) /\
              snd r - fst r <= len /\ fst r - ls' = Nat.min ofs (leading_blanks (skipn ls' s)).
Proof.
  induction fuel as [|f IH]; intros s e ls ofs len r Hs Hls Hin; cbn [dedent_lines] in Hin;
    [destruct Hin|].
  destruct (ls <? e); [|destruct Hin].
  destruct (find_next_lb s ls false) as [lb|] eqn:F; [|destruct Hin].
  destruct (e <? S lb); [destruct Hin|].
  cbv zeta in Hin. apply in_app_or in Hin. destruct Hin as [Hin | Hin].
  - remember (leading_blanks (skipn ls s)) as ib eqn:Eib.
    destruct (Nat.eqb_spec (ls + Nat.min ofs ib) (ls + Nat.min (ofs + len) ib)) as [E|NE];
      [destruct Hin|].
    destruct Hin as [<- | []]. cbn [fst snd].
    exists ls. split; [exact Hls|]. split; [lia|]. split; [lia|]. split; [|split].
    + intros i b Hi1 Hi2 Hn. apply (leading_blanks_at_blank s ls i b Hi1); [|exact Hn].
      rewrite <- Eib. lia.
    + lia.
    + rewrite <- Eib. lia.
  - apply (IH s e (S lb) ofs len r Hs); [|exact Hin].
    pose proof (find_next_lb_some _ _ _ _ F) as (_ & _ & F3 & _).
    right. exists lb. split; [reflexivity | exact F3].
Qed.

(* ------------------------------------------------------------------------- *)
Print Assumptions block_indent_exact.
Print Assumptions indent_offset_spec.
Print Assumptions indent_offset_first_line.
Print Assumptions block_indent_exact_first_line.
Print Assumptions indent_offset_after_code.
Print Assumptions dedent_lines_leading.
