(** C19, second half, WITH unwrap-block elements, for chains of runs; and "no tag is stranded" as a
    statement about trees without the extra premise of [Proofs.ComposeUnwrap].

    Part A: one more fact about the mask of one run ([clean_run_mask3]): a symbol that the
            formatter deletes directly behind an end delimiter that the marker stage keeps is
            linked to a symbol deleted by the marker stage ([blank_fact]; [run_facts3]).
    Part B: texts at the two ends of a normalised document ([norm_first], [norm_last]).
    Part C: the wrapper lines of a kept unwrap-block node after a run, over the symbol list
            ([wrap_flat_node]).
    Part D: the domain [strict2] is preserved by a run ([strict2_run], [clean_run_strict2]).
    Part E: no tag is stranded, as a statement about trees ([clean_steps_not_stranded_strict]).
    Part F: chains of runs ([clean_chain_composes_strict], [clean_chain_not_stranded_strict]).
    Part G: an instance: a chain of three times on the tree [cu_ast]. *)
From Coq Require Import List NArith ZArith Arith Bool Lia PeanoNat.
Import ListNotations.
From Chiri Require Import Base.Bytes Base.Res Model.Tokenizer Model.TagParser Model.TreeParser
     Model.Finders Model.Markers Model.Format Model.Clean
     Spec.Ranges Spec.Forest Spec.Rename Spec.Simulation Spec.Lines Spec.Extents
     Proofs.ResLemmas Proofs.BytesLemmas Proofs.Utf8 Proofs.MarkerProofs Proofs.RangeProofs Proofs.CollectProofs
     Proofs.FormatterProofs Proofs.FormatAssembly Proofs.BlockProofs Proofs.SeamProofs
     Proofs.CleanProofs Proofs.ConfinedProofs
     Proofs.RenameProofs Proofs.SimFlat Proofs.SimStrings Proofs.SimFront Proofs.MonoMap
     Proofs.SimClean Proofs.WellNested Proofs.DocMask Proofs.AstCollect Proofs.Idempotent
     Proofs.UnwrapDoc Proofs.C05Proofs Proofs.C06Proofs Proofs.CliProofs Proofs.Compose
     Proofs.IdempotentUnwrap Proofs.ComposeUnwrap.

(* ------------------------------------------------------------------------- *)
(** * Part A: one more fact about the mask of one run *)

(** A symbol that is deleted, but not by the marker stage, directly behind an end delimiter that
    the marker stage keeps: it is linked to a symbol deleted by the marker stage through
    whitespace bytes and symbols deleted by the marker stage only (it does not belong to the
    leading blanks of a line: the end delimiter is in front of it on its line). *)
Definition blank_fact (cfg : config) (f : list ast) (D : nat -> bool) : Prop :=
  forall x s0, D (S x) = true -> del1u cfg f (S x) = false -> del1u cfg f x = false ->
    nth_error (flat (doc_of f)) x = Some DE -> nth_error (flat (doc_of f)) (S x) = Some s0 ->
    exists y, del1u cfg f y = true /\
      forall z s, (S x < z /\ z < y) \/ (y < z /\ z < S x) -> nth_error (flat (doc_of f)) z = Some s ->
                  del1u cfg f z = true \/ sym_ws s = true.

Definition run_facts3 (cfg : config) (f : list ast) (D : nat -> bool) : Prop :=
  run_facts cfg f D /\ blank_fact cfg f D.

(** [clean_run_mask2] of [Proofs.ComposeUnwrap] with this fact as one more conclusion (the proof
    of the other conclusions is the proof given there). *)
Theorem clean_run_mask3 cfg ds de f :
  good_delims ds de -> de_nb de -> good_doc ds de (doc_of f) -> bodies_ok (doc_of f) ->
  Forall ast_ok f -> strict f ->
  exists del,
    pair_respecting del f /\
    (forall i t, nth_error (doc_of f) i = Some (Txt t) ->
       wf_utf8 (kept_from (fstart (doc_of f) i) del t) = true) /\
    (forall it b, nth_error (doc_of f) it = Some (Tag b) ->
       del (fstart (doc_of f) it) = tdel cfg f it) /\
    clean cfg ds de (render ds de (doc_of f)) =
      Ok (rs ds de (sdel_from 0 del (flat (doc_of f)))) /\
    (forall i, del1u cfg f i = true -> del i = true) /\
    (forall i x, del i = true -> del1u cfg f i = false ->
       nth_error (flat (doc_of f)) i = Some x -> sym_ws x = true) /\
    (forall j k x, j < k -> nth_error (flat (doc_of f)) j = Some x -> sym_code x = true ->
       del j = false ->
       (forall y z, j < y -> y < k -> nth_error (flat (doc_of f)) y = Some z ->
                    del1u cfg f y = true \/ sym_blank z = true) ->
       nth_error (flat (doc_of f)) k = Some (B NL) -> del1u cfg f k = false -> del k = false) /\
    (forall x, del x = true -> del1u cfg f x = false ->
       nth_error (flat (doc_of f)) x = Some (B NL) ->
       exists y, del1u cfg f y = true /\
         forall z s, (x < z /\ z < y) \/ (y < z /\ z < x) -> nth_error (flat (doc_of f)) z = Some s ->
                     del1u cfg f z = true \/ sym_ws s = true) /\
    blank_fact cfg f del.
Proof.
  intros Hgd Hnb Hdoc Hbod Hok Hst.
  pose proof (good_delims_sp_ok ds de Hgd) as Hsp.
  pose proof (sp_ok_ne ds de Hsp) as Hne.
  destruct (ucollect_markers cfg f Hok) as (ams & E & S1 & _ & K').
  destruct (clean_rendered_pairs2 cfg ds de (doc_of f) ams Hgd Hnb Hdoc Hbod E)
    as (aR & Ecl & Hws & Hconf & HQ).
  pose proof (kept_tag_untouched_u ds de (doc_of f) ams aR Hsp S1 Hconf) as KT0.
  set (doc := doc_of f) in *. set (R := map fst ams) in *. set (P1 := in_rangesb R) in *.
  set (l := flat doc) in *. set (l' := sdelete R l) in *.
  unfold sindex in KT0. fold P1 in KT0.
  assert (forall it b q, nth_error doc it = Some (Tag b) ->
            fstart doc it <= q < fstart doc (S it) -> P1 q = tdel cfg f it) as PT.
  { intros it b q Hit Hq. unfold P1. rewrite K'. apply (del1u_tag cfg f it b q Hst Hit Hq). }
  assert (forall it b, nth_error doc it = Some (Tag b) -> P1 (fstart doc it) = false ->
            forall j, fstart doc it <= j < fstart doc (S it) -> in_rangesb aR (rank P1 j) = false) as KT.
  { intros it b Hit H0 j Hj. apply (KT0 it b Hit).
    - apply (strict_tags f Hst). apply (nth_error_In _ _ Hit).
    - intros q Hq. rewrite (PT it b q Hit Hq). rewrite <- (PT it b _ Hit (tag_start_in doc it b Hit)).
      exact H0.
    - exact Hj. }
  assert (forall i, P1 i = false -> nth_error l' (rank P1 i) = nth_error l i) as NS.
  { intros i Hi. unfold l', sdelete. fold P1. apply nth_sdel. exact Hi. }
  exists (fun i => P1 i || in_rangesb aR (rank P1 i)).
  split; [split|split; [|split; [|split; [|split; [|split; [|split; [|split]]]]]]].
  - (* constant on every tag *)
    intros it b Hit j Hj. cbn [Nat.add] in *. fold doc in Hit, Hj. fold doc.
    rewrite (PT it b j Hit Hj), <- (PT it b _ Hit (tag_start_in doc it b Hit)).
    destruct (P1 (fstart doc it)) eqn:E0; [reflexivity|]. cbn [orb].
    rewrite (KT it b Hit E0 j Hj). rewrite (KT it b Hit E0 (fstart doc it) (tag_start_in doc it b Hit)).
    reflexivity.
  - (* the two tags of a node *)
    intros b1 b2 o c Hn.
    pose proof (ast_nodes_at f 0 _ Hn) as (i & j & -> & -> & _ & Hi & Hj). cbn [Nat.add].
    fold doc in Hi, Hj. fold doc.
    assert (P1 (fstart doc i) = P1 (fstart doc j)) as Ec.
    { rewrite (PT i b1 _ Hi (tag_start_in doc i b1 Hi)), (PT j b2 _ Hj (tag_start_in doc j b2 Hj)).
      apply (tdel_node cfg f (b1, b2, i, j) Hn). }
    rewrite <- Ec. destruct (P1 (fstart doc i)) eqn:E0; [reflexivity|]. cbn [orb].
    rewrite (KT i b1 Hi E0 _ (tag_start_in doc i b1 Hi)).
    symmetry in Ec. rewrite (KT j b2 Hj Ec _ (tag_start_in doc j b2 Hj)). reflexivity.
  - (* the kept bytes of a text *)
    intros i t Hi. fold doc in Hi. fold doc. set (s := fstart doc i).
    pose proof (txt_fstart doc i t Hi) as HS. fold s in HS.
    apply wf_utf8_WF. apply WF_kept_gen.
    { apply wf_utf8_WF. destruct Hdoc as (_ & _ & Hwt & _). apply Hwt. apply (nth_error_In _ _ Hi). }
    intros q c c' Hq Hq' Hd.
    assert (S q < length t) as Lq by (apply nth_error_Some; congruence).
    pose proof (txt_sym doc i t q Hi ltac:(lia)) as Y1. rewrite Hq in Y1. cbn [option_map] in Y1.
    pose proof (txt_sym doc i t (S q) Hi Lq) as Y2. rewrite Hq' in Y2. cbn [option_map] in Y2.
    fold s l in Y1, Y2.
    destruct (P1 (s + q)) eqn:A1; destruct (P1 (s + S q)) eqn:A2; cbn [orb] in Hd.
    + exfalso. apply Hd. reflexivity.
    + destruct (del1u_txt_change cfg f i t (s + q) Hst Hi ltac:(fold doc; fold s; lia)
                  ltac:(fold doc; fold s; lia)) as [N|N].
      * rewrite <- !K'. fold R P1. replace (S (s + q)) with (s + S q) by lia. rewrite A1, A2. discriminate.
      * fold doc l in N. rewrite Y1 in N. inversion N. left. reflexivity.
      * fold doc l in N. replace (S (s + q)) with (s + S q) in N by lia. rewrite Y2 in N.
        inversion N. right. reflexivity.
    + destruct (del1u_txt_change cfg f i t (s + q) Hst Hi ltac:(fold doc; fold s; lia)
                  ltac:(fold doc; fold s; lia)) as [N|N].
      * rewrite <- !K'. fold R P1. replace (S (s + q)) with (s + S q) by lia. rewrite A1, A2. discriminate.
      * fold doc l in N. rewrite Y1 in N. inversion N. left. reflexivity.
      * fold doc l in N. replace (S (s + q)) with (s + S q) in N by lia. rewrite Y2 in N.
        inversion N. right. reflexivity.
    + destruct (in_rangesb aR (rank P1 (s + q))) eqn:B1.
      * left. apply in_rangesb_spec in B1. apply (Hws _ (B c) B1). rewrite (NS _ A1). exact Y1.
      * destruct (in_rangesb aR (rank P1 (s + S q))) eqn:B2; [|exfalso; apply Hd; reflexivity].
        right. apply in_rangesb_spec in B2. apply (Hws _ (B c') B2). rewrite (NS _ A2). exact Y2.
  - intros it b Hit. fold doc in Hit. fold doc.
    rewrite (PT it b _ Hit (tag_start_in doc it b Hit)).
    destruct (tdel cfg f it) eqn:E0; [reflexivity|]. cbn [orb].
    apply (KT it b Hit); [|apply (tag_start_in doc it b Hit)].
    rewrite (PT it b _ Hit (tag_start_in doc it b Hit)). exact E0.
  - rewrite Ecl. fold doc R l l'. unfold l', sdelete. rewrite sdel_compose. reflexivity.
  - (* contains the marker stage *)
    intros i Hi. cbv beta. unfold P1 at 1. rewrite K', Hi. reflexivity.
  - (* beyond it only whitespace *)
    intros i x Hd H1 Hn. cbv beta in Hd.
    assert (P1 i = false) as E0 by (unfold P1; rewrite K'; exact H1).
    rewrite E0 in Hd. cbn [orb] in Hd. apply in_rangesb_spec in Hd.
    apply (Hws _ x Hd). rewrite (NS _ E0). exact Hn.
  - (* the line break after code *)
    intros j k x Hjk Nj Cx Hdj Hbl Nk H1k. cbv beta in Hdj. cbv beta.
    apply orb_false_iff in Hdj. destruct Hdj as [Pj _].
    assert (P1 k = false) as Pk by (unfold P1; rewrite K'; exact H1k).
    rewrite Pk. cbn [orb].
    destruct (in_rangesb aR (rank P1 k)) eqn:Ek; [exfalso | reflexivity].
    apply in_rangesb_spec in Ek. revert Ek.
    apply (HQ (rank P1 j) (rank P1 k) x).
    + apply rank_lt_kept; assumption.
    + rewrite (NS _ Pj). exact Nj.
    + exact Cx.
    + intros y' z Y1 Y2 Ny. unfold l', sdelete in Ny. fold P1 in Ny.
      destruct (nth_sdel_inv P1 l y' z Ny) as (y & Py & Ry & Nyl). subst y'.
      apply rank_lt_inv in Y1. apply rank_lt_inv in Y2.
      destruct (Hbl y z Y1 Y2 Nyl) as [D|D]; [|exact D].
      rewrite <- K' in D. fold R P1 in D. rewrite D in Py. discriminate Py.
    + rewrite (NS _ Pk). exact Nk.
  - (* a deleted line break is linked to the marker stage *)
    intros x Hd H1 Nx. cbv beta in Hd.
    assert (P1 x = false) as Px by (unfold P1; rewrite K'; exact H1).
    rewrite Px in Hd. cbn [orb] in Hd. apply in_rangesb_spec in Hd.
    set (k := rank P1 x) in *.
    assert (nth_error l' k = Some (B NL)) as Nk by (unfold k; rewrite (NS _ Px); exact Nx).
    assert (k < length l') as Hkl by (apply nth_error_Some; congruence).
    destruct (pos_byte ds de l' k NL Nk) as [Hbk HSk].
    destruct (Hconf k Hd Hkl) as [(m & Hm & Hjl & Hlink)|(ls & _ & Hle & Hbl)].
    2:{ exfalso. pose proof (Hbl _ NL Hle (le_n _) Hbk) as K. rewrite NL_not_blank in K. discriminate K. }
    cbv zeta in Hjl, Hlink. fold R in Hjl, Hlink. unfold sindex in Hjl, Hlink. fold P1 in Hjl, Hlink.
    set (y := fst (fst m)) in *.
    assert (P1 y = true) as Py.
    { assert (In (fst m) R) as HmR by (apply in_map; exact Hm).
      pose proof (snf_In_lt R 0 (fst m) S1 HmR) as Hab.
      apply in_rangesb_spec. exists (fst m). split; [exact HmR|]. unfold Ranges.in_range. unfold y. lia. }
    exists y. split; [rewrite <- K'; exact Py|].
    intros z s Hz Nz. destruct (P1 z) eqn:Pz; [left; rewrite <- K'; exact Pz | right].
    assert (nth_error l' (rank P1 z) = Some s) as Nz' by (rewrite (NS _ Pz); exact Nz).
    assert (rank P1 z < length l') as Hzl by (apply nth_error_Some; congruence).
    assert ((k < rank P1 z /\ S (rank P1 z) <= rank P1 y) \/
            (rank P1 y <= rank P1 z /\ S (rank P1 z) <= k)) as Hr.
    { destruct Hz as [[Z1 Z2]|[Z1 Z2]].
      - left. split; [apply rank_lt_kept; assumption|].
        pose proof (rank_lt_kept P1 z y Pz Z2). lia.
      - right. split; [apply rank_monotone; lia|].
        pose proof (rank_lt_kept P1 z x Pz Z2). unfold k. lia. }
    assert (forall q b, pos ds de l' (rank P1 z) <= q -> q < pos ds de l' (S (rank P1 z)) ->
              nth_error (rs ds de l') q = Some b -> is_ws b = true) as Hin.
    { intros q b Q1 Q2 Nq. apply (Hlink q b); [|exact Nq].
      destruct Hr as [[R1 R2]|[R1 R2]].
      - left. pose proof (pos_mono ds de l' k (rank P1 z) ltac:(lia)).
        pose proof (pos_mono ds de l' (S (rank P1 z)) (rank P1 y) R2). lia.
      - right. pose proof (pos_mono ds de l' (rank P1 y) (rank P1 z) R1).
        pose proof (pos_mono ds de l' (S (rank P1 z)) k R2). lia. }
    pose proof (pos_S_lt ds de l' (rank P1 z) Hne Hzl) as Hlt.
    destruct s as [c| |]; cbn [sym_ws].
    + destruct (pos_byte ds de l' _ c Nz') as [Hb _]. apply (Hin _ c (le_n _) Hlt Hb).
    + exfalso. destruct (ds_run ds de l' _ (proj1 Hsp) Nz') as (d0 & Hd0 & _ & Hw0 & _).
      rewrite (Hin _ d0 (le_n _) Hlt Hd0) in Hw0. discriminate Hw0.
    + exfalso. destruct (de_run ds de l' _ (proj2 Hsp) Nz') as (n & lead & m' & Hlen & Hd0 & _ & Hw0 & _ & _ & HS & _).
      assert (pos ds de l' (rank P1 z) <= pos ds de l' (rank P1 z) + n) as Q1 by lia.
      assert (pos ds de l' (rank P1 z) + n < pos ds de l' (S (rank P1 z))) as Q2 by lia.
      rewrite (Hin _ lead Q1 Q2 Hd0) in Hw0. discriminate Hw0.
  - (* a deleted symbol directly behind a kept end delimiter *)
    intros x s0 Hd H1 H1x Nx Nsx. cbv beta in Hd.
    assert (P1 (S x) = false) as Psx by (unfold P1; rewrite K'; exact H1).
    assert (P1 x = false) as Px by (unfold P1; rewrite K'; exact H1x).
    rewrite Psx in Hd. cbn [orb] in Hd. apply in_rangesb_spec in Hd.
    set (j := rank P1 x) in *.
    assert (rank P1 (S x) = S j) as Ek by (apply rank_S_kept; exact Px).
    rewrite Ek in Hd.
    assert (nth_error l' j = Some DE) as Nj by (unfold j; rewrite (NS _ Px); exact Nx).
    assert (nth_error l' (S j) = Some s0) as Nk by (rewrite <- Ek, (NS _ Psx); exact Nsx).
    assert (S j < length l') as Hkl by (apply nth_error_Some; congruence).
    destruct (Hconf (S j) Hd Hkl) as [(m & Hm & Hjl & Hlink)|(ls & Hls & Hle & Hbl)].
    + cbv zeta in Hjl, Hlink. fold R in Hjl, Hlink. unfold sindex in Hjl, Hlink. fold P1 in Hjl, Hlink.
      set (y := fst (fst m)) in *.
      assert (P1 y = true) as Py.
      { assert (In (fst m) R) as HmR by (apply in_map; exact Hm).
        pose proof (snf_In_lt R 0 (fst m) S1 HmR) as Hab.
        apply in_rangesb_spec. exists (fst m). split; [exact HmR|]. unfold Ranges.in_range. unfold y. lia. }
      exists y. split; [rewrite <- K'; exact Py|].
      intros z s Hz Nz. destruct (P1 z) eqn:Pz; [left; rewrite <- K'; exact Pz | right].
      assert (nth_error l' (rank P1 z) = Some s) as Nz' by (rewrite (NS _ Pz); exact Nz).
      assert (rank P1 z < length l') as Hzl by (apply nth_error_Some; congruence).
      assert ((S j < rank P1 z /\ S (rank P1 z) <= rank P1 y) \/
              (rank P1 y <= rank P1 z /\ S (rank P1 z) <= S j)) as Hr.
      { destruct Hz as [[Z1 Z2]|[Z1 Z2]].
        - left. split; [rewrite <- Ek; apply rank_lt_kept; assumption|].
          pose proof (rank_lt_kept P1 z y Pz Z2). lia.
        - right. split; [apply rank_monotone; lia|].
          pose proof (rank_lt_kept P1 z (S x) Pz Z2). lia. }
      assert (forall q b, pos ds de l' (rank P1 z) <= q -> q < pos ds de l' (S (rank P1 z)) ->
                nth_error (rs ds de l') q = Some b -> is_ws b = true) as Hin.
      { intros q b Q1 Q2 Nq. apply (Hlink q b); [|exact Nq].
        destruct Hr as [[R1 R2]|[R1 R2]].
        - left. pose proof (pos_mono ds de l' (S j) (rank P1 z) ltac:(lia)).
          pose proof (pos_mono ds de l' (S (rank P1 z)) (rank P1 y) R2). lia.
        - right. pose proof (pos_mono ds de l' (rank P1 y) (rank P1 z) R1).
          pose proof (pos_mono ds de l' (S (rank P1 z)) (S j) R2). lia. }
      pose proof (pos_S_lt ds de l' (rank P1 z) Hne Hzl) as Hlt.
      destruct s as [c| |]; cbn [sym_ws].
      * destruct (pos_byte ds de l' _ c Nz') as [Hb _]. apply (Hin _ c (le_n _) Hlt Hb).
      * exfalso. destruct (ds_run ds de l' _ (proj1 Hsp) Nz') as (d0 & Hd0 & _ & Hw0 & _).
        rewrite (Hin _ d0 (le_n _) Hlt Hd0) in Hw0. discriminate Hw0.
      * exfalso. destruct (de_run ds de l' _ (proj2 Hsp) Nz') as (n & lead & m' & Hlen & Hd0 & _ & Hw0 & _ & _ & HS & _).
        assert (pos ds de l' (rank P1 z) <= pos ds de l' (rank P1 z) + n) as Q1 by lia.
        assert (pos ds de l' (rank P1 z) + n < pos ds de l' (S (rank P1 z))) as Q2 by lia.
        rewrite (Hin _ lead Q1 Q2 Hd0) in Hw0. discriminate Hw0.
    + exfalso. destruct (de_ok_last de (proj2 Hsp)) as (de' & x0 & Ede & B1 & B2).
      assert (pos ds de l' (S j) = S (pos ds de l' j + length de')) as EP.
      { rewrite (pos_S ds de l' j DE Nj). cbn [rsym]. rewrite Ede, app_length. cbn [length]. lia. }
      assert (nth_error (rs ds de l') (pos ds de l' j + length de') = Some x0) as Nq.
      { rewrite (rs_nth_in ds de l' j DE (length de') Nj).
        - cbn [rsym]. rewrite Ede. rewrite nth_error_app2 by lia. rewrite Nat.sub_diag. reflexivity.
        - cbn [rsym]. rewrite Ede, app_length. cbn [length]. lia. }
      destruct (Nat.le_gt_cases ls (pos ds de l' j + length de')) as [L|L].
      * rewrite (Hbl _ x0 L ltac:(lia) Nq) in B1. discriminate B1.
      * destruct Hls as [->|(p0 & -> & Hp0)]; [lia|].
        assert (p0 = pos ds de l' j + length de') as -> by lia.
        rewrite Nq in Hp0. inversion Hp0; subst x0. rewrite beq_refl in B2. discriminate B2.
Qed.

(* ------------------------------------------------------------------------- *)
(** * Part B: the texts at the two ends of a normalised document *)

Lemma map_B_inj : forall a b, map B a = map B b -> a = b.
Proof.
  induction a as [|c a IH]; intros [|d b] H; try discriminate H; [reflexivity|].
  cbn [map] in H. inversion H. f_equal. apply IH. assumption.
Qed.

Lemma map_B_eq_app (q : str) (a b : list sym) : map B q = a ++ b ->
  exists q1 q2, q = q1 ++ q2 /\ a = map B q1 /\ b = map B q2.
Proof.
  intros H. apply map_eq_app in H. destruct H as (q1 & q2 & E & E1 & E2).
  exists q1, q2. split; [exact E|]. split; symmetry; assumption.
Qed.

Lemma not_in_map_B (x : sym) (q : str) : (forall c, x <> B c) -> ~ In x (map B q).
Proof. intros H Hin. apply in_map_iff in Hin. destruct Hin as (c & E & _). apply (H c). symmetry. exact E. Qed.

Lemma flat_Tag_cons b r : flat (Tag b :: r) = (DS :: map B b) ++ DE :: flat r.
Proof. rewrite flat_cons. cbn [flat_item app]. rewrite <- app_assoc. reflexivity. Qed.

Lemma flat_Txt_cons t r : flat (Txt t :: r) = map B t ++ flat r.
Proof. rewrite flat_cons. reflexivity. Qed.

Lemma tcons_ne t nr : t <> [] -> exists u r, tcons t nr = Txt (t ++ u) :: r.
Proof.
  intros Ht. destruct t as [|c t]; [contradiction|]. destruct nr as [|[u|b] r]; cbn [tcons].
  - exists [], []. rewrite app_nil_r. reflexivity.
  - exists u, r. reflexivity.
  - exists [], (Tag b :: r). rewrite app_nil_r. reflexivity.
Qed.

(** The first item of the normalised document, when the symbol list begins with text bytes. *)
Lemma norm_first : forall d p s, p <> [] -> flat d = map B p ++ s ->
  exists u d', norm d = Txt (p ++ u) :: d'.
Proof.
  induction d as [|[t|b] r IH]; intros p s Hp H.
  - destruct p; [contradiction | discriminate H].
  - rewrite flat_Txt_cons in H. apply app_eq_app in H. destruct H as (x & [[E1 E2]|[E1 E2]]).
    + (* the text is longer *)
      apply map_B_eq_app in E1. destruct E1 as (q1 & q2 & -> & E3 & _).
      apply map_B_inj in E3. subst q1. cbn [norm].
      destruct (tcons_ne (p ++ q2) (norm r)) as (u & r' & E).
      { destruct p; [contradiction | discriminate]. }
      exists (q2 ++ u), r'. rewrite E, <- app_assoc. reflexivity.
    + apply map_B_eq_app in E1. destruct E1 as (q1 & q2 & -> & E3 & ->).
      apply map_B_inj in E3. subst q1. cbn [norm].
      destruct q2 as [|c q2].
      * rewrite app_nil_r. destruct (tcons_ne t (norm r) ltac:(rewrite app_nil_r in Hp; exact Hp)) as (u & r' & E).
        exists u, r'. exact E.
      * destruct (IH (c :: q2) s ltac:(discriminate) E2) as (u & d' & E). rewrite E.
        destruct t as [|c0 t]; [exists u, d'; reflexivity|].
        cbn [tcons]. exists u, d'. rewrite <- app_assoc. reflexivity.
  - rewrite flat_Tag_cons in H. destruct p; [contradiction | discriminate H].
Qed.

(** A document of texts only. *)
Lemma norm_all_txt : forall r q, flat r = map B q -> norm r = tcons q [].
Proof.
  induction r as [|[t|b] r IH]; intros q H.
  - destruct q; [reflexivity | discriminate H].
  - rewrite flat_Txt_cons in H. symmetry in H. apply map_B_eq_app in H.
    destruct H as (q1 & q2 & -> & E1 & E2). apply map_B_inj in E1. subst q1.
    cbn [norm]. rewrite (IH q2 E2).
    destruct t as [|c t]; [reflexivity|]. destruct q2 as [|c2 q2]; cbn [tcons app]; [rewrite app_nil_r|]; reflexivity.
  - rewrite flat_Tag_cons in H. destruct q; discriminate H.
Qed.

(** The last item of the normalised document, when the symbol list ends with text bytes. *)
Lemma norm_last : forall d s q, q <> [] -> flat d = s ++ map B q ->
  exists u d', norm d = d' ++ [Txt (u ++ q)].
Proof.
  induction d as [|[t|b] r IH]; intros s q Hq H.
  - destruct s; destruct q; try contradiction; discriminate H.
  - rewrite flat_Txt_cons in H. apply app_eq_app in H. destruct H as (x & [[E1 E2]|[E1 E2]]).
    + (* the rest of the document is text *)
      apply map_B_eq_app in E1. destruct E1 as (t1 & t2 & -> & -> & ->).
      apply map_B_eq_app in E2. destruct E2 as (q1 & q2 & -> & E3 & E4).
      apply map_B_inj in E3. subst q1. cbn [norm]. rewrite (norm_all_txt r q2 E4).
      exists t1, []. cbn [app].
      destruct q2 as [|c2 q2].
      * cbn [tcons]. rewrite app_nil_r in *. destruct (t1 ++ t2) as [|c0 t0] eqn:E0.
        { destruct t1; destruct t2; try discriminate E0. contradiction. }
        cbn [tcons]. reflexivity.
      * cbn [tcons]. destruct (t1 ++ t2) as [|c0 t0] eqn:E0.
        { destruct t1; destruct t2; try discriminate E0. reflexivity. }
        cbn [tcons]. rewrite <- E0, <- app_assoc. reflexivity.
    + destruct (IH x q Hq E2) as (u & d' & E). cbn [norm]. rewrite E.
      destruct t as [|c t]; [exists u, d'; reflexivity|].
      destruct d' as [|[v|b] d'']; cbn [tcons app].
      * exists ((c :: t) ++ u), []. rewrite <- app_assoc. reflexivity.
      * exists u, (Txt ((c :: t) ++ v) :: d''). reflexivity.
      * exists u, (Txt (c :: t) :: Tag b :: d''). reflexivity.
  - rewrite flat_Tag_cons in H.
    assert (exists x, flat r = x ++ map B q) as (x & E2).
    { replace ((DS :: map B b) ++ DE :: flat r) with (((DS :: map B b) ++ [DE]) ++ flat r) in H
        by (rewrite <- app_assoc; reflexivity).
      apply app_eq_app in H. destruct H as (x & [[E1 E2]|[E1 E2]]); [|exists x; exact E2].
      destruct x as [|y x]; [exists []; rewrite E2; reflexivity | exfalso].
      destruct (@exists_last _ (y :: x) ltac:(discriminate)) as (x' & z & Ex). rewrite Ex in *.
      rewrite app_assoc in E1. apply app_inj_tail in E1. destruct E1 as [_ <-].
      apply (not_in_map_B DE q ltac:(discriminate)). rewrite E2. apply in_or_app. left.
      apply in_or_app. right. left. reflexivity. }
    destruct (IH x q Hq E2) as (u & d' & E). cbn [norm]. rewrite E.
    exists u, (Tag b :: d'). reflexivity.
Qed.

(** From the document of a forest back to the forest. *)
Lemma items_ne a : items_of a <> [].
Proof. destruct a; discriminate. Qed.

Lemma doc_of_nil g : doc_of g = [] -> g = [].
Proof.
  destruct g as [|x g]; [reflexivity|]. rewrite doc_of_cons. intros H.
  apply app_eq_nil in H. destruct H as [H _]. exfalso. apply (items_ne x H).
Qed.

Lemma kids_one_doc g t : doc_of g = [Txt t] -> g = [AT t].
Proof.
  destruct g as [|x g]; [discriminate|]. rewrite doc_of_cons.
  destruct x as [t0|b|b1 b2 k]; cbn [items_of app]; intros H; try discriminate H.
  inversion H as [[E1 E2]]. rewrite (doc_of_nil g E2). reflexivity.
Qed.

Lemma kids_last_doc g m t : doc_of g = m ++ [Txt t] -> exists mid, g = mid ++ [AT t].
Proof.
  intros H. destruct g as [|x0 g0]; [destruct m; discriminate H|].
  destruct (@exists_last _ (x0 :: g0) ltac:(discriminate)) as (mid & y & E). rewrite E in *. clear E.
  exists mid. f_equal. rewrite doc_of_app in H. cbn [doc_of flat_map] in H. rewrite app_nil_r in H.
  destruct y as [t0|b|b1 b2 k]; cbn [items_of] in H.
  - apply app_inj_tail in H. destruct H as [_ H]. inversion H. reflexivity.
  - apply app_inj_tail in H. destruct H as [_ H]. discriminate H.
  - change (Tag b1 :: flat_map items_of k ++ [Tag b2]) with ((Tag b1 :: flat_map items_of k) ++ [Tag b2]) in H.
    rewrite app_assoc in H. apply app_inj_tail in H. destruct H as [_ H]. discriminate H.
Qed.

Lemma kids_two_doc g t1 m t2 : doc_of g = Txt t1 :: m ++ [Txt t2] ->
  exists mid, g = AT t1 :: mid ++ [AT t2].
Proof.
  destruct g as [|x g]; [discriminate|]. rewrite doc_of_cons.
  destruct x as [t0|b|b1 b2 k]; cbn [items_of app]; intros H; try discriminate H.
  inversion H as [[E1 E2]]. destruct (kids_last_doc g m t2 E2) as (mid & ->). exists mid. reflexivity.
Qed.

(** The wrapper lines over a symbol list: text only, or a text prefix that ends with a code line
    and a text suffix that begins with a line break and a code line. *)
Definition open_pre (p : str) : Prop :=
  exists r1 w1, p = r1 ++ NL :: w1 ++ [NL] /\ ~ In NL r1 /\ ~ In NL w1 /\ has_code w1.
Definition close_suf (q : str) : Prop :=
  exists w2 r2, q = NL :: w2 ++ NL :: r2 /\ ~ In NL w2 /\ ~ In NL r2 /\ has_code w2.
Definition wrapF (L : list sym) : Prop :=
  (exists t, t <> [] /\ L = map B t) \/
  (exists p S q, L = map B p ++ S ++ map B q /\ open_pre p /\ close_suf q).

Lemma wrapF_kids g : wrapF (flat (doc_of g)) -> wrapper_kids2 (ast_norm g).
Proof.
  intros [(t & Ht & E)|(p & S & q & E & (r1 & w1 & -> & N1 & N2 & C1) & (w2 & r2 & -> & N3 & N4 & C2))].
  - left. exists t. apply kids_one_doc. rewrite ast_norm_doc, (norm_all_txt _ t E).
    destruct t; [contradiction | reflexivity].
  - pose proof (ast_norm_doc g) as Ed.
    assert (r1 ++ NL :: w1 ++ [NL] <> []) as Hp by (destruct r1; discriminate).
    assert (NL :: w2 ++ NL :: r2 <> []) as Hq by discriminate.
    destruct (norm_first (doc_of g) _ _ Hp E) as (u & d' & E1).
    rewrite app_assoc in E.
    destruct (norm_last (doc_of g) _ _ Hq E) as (u2 & d2 & E2).
    destruct d' as [|z0 d0].
    + left. eexists. apply kids_one_doc. rewrite Ed. exact E1.
    + right. destruct (@exists_last _ (z0 :: d0) ltac:(discriminate)) as (m & z & Ez).
      rewrite Ez in E1. clear Ez.
      assert (z = Txt (u2 ++ NL :: w2 ++ NL :: r2)) as ->.
      { rewrite E1 in E2. change (Txt ((r1 ++ NL :: w1 ++ [NL]) ++ u) :: m ++ [z])
          with ((Txt ((r1 ++ NL :: w1 ++ [NL]) ++ u) :: m) ++ [z]) in E2.
        apply app_inj_tail in E2. exact (proj2 E2). }
      rewrite <- Ed in E1. destruct (kids_two_doc _ _ _ _ E1) as (mid & Eg).
      eexists _, mid, _. split; [exact Eg|]. split.
      * exists r1, w1, u. split; [|auto].
        rewrite <- !app_assoc. cbn [app]. rewrite <- app_assoc. reflexivity.
      * exists u2, w2, r2. auto.
Qed.

(** The domain [strict2] with the condition on the wrapper lines over the symbol list of the
    children: what a masked tree satisfies before it is normalised. *)
Fixpoint strictF1 (a : ast) : Prop :=
  match a with
  | AT _ => True
  | AC b => ~ In NL b
  | AE b1 b2 kids =>
    ~ In NL b1 /\ ~ In NL b2 /\ (is_unwrap b1 = true -> wrapF (flat (doc_of kids))) /\
    (fix all (l : list ast) : Prop :=
       match l with [] => True | x :: l' => strictF1 x /\ all l' end) kids
  end.
Definition strictF (f : list ast) : Prop := Forall strictF1 f.

Lemma strictF1_AE b1 b2 kids :
  strictF1 (AE b1 b2 kids) <->
  ~ In NL b1 /\ ~ In NL b2 /\ (is_unwrap b1 = true -> wrapF (flat (doc_of kids))) /\ strictF kids.
Proof.
  cbn [strictF1].
  assert ((fix all (l : list ast) : Prop :=
             match l with [] => True | x :: l' => strictF1 x /\ all l' end) kids <-> strictF kids) as E.
  { unfold strictF. induction kids as [|x kids IH].
    - split; [constructor | intros _; exact I].
    - split.
      + intros [H1 H2]. constructor; [exact H1 | apply IH; exact H2].
      + intros H. inversion H; subst. split; [assumption | apply IH; assumption]. }
  rewrite E. reflexivity.
Qed.

Lemma strict2_acons' x nr : strict21 x -> strict2 nr -> strict2 (acons' x nr).
Proof.
  intros Hx Hn. unfold strict2 in *. destruct x as [t|b|b1 b2 kids]; cbn [acons'];
    try (constructor; assumption).
  unfold acons. destruct t as [|c t]; [exact Hn|].
  destruct nr as [|[u|b|b1 b2 kids] r]; try (constructor; [exact I | exact Hn]).
  inversion Hn; subst. constructor; [exact I | assumption].
Qed.

Lemma strictF_norm_both :
  (forall a, strictF1 a -> strict21 (norm_a a)) /\ (forall f, strictF f -> strict2 (ast_norm f)).
Proof.
  apply (ast_forest_ind (fun a => strictF1 a -> strict21 (norm_a a))
                        (fun f => strictF f -> strict2 (ast_norm f))).
  - intros t _. exact I.
  - intros b H. exact H.
  - intros b1 b2 kids IH H. rewrite norm_a_AE. apply strictF1_AE in H. destruct H as (H1 & H2 & HW & Hk).
    apply strict21_AE. repeat split; try assumption.
    + intros U. apply wrapF_kids. apply HW. exact U.
    + apply IH. exact Hk.
  - intros _. constructor.
  - intros x f Hx Hf H. inversion H; subst. cbn [ast_norm]. apply strict2_acons'; auto.
Qed.

Theorem strictF_norm f : strictF f -> strict2 (ast_norm f).
Proof. apply (proj2 strictF_norm_both). Qed.

(* ------------------------------------------------------------------------- *)
(** * Part C: the wrapper lines of a kept unwrap-block node after a run *)

(** What the proof of [unwrap_two_rank] of [Proofs.ComposeUnwrap] establishes on the way, as a
    statement of its own (the proof is the first part of the proof given there): for a kept
    unwrap-block node with two wrapper texts, with the line breaks [xa < xb] around the first
    wrapper line (code byte [xc]) and [yc < yd] around the last one (code byte [yw]): the line
    breaks [xa], [xb], [yd] are kept, and the last kept line break [k'] in front of the last wrapper
    line ([xb <= k' <= yc]) has only whitespace bytes other than line breaks among the kept symbols
    up to [yc]. *)
Lemma two_wrap_positions cfg f D n t1 t2 xa xb xc cc0 yc yd yw cw :
  strict f -> run_facts cfg f D -> In n (ast_nodes 0 f) ->
  tdel cfg f (node_open n) = false ->
  S (S (node_open n)) < node_close n ->
  nth_error (doc_of f) (S (node_open n)) = Some (Txt t1) ->
  nth_error (doc_of f) (node_close n - 1) = Some (Txt t2) ->
  xa < xc -> xc < xb -> xb < length t1 ->
  nth_error t1 xa = Some NL -> nth_error t1 xb = Some NL ->
  (forall y, y < xb -> y <> xa -> exists c, nth_error t1 y = Some c /\ c <> NL) ->
  nth_error t1 xc = Some cc0 -> is_ws cc0 = false ->
  yc < yw -> yw < yd -> yd < length t2 ->
  nth_error t2 yc = Some NL -> nth_error t2 yd = Some NL ->
  (forall y, yc < y -> y < length t2 -> y <> yd -> exists c, nth_error t2 y = Some c /\ c <> NL) ->
  nth_error t2 yw = Some cw -> is_ws cw = false ->
  D (fstart (doc_of f) (S (node_open n)) + xa) = false /\
  D (fstart (doc_of f) (S (node_open n)) + xb) = false /\
  D (fstart (doc_of f) (node_close n - 1) + yd) = false /\
  exists k', fstart (doc_of f) (S (node_open n)) + xb <= k' /\
    k' <= fstart (doc_of f) (node_close n - 1) + yc /\
    nth_error (flat (doc_of f)) k' = Some (B NL) /\ D k' = false /\
    forall y z, k' < y -> y <= fstart (doc_of f) (node_close n - 1) + yc -> D y = false ->
      nth_error (flat (doc_of f)) y = Some z -> sym_ws z = true /\ z <> B NL.
Proof.
  intros Hs RF Hn Hk Lc T1 T2 X1 X2 X3 Na Nb Hnn Ncd Wc.
  pose proof RF as (Hpr & Htag & Hsup & Hws & HQ & HFk).
  pose proof (node_tags f n Hn) as Kn. cbv zeta in Kn.
  destruct Kn as (Loc & So & Sc & (b1 & To) & (b2 & Tc)).
  set (doc := doc_of f) in *. set (F := fstart doc) in *. set (l := flat doc) in *.
  set (o := node_open n) in *. set (c := node_close n) in *.
  pose proof (fstart_mono doc) as HF. fold F in HF.
  assert (S (c - 1) = c) as Ec1 by lia.
  pose proof (txt_fstart doc (S o) t1 T1) as E1. fold F in E1.
  pose proof (txt_fstart doc (c - 1) t2 T2) as E2. rewrite Ec1 in E2. fold F in E2.
  pose proof (HF (S (S o)) (c - 1) ltac:(lia)) as M1.
  pose proof (fstart_le doc c) as Lcl. fold F l in Lcl.
  assert (D (F o) = false) as Da by (pose proof (Htag o b1 To) as K; rewrite Hk in K; exact K).
  assert (forall y, F (S o) <= y < F (S (S o)) -> del1u cfg f y = false) as Hfree1.
  { intros y Hy. apply (kept_text_free cfg f n (S o) t1 y Hs Hn Hk (or_introl eq_refl) T1 Hy). }
  assert (forall y, F (c - 1) <= y < F c -> del1u cfg f y = false) as Hfree2.
  { intros y Hy. apply (kept_text_free cfg f n (c - 1) t2 y Hs Hn Hk (or_intror eq_refl) T2).
    fold doc F. rewrite Ec1. exact Hy. }
  assert (forall y, F o <= y < F (S o) -> del1u cfg f y = false) as Hfree0.
  { intros y Hy. apply (kept_tags_free cfg f n y Hs Hn Hk). left. exact Hy. }
  (* the opening side *)
  set (pa := F (S o) + xa). set (pb := F (S o) + xb). set (pcode := F (S o) + xc).
  assert (nth_error l pa = Some (B NL)) as La by (apply (txt_sym_B doc (S o) t1 xa NL T1 Na)).
  assert (nth_error l pb = Some (B NL)) as Lb by (apply (txt_sym_B doc (S o) t1 xb NL T1 Nb)).
  assert (nth_error l pcode = Some (B cc0)) as Lcode by (apply (txt_sym_B doc (S o) t1 xc cc0 T1 Ncd)).
  assert (forall y, F (S o) <= y -> y < pb -> y <> pa -> exists d, nth_error l y = Some (B d) /\ d <> NL) as Hnn'.
  { intros y Y1 Y2 Y3. destruct (Hnn (y - F (S o)) ltac:(unfold pb in Y2; lia) ltac:(unfold pa in Y3; lia))
      as (d & Nd & Hd).
    exists d. split; [|exact Hd]. replace y with (F (S o) + (y - F (S o))) by lia.
    apply (txt_sym_B doc (S o) t1 _ d T1 Nd). }
  destruct (tag_DE doc o b1 To) as [LDE LtDE]. fold F l in LDE, LtDE.
  assert (D pa = false) as Dpa.
  { apply (line_break_kept cfg f D (F (S o) - 1) pa DE RF LDE eq_refl); [unfold pa; lia | | exact La |].
    - intros y Y1 Y2. apply Hnn'; unfold pa, pb in *; lia.
    - intros y Y1 Y2. destruct (Nat.lt_ge_cases y (F (S o))) as [K|K]; [apply Hfree0; lia|].
      apply Hfree1. unfold pa in Y2. lia. }
  assert (D pb = false) as Dpb.
  { apply (line_break_kept cfg f D pcode pb (B cc0) RF Lcode); [cbn [sym_code]; rewrite Wc; reflexivity | unfold pcode, pb; lia | | exact Lb |].
    - intros y Y1 Y2. apply Hnn'; unfold pcode, pa, pb in *; lia.
    - intros y Y1 Y2. apply Hfree1. unfold pcode, pb in *. lia. }
  assert (a_next_lb l (F (S o)) false = Some pa) as En1.
  { apply a_next_lb_first; [unfold pa; lia | exact La |].
    intros y Y1 Y2 Ny. destruct (Hnn' y Y1 ltac:(unfold pa, pb in *; lia) ltac:(lia)) as (d & Nd & Hd).
    rewrite Nd in Ny. inversion Ny. contradiction. }
  assert (a_next_lb l (S pa) false = Some pb) as En2.
  { apply a_next_lb_first; [unfold pa, pb; lia | exact Lb |].
    intros y Y1 Y2 Ny. destruct (Hnn' y ltac:(unfold pa in *; lia) Y2 ltac:(lia)) as (d & Nd & Hd).
    rewrite Nd in Ny. inversion Ny. contradiction. }
  intros Y1 Y2 Y3 Nc Nd Hmm Ncw Wcw.
  (* the closing side *)
  set (pc := F (c - 1) + yc). set (pd := F (c - 1) + yd). set (pw := F (c - 1) + yw).
  assert (nth_error l pc = Some (B NL)) as Lpc by (apply (txt_sym_B doc (c - 1) t2 yc NL T2 Nc)).
  assert (nth_error l pd = Some (B NL)) as Lpd by (apply (txt_sym_B doc (c - 1) t2 yd NL T2 Nd)).
  assert (nth_error l pw = Some (B cw)) as Lpw by (apply (txt_sym_B doc (c - 1) t2 yw cw T2 Ncw)).
  assert (forall y, pc < y -> y < F c -> y <> pd -> exists d, nth_error l y = Some (B d) /\ d <> NL) as Hmm'.
  { intros y H1 H2 H3. destruct (Hmm (y - F (c - 1)) ltac:(unfold pc in H1; lia) ltac:(lia) ltac:(unfold pd in H3; lia))
      as (d & Nd' & Hd).
    exists d. split; [|exact Hd]. replace y with (F (c - 1) + (y - F (c - 1))) by (unfold pc in H1; lia).
    apply (txt_sym_B doc (c - 1) t2 _ d T2 Nd'). }
  assert (D pd = false) as Dpd.
  { apply (line_break_kept cfg f D pw pd (B cw) RF Lpw); [cbn [sym_code]; rewrite Wcw; reflexivity | unfold pw, pd; lia | | exact Lpd |].
    - intros y H1 H2. apply Hmm'; unfold pw, pc, pd in *; lia.
    - intros y H1 H2. apply Hfree2. unfold pw, pd in *. lia. }
  assert (a_prev_lb l (F c) false = Some pd) as Ep1.
  { apply a_prev_lb_last; [unfold pd; lia | exact Lcl | exact Lpd |].
    intros y H1 H2 Ny. destruct (Hmm' y ltac:(unfold pc, pd in *; lia) H2 ltac:(lia)) as (d & Nd' & Hd).
    rewrite Nd' in Ny. inversion Ny. contradiction. }
  assert (a_prev_lb l pd false = Some pc) as Ep2.
  { apply a_prev_lb_last; [unfold pc, pd; lia | unfold pd; lia | exact Lpc |].
    intros y H1 H2 Ny. destruct (Hmm' y H1 ltac:(unfold pd in *; lia) ltac:(lia)) as (d & Nd' & Hd).
    rewrite Nd' in Ny. inversion Ny. contradiction. }
  assert (pb < pc) as Lbc by (unfold pb, pc; lia).
  (* the last kept line break in front of the closing wrapper line *)
  destruct (max_true (fun y => a_is_nl l y && negb (D y)) pb (pc - pb) pc eq_refl)
    as (k' & K1 & K2 & Pk & Hlast).
  { exists pb. split; [lia|]. split; [lia|]. rewrite (a_is_nl_B l pb Lb), Dpb. reflexivity. }
  apply andb_true_iff in Pk. destruct Pk as [Pk1 Pk2]. apply a_is_nl_true in Pk1.
  apply negb_true_iff in Pk2.
  assert (forall y, k' < y -> y <= pc -> nth_error l y = Some (B NL) -> D y = true) as Hdel.
  { intros y H1 H2 Ny. pose proof (Hlast y H1 H2) as K. rewrite (a_is_nl_B l y Ny) in K.
    cbn [andb] in K. apply negb_false_iff in K. exact K. }
  (* no kept symbol other than a whitespace byte between it and that line *)
  assert (forall y z, k' < y -> y <= pc -> D y = false -> nth_error l y = Some z -> sym_ws z = true) as Hnone.
  { intros y z H1 H2 Dy Ny. destruct (sym_ws z) eqn:Wz; [reflexivity | exfalso].
    set (Q := fun y => negb (D y) && negb (match nth_error l y with Some z => sym_ws z | None => true end)).
    destruct (max_true Q (S k') (pc - S k') pc eq_refl) as (m & Mm1 & Mm2 & Qm & Hm).
    { exists y. split; [lia|]. split; [lia|]. unfold Q. rewrite Dy, Ny, Wz. reflexivity. }
    unfold Q in Qm. apply andb_true_iff in Qm. destruct Qm as [Qm1 Qm2].
    apply negb_true_iff in Qm1. apply negb_true_iff in Qm2.
    destruct (nth_error l m) as [zm|] eqn:Nm; [|discriminate Qm2].
    assert (forall y', m < y' -> y' <= pc -> forall z', nth_error l y' = Some z' ->
              D y' = true \/ sym_ws z' = true) as Hm'.
    { intros y' A1 A2 z' Ny'. pose proof (Hm y' A1 A2) as K. unfold Q in K. rewrite Ny' in K.
      destruct (D y'); [left; reflexivity | right]. cbn [negb andb] in K. apply negb_false_iff in K. exact K. }
    assert (m <> pc) as Nmp by (intros ->; rewrite Lpc in Nm; inversion Nm; subst zm; discriminate Qm2).
    destruct (sym_code zm) eqn:Cm.
    - (* a code symbol: the line break that ends its line would be kept *)
      destruct (min_true (fun y => a_is_nl l y && negb (del1u cfg f y)) pc (pc - S m) (S m) eq_refl ltac:(lia))
        as (p & P1 & P2 & Pp & Hp).
      { rewrite (a_is_nl_B l pc Lpc), (Hfree2 pc ltac:(unfold pc; lia)). reflexivity. }
      apply andb_true_iff in Pp. destruct Pp as [Pp1 Pp2]. apply a_is_nl_true in Pp1.
      apply negb_true_iff in Pp2.
      assert (D p = false) as Dp.
      { apply (HQ m p zm ltac:(lia) Nm Cm Qm1); [|exact Pp1 | exact Pp2].
        intros y' z' A1 A2 Ny'. destruct (del1u cfg f y') eqn:E1'; [left; reflexivity | right].
        pose proof (Hp y' ltac:(lia) A2) as K. rewrite E1' in K. cbn [negb] in K. rewrite andb_true_r in K.
        apply sym_ws_not_nl_blank; [|apply (a_is_nl_false l y' z' Ny' K)].
        destruct (Hm' y' A1 ltac:(lia) z' Ny') as [Dy'|W']; [|exact W'].
        apply (Hws y' z' Dy' E1' Ny'). }
      rewrite (Hdel p ltac:(lia) P2 Pp1) in Dp. discriminate Dp.
    - (* a start delimiter: the end delimiter of its tag comes later *)
      destruct zm as [d| |]; cbn [sym_code sym_ws] in Cm, Qm2.
      + rewrite Qm2 in Cm. discriminate Cm.
      + destruct (flat_DS_inv doc m Nm) as (it & b & Hit & Eit). fold F in Eit.
        destruct (tag_DE doc it b Hit) as [LDE' LtDE']. fold F l in LDE', LtDE'.
        assert (it < c) as I1.
        { destruct (Nat.lt_ge_cases it c) as [K|K]; [exact K|]. pose proof (HF c it K). unfold pc in *. lia. }
        assert (it <> c - 1) as I2 by (intros ->; congruence).
        pose proof (HF (S it) (c - 1) ltac:(lia)) as M2.
        assert (D (F (S it) - 1) = false) as Dde.
        { destruct Hpr as [Hir _]. pose proof (Hir it b Hit (F (S it) - 1)) as K. cbn [Nat.add] in K.
          fold doc F in K. rewrite K by lia. rewrite Eit. exact Qm1. }
        pose proof (Hm (F (S it) - 1) ltac:(lia) ltac:(unfold pc; lia)) as K. unfold Q in K.
        rewrite Dde, LDE' in K. discriminate K.
      + discriminate Cm. }
  split; [exact Dpa|]. split; [exact Dpb|]. split; [exact Dpd|].
  exists k'. split; [exact K1|]. split; [exact K2|]. split; [exact Pk1|]. split; [exact Pk2|].
  intros y z H1 H2 Dy Ny. split; [apply (Hnone y z H1 H2 Dy Ny)|].
  intros ->. rewrite (Hdel y H1 H2 Ny) in Dy. discriminate Dy.
Qed.

(** The positions of the two wrapper lines, from the decomposition of the two texts (the proofs
    are those of [open_wrap_pos] and [close_wrap_pos] with the witnesses made explicit). *)
Lemma open_pos_explicit r1 w1 rest1 k c : ~ In NL r1 -> ~ In NL w1 -> nth_error w1 k = Some c ->
  let t := r1 ++ NL :: w1 ++ NL :: rest1 in
  let xa := length r1 in let xb := length r1 + 1 + length w1 in let xc := length r1 + 1 + k in
  xa < xc /\ xc < xb /\ xb < length t /\
  nth_error t xa = Some NL /\ nth_error t xb = Some NL /\
  (forall y, y < xb -> y <> xa -> exists d, nth_error t y = Some d /\ d <> NL) /\
  nth_error t xc = Some c.
Proof.
  intros N1 N2 Hk. cbv zeta.
  assert (k < length w1) as Lk by (apply nth_error_Some; congruence).
  split; [lia|]. split; [lia|]. split; [rewrite !app_length; cbn [length]; rewrite app_length; cbn [length]; lia|].
  split; [apply nth_ctx|]. split; [|split].
  - rewrite nth_error_app2 by lia. replace (length r1 + 1 + length w1 - length r1) with (S (length w1)) by lia.
    cbn [nth_error]. apply nth_ctx.
  - intros y Y1 Y2. destruct (Nat.lt_ge_cases y (length r1)) as [L|L].
    + rewrite nth_error_app1 by exact L. destruct (nth_error_ex' r1 y L) as (d & Hd).
      exists d. split; [exact Hd | apply (nth_not_in r1 y d N1 Hd)].
    + rewrite nth_error_app2 by lia. destruct (y - length r1) as [|y'] eqn:Ey; [lia|].
      cbn [nth_error]. rewrite nth_error_app1 by lia. destruct (nth_error_ex' w1 y' ltac:(lia)) as (d & Hd).
      exists d. split; [exact Hd | apply (nth_not_in w1 y' d N2 Hd)].
  - rewrite nth_error_app2 by lia.
    replace (length r1 + 1 + k - length r1) with (S k) by lia. cbn [nth_error].
    rewrite nth_error_app1 by exact Lk. exact Hk.
Qed.

Lemma close_pos_explicit rest2 w2 r2 k c : ~ In NL w2 -> ~ In NL r2 -> nth_error w2 k = Some c ->
  let t := rest2 ++ NL :: w2 ++ NL :: r2 in
  let yc := length rest2 in let yd := length rest2 + 1 + length w2 in let yw := length rest2 + 1 + k in
  yc < yw /\ yw < yd /\ yd < length t /\
  nth_error t yc = Some NL /\ nth_error t yd = Some NL /\
  (forall y, yc < y -> y < length t -> y <> yd -> exists d, nth_error t y = Some d /\ d <> NL) /\
  nth_error t yw = Some c.
Proof.
  intros N1 N2 Hk. cbv zeta.
  assert (k < length w2) as Lk by (apply nth_error_Some; congruence).
  assert (length (rest2 ++ NL :: w2 ++ NL :: r2) = length rest2 + 1 + length w2 + 1 + length r2) as EL.
  { rewrite !app_length. cbn [length]. rewrite app_length. cbn [length]. lia. }
  split; [lia|]. split; [lia|]. split; [lia|].
  split; [apply nth_ctx|]. split; [|split].
  - rewrite nth_error_app2 by lia. replace (length rest2 + 1 + length w2 - length rest2) with (S (length w2)) by lia.
    cbn [nth_error]. apply nth_ctx.
  - intros y Y1 Y2 Y3. rewrite EL in Y2. rewrite nth_error_app2 by lia.
    destruct (y - length rest2) as [|y'] eqn:Ey; [lia|]. cbn [nth_error].
    destruct (Nat.lt_ge_cases y' (length w2)) as [L|L].
    + rewrite nth_error_app1 by exact L. destruct (nth_error_ex' w2 y' L) as (d & Hd).
      exists d. split; [exact Hd | apply (nth_not_in w2 y' d N1 Hd)].
    + rewrite nth_error_app2 by exact L. destruct (y' - length w2) as [|y''] eqn:Ey'; [lia|].
      cbn [nth_error]. destruct (nth_error_ex' r2 y'' ltac:(lia)) as (d & Hd).
      exists d. split; [exact Hd | apply (nth_not_in r2 y'' d N2 Hd)].
  - rewrite nth_error_app2 by lia.
    replace (length rest2 + 1 + k - length rest2) with (S k) by lia. cbn [nth_error].
    rewrite nth_error_app1 by exact Lk. exact Hk.
Qed.

(** Kept bytes. *)
Lemma kept_from_nth_in D : forall t i k c, nth_error t k = Some c -> D (i + k) = false ->
  In c (kept_from i D t).
Proof.
  induction t as [|a t IH]; intros i k c Hk Hd; [destruct k; discriminate Hk|].
  destruct k as [|k]; cbn [nth_error] in Hk; cbn [kept_from].
  - inversion Hk; subst a. rewrite Nat.add_0_r in Hd. rewrite Hd. left. reflexivity.
  - assert (In c (kept_from (S i) D t)) as K.
    { apply (IH (S i) k c Hk). replace (S i + k) with (i + S k) by lia. exact Hd. }
    destruct (D i); [exact K | right; exact K].
Qed.

Lemma kept_from_no_nl D t i : ~ In NL t -> ~ In NL (kept_from i D t).
Proof. intros H Hin. apply H. apply (kept_from_in _ _ _ _ Hin). Qed.

Lemma kept_has_code D w i k c : nth_error w k = Some c -> is_ws c = false -> D (i + k) = false ->
  has_code (kept_from i D w).
Proof. intros Hk Hc Hd. exists c. split; [apply (kept_from_nth_in D w i k c Hk Hd) | exact Hc]. Qed.

Lemma kept_from_cons_kept D i c t : D i = false -> kept_from i D (c :: t) = c :: kept_from (S i) D t.
Proof. intros H. cbn [kept_from]. rewrite H. reflexivity. Qed.

(** A stretch of symbols of which the kept ones are whitespace bytes other than line breaks. *)
Lemma ws_segment D : forall Zs base,
  (forall i z, nth_error Zs i = Some z -> D (base + i) = false -> sym_ws z = true /\ z <> B NL) ->
  exists bl, sdel_from base D Zs = map B bl /\ ~ In NL bl.
Proof.
  induction Zs as [|z Zs IH]; intros base H; [exists []; split; [reflexivity | intros []]|].
  destruct (IH (S base)) as (bl & E & Hn).
  { intros i z' Hi Hd. apply (H (S i) z' Hi). replace (base + S i) with (S base + i) by lia. exact Hd. }
  cbn [sdel_from]. destruct (D base) eqn:E0; [exists bl; split; assumption|].
  destruct (H 0 z eq_refl ltac:(rewrite Nat.add_0_r; exact E0)) as [W N].
  destruct z as [c| |]; cbn [sym_ws] in W; try discriminate W.
  exists (c :: bl). split; [cbn [map]; rewrite E; reflexivity|].
  intros [->|Hin]; [apply N; reflexivity | exact (Hn Hin)].
Qed.

Lemma normal_txt_ne : forall doc t, normal doc -> In (Txt t) doc -> t <> [].
Proof.
  induction doc as [|[u|b] doc IH]; intros t Hn Hin; [destruct Hin| |]; cbn [normal] in Hn.
  - destruct Hn as (H1 & _ & H3). destruct Hin as [E|Hin]; [inversion E; subst; exact H1 | apply IH; assumption].
  - destruct Hn as (_ & H3). destruct Hin as [E|Hin]; [discriminate E | apply IH; assumption].
Qed.

Lemma flat_one_txt t : flat [Txt t] = map B t.
Proof. cbn [flat flat_map flat_item]. apply app_nil_r. Qed.

(** A kept unwrap-block node after a run: the symbols between its two tags that are left are
    text only (and not empty), or they begin with a text prefix that ends with a code line and end
    with a text suffix that begins with a line break and a code line. *)
Lemma wrap_flat_node cfg f D b1 b2 pre dk post :
  normal (doc_of f) -> strict2 f -> run_facts3 cfg f D ->
  doc_of f = pre ++ Tag b1 :: dk ++ Tag b2 :: post ->
  In (b1, b2, length pre, S (length pre) + length dk) (ast_nodes 0 f) ->
  D (length (flat pre)) = false -> is_unwrap b1 = true ->
  wrapF (sdel_from (length (flat pre) + (length b1 + 2)) D (flat dk)).
Proof.
  intros Hnorm Hs2 [RF HG] Hdoc Hn Dk U.
  pose proof (strict2_strict f Hs2) as Hs.
  pose proof RF as (Hpr & Htag & Hsup & Hws & HQ & HFk).
  set (n := (b1, b2, length pre, S (length pre) + length dk)) in *.
  pose proof (strict2_wrap f n Hs2 Hn U) as W. unfold wrap2_ok in W.
  pose proof (node_tags f n Hn) as Kn. cbv zeta in Kn.
  destruct Kn as (Loc & So & Sc & (b1' & To) & (b2' & Tc)).
  set (doc := doc_of f) in *. set (F := fstart doc) in *. set (l := flat doc) in *.
  set (o := node_open n) in *. set (c := node_close n) in *.
  assert (o = length pre) as Eo by reflexivity.
  assert (c = S (length pre) + length dk) as Ec by reflexivity.
  pose proof (fstart_mono doc) as HF. fold F in HF.
  assert (nth_error doc o = Some (Tag b1)) as To1 by (rewrite Hdoc, Eo; apply nth_ctx).
  rewrite To1 in To. inversion To; subst b1'. clear To. rename To1 into To.
  assert (F o = length (flat pre)) as EFo by (unfold F; rewrite Hdoc, Eo; apply fstart_pre).
  assert (F (S o) = length (flat pre) + (length b1 + 2)) as EFs.
  { unfold F. rewrite (AstCollect.fstart_tag doc o b1 To). fold F. rewrite EFo. lia. }
  rewrite <- EFs.
  assert (tdel cfg f o = false) as Hk by (rewrite <- (Htag o b1 To); fold F; rewrite EFo; exact Dk).
  assert (forall i, i < length dk -> nth_error doc (S o + i) = nth_error dk i) as Hdk.
  { intros i Hi. rewrite Hdoc, Eo.
    change (pre ++ Tag b1 :: dk ++ Tag b2 :: post) with (pre ++ [Tag b1] ++ dk ++ Tag b2 :: post).
    rewrite app_assoc. replace (S (length pre) + i) with (length (pre ++ [Tag b1]) + i)
      by (rewrite app_length; cbn [length]; lia).
    apply nth_error_ctx. exact Hi. }
  assert (l = (flat (pre ++ [Tag b1])) ++ flat dk ++ flat (Tag b2 :: post)) as El.
  { unfold l. rewrite Hdoc. change (pre ++ Tag b1 :: dk ++ Tag b2 :: post) with (pre ++ [Tag b1] ++ dk ++ Tag b2 :: post).
    rewrite app_assoc, !flat_app. reflexivity. }
  assert (length (flat (pre ++ [Tag b1])) = F (S o)) as ELs.
  { rewrite flat_app, app_length, flat_tag_len, EFs. reflexivity. }
  destruct W as [(t & Ec1 & Tt)|(t1 & t2 & Lc & T1 & T2 & OW & CW)].
  - (* one text *)
    assert (dk = [Txt t]) as ->.
    { destruct dk as [|it [|it2 dk']]; cbn [length] in Ec; try lia.
      pose proof (Hdk 0 ltac:(cbn [length]; lia)) as K. rewrite Nat.add_0_r, Tt in K.
      cbn [nth_error] in K. inversion K. reflexivity. }
    rewrite flat_one_txt, sdel_from_map_B. left. eexists. split; [|reflexivity].
    assert (t <> []) as Hne.
    { apply (normal_txt_ne doc t Hnorm). apply (nth_error_In _ _ Tt). }
    destruct t as [|c0 t']; [contradiction|].
    assert (D (F (S o)) = false) as D0; [|rewrite (kept_from_cons_kept D _ c0 t' D0); discriminate].
    destruct (D (F (S o))) eqn:D0; [exfalso | reflexivity].
    pose proof (txt_fstart doc (S o) _ Tt) as E1. fold F in E1. rewrite <- Ec1 in E1.
    assert (forall y, F o <= y < F (S c) -> del1u cfg f y = false) as Hfree.
    { intros y Hy. destruct (Nat.lt_ge_cases y (F (S o))) as [K1|K1].
      - apply (kept_tags_free cfg f n y Hs Hn Hk). left. fold doc F o. lia.
      - destruct (Nat.lt_ge_cases y (F c)) as [K2|K2].
        + apply (kept_text_free cfg f n (S o) _ y Hs Hn Hk (or_introl eq_refl) Tt). fold doc F o.
          rewrite <- Ec1. lia.
        + apply (kept_tags_free cfg f n y Hs Hn Hk). right. fold doc F c. lia. }
    destruct (tag_DE doc c b2' Tc) as [LDE LtDE]. fold F l in LDE, LtDE.
    destruct (tag_DE doc o b1 To) as [LDE0 LtDE0]. fold F l in LDE0, LtDE0.
    pose proof (sym_at_tag doc o b1 To) as LDS. cbn [aidx] in LDS. fold F l in LDS.
    assert (nth_error l (F (S o)) = Some (B c0)) as N0.
    { pose proof (txt_sym_B doc (S o) _ 0 c0 Tt eq_refl) as K. fold F l in K.
      rewrite Nat.add_0_r in K. exact K. }
    cbn [length] in E1.
    assert (S (F (S o) - 1) = F (S o)) as ES by lia.
    destruct (HG (F (S o) - 1) (B c0)) as (w & Dw & Hlink); rewrite ?ES; try assumption.
    { apply Hfree. lia. }
    { apply Hfree. lia. }
    rewrite ES in Hlink.
    destruct (Nat.lt_ge_cases w (F o)) as [K1|K1].
    + destruct (Hlink (F o) DS ltac:(lia) LDS) as [K|K]; [|discriminate K].
      rewrite (Hfree (F o) ltac:(lia)) in K. discriminate K.
    + destruct (Nat.lt_ge_cases w (F (S c))) as [K2|K2]; [rewrite (Hfree w ltac:(lia)) in Dw; discriminate Dw|].
      destruct (Hlink (F (S c) - 1) DE ltac:(lia) LDE) as [K|K]; [|discriminate K].
      rewrite (Hfree (F (S c) - 1) ltac:(lia)) in K. discriminate K.
  - (* two wrapper texts *)
    assert (exists dm, dk = Txt t1 :: dm ++ [Txt t2]) as (dm & Edk).
    { destruct dk as [|it dk']; cbn [length] in Ec; [lia|].
      pose proof (Hdk 0 ltac:(cbn [length]; lia)) as K. rewrite Nat.add_0_r, T1 in K.
      cbn [nth_error] in K. inversion K; subst it.
      destruct dk' as [|it2 dk'']; [cbn [length] in Ec; lia|].
      destruct (@exists_last _ (it2 :: dk'') ltac:(discriminate)) as (dm & z & Ez). rewrite Ez in *.
      exists dm. f_equal. f_equal.
      assert (length (Txt t1 :: dm ++ [z]) = S (S (length dm))) as EL
        by (cbn [length]; rewrite app_length; cbn [length]; lia).
      assert (length (dm ++ [z]) = S (length dm)) as EL2 by (rewrite app_length; cbn [length]; lia).
      pose proof (Hdk (S (length dm)) ltac:(lia)) as K2.
      replace (S o + S (length dm)) with (c - 1) in K2 by lia. rewrite T2 in K2.
      cbn [nth_error] in K2. rewrite nth_ctx in K2. inversion K2. reflexivity. }
    subst dk.
    destruct OW as (r1 & w1 & rest1 & Et1 & N1 & N2 & C1).
    destruct CW as (rest2 & w2 & r2 & Et2 & N3 & N4 & C2).
    destruct (has_code_nth w1 C1) as (k1 & c1 & Hk1 & Wc1).
    destruct (has_code_nth w2 C2) as (k2 & c2 & Hk2 & Wc2).
    pose proof (open_pos_explicit r1 w1 rest1 k1 c1 N1 N2 Hk1) as OP. cbv zeta in OP. rewrite <- Et1 in OP.
    destruct OP as (X1 & X2 & X3 & Na & Nb & Hnn & Ncd).
    pose proof (close_pos_explicit rest2 w2 r2 k2 c2 N3 N4 Hk2) as CP. cbv zeta in CP. rewrite <- Et2 in CP.
    destruct CP as (Y1 & Y2 & Y3 & Nc & Nd & Hmm & Ncw).
    destruct (two_wrap_positions cfg f D n t1 t2 _ _ _ c1 _ _ _ c2 Hs RF Hn Hk Lc T1 T2
                X1 X2 X3 Na Nb Hnn Ncd Wc1 Y1 Y2 Y3 Nc Nd Hmm Ncw Wc2)
      as (Dpa & Dpb & Dpd & k' & K1 & K2 & Nk' & Dk' & Hrest).
    fold doc F o c l in Dpa, Dpb, Dpd, K1, K2, Nk', Hrest.
    set (s1 := F (S o)) in *. set (s2 := F (c - 1)) in *.
    (* the code bytes are kept *)
    assert (forall it t y x, it = S o \/ it = c - 1 -> nth_error doc it = Some (Txt t) ->
              F it <= y < F (S it) -> nth_error l y = Some x -> sym_ws x = false -> D y = false) as Hcode.
    { intros it t y x Hit Ht Hy Ny Wx. destruct (D y) eqn:Dy; [|reflexivity].
      rewrite (Hws y x Dy (kept_text_free cfg f n it t y Hs Hn Hk Hit Ht Hy) Ny) in Wx. discriminate Wx. }
    assert (D (s1 + (length r1 + 1 + k1)) = false) as Dc1.
    { apply (Hcode (S o) t1 _ (B c1) (or_introl eq_refl) T1).
      - pose proof (txt_fstart doc (S o) t1 T1) as E. fold F in E. fold F. unfold s1. lia.
      - apply (txt_sym_B doc (S o) t1 _ c1 T1 Ncd).
      - exact Wc1. }
    assert (S (c - 1) = c) as Ec1 by lia.
    assert (D (s2 + (length rest2 + 1 + k2)) = false) as Dc2.
    { apply (Hcode (c - 1) t2 _ (B c2) (or_intror eq_refl) T2).
      - pose proof (txt_fstart doc (c - 1) t2 T2) as E. fold F in E. fold F. unfold s2. lia.
      - apply (txt_sym_B doc (c - 1) t2 _ c2 T2 Ncw).
      - exact Wc2. }
    (* the symbols between the two tags *)
    set (P := r1 ++ NL :: w1 ++ [NL]).
    set (Q := w2 ++ NL :: r2).
    set (Z := map B rest1 ++ flat dm ++ map B rest2 ++ [B NL]).
    assert (flat (Txt t1 :: dm ++ [Txt t2]) = map B P ++ Z ++ map B Q) as Efl.
    { rewrite flat_Txt_cons, flat_app, flat_one_txt, Et1, Et2. unfold P, Q, Z.
      rewrite !map_app. cbn [map]. rewrite !map_app. cbn [map].
      rewrite <- !app_assoc. cbn [app]. rewrite <- !app_assoc. reflexivity. }
    assert (length P = length r1 + 1 + length w1 + 1) as LP.
    { unfold P. rewrite app_length. cbn [length]. rewrite app_length. cbn [length]. lia. }
    set (pb := s1 + (length r1 + 1 + length w1)) in *.
    set (pc := s2 + length rest2) in *.
    assert (s2 = s1 + length t1 + length (flat dm)) as Es2.
    { unfold s2, F. apply (fstart_at doc (pre ++ Tag b1 :: Txt t1 :: dm) (Txt t2 :: Tag b2 :: post)).
      - rewrite Hdoc. rewrite <- !app_assoc. cbn [app]. rewrite <- app_assoc. reflexivity.
      - rewrite app_length. cbn [length] in *. rewrite app_length in Ec. cbn [length] in Ec. lia.
      - change (pre ++ Tag b1 :: Txt t1 :: dm) with (pre ++ [Tag b1] ++ [Txt t1] ++ dm).
        rewrite !app_assoc, flat_app, app_length, flat_app, app_length, flat_one_txt, map_length.
        rewrite ELs. fold s1. lia. }
    assert (length t1 = length r1 + 1 + length w1 + 1 + length rest1) as Lt1.
    { rewrite Et1, !app_length. cbn [length]. rewrite app_length. cbn [length]. lia. }
    assert (length Z = length rest1 + length (flat dm) + length rest2 + 1) as LZ.
    { unfold Z. rewrite !app_length, !map_length. cbn [length]. lia. }
    assert (pc = pb + length Z) as Epc by (unfold pc, pb; lia).
    assert (forall i, i < length Z -> nth_error l (S pb + i) = nth_error Z i) as HZ.
    { intros i Hi. rewrite El, Efl.
      replace (flat (pre ++ [Tag b1]) ++ (map B P ++ Z ++ map B Q) ++ flat (Tag b2 :: post))
        with ((flat (pre ++ [Tag b1]) ++ map B P) ++ Z ++ (map B Q ++ flat (Tag b2 :: post)))
        by (rewrite <- !app_assoc; reflexivity).
      replace (S pb + i) with (length (flat (pre ++ [Tag b1]) ++ map B P) + i)
        by (rewrite app_length, map_length, ELs, LP; fold s1; unfold pb; lia).
      apply nth_error_ctx. exact Hi. }
    rewrite Efl, !sdel_from_app, !sdel_from_map_B, !map_length.
    (* the prefix *)
    assert (kept_from s1 D P =
            kept_from s1 D r1 ++ NL :: kept_from (S (s1 + length r1)) D w1 ++ [NL]) as EP.
    { unfold P. rewrite kept_from_app, (kept_from_cons_kept D _ NL _ Dpa), kept_from_app.
      replace (S (s1 + length r1) + length w1) with pb by (unfold pb; lia).
      rewrite (kept_from_cons_kept D pb NL [] Dpb). reflexivity. }
    assert (open_pre (kept_from s1 D P)) as HOP.
    { rewrite EP. eexists _, _. split; [reflexivity|].
      split; [apply kept_from_no_nl; exact N1|]. split; [apply kept_from_no_nl; exact N2|].
      apply (kept_has_code D w1 _ k1 c1 Hk1 Wc1).
      replace (S (s1 + length r1) + k1) with (s1 + (length r1 + 1 + k1)) by lia. exact Dc1. }
    (* the suffix *)
    replace (s1 + length P + length Z) with (S pc) by (rewrite Epc, LP; unfold pb; lia).
    assert (kept_from (S pc) D Q = kept_from (S pc) D w2 ++ NL :: kept_from (S (S pc + length w2)) D r2) as EQ.
    { unfold Q. rewrite kept_from_app. rewrite kept_from_cons_kept; [reflexivity|].
      replace (S pc + length w2) with (s2 + (length rest2 + 1 + length w2)) by (unfold pc; lia). exact Dpd. }
    assert (has_code (kept_from (S pc) D w2)) as HC2.
    { apply (kept_has_code D w2 _ k2 c2 Hk2 Wc2).
      replace (S pc + k2) with (s2 + (length rest2 + 1 + k2)) by (unfold pc; lia). exact Dc2. }
    replace (s1 + length P) with (S pb) by (rewrite LP; unfold pb; lia).
    destruct (Nat.eq_dec k' pb) as [Ek|Ek].
    + (* everything between the two wrapper lines is gone *)
      subst k'.
      destruct (ws_segment D Z (S pb)) as (bl & Ebl & Nbl).
      { intros i z Hi Hd. assert (i < length Z) as Li by (apply nth_error_Some; congruence).
        apply (Hrest (S pb + i) z); [lia | lia | exact Hd |]. rewrite (HZ i Li). exact Hi. }
      rewrite Ebl. left. exists (kept_from s1 D P ++ bl ++ kept_from (S pc) D Q).
      split; [rewrite EP; destruct (kept_from s1 D r1); discriminate|].
      rewrite !map_app. reflexivity.
    + (* the last kept line break between them *)
      set (j := k' - S pb).
      assert (j < length Z) as Lj by (unfold j; lia).
      assert (nth_error Z j = Some (B NL)) as NZ.
      { rewrite <- (HZ j Lj). replace (S pb + j) with k' by (unfold j; lia). exact Nk'. }
      destruct (nth_error_split Z j NZ) as (Z1 & Z2 & EZ & LZ1).
      assert (length Z = j + 1 + length Z2) as LZ2 by (rewrite EZ, app_length; cbn [length]; lia).
      destruct (ws_segment D Z2 (S k')) as (bl & Ebl & Nbl).
      { intros i z Hi Hd. assert (i < length Z2) as Li by (apply nth_error_Some; congruence).
        apply (Hrest (S k' + i) z); [lia | unfold j in *; lia | exact Hd |].
        replace (S k' + i) with (S pb + (j + 1 + i)) by (unfold j; lia).
        rewrite (HZ (j + 1 + i) ltac:(lia)). rewrite EZ.
        rewrite nth_error_app2 by lia. replace (j + 1 + i - length Z1) with (S i) by lia. exact Hi. }
      rewrite EZ, sdel_from_app. cbn [sdel_from].
      replace (S pb + length Z1) with k' by (unfold j in *; lia). rewrite Dk', Ebl.
      right. exists (kept_from s1 D P), (sdel_from (S pb) D Z1), (NL :: bl ++ kept_from (S pc) D Q).
      split; [|split; [exact HOP|]].
      * cbn [map]. rewrite map_app, <- !app_assoc. reflexivity.
      * rewrite EQ. exists (bl ++ kept_from (S pc) D w2), (kept_from (S (S pc + length w2)) D r2).
        split; [rewrite <- app_assoc; reflexivity|].
        split.
        { intros Hin. apply in_app_or in Hin. destruct Hin as [Hin|Hin]; [exact (Nbl Hin)|].
          apply (kept_from_no_nl D w2 _ N3 Hin). }
        split; [apply kept_from_no_nl; exact N4|].
        destruct HC2 as (cc & Hin & Hcc). exists cc. split; [apply in_or_app; right; exact Hin | exact Hcc].
Qed.

(* ------------------------------------------------------------------------- *)
(** * Part D: the domain [strict2] is preserved by a run *)

(** The symbol list of a masked tree (structurally; the mask is constant on every tag and equal
    on the two tags of an element). *)
Lemma mask_flat_both D :
  (forall a sb, mres1 D sb a -> flat (doc_of (mask1 D sb a)) = sdel_from sb D (flat (items_of a))) /\
  (forall f sb, mress D sb f -> flat (doc_of (ast_mask D sb f)) = sdel_from sb D (flat (doc_of f))).
Proof.
  apply (ast_forest_ind
    (fun a => forall sb, mres1 D sb a -> flat (doc_of (mask1 D sb a)) = sdel_from sb D (flat (items_of a)))
    (fun f => forall sb, mress D sb f -> flat (doc_of (ast_mask D sb f)) = sdel_from sb D (flat (doc_of f)))).
  - intros t sb _. cbn [mask1 items_of doc_of flat_map app]. rewrite !flat_one_txt, sdel_from_map_B. reflexivity.
  - intros b sb H. cbn [mres1] in H. cbn [mask1 items_of]. destruct (D sb) eqn:E0.
    + rewrite DocMask.sdel_from_all; [reflexivity|]. intros k Hk. rewrite flat_tag_len in Hk. exact (H k Hk).
    + rewrite DocMask.sdel_from_none; [cbn [doc_of flat_map items_of app]; reflexivity|].
      intros k Hk. rewrite flat_tag_len in Hk. exact (H k Hk).
  - intros b1 b2 kids IH sb H. rewrite mres1_AE in H. destruct H as (H1 & H2 & Hk).
    rewrite mask1_AE, items_AE, !flat_app, !sdel_from_app, flat_tag_len. fold (flens kids).
    rewrite <- (IH _ Hk). destruct (D sb) eqn:E0.
    + rewrite (DocMask.sdel_from_all (flat [Tag b1])), (DocMask.sdel_from_all (flat [Tag b2])).
      * cbn [app]. rewrite app_nil_r. reflexivity.
      * intros k Hk'. rewrite flat_tag_len in Hk'. exact (H2 k Hk').
      * intros k Hk'. rewrite flat_tag_len in Hk'. exact (H1 k Hk').
    + rewrite (DocMask.sdel_from_none (flat [Tag b1])), (DocMask.sdel_from_none (flat [Tag b2])).
      * rewrite doc_of_cons, items_AE. cbn [doc_of flat_map]. rewrite app_nil_r, !flat_app. reflexivity.
      * intros k Hk'. rewrite flat_tag_len in Hk'. exact (H2 k Hk').
      * intros k Hk'. rewrite flat_tag_len in Hk'. exact (H1 k Hk').
  - intros sb _. reflexivity.
  - intros x f Hx Hf sb H. rewrite mress_cons in H. destruct H as [H1 H2].
    rewrite ast_mask_cons, doc_of_app, flat_app, doc_of_cons, flat_app, sdel_from_app.
    rewrite (Hx _ H1), (Hf _ H2). reflexivity.
Qed.

(** The condition on the kept unwrap-block nodes, structurally. *)
Fixpoint nc1 (D : nat -> bool) (sb : nat) (a : ast) : Prop :=
  match a with
  | AT _ => True
  | AC _ => True
  | AE b1 b2 kids =>
    (D sb = false -> is_unwrap b1 = true ->
     wrapF (sdel_from (sb + (length b1 + 2)) D (flat (doc_of kids)))) /\
    (fix go (s : nat) (l : list ast) : Prop :=
       match l with
       | [] => True
       | x :: l' => nc1 D s x /\ go (s + flen x) l'
       end) (sb + (length b1 + 2)) kids
  end.
Definition ncs (D : nat -> bool) : nat -> list ast -> Prop :=
  fix go (s : nat) (l : list ast) : Prop :=
    match l with
    | [] => True
    | x :: l' => nc1 D s x /\ go (s + flen x) l'
    end.

Lemma nc1_AE D sb b1 b2 kids :
  nc1 D sb (AE b1 b2 kids) =
  ((D sb = false -> is_unwrap b1 = true ->
    wrapF (sdel_from (sb + (length b1 + 2)) D (flat (doc_of kids)))) /\
   ncs D (sb + (length b1 + 2)) kids).
Proof. reflexivity. Qed.

Lemma ncs_cons D sb x f : ncs D sb (x :: f) = (nc1 D sb x /\ ncs D (sb + flen x) f).
Proof. reflexivity. Qed.

(** The masked tree, before it is normalised. *)
Lemma strictF_mask_both D :
  (forall a sb, strict21 a -> mres1 D sb a -> nc1 D sb a -> strictF (mask1 D sb a)) /\
  (forall f sb, strict2 f -> mress D sb f -> ncs D sb f -> strictF (ast_mask D sb f)).
Proof.
  apply (ast_forest_ind
    (fun a => forall sb, strict21 a -> mres1 D sb a -> nc1 D sb a -> strictF (mask1 D sb a))
    (fun f => forall sb, strict2 f -> mress D sb f -> ncs D sb f -> strictF (ast_mask D sb f))).
  - intros t sb _ _ _. cbn [mask1]. constructor; [exact I | constructor].
  - intros b sb H _ _. cbn [mask1]. destruct (D sb); constructor; [exact H | constructor].
  - intros b1 b2 kids IH sb H HM HN. apply strict21_AE in H. destruct H as (N1 & N2 & _ & Hk).
    rewrite mres1_AE in HM. destruct HM as (_ & _ & HMk). rewrite nc1_AE in HN. destruct HN as [HN HNk].
    rewrite mask1_AE. pose proof (IH _ Hk HMk HNk) as IHk.
    destruct (D sb) eqn:E0; [exact IHk|]. constructor; [|constructor].
    apply strictF1_AE. split; [exact N1|]. split; [exact N2|]. split; [|exact IHk].
    intros U. rewrite (proj2 (mask_flat_both D) kids _ HMk). apply (HN eq_refl U).
  - intros sb _ _ _. constructor.
  - intros x f Hx Hf sb H HM HN. inversion H; subst. rewrite mress_cons in HM. rewrite ncs_cons in HN.
    destruct HM as [M1 M2]. destruct HN as [Q1 Q2]. rewrite ast_mask_cons. unfold strictF.
    apply Forall_app. split; [apply Hx | apply Hf]; assumption.
Qed.

(** From the nodes of the forest to the structural condition. *)
Lemma nc_ctx_both D f :
  (forall b1 b2 pre dk post, doc_of f = pre ++ Tag b1 :: dk ++ Tag b2 :: post ->
     In (b1, b2, length pre, S (length pre) + length dk) (ast_nodes 0 f) ->
     D (length (flat pre)) = false -> is_unwrap b1 = true ->
     wrapF (sdel_from (length (flat pre) + (length b1 + 2)) D (flat dk))) ->
  (forall a pre post ib sb, doc_of f = pre ++ items_of a ++ post -> ib = length pre ->
     sb = length (flat pre) ->
     (forall n, In n (nodes1 ib a) -> In n (ast_nodes 0 f)) -> nc1 D sb a) /\
  (forall g pre post ib sb, doc_of f = pre ++ doc_of g ++ post -> ib = length pre ->
     sb = length (flat pre) ->
     (forall n, In n (ast_nodes ib g) -> In n (ast_nodes 0 f)) -> ncs D sb g).
Proof.
  intros NW.
  apply (ast_forest_ind
    (fun a => forall pre post ib sb, doc_of f = pre ++ items_of a ++ post -> ib = length pre ->
       sb = length (flat pre) ->
       (forall n, In n (nodes1 ib a) -> In n (ast_nodes 0 f)) -> nc1 D sb a)
    (fun g => forall pre post ib sb, doc_of f = pre ++ doc_of g ++ post -> ib = length pre ->
       sb = length (flat pre) ->
       (forall n, In n (ast_nodes ib g) -> In n (ast_nodes 0 f)) -> ncs D sb g)).
  - intros; exact I.
  - intros; exact I.
  - intros b1 b2 kids IH pre post ib sb Hd Hi Hs Hsub. rewrite nc1_AE. split.
    + intros E0 U. rewrite Hs. apply (NW b1 b2 pre (doc_of kids) post).
      * rewrite Hd, items_AE. rewrite <- !app_assoc. reflexivity.
      * rewrite <- Hi, sizes_doc. apply Hsub. rewrite nodes1_AE. left. reflexivity.
      * rewrite <- Hs. exact E0.
      * exact U.
    + apply (IH (pre ++ [Tag b1]) (Tag b2 :: post) (S ib)).
      * rewrite Hd, items_AE. rewrite <- !app_assoc. reflexivity.
      * rewrite app_length, Hi. cbn [length]. lia.
      * rewrite flat_app, app_length, flat_tag_len, Hs. reflexivity.
      * intros n Hn. apply Hsub. rewrite nodes1_AE. right. exact Hn.
  - intros; exact I.
  - intros x g Hx Hg pre post ib sb Hd Hi Hs Hsub. rewrite ncs_cons. cbn [ast_nodes] in Hsub. split.
    + apply (Hx pre (doc_of g ++ post) ib); try assumption.
      * rewrite Hd, doc_of_cons, <- !app_assoc. reflexivity.
      * intros n Hn. apply Hsub. apply in_or_app. left. exact Hn.
    + apply (Hg (pre ++ items_of x) post (ib + size x)).
      * rewrite Hd, doc_of_cons, <- !app_assoc. reflexivity.
      * rewrite app_length, size_items, Hi. reflexivity.
      * rewrite flat_app, app_length, Hs. reflexivity.
      * intros n Hn. apply Hsub. apply in_or_app. right. exact Hn.
Qed.

(** The domain [strict2] is preserved by a run: the masked and normalised tree of a forest in
    [strict2] is in [strict2], for every mask with the properties [run_facts3] of the mask of a run
    (the document is in normal form: no text is empty). *)
Theorem strict2_run cfg f D :
  normal (doc_of f) -> strict2 f -> run_facts3 cfg f D ->
  strict2 (ast_norm (ast_mask D 0 f)).
Proof.
  intros Hnorm Hs2 RF3. apply strictF_norm.
  pose proof RF3 as [(Hpr & _) _].
  apply (proj2 (strictF_mask_both D) f 0 Hs2 (pair_respecting_mress D f Hpr)).
  apply (proj2 (nc_ctx_both D f (fun b1 b2 pre dk post => wrap_flat_node cfg f D b1 b2 pre dk post Hnorm Hs2 RF3)) f [] [] 0 0); try reflexivity.
  - cbn [app]. rewrite app_nil_r. reflexivity.
  - intros n Hn. exact Hn.
Qed.

(** One run on the rendering of a forest in [strict2]: the output is the rendering of a forest in
    [strict2] again; with what [clean_run_then] of [Proofs.ComposeUnwrap] says about it. *)
Theorem clean_run_strict2 : forall cfg1 ds de f out1,
  good_delims ds de -> de_nb de -> good_doc ds de (doc_of f) -> bodies_ok (doc_of f) ->
  Forall ast_ok f -> strict2 f ->
  clean cfg1 ds de (render ds de (doc_of f)) = Ok out1 ->
  exists D f1, out1 = render ds de (doc_of f1) /\ Forall ast_ok f1 /\
    good_doc ds de (doc_of f1) /\ bodies_ok (doc_of f1) /\ settled cfg1 f1 /\ strict2 f1 /\
    flat (doc_of f1) = sdel_from 0 D (flat (doc_of f)) /\
    (forall p, In p (ast_pairs f1) -> In p (ast_pairs f)) /\
    (forall cfg2, ready_le cfg1 cfg2 ->
     forall i x, nth_error (flat (doc_of f)) i = Some x -> sym_ws x = false ->
       D i || del1u cfg2 f1 (rank D i) = del1u cfg2 f i).
Proof.
  intros cfg1 ds de f out1 Hgd Hnb Hdoc Hbod Hok Hs2 H1.
  pose proof (strict2_strict f Hs2) as Hs.
  destruct (clean_run_mask3 cfg1 ds de f Hgd Hnb Hdoc Hbod Hok Hs)
    as (D & Hpr & Hwf & Htag & Ecl & Hsup & Hws & HQ & HFk & HG).
  assert (run_facts cfg1 f D) as RF by (unfold run_facts; auto 10).
  rewrite Ecl in H1. inversion H1 as [Eout]. clear H1.
  set (f1 := ast_norm (ast_mask D 0 f)).
  destruct (masked_good ds de f D Hpr Hdoc Hbod Hwf) as [Hg1 Hb1]. fold f1 in Hg1, Hb1.
  exists D, f1. split; [apply masked_rendering; exact Hpr|]. split; [apply masked_ok; exact Hok|].
  split; [exact Hg1|]. split; [exact Hb1|].
  split; [|split; [|split; [apply masked_flat; exact Hpr|split]]].
  { apply settled_masked. intros n Hn Hd.
    pose proof (node_tags f n Hn) as K. cbv zeta in K. destruct K as (_ & _ & _ & (b1 & Ho) & _).
    rewrite (Htag _ b1 Ho) in Hd.
    apply (strict_none cfg1 f n Hs Hn). apply (tdel_open_kept cfg1 f n Hn Hd). }
  { apply (strict2_run cfg1 f D (proj1 Hdoc) Hs2). split; [exact RF | exact HG]. }
  { intros p Hin. rewrite <- (nodes_pairs f1 0) in Hin. unfold f1 in Hin.
    rewrite masked_nodes in Hin. apply in_map_iff in Hin. destruct Hin as (n & <- & Hn).
    apply filter_In in Hn. destruct Hn as [Hn _].
    rewrite <- (nodes_pairs f 0). apply in_map. exact Hn. }
  intros cfg2 Hle i x Ni Wx.
  destruct (D i) eqn:Di; cbn [orb].
  - symmetry. apply (del1u_mono cfg1 cfg2 f i Hle).
    destruct (del1u cfg1 f i) eqn:E1; [reflexivity|].
    rewrite (Hws i x Di E1 Ni) in Wx. discriminate Wx.
  - rewrite !del1u_q. unfold f1. rewrite (masked_flat D f Hpr), (masked_posq D f Hpr).
    rewrite !existsb_map, existsb_filter, existsb_map.
    apply existsb_ext_in. intros n Hn.
    apply (node_step cfg1 cfg2 f D n i x Hs2 RF Hle Hn Di Ni Wx).
Qed.

(* ------------------------------------------------------------------------- *)
(** * Part E: no tag is stranded, as a statement about trees *)

(** Two runs, one after the other, on the rendering of a forest in [strict2]: the output is the
    rendering of a well-formed forest in [strict2] that is settled under the second configuration,
    all of whose elements are elements of [f]; and it is a fixed point of the second
    configuration.  (Nothing about the two configurations is used.) *)
Theorem clean_two_runs_settled : forall cfg1 cfg2 ds de f out1 out12,
  good_delims ds de -> de_nb de -> good_doc ds de (doc_of f) -> bodies_ok (doc_of f) ->
  Forall ast_ok f -> strict2 f ->
  clean cfg1 ds de (render ds de (doc_of f)) = Ok out1 ->
  clean cfg2 ds de out1 = Ok out12 ->
  (exists f12, out12 = render ds de (doc_of f12) /\ Forall ast_ok f12 /\ settled cfg2 f12 /\
     strict2 f12 /\ (forall p, In p (ast_pairs f12) -> In p (ast_pairs f))) /\
  clean cfg2 ds de out12 = Ok out12.
Proof.
  intros cfg1 cfg2 ds de f out1 out12 Hgd Hnb Hdoc Hbod Hok Hs2 H1 H12.
  destruct (clean_run_strict2 cfg1 ds de f out1 Hgd Hnb Hdoc Hbod Hok Hs2 H1)
    as (D & f1 & -> & Hok1 & Hg1 & Hb1 & _ & Hs21 & _ & Hp1 & _).
  destruct (clean_run_strict2 cfg2 ds de f1 out12 Hgd Hnb Hg1 Hb1 Hok1 Hs21 H12)
    as (D2 & f12 & -> & Hok12 & Hg12 & Hb12 & Hset & Hs212 & _ & Hp12 & _).
  split.
  - exists f12. split; [reflexivity|]. split; [exact Hok12|]. split; [exact Hset|].
    split; [exact Hs212|]. intros p Hp. apply Hp1. apply Hp12. exact Hp.
  - apply clean_settled; assumption.
Qed.

(** [clean_steps_not_stranded_if] of [Proofs.ComposeUnwrap] without its extra premise. *)
Theorem clean_steps_not_stranded_strict : forall cfg1 cfg2 ds de f out1 out12,
  good_delims ds de -> de_nb de -> good_doc ds de (doc_of f) -> bodies_ok (doc_of f) ->
  Forall ast_ok f -> strict2 f ->
  (forall el, status cfg1 el = Some true -> status cfg2 el = Some true) ->
  clean cfg1 ds de (render ds de (doc_of f)) = Ok out1 ->
  clean cfg2 ds de out1 = Ok out12 ->
  (exists f12, out12 = render ds de (doc_of f12) /\ Forall ast_ok f12 /\ settled cfg2 f12 /\
     forall p, In p (ast_pairs f12) -> In p (ast_pairs f)) /\
  clean cfg2 ds de out12 = Ok out12.
Proof.
  intros cfg1 cfg2 ds de f out1 out12 Hgd Hnb Hdoc Hbod Hok Hs2 _ H1 H12.
  destruct (clean_two_runs_settled cfg1 cfg2 ds de f out1 out12 Hgd Hnb Hdoc Hbod Hok Hs2 H1 H12)
    as [(f12 & E & Hok12 & Hset & _ & Hp) Hfix].
  split; [|exact Hfix]. exists f12. auto.
Qed.

(** The premise of [clean_steps_not_stranded_if] holds for the masks of a run. *)
Corollary strict_run cfg f D :
  normal (doc_of f) -> strict2 f -> run_facts3 cfg f D -> strict (ast_norm (ast_mask D 0 f)).
Proof. intros Hn Hs RF. apply strict2_strict. apply (strict2_run cfg f D Hn Hs RF). Qed.

(* ------------------------------------------------------------------------- *)
(** * Part F: chains of runs *)

Lemma ready_le_refl c : ready_le c c.
Proof. intros el H. exact H. Qed.

Lemma ready_le_trans c1 c2 c3 : ready_le c1 c2 -> ready_le c2 c3 -> ready_le c1 c3.
Proof. intros H1 H2 el H. apply H2. apply H1. exact H. Qed.

Lemma grows_ready_le : forall cs c, grows c cs -> ready_le c (last cs c).
Proof.
  induction cs as [|c' cs IH]; intros c H; [apply ready_le_refl|].
  destruct H as [H1 H2]. rewrite last_cons. apply (ready_le_trans c c' _ H1). apply IH. exact H2.
Qed.

(** A chain of runs with growing readiness on the rendering of a forest in [strict2]: the output
    is the rendering of a forest in [strict2] that is settled under the LAST configuration, all of
    whose elements are elements of the input; up to whitespace it is the input without the
    symbols that the marker stage of the last configuration deletes from the INPUT. *)
Theorem clean_chain_strict2 : forall cs c ds de f outn,
  good_delims ds de -> de_nb de -> good_doc ds de (doc_of f) -> bodies_ok (doc_of f) ->
  Forall ast_ok f -> strict2 f -> grows c cs ->
  clean_chain (c :: cs) ds de (render ds de (doc_of f)) = Ok outn ->
  exists fn, outn = render ds de (doc_of fn) /\ Forall ast_ok fn /\
    good_doc ds de (doc_of fn) /\ bodies_ok (doc_of fn) /\ strict2 fn /\
    settled (last cs c) fn /\
    (forall p, In p (ast_pairs fn) -> In p (ast_pairs f)) /\
    nonws outn = nonws (rs ds de (sdel_from 0 (del1u (last cs c) f) (flat (doc_of f)))).
Proof.
  induction cs as [|c' cs IH]; intros c ds de f outn Hgd Hnb Hdoc Hbod Hok Hs2 Hg H.
  - cbn [clean_chain] in H. inv_bind H. inversion Hk; subst v. cbn [last].
    destruct (clean_run_strict2 c ds de f outn Hgd Hnb Hdoc Hbod Hok Hs2 Hb)
      as (D & f1 & E & Hok1 & Hg1 & Hb1 & Hset & Hs21 & _ & Hp1 & _).
    exists f1. repeat (split; [assumption|]).
    apply (clean_nonws_del1u c ds de f outn Hgd Hnb Hdoc Hbod Hok Hb).
  - destruct Hg as [Hle Hg]. change (clean_chain (c :: c' :: cs) ds de (render ds de (doc_of f)))
      with (bind (clean c ds de (render ds de (doc_of f))) (clean_chain (c' :: cs) ds de)) in H.
    inv_bind H.
    destruct (clean_run_strict2 c ds de f v Hgd Hnb Hdoc Hbod Hok Hs2 Hb)
      as (D & f1 & -> & Hok1 & Hg1 & Hb1 & _ & Hs21 & Efl & Hp1 & Hrel).
    destruct (IH c' ds de f1 outn Hgd Hnb Hg1 Hb1 Hok1 Hs21 Hg Hk)
      as (fn & E & Hokn & Hgn & Hbn & Hs2n & Hsetn & Hpn & Hnw).
    rewrite last_cons. exists fn. repeat (split; [assumption|]).
    split; [intros p Hp; apply Hp1; apply Hpn; exact Hp|].
    rewrite Hnw, Efl, sdel_compose. apply nonws_rs_sdel_agree. intros i x Ni Wx. cbn [Nat.add].
    apply (Hrel (last cs c') (ready_le_trans c c' _ Hle (grows_ready_le cs c' Hg)) i x Ni Wx).
Qed.

(** C19, second half, for a chain of configurations, with unwrap-block elements. *)
Theorem clean_chain_composes_strict : forall cs c ds de f outn out,
  good_delims ds de -> de_nb de -> good_doc ds de (doc_of f) -> bodies_ok (doc_of f) ->
  Forall ast_ok f -> strict2 f -> grows c cs ->
  clean_chain (c :: cs) ds de (render ds de (doc_of f)) = Ok outn ->
  clean (last cs c) ds de (render ds de (doc_of f)) = Ok out ->
  nonws outn = nonws out.
Proof.
  intros cs c ds de f outn out Hgd Hnb Hdoc Hbod Hok Hs2 Hg H1 H2.
  destruct (clean_chain_strict2 cs c ds de f outn Hgd Hnb Hdoc Hbod Hok Hs2 Hg H1)
    as (fn & _ & _ & _ & _ & _ & _ & _ & Hnw).
  rewrite Hnw. symmetry.
  apply (clean_nonws_del1u (last cs c) ds de f out Hgd Hnb Hdoc Hbod Hok H2).
Qed.

(** No tag is stranded by a chain of runs: the output is the rendering of a well-formed forest
    (every tag has its partner) that is settled under the last configuration, all of whose
    elements are elements of the input, and it is a fixed point of the last configuration. *)
Theorem clean_chain_not_stranded_strict : forall cs c ds de f outn,
  good_delims ds de -> de_nb de -> good_doc ds de (doc_of f) -> bodies_ok (doc_of f) ->
  Forall ast_ok f -> strict2 f -> grows c cs ->
  clean_chain (c :: cs) ds de (render ds de (doc_of f)) = Ok outn ->
  (exists fn, outn = render ds de (doc_of fn) /\ Forall ast_ok fn /\ settled (last cs c) fn /\
     forall p, In p (ast_pairs fn) -> In p (ast_pairs f)) /\
  clean (last cs c) ds de outn = Ok outn.
Proof.
  intros cs c ds de f outn Hgd Hnb Hdoc Hbod Hok Hs2 Hg H.
  destruct (clean_chain_strict2 cs c ds de f outn Hgd Hnb Hdoc Hbod Hok Hs2 Hg H)
    as (fn & -> & Hokn & Hgn & Hbn & _ & Hsetn & Hpn & _).
  split; [exists fn; auto|]. apply clean_settled; assumption.
Qed.

(** Chains of times. *)
Corollary clean_chain_composes_strict_times : forall cfg n ns ds de f outn out,
  good_delims ds de -> de_nb de -> good_doc ds de (doc_of f) -> bodies_ok (doc_of f) ->
  Forall ast_ok f -> strict2 f -> times_grow n ns ->
  clean_chain (map (with_now cfg) (n :: ns)) ds de (render ds de (doc_of f)) = Ok outn ->
  clean (with_now cfg (last ns n)) ds de (render ds de (doc_of f)) = Ok out ->
  nonws outn = nonws out.
Proof.
  intros cfg n ns ds de f outn out Hgd Hnb Hdoc Hbod Hok Hs2 Hg H1 H2.
  apply (clean_chain_composes_strict (map (with_now cfg) ns) (with_now cfg n) ds de f outn out);
    try assumption.
  - apply grows_times. exact Hg.
  - rewrite last_map. exact H2.
Qed.

(* ------------------------------------------------------------------------- *)
(** * Part G: instances *)

(** The tree [cu_ast] of [Proofs.ComposeUnwrap]

      a
      <!tl to='2010-01-01 00:00:00' unwrap-block>
      {
        <!tl to='2000-01-01 00:00:00'>q<!/tl>
        <!tl to='2030-01-01 00:00:00'>k<!/tl>
        r
      }
      <!/tl>
      c

    with a chain of three times: 1000000000 (2001: the inner element of 2000 goes), 1300000000
    (2011: the unwrap-block is unwrapped), 1900000000 (2030-03: the element of 2030 goes). *)
Definition cu_times : list Z := [1000000000; 1300000000; 1900000000]%Z.

(** Step by step: "a\nr\nc". *)
Definition cu_chain_out : str := [97; 10; 114; 10; 99]%N.
(** The single run at the last time leaves an empty line more: "a\n\nr\nc". *)
Definition cu_last_out : str := [97; 10; 10; 114; 10; 99]%N.

Example cu_chain : clean_chain (map (with_now ac_cfg) cu_times) id_ds id_de cu_src = Ok cu_chain_out.
Proof. vm_compute. reflexivity. Qed.

Example cu_last : clean (with_now ac_cfg 1900000000%Z) id_ds id_de cu_src = Ok cu_last_out.
Proof. vm_compute. reflexivity. Qed.

Example cu_chain_differ : cu_chain_out <> cu_last_out.
Proof. discriminate. Qed.

Example cu_chain_computed : nonws cu_chain_out = [97; 114; 99]%N /\ nonws cu_last_out = [97; 114; 99]%N.
Proof. split; vm_compute; reflexivity. Qed.

(** By the theorem. *)
Example cu_chain_composes : nonws cu_chain_out = nonws cu_last_out.
Proof.
  apply (clean_chain_composes_strict_times ac_cfg 1000000000%Z [1300000000; 1900000000]%Z id_ds id_de
           cu_ast cu_chain_out cu_last_out id_delims ux_de_nb (proj1 cu_good) (proj2 cu_good) cu_ok cu_strict2).
  - cbn [times_grow]. repeat split; discriminate.
  - exact cu_chain.
  - exact cu_last.
Qed.

(** Nothing is stranded: the output of the chain is the rendering of a settled forest and a fixed
    point of the last configuration. *)
Example cu_chain_not_stranded :
  (exists fn, cu_chain_out = render id_ds id_de (doc_of fn) /\ Forall ast_ok fn /\
     settled (with_now ac_cfg 1900000000%Z) fn /\
     forall p, In p (ast_pairs fn) -> In p (ast_pairs cu_ast)) /\
  clean (with_now ac_cfg 1900000000%Z) id_ds id_de cu_chain_out = Ok cu_chain_out.
Proof.
  apply (clean_chain_not_stranded_strict (map (with_now ac_cfg) [1300000000; 1900000000]%Z)
           (with_now ac_cfg 1000000000%Z) id_ds id_de cu_ast cu_chain_out
           id_delims ux_de_nb (proj1 cu_good) (proj2 cu_good) cu_ok cu_strict2).
  - apply grows_times. cbn [times_grow]. repeat split; discriminate.
  - exact cu_chain.
Qed.

(** Two steps on [cu_ast], as a statement about trees. *)
Example cu_not_stranded :
  (exists f12, cu_out12 = render id_ds id_de (doc_of f12) /\ Forall ast_ok f12 /\ settled cc_cfg2 f12 /\
     forall p, In p (ast_pairs f12) -> In p (ast_pairs cu_ast)) /\
  clean cc_cfg2 id_ds id_de cu_out12 = Ok cu_out12.
Proof.
  apply (clean_steps_not_stranded_strict cc_cfg1 cc_cfg2 id_ds id_de cu_ast cu_out1 cu_out12
           id_delims ux_de_nb (proj1 cu_good) (proj2 cu_good) cu_ok cu_strict2 cc_grows
           cu_first cu_second).
Qed.

(** A tree where the first run takes the line break in front of the closing wrapper line: the
    last element in front of the last wrapper text is ready at the first time.

      a
      <!tl to='2010-01-01 00:00:00' unwrap-block>
      {
        <!tl to='2030-01-01 00:00:00'>k<!/tl>
        <!tl to='2000-01-01 00:00:00'>q<!/tl>
      }
      <!/tl>
      c                                                                                    *)
Definition cv_ast : list ast :=
  [ AT [97; 10]%N;
    AE b_tl_2010_ub b_tl_close
       [ AT [10; 123; 10; 32; 32]%N;
         AE b_tl_pending b_tl_close [ AT [107%N] ];
         AT [10; 32; 32]%N;
         AE b_tl_ready b_tl_close [ AT [113%N] ];
         AT [10; 125; 10]%N ];
    AT [10; 99]%N ].
Definition cv_src : str := render id_ds id_de (doc_of cv_ast).

(** After the first run the last child of the unwrap-block is the text "\n}\n" again, but its first
    line break is the one of the text in front of the removed element. *)
Definition cv_out1 : str :=
  ([97; 10; 60; 33] ++ b_tl_2010_ub ++ [62; 10; 123; 10; 32; 32; 60; 33] ++ b_tl_pending ++
   [62; 107; 60; 33; 47; 116; 108; 62; 10; 125; 10; 60; 33; 47; 116; 108; 62; 10; 99])%N.
Definition cv_chain_out : str := [97; 10; 99]%N.
Definition cv_last_out : str := [97; 10; 10; 99]%N.

Example cv_ok : Forall ast_ok cv_ast.
Proof.
  apply Forall_forall. intros a Ha. apply ast_okb_sound.
  assert (forallb ast_okb cv_ast = true) as H by (vm_compute; reflexivity).
  rewrite forallb_forall in H. apply H. exact Ha.
Qed.

Example cv_strict2 : strict2 cv_ast.
Proof. apply strict2b_sound. vm_compute. reflexivity. Qed.

Example cv_good : good_doc id_ds id_de (doc_of cv_ast) /\ bodies_ok (doc_of cv_ast).
Proof.
  split.
  - apply doc_checkb_ok; [cbn; repeat split; discriminate | vm_compute; reflexivity].
  - intros b Hin. cbn in Hin.
    repeat (destruct Hin as [E|Hin]; [try discriminate E; inversion E; subst; cbn; lia|]).
    destruct Hin.
Qed.

Example cv_first : clean cc_cfg1 id_ds id_de cv_src = Ok cv_out1.
Proof. vm_compute. reflexivity. Qed.

Example cv_chain : clean_chain (map (with_now ac_cfg) cu_times) id_ds id_de cv_src = Ok cv_chain_out.
Proof. vm_compute. reflexivity. Qed.

Example cv_last : clean (with_now ac_cfg 1900000000%Z) id_ds id_de cv_src = Ok cv_last_out.
Proof. vm_compute. reflexivity. Qed.

Example cv_chain_composes : nonws cv_chain_out = nonws cv_last_out.
Proof.
  apply (clean_chain_composes_strict_times ac_cfg 1000000000%Z [1300000000; 1900000000]%Z id_ds id_de
           cv_ast cv_chain_out cv_last_out id_delims ux_de_nb (proj1 cv_good) (proj2 cv_good) cv_ok cv_strict2).
  - cbn [times_grow]. repeat split; discriminate.
  - exact cv_chain.
  - exact cv_last.
Qed.

(** The abstract properties [run_facts] of [Proofs.ComposeUnwrap] alone do not preserve the
    domain: they say nothing about deleted blanks.  For the pending unwrap-block with the one
    blank as its text,

      <!tl to='2010-01-01 00:00:00' unwrap-block> <!/tl>

    the mask that deletes this blank has the properties [run_facts] at the first time, and the
    masked tree has an unwrap-block element without children, which is not in [strict] (no run
    produces this mask: [blank_fact]). *)
Definition cw_ast : list ast := [ AE b_tl_2010_ub b_tl_close [ AT [32%N] ] ].
Definition cw_D (i : nat) : bool := i =? 42.

Example cw_strict2 : strict2 cw_ast.
Proof. apply strict2b_sound. vm_compute. reflexivity. Qed.

Example cw_flat : flat (doc_of cw_ast) =
  DS :: map B b_tl_2010_ub ++ [DE; B 32%N; DS] ++ map B b_tl_close ++ [DE].
Proof. vm_compute. reflexivity. Qed.

Lemma cw_del1u i : del1u cc_cfg1 cw_ast i = false.
Proof.
  destruct (del1u cc_cfg1 cw_ast i) eqn:E; [exfalso | reflexivity].
  apply del1u_spec in E. destruct E as (n & rr & Hn & Er & _).
  assert (forallb (fun n => match node_rr cc_cfg1 (doc_of cw_ast) n with None => true | Some _ => false end)
                  (ast_nodes 0 cw_ast) = true) as K by (vm_compute; reflexivity).
  rewrite forallb_forall in K. specialize (K n Hn). rewrite Er in K. discriminate K.
Qed.

Lemma cw_D_true i : cw_D i = true -> i = 42.
Proof. unfold cw_D. intros H. apply Nat.eqb_eq in H. exact H. Qed.

Example cw_run_facts : run_facts cc_cfg1 cw_ast cw_D.
Proof.
  unfold run_facts. split; [|split; [|split; [|split; [|split]]]].
  - apply pair_respectingb_sound. vm_compute. reflexivity.
  - intros it b Hit. destruct it as [|[|[|it]]]; vm_compute in Hit; try discriminate Hit.
    + vm_compute. reflexivity.
    + vm_compute. reflexivity.
    + destruct it; discriminate Hit.
  - intros i Hi. rewrite cw_del1u in Hi. discriminate Hi.
  - intros i x Hd _ Hn. apply cw_D_true in Hd. subst i. vm_compute in Hn. inversion Hn. reflexivity.
  - intros j k x _ _ _ _ _ Nk _. destruct (cw_D k) eqn:Dk; [|reflexivity].
    apply cw_D_true in Dk. subst k. vm_compute in Nk. discriminate Nk.
  - intros x Hd _ Nx. apply cw_D_true in Hd. subst x. vm_compute in Nx. discriminate Nx.
Qed.

Example cw_masked : ast_norm (ast_mask cw_D 0 cw_ast) = [ AE b_tl_2010_ub b_tl_close [] ].
Proof. vm_compute. reflexivity. Qed.

Example cw_not_strict : ~ strict (ast_norm (ast_mask cw_D 0 cw_ast)).
Proof.
  rewrite cw_masked. intros H. inversion H as [|x l H1 _]; subst. apply strict1_AE in H1.
  destruct H1 as (_ & _ & HW & _).
  destruct (HW ltac:(vm_compute; reflexivity)) as [(t & E)|(t1 & mid & t2 & E & _)]; discriminate E.
Qed.

Print Assumptions clean_run_mask3.
Print Assumptions norm_first.
Print Assumptions norm_last.
Print Assumptions wrapF_kids.
Print Assumptions strictF_norm.
Print Assumptions two_wrap_positions.
Print Assumptions wrap_flat_node.
Print Assumptions strict2_run.
Print Assumptions strict_run.
Print Assumptions clean_run_strict2.
Print Assumptions clean_two_runs_settled.
Print Assumptions clean_steps_not_stranded_strict.
Print Assumptions clean_chain_strict2.
Print Assumptions clean_chain_composes_strict.
Print Assumptions clean_chain_not_stranded_strict.
Print Assumptions clean_chain_composes_strict_times.
Print Assumptions cu_chain.
Print Assumptions cu_last.
Print Assumptions cu_chain_composes.
Print Assumptions cu_chain_not_stranded.
Print Assumptions cu_not_stranded.
Print Assumptions cv_strict2.
Print Assumptions cv_first.
Print Assumptions cv_chain.
Print Assumptions cv_last.
Print Assumptions cv_chain_composes.
Print Assumptions cw_run_facts.
Print Assumptions cw_not_strict.
