(** C18, towards "the behaviour does not depend on the spelling of tag names", continued: the parts
    of the whitespace stage that [unwrap-block] elements use, on two documents of the same shape.

    [Proofs.SimBody] covers the scanners that pause at a tag.  The functions here walk through
    tags -- the line-break finders without pause, the block dedenter, the unwrap builder -- but
    they only look for line breaks and for the first non-blank symbol of a line.  They commute
    with the translation [tr d1 d2] of outer positions as soon as no tag body of either document
    contains a line break ([nonl]).

    Part A: an abstract simulation [sim2 l1 l2 f O] ([sim] of SimBody plus: a tag is a stretch
            without line breaks on both sides, whose end is in [O]); finders without pause,
            [a_next_char], [a_get_indent_len], [a_ub_end], [a_ub_start], [a_unwrap],
            [a_block_loop], [a_block_indent].
    Part B: the range-list functions ([insert_sorted], [sort_ranges], [seek], [merge_ranges]) for
            maps that are strictly monotone on a set containing all end points; the whole
            whitespace stage with pairs ([a_format_ranges]).
    Part C: documents: [nonl], [sim2 (flat d1) (flat d2) (tr d1 d2) (outer d1)], additivity of
            [tr] inside a text, and the theorems for two documents of the same shape.
    Part D: deleting ([nonl] is preserved by [doc_mask]).
    Part E: an instance. *)
From Coq Require Import List NArith ZArith Arith Bool Lia PeanoNat.
Import ListNotations.
From Chiri Require Import Base.Bytes Base.Res Model.Tokenizer Model.TagParser Model.TreeParser
     Model.Finders Model.Markers Model.Format Model.Clean
     Spec.Ranges Spec.Rename
     Proofs.ResLemmas Proofs.RangeProofs Proofs.SimFlat Proofs.SimStrings Proofs.SimFront
     Proofs.MonoMap Proofs.SimClean Proofs.DocMask Proofs.Idempotent Proofs.SimBody.

(* ------------------------------------------------------------------------- *)
(** * Part A: the abstract simulation through tags *)

(** A stretch [a, b) of [l] inside the list without a line-break symbol. *)
Definition nonl_run (l : list sym) (a b : nat) : Prop :=
  b <= length l /\ forall i, a <= i -> i < b -> nth_error l i <> Some (B NL).

(** [sim] plus: a start delimiter in [O] begins a stretch without line breaks, on both sides,
    whose end is in [O] (the tag); symmetrically backwards from a position of [O] that follows
    an end delimiter; no other delimiters are seen from [O]; the end of the list is in [O]. *)
Record sim2 (l1 l2 : list sym) (f : nat -> nat) (O : nat -> Prop) : Prop := {
  sim2_sim : sim l1 l2 f O;
  sim2_end : O (length l1) /\ f (length l1) = length l2;
  sim2_fwd : forall j, O j -> nth_error l1 j = Some DS ->
    exists n1 n2, 0 < n1 /\ O (j + n1) /\ f (j + n1) = f j + n2 /\
                  nonl_run l1 j (j + n1) /\ nonl_run l2 (f j) (f j + n2);
  sim2_DE : forall j, O j -> nth_error l1 j <> Some DE;
  sim2_bwd : forall j, O (S j) -> nth_error l1 j = Some DE ->
    exists p n1 n2, 0 < n1 /\ S j = p + n1 /\ O p /\ f (S j) = f p + n2 /\
                    nonl_run l1 p (p + n1) /\ nonl_run l2 (f p) (f p + n2);
  sim2_DS : forall j, O (S j) -> nth_error l1 j <> Some DS
}.

Lemma sim_eqb l1 l2 f O : sim l1 l2 f O -> forall a b, O a -> O b -> (f a =? f b) = (a =? b).
Proof.
  intros Sm a b Ha Hb. destruct (Nat.eqb_spec a b) as [->|N]; [apply Nat.eqb_refl|].
  apply Nat.eqb_neq. destruct (Nat.lt_ge_cases a b) as [L|L].
  - pose proof (sim_mono _ _ _ _ Sm a b Ha Hb L). lia.
  - pose proof (sim_mono _ _ _ _ Sm b a Hb Ha ltac:(lia)). lia.
Qed.

Lemma sim_f_le l1 l2 f O : sim2 l1 l2 f O -> forall j, O j -> f j <= length l2.
Proof.
  intros S2 j Hj. pose proof (sim2_sim _ _ _ _ S2) as Sm.
  pose proof (sim_le _ _ _ _ Sm j Hj) as Hle. destruct (sim2_end _ _ _ _ S2) as [He1 He2].
  destruct (Nat.eq_dec j (length l1)) as [->|N]; [lia|].
  pose proof (sim_mono _ _ _ _ Sm j (length l1) Hj He1 ltac:(lia)). lia.
Qed.

Lemma sim_f_pos l1 l2 f O : sim l1 l2 f O -> forall j, O j -> (f j =? 0) = (j =? 0).
Proof.
  intros Sm j Hj. rewrite <- (sim_f0 _ _ _ _ Sm) at 1.
  apply (sim_eqb _ _ _ _ Sm); [exact Hj | apply (sim_O0 _ _ _ _ Sm)].
Qed.

(** ** Skipping a stretch without line breaks (no pause) *)

Lemma next_lb_skip l : forall n a, nonl_run l a (a + n) ->
  a_next_lb l a false = a_next_lb l (a + n) false.
Proof.
  induction n as [|n IH]; intros a [Hl H]; [rewrite Nat.add_0_r; reflexivity|].
  rewrite a_next_lb_unfold.
  assert (a_next_lb l (S a) false = a_next_lb l (a + S n) false) as E.
  { replace (a + S n) with (S a + n) by lia. apply IH. split; [lia|]. intros i H1 H2. apply H; lia. }
  destruct (nth_error l a) as [[c| |]|] eqn:N.
  - destruct (clb c) eqn:C; try exact E.
    apply clb_found in C. subst c. exfalso. apply (H a); [lia | lia | exact N].
  - exact E.
  - exact E.
  - apply nth_error_None in N. lia.
Qed.

Lemma prev_lb_skip l p : forall n, nonl_run l p (p + n) ->
  a_prev_lb l (p + n) false = a_prev_lb l p false.
Proof.
  induction n as [|n IH]; intros [Hl H]; [rewrite Nat.add_0_r; reflexivity|].
  replace (p + S n) with (S (p + n)) by lia. cbn [a_prev_lb].
  assert (a_prev_lb l (p + n) false = a_prev_lb l p false) as E.
  { apply IH. split; [lia|]. intros i H1 H2. apply H; lia. }
  destruct (nth_error l (p + n)) as [[c| |]|] eqn:N.
  - destruct (clb c) eqn:C; try exact E.
    apply clb_found in C. subst c. exfalso. apply (H (p + n)); [lia | lia | exact N].
  - exact E.
  - exact E.
  - apply nth_error_None in N. lia.
Qed.

(** ** 1. The line-break finders without pause *)

Lemma sim2_next_lb_n l1 l2 f O : sim2 l1 l2 f O -> forall n j, length l1 - j <= n -> O j ->
  a_next_lb l2 (f j) false = option_map f (a_next_lb l1 j false).
Proof.
  intros S2. pose proof (sim2_sim _ _ _ _ S2) as Sm.
  induction n as [|n IH]; intros j Hn Hj.
  - rewrite (a_next_lb_unfold l2), (a_next_lb_unfold l1), (sim_nth _ _ _ _ Sm j Hj).
    destruct (nth_error l1 j) as [x|] eqn:N; [|reflexivity].
    apply nth_lt_len in N. lia.
  - destruct (nth_error l1 j) as [[c| |]|] eqn:N.
    + rewrite (a_next_lb_unfold l2), (a_next_lb_unfold l1), (sim_nth _ _ _ _ Sm j Hj), N.
      destruct (sim_fwd _ _ _ _ Sm j c Hj N) as [HO HS].
      pose proof (nth_lt_len _ _ _ N) as Hlt.
      destruct (clb c); [| reflexivity |]; rewrite <- HS; apply IH; try lia; exact HO.
    + destruct (sim2_fwd _ _ _ _ S2 j Hj N) as (n1 & n2 & Hn1 & HO & HF & R1 & R2).
      rewrite (next_lb_skip l1 n1 j R1), (next_lb_skip l2 n2 (f j) R2), <- HF.
      apply IH; [lia | exact HO].
    + exfalso. apply (sim2_DE _ _ _ _ S2 j Hj N).
    + rewrite (a_next_lb_unfold l2), (a_next_lb_unfold l1), (sim_nth _ _ _ _ Sm j Hj), N. reflexivity.
Qed.

Lemma sim2_next_lb_O_n l1 l2 f O : sim2 l1 l2 f O -> forall n j p, length l1 - j <= n -> O j ->
  a_next_lb l1 j false = Some p -> O p.
Proof.
  intros S2. pose proof (sim2_sim _ _ _ _ S2) as Sm.
  induction n as [|n IH]; intros j p Hn Hj H.
  - apply a_next_lb_some in H. lia.
  - destruct (nth_error l1 j) as [[c| |]|] eqn:N.
    + rewrite a_next_lb_unfold, N in H.
      destruct (sim_fwd _ _ _ _ Sm j c Hj N) as [HO HS].
      pose proof (nth_lt_len _ _ _ N) as Hlt.
      destruct (clb c).
      * apply (IH (S j) p); [lia | exact HO | exact H].
      * inversion H; subst p. exact Hj.
      * apply (IH (S j) p); [lia | exact HO | exact H].
    + destruct (sim2_fwd _ _ _ _ S2 j Hj N) as (n1 & n2 & Hn1 & HO & HF & R1 & R2).
      rewrite (next_lb_skip l1 n1 j R1) in H. apply (IH (j + n1) p); [lia | exact HO | exact H].
    + exfalso. apply (sim2_DE _ _ _ _ S2 j Hj N).
    + rewrite a_next_lb_unfold, N in H. discriminate H.
Qed.

(** The finder forwards: the result at the translated position is the translated result; the
    result is in [O], it is a line-break symbol, and so is the position behind it, which is
    translated to the position behind the translated result. *)
Theorem sim2_next_lb l1 l2 f O j : sim2 l1 l2 f O -> O j ->
  a_next_lb l2 (f j) false = option_map f (a_next_lb l1 j false) /\
  (forall p, a_next_lb l1 j false = Some p ->
     j <= p /\ O p /\ nth_error l1 p = Some (B NL) /\ O (S p) /\ f (S p) = S (f p)).
Proof.
  intros S2 Hj. split; [apply (sim2_next_lb_n l1 l2 f O S2 (length l1 - j)); [lia | exact Hj]|].
  intros p H. pose proof (sim2_next_lb_O_n l1 l2 f O S2 (length l1 - j) j p (le_n _) Hj H) as Hp.
  apply a_next_lb_some in H. destruct H as (H1 & _ & H3 & _).
  destruct (sim_fwd _ _ _ _ (sim2_sim _ _ _ _ S2) p NL Hp H3) as [HO HS].
  repeat split; assumption.
Qed.

Lemma sim2_prev_lb_n l1 l2 f O : sim2 l1 l2 f O -> forall n j, j <= n -> O j ->
  a_prev_lb l2 (f j) false = option_map f (a_prev_lb l1 j false) /\
  (forall p, a_prev_lb l1 j false = Some p -> O p).
Proof.
  intros S2. pose proof (sim2_sim _ _ _ _ S2) as Sm.
  induction n as [|n IH]; intros j Hn Hj.
  - assert (j = 0) as -> by lia. rewrite (sim_f0 _ _ _ _ Sm).
    split; [reflexivity | intros p H; discriminate H].
  - destruct j as [|j]; [rewrite (sim_f0 _ _ _ _ Sm); split; [reflexivity | intros p H; discriminate H]|].
    destruct (nth_error l1 j) as [[c| |]|] eqn:N.
    + destruct (sim_pred _ _ _ _ Sm j Hj) as (q & Eq & Nq).
      destruct (sim_bwd _ _ _ _ Sm j c Hj N) as [HO HS].
      assert (q = f j) as -> by lia. rewrite HS. cbn [a_prev_lb]. rewrite Nq, N.
      destruct (IH j ltac:(lia) HO) as [E1 E2].
      destruct (clb c); [exact (conj E1 E2) | | exact (conj E1 E2)].
      split; [reflexivity | intros p H; inversion H; subst p; exact HO].
    + exfalso. apply (sim2_DS _ _ _ _ S2 j Hj N).
    + destruct (sim2_bwd _ _ _ _ S2 j Hj N) as (p & n1 & n2 & Hn1 & Ep & HO & HF & R1 & R2).
      rewrite HF, Ep, (prev_lb_skip l1 p n1 R1), (prev_lb_skip l2 (f p) n2 R2).
      apply IH; [lia | exact HO].
    + apply nth_error_None in N. pose proof (sim_le _ _ _ _ Sm (S j) Hj). lia.
Qed.

(** The finder backwards. *)
Theorem sim2_prev_lb l1 l2 f O j : sim2 l1 l2 f O -> O j ->
  a_prev_lb l2 (f j) false = option_map f (a_prev_lb l1 j false) /\
  (forall p, a_prev_lb l1 j false = Some p ->
     p < j /\ O p /\ nth_error l1 p = Some (B NL) /\ O (S p) /\ f (S p) = S (f p)).
Proof.
  intros S2 Hj. destruct (sim2_prev_lb_n l1 l2 f O S2 j j (le_n _) Hj) as [E HO].
  split; [exact E|]. intros p H. pose proof (HO p H) as Hp.
  apply a_prev_lb_some in H. destruct H as (H1 & H2 & _).
  destruct (sim_fwd _ _ _ _ (sim2_sim _ _ _ _ S2) p NL Hp H2) as [HO' HS].
  repeat split; assumption.
Qed.

(** ** [a_next_char]: blanks are skipped, anything else stops the scan ([sim] is enough) *)

Definition a_nch (l : list sym) (j : nat) : option nat := nch_f (length l - j) l j.

Lemma a_nch_unfold l j : a_nch l j =
  match nth_error l j with
  | None => None
  | Some (B c) => match cch c with CSkip => a_nch l (S j) | _ => Some j end
  | Some _ => Some j
  end.
Proof.
  unfold a_nch. destruct (nth_error l j) as [x|] eqn:N.
  - pose proof (nth_lt_len _ _ _ N) as H.
    replace (length l - j) with (S (length l - S j)) by lia.
    cbn [nch_f]. rewrite N. reflexivity.
  - destruct (length l - j); cbn [nch_f]; [reflexivity | rewrite N; reflexivity].
Qed.

Lemma sim_nch_n l1 l2 f O : sim l1 l2 f O -> forall n j, length l1 - j <= n -> O j ->
  a_nch l2 (f j) = option_map f (a_nch l1 j) /\ (forall e, a_nch l1 j = Some e -> O e).
Proof.
  intros Sm. induction n as [|n IH]; intros j Hn Hj;
    rewrite (a_nch_unfold l2), (a_nch_unfold l1), (sim_nth _ _ _ _ Sm j Hj);
    (destruct (nth_error l1 j) as [[c| |]|] eqn:N;
     [ | split; [reflexivity | intros e H; inversion H; subst e; exact Hj]
       | split; [reflexivity | intros e H; inversion H; subst e; exact Hj]
       | split; [reflexivity | intros e H; discriminate H] ]);
    destruct (sim_fwd _ _ _ _ Sm j c Hj N) as [HO HS];
    pose proof (nth_lt_len _ _ _ N) as Hlt;
    (destruct (cch c);
     [ | split; [reflexivity | intros e H; inversion H; subst e; exact Hj]
       | split; [reflexivity | intros e H; inversion H; subst e; exact Hj] ]).
  - lia.
  - rewrite <- HS. apply IH; [lia | exact HO].
Qed.

Theorem sim_next_char l1 l2 f O j : sim l1 l2 f O -> O j ->
  a_next_char l2 (f j) = option_map f (a_next_char l1 j) /\
  (forall e, a_next_char l1 j = Some e -> j <= e /\ O e /\ brun l1 j e).
Proof.
  intros Sm Hj. unfold a_next_char. rewrite (sim_f_pos _ _ _ _ Sm j Hj).
  destruct (j =? 0) eqn:E0; [split; [reflexivity | intros e H; discriminate H]|].
  destruct (sim_nch_n l1 l2 f O Sm (length l1 - j) j (le_n _) Hj) as [E HO].
  split; [exact E|]. intros e H. pose proof (HO e H) as He.
  apply nch_f_some in H. destruct H as (H1 & _ & H3). repeat split; assumption.
Qed.

(** ** [a_get_indent_len]: a difference of two positions in one run of byte symbols *)

Theorem sim2_get_indent_len l1 l2 f O j : sim2 l1 l2 f O -> O j ->
  a_get_indent_len l2 (f j) = a_get_indent_len l1 j.
Proof.
  intros S2 Hj. pose proof (sim2_sim _ _ _ _ S2) as Sm. unfold a_get_indent_len.
  destruct (sim2_prev_lb l1 l2 f O j S2 Hj) as [E HO]. rewrite E.
  destruct (a_prev_lb l1 j false) as [p|]; cbn [option_map]; [|reflexivity].
  destruct (HO p eq_refl) as (_ & Hp & Np & HSp & ES). rewrite <- ES.
  destruct (sim_next_char l1 l2 f O (S p) Sm HSp) as [E' HO']. rewrite E'.
  destruct (a_next_char l1 (S p)) as [e|]; cbn [option_map]; [|reflexivity].
  destruct (HO' e eq_refl) as (Hle & He & Hrun).
  assert (brun l1 p (p + (e - p))) as Hr.
  { replace (p + (e - p)) with e by lia. apply brun_cons; [exists NL; exact Np | exact Hrun]. }
  destruct (sim_run_fwd _ _ _ _ Sm (e - p) p Hp Hr) as [_ HF].
  replace (p + (e - p)) with e in HF by lia. lia.
Qed.

(** ** 2. The unwrap builder *)

Theorem sim2_ub_end l1 l2 f O j : sim2 l1 l2 f O -> O j ->
  a_ub_end l2 (f j) = option_map f (a_ub_end l1 j) /\
  (forall e, a_ub_end l1 j = Some e -> O e /\ nth_error l1 e = Some (B NL)).
Proof.
  intros S2 Hj. unfold a_ub_end.
  destruct (sim2_next_lb l1 l2 f O j S2 Hj) as [E HO]. rewrite E.
  destruct (a_next_lb l1 j false) as [p|]; cbn [option_map];
    [|split; [reflexivity | intros e H; discriminate H]].
  destruct (HO p eq_refl) as (_ & _ & _ & HSp & ES). rewrite <- ES.
  destruct (sim2_next_lb l1 l2 f O (S p) S2 HSp) as [E' HO'].
  split; [exact E'|]. intros e H. destruct (HO' e H) as (_ & He & Ne & _). split; assumption.
Qed.

Theorem sim2_ub_start l1 l2 f O j : sim2 l1 l2 f O -> O j ->
  a_ub_start l2 (f j) = option_map f (a_ub_start l1 j) /\
  (forall s, a_ub_start l1 j = Some s ->
     O s /\ nth_error l1 s = Some (B NL) /\ O (S s) /\ f (S s) = S (f s)).
Proof.
  intros S2 Hj. unfold a_ub_start.
  destruct (sim2_prev_lb l1 l2 f O j S2 Hj) as [E HO]. rewrite E.
  destruct (a_prev_lb l1 j false) as [p|]; cbn [option_map];
    [|split; [reflexivity | intros e H; discriminate H]].
  destruct (HO p eq_refl) as (_ & Hp & _).
  destruct (sim2_prev_lb l1 l2 f O p S2 Hp) as [E' HO'].
  split; [exact E'|]. intros s H. destruct (HO' s H) as (_ & Hs & Ns & HSs & ES).
  repeat split; assumption.
Qed.

(** All positions of a removable range are in [O]. *)
Definition rr_on (O : nat -> Prop) (r : removable_range) : Prop :=
  range_on O (fst r) /\ match snd r with Some c => range_on O c | None => True end.

Theorem sim2_unwrap l1 l2 f O sb se eb ee : sim2 l1 l2 f O -> O sb -> O se -> O eb -> O ee ->
  a_unwrap l2 (f sb) (f se) (f eb) (f ee) = map_rr f (a_unwrap l1 sb se eb ee) /\
  rr_on O (a_unwrap l1 sb se eb ee).
Proof.
  intros S2 Hsb Hse Heb Hee. pose proof (sim2_sim _ _ _ _ S2) as Sm. unfold a_unwrap.
  destruct (sim2_ub_end l1 l2 f O se S2 Hse) as [E1 HO1].
  destruct (sim2_ub_start l1 l2 f O eb S2 Heb) as [E2 HO2]. rewrite E1, E2.
  destruct (a_ub_end l1 se) as [e|]; cbn [option_map];
    [|split; [reflexivity | split; [split; exact Hsb | exact I]]].
  destruct (a_ub_start l1 eb) as [s|]; cbn [option_map];
    [|split; [reflexivity | split; [split; exact Hsb | exact I]]].
  destruct (HO1 e eq_refl) as [He _]. destruct (HO2 s eq_refl) as (Hs & _ & HSs & ES).
  rewrite (sim_ltb _ _ _ _ Sm e s He Hs), (sim_eqb _ _ _ _ Sm s e Hs He).
  destruct (e <? s).
  - unfold map_rr, map_range. cbn [fst snd option_map]. rewrite ES.
    split; [reflexivity|]. split; cbn [fst snd]; split; assumption.
  - destruct (s =? e).
    + split; [reflexivity|]. split; [split; assumption | exact I].
    + split; [reflexivity|]. split; [split; assumption | exact I].
Qed.

(** ** 4. The block dedenter *)

(** Inside a run of byte symbols that starts in [O], [f] is additive. *)
Lemma sim_run_at l1 l2 f O : sim l1 l2 f O -> forall c ip x, O c -> brun l1 c ip ->
  c <= x -> x <= ip -> O x /\ f x = f c + (x - c).
Proof.
  intros Sm c ip x Hc Hr H1 H2.
  assert (brun l1 c (c + (x - c))) as Hr' by (apply (brun_sub l1 c ip); [exact Hr | lia | lia]).
  destruct (sim_run_fwd _ _ _ _ Sm (x - c) c Hc Hr') as [HO HF].
  replace (c + (x - c)) with x in * by lia. split; assumption.
Qed.

Lemma sim_min_run l1 l2 f O : sim l1 l2 f O -> forall c ip n, O c -> brun l1 c ip -> c <= ip ->
  Nat.min (f c + n) (f ip) = f (Nat.min (c + n) ip) /\ O (Nat.min (c + n) ip) /\
  c <= Nat.min (c + n) ip /\ Nat.min (c + n) ip <= ip.
Proof.
  intros Sm c ip n Hc Hr Hle.
  destruct (sim_run_at _ _ _ _ Sm c ip ip Hc Hr Hle (le_n _)) as [Hip Fip].
  destruct (sim_run_at _ _ _ _ Sm c ip (Nat.min (c + n) ip) Hc Hr ltac:(lia) ltac:(lia)) as [Hm Fm].
  split; [|split; [exact Hm | lia]]. rewrite Fm, Fip. lia.
Qed.

Theorem sim2_block_loop l1 l2 f O ofs len e : sim2 l1 l2 f O -> O e ->
  forall fuel c aps, O c -> ranges_on O aps ->
  a_block_loop fuel l2 (f e) (f c) ofs len (map (map_range f) aps) =
  map (map_range f) (a_block_loop fuel l1 e c ofs len aps) /\
  ranges_on O (a_block_loop fuel l1 e c ofs len aps).
Proof.
  intros S2 He. pose proof (sim2_sim _ _ _ _ S2) as Sm.
  induction fuel as [|fu IH]; intros c aps Hc Haps; [split; [reflexivity | exact Haps]|].
  cbn [a_block_loop]. cbv zeta.
  rewrite (sim_ltb _ _ _ _ Sm c e Hc He). destruct (c <? e); [|split; [reflexivity | exact Haps]].
  destruct (sim2_next_lb l1 l2 f O c S2 Hc) as [E HO]. rewrite E.
  destruct (a_next_lb l1 c false) as [lb|]; cbn [option_map]; [|split; [reflexivity | exact Haps]].
  destruct (HO lb eq_refl) as (_ & _ & _ & HSlb & ES). rewrite <- ES.
  rewrite (sim_ltb _ _ _ _ Sm e (S lb) He HSlb).
  destruct (e <? S lb); [split; [reflexivity | exact Haps]|].
  destruct (sim_next_char l1 l2 f O c Sm Hc) as [E' HO']. rewrite E'.
  destruct (a_next_char l1 c) as [ip|]; cbn [option_map]; [|apply IH; assumption].
  destruct (HO' ip eq_refl) as (Hle & Hip & Hrun).
  destruct (sim_min_run _ _ _ _ Sm c ip ofs Hc Hrun Hle) as (Ea & Ha & La1 & La2). rewrite Ea.
  set (a' := Nat.min (c + ofs) ip) in *.
  assert (brun l1 a' ip) as Hrun' by (apply (brun_sub l1 c ip); [exact Hrun | lia | lia]).
  destruct (sim_min_run _ _ _ _ Sm a' ip len Ha Hrun' La2) as (Eb & Hb & _). rewrite Eb.
  set (b' := Nat.min (a' + len) ip) in *.
  rewrite (sim_eqb _ _ _ _ Sm a' b' Ha Hb).
  destruct (a' =? b'); [apply IH; assumption|].
  change [(f a', f b')] with (map (map_range f) [(a', b')]). rewrite <- map_app.
  apply IH; [exact HSlb|]. intros r Hin. apply in_app_or in Hin.
  destruct Hin as [Hin|[<-|[]]]; [apply Haps; exact Hin | split; assumption].
Qed.

Theorem sim2_block_indent l1 l2 f O a b : sim2 l1 l2 f O -> O a -> O b ->
  a_block_indent l2 (f a) (f b) = map (map_range f) (a_block_indent l1 a b) /\
  ranges_on O (a_block_indent l1 a b).
Proof.
  intros S2 Ha Hb. pose proof (sim2_sim _ _ _ _ S2) as Sm. unfold a_block_indent. cbv zeta.
  (* the offset *)
  assert (match a_prev_lb l2 (f a) true with
          | Some p => f a - p - 1
          | None => if a_all_blank_before l2 (f a) then f a else 0
          end =
          match a_prev_lb l1 a true with
          | Some p => a - p - 1
          | None => if a_all_blank_before l1 a then a else 0
          end) as Eofs.
  { rewrite (sim_prev_lb _ _ _ _ Sm a Ha), (sim_all_blank_before _ _ _ _ Sm a Ha).
    destruct (a_prev_lb l1 a true) as [p|] eqn:F; cbn [option_map].
    - destruct (sim_prev_lb_O _ _ _ _ a p Sm Ha F) as (Hp & _ & Lp).
      apply a_prev_lb_some in F. destruct F as (_ & _ & F3).
      destruct (sim_run_at _ _ _ _ Sm p a a Hp (F3 eq_refl) ltac:(lia) (le_n _)) as [_ Fa]. lia.
    - destruct (a_all_blank_before l1 a) eqn:AB; [|reflexivity].
      pose proof (a_all_blank_before_brun l1 a AB (sim_le _ _ _ _ Sm a Ha)) as Hr.
      destruct (sim_run_at _ _ _ _ Sm 0 a a (sim_O0 _ _ _ _ Sm) Hr ltac:(lia) (le_n _)) as [_ Fa].
      rewrite (sim_f0 _ _ _ _ Sm) in Fa. lia. }
  rewrite Eofs. clear Eofs.
  set (ofs := match a_prev_lb l1 a true with
              | Some p => a - p - 1
              | None => if a_all_blank_before l1 a then a else 0
              end).
  (* the first line start *)
  set (c := match a_next_lb l1 a false with Some p => S p | None => length l1 end).
  assert (O c /\ match a_next_lb l2 (f a) false with Some p => S p | None => length l2 end = f c)
    as [Hc Ec].
  { unfold c. destruct (sim2_next_lb l1 l2 f O a S2 Ha) as [E HO]. rewrite E.
    destruct (a_next_lb l1 a false) as [p|]; cbn [option_map].
    - destruct (HO p eq_refl) as (_ & _ & _ & HSp & ES). split; [exact HSp | symmetry; exact ES].
    - destruct (sim2_end _ _ _ _ S2) as [E1 E2]. split; [exact E1 | symmetry; exact E2]. }
  rewrite Ec, (sim2_get_indent_len l1 l2 f O c S2 Hc).
  set (len := a_get_indent_len l1 c - ofs).
  pose proof (sim_le _ _ _ _ Sm c Hc) as Lc. pose proof (sim_f_le _ _ _ _ S2 c Hc) as Lfc.
  rewrite (a_block_loop_fuel l2 (f b) ofs len (S (length l2)) (S (length l1 + length l2)) (f c) [])
    by lia.
  rewrite (a_block_loop_fuel l1 b ofs len (S (length l1)) (S (length l1 + length l2)) c []) by lia.
  change (@nil (nat * nat)) with (map (map_range f) []) at 1.
  apply (sim2_block_loop l1 l2 f O ofs len b S2 Hb); [exact Hc | intros r []].
Qed.

(** Every range of the dedenter is a run of byte symbols (for a flat document: it lies in one
    text), between a line start and the first non-blank symbol of the line. *)
Lemma a_block_loop_runs l e ofs len : forall fuel c aps,
  Forall (fun r => fst r <= snd r /\ brun l (fst r) (snd r)) aps ->
  Forall (fun r => fst r <= snd r /\ brun l (fst r) (snd r)) (a_block_loop fuel l e c ofs len aps).
Proof.
  induction fuel as [|fu IH]; intros c aps H; [exact H|].
  cbn [a_block_loop]. cbv zeta. destruct (c <? e); [|exact H].
  destruct (a_next_lb l c false) as [lb|]; [|exact H].
  destruct (e <? S lb); [exact H|]. apply IH.
  destruct (a_next_char l c) as [ip|] eqn:C; [|exact H].
  apply a_next_char_some in C. destruct C as (C1 & C2 & C3).
  destruct (_ =? _); [exact H|]. apply Forall_app. split; [exact H|].
  constructor; [|constructor]. cbn [fst snd]. split; [lia|].
  apply (brun_sub l c ip); [exact C3 | lia | lia].
Qed.

Theorem a_block_indent_runs l a b :
  Forall (fun r => fst r <= snd r /\ brun l (fst r) (snd r)) (a_block_indent l a b).
Proof. unfold a_block_indent. apply a_block_loop_runs. constructor. Qed.

(* ------------------------------------------------------------------------- *)
(** * Part B: the range-list functions and the whitespace stage with pairs *)

(** Variants of [Proofs.MonoMap.sort_ranges_mono] and [merge_ranges_mono] for a map that is
    strictly monotone on a set [O] containing all end points (as [merge_overlapped_on] of
    [Proofs.SimBody]); a monotone extension to all positions need not exist. *)

Lemma ranges_on_cons O (r : nat * nat) rs : range_on O r -> ranges_on O rs -> ranges_on O (r :: rs).
Proof. intros Hr Hrs x [<-|Hin]; [exact Hr | apply Hrs; exact Hin]. Qed.

Lemma ranges_on_tail O (r : nat * nat) rs : ranges_on O (r :: rs) -> ranges_on O rs.
Proof. intros H x Hin. apply H. right. exact Hin. Qed.

Lemma ranges_on_app O (a b : list (nat * nat)) : ranges_on O a -> ranges_on O b -> ranges_on O (a ++ b).
Proof. intros Ha Hb x Hin. apply in_app_or in Hin. destruct Hin; [apply Ha | apply Hb]; assumption. Qed.

Lemma ranges_on_map (f : nat -> nat) (O O' : nat -> Prop) rs : (forall j, O j -> O' (f j)) ->
  ranges_on O rs -> ranges_on O' (map (map_range f) rs).
Proof.
  intros HO H r' Hin. apply in_map_iff in Hin. destruct Hin as (r & <- & Hin).
  destruct (H r Hin) as [Ha Hb]. split; [rewrite fst_map_range | rewrite snd_map_range]; apply HO; assumption.
Qed.

Lemma insert_sorted_on l1 l2 f O r rs : sim l1 l2 f O -> range_on O r -> ranges_on O rs ->
  insert_sorted (map_range f r) (map (map_range f) rs) = map (map_range f) (insert_sorted r rs).
Proof.
  intros Sm Hr. induction rs as [|x rs IH]; intros Hl; [reflexivity|].
  cbn [map insert_sorted]. rewrite !fst_map_range.
  rewrite (sim_leb _ _ _ _ Sm (fst r) (fst x) (proj1 Hr) (proj1 (Hl x (or_introl eq_refl)))).
  destruct (fst r <=? fst x); cbn [map]; [reflexivity|].
  rewrite IH by (apply (ranges_on_tail O x); exact Hl). reflexivity.
Qed.

Lemma insert_sorted_ranges_on O r rs : range_on O r -> ranges_on O rs ->
  ranges_on O (insert_sorted r rs).
Proof.
  intros Hr. induction rs as [|x rs IH]; intros Hl.
  - cbn [insert_sorted]. apply ranges_on_cons; assumption.
  - cbn [insert_sorted]. destruct (fst r <=? fst x).
    + apply ranges_on_cons; assumption.
    + apply ranges_on_cons; [apply Hl; left; reflexivity|]. apply IH. apply (ranges_on_tail O x). exact Hl.
Qed.

Lemma sort_ranges_ranges_on O rs : ranges_on O rs -> ranges_on O (sort_ranges rs).
Proof.
  induction rs as [|r rs IH]; intros H; [exact H|].
  cbn [sort_ranges fold_right]. apply insert_sorted_ranges_on; [apply H; left; reflexivity|].
  apply IH. apply (ranges_on_tail O r). exact H.
Qed.

Theorem sort_ranges_on l1 l2 f O rs : sim l1 l2 f O -> ranges_on O rs ->
  sort_ranges (map (map_range f) rs) = map (map_range f) (sort_ranges rs).
Proof.
  intros Sm. induction rs as [|r rs IH]; intros H; [reflexivity|].
  cbn [map sort_ranges fold_right]. fold (sort_ranges (map (map_range f) rs)).
  fold (sort_ranges rs). rewrite IH by (apply (ranges_on_tail O r); exact H).
  apply (insert_sorted_on l1 l2 f O); [exact Sm | apply H; left; reflexivity|].
  apply sort_ranges_ranges_on. apply (ranges_on_tail O r). exact H.
Qed.

Lemma seek_on l1 l2 f O rs c x : sim l1 l2 f O -> ranges_on O rs -> O x ->
  seek (map (map_range f) rs) c (f x) = seek rs c x.
Proof.
  intros Sm Hrs Hx. induction c as [|c IH].
  - cbn [seek]. unfold Format.range. rewrite index_map.
    destruct (index rs 0) as [r|] eqn:E; cbn [bind]; [|reflexivity].
    rewrite fst_map_range.
    rewrite (sim_ltb _ _ _ _ Sm (fst r) x (proj1 (Hrs r (index_in _ _ _ E))) Hx). reflexivity.
  - cbn [seek]. unfold Format.range. rewrite index_map.
    destruct (index rs (S c)) as [r|] eqn:E; cbn [bind]; [|reflexivity].
    rewrite fst_map_range.
    rewrite (sim_ltb _ _ _ _ Sm (fst r) x (proj1 (Hrs r (index_in _ _ _ E))) Hx).
    destruct (fst r <? x); [reflexivity | exact IH].
Qed.

Lemma insert_at_ranges_on O (l : list (nat * nat)) i x o : ranges_on O l -> range_on O x ->
  insert_at l i x = Ok o -> ranges_on O o.
Proof.
  intros Hl Hx H. unfold insert_at in H. destruct (i <=? length l); [|discriminate H].
  inversion H; subst. apply ranges_on_app.
  - intros r Hin. apply Hl. apply (in_firstn' i). exact Hin.
  - apply ranges_on_cons; [exact Hx|]. intros r Hin. apply Hl. apply (in_skipn' i). exact Hin.
Qed.

Lemma merge_ranges_loop_on l1 l2 f O : sim l1 l2 f O -> forall rev_new rs cursor,
  ranges_on O rs -> ranges_on O rev_new ->
  merge_ranges_loop (map (map_range f) rs) cursor (map (map_range f) rev_new) =
  match merge_ranges_loop rs cursor rev_new with
  | Ok out => Ok (map (map_range f) out)
  | Panic => Panic
  end /\
  (forall out, merge_ranges_loop rs cursor rev_new = Ok out -> ranges_on O out).
Proof.
  intros Sm rev_new. induction rev_new as [|nr rest IH]; intros rs cursor Hrs Hnew.
  - cbn [map merge_ranges_loop]. split; [reflexivity|]. intros out H. inversion H; subst. exact Hrs.
  - pose proof (Hnew nr (or_introl eq_refl)) as Hnr. pose proof (ranges_on_tail O nr rest Hnew) as Hrest.
    cbn [map merge_ranges_loop]. rewrite fst_map_range.
    assert (match cursor with
            | Some c => seek (map (map_range f) rs) c (f (fst nr))
            | None => Ok None
            end =
            match cursor with Some c => seek rs c (fst nr) | None => Ok None end) as E.
    { destruct cursor as [c|]; [|reflexivity]. apply (seek_on l1 l2 f O); [exact Sm | exact Hrs | apply Hnr]. }
    rewrite E. clear E.
    destruct (match cursor with Some c => seek rs c (fst nr) | None => Ok None end) as [cursor'|];
      cbn [bind]; [|split; [reflexivity | intros out H; discriminate H]].
    assert (forall i,
              bind (insert_at (map (map_range f) rs) i (map_range f nr))
                   (fun ranges' => merge_ranges_loop ranges' cursor' (map (map_range f) rest)) =
              match bind (insert_at rs i nr) (fun ranges' => merge_ranges_loop ranges' cursor' rest) with
              | Ok out => Ok (map (map_range f) out)
              | Panic => Panic
              end /\
              (forall out, bind (insert_at rs i nr) (fun ranges' => merge_ranges_loop ranges' cursor' rest) = Ok out ->
                           ranges_on O out)) as K.
    { intros i. rewrite insert_at_map. destruct (insert_at rs i nr) as [o|] eqn:Ei; cbn [bind];
        [|split; [reflexivity | intros out H; discriminate H]].
      apply IH; [|exact Hrest]. apply (insert_at_ranges_on O rs i nr o Hrs Hnr Ei). }
    destruct cursor' as [c|]; apply K.
Qed.

Theorem merge_ranges_on l1 l2 f O rs new : sim l1 l2 f O -> ranges_on O rs -> ranges_on O new ->
  merge_ranges (map (map_range f) rs) (map (map_range f) new) =
  match merge_ranges rs new with Ok out => Ok (map (map_range f) out) | Panic => Panic end /\
  (forall out, merge_ranges rs new = Ok out -> ranges_on O out).
Proof.
  intros Sm Hrs Hnew. unfold merge_ranges. destruct rs as [|r0 rs'].
  - split; [reflexivity|]. intros out H. inversion H; subst. exact Hrs.
  - cbn [map]. change (map_range f r0 :: map (map_range f) rs') with (map (map_range f) (r0 :: rs')).
    rewrite map_length, <- map_rev.
    apply (merge_ranges_loop_on l1 l2 f O Sm); [exact Hrs|].
    intros r Hin. apply Hnew. apply in_rev. exact Hin.
Qed.

(** ** 5. The whitespace stage with pairs *)

Lemma sim2_fr_step l1 l2 f O arpos ranges open j pi : sim2 l1 l2 f O ->
  (forall p, In p arpos -> O (fst p)) -> O j -> ranges_on O ranges -> ranges_on O open ->
  a_fr_step l2 (map (map_pp f) arpos) (map (map_range f) ranges, map (map_range f) open) (f j, pi) =
  match a_fr_step l1 arpos (ranges, open) (j, pi) with
  | Ok ro => Ok (map (map_range f) (fst ro), map (map_range f) (snd ro))
  | Panic => Panic
  end /\
  (forall ro, a_fr_step l1 arpos (ranges, open) (j, pi) = Ok ro ->
              ranges_on O (fst ro) /\ ranges_on O (snd ro)).
Proof.
  intros S2 Hpos Hj Hr Ho. pose proof (sim2_sim _ _ _ _ S2) as Sm.
  unfold a_fr_step.
  destruct (sim_format_block l1 l2 f O j Sm Hj) as [E Hb]. rewrite E.
  destruct (a_format_block l1 j) as [[x y]|]; cbn [map_res bind];
    [|split; [reflexivity | intros ro H; discriminate H]].
  assert (ranges_on O (ranges ++ [(x, y)])) as Hr'.
  { apply ranges_on_app; [exact Hr|]. intros r [<-|[]]. exact Hb. }
  assert (map (map_range f) ranges ++ [map_range f (x, y)] =
          map (map_range f) (ranges ++ [(x, y)])) as E1 by (rewrite map_app; reflexivity).
  rewrite E1. clear E1.
  destruct pi as [pi|].
  2:{ split; [reflexivity|]. intros ro H. inversion H; subst. cbn [fst snd]. split; assumption. }
  rewrite index_map.
  destruct (index arpos pi) as [[ps q]|] eqn:Ei; cbn [bind];
    [|split; [reflexivity | intros ro H; discriminate H]].
  pose proof (Hpos _ (index_in _ _ _ Ei)) as Hps. cbn [fst] in Hps.
  unfold map_pp at 1. cbn [fst snd].
  rewrite (sim_ltb _ _ _ _ Sm j ps Hj Hps).
  destruct (j <? ps).
  2:{ split; [reflexivity|]. intros ro H. inversion H; subst. cbn [fst snd]. split; assumption. }
  destruct (sim2_block_indent l1 l2 f O j ps S2 Hj Hps) as [Ebi Hbi]. rewrite Ebi.
  split.
  - cbn [fst snd]. rewrite !map_app. reflexivity.
  - intros ro H. inversion H; subst. cbn [fst snd]. split; [exact Hr'|].
    apply ranges_on_app; assumption.
Qed.

Lemma sim2_fr_fold l1 l2 f O arpos : sim2 l1 l2 f O -> (forall p, In p arpos -> O (fst p)) ->
  forall lst ranges open,
  (forall p, In p lst -> O (fst p)) -> ranges_on O ranges -> ranges_on O open ->
  foldM (a_fr_step l2 (map (map_pp f) arpos)) (map (map_pp f) lst)
        (map (map_range f) ranges, map (map_range f) open) =
  match foldM (a_fr_step l1 arpos) lst (ranges, open) with
  | Ok ro => Ok (map (map_range f) (fst ro), map (map_range f) (snd ro))
  | Panic => Panic
  end /\
  (forall ro, foldM (a_fr_step l1 arpos) lst (ranges, open) = Ok ro ->
              ranges_on O (fst ro) /\ ranges_on O (snd ro)).
Proof.
  intros S2 Hpos lst. induction lst as [|[j pi] rest IH]; intros ranges open Hl Hr Ho.
  - cbn [map foldM]. split; [reflexivity|]. intros ro H. inversion H; subst. split; assumption.
  - cbn [map foldM]. unfold map_pp at 2. cbn [fst snd].
    pose proof (Hl (j, pi) (or_introl eq_refl)) as Hj. cbn [fst] in Hj.
    destruct (sim2_fr_step l1 l2 f O arpos ranges open j pi S2 Hpos Hj Hr Ho) as [E L].
    rewrite E. clear E.
    destruct (a_fr_step l1 arpos (ranges, open) (j, pi)) as [[r o]|]; cbn [bind fst snd];
      [|split; [reflexivity | intros ro H; discriminate H]].
    destruct (L (r, o) eq_refl) as [Lr Lo]. cbn [fst snd] in Lr, Lo.
    apply IH; [|exact Lr | exact Lo].
    intros p Hin. apply Hl. right. exact Hin.
Qed.

(** The whole whitespace stage; the pair indices are arbitrary. *)
Theorem sim2_format_ranges l1 l2 f O arpos : sim2 l1 l2 f O ->
  (forall p, In p arpos -> O (fst p)) ->
  a_format_ranges l2 (map (map_pp f) arpos) =
  match a_format_ranges l1 arpos with
  | Ok aR => Ok (map (map_range f) aR)
  | Panic => Panic
  end /\
  (forall aR, a_format_ranges l1 arpos = Ok aR -> ranges_on O aR).
Proof.
  intros S2 Hpos. pose proof (sim2_sim _ _ _ _ S2) as Sm. unfold a_format_ranges.
  destruct (sim2_fr_fold l1 l2 f O arpos S2 Hpos arpos [] [] Hpos ltac:(intros r []) ltac:(intros r []))
    as [E L].
  cbn [map] in E. rewrite E. clear E.
  destruct (foldM (a_fr_step l1 arpos) arpos ([], [])) as [[ranges open]|]; cbn [bind fst snd];
    [|split; [reflexivity | intros aR H; discriminate H]].
  destruct (L (ranges, open) eq_refl) as [Lr Lo]. cbn [fst snd] in Lr, Lo.
  rewrite (sort_ranges_on l1 l2 f O open Sm Lo).
  pose proof (sort_ranges_ranges_on O open Lo) as Lso.
  destruct (merge_ranges_on l1 l2 f O ranges (sort_ranges open) Sm Lr Lso) as [Em Lm]. rewrite Em.
  destruct (merge_ranges ranges (sort_ranges open)) as [merged|]; cbn [bind];
    [|split; [reflexivity | intros aR H; discriminate H]].
  pose proof (Lm merged eq_refl) as Lmerged.
  rewrite (merge_overlapped_on l1 l2 f O merged Sm Lmerged). split; [reflexivity|].
  intros aR H. inversion H; subst aR. apply merge_overlapped_ranges_on. exact Lmerged.
Qed.

(* ------------------------------------------------------------------------- *)
(** * Part C: documents of the same shape without line breaks in tag bodies *)

(** No tag body contains a line break. *)
Definition nonl (d : list item) : Prop := forall b, In (Tag b) d -> ~ In NL b.

(** A decidable form. *)
Definition nonlb (d : list item) : bool :=
  forallb (fun it => match it with Tag b => negb (mem_b NL b) | Txt _ => true end) d.

Lemma nonlb_nonl d : nonlb d = true -> nonl d.
Proof.
  intros H b Hin. unfold nonlb in H. rewrite forallb_forall in H. specialize (H _ Hin).
  cbn beta iota in H. apply negb_true_iff in H. apply mem_b_false. exact H.
Qed.

Lemma nonl_tail it d : nonl (it :: d) -> nonl d.
Proof. intros H b Hin. apply H. right. exact Hin. Qed.

(** ** The symbols of a tag *)

Lemma tag_item_nonl b : ~ In NL b -> forall k, nth_error (flat_item (Tag b)) k <> Some (B NL).
Proof.
  intros Hn k H. apply nth_error_In in H. cbn [flat_item] in H.
  destruct H as [H|H]; [discriminate H|]. apply in_app_or in H.
  destruct H as [H|[H|[]]]; [|discriminate H].
  apply in_map_iff in H. destruct H as (x & E & Hx). inversion E; subst x. exact (Hn Hx).
Qed.

Lemma fstart_S_tag d i b : nth_error d i = Some (Tag b) -> fstart d (S i) = fstart d i + (length b + 2).
Proof. intros N. rewrite (fstart_S d i _ N), (flat_item_len (Tag b)). reflexivity. Qed.

(** A tag whose body has no line break is a stretch without line-break symbols. *)
Lemma tag_nonl_run d i b : nth_error d i = Some (Tag b) -> ~ In NL b ->
  nonl_run (flat d) (fstart d i) (fstart d i + (length b + 2)).
Proof.
  intros N Hn. split.
  - rewrite <- (fstart_S_tag d i b N). apply fstart_le.
  - intros k H1 H2. replace k with (fstart d i + (k - fstart d i)) by lia.
    rewrite (nth_in_item d i _ _ N) by (rewrite flat_item_len; lia). apply tag_item_nonl. exact Hn.
Qed.

(** A start delimiter is the first symbol of a tag. *)
Lemma ds_is_tag_start : forall d j, nth_error (flat d) j = Some DS ->
  exists i b, nth_error d i = Some (Tag b) /\ j = fstart d i.
Proof.
  induction d as [|[t|b] d IH]; intros j H.
  - destruct j; discriminate H.
  - destruct (txt_cases t j) as [L|[j' ->]].
    + rewrite (nth_txt_lt t d j L) in H. destruct (nth_error t j); discriminate H.
    + rewrite nth_txt_ge in H. destruct (IH j' H) as (i & b & N & ->). exists (S i), b.
      split; [exact N | rewrite fstart_txt; reflexivity].
  - destruct (tag_cases b j) as [->|[L|[j' ->]]].
    + exists 0, b. split; reflexivity.
    + exfalso. rewrite flat_cons, nth_error_app1 in H by (rewrite (flat_item_len (Tag b)); lia).
      destruct j as [|j]; [lia|]. cbn [flat_item nth_error] in H. apply nth_error_In in H.
      apply in_app_or in H. destruct H as [H|[H|[]]]; [|discriminate H].
      apply in_map_iff in H. destruct H as (x & E & _). discriminate E.
    + rewrite nth_tag_ge in H. destruct (IH j' H) as (i & c & N & ->). exists (S i), c.
      split; [exact N | rewrite fstart_tag; reflexivity].
Qed.

(** An end delimiter is the last symbol of a tag. *)
Lemma de_is_tag_end : forall d j, nth_error (flat d) j = Some DE ->
  exists i b, nth_error d i = Some (Tag b) /\ S j = fstart d (S i).
Proof.
  induction d as [|[t|b] d IH]; intros j H.
  - destruct j; discriminate H.
  - destruct (txt_cases t j) as [L|[j' ->]].
    + rewrite (nth_txt_lt t d j L) in H. destruct (nth_error t j); discriminate H.
    + rewrite nth_txt_ge in H. destruct (IH j' H) as (i & b & N & E). exists (S i), b.
      split; [exact N | rewrite fstart_txt; lia].
  - destruct (tag_cases b j) as [->|[L|[j' ->]]].
    + discriminate H.
    + destruct (Nat.eq_dec j (length b + 1)) as [->|Hne].
      * exists 0, b. split; [reflexivity | rewrite fstart_tag, fstart_0; lia].
      * exfalso. rewrite flat_cons, nth_error_app1 in H by (rewrite (flat_item_len (Tag b)); lia).
        destruct j as [|j]; [lia|]. cbn [flat_item nth_error] in H.
        rewrite nth_error_app1 in H by (rewrite map_length; lia).
        rewrite nth_error_map in H. destruct (nth_error b j); discriminate H.
    + rewrite nth_tag_ge in H. destruct (IH j' H) as (i & c & N & E). exists (S i), c.
      split; [exact N | rewrite fstart_tag; lia].
Qed.

(** Tags stand at the same places. *)
Lemma same_shape_tag : forall d1 d2, same_shape d1 d2 -> forall i b1,
  nth_error d1 i = Some (Tag b1) -> exists b2, nth_error d2 i = Some (Tag b2).
Proof.
  shape_ind.
  - intros i b N. destruct i; discriminate N.
  - intros t r1 r2 _ IH i b N. destruct i as [|i]; [discriminate N|]. apply (IH i b N).
  - intros b1 b2 r1 r2 _ IH i b N. destruct i as [|i]; [exists b2; reflexivity|]. apply (IH i b N).
Qed.

(** A tag of the first document and its counterpart: both ends are outer and translated to the
    ends of the counterpart; both are stretches without line breaks. *)
Lemma tr_tag_block d1 d2 i b1 : same_shape d1 d2 -> nonl d1 -> nonl d2 ->
  nth_error d1 i = Some (Tag b1) ->
  exists n2, outer d1 (fstart d1 i) /\ outer d1 (fstart d1 i + (length b1 + 2)) /\
    tr d1 d2 (fstart d1 i + (length b1 + 2)) = tr d1 d2 (fstart d1 i) + n2 /\
    nonl_run (flat d1) (fstart d1 i) (fstart d1 i + (length b1 + 2)) /\
    nonl_run (flat d2) (tr d1 d2 (fstart d1 i)) (tr d1 d2 (fstart d1 i) + n2).
Proof.
  intros H H1 H2 N. destruct (same_shape_tag d1 d2 H i b1 N) as [b2 N2].
  assert (i < length d1) as Hi by (apply nth_error_Some; congruence).
  destruct (tr_fstart d1 d2 H i ltac:(lia)) as [HO1 HT1].
  destruct (tr_fstart d1 d2 H (S i) ltac:(lia)) as [HO2 HT2].
  rewrite (fstart_S_tag d1 i b1 N) in HO2, HT2. rewrite (fstart_S_tag d2 i b2 N2) in HT2.
  exists (length b2 + 2). split; [exact HO1|]. split; [exact HO2|]. split; [rewrite HT2, HT1; reflexivity|].
  split.
  - apply tag_nonl_run; [exact N | apply H1; apply (nth_error_In _ _ N)].
  - rewrite HT1. apply tag_nonl_run; [exact N2 | apply H2; apply (nth_error_In _ _ N2)].
Qed.

(** The simulation through tags. *)
Theorem tr_sim2 d1 d2 : same_shape d1 d2 -> nonl d1 -> nonl d2 ->
  sim2 (flat d1) (flat d2) (tr d1 d2) (outer d1).
Proof.
  intros H H1 H2. constructor.
  - apply tr_sim. exact H.
  - split; [apply outer_end | apply tr_end; exact H].
  - intros j Hj N. destruct (ds_is_tag_start d1 j N) as (i & b1 & Ni & ->).
    destruct (tr_tag_block d1 d2 i b1 H H1 H2 Ni) as (n2 & _ & HO & HT & R1 & R2).
    exists (length b1 + 2), n2. split; [lia|]. split; [exact HO|]. split; [exact HT|].
    split; [exact R1 | exact R2].
  - intros j Hj N. destruct (de_is_tag_end d1 j N) as (i & b1 & Ni & E).
    rewrite (fstart_S_tag d1 i b1 Ni) in E. unfold outer in Hj.
    rewrite (outer_not_in_tag d1 i b1 j Ni) in Hj; [discriminate Hj|].
    rewrite (fstart_S_tag d1 i b1 Ni). lia.
  - intros j Hj N. destruct (de_is_tag_end d1 j N) as (i & b1 & Ni & E).
    rewrite (fstart_S_tag d1 i b1 Ni) in E.
    destruct (tr_tag_block d1 d2 i b1 H H1 H2 Ni) as (n2 & HO & _ & HT & R1 & R2).
    exists (fstart d1 i), (length b1 + 2), n2. rewrite E.
    split; [lia|]. split; [reflexivity|]. split; [exact HO|]. split; [exact HT|].
    split; [exact R1 | exact R2].
  - intros j Hj N. destruct (ds_is_tag_start d1 j N) as (i & b1 & Ni & ->). unfold outer in Hj.
    rewrite (outer_not_in_tag d1 i b1 (S (fstart d1 i)) Ni) in Hj; [discriminate Hj|].
    rewrite (fstart_S_tag d1 i b1 Ni). lia.
Qed.

(** ** Additivity of [tr] inside one text *)

(** When [p] and [p + k] lie in one text (its end included), [tr (p + k) = tr p + k]. *)
Theorem tr_add_txt d1 d2 i t p k : same_shape d1 d2 -> nth_error d1 i = Some (Txt t) ->
  fstart d1 i <= p -> p + k <= fstart d1 i + length t ->
  outer d1 p /\ outer d1 (p + k) /\ tr d1 d2 (p + k) = tr d1 d2 p + k.
Proof.
  intros H N L1 L2.
  destruct (tr_in_txt d1 d2 H i t (p - fstart d1 i) N ltac:(lia)) as [HO1 HT1].
  destruct (tr_in_txt d1 d2 H i t (p + k - fstart d1 i) N ltac:(lia)) as [HO2 HT2].
  replace (fstart d1 i + (p - fstart d1 i)) with p in * by lia.
  replace (fstart d1 i + (p + k - fstart d1 i)) with (p + k) in * by lia.
  split; [exact HO1|]. split; [exact HO2|]. lia.
Qed.

(** The same from a run of byte symbols (what the proofs above use). *)
Theorem tr_add_run d1 d2 p k : same_shape d1 d2 -> outer d1 p -> brun (flat d1) p (p + k) ->
  outer d1 (p + k) /\ tr d1 d2 (p + k) = tr d1 d2 p + k.
Proof. intros H Hp Hr. apply (sim_run_fwd _ _ _ _ (tr_sim d1 d2 H) k p Hp Hr). Qed.

(** ** 1. The finders without pause and [a_next_char] *)

Theorem shape2_next_lb d1 d2 j : same_shape d1 d2 -> nonl d1 -> nonl d2 -> outer d1 j ->
  a_next_lb (flat d2) (tr d1 d2 j) false = option_map (tr d1 d2) (a_next_lb (flat d1) j false) /\
  (forall p, a_next_lb (flat d1) j false = Some p ->
     j <= p /\ outer d1 p /\ nth_error (flat d1) p = Some (B NL) /\
     outer d1 (S p) /\ tr d1 d2 (S p) = S (tr d1 d2 p)).
Proof. intros H H1 H2 Hj. apply sim2_next_lb; [apply tr_sim2; assumption | exact Hj]. Qed.

Theorem shape2_prev_lb d1 d2 j : same_shape d1 d2 -> nonl d1 -> nonl d2 -> outer d1 j ->
  a_prev_lb (flat d2) (tr d1 d2 j) false = option_map (tr d1 d2) (a_prev_lb (flat d1) j false) /\
  (forall p, a_prev_lb (flat d1) j false = Some p ->
     p < j /\ outer d1 p /\ nth_error (flat d1) p = Some (B NL) /\
     outer d1 (S p) /\ tr d1 d2 (S p) = S (tr d1 d2 p)).
Proof. intros H H1 H2 Hj. apply sim2_prev_lb; [apply tr_sim2; assumption | exact Hj]. Qed.

(** [a_next_char] does not need [nonl]: it never enters a tag. *)
Theorem shape_next_char d1 d2 j : same_shape d1 d2 -> outer d1 j ->
  a_next_char (flat d2) (tr d1 d2 j) = option_map (tr d1 d2) (a_next_char (flat d1) j) /\
  (forall e, a_next_char (flat d1) j = Some e -> j <= e /\ outer d1 e /\ brun (flat d1) j e).
Proof. intros H Hj. apply sim_next_char; [apply tr_sim; exact H | exact Hj]. Qed.

(** ** 2. The unwrap builder *)

Theorem shape2_ub_end d1 d2 j : same_shape d1 d2 -> nonl d1 -> nonl d2 -> outer d1 j ->
  a_ub_end (flat d2) (tr d1 d2 j) = option_map (tr d1 d2) (a_ub_end (flat d1) j) /\
  (forall e, a_ub_end (flat d1) j = Some e -> outer d1 e /\ nth_error (flat d1) e = Some (B NL)).
Proof. intros H H1 H2 Hj. apply sim2_ub_end; [apply tr_sim2; assumption | exact Hj]. Qed.

Theorem shape2_ub_start d1 d2 j : same_shape d1 d2 -> nonl d1 -> nonl d2 -> outer d1 j ->
  a_ub_start (flat d2) (tr d1 d2 j) = option_map (tr d1 d2) (a_ub_start (flat d1) j) /\
  (forall s, a_ub_start (flat d1) j = Some s ->
     outer d1 s /\ nth_error (flat d1) s = Some (B NL) /\
     outer d1 (S s) /\ tr d1 d2 (S s) = S (tr d1 d2 s)).
Proof. intros H H1 H2 Hj. apply sim2_ub_start; [apply tr_sim2; assumption | exact Hj]. Qed.

Theorem shape2_unwrap d1 d2 sb se eb ee : same_shape d1 d2 -> nonl d1 -> nonl d2 ->
  outer d1 sb -> outer d1 se -> outer d1 eb -> outer d1 ee ->
  a_unwrap (flat d2) (tr d1 d2 sb) (tr d1 d2 se) (tr d1 d2 eb) (tr d1 d2 ee) =
    map_rr (tr d1 d2) (a_unwrap (flat d1) sb se eb ee) /\
  rr_on (outer d1) (a_unwrap (flat d1) sb se eb ee).
Proof. intros H H1 H2 A1 A2 A3 A4. apply sim2_unwrap; try assumption. apply tr_sim2; assumption. Qed.

(** The range of an element opened by item [o] and closed by item [c] (item indices of both
    documents), for parsed tags that agree on the [unwrap-block] attribute. *)
Theorem shape2_create d1 d2 el el' o c : same_shape d1 d2 -> nonl d1 -> nonl d2 ->
  has_attr S_UNWRAP (el_attrs el') = has_attr S_UNWRAP (el_attrs el) ->
  o < length d1 -> c < length d1 ->
  a_create d2 el' o c = map_rr (tr d1 d2) (a_create d1 el o c) /\
  rr_on (outer d1) (a_create d1 el o c).
Proof.
  intros H H1 H2 Ha Ho Hc. unfold a_create. rewrite Ha.
  destruct (tr_fstart d1 d2 H o ltac:(lia)) as [O1 T1].
  destruct (tr_fstart d1 d2 H (S o) ltac:(lia)) as [O2 T2].
  destruct (tr_fstart d1 d2 H c ltac:(lia)) as [O3 T3].
  destruct (tr_fstart d1 d2 H (S c) ltac:(lia)) as [O4 T4].
  destruct (has_attr S_UNWRAP (el_attrs el)).
  - rewrite <- T1, <- T2, <- T3, <- T4. apply shape2_unwrap; assumption.
  - unfold map_rr, map_range. cbn [fst snd option_map]. rewrite T1, T4.
    split; [reflexivity|]. split; [split; assumption | exact I].
Qed.

(** ** 3. The indentation of the line of an outer position *)

(** Any outer position will do (not only a line start): the result is a difference of two
    positions in one run of byte symbols, the line break in front of the position and the first
    non-blank symbol behind it. *)
Theorem shape2_get_indent_len d1 d2 j : same_shape d1 d2 -> nonl d1 -> nonl d2 -> outer d1 j ->
  a_get_indent_len (flat d2) (tr d1 d2 j) = a_get_indent_len (flat d1) j.
Proof. intros H H1 H2 Hj. apply (sim2_get_indent_len _ _ _ (outer d1)); [apply tr_sim2; assumption | exact Hj]. Qed.

(** ** 4. The block dedenter *)

Theorem shape2_block_indent d1 d2 a b : same_shape d1 d2 -> nonl d1 -> nonl d2 ->
  outer d1 a -> outer d1 b ->
  a_block_indent (flat d2) (tr d1 d2 a) (tr d1 d2 b) =
    map (map_range (tr d1 d2)) (a_block_indent (flat d1) a b) /\
  (forall r, In r (a_block_indent (flat d1) a b) -> outer d1 (fst r) /\ outer d1 (snd r)).
Proof. intros H H1 H2 Ha Hb. apply sim2_block_indent; try assumption. apply tr_sim2; assumption. Qed.

(** ** 5. The whitespace stage with pairs *)

Theorem shape2_format_ranges d1 d2 arpos : same_shape d1 d2 -> nonl d1 -> nonl d2 ->
  (forall p, In p arpos -> outer d1 (fst p)) ->
  a_format_ranges (flat d2) (map (fun p => (tr d1 d2 (fst p), snd p)) arpos) =
    match a_format_ranges (flat d1) arpos with
    | Ok aR => Ok (map (map_range (tr d1 d2)) aR)
    | Panic => Panic
    end /\
  (forall aR, a_format_ranges (flat d1) arpos = Ok aR ->
              forall r, In r aR -> outer d1 (fst r) /\ outer d1 (snd r)).
Proof.
  intros H H1 H2 Hpos.
  apply (sim2_format_ranges (flat d1) (flat d2) (tr d1 d2) (outer d1) arpos (tr_sim2 d1 d2 H H1 H2) Hpos).
Qed.

(* ------------------------------------------------------------------------- *)
(** * Part D: deleting *)

(** [doc_mask] keeps a tag whole or drops it: no new tag bodies. *)
Theorem nonl_doc_mask d del base : nonl d -> nonl (doc_mask del base d).
Proof. intros H b Hin. apply H. apply (doc_mask_tags d del base b Hin). Qed.

(** The translated ranges have outer end points in the second document. *)
Lemma ranges_on_tr d1 d2 R : same_shape d1 d2 -> ranges_on (outer d1) R ->
  ranges_on (outer d2) (map (map_range (tr d1 d2)) R).
Proof. intros H. apply ranges_on_map. apply (tr_outer d1 d2 H). Qed.

(** [sdelete_shape] of [Proofs.SimBody] with [nonl]: deleting ranges with outer end points from
    both documents gives two flat documents of the same shape (tag bodies related as before)
    without line breaks in tag bodies: the hypotheses of this file hold again. *)
Theorem sdelete_shape_nonl P d1 d2 R : shape_rel P d1 d2 -> nonl d1 -> nonl d2 ->
  ranges_on (outer d1) R ->
  sdelete R (flat d1) = flat (doc_mask (in_rangesb R) 0 d1) /\
  sdelete (map (map_range (tr d1 d2)) R) (flat d2) =
    flat (doc_mask (in_rangesb (map (map_range (tr d1 d2)) R)) 0 d2) /\
  shape_rel P (doc_mask (in_rangesb R) 0 d1)
              (doc_mask (in_rangesb (map (map_range (tr d1 d2)) R)) 0 d2) /\
  nonl (doc_mask (in_rangesb R) 0 d1) /\
  nonl (doc_mask (in_rangesb (map (map_range (tr d1 d2)) R)) 0 d2).
Proof.
  intros HP H1 H2 HR. destruct (sdelete_shape P d1 d2 R HP HR) as (E1 & E2 & E3).
  split; [exact E1|]. split; [exact E2|]. split; [exact E3|].
  split; apply nonl_doc_mask; assumption.
Qed.

(* ------------------------------------------------------------------------- *)
(** * Part E: an instance *)

(** ["a\n  " <rm name='f' unwrap-block> "\n{\n    x " <k> "\n    y\n}\n  " </rm> "\n b"] and the
    same with [remove-marker] for [rm] and [keep-me] for [k]: the three tags have bodies of
    different lengths (24 and 35, 1 and 7, 3 and 14 bytes).  The element is unwrapped: its
    wrapper lines go and the two kept lines, the second one behind the tag [k], are dedented;
    both cleaners return ["a\n  x " <k> "\n  y\n b"] with their own tag. *)
Definition su_rm : str := [114;109]%N.
Definition su_remove_marker : str := [114;101;109;111;118;101;45;109;97;114;107;101;114]%N.
Definition su_attrs : str :=
  [32;110;97;109;101;61;39;102;39;32;117;110;119;114;97;112;45;98;108;111;99;107]%N.
Definition su_k : str := [107]%N.
Definition su_keep_me : str := [107;101;101;112;45;109;101]%N.
Definition su_cfg1 : config :=
  mkConfig [116;108]%N [43;48;48;58;48;48]%N 1000000000%Z su_rm [[102]%N].
Definition su_cfg2 : config :=
  mkConfig [116;108]%N [43;48;48;58;48;48]%N 1000000000%Z su_remove_marker [[102]%N].
Definition su_doc (o k c : str) : list item :=
  [Txt [97;10;32;32]%N; Tag o;
   Txt [10;123;10;32;32;32;32;120;32]%N; Tag k; Txt [10;32;32;32;32;121;10;125;10;32;32]%N;
   Tag c; Txt [10;32;98]%N].
Definition su_d1 : list item := su_doc (su_rm ++ su_attrs) su_k (47%N :: su_rm).
Definition su_d2 : list item :=
  su_doc (su_remove_marker ++ su_attrs) su_keep_me (47%N :: su_remove_marker).
Definition su_el (name : str) : element :=
  mkElement name [([110;97;109;101]%N, Some [102]%N); (S_UNWRAP, None)].
(** The residual documents after the removal of the two wrapper ranges. *)
Definition su_res (k : str) : list item :=
  [Txt [97;10;32;32]%N; Txt [10;32;32;32;32;120;32]%N; Tag k; Txt [10;32;32;32;32;121;10]%N;
   Txt [10;32;98]%N].
Definition su_r1 : list item := su_res su_k.
Definition su_r2 : list item := su_res su_keep_me.
Definition su_out (k : str) : list item := [Txt [97;10;32;32;120;32]%N; Tag k; Txt [10;32;32;121;10;32;98]%N].

Example su_example :
  same_shape su_d1 su_d2 /\ nonl su_d1 /\ nonl su_d2 /\
  length (flat su_d1) = 61 /\ length (flat su_d2) = 89 /\
  (* the unwrap builder on the element opened by item 1 and closed by item 5 *)
  acls su_d1 1 = Some (su_el su_rm) /\ acls su_d2 1 = Some (su_el su_remove_marker) /\
  has_attr S_UNWRAP (el_attrs (su_el su_rm)) = true /\
  map (fstart su_d1) [1; 2; 5; 6] = [4; 30; 53; 58] /\
  map (fstart su_d2) [1; 2; 5; 6] = [4; 41; 70; 86] /\
  map (tr su_d1 su_d2) [4; 30; 53; 58] = [4; 41; 70; 86] /\
  a_unwrap (flat su_d1) 4 30 53 58 = ((4, 32), Some (49, 58)) /\
  a_unwrap (flat su_d2) 4 41 70 86 = ((4, 43), Some (66, 86)) /\
  a_create su_d1 (su_el su_rm) 1 5 = ((4, 32), Some (49, 58)) /\
  a_create su_d2 (su_el su_remove_marker) 1 5 = ((4, 43), Some (66, 86)) /\
  map_rr (tr su_d1 su_d2) ((4, 32), Some (49, 58)) = ((4, 43), Some (66, 86)) /\
  (* the markers of the two cleaners, and the residual documents *)
  merge_markers (fst (a_collect su_cfg1 su_d1 false)) = Ok [((4, 32), Some 1); ((49, 58), Some 0)] /\
  merge_markers (fst (a_collect su_cfg2 su_d2 false)) = Ok [((4, 43), Some 1); ((66, 86), Some 0)] /\
  doc_mask (in_rangesb [(4, 32); (49, 58)]) 0 su_d1 = su_r1 /\
  doc_mask (in_rangesb [(4, 43); (66, 86)]) 0 su_d2 = su_r2 /\
  sdelete [(4, 32); (49, 58)] (flat su_d1) = flat su_r1 /\
  sdelete [(4, 43); (66, 86)] (flat su_d2) = flat su_r2 /\
  same_shape su_r1 su_r2 /\ nonl su_r1 /\ nonl su_r2 /\
  (* the removed positions: a pair *)
  a_removed_pos [((4, 32), Some 1); ((49, 58), Some 0)] = [(4, Some 1); (21, Some 0)] /\
  a_removed_pos [((4, 43), Some 1); ((66, 86), Some 0)] = [(4, Some 1); (27, Some 0)] /\
  outer su_r1 4 /\ outer su_r1 21 /\
  map (fun p => (tr su_r1 su_r2 (fst p), snd p)) [(4, Some 1); (21, Some 0)] =
    [(4, Some 1); (27, Some 0)] /\
  (* the block dedenter between the two seams: the second range lies behind the tag *)
  a_get_indent_len (flat su_r1) 14 = 4 /\ a_get_indent_len (flat su_r2) 20 = 4 /\
  a_block_indent (flat su_r1) 4 21 = [(7, 9); (17, 19)] /\
  a_block_indent (flat su_r2) 4 27 = [(7, 9); (23, 25)] /\
  map (map_range (tr su_r1 su_r2)) [(7, 9); (17, 19)] = [(7, 9); (23, 25)] /\
  (* the whitespace stage with the pair *)
  a_format_ranges (flat su_r1) [(4, Some 1); (21, Some 0)] = Ok [(2, 5); (7, 9); (17, 19); (21, 22)] /\
  a_format_ranges (flat su_r2) [(4, Some 1); (27, Some 0)] = Ok [(2, 5); (7, 9); (23, 25); (27, 28)] /\
  map (map_range (tr su_r1 su_r2)) [(2, 5); (7, 9); (17, 19); (21, 22)] =
    [(2, 5); (7, 9); (23, 25); (27, 28)] /\
  (* the cleaners *)
  a_clean su_cfg1 su_d1 = Ok (flat (su_out su_k)) /\
  a_clean su_cfg2 su_d2 = Ok (flat (su_out su_keep_me)).
Proof.
  split; [repeat constructor|].
  split; [apply nonlb_nonl; vm_compute; reflexivity|].
  split; [apply nonlb_nonl; vm_compute; reflexivity|].
  do 19 (split; [vm_compute; reflexivity|]).
  split; [repeat constructor|].
  split; [apply nonlb_nonl; vm_compute; reflexivity|].
  split; [apply nonlb_nonl; vm_compute; reflexivity|].
  repeat (split; [vm_compute; reflexivity|]). vm_compute; reflexivity.
Qed.

(** The theorems of this file applied to the instance (no computation on the second document). *)
Example su_example_thm :
  a_format_ranges (flat su_r2) [(4, Some 1); (27, Some 0)] =
    Ok (map (map_range (tr su_r1 su_r2)) [(2, 5); (7, 9); (17, 19); (21, 22)]) /\
  a_block_indent (flat su_r2) 4 27 = map (map_range (tr su_r1 su_r2)) [(7, 9); (17, 19)] /\
  a_create su_d2 (su_el su_remove_marker) 1 5 = map_rr (tr su_d1 su_d2) ((4, 32), Some (49, 58)).
Proof.
  destruct su_example as (S1 & N1 & N2 & _ & _ & _ & _ & _ & _ & _ & _ & _ & _ & Ec & _ & _ & _ & _ &
    _ & _ & _ & _ & S2 & N3 & N4 & _ & _ & O1 & O2 & Etr & _ & _ & Eb & _ & _ & Ef & _).
  split; [|split].
  - assert (forall p, In p [(4, Some 1); (21, Some 0)] -> outer su_r1 (fst p)) as Hpos.
    { intros p [<-|[<-|[]]]; assumption. }
    destruct (shape2_format_ranges su_r1 su_r2 _ S2 N3 N4 Hpos) as [E _].
    rewrite Etr, Ef in E. exact E.
  - destruct (shape2_block_indent su_r1 su_r2 4 21 S2 N3 N4 O1 O2) as [E _].
    rewrite Eb in E. exact E.
  - destruct (shape2_create su_d1 su_d2 (su_el su_rm) (su_el su_remove_marker) 1 5 S1 N1 N2 eq_refl)
      as [E _]; [vm_compute; lia | vm_compute; lia |].
    rewrite Ec in E. exact E.
Qed.

Print Assumptions sim2_next_lb.
Print Assumptions sim2_prev_lb.
Print Assumptions sim_next_char.
Print Assumptions sim2_get_indent_len.
Print Assumptions sim2_ub_end.
Print Assumptions sim2_ub_start.
Print Assumptions sim2_unwrap.
Print Assumptions sim2_block_loop.
Print Assumptions sim2_block_indent.
Print Assumptions a_block_indent_runs.
Print Assumptions sort_ranges_on.
Print Assumptions merge_ranges_on.
Print Assumptions sim2_format_ranges.
Print Assumptions nonlb_nonl.
Print Assumptions tr_sim2.
Print Assumptions tr_add_txt.
Print Assumptions tr_add_run.
Print Assumptions shape2_next_lb.
Print Assumptions shape2_prev_lb.
Print Assumptions shape_next_char.
Print Assumptions shape2_ub_end.
Print Assumptions shape2_ub_start.
Print Assumptions shape2_unwrap.
Print Assumptions shape2_create.
Print Assumptions shape2_get_indent_len.
Print Assumptions shape2_block_indent.
Print Assumptions shape2_format_ranges.
Print Assumptions nonl_doc_mask.
Print Assumptions ranges_on_tr.
Print Assumptions sdelete_shape_nonl.
Print Assumptions su_example.
Print Assumptions su_example_thm.
