(** C01 for the attribute scan: [parse_target] never panics on well-formed UTF-8. *)
From Coq Require Import List NArith Arith Bool Lia.
Import ListNotations.
From Chiri Require Import Base.Bytes Base.Res Model.Tokenizer Model.TagParser
     Proofs.ResLemmas Proofs.BytesLemmas Proofs.Utf8Lemmas.

Lemma slice_ok s a b :
  a <= b -> b <= length s -> is_boundary s a = true -> is_boundary s b = true ->
  slice s a b = Ok (sub s a b).
Proof.
  intros H1 H2 H3 H4. unfold slice.
  apply Nat.leb_le in H1. apply Nat.leb_le in H2. rewrite H1, H2, H3, H4. reflexivity.
Qed.

Lemma set_last_value_ok pairs v :
  pairs <> [] -> exists pairs', set_last_value pairs v = Ok pairs'.
Proof.
  intros H. unfold set_last_value. destruct (rev pairs) as [|[n o] r] eqn:E.
  - exfalso. apply H. rewrite <- (rev_involutive pairs), E. reflexivity.
  - eexists. reflexivity.
Qed.

Lemma app_not_nil {A} (l : list A) x : l ++ [x] <> [].
Proof. destruct l; discriminate. Qed.

(** The invariant of the scan, relative to a lower bound [m] on the positions still to come. *)
Definition start_ok (target : str) (m s : nat) : Prop :=
  s <= m /\ s <= length target /\ is_boundary target s = true.

Definition stinv (target : str) (m : nat) (pairs : list (str * option str)) (st : pstate) : Prop :=
  match st with
  | Name s => start_ok target m s
  | ValueWithDoubleQuote s | ValueWithSingleQuote s => start_ok target m s /\ pairs <> []
  | NameEnd | ValueBegin => pairs <> []
  | _ => True
  end.

Lemma start_ok_mono target m m' s : m <= m' -> start_ok target m s -> start_ok target m' s.
Proof. unfold start_ok. intros H [H1 H2]. split; [lia | exact H2]. Qed.

Lemma stinv_mono target m m' pairs st : m <= m' -> stinv target m pairs st -> stinv target m' pairs st.
Proof.
  intros H. destruct st; cbn [stinv]; auto.
  - apply start_ok_mono; exact H.
  - intros [H1 H2]. split; [eapply start_ok_mono; eauto | exact H2].
  - intros [H1 H2]. split; [eapply start_ok_mono; eauto | exact H2].
Qed.

Lemma ascii_SP : (SP <? 128)%N = true. Proof. reflexivity. Qed.
Lemma ascii_NL : (NL <? 128)%N = true. Proof. reflexivity. Qed.
Lemma ascii_EQC : (EQC <? 128)%N = true. Proof. reflexivity. Qed.
Lemma ascii_DQ : (DQ <? 128)%N = true. Proof. reflexivity. Qed.
Lemma ascii_SQ : (SQ <? 128)%N = true. Proof. reflexivity. Qed.

Lemma slice_at_char target s k c :
  start_ok target k s -> nth_error target k = Some c -> is_cont c = false ->
  slice target s k = Ok (sub target s k).
Proof.
  intros [H1 [H2 H3]] Hn Hc. apply slice_ok; auto.
  - assert (k < length target) by (apply nth_error_Some; congruence). lia.
  - eapply is_boundary_nth; eauto.
Qed.

Lemma start_ok_after_ascii target k c :
  WF target -> nth_error target k = Some c -> (c <? 128)%N = true ->
  start_ok target (S k) (k + 1).
Proof.
  intros W Hn Hc. destruct (is_boundary_after_ascii _ _ _ W Hn Hc) as [H1 H2].
  unfold start_ok. repeat split; [lia | lia | exact H2].
Qed.

Lemma pstep_inv target k c pairs st :
  WF target -> nth_error target k = Some c -> is_cont c = false ->
  stinv target k pairs st ->
  exists pairs' st', pstep target (pairs, st) (k, c) = Ok (pairs', st') /\
                     stinv target (S k) pairs' st'.
Proof.
  intros W Hn Hc Hinv.
  assert (Hk : k < length target) by (apply nth_error_Some; congruence).
  assert (Hbk : is_boundary target k = true) by (eapply is_boundary_nth; eauto).
  destruct st as [|s| | | |s|s|]; cbn [pstep stinv] in *.
  - (* NameBegin *)
    destruct (beq c SP || beq c NL); [do 2 eexists; split; [reflexivity|exact I]|].
    destruct (beq c EQC || beq c DQ || beq c SQ); [do 2 eexists; split; [reflexivity|exact I]|].
    do 2 eexists; split; [reflexivity|]. cbn [stinv]. unfold start_ok. repeat split; auto; lia.
  - (* Name *)
    rewrite (slice_at_char _ _ _ _ Hinv Hn Hc). cbn [bind].
    destruct (beq c SP || beq c NL).
    { do 2 eexists; split; [reflexivity|]. cbn [stinv]. apply app_not_nil. }
    destruct (beq c EQC).
    { do 2 eexists; split; [reflexivity|]. cbn [stinv]. apply app_not_nil. }
    do 2 eexists; split; [reflexivity|]. cbn [stinv]. eapply start_ok_mono; [|exact Hinv]. lia.
  - (* NameEnd *)
    destruct (beq c SP || beq c NL); [do 2 eexists; split; [reflexivity|exact Hinv]|].
    destruct (beq c EQC); [do 2 eexists; split; [reflexivity|exact Hinv]|].
    do 2 eexists; split; [reflexivity|]. cbn [stinv]. unfold start_ok. repeat split; auto; lia.
  - (* ValueBegin *)
    destruct (beq c SP); [do 2 eexists; split; [reflexivity|exact Hinv]|].
    destruct (beq c DQ) eqn:E1.
    { apply beq_eq in E1. subst c. do 2 eexists; split; [reflexivity|]. cbn [stinv].
      split; [|exact Hinv]. eapply start_ok_after_ascii; eauto. }
    destruct (beq c SQ) eqn:E2.
    { apply beq_eq in E2. subst c. do 2 eexists; split; [reflexivity|]. cbn [stinv].
      split; [|exact Hinv]. eapply start_ok_after_ascii; eauto. }
    do 2 eexists; split; [reflexivity|exact I].
  - (* ValueWithNoQuote *)
    destruct (beq c SP); do 2 eexists; split; try reflexivity; exact I.
  - (* ValueWithDoubleQuote *)
    destruct Hinv as [Hs Hp]. destruct (beq c DQ).
    + rewrite (slice_at_char _ _ _ _ Hs Hn Hc). cbn [bind].
      destruct (set_last_value_ok pairs (sub target s k) Hp) as [pairs' E]. rewrite E. cbn [bind].
      do 2 eexists; split; [reflexivity|exact I].
    + do 2 eexists; split; [reflexivity|]. cbn [stinv]. split; [|exact Hp].
      eapply start_ok_mono; [|exact Hs]. lia.
  - (* ValueWithSingleQuote *)
    destruct Hinv as [Hs Hp]. destruct (beq c SQ).
    + rewrite (slice_at_char _ _ _ _ Hs Hn Hc). cbn [bind].
      destruct (set_last_value_ok pairs (sub target s k) Hp) as [pairs' E]. rewrite E. cbn [bind].
      do 2 eexists; split; [reflexivity|exact I].
    + do 2 eexists; split; [reflexivity|]. cbn [stinv]. split; [|exact Hp].
      eapply start_ok_mono; [|exact Hs]. lia.
  - do 2 eexists; split; [reflexivity|exact I].
Qed.

Lemma fold_inv target : WF target -> forall s before pairs st,
  target = before ++ s -> stinv target (length before) pairs st ->
  exists pairs' st',
    foldM (pstep target) (char_indices_from (length before) s) (pairs, st) = Ok (pairs', st') /\
    stinv target (length target) pairs' st'.
Proof.
  intros W. induction s as [|b s IH]; intros before pairs st He Hinv.
  - cbn [char_indices_from foldM]. exists pairs, st. split; [reflexivity|].
    rewrite app_nil_r in He. subst before. exact Hinv.
  - assert (He' : target = (before ++ [b]) ++ s) by (rewrite <- app_assoc; exact He).
    assert (Hl : length (before ++ [b]) = S (length before))
      by (rewrite app_length; cbn [length]; lia).
    cbn [char_indices_from]. destruct (is_cont b) eqn:Eb.
    + rewrite <- Hl. apply IH; [exact He'|]. eapply stinv_mono; [|exact Hinv]. lia.
    + cbn [foldM].
      assert (Hn : nth_error target (length before) = Some b).
      { rewrite He. rewrite nth_error_app2 by lia. rewrite Nat.sub_diag. reflexivity. }
      destruct (pstep_inv target _ _ pairs st W Hn Eb Hinv) as [pairs1 [st1 [E1 Hinv1]]].
      rewrite E1. cbn [bind]. rewrite <- Hl. apply IH; [exact He'|]. rewrite Hl. exact Hinv1.
Qed.

Lemma parse_target_total_WF : forall target,
  WF target -> exists o, parse_target target = Ok o.
Proof.
  intros target Hwf.
  destruct (fold_inv target Hwf target [] [] NameBegin eq_refl I) as [pairs [st [E Hinv]]].
  unfold parse_target, char_indices. cbn [length] in E. rewrite E. cbn [bind].
  assert (Hp : exists pairs', match st with
                              | Name start => v <- slice_from target start ;; Ok (pairs ++ [(v, None)])
                              | _ => Ok pairs
                              end = Ok pairs').
  { destruct st; try (eexists; reflexivity). cbn [stinv] in Hinv. destruct Hinv as [H1 [H2 H3]].
    unfold slice_from. rewrite slice_ok; auto using is_boundary_length.
    cbn [bind]. eexists; reflexivity. }
  destruct Hp as [pairs' Hp]. rewrite Hp. cbn [bind].
  destruct (is_parse_error st); [eexists; reflexivity|].
  destruct pairs' as [|[name o] attrs]; eexists; reflexivity.
Qed.
