(** C07 / C08 / C01 (tokenizer stage): the tokenizer model against the textbook scan,
    the lossless-partition property, and totality on well-formed UTF-8. *)
From Coq Require Import List NArith Arith Bool Lia PeanoNat.
Import ListNotations.
From Chiri Require Import Base.Bytes Base.Res Model.Tokenizer Spec.Scan
  Proofs.ResLemmas Proofs.BytesLemmas Proofs.Utf8.

Definition span_of (t : token) : bool * nat * nat := (tk_elem t, tk_bstart t, tk_bend t).
Definition suffix (p s : str) : bool := prefix (rev p) (rev s).

(* ------------------------------------------------------------------------- *)
(** * find_sub is the leftmost occurrence *)

Lemma find_sub_leftmost : forall p s i, find_sub p s = Some i -> leftmost p s i.
Proof.
  intros p s. induction s as [|a s IH]; intros i H.
  - cbn [find_sub] in H. destruct (prefix p []) eqn:E; [|discriminate H].
    inversion H; subst. split.
    + split; [cbn [length]; lia | exact E].
    + intros j Hj. lia.
  - cbn [find_sub] in H. destruct (prefix p (a :: s)) eqn:E.
    + inversion H; subst. split.
      * split; [lia | exact E].
      * intros j Hj. lia.
    + destruct (find_sub p s) as [k|] eqn:F; cbn [option_map] in H; [|discriminate H].
      inversion H; subst.
      destruct (IH k eq_refl) as [[Hl Hp] Hm]. split.
      * split; [cbn [length]; lia | cbn [skipn]; exact Hp].
      * intros j Hj [Hjl Hjp]. destruct j as [|j].
        -- cbn [skipn] in Hjp. congruence.
        -- apply (Hm j); [lia|]. split; [cbn [length] in Hjl; lia | exact Hjp].
Qed.

Lemma find_sub_none : forall p s, find_sub p s = None -> forall i, ~ occurs_at p s i.
Proof.
  intros p s. induction s as [|a s IH]; intros H i [Hl Hp].
  - cbn [find_sub] in H. destruct (prefix p []) eqn:E; [discriminate H|].
    cbn [length] in Hl. assert (i = 0) as -> by lia. cbn [skipn] in Hp. congruence.
  - cbn [find_sub] in H. destruct (prefix p (a :: s)) eqn:E; [discriminate H|].
    destruct (find_sub p s) as [k|] eqn:F; cbn [option_map] in H; [discriminate H|].
    destruct i as [|i].
    + cbn [skipn] in Hp. congruence.
    + apply (IH eq_refl i). split; [cbn [length] in Hl; lia | exact Hp].
Qed.

Lemma find_sub_occurs p s i : find_sub p s = Some i -> i <= length s /\ prefix p (skipn i s) = true.
Proof. intros H. apply find_sub_leftmost in H. destruct H as [H _]. exact H. Qed.

(* ------------------------------------------------------------------------- *)
(** * Lists, [sub], [slice] *)

Lemma sub_to_end s a : sub s a (length s) = skipn a s.
Proof. unfold sub. rewrite <- (skipn_length a s). apply firstn_all. Qed.

Lemma sub_length s a b : b <= length s -> length (sub s a b) = b - a.
Proof.
  intros H. unfold sub. apply firstn_length_le. rewrite skipn_length. lia.
Qed.

Lemma sub_skipn s a b : a <= b -> sub s a b ++ skipn b s = skipn a s.
Proof.
  intros H. unfold sub.
  rewrite <- (firstn_skipn (b - a) (skipn a s)) at 2.
  rewrite skipn_add. replace (a + (b - a)) with b by lia. reflexivity.
Qed.

Lemma sub_split s a m b : a <= m -> m <= b -> b <= length s -> sub s a b = sub s a m ++ sub s m b.
Proof.
  intros H1 H2 H3. unfold sub.
  rewrite <- (sub_skipn s a m H1) at 1.
  rewrite firstn_app, sub_length by lia.
  rewrite firstn_all2 by (rewrite sub_length; lia).
  replace (b - a - (m - a)) with (b - m) by lia. reflexivity.
Qed.

Lemma slice_ok s a b v : slice s a b = Ok v ->
  a <= b /\ b <= length s /\ is_boundary s a = true /\ is_boundary s b = true /\ v = sub s a b.
Proof.
  unfold slice. intros H.
  destruct ((a <=? b) && (b <=? length s) && is_boundary s a && is_boundary s b) eqn:E;
    [|discriminate H].
  inversion H; subst.
  apply andb_true_iff in E. destruct E as [E E4].
  apply andb_true_iff in E. destruct E as [E E3].
  apply andb_true_iff in E. destruct E as [E1 E2].
  apply Nat.leb_le in E1. apply Nat.leb_le in E2. auto.
Qed.

Lemma slice_intro s a b :
  a <= b -> b <= length s -> is_boundary s a = true -> is_boundary s b = true ->
  slice s a b = Ok (sub s a b).
Proof.
  intros H1 H2 H3 H4. unfold slice.
  apply Nat.leb_le in H1. apply Nat.leb_le in H2. rewrite H1, H2, H3, H4. reflexivity.
Qed.

Lemma slice_from_ok s a v : slice_from s a = Ok v ->
  a <= length s /\ is_boundary s a = true /\ v = skipn a s.
Proof.
  unfold slice_from. intros H. apply slice_ok in H.
  destruct H as (H1 & _ & H3 & _ & H5). rewrite sub_to_end in H5. auto.
Qed.

Lemma slice_from_intro s a : a <= length s -> is_boundary s a = true ->
  slice_from s a = Ok (skipn a s).
Proof.
  intros H1 H2. unfold slice_from. rewrite slice_intro; auto using is_boundary_length.
  rewrite sub_to_end. reflexivity.
Qed.

Lemma prefix_nil_r p : prefix p [] = true -> p = [].
Proof. destruct p; [reflexivity | discriminate]. Qed.

Lemma prefix_length p s : prefix p s = true -> length p <= length s.
Proof.
  intros H. apply prefix_spec in H. destruct H as [r ->]. rewrite app_length. lia.
Qed.

Lemma suffix_app x p : suffix p (x ++ p) = true.
Proof. unfold suffix. rewrite rev_app_distr. apply prefix_app. Qed.

Lemma sub_prefix_exact s m p : prefix p (skipn m s) = true -> sub s m (m + length p) = p.
Proof.
  intros H. apply prefix_spec in H. destruct H as [r Hr]. unfold sub. rewrite Hr.
  replace (m + length p - m) with (length p + 0) by lia.
  rewrite firstn_app_2. cbn [firstn]. apply app_nil_r.
Qed.

Lemma sub_suffix s a m p :
  a <= m -> m + length p <= length s -> prefix p (skipn m s) = true ->
  suffix p (sub s a (m + length p)) = true.
Proof.
  intros H1 H2 H3. rewrite (sub_split s a m) by lia.
  rewrite (sub_prefix_exact s m p H3). apply suffix_app.
Qed.

Lemma sub_prefix s a b p :
  a + length p <= b -> prefix p (skipn a s) = true -> prefix p (sub s a b) = true.
Proof.
  intros H1 H2. apply prefix_spec in H2. destruct H2 as [r Hr]. unfold sub. rewrite Hr.
  replace (b - a) with (length p + (b - a - length p)) by lia.
  rewrite firstn_app_2. apply prefix_app.
Qed.

(* ------------------------------------------------------------------------- *)
(** * The element found in one round, relative to the remaining input *)

Definition elem_of (ds de rest : str) : option (nat * nat) :=
  match find_sub ds rest with
  | None => None
  | Some i =>
    match skipn (i + length ds) rest with
    | [] => None
    | b :: _ =>
      match find_sub de (skipn (i + length ds + char_len b) rest) with
      | None => None
      | Some j => Some (i, i + length ds + char_len b + j + length de)
      end
    end
  end.

Lemma scan_S f ds de pos rest : rest <> [] ->
  scan (S f) ds de pos rest =
  match elem_of ds de rest with
  | None => [(false, pos, pos + length rest)]
  | Some (i, e) =>
    (if i =? 0 then [] else [(false, pos, pos + i)])
      ++ (true, pos + i, pos + e) :: scan f ds de (pos + e) (skipn e rest)
  end.
Proof.
  intros Hne. unfold elem_of. cbn [scan]. destruct rest as [|a r]; [congruence|].
  destruct (find_sub ds (a :: r)) as [i|]; [|reflexivity].
  destruct (skipn (i + length ds) (a :: r)) as [|b tl]; [reflexivity|].
  cbv zeta.
  destruct (find_sub de (skipn (i + length ds + char_len b) (a :: r))) as [j|]; reflexivity.
Qed.

Lemma scan_nil f ds de pos : scan f ds de pos [] = [].
Proof. destruct f; reflexivity. Qed.

Lemma elem_of_some ds de rest i e : elem_of ds de rest = Some (i, e) ->
  prefix ds (skipn i rest) = true /\
  exists m, i + length ds < m /\ e = m + length de /\ prefix de (skipn m rest) = true.
Proof.
  unfold elem_of. intros H.
  destruct (find_sub ds rest) as [i'|] eqn:F; [|discriminate H].
  destruct (skipn (i' + length ds) rest) as [|b tl] eqn:S2; [discriminate H|].
  destruct (find_sub de (skipn (i' + length ds + char_len b) rest)) as [j|] eqn:F2;
    [|discriminate H].
  inversion H; subst. clear H.
  apply find_sub_occurs in F. destruct F as [_ Fp].
  apply find_sub_occurs in F2. destruct F2 as [_ Fp2].
  split; [exact Fp|].
  exists (i + length ds + char_len b + j). rewrite skipn_add in Fp2.
  pose proof (char_len_pos b) as Hc.
  split; [lia|]. split; [reflexivity | exact Fp2].
Qed.

Lemma find_element_ok s ds de bp r : find_element s ds de bp = Ok r ->
  r = match elem_of ds de (skipn bp s) with
      | None => None
      | Some (i, e) => Some (bp + i, bp + e)
      end.
Proof.
  unfold find_element, elem_of. intros H.
  apply bind_ok in H. destruct H as [r1 [H1 H]].
  apply slice_from_ok in H1. destruct H1 as (_ & _ & ->).
  destruct (find_sub ds (skipn bp s)) as [i|] eqn:F; [|inversion H; reflexivity].
  cbv zeta in H.
  apply bind_ok in H. destruct H as [r2 [H2 H]].
  apply slice_from_ok in H2. destruct H2 as (_ & _ & ->).
  rewrite skipn_add. rewrite <- Nat.add_assoc in H.
  destruct (skipn (bp + (i + length ds)) s) as [|b tl] eqn:S2; [inversion H; reflexivity|].
  apply bind_ok in H. destruct H as [r3 [H3 H]].
  apply slice_from_ok in H3. destruct H3 as (_ & _ & ->).
  rewrite skipn_add.
  replace (bp + (i + length ds + char_len b)) with (bp + (i + length ds) + char_len b) by lia.
  destruct (find_sub de (skipn (bp + (i + length ds) + char_len b) s)) as [j|] eqn:F2;
    inversion H; subst; [|reflexivity].
  f_equal. f_equal. lia.
Qed.

(* ------------------------------------------------------------------------- *)
(** * One round of the loop *)

Lemma tok_loop_end f s ds de acc pos ts :
  tok_loop f s ds de acc pos (length s) = Ok ts -> ts = acc.
Proof.
  destruct f as [|f]; cbn [tok_loop]; intros H; [discriminate H|].
  rewrite Nat.ltb_irrefl in H. inversion H; reflexivity.
Qed.

Lemma tok_loop_done f s ds de acc pos bp ts :
  length s <= bp -> tok_loop f s ds de acc pos bp = Ok ts -> ts = acc.
Proof.
  intros Hle. destruct f as [|f]; cbn [tok_loop]; intros H; [discriminate H|].
  destruct (Nat.ltb_spec bp (length s)) as [L|L]; [lia|]. inversion H; reflexivity.
Qed.

Definition text_tok (s : str) (pos a b : nat) : token :=
  mkToken false (sub s a b) pos a (pos + count_chars (sub s a b)) b.
Definition elem_tok (s : str) (pos a b : nat) : token :=
  mkToken true (sub s a b) pos a (pos + count_chars (sub s a b)) b.

Lemma push_span_lt s tokens pos bp kind a b r :
  a < b -> push_span s (tokens, pos, bp) (kind, a, b) = Ok r ->
  slice s a b = Ok (sub s a b) /\
  r = (tokens ++ [mkToken kind (sub s a b) pos a (pos + count_chars (sub s a b)) b],
       pos + count_chars (sub s a b), b).
Proof.
  intros Hlt H. unfold push_span in H.
  apply Nat.ltb_lt in Hlt. rewrite Hlt in H.
  apply bind_ok in H. destruct H as [v [Hs H]].
  pose proof (slice_ok _ _ _ _ Hs) as (_ & _ & _ & _ & ->).
  inversion H; subst. auto.
Qed.

Lemma push_span_ge s st kind a b : b <= a -> push_span s st (kind, a, b) = Ok st.
Proof.
  intros Hle. unfold push_span. destruct st as [[tokens pos] bp].
  destruct (Nat.ltb_spec a b) as [L|L]; [lia | reflexivity].
Qed.

(** What one iteration does, in terms of [elem_of]. *)
Lemma tok_loop_step f s ds de acc pos bp ts :
  bp < length s ->
  tok_loop (S f) s ds de acc pos bp = Ok ts ->
  match elem_of ds de (skipn bp s) with
  | None =>
    slice s bp (length s) = Ok (sub s bp (length s)) /\
    ts = acc ++ [text_tok s pos bp (length s)]
  | Some (i, e) =>
    exists pre pos',
      ((i = 0 /\ pre = [] /\ pos' = pos) \/
       (i <> 0 /\ slice s bp (bp + i) = Ok (sub s bp (bp + i)) /\
        pre = [text_tok s pos bp (bp + i)] /\
        pos' = pos + count_chars (sub s bp (bp + i)))) /\
      i < e /\
      slice s (bp + i) (bp + e) = Ok (sub s (bp + i) (bp + e)) /\
      tok_loop f s ds de ((acc ++ pre) ++ [elem_tok s pos' (bp + i) (bp + e)])
               (pos' + count_chars (sub s (bp + i) (bp + e))) (bp + e) = Ok ts
  end.
Proof.
  intros Hlt H. cbn [tok_loop] in H.
  pose proof Hlt as Hlt'. apply Nat.ltb_lt in Hlt'. rewrite Hlt' in H. clear Hlt'.
  apply bind_ok in H. destruct H as [el [He H]].
  apply find_element_ok in He.
  destruct (elem_of ds de (skipn bp s)) as [[i e]|] eqn:EO.
  - subst el.
    apply elem_of_some in EO. destruct EO as (_ & m & Hm1 & Hm2 & _).
    assert (i < e) as Hie by lia.
    apply bind_ok in H. destruct H as [[[tokens' pos'] bp'] [Hf H]].
    cbn [foldM] in Hf.
    apply bind_ok in Hf. destruct Hf as [st1 [Hp1 Hf]].
    apply bind_ok in Hf. destruct Hf as [st2 [Hp2 Hf]].
    inversion Hf; subst st2; clear Hf.
    destruct (Nat.eq_dec i 0) as [Hi|Hi].
    + subst i. rewrite push_span_ge in Hp1 by lia. inversion Hp1; subst st1; clear Hp1.
      apply push_span_lt in Hp2; [|lia]. destruct Hp2 as [Hs2 Hr2].
      inversion Hr2; subst; clear Hr2.
      exists [], pos. split; [left; auto|]. split; [exact Hie|]. split; [exact Hs2|].
      rewrite app_nil_r. exact H.
    + apply push_span_lt in Hp1; [|lia]. destruct Hp1 as [Hs1 Hr1]. subst st1.
      apply push_span_lt in Hp2; [|lia]. destruct Hp2 as [Hs2 Hr2].
      inversion Hr2; subst; clear Hr2.
      exists [text_tok s pos bp (bp + i)], (pos + count_chars (sub s bp (bp + i))).
      split; [right; auto|]. split; [exact Hie|]. split; [exact Hs2|]. exact H.
  - subst el.
    apply bind_ok in H. destruct H as [[[tokens' pos'] bp'] [Hf H]].
    cbn [foldM] in Hf.
    apply bind_ok in Hf. destruct Hf as [st1 [Hp1 Hf]].
    apply bind_ok in Hf. destruct Hf as [st2 [Hp2 Hf]].
    inversion Hf; subst st2; clear Hf.
    rewrite push_span_ge in Hp1 by lia. inversion Hp1; subst st1; clear Hp1.
    apply push_span_lt in Hp2; [|lia]. destruct Hp2 as [Hs2 Hr2].
    inversion Hr2; subst; clear Hr2.
    apply tok_loop_end in H. subst ts. split; [exact Hs2 | reflexivity].
Qed.

(* ------------------------------------------------------------------------- *)
(** * C08 *)

Lemma skipn_nonempty (s : str) bp : bp < length s -> skipn bp s <> [].
Proof.
  intros H E. apply (f_equal (@length byte)) in E. rewrite skipn_length in E.
  cbn [length] in E. lia.
Qed.

Lemma tok_loop_scan s ds de : forall fuel acc pos bp ts,
  tok_loop fuel s ds de acc pos bp = Ok ts ->
  map span_of ts = map span_of acc ++ scan fuel ds de bp (skipn bp s).
Proof.
  induction fuel as [|f IH]; intros acc pos bp ts H; [discriminate H|].
  destruct (Nat.lt_ge_cases bp (length s)) as [L|L].
  - rewrite scan_S by (apply skipn_nonempty; exact L).
    apply tok_loop_step in H; [|exact L].
    destruct (elem_of ds de (skipn bp s)) as [[i e]|] eqn:EO.
    + destruct H as (pre & pos' & Hpre & Hie & Hs2 & H).
      apply IH in H. rewrite H. rewrite !map_app. rewrite skipn_add.
      rewrite <- !app_assoc. f_equal.
      destruct Hpre as [(-> & -> & ->) | (Hi & _ & -> & ->)].
      * reflexivity.
      * apply Nat.eqb_neq in Hi. rewrite Hi. reflexivity.
    + destruct H as [_ ->]. rewrite map_app. f_equal.
      rewrite skipn_length. cbn [map span_of text_tok tk_elem tk_bstart tk_bend].
      unfold span_of, text_tok; cbn [tk_elem tk_bstart tk_bend].
      replace (bp + (length s - bp)) with (length s) by lia. reflexivity.
  - apply tok_loop_done in H; [|exact L]. subst ts.
    rewrite skipn_all2 by exact L. rewrite scan_nil, app_nil_r. reflexivity.
Qed.

Theorem tokenize_scan : forall s ds de ts,
  tokenize s ds de = Ok ts -> map span_of ts = scan_spans s ds de.
Proof.
  intros s ds de ts H. unfold tokenize in H. apply tok_loop_scan in H.
  exact H.
Qed.

(* ------------------------------------------------------------------------- *)
(** * C07 *)

Fixpoint chained (b p : nat) (ts : list token) : Prop :=
  match ts with [] => True | t :: r => tk_bstart t = b /\ tk_start t = p /\ chained (tk_bend t) (tk_end t) r end.
Fixpoint last_bend (b : nat) (ts : list token) : nat := match ts with [] => b | t :: r => last_bend (tk_bend t) r end.
Fixpoint no_adjacent_text (ts : list token) : Prop :=
  match ts with t1 :: ((t2 :: _) as r) => (tk_elem t1 = false -> tk_elem t2 = true) /\ no_adjacent_text r | _ => True end.
Definition token_ok (s ds de : str) (t : token) : Prop :=
  tk_bstart t < tk_bend t /\ tk_bend t <= length s /\
  tk_value t = sub s (tk_bstart t) (tk_bend t) /\
  is_boundary s (tk_bstart t) = true /\ is_boundary s (tk_bend t) = true /\
  tk_end t = tk_start t + count_chars (tk_value t) /\
  (tk_elem t = true -> prefix ds (tk_value t) = true /\ suffix de (tk_value t) = true).

Definition part_ok (s ds de : str) (bp pos : nat) (new : list token) : Prop :=
  concat (map tk_value new) = skipn bp s /\ chained bp pos new /\
  last_bend bp new = length s /\ no_adjacent_text new /\
  (forall t, In t new -> token_ok s ds de t).

Lemma no_adjacent_text_cons_elem t r :
  tk_elem t = true -> no_adjacent_text r -> no_adjacent_text (t :: r).
Proof.
  intros Ht Hr. destruct r as [|t2 r]; cbn [no_adjacent_text]; [exact I|].
  split; [intros Hf; congruence | exact Hr].
Qed.

Lemma text_tok_ok s ds de pos a b :
  a < b -> slice s a b = Ok (sub s a b) -> token_ok s ds de (text_tok s pos a b).
Proof.
  intros Hlt Hs. apply slice_ok in Hs. destruct Hs as (_ & Hb & Hba & Hbb & _).
  unfold token_ok, text_tok; cbn [tk_elem tk_value tk_start tk_bstart tk_end tk_bend].
  repeat split; auto. all: discriminate.
Qed.

Lemma elem_tok_ok s ds de pos bp i e :
  elem_of ds de (skipn bp s) = Some (i, e) ->
  slice s (bp + i) (bp + e) = Ok (sub s (bp + i) (bp + e)) ->
  token_ok s ds de (elem_tok s pos (bp + i) (bp + e)).
Proof.
  intros EO Hs. apply slice_ok in Hs. destruct Hs as (_ & Hb & Hba & Hbb & _).
  apply elem_of_some in EO. destruct EO as (Hp & m & Hm1 & Hm2 & Hp2).
  rewrite skipn_add in Hp, Hp2.
  unfold token_ok, elem_tok; cbn [tk_elem tk_value tk_start tk_bstart tk_end tk_bend].
  split; [lia|]. split; [exact Hb|]. split; [reflexivity|]. split; [exact Hba|].
  split; [exact Hbb|]. split; [reflexivity|]. intros _. split.
  - apply sub_prefix; [lia | exact Hp].
  - subst e. replace (bp + (m + length de)) with ((bp + m) + length de) in * by lia.
    apply sub_suffix; [lia | lia | exact Hp2].
Qed.

Lemma tok_loop_partition s ds de : forall fuel acc pos bp ts,
  bp <= length s ->
  tok_loop fuel s ds de acc pos bp = Ok ts ->
  exists new, ts = acc ++ new /\ part_ok s ds de bp pos new.
Proof.
  induction fuel as [|f IH]; intros acc pos bp ts Hbp H; [discriminate H|].
  destruct (Nat.lt_ge_cases bp (length s)) as [L|L].
  - pose proof (tok_loop_step _ _ _ _ _ _ _ _ L H) as Hst.
    destruct (elem_of ds de (skipn bp s)) as [[i e]|] eqn:EO.
    + destruct Hst as (pre & pos' & Hpre & Hie & Hs2 & Hrec).
      pose proof (slice_ok _ _ _ _ Hs2) as (_ & Hle & _ & _ & _).
      apply IH in Hrec; [|exact Hle].
      destruct Hrec as (new' & -> & Hc & Hch & Hlb & Hna & Hall).
      pose proof (elem_tok_ok s ds de pos' bp i e EO Hs2) as Hok2.
      exists (pre ++ elem_tok s pos' (bp + i) (bp + e) :: new').
      split; [rewrite <- !app_assoc; reflexivity|].
      assert (no_adjacent_text (elem_tok s pos' (bp + i) (bp + e) :: new')) as Hna2
        by (apply no_adjacent_text_cons_elem; [reflexivity | exact Hna]).
      destruct Hpre as [(-> & -> & ->) | (Hi & Hs1 & -> & ->)].
      * rewrite Nat.add_0_r in *. cbn [app].
        unfold part_ok. cbn [map concat chained last_bend].
        unfold elem_tok; cbn [tk_elem tk_value tk_start tk_bstart tk_end tk_bend].
        split; [rewrite Hc; apply sub_skipn; lia|].
        split; [auto|]. split; [exact Hlb|]. split; [exact Hna2|].
        intros t [<- | Ht]; [exact Hok2 | apply Hall; exact Ht].
      * cbn [app]. unfold part_ok. cbn [map concat chained last_bend].
        unfold elem_tok, text_tok;
          cbn [tk_elem tk_value tk_start tk_bstart tk_end tk_bend].
        split; [rewrite Hc, sub_skipn by lia; apply sub_skipn; lia|].
        split; [auto|]. split; [exact Hlb|].
        split; [cbn [no_adjacent_text]; split; [reflexivity | exact Hna2]|].
        intros t [<- | [<- | Ht]];
          [apply text_tok_ok; [lia | exact Hs1] | exact Hok2 | apply Hall; exact Ht].
    + destruct Hst as [Hs ->]. exists [text_tok s pos bp (length s)].
      split; [reflexivity|]. unfold part_ok. cbn [map concat chained last_bend no_adjacent_text].
      unfold text_tok; cbn [tk_elem tk_value tk_start tk_bstart tk_end tk_bend].
      split; [rewrite app_nil_r; apply sub_to_end|].
      split; [auto|]. split; [reflexivity|]. split; [exact I|].
      intros t [<- | []]. apply text_tok_ok; [exact L | exact Hs].
  - apply tok_loop_done in H; [|exact L]. subst ts. exists [].
    split; [rewrite app_nil_r; reflexivity|].
    assert (bp = length s) as -> by lia.
    unfold part_ok. cbn [map concat chained last_bend no_adjacent_text].
    rewrite skipn_all. split; [reflexivity|]. split; [exact I|]. split; [reflexivity|].
    split; [exact I|]. intros t [].
Qed.

Theorem tokenize_partition : forall s ds de ts, tokenize s ds de = Ok ts ->
  concat (map tk_value ts) = s /\ chained 0 0 ts /\ last_bend 0 ts = length s /\
  no_adjacent_text ts /\ (forall t, In t ts -> token_ok s ds de t).
Proof.
  intros s ds de ts H. unfold tokenize in H.
  apply tok_loop_partition in H; [|lia].
  destruct H as (new & -> & H). cbn [app]. exact H.
Qed.

(* ------------------------------------------------------------------------- *)
(** * C01 for the tokenizer stage *)

Lemma push_span_lt_intro s tokens pos bp kind a b :
  a < b -> b <= length s -> is_boundary s a = true -> is_boundary s b = true ->
  push_span s (tokens, pos, bp) (kind, a, b) =
  Ok (tokens ++ [mkToken kind (sub s a b) pos a (pos + count_chars (sub s a b)) b],
      pos + count_chars (sub s a b), b).
Proof.
  intros Hlt Hle Ha Hb. unfold push_span.
  pose proof Hlt as Hlt'. apply Nat.ltb_lt in Hlt'. rewrite Hlt'.
  rewrite slice_intro by (try lia; assumption). reflexivity.
Qed.

Lemma foldM_two {A B} (f : A -> B -> res A) x y a a1 a2 :
  f a x = Ok a1 -> f a1 y = Ok a2 -> foldM f [x; y] a = Ok a2.
Proof. intros H1 H2. cbn [foldM]. rewrite H1. cbn [bind]. rewrite H2. reflexivity. Qed.

(** On well-formed input [find_element] does not panic, and what it finds lies on boundaries. *)
Lemma find_element_total s ds de bp :
  WF s -> WF ds -> WF de -> ds <> [] -> de <> [] ->
  bp <= length s -> WF (skipn bp s) ->
  exists r, find_element s ds de bp = Ok r /\
    match r with
    | None => True
    | Some (es, ee) =>
      bp <= es /\ es < ee /\ ee <= length s /\ WF (skipn es s) /\ WF (skipn ee s)
    end.
Proof.
  intros Hs Hds Hde Nds Nde Hbp Hw. unfold find_element.
  rewrite slice_from_intro by (try apply WF_boundary; assumption). cbn [bind].
  destruct (find_sub ds (skipn bp s)) as [i|] eqn:F; [|exists None; auto].
  cbv zeta.
  apply find_sub_occurs in F. destruct F as [_ Fp]. rewrite skipn_add in Fp.
  destruct (WF_occurrence s ds (bp + i) Hs Hds Nds Fp) as (Hw1 & Hw2 & Hl2).
  rewrite slice_from_intro by (try apply WF_boundary; assumption). cbn [bind].
  destruct (skipn (bp + i + length ds) s) as [|b tl] eqn:S2; [exists None; auto|].
  pose proof (WF_skip_char b tl Hw2) as Hw3.
  destruct Hw3 as [Hl3 Hw3]. rewrite <- S2 in Hl3, Hw3.
  rewrite skipn_length in Hl3. rewrite skipn_add in Hw3.
  assert (bp + i + length ds < length s) as Hlt.
  { apply (f_equal (@length byte)) in S2. rewrite skipn_length in S2. cbn [length] in S2. lia. }
  assert (bp + i + length ds + char_len b <= length s) as Hl3' by lia.
  rewrite slice_from_intro by (try apply WF_boundary; assumption). cbn [bind].
  destruct (find_sub de (skipn (bp + i + length ds + char_len b) s)) as [j|] eqn:F2;
    [|exists None; auto].
  apply find_sub_occurs in F2. destruct F2 as [_ Fp2]. rewrite skipn_add in Fp2.
  destruct (WF_occurrence s de _ Hs Hde Nde Fp2) as (_ & Hw4 & Hl4).
  eexists. split; [reflexivity|]. cbv beta iota.
  pose proof (char_len_pos b) as Hc.
  split; [lia|]. split; [lia|]. split; [exact Hl4|]. split; [exact Hw1 | exact Hw4].
Qed.

Lemma tok_loop_total s ds de :
  WF s -> WF ds -> WF de -> ds <> [] -> de <> [] ->
  forall fuel acc pos bp,
    bp <= length s -> WF (skipn bp s) -> length s - bp < fuel ->
    exists ts, tok_loop fuel s ds de acc pos bp = Ok ts.
Proof.
  intros Hs Hds Hde Nds Nde.
  induction fuel as [|f IH]; intros acc pos bp Hbp Hw Hf; [lia|].
  cbn [tok_loop]. destruct (Nat.ltb_spec bp (length s)) as [L|L]; [|eexists; reflexivity].
  destruct (find_element_total s ds de bp Hs Hds Hde Nds Nde Hbp Hw) as (r & Hfe & Hr).
  rewrite Hfe. cbn [bind].
  pose proof (WF_boundary s bp Hbp Hw) as Bbp.
  destruct r as [[es ee]|].
  - destruct Hr as (H1 & H2 & H3 & Hwes & Hwee).
    assert (is_boundary s es = true) as Bes by (apply WF_boundary; [lia | exact Hwes]).
    assert (is_boundary s ee = true) as Bee by (apply WF_boundary; [lia | exact Hwee]).
    destruct (Nat.eq_dec bp es) as [E|E].
    + subst es.
      erewrite foldM_two;
        [| apply push_span_ge; lia
         | apply push_span_lt_intro; [exact H2 | exact H3 | exact Bes | exact Bee]].
      cbn [bind]. apply IH; [exact H3 | exact Hwee | lia].
    + erewrite foldM_two;
        [| apply push_span_lt_intro; [lia | lia | exact Bbp | exact Bes]
         | apply push_span_lt_intro; [exact H2 | exact H3 | exact Bes | exact Bee]].
      cbn [bind]. apply IH; [exact H3 | exact Hwee | lia].
  - erewrite foldM_two;
      [| apply push_span_ge; lia
       | apply push_span_lt_intro;
         [exact L | lia | exact Bbp | apply is_boundary_length]].
    cbn [bind]. apply IH; [lia | rewrite skipn_all; constructor | lia].
Qed.

Theorem tokenize_total : forall s ds de,
  wf_utf8 s = true -> wf_utf8 ds = true -> wf_utf8 de = true ->
  ds <> [] -> de <> [] -> exists ts, tokenize s ds de = Ok ts.
Proof.
  intros s ds de Hs Hds Hde Nds Nde.
  apply wf_utf8_WF in Hs. apply wf_utf8_WF in Hds. apply wf_utf8_WF in Hde.
  unfold tokenize. apply tok_loop_total; try assumption; try lia.
Qed.

Print Assumptions find_sub_leftmost.
Print Assumptions find_sub_none.
Print Assumptions tokenize_scan.
Print Assumptions tokenize_partition.
Print Assumptions tokenize_total.
