(** The document-level theorem for ONE block: a document with exactly one ready element whose
    two tags stand alone on their lines.  [clean] deletes the element (both tags and everything
    between them) and then the seam range that [format_block] computes at the only removed
    position; with [seam_hull] this gives the exact output in the four cases of blank / non-blank
    neighbouring lines. *)
From Coq Require Import List NArith ZArith Arith Bool Lia PeanoNat.
Import ListNotations.
From Chiri Require Import Base.Bytes Base.Res Model.Tokenizer Model.TagParser Model.TreeParser
  Model.Finders Model.Markers Model.Format Model.Clean Spec.Rename Spec.Simulation Spec.Stack
  Spec.Lines
  Proofs.ResLemmas Proofs.BytesLemmas Proofs.Utf8 Proofs.RenameProofs Proofs.SimFlat
  Proofs.SimStrings Proofs.SimFront Proofs.CleanProofs Proofs.SeamProofs.

(* ------------------------------------------------------------------------- *)
(** * The document *)

Definition block_doc (A ind b1 mid b2 Z : str) : list item :=
  [Txt (A ++ NL :: ind); Tag b1; Txt mid; Tag b2; Txt (NL :: Z)].

(** [el2] is a closing tag for [el1]: what [is_closer] and [close_frame] test. *)
Definition closes (el2 el1 : element) : Prop :=
  starts_with_slash (el_name el2) = true /\ trim_slashes (el_name el2) = el_name el1.

(** The usual form: the closer's name is a slash followed by the opener's name, and the opener's
    name does not itself begin with a slash. *)
Lemma closes_slash el1 el2 :
  starts_with_slash (el_name el1) = false -> el_name el2 = SLASH :: el_name el1 -> closes el2 el1.
Proof.
  intros H1 H2. unfold closes. rewrite H2. split; [reflexivity|].
  cbn [trim_slashes]. replace (beq SLASH SLASH) with true by reflexivity.
  destruct (el_name el1) as [|b n]; [reflexivity|]. cbn [starts_with_slash] in H1.
  cbn [trim_slashes]. rewrite H1. reflexivity.
Qed.

(* ------------------------------------------------------------------------- *)
(** * The abstract tree and forest of the document *)

Lemma block_acls A ind b1 mid b2 Z el1 el2 :
  parse_target b1 = Ok (Some el1) -> parse_target b2 = Ok (Some el2) ->
  let doc := block_doc A ind b1 mid b2 Z in
  acls doc 0 = None /\ acls doc 1 = Some el1 /\ acls doc 2 = None /\ acls doc 3 = Some el2 /\
  acls doc 4 = None.
Proof.
  intros P1 P2 doc. unfold acls, doc, block_doc. cbn [nth_error]. rewrite P1, P2.
  repeat split; reflexivity.
Qed.

Lemma block_tree A ind b1 mid b2 Z el1 el2 :
  parse_target b1 = Ok (Some el1) -> parse_target b2 = Ok (Some el2) -> closes el2 el1 ->
  let doc := block_doc A ind b1 mid b2 Z in
  astack_tree (acls doc) (length doc) = [AText 0; AElem el1 1 3 [AText 2]; AText 4].
Proof.
  intros P1 P2 [C1 C2] doc.
  destruct (block_acls A ind b1 mid b2 Z el1 el2 P1 P2) as (E0 & E1 & E2 & E3 & E4).
  fold doc in E0, E1, E2, E3, E4.
  change (length doc) with 5. unfold astack_tree, astack_run. cbn [seq fold_left].
  unfold amstep at 5. rewrite E0. cbn [apush_parts app].
  unfold amstep at 4. rewrite E1. unfold ais_closer at 1. cbn [fst snd existsb].
  rewrite andb_false_r.
  unfold amstep at 3. rewrite E2. cbn [apush_parts af_idx af_el af_children app].
  unfold amstep at 2. rewrite E3. unfold ais_closer. cbn [fst snd existsb af_el].
  rewrite C1, C2, str_eqb_refl. cbn [andb orb aclose_frame af_el af_idx af_children].
  rewrite str_eqb_refl. cbn [apush_parts app].
  unfold amstep. rewrite E4. cbn [apush_parts app afinish]. reflexivity.
Qed.

Lemma block_fstart_lt A ind b1 mid b2 Z :
  let doc := block_doc A ind b1 mid b2 Z in fstart doc 1 < fstart doc 4.
Proof.
  intros doc. unfold fstart, doc, block_doc, flat. cbn [firstn flat_map].
  rewrite !app_length. cbn [flat_item length]. lia.
Qed.

Lemma block_forest cfg A ind b1 mid b2 Z el1 el2 :
  parse_target b1 = Ok (Some el1) -> parse_target b2 = Ok (Some el2) -> closes el2 el1 ->
  status cfg el1 = Some true -> has_attr S_UNWRAP (el_attrs el1) = false ->
  let doc := block_doc A ind b1 mid b2 Z in
  fst (a_collect cfg doc false) = [RT ((fstart doc 1, fstart doc 4), None) []].
Proof.
  intros P1 P2 Hc Hs Hu doc. unfold a_collect. cbn [fst].
  unfold doc. rewrite (block_tree A ind b1 mid b2 Z el1 el2 P1 P2 Hc). fold doc.
  cbn [flat_map a_collect_part fst app].
  unfold a_element_range, a_create. rewrite Hs, Hu.
  pose proof (block_fstart_lt A ind b1 mid b2 Z) as L. fold doc in L.
  apply Nat.ltb_lt in L. rewrite L. reflexivity.
Qed.

(** The item offsets of the rendering. *)
Lemma block_item_starts ds de A ind b1 mid b2 Z :
  let doc := block_doc A ind b1 mid b2 Z in
  item_start ds de doc 1 = length A + 1 + length ind /\
  item_start ds de doc 4 =
    length A + 1 + length ind + length (ds ++ b1 ++ de) + length mid + length (ds ++ b2 ++ de).
Proof.
  intros doc. unfold doc, block_doc. cbn [item_start]. unfold item_len. cbn [render_item].
  rewrite !app_length. cbn [length]. lia.
Qed.

Lemma block_render ds de A ind b1 mid b2 Z :
  render ds de (block_doc A ind b1 mid b2 Z) =
  (A ++ NL :: ind) ++ ((ds ++ b1 ++ de) ++ mid ++ (ds ++ b2 ++ de)) ++ NL :: Z.
Proof.
  unfold render, block_doc. cbn [flat_map render_item]. rewrite app_nil_r, <- !app_assoc. reflexivity.
Qed.

Lemma firstn_skipn_mid {X} (a m z : list X) n k :
  n = length a -> k = length a + length m ->
  firstn n (a ++ m ++ z) ++ skipn k (a ++ m ++ z) = a ++ z.
Proof.
  intros -> ->. rewrite firstn_app, firstn_all, Nat.sub_diag. cbn [firstn]. rewrite app_nil_r.
  f_equal. rewrite app_assoc. rewrite skipn_app, <- app_length, skipn_all, Nat.sub_diag.
  reflexivity.
Qed.

Lemma replace_range_ok s a b r : replace_range s a b = Ok r -> r = firstn a s ++ skipn b s.
Proof.
  unfold replace_range. destruct (_ && _); [|discriminate]. intros E. injection E as E.
  symmetry. exact E.
Qed.

(* ------------------------------------------------------------------------- *)
(** * The main theorem *)

Theorem clean_single_block : forall cfg ds de A ind b1 mid b2 Z el1 el2,
  let doc := block_doc A ind b1 mid b2 Z in
  good_delims ds de -> good_doc ds de doc -> bodies_ok doc ->
  parse_target b1 = Ok (Some el1) -> parse_target b2 = Ok (Some el2) -> closes el2 el1 ->
  status cfg el1 = Some true -> has_attr S_UNWRAP (el_attrs el1) = false ->
  let s' := A ++ NL :: ind ++ NL :: Z in
  let p := length A + 1 + length ind in
  exists a b, format_block s' p = Ok (a, b) /\
     clean cfg ds de (render ds de doc) = Ok (firstn a s' ++ skipn b s').
Proof.
  intros cfg ds de A ind b1 mid b2 Z el1 el2 doc Hg Hd Hb P1 P2 Hc Hs Hu s' p.
  pose proof Hg as (Nds & Nde & Wds & Wde & _).
  destruct (clean_total cfg ds de (render ds de doc) (render_wf ds de doc Hg Hd) Wds Wde Nds Nde)
    as (out & Hout & _).
  destruct (collect_rendered cfg ds de doc false Hg Hd Hb) as (parts & Hf & Hc1 & _).
  pose proof (block_forest cfg A ind b1 mid b2 Z el1 el2 P1 P2 Hc Hs Hu) as Hfo.
  cbv zeta in Hfo. fold doc in Hfo. rewrite Hfo in Hc1. clear Hfo.
  cbn [map map_rtree option_map] in Hc1. unfold map_range in Hc1. cbn [fst snd] in Hc1.
  rewrite !pos_fstart in Hc1 by (cbn; lia).
  destruct (block_item_starts ds de A ind b1 mid b2 Z) as [I1 I4]. fold doc in I1, I4.
  rewrite I1, I4 in Hc1. fold p in Hc1.
  set (k := p + length (ds ++ b1 ++ de) + length mid + length (ds ++ b2 ++ de)) in *.
  assert (markers_of cfg ds de (render ds de doc) = Ok [((p, k), None)]) as Hm.
  { unfold markers_of. rewrite Hf. cbn [bind]. unfold build_remove_marker. rewrite Hc1.
    reflexivity. }
  pose proof Hout as Hclean.
  unfold clean in Hout. rewrite Hm in Hout. cbn [bind] in Hout.
  unfold remove_markers in Hout. cbn [rev app foldM fst snd bind] in Hout.
  destruct (replace_range (render ds de doc) p k) as [removed|] eqn:Er; [|discriminate Hout].
  cbn [bind] in Hout.
  assert (removed = s') as ->.
  { apply replace_range_ok in Er. rewrite Er. unfold doc. rewrite block_render. unfold s'.
    replace (A ++ NL :: ind ++ NL :: Z) with ((A ++ NL :: ind) ++ NL :: Z)
      by (rewrite <- app_assoc; reflexivity).
    apply firstn_skipn_mid.
    - unfold p. rewrite app_length. cbn [length]. lia.
    - unfold k, p. rewrite !app_length. cbn [length]. lia. }
  unfold get_removed_pos in Hout. cbn [foldM bind] in Hout.
  unfold csub in Hout. cbn [Nat.leb] in Hout. cbn [bind] in Hout.
  assert (p <=? k = true) as Lpk by (apply Nat.leb_le; unfold k; lia).
  rewrite Lpk in Hout. cbn [bind app] in Hout. rewrite Nat.sub_0_r in Hout.
  unfold format, format_ranges in Hout. cbn [foldM bind] in Hout.
  destruct (format_block s' p) as [[a b]|] eqn:Ef; [|discriminate Hout].
  exists a, b. split; [reflexivity|].
  cbn [bind app sort_ranges fold_right merge_ranges length Nat.sub rev merge_ranges_loop
       merge_overlapped_ranges fold_left] in Hout.
  unfold delete_ranges_rev in Hout. cbn [rev app foldM fst snd bind] in Hout.
  destruct (replace_range s' a b) as [o|] eqn:Eo; [|discriminate Hout].
  cbn [bind] in Hout. apply replace_range_ok in Eo. rewrite Hclean.
  injection Hout as Hout. rewrite <- Hout, Eo. reflexivity.
Qed.

(** The same with the closing tag spelled as a slash followed by the opener's name. *)
Corollary clean_single_block_slash : forall cfg ds de A ind b1 mid b2 Z el1 el2,
  let doc := block_doc A ind b1 mid b2 Z in
  good_delims ds de -> good_doc ds de doc -> bodies_ok doc ->
  parse_target b1 = Ok (Some el1) -> parse_target b2 = Ok (Some el2) ->
  starts_with_slash (el_name el1) = false -> el_name el2 = SLASH :: el_name el1 ->
  status cfg el1 = Some true -> has_attr S_UNWRAP (el_attrs el1) = false ->
  let s' := A ++ NL :: ind ++ NL :: Z in
  let p := length A + 1 + length ind in
  exists a b, format_block s' p = Ok (a, b) /\
     clean cfg ds de (render ds de doc) = Ok (firstn a s' ++ skipn b s').
Proof.
  intros cfg ds de A ind b1 mid b2 Z el1 el2 doc Hg Hd Hb P1 P2 O1 O2 Hs Hu.
  apply (clean_single_block cfg ds de A ind b1 mid b2 Z el1 el2 Hg Hd Hb P1 P2
           (closes_slash el1 el2 O1 O2) Hs Hu).
Qed.

(* ------------------------------------------------------------------------- *)
(** * The seam of the remaining text *)

Lemma is_blank_not_nl b : is_blank b = true -> b <> NL.
Proof. intros H E. subst b. discriminate H. Qed.

Lemma is_ws_false b : is_ws b = false -> is_blank b = false /\ b <> NL.
Proof.
  unfold is_ws, is_blank. intros H. apply orb_false_iff in H. destruct H as [H1 H2].
  split; [exact H1|]. intros E. subst b. discriminate H2.
Qed.

(** [s' = A ++ NL :: ind ++ NL :: Z] satisfies the premises of [seam_hull] at
    [ls = length A + 1], [p = length A + 1 + length ind]. *)
Lemma block_seam A ind Z :
  wf_utf8 (A ++ NL :: ind) = true -> wf_utf8 (NL :: Z) = true ->
  Forall (fun c => is_blank c = true) ind ->
  let s' := A ++ NL :: ind ++ NL :: Z in
  let ls := length A + 1 in
  let p := length A + 1 + length ind in
  wf_utf8 s' = true /\ nth_error s' p = Some NL /\ is_boundary s' p = true /\
  1 <= ls /\ ls <= p /\ nth_error s' (ls - 1) = Some NL /\
  (forall i b, ls <= i -> i < p -> nth_error s' i = Some b -> is_blank b = true).
Proof.
  intros W1 W2 Hbl s' ls p.
  assert (nth_error s' p = Some NL) as Np.
  { unfold s', p. rewrite nth_error_app2 by lia.
    replace (length A + 1 + length ind - length A) with (S (length ind)) by lia.
    cbn [nth_error]. rewrite nth_error_app2 by lia. rewrite Nat.sub_diag. reflexivity. }
  split.
  { apply wf_utf8_WF. unfold s'.
    replace (A ++ NL :: ind ++ NL :: Z) with ((A ++ NL :: ind) ++ NL :: Z)
      by (rewrite <- app_assoc; reflexivity).
    apply WF_app; apply wf_utf8_WF; assumption. }
  split; [exact Np|]. split; [apply NL_boundary; exact Np|].
  split; [unfold ls; lia|]. split; [unfold ls, p; lia|]. split.
  { unfold s', ls. rewrite nth_error_app2 by lia.
    replace (length A + 1 - 1 - length A) with 0 by lia. reflexivity. }
  intros i b H1 H2 Hn. unfold s', ls, p in *. rewrite nth_error_app2 in Hn by lia.
  destruct (i - length A) as [|j] eqn:Ej; [lia|]. cbn [nth_error] in Hn.
  rewrite nth_error_app1 in Hn by lia.
  rewrite Forall_forall in Hbl. apply Hbl. apply (nth_error_In _ _ Hn).
Qed.

(** The remaining text split at the seam. *)
Lemma block_split A ind Z :
  A ++ NL :: ind ++ NL :: Z = (A ++ [NL]) ++ (ind ++ [NL]) ++ Z.
Proof. rewrite <- !app_assoc. reflexivity. Qed.

(* ------------------------------------------------------------------------- *)
(** * The four cases of [seam_hull] *)

(** Neither neighbour line blank: the block leaves no line and no blank-line residue. *)
Corollary clean_single_block_neither : forall cfg ds de A ind b1 mid b2 Z el1 el2,
  let doc := block_doc A ind b1 mid b2 Z in
  good_delims ds de -> good_doc ds de doc -> bodies_ok doc ->
  parse_target b1 = Ok (Some el1) -> parse_target b2 = Ok (Some el2) -> closes el2 el1 ->
  status cfg el1 = Some true -> has_attr S_UNWRAP (el_attrs el1) = false ->
  Forall (fun c => is_blank c = true) ind ->
  let s' := A ++ NL :: ind ++ NL :: Z in
  let ls := length A + 1 in
  let p := length A + 1 + length ind in
  prev_line_not_blank s' ls -> next_line_not_blank s' p ->
  clean cfg ds de (render ds de doc) = Ok (A ++ NL :: Z).
Proof.
  intros cfg ds de A ind b1 mid b2 Z el1 el2 doc Hg Hd Hb P1 P2 Hc Hs Hu Hbl s' ls p Hp Hn.
  destruct (clean_single_block cfg ds de A ind b1 mid b2 Z el1 el2 Hg Hd Hb P1 P2 Hc Hs Hu)
    as (a & b & Ef & Ec).
  pose proof Hd as (_ & _ & Wt & _).
  destruct (block_seam A ind Z (Wt _ (or_introl eq_refl))
              (Wt _ (or_intror (or_intror (or_intror (or_intror (or_introl eq_refl)))))) Hbl)
    as (Ws & Np & Bp & L1 & L2 & Nl & Hblk).
  destruct (seam_hull _ _ _ Ws Np Bp L1 L2 Nl Hblk) as (H1 & _).
  assert (Ok (a, b) = Ok (ls, p + 1)) as E by (rewrite <- Ef; exact (H1 Hp Hn)).
  injection E as -> ->.
  transitivity (Ok (firstn ls s' ++ skipn (p + 1) s')); [exact Ec|].
  f_equal. unfold s'. rewrite block_split.
  rewrite firstn_skipn_mid.
  - rewrite <- app_assoc. reflexivity.
  - unfold ls. rewrite app_length. reflexivity.
  - unfold p. rewrite !app_length. cbn [length]. lia.
Qed.

(** Only the previous line blank (it follows the line break at [q]): that blank line and the
    indentation go, the line break at [p] stays. *)
Corollary clean_single_block_prev : forall cfg ds de A ind b1 mid b2 Z el1 el2 q,
  let doc := block_doc A ind b1 mid b2 Z in
  good_delims ds de -> good_doc ds de doc -> bodies_ok doc ->
  parse_target b1 = Ok (Some el1) -> parse_target b2 = Ok (Some el2) -> closes el2 el1 ->
  status cfg el1 = Some true -> has_attr S_UNWRAP (el_attrs el1) = false ->
  Forall (fun c => is_blank c = true) ind ->
  let s' := A ++ NL :: ind ++ NL :: Z in
  let ls := length A + 1 in
  let p := length A + 1 + length ind in
  prev_line_blank s' ls q -> next_line_not_blank s' p ->
  clean cfg ds de (render ds de doc) = Ok (firstn (q + 1) s' ++ skipn p s') /\
  firstn (q + 1) s' ++ skipn p s' = firstn (q + 1) A ++ NL :: Z.
Proof.
  intros cfg ds de A ind b1 mid b2 Z el1 el2 q doc Hg Hd Hb P1 P2 Hc Hs Hu Hbl s' ls p Hp Hn.
  destruct (clean_single_block cfg ds de A ind b1 mid b2 Z el1 el2 Hg Hd Hb P1 P2 Hc Hs Hu)
    as (a & b & Ef & Ec).
  pose proof Hd as (_ & _ & Wt & _).
  destruct (block_seam A ind Z (Wt _ (or_introl eq_refl))
              (Wt _ (or_intror (or_intror (or_intror (or_intror (or_introl eq_refl)))))) Hbl)
    as (Ws & Np & Bp & L1 & L2 & Nl & Hblk).
  destruct (seam_hull _ _ _ Ws Np Bp L1 L2 Nl Hblk) as (_ & H2 & _).
  assert (Ok (a, b) = Ok (q + 1, p)) as E by (rewrite <- Ef; exact (H2 q Hp Hn)).
  injection E as -> ->. split; [exact Ec|].
  destruct Hp as (Q1 & _). unfold ls in Q1. f_equal.
  - unfold s'. rewrite firstn_app. replace (q + 1 - length A) with 0 by lia.
    cbn [firstn]. apply app_nil_r.
  - unfold s', p. rewrite skipn_app. rewrite skipn_all2 by lia.
    replace (length A + 1 + length ind - length A) with (S (length ind)) by lia.
    cbn [skipn app]. rewrite skipn_app, skipn_all, Nat.sub_diag. reflexivity.
Qed.

(** Only the next line blank (it ends with the line break at [q']): the indentation, the line
    break at [p] and the content of the next line go. *)
Corollary clean_single_block_next : forall cfg ds de A ind b1 mid b2 Z el1 el2 q',
  let doc := block_doc A ind b1 mid b2 Z in
  good_delims ds de -> good_doc ds de doc -> bodies_ok doc ->
  parse_target b1 = Ok (Some el1) -> parse_target b2 = Ok (Some el2) -> closes el2 el1 ->
  status cfg el1 = Some true -> has_attr S_UNWRAP (el_attrs el1) = false ->
  Forall (fun c => is_blank c = true) ind ->
  let s' := A ++ NL :: ind ++ NL :: Z in
  let ls := length A + 1 in
  let p := length A + 1 + length ind in
  prev_line_not_blank s' ls -> next_line_blank s' p q' ->
  clean cfg ds de (render ds de doc) = Ok (firstn ls s' ++ skipn q' s') /\
  firstn ls s' ++ skipn q' s' = A ++ NL :: skipn (q' - (p + 1)) Z.
Proof.
  intros cfg ds de A ind b1 mid b2 Z el1 el2 q' doc Hg Hd Hb P1 P2 Hc Hs Hu Hbl s' ls p Hp Hn.
  destruct (clean_single_block cfg ds de A ind b1 mid b2 Z el1 el2 Hg Hd Hb P1 P2 Hc Hs Hu)
    as (a & b & Ef & Ec).
  pose proof Hd as (_ & _ & Wt & _).
  destruct (block_seam A ind Z (Wt _ (or_introl eq_refl))
              (Wt _ (or_intror (or_intror (or_intror (or_intror (or_introl eq_refl)))))) Hbl)
    as (Ws & Np & Bp & L1 & L2 & Nl & Hblk).
  destruct (seam_hull _ _ _ Ws Np Bp L1 L2 Nl Hblk) as (_ & _ & H3 & _).
  assert (Ok (a, b) = Ok (ls, q')) as E by (rewrite <- Ef; exact (H3 q' Hp Hn)).
  injection E as -> ->. split; [exact Ec|].
  destruct Hn as (Q1 & _). unfold p in Q1.
  replace (A ++ NL :: skipn (q' - (p + 1)) Z) with ((A ++ [NL]) ++ skipn (q' - (p + 1)) Z)
    by (rewrite <- app_assoc; reflexivity).
  unfold s'. rewrite block_split. f_equal.
  - replace ls with (length (A ++ [NL])) by (rewrite app_length; reflexivity).
    rewrite firstn_app, firstn_all, Nat.sub_diag. cbn [firstn]. apply app_nil_r.
  - rewrite app_assoc, skipn_app. rewrite skipn_all2 by (rewrite !app_length; cbn [length]; lia).
    cbn [app]. f_equal. unfold p. rewrite !app_length. cbn [length]. lia.
Qed.

(** Both neighbour lines blank. *)
Corollary clean_single_block_both : forall cfg ds de A ind b1 mid b2 Z el1 el2 q q',
  let doc := block_doc A ind b1 mid b2 Z in
  good_delims ds de -> good_doc ds de doc -> bodies_ok doc ->
  parse_target b1 = Ok (Some el1) -> parse_target b2 = Ok (Some el2) -> closes el2 el1 ->
  status cfg el1 = Some true -> has_attr S_UNWRAP (el_attrs el1) = false ->
  Forall (fun c => is_blank c = true) ind ->
  let s' := A ++ NL :: ind ++ NL :: Z in
  let ls := length A + 1 in
  let p := length A + 1 + length ind in
  prev_line_blank s' ls q -> next_line_blank s' p q' ->
  clean cfg ds de (render ds de doc) = Ok (firstn (q + 1) s' ++ skipn q' s') /\
  firstn (q + 1) s' ++ skipn q' s' = firstn (q + 1) A ++ skipn (q' - (p + 1)) Z.
Proof.
  intros cfg ds de A ind b1 mid b2 Z el1 el2 q q' doc Hg Hd Hb P1 P2 Hc Hs Hu Hbl s' ls p Hp Hn.
  destruct (clean_single_block cfg ds de A ind b1 mid b2 Z el1 el2 Hg Hd Hb P1 P2 Hc Hs Hu)
    as (a & b & Ef & Ec).
  pose proof Hd as (_ & _ & Wt & _).
  destruct (block_seam A ind Z (Wt _ (or_introl eq_refl))
              (Wt _ (or_intror (or_intror (or_intror (or_intror (or_introl eq_refl)))))) Hbl)
    as (Ws & Np & Bp & L1 & L2 & Nl & Hblk).
  destruct (seam_hull _ _ _ Ws Np Bp L1 L2 Nl Hblk) as (_ & _ & _ & H4).
  assert (Ok (a, b) = Ok (q + 1, q')) as E by (rewrite <- Ef; exact (H4 q q' Hp Hn)).
  injection E as -> ->. split; [exact Ec|].
  destruct Hp as (Q0 & _). unfold ls in Q0. destruct Hn as (Q1 & _). unfold p in Q1. f_equal.
  - unfold s'. rewrite firstn_app. replace (q + 1 - length A) with 0 by lia.
    cbn [firstn]. apply app_nil_r.
  - unfold s'. rewrite block_split.
    rewrite app_assoc, skipn_app. rewrite skipn_all2 by (rewrite !app_length; cbn [length]; lia).
    cbn [app]. f_equal. unfold p. rewrite !app_length. cbn [length]. lia.
Qed.

(* ------------------------------------------------------------------------- *)
(** * Simple sufficient conditions on [A] and [Z] *)

(** The last line of [A] (the line before the opening tag's line) contains a byte that is not
    whitespace; or [A] is a single line (then no line break precedes it, and the formatters do not
    count it as a blank line whatever it contains, see [ex_prev_unpreceded]). *)
Definition last_line_not_blank (A : str) : Prop :=
  ~ In NL A \/ exists A0 c t, A = A0 ++ c :: t /\ is_ws c = false /\ ~ In NL t.

(** The first line of [Z] (the line after the closing tag's line) contains a byte that is not
    whitespace; or [Z] is a single unterminated line (see [ex_next_unterminated]). *)
Definition first_line_not_blank (Z : str) : Prop :=
  ~ In NL Z \/ exists t c Z0, Z = t ++ c :: Z0 /\ is_ws c = false /\ ~ In NL t.

Lemma prev_line_not_blank_simple A rest :
  last_line_not_blank A -> prev_line_not_blank (A ++ rest) (length A + 1).
Proof.
  intros HA q (Q1 & Nq & Hb). assert (q < length A) as Lq by lia.
  rewrite nth_error_app1 in Nq by exact Lq.
  destruct HA as [HA | (A0 & c & t & -> & Hc & Ht)].
  { apply HA. apply (nth_error_In _ _ Nq). }
  destruct (is_ws_false c Hc) as [Hcb Hcn].
  pose proof (app_length A0 (c :: t)) as EL. cbn [length] in EL.
  destruct (Nat.lt_trichotomy q (length A0)) as [L | [L | L]].
  - assert (is_blank c = true) as Hbl; [|congruence].
    apply (Hb (length A0) c); [exact L | lia |].
    rewrite <- app_assoc. rewrite nth_error_app2 by lia. rewrite Nat.sub_diag. reflexivity.
  - subst q. rewrite nth_error_app2 in Nq by lia. rewrite Nat.sub_diag in Nq. cbn in Nq. congruence.
  - rewrite nth_error_app2 in Nq by lia. destruct (q - length A0) as [|j] eqn:Ej; [lia|].
    cbn [nth_error] in Nq. apply Ht. apply (nth_error_In _ _ Nq).
Qed.

Lemma next_line_not_blank_simple pre Z :
  first_line_not_blank Z -> next_line_not_blank (pre ++ NL :: Z) (length pre).
Proof.
  intros HZ q' (Q1 & Nq & Hb).
  rewrite nth_error_app2 in Nq by lia. destruct (q' - length pre) as [|j] eqn:Ej; [lia|].
  cbn [nth_error] in Nq.
  destruct HZ as [HZ | (t & c & Z0 & -> & Hc & Ht)].
  { apply HZ. apply (nth_error_In _ _ Nq). }
  destruct (is_ws_false c Hc) as [Hcb Hcn].
  destruct (Nat.lt_trichotomy j (length t)) as [L | [L | L]].
  - rewrite nth_error_app1 in Nq by exact L. apply Ht. apply (nth_error_In _ _ Nq).
  - subst j. rewrite nth_error_app2 in Nq by lia. rewrite Nat.sub_diag in Nq. cbn in Nq. congruence.
  - assert (is_blank c = true) as Hbl; [|congruence].
    apply (Hb (length pre + 1 + length t) c); [lia | lia |].
    rewrite nth_error_app2 by lia.
    replace (length pre + 1 + length t - length pre) with (S (length t)) by lia.
    cbn [nth_error]. rewrite nth_error_app2 by lia. rewrite Nat.sub_diag. reflexivity.
Qed.

(** The first corollary with hypotheses on [A] and [Z] only. *)
Corollary clean_single_block_code_lines : forall cfg ds de A ind b1 mid b2 Z el1 el2,
  let doc := block_doc A ind b1 mid b2 Z in
  good_delims ds de -> good_doc ds de doc -> bodies_ok doc ->
  parse_target b1 = Ok (Some el1) -> parse_target b2 = Ok (Some el2) -> closes el2 el1 ->
  status cfg el1 = Some true -> has_attr S_UNWRAP (el_attrs el1) = false ->
  Forall (fun c => is_blank c = true) ind ->
  last_line_not_blank A -> first_line_not_blank Z ->
  clean cfg ds de (render ds de doc) = Ok (A ++ NL :: Z).
Proof.
  intros cfg ds de A ind b1 mid b2 Z el1 el2 doc Hg Hd Hb P1 P2 Hc Hs Hu Hbl HA HZ.
  apply (clean_single_block_neither cfg ds de A ind b1 mid b2 Z el1 el2 Hg Hd Hb P1 P2 Hc Hs Hu Hbl).
  - apply prev_line_not_blank_simple. exact HA.
  - replace (A ++ NL :: ind ++ NL :: Z) with ((A ++ NL :: ind) ++ NL :: Z)
      by (rewrite <- app_assoc; reflexivity).
    replace (length A + 1 + length ind) with (length (A ++ NL :: ind))
      by (rewrite app_length; cbn [length]; lia).
    apply next_line_not_blank_simple. exact HZ.
Qed.

(* ------------------------------------------------------------------------- *)
(** * A concrete instance *)

Lemma disjoint_from_check ds de x :
  forallb (fun b => negb (existsb (N.eqb b) (ds ++ de))) x = true -> disjoint_from ds de x.
Proof.
  intros H b Hb. rewrite forallb_forall in H. specialize (H b Hb). apply negb_true_iff in H.
  split; intros Hin;
    (assert (existsb (N.eqb b) (ds ++ de) = true) as E; [|congruence]);
    apply existsb_exists; exists b; (split; [apply in_or_app; auto | apply N.eqb_refl]).
Qed.

(** The configuration of C19's example: time-limited tag "tl", offset "+00:00", now = 10^9 s
    (2001), removal-marker tag "rm" without targets. *)
Definition ex_cfg : config :=
  mkConfig [116;108]%N [43;48;48;58;48;48]%N 1000000000%Z [114;109]%N [].
Definition ex_ds : str := [60]%N.                                    (* "<" *)
Definition ex_de : str := [62]%N.                                    (* ">" *)
Definition ex_A : str := [97]%N.                                     (* "a" *)
Definition ex_ind : str := [32;32]%N.                                (* two spaces *)
Definition ex_b1 : str :=                                            (* "tl to='2000-01-01 00:00:00'" *)
  [116;108;32;116;111;61;39;50;48;48;48;45;48;49;45;48;49;32;48;48;58;48;48;58;48;48;39]%N.
Definition ex_mid : str := [10;32;32;120;10;32;32]%N.                (* "\n  x\n  " *)
Definition ex_b2 : str := [47;116;108]%N.                            (* "/tl" *)
Definition ex_Z : str := [98]%N.                                     (* "b" *)
Definition ex_el1 : element :=
  mkElement [116;108]%N
    [([116;111]%N, Some [50;48;48;48;45;48;49;45;48;49;32;48;48;58;48;48;58;48;48]%N)].
Definition ex_el2 : element := mkElement [47;116;108]%N [].
Definition ex_doc : list item := block_doc ex_A ex_ind ex_b1 ex_mid ex_b2 ex_Z.

(** The hypotheses of the theorems are satisfiable, and the rendering
    "a\n  <tl to='2000-01-01 00:00:00'>\n  x\n  </tl>\nb" is cleaned to "a\nb". *)
Example block_example :
  good_delims ex_ds ex_de /\ good_doc ex_ds ex_de ex_doc /\ bodies_ok ex_doc /\
  parse_target ex_b1 = Ok (Some ex_el1) /\ parse_target ex_b2 = Ok (Some ex_el2) /\
  closes ex_el2 ex_el1 /\ status ex_cfg ex_el1 = Some true /\
  has_attr S_UNWRAP (el_attrs ex_el1) = false /\
  Forall (fun c => is_blank c = true) ex_ind /\
  last_line_not_blank ex_A /\ first_line_not_blank ex_Z /\
  render ex_ds ex_de ex_doc =
    [97;10;32;32;60;116;108;32;116;111;61;39;50;48;48;48;45;48;49;45;48;49;32;48;48;58;48;48;58;48;
     48;39;62;10;32;32;120;10;32;32;60;47;116;108;62;10;98]%N /\
  format_block (ex_A ++ NL :: ex_ind ++ NL :: ex_Z) 4 = Ok (2, 5) /\
  clean ex_cfg ex_ds ex_de (render ex_ds ex_de ex_doc) = Ok [97;10;98]%N.
Proof.
  assert (good_delims ex_ds ex_de) as Hg.
  { unfold good_delims, ex_ds, ex_de. repeat split; try discriminate; try reflexivity;
      intros [H|[]]; discriminate H. }
  assert (good_doc ex_ds ex_de ex_doc) as Hd.
  { unfold good_doc, ex_doc, block_doc. split; [|split; [|split]].
    - cbn [normal]. repeat split; discriminate.
    - intros i Hi. cbn [In] in Hi.
      repeat (destruct Hi as [<-|Hi]); [..|contradiction];
        apply disjoint_from_check; vm_compute; reflexivity.
    - intros t Ht. cbn [In] in Ht.
      repeat (destruct Ht as [Ht|Ht]); try discriminate Ht; try contradiction;
        injection Ht as <-; vm_compute; reflexivity.
    - intros b Hb'. cbn [In] in Hb'.
      repeat (destruct Hb' as [Hb'|Hb']); try discriminate Hb'; try contradiction;
        injection Hb' as <-; vm_compute; reflexivity. }
  assert (bodies_ok ex_doc) as Hb.
  { intros b Hb'. unfold ex_doc, block_doc in Hb'. cbn [In] in Hb'.
    repeat (destruct Hb' as [Hb'|Hb']); try discriminate Hb'; try contradiction;
      injection Hb' as <-; vm_compute; lia. }
  assert (parse_target ex_b1 = Ok (Some ex_el1)) as P1 by (vm_compute; reflexivity).
  assert (parse_target ex_b2 = Ok (Some ex_el2)) as P2 by (vm_compute; reflexivity).
  assert (closes ex_el2 ex_el1) as Hc by (apply closes_slash; reflexivity).
  assert (status ex_cfg ex_el1 = Some true) as Hs by (vm_compute; reflexivity).
  assert (has_attr S_UNWRAP (el_attrs ex_el1) = false) as Hu by (vm_compute; reflexivity).
  assert (Forall (fun c => is_blank c = true) ex_ind) as Hbl
    by (repeat constructor).
  assert (last_line_not_blank ex_A) as HA by (left; intros [H|[]]; discriminate H).
  assert (first_line_not_blank ex_Z) as HZ by (left; intros [H|[]]; discriminate H).
  repeat (split; [assumption|]).
  split; [vm_compute; reflexivity|]. split; [vm_compute; reflexivity|].
  (* by the theorem, not by running [clean] *)
  exact (clean_single_block_code_lines ex_cfg ex_ds ex_de ex_A ex_ind ex_b1 ex_mid ex_b2 ex_Z
           ex_el1 ex_el2 Hg Hd Hb P1 P2 Hc Hs Hu Hbl HA HZ).
Qed.

(** The same value by running the model. *)
Example block_example_run :
  clean ex_cfg ex_ds ex_de (render ex_ds ex_de ex_doc) = Ok [97;10;98]%N.
Proof. vm_compute. reflexivity. Qed.

(** With an empty line before the block ("a\n\n  <tl ...>...</tl>\nb"): the previous line is
    blank (q = 1), the output is [firstn 2 A ++ NL :: Z] = "a\n\nb". *)
Example block_example_prev_blank :
  let A := [97;10]%N in
  prev_line_blank (A ++ NL :: ex_ind ++ NL :: ex_Z) (length A + 1) 1 /\
  clean ex_cfg ex_ds ex_de (render ex_ds ex_de (block_doc A ex_ind ex_b1 ex_mid ex_b2 ex_Z))
  = Ok (firstn 2 A ++ NL :: ex_Z).
Proof.
  intros A. split; [|vm_compute; reflexivity].
  split; [cbn; lia|]. split; [reflexivity|]. intros i b H1 H2. cbn in H2. lia.
Qed.

(* ------------------------------------------------------------------------- *)
Print Assumptions clean_single_block.
Print Assumptions clean_single_block_slash.
Print Assumptions clean_single_block_neither.
Print Assumptions clean_single_block_prev.
Print Assumptions clean_single_block_next.
Print Assumptions clean_single_block_both.
Print Assumptions clean_single_block_code_lines.
Print Assumptions block_example.
