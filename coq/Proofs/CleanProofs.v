(** Assembly, part 3: the marker stage and [clean] end to end (C01 for clean, C02, C03). *)
From Coq Require Import List NArith ZArith Arith Bool Lia PeanoNat.
Import ListNotations.
From Chiri Require Import Base.Bytes Base.Res Model.Tokenizer Model.TagParser Model.TreeParser
     Model.Markers Model.Format Model.Clean
     Spec.Ranges Spec.Forest Spec.Extents
     Proofs.ResLemmas Proofs.Utf8 Proofs.MarkerProofs Proofs.RangeProofs
     Proofs.CollectProofs Proofs.FormatAssembly.

(* ------------------------------------------------------------------------- *)
(** * 3. The marker stage *)

Theorem markers_spec : forall cfg ds de s parts,
  wf_utf8 s = true -> wf_utf8 ds = true -> wf_utf8 de = true -> ds <> [] -> de <> [] ->
  front_end ds de s = Ok parts ->
  exists ms, markers_of cfg ds de s = Ok ms /\
    sorted_nonempty_from 0 (map fst ms) /\ bounded_by (length s) (map fst ms) /\
    on_boundaries s (map fst ms) /\ pairs_consistent ms /\
    (forall i, in_ranges (map fst ms) i <-> in_ranges (extents cfg s parts) i).
Proof.
  intros cfg ds de s parts Hs Hds Hde Nds Nde Hf.
  destruct (front_end_ordered ds de s parts Hs Hds Hde Nds Nde Hf) as [Hord _].
  pose proof (collect_wf_forest cfg s parts false Hs Hord) as Hwf.
  destruct (merge_markers_spec _ _ _ Hwf) as (ms & Em & Hsnf & Hbd & Hpos & Hpc & Hend).
  rewrite collect_ranges_are_extents in Hpos, Hend.
  pose proof (extents_on_boundaries cfg ds de s parts Hs Hds Hde Nds Nde Hf) as Hob.
  exists ms. split.
  { unfold markers_of. rewrite Hf. cbn [bind]. exact Em. }
  split; [exact Hsnf|]. split; [exact Hbd|]. split; [|split; [exact Hpc | exact Hpos]].
  intros r Hr. destruct (Hend r Hr) as [(r1 & Hin1 & E1) (r2 & Hin2 & E2)].
  rewrite E1, E2. destruct (Hob r1 Hin1) as [H1 _]. destruct (Hob r2 Hin2) as [_ H2].
  split; assumption.
Qed.

(* ------------------------------------------------------------------------- *)
(** * 5. [clean] *)

(** One run of [clean], with everything known about the intermediate values. *)
Lemma clean_run cfg ds de s parts :
  wf_utf8 s = true -> wf_utf8 ds = true -> wf_utf8 de = true -> ds <> [] -> de <> [] ->
  front_end ds de s = Ok parts ->
  exists ms rs,
    markers_of cfg ds de s = Ok ms /\
    (forall i, in_ranges (map fst ms) i <-> in_ranges (extents cfg s parts) i) /\
    ranges_only_ws (delete_ranges (map fst ms) s) rs /\
    clean cfg ds de s = Ok (delete_ranges rs (delete_ranges (map fst ms) s)) /\
    wf_utf8 (delete_ranges rs (delete_ranges (map fst ms) s)) = true.
Proof.
  intros Hs Hds Hde Nds Nde Hf.
  destruct (markers_spec cfg ds de s parts Hs Hds Hde Nds Nde Hf)
    as (ms & Em & Hsnf & Hbd & Hob & Hpc & Hpos).
  pose proof (sorted_nonempty_sorted 0 _ Hsnf) as Hsorted.
  set (P1 := in_rangesb (map fst ms)).
  set (removed := delete_ranges (map fst ms) s).
  set (rpos := map (fun m : marker => (rank P1 (fst (fst m)), snd m)) ms).
  assert (Hwr : wf_utf8 removed = true) by (apply delete_ranges_wf; assumption).
  assert (Hp1 : forall p pi, In (p, pi) rpos -> p <= length removed /\ is_boundary removed p = true).
  { intros p pi Hin. unfold rpos in Hin. apply in_map_iff in Hin.
    destruct Hin as (m & Em' & Hm). inversion Em'; subst p pi.
    assert (Hr : In (fst m) (map fst ms)) by (apply in_map; exact Hm).
    destruct (Hob _ Hr) as [Ha _].
    pose proof (boundary_le _ _ Ha) as Hle.
    split.
    - unfold removed, delete_ranges. rewrite delete_where_length. apply rank_monotone. exact Hle.
    - apply delete_ranges_boundary; assumption. }
  assert (Hp2 : forall p pi, In (p, Some pi) rpos -> pi < length rpos).
  { intros p pi Hin. unfold rpos in *. rewrite map_length. apply in_map_iff in Hin.
    destruct Hin as (m & Em' & Hm). inversion Em' as [[E1 E2]].
    apply In_nth_error in Hm. destruct Hm as [k Hk].
    destruct m as [r o]. cbn [snd] in E2. subst o.
    destruct (Hpc k r pi Hk) as [_ (r' & Hn)].
    apply nth_error_Some. congruence. }
  destruct (format_spec removed rpos Hwr Hp1 Hp2)
    as (rs & _ & _ & _ & _ & Hws & Efmt & Hwout).
  exists ms, rs. split; [exact Em|]. split; [exact Hpos|]. split; [exact Hws|].
  split; [|exact Hwout].
  unfold clean. rewrite Em. cbn [bind].
  rewrite (remove_markers_ok s ms Hsorted Hbd Hob Hs). cbn [bind].
  rewrite (get_removed_pos_ok ms Hsorted). cbn [bind].
  rewrite (removed_positions_rank ms Hsorted). exact Efmt.
Qed.

Theorem clean_total : forall cfg ds de s,
  wf_utf8 s = true -> wf_utf8 ds = true -> wf_utf8 de = true -> ds <> [] -> de <> [] ->
  exists out, clean cfg ds de s = Ok out /\ wf_utf8 out = true.
Proof.
  intros cfg ds de s Hs Hds Hde Nds Nde.
  destruct (front_end_total ds de s Hs Hds Hde Nds Nde) as [parts Hf].
  destruct (clean_run cfg ds de s parts Hs Hds Hde Nds Nde Hf) as (ms & rs & _ & _ & _ & Ec & Hw).
  eexists. split; [exact Ec | exact Hw].
Qed.

Theorem clean_only_deletes : forall cfg ds de s parts out,
  wf_utf8 s = true -> wf_utf8 ds = true -> wf_utf8 de = true -> ds <> [] -> de <> [] ->
  front_end ds de s = Ok parts -> clean cfg ds de s = Ok out ->
  exists P : nat -> bool, out = delete_where P s /\
    (forall i b, P i = true -> nth_error s i = Some b ->
                 in_ranges (extents cfg s parts) i \/ is_ws b = true) /\
    (forall i, i < length s -> in_ranges (extents cfg s parts) i -> P i = true).
Proof.
  intros cfg ds de s parts out Hs Hds Hde Nds Nde Hf Hc.
  destruct (clean_run cfg ds de s parts Hs Hds Hde Nds Nde Hf)
    as (ms & rs & _ & Hpos & Hws & Ec & _).
  rewrite Ec in Hc. inversion Hc as [Eout]. clear Hc.
  set (P1 := in_rangesb (map fst ms)) in *.
  exists (fun i => P1 i || in_rangesb rs (rank P1 i)). split; [|split].
  - unfold delete_ranges. rewrite delete_where_compose. reflexivity.
  - intros i b HP Hn. destruct (P1 i) eqn:E1.
    + left. apply Hpos. apply in_rangesb_spec. exact E1.
    + right. cbn [orb] in HP. apply in_rangesb_spec in HP. destruct HP as (r & Hin & Hr).
      apply (Hws r (rank P1 i) b Hin Hr).
      unfold delete_ranges. fold P1. rewrite delete_where_nth by exact E1. exact Hn.
  - intros i _ Hi. apply Hpos in Hi. apply in_rangesb_spec in Hi. fold P1 in Hi.
    rewrite Hi. reflexivity.
Qed.

(** Deleting position sets that agree on the non-whitespace bytes leaves the same
    non-whitespace bytes. *)
Lemma nonws_delete_where s : forall P Q,
  (forall i b, nth_error s i = Some b -> is_ws b = false -> P i = Q i) ->
  nonws (delete_where P s) = nonws (delete_where Q s).
Proof.
  induction s as [|b s IH]; intros P Q H; [reflexivity|].
  rewrite !delete_where_cons.
  pose proof (IH (fun i => P (S i)) (fun i => Q (S i))
                 (fun i b' Hn Hw => H (S i) b' Hn Hw)) as IH'.
  destruct (is_ws b) eqn:Wb.
  - destruct (P 0), (Q 0); unfold nonws in *; cbn [filter]; rewrite ?Wb; cbn [negb]; exact IH'.
  - rewrite (H 0 b eq_refl Wb).
    destruct (Q 0); unfold nonws in *; cbn [filter]; rewrite ?Wb; cbn [negb]; rewrite ?IH';
      reflexivity.
Qed.

Corollary clean_nonws : forall cfg ds de s parts out,
  wf_utf8 s = true -> wf_utf8 ds = true -> wf_utf8 de = true -> ds <> [] -> de <> [] ->
  front_end ds de s = Ok parts -> clean cfg ds de s = Ok out ->
  nonws out = nonws (delete_ranges (extents cfg s parts) s).
Proof.
  intros cfg ds de s parts out Hs Hds Hde Nds Nde Hf Hc.
  destruct (clean_only_deletes cfg ds de s parts out Hs Hds Hde Nds Nde Hf Hc)
    as (P & -> & H2 & H3).
  unfold delete_ranges. apply nonws_delete_where. intros i b Hn Hw.
  destruct (P i) eqn:EP.
  - destruct (H2 i b EP Hn) as [Hi | Hi]; [|congruence].
    symmetry. apply in_rangesb_spec. exact Hi.
  - destruct (in_rangesb (extents cfg s parts) i) eqn:EQ; [|reflexivity].
    apply in_rangesb_spec in EQ.
    assert (i < length s) as Hlt by (apply nth_error_Some; congruence).
    rewrite (H3 i Hlt EQ) in EP. discriminate.
Qed.

Print Assumptions front_end_ordered.
Print Assumptions front_end_total.
Print Assumptions collect_wf_forest.
Print Assumptions collect_ranges_are_extents.
Print Assumptions extents_on_boundaries.
Print Assumptions markers_spec.
Print Assumptions format_spec.
Print Assumptions clean_total.
Print Assumptions clean_only_deletes.
Print Assumptions clean_nonws.
