(** Invariants of [merge_markers] (Model/Markers.v): no panic; the markers are non-empty, sorted,
    disjoint and bounded; they cover exactly the positions of the forest; pair indices are
    consistent; marker endpoints are endpoints of ranges of the forest. *)
From Coq Require Import List Arith Bool Lia PeanoNat.
Import ListNotations.
From Chiri Require Import Base.Bytes Base.Res Model.Markers Spec.Ranges Spec.Forest
     Proofs.ResLemmas.

(** * Induction principle for the nested inductive [rtree] *)

Fixpoint rtree_ind' (P : rtree -> Prop)
         (HR : forall r ch, Forall P ch -> P (RT r ch))
         (t : rtree) : P t :=
  match t with
  | RT r ch =>
    HR r ch
       ((fix go (l : list rtree) : Forall P l :=
           match l with
           | [] => Forall_nil P
           | c :: l' => Forall_cons c (rtree_ind' P HR c) (go l')
           end) ch)
  end.

(** * The body of [merge_tree] *)

Definition rebase_step (start_cursor end_cursor current : nat) (l : list marker) (c : marker)
  : res (list marker) :=
  let '(r, idx) := c in
  match idx with
  | Some i =>
    if Markers.in_range start_cursor end_cursor i
    then j <- csub i start_cursor ;; Ok (l ++ [(r, Some (j + current + 1))])
    else Ok (l ++ [(r, None)])
  | None => Ok (l ++ [(r, None)])
  end.

Definition merge_tree_body (acc : list marker) (m : Markers.range) (epair : option Markers.range)
           (child_markers : list marker) : res (list marker) :=
  let '(m, start_cursor) := merge_child_markers child_markers m 0 in
  match epair with
  | Some end_marker =>
    let '(end_marker, n) := merge_child_markers (rev child_markers) end_marker 0 in
    end_cursor <- csub (length child_markers) n ;;
    let current := length acc in
    if end_cursor <? start_cursor then
      Ok (acc ++ [((fst m, snd end_marker), None)])
    else
      kept <- slice_list child_markers start_cursor end_cursor ;;
      rebased <- foldM (rebase_step start_cursor end_cursor current) kept [] ;;
      Ok (acc ++ [(m, Some (current + length kept + 1))] ++ rebased
              ++ [(end_marker, Some current)])
  | None => Ok (acc ++ [(m, None)])
  end.

Lemma merge_tree_go_foldM : forall l a,
  (fix go (l : list rtree) (a : list marker) : res (list marker) :=
     match l with
     | [] => Ok a
     | x :: l' => a' <- merge_tree a x ;; go l' a'
     end) l a = foldM merge_tree l a.
Proof.
  induction l as [|x l IH]; intros a; [reflexivity|].
  cbn [foldM]. destruct (merge_tree a x) as [a'|]; cbn [bind]; [apply IH | reflexivity].
Qed.

(** The local fix in [merge_tree] is [foldM]. *)
Lemma merge_tree_unfold : forall acc m pair children,
  merge_tree acc (RT (m, pair) children) =
  (child_markers <- foldM merge_tree children [] ;;
   let '(m, start_cursor) := merge_child_markers child_markers m 0 in
   match pair with
   | Some end_marker =>
     let '(end_marker, n) := merge_child_markers (rev child_markers) end_marker 0 in
     end_cursor <- csub (length child_markers) n ;;
     let current := length acc in
     if end_cursor <? start_cursor then
       Ok (acc ++ [((fst m, snd end_marker), None)])
     else
       kept <- slice_list child_markers start_cursor end_cursor ;;
       rebased <- foldM (fun l (c : marker) =>
                    let '(r, idx) := c in
                    match idx with
                    | Some i =>
                      if Markers.in_range start_cursor end_cursor i
                      then j <- csub i start_cursor ;; Ok (l ++ [(r, Some (j + current + 1))])
                      else Ok (l ++ [(r, None)])
                    | None => Ok (l ++ [(r, None)])
                    end) kept [] ;;
       Ok (acc ++ [(m, Some (current + length kept + 1))] ++ rebased
               ++ [(end_marker, Some current)])
   | None => Ok (acc ++ [(m, None)])
   end).
Proof.
  intros acc m pair children.
  rewrite <- merge_tree_go_foldM. reflexivity.
Qed.

Lemma merge_tree_unfold_body : forall acc m pair children,
  merge_tree acc (RT (m, pair) children) =
  (child_markers <- foldM merge_tree children [] ;; merge_tree_body acc m pair child_markers).
Proof.
  intros acc m pair children. rewrite merge_tree_unfold. reflexivity.
Qed.

(** * Ranges: sortedness, bounds, positions *)

Fixpoint last_end (lo : nat) (rs : list Ranges.range) : nat :=
  match rs with
  | [] => lo
  | (_, b) :: rest => last_end b rest
  end.

Lemma snf_app : forall l1 l2 lo,
  sorted_nonempty_from lo (l1 ++ l2) <->
  sorted_nonempty_from lo l1 /\ sorted_nonempty_from (last_end lo l1) l2.
Proof.
  induction l1 as [|[a b] l1 IH]; intros l2 lo; simpl.
  - tauto.
  - rewrite IH. tauto.
Qed.

Lemma snf_weaken : forall l lo lo', lo' <= lo ->
  sorted_nonempty_from lo l -> sorted_nonempty_from lo' l.
Proof.
  intros [|[a b] l] lo lo' Hle; simpl; [tauto|]. intros [H1 H2]. split; [lia | exact H2].
Qed.

Lemma snf_last_end_le : forall l lo, sorted_nonempty_from lo l -> lo <= last_end lo l.
Proof.
  induction l as [|[a b] l IH]; intros lo; simpl; [lia|].
  intros [H1 [H2 H3]]. apply IH in H3. lia.
Qed.

Lemma snf_in : forall l lo r, sorted_nonempty_from lo l -> In r l ->
  lo <= fst r /\ fst r < snd r /\ snd r <= last_end lo l.
Proof.
  induction l as [|[a b] l IH]; intros lo r Hs Hin; simpl in *; [tauto|].
  destruct Hs as [H1 [H2 H3]]. destruct Hin as [Heq | Hin].
  - subst r. simpl. apply snf_last_end_le in H3. lia.
  - destruct (IH b r H3 Hin) as [I1 [I2 I3]]. lia.
Qed.

Lemma last_end_bounded : forall l lo hi, lo <= hi -> bounded_by hi l -> last_end lo l <= hi.
Proof.
  induction l as [|[a b] l IH]; intros lo hi Hle Hb; simpl; [exact Hle|].
  apply IH.
  - apply (Hb (a, b)). left; reflexivity.
  - intros r Hr. apply Hb. right; exact Hr.
Qed.

Lemma snf_snoc : forall l lo x y,
  sorted_nonempty_from lo (l ++ [(x, y)]) <->
  sorted_nonempty_from lo l /\ last_end lo l <= x /\ x < y.
Proof.
  intros l lo x y. rewrite snf_app. simpl. tauto.
Qed.

Lemma last_end_app : forall l1 l2 lo, last_end lo (l1 ++ l2) = last_end (last_end lo l1) l2.
Proof.
  induction l1 as [|[a b] l1 IH]; intros l2 lo; simpl; [reflexivity | apply IH].
Qed.

Lemma bounded_by_app : forall hi l1 l2,
  bounded_by hi (l1 ++ l2) <-> bounded_by hi l1 /\ bounded_by hi l2.
Proof.
  intros hi l1 l2. unfold bounded_by. split.
  - intros H. split; intros r Hr; apply H; apply in_or_app; auto.
  - intros [H1 H2] r Hr. apply in_app_or in Hr. destruct Hr; auto.
Qed.

Lemma bounded_by_weaken : forall hi hi' l, hi <= hi' -> bounded_by hi l -> bounded_by hi' l.
Proof.
  intros hi hi' l Hle H r Hr. apply H in Hr. lia.
Qed.

Lemma in_ranges_app : forall l1 l2 i,
  in_ranges (l1 ++ l2) i <-> in_ranges l1 i \/ in_ranges l2 i.
Proof.
  intros l1 l2 i. unfold in_ranges. split.
  - intros [r [Hin Hr]]. apply in_app_or in Hin. destruct Hin; [left | right]; exists r; auto.
  - intros [[r [Hin Hr]] | [r [Hin Hr]]]; exists r; split; auto; apply in_or_app; auto.
Qed.

Lemma in_ranges_cons : forall r l i,
  in_ranges (r :: l) i <-> Ranges.in_range r i \/ in_ranges l i.
Proof.
  intros r l i. unfold in_ranges. split.
  - intros [r' [[Heq | Hin] Hr]]; [subst; auto | right; exists r'; auto].
  - intros [Hr | [r' [Hin Hr]]]; [exists r; simpl; auto | exists r'; simpl; auto].
Qed.

Lemma in_ranges_nil : forall i, in_ranges [] i <-> False.
Proof. intros i. unfold in_ranges. split; [intros [r [[] _]] | tauto]. Qed.

Lemma in_range_pair : forall a b i, Ranges.in_range (a, b) i <-> a <= i < b.
Proof. intros a b i. unfold Ranges.in_range. simpl. tauto. Qed.

Lemma in_ranges_single : forall a b i, in_ranges [(a, b)] i <-> a <= i < b.
Proof.
  intros a b i. rewrite in_ranges_cons, in_ranges_nil, in_range_pair. tauto.
Qed.

(** Positions of a sorted list lie between its lower bound and its last end. *)
Lemma snf_in_ranges : forall l lo i, sorted_nonempty_from lo l -> in_ranges l i ->
  lo <= i < last_end lo l.
Proof.
  intros l lo i Hs [r [Hin Hr]]. destruct (snf_in l lo r Hs Hin) as [H1 [H2 H3]].
  unfold Ranges.in_range in Hr. lia.
Qed.

Lemma contains_true : forall (r : Markers.range) x, contains r x = true <-> fst r <= x < snd r.
Proof.
  intros r x. unfold contains. rewrite andb_true_iff, Nat.leb_le, Nat.ltb_lt. tauto.
Qed.

Lemma contains_false : forall (r : Markers.range) x,
  contains r x = false <-> ~ (fst r <= x < snd r).
Proof.
  intros r x. rewrite <- contains_true. destruct (contains r x); split; congruence.
Qed.

(** * The forward scan (opening part) *)

Lemma head_scan : forall (cs : list marker) a b lo cur,
  a < lo -> a < b -> sorted_nonempty_from lo (map fst cs) ->
  exists b' h1 h2,
    merge_child_markers cs (a, b) cur = ((a, b'), cur + length h1) /\
    cs = h1 ++ h2 /\
    b <= b' /\
    sorted_nonempty_from b' (map fst h2) /\
    (forall i, a <= i < b' <-> a <= i < b \/ in_ranges (map fst h1) i) /\
    (b' = b \/ exists r, In r (map fst h1) /\ b' = snd r).
Proof.
  induction cs as [|[[x y] p] cs IH]; intros a b lo cur Hlo Hab Hs.
  - exists b, [], []. simpl. rewrite Nat.add_0_r.
    split; [reflexivity|]. split; [reflexivity|]. split; [lia|]. split; [exact I|].
    split; [|left; reflexivity]. intros i. rewrite in_ranges_nil. tauto.
  - simpl in Hs. destruct Hs as [Hx [Hxy Hs]].
    cbn [merge_child_markers fst snd].
    destruct (contains (a, b) x || contains (a, b) y) eqn:E.
    + assert (Hxb : x < b).
      { apply orb_true_iff in E. rewrite !contains_true in E. simpl in E. lia. }
      replace (Nat.min a x) with a by lia.
      destruct (IH a (Nat.max b y) y (S cur)) as [b' [h1 [h2 [Heq [Hcs [Hb [Hs2 [Hpos Hend]]]]]]]];
        [lia | lia | exact Hs |].
      exists b', (((x, y), p) :: h1), h2. rewrite Heq. cbn [length map fst app].
      split; [f_equal; lia|]. split; [rewrite Hcs; reflexivity|].
      split; [lia|]. split; [exact Hs2|]. split.
      * intros i. rewrite Hpos, in_ranges_cons, in_range_pair.
        assert (Hi : a <= i < Nat.max b y <-> a <= i < b \/ x <= i < y) by lia. tauto.
      * destruct Hend as [Hend | [r [Hr Hend]]].
        -- destruct (Nat.max_spec b y) as [[_ Hm] | [_ Hm]].
           ++ right. exists (x, y). split; [left; reflexivity | simpl; lia].
           ++ left. lia.
        -- right. exists r. split; [right; exact Hr | exact Hend].
    + apply orb_false_iff in E. rewrite !contains_false in E. simpl in E.
      exists b, [], (((x, y), p) :: cs). cbn [length map fst app]. rewrite Nat.add_0_r.
      split; [reflexivity|]. split; [reflexivity|]. split; [lia|]. split.
      * simpl. repeat split; [lia | lia | exact Hs].
      * split; [|left; reflexivity].
        intros i. rewrite in_ranges_nil. tauto.
Qed.

(** * The backward scan (closing part) *)

Lemma tail_scan : forall (cs : list marker) c d lo cur,
  c < d -> sorted_nonempty_from lo (map fst cs) ->
  (forall r, In r (map fst cs) -> snd r < d) ->
  exists c' t1 t2,
    merge_child_markers (rev cs) (c, d) cur = ((c', d), cur + length t2) /\
    cs = t1 ++ t2 /\
    c' <= c /\
    (forall r, In r (map fst t1) -> snd r < c') /\
    (forall i, c' <= i < d <-> c <= i < d \/ in_ranges (map fst t2) i) /\
    (c' = c \/ exists r, In r (map fst t2) /\ c' = fst r).
Proof.
  induction cs as [|[[x y] p] cs IH] using rev_ind; intros c d lo cur Hcd Hs Hd.
  - exists c, [], []. simpl. rewrite Nat.add_0_r.
    split; [reflexivity|]. split; [reflexivity|]. split; [lia|]. split; [intros r []|].
    split; [|left; reflexivity]. intros i. rewrite in_ranges_nil. tauto.
  - rewrite map_app in Hs. cbn [map fst] in Hs. apply snf_snoc in Hs.
    destruct Hs as [Hs [Hlast Hxy]].
    assert (Hyd : y < d).
    { apply (Hd (x, y)). rewrite map_app. apply in_or_app. right. left. reflexivity. }
    assert (Hd' : forall r, In r (map fst cs) -> snd r < d).
    { intros r Hr. apply Hd. rewrite map_app. apply in_or_app. left. exact Hr. }
    rewrite rev_unit. cbn [merge_child_markers fst snd].
    destruct (contains (c, d) x || contains (c, d) y) eqn:E.
    + assert (Hcy : c <= y).
      { apply orb_true_iff in E. rewrite !contains_true in E. simpl in E. lia. }
      replace (Nat.max d y) with d by lia.
      destruct (IH (Nat.min c x) d lo (S cur)) as [c' [t1 [t2 [Heq [Hcs [Hc [Hb [Hpos Hend]]]]]]]];
        [lia | exact Hs | exact Hd' |].
      exists c', t1, (t2 ++ [((x, y), p)]). rewrite Heq.
      split; [rewrite app_length; simpl; f_equal; lia|].
      split; [rewrite Hcs, app_assoc; reflexivity|].
      split; [lia|]. split; [exact Hb|]. split.
      * intros i. rewrite Hpos, map_app, in_ranges_app. cbn [map fst].
        rewrite in_ranges_single.
        assert (Hi : Nat.min c x <= i < d <-> c <= i < d \/ x <= i < y) by lia. tauto.
      * destruct Hend as [Hend | [r [Hr Hend]]].
        -- destruct (Nat.min_spec c x) as [[_ Hm] | [_ Hm]].
           ++ left. lia.
           ++ right. exists (x, y). split; [|simpl; lia].
              rewrite map_app. apply in_or_app. right. left. reflexivity.
        -- right. exists r. split; [|exact Hend].
           rewrite map_app. apply in_or_app. left. exact Hr.
    + apply orb_false_iff in E. rewrite !contains_false in E. simpl in E.
      exists c, (cs ++ [((x, y), p)]), []. cbn [length]. rewrite Nat.add_0_r, app_nil_r.
      split; [reflexivity|]. split; [reflexivity|]. split; [lia|]. split.
      * intros r Hr. rewrite map_app in Hr. apply in_app_or in Hr. destruct Hr as [Hr | Hr].
        -- destruct (snf_in _ _ _ Hs Hr) as [_ [_ H3]]. lia.
        -- simpl in Hr. destruct Hr as [Hr | []]. subst r. simpl. lia.
      * split; [|left; reflexivity].
        intros i. simpl. rewrite in_ranges_nil. tauto.
Qed.

(** * Pair indices relative to an offset *)

Definition pairs_consistent_from (off : nat) (new : list marker) : Prop :=
  forall j r p, nth_error new j = Some (r, Some p) ->
    off <= p /\ p < off + length new /\ p <> off + j /\
    exists r', nth_error new (p - off) = Some (r', Some (off + j)).

Lemma pcf_nil : forall off, pairs_consistent_from off [].
Proof. intros off j r p H. destruct j; discriminate H. Qed.

Lemma pcf_app : forall off l1 l2,
  pairs_consistent_from off l1 -> pairs_consistent_from (off + length l1) l2 ->
  pairs_consistent_from off (l1 ++ l2).
Proof.
  intros off l1 l2 H1 H2 j r p Hj. rewrite app_length.
  destruct (Nat.lt_ge_cases j (length l1)) as [Hlt | Hge].
  - rewrite nth_error_app1 in Hj by exact Hlt.
    destruct (H1 j r p Hj) as [A [B [C [r' D]]]].
    split; [lia|]. split; [lia|]. split; [lia|]. exists r'.
    rewrite nth_error_app1 by lia. exact D.
  - rewrite nth_error_app2 in Hj by exact Hge.
    destruct (H2 (j - length l1) r p Hj) as [A [B [C [r' D]]]].
    split; [lia|]. split; [lia|]. split; [lia|]. exists r'.
    rewrite nth_error_app2 by lia.
    replace (p - off - length l1) with (p - (off + length l1)) by lia.
    rewrite D. do 3 f_equal. lia.
Qed.

Lemma pcf_zero : forall ms, pairs_consistent_from 0 ms -> pairs_consistent ms.
Proof.
  intros ms H k r p Hk. destruct (H k r p Hk) as [A [B [C [r' D]]]].
  split; [lia|]. exists r'. rewrite Nat.sub_0_r in D. exact D.
Qed.

(** * The rebasing fold *)

Definition rebase_one (s e cur : nat) (c : marker) : marker :=
  match snd c with
  | Some i => if Markers.in_range s e i then (fst c, Some (i - s + cur + 1)) else (fst c, None)
  | None => (fst c, None)
  end.

Lemma rebase_foldM : forall s e cur kept l,
  foldM (rebase_step s e cur) kept l = Ok (l ++ map (rebase_one s e cur) kept).
Proof.
  intros s e cur. induction kept as [|[r idx] kept IH]; intros l.
  - simpl. rewrite app_nil_r. reflexivity.
  - cbn [foldM map]. unfold rebase_step at 1. unfold rebase_one at 1. cbn [fst snd].
    destruct idx as [i|].
    + destruct (Markers.in_range s e i) eqn:E.
      * unfold Markers.in_range in E. apply andb_true_iff in E. destruct E as [E1 E2].
        apply Nat.leb_le in E1. rewrite (csub_le i s E1). cbn [bind].
        rewrite IH, <- app_assoc. reflexivity.
      * cbn [bind]. rewrite IH, <- app_assoc. reflexivity.
    + cbn [bind]. rewrite IH, <- app_assoc. reflexivity.
Qed.

Lemma map_fst_rebase : forall s e cur l, map fst (map (rebase_one s e cur) l) = map fst l.
Proof.
  intros s e cur l. rewrite map_map. apply map_ext. intros [r [i|]]; unfold rebase_one; simpl;
    [destruct (Markers.in_range s e i)|]; reflexivity.
Qed.

(** * Splitting one list in two ways *)

Lemma app_eq_split : forall (A : Type) (h1 h2 t1 t2 : list A),
  h1 ++ h2 = t1 ++ t2 ->
  (length h1 <= length t1 -> exists mid, t1 = h1 ++ mid /\ h2 = mid ++ t2) /\
  (length t1 < length h1 -> exists x mid, h1 = t1 ++ x :: mid /\ t2 = x :: mid ++ h2).
Proof.
  intros A. induction h1 as [|a h1 IH]; intros h2 t1 t2 Heq.
  - simpl in Heq. split.
    + intros _. exists t1. split; [reflexivity | exact Heq].
    + simpl. lia.
  - destruct t1 as [|b t1].
    + simpl in Heq. split; [simpl; lia|]. intros _. exists a, h1. split; [reflexivity|].
      rewrite <- Heq. reflexivity.
    + simpl in Heq. injection Heq as Hab Heq. subst b.
      destruct (IH h2 t1 t2 Heq) as [IH1 IH2]. split.
      * simpl. intros Hle. destruct IH1 as [mid [E1 E2]]; [lia|].
        exists mid. rewrite E1. split; [reflexivity | exact E2].
      * simpl. intros Hlt. destruct IH2 as [x [mid [E1 E2]]]; [lia|].
        exists x, mid. rewrite E1. split; [reflexivity | exact E2].
Qed.

Lemma skipn_length_app : forall (A : Type) (l1 l2 : list A), skipn (length l1) (l1 ++ l2) = l2.
Proof. intros A. induction l1 as [|a l1 IH]; intros l2; simpl; [reflexivity | apply IH]. Qed.

Lemma firstn_length_app : forall (A : Type) (l1 l2 : list A), firstn (length l1) (l1 ++ l2) = l1.
Proof.
  intros A. induction l1 as [|a l1 IH]; intros l2; simpl; [reflexivity | rewrite IH; reflexivity].
Qed.

Lemma nth_error_mid : forall (A : Type) (x y : A) l j v,
  nth_error (x :: l ++ [y]) j = Some v ->
  (j = 0 /\ v = x) \/
  (exists j', j = S j' /\ j' < length l /\ nth_error l j' = Some v) \/
  (j = S (length l) /\ v = y).
Proof.
  intros A x y l j v H. destruct j as [|j'].
  - left. simpl in H. injection H as H. auto.
  - right. simpl in H. destruct (Nat.lt_ge_cases j' (length l)) as [Hlt | Hge].
    + left. exists j'. rewrite nth_error_app1 in H by exact Hlt. auto.
    + right. rewrite nth_error_app2 in H by exact Hge.
      destruct (j' - length l) as [|k] eqn:Ek.
      * simpl in H. injection H as H. split; [lia | auto].
      * simpl in H. destruct k; discriminate H.
Qed.

Lemma nth_error_mid_last : forall (A : Type) (x y : A) l,
  nth_error (x :: l ++ [y]) (S (length l)) = Some y.
Proof.
  intros A x y l. simpl. rewrite nth_error_app2 by lia. rewrite Nat.sub_diag. reflexivity.
Qed.

Lemma nth_error_mid_in : forall (A : Type) (x y : A) l j, j < length l ->
  nth_error (x :: l ++ [y]) (S j) = nth_error l j.
Proof.
  intros A x y l j H. simpl. apply nth_error_app1. exact H.
Qed.

(** * The invariant of a produced segment *)

Definition endpoints_of (rs src : list Ranges.range) : Prop :=
  forall r, In r rs ->
    (exists r1, In r1 src /\ fst r = fst r1) /\ (exists r2, In r2 src /\ snd r = snd r2).

Definition seg_inv (off lo hi : nat) (src : list Ranges.range) (new : list marker) : Prop :=
  sorted_nonempty_from lo (map fst new) /\
  bounded_by hi (map fst new) /\
  (forall i, in_ranges (map fst new) i <-> in_ranges src i) /\
  endpoints_of (map fst new) src /\
  pairs_consistent_from off new.

Lemma endpoints_of_incl : forall rs src src',
  incl src src' -> endpoints_of rs src -> endpoints_of rs src'.
Proof.
  intros rs src src' Hi H r Hr. destruct (H r Hr) as [[r1 [A1 B1]] [r2 [A2 B2]]].
  split; [exists r1 | exists r2]; auto.
Qed.

Lemma endpoints_of_app : forall rs1 rs2 src,
  endpoints_of rs1 src -> endpoints_of rs2 src -> endpoints_of (rs1 ++ rs2) src.
Proof.
  intros rs1 rs2 src H1 H2 r Hr. apply in_app_or in Hr. destruct Hr; auto.
Qed.

Lemma seg_inv_nil : forall off lo hi, seg_inv off lo hi [] [].
Proof.
  intros off lo hi. unfold seg_inv. simpl. split; [exact I|]. split; [intros r []|].
  split; [tauto|]. split; [intros r []|apply pcf_nil].
Qed.

Lemma seg_inv_app : forall off lo mid hi src1 src2 new1 new2,
  lo <= mid -> mid <= hi ->
  seg_inv off lo mid src1 new1 -> seg_inv (off + length new1) mid hi src2 new2 ->
  seg_inv off lo hi (src1 ++ src2) (new1 ++ new2).
Proof.
  intros off lo mid hi src1 src2 new1 new2 Hlo Hle
         [S1 [B1 [P1 [E1 C1]]]] [S2 [B2 [P2 [E2 C2]]]].
  unfold seg_inv. rewrite map_app. split.
  - apply snf_app. split; [exact S1|].
    apply snf_weaken with (lo := mid); [|exact S2].
    apply last_end_bounded; assumption.
  - split; [apply bounded_by_app; split;
            [apply bounded_by_weaken with (hi := mid); assumption | exact B2]|].
    split; [intros i; rewrite !in_ranges_app, P1, P2; tauto|].
    split.
    + apply endpoints_of_app.
      * apply endpoints_of_incl with (src := src1); [apply incl_appl, incl_refl | exact E1].
      * apply endpoints_of_incl with (src := src2); [apply incl_appr, incl_refl | exact E2].
    + apply pcf_app; assumption.
Qed.

Lemma in_range_b_true : forall s e i, Markers.in_range s e i = true <-> s <= i < e.
Proof.
  intros s e i. unfold Markers.in_range. rewrite andb_true_iff, Nat.leb_le, Nat.ltb_lt. tauto.
Qed.

(** The pair indices of head, re-based kept children and tail. *)
Lemma pcf_rebase : forall off (h1 mid t2 : list marker) r1 r2,
  pairs_consistent_from 0 (h1 ++ mid ++ t2) ->
  pairs_consistent_from off
    ((r1, Some (off + length mid + 1))
       :: map (rebase_one (length h1) (length h1 + length mid) off) mid ++ [(r2, Some off)]).
Proof.
  intros off h1 mid t2 r1 r2 Hcs j r p Hj.
  set (g := rebase_one (length h1) (length h1 + length mid) off) in *.
  cbn [length]. rewrite app_length, map_length. cbn [length].
  apply nth_error_mid in Hj. rewrite map_length in Hj.
  destruct Hj as [[Hj0 Hv] | [[j' [Hj1 [Hlt Hv]]] | [Hj2 Hv]]].
  - injection Hv as Hr Hp. subst j r p.
    split; [lia|]. split; [lia|]. split; [lia|]. exists r2.
    replace (off + length mid + 1 - off) with (S (length (map g mid)))
      by (rewrite map_length; lia).
    rewrite nth_error_mid_last, Nat.add_0_r. reflexivity.
  - subst j. rewrite nth_error_map in Hv.
    destruct (nth_error mid j') as [[r0 idx]|] eqn:Em; [|discriminate Hv].
    simpl in Hv. injection Hv as Hv. unfold g, rebase_one in Hv. cbn [fst snd] in Hv.
    destruct idx as [i|]; [|discriminate Hv].
    destruct (Markers.in_range (length h1) (length h1 + length mid) i) eqn:Ei;
      [|discriminate Hv].
    injection Hv as Hr Hp. subst r0 p. apply in_range_b_true in Ei.
    assert (Hk : nth_error (h1 ++ mid ++ t2) (length h1 + j') = Some (r, Some i)).
    { rewrite nth_error_app2 by lia.
      replace (length h1 + j' - length h1) with j' by lia.
      rewrite nth_error_app1 by exact Hlt. exact Em. }
    destruct (Hcs _ _ _ Hk) as [_ [_ [Hne [r' Hback]]]].
    rewrite Nat.sub_0_r in Hback. simpl in Hback.
    rewrite nth_error_app2 in Hback by lia.
    rewrite nth_error_app1 in Hback by lia.
    split; [lia|]. split; [lia|]. split; [lia|]. exists r'.
    replace (i - length h1 + off + 1 - off) with (S (i - length h1)) by lia.
    rewrite nth_error_mid_in by (rewrite map_length; lia).
    rewrite nth_error_map, Hback. simpl. unfold g, rebase_one. cbn [fst snd].
    assert (Ej : Markers.in_range (length h1) (length h1 + length mid) (length h1 + j') = true)
      by (apply in_range_b_true; lia).
    rewrite Ej. do 3 f_equal. lia.
  - injection Hv as Hr Hp. subst j r p.
    split; [lia|]. split; [lia|]. split; [lia|]. exists r1.
    rewrite Nat.sub_diag. simpl. do 3 f_equal. lia.
Qed.

Lemma in_ranges_incl : forall l l' i, incl l l' -> in_ranges l i -> in_ranges l' i.
Proof. intros l l' i Hi [r [Hr Hin]]. exists r. split; [apply Hi; exact Hr | exact Hin]. Qed.

Lemma pcf_single_none : forall off r, pairs_consistent_from off [(r, None)].
Proof.
  intros off r j r0 p H. destruct j as [|j]; simpl in H; [discriminate H|].
  destruct j; discriminate H.
Qed.

(** * The body of [merge_tree], given the markers of the children *)

Lemma body_none : forall acc a b cs lo src,
  lo <= a -> a < b -> seg_inv 0 (S a) (b - 1) src cs ->
  exists new, merge_tree_body acc (a, b) None cs = Ok (acc ++ new) /\
              seg_inv (length acc) lo b ((a, b) :: src) new.
Proof.
  intros acc a b cs lo src Hlo Hab [Scs [Bcs [Pcs [Ecs Ccs]]]].
  destruct (head_scan cs a b (S a) 0) as [b' [h1 [h2 [Hh [Hcs [Hbb [Sh2 [Hposh Hendh]]]]]]]];
    [lia | exact Hab | exact Scs |].
  assert (Hb' : b' = b).
  { destruct Hendh as [Hb' | [r [Hr Hb']]]; [exact Hb'|].
    assert (Hr' : In r (map fst cs)).
    { rewrite Hcs, map_app. apply in_or_app. left. exact Hr. }
    apply Bcs in Hr'. lia. }
  subst b'. unfold merge_tree_body. rewrite Hh.
  exists [((a, b), None)]. split; [reflexivity|].
  unfold seg_inv. cbn [map fst]. split; [simpl; lia|].
  split; [intros r [Hr | []]; subst r; simpl; lia|].
  split.
  - intros i. rewrite in_ranges_single, in_ranges_cons, in_range_pair, <- Pcs.
    split; [tauto|]. intros [Hi | [r [Hr Hi]]]; [exact Hi|].
    destruct (snf_in _ _ _ Scs Hr) as [H1 _]. apply Bcs in Hr.
    unfold Ranges.in_range in Hi. lia.
  - split; [|apply pcf_single_none].
    intros r [Hr | []]. subst r. split; exists (a, b); split; try reflexivity; left; reflexivity.
Qed.

Lemma incl_map_app_l : forall (l1 l2 : list marker), incl (map fst l1) (map fst (l1 ++ l2)).
Proof. intros l1 l2. rewrite map_app. apply incl_appl, incl_refl. Qed.

Lemma incl_map_app_r : forall (l1 l2 : list marker), incl (map fst l2) (map fst (l1 ++ l2)).
Proof. intros l1 l2. rewrite map_app. apply incl_appr, incl_refl. Qed.

Lemma body_some : forall acc a b c d cs lo src,
  lo <= a -> a < b -> b <= c -> c < d -> seg_inv 0 (S a) (d - 1) src cs ->
  exists new, merge_tree_body acc (a, b) (Some (c, d)) cs = Ok (acc ++ new) /\
              seg_inv (length acc) lo d ((a, b) :: (c, d) :: src) new.
Proof.
  intros acc a b c d cs lo src Hlo Hab Hbc Hcd [Scs [Bcs [Pcs [Ecs Ccs]]]].
  destruct (head_scan cs a b (S a) 0) as [b' [h1 [h2 [Hh [Hcs1 [Hbb [Sh2 [Hposh Hendh]]]]]]]];
    [lia | exact Hab | exact Scs |].
  destruct (tail_scan cs c d (S a) 0) as [c' [t1 [t2 [Ht [Hcs2 [Hcc [Bt1 [Hpost Hendt]]]]]]]];
    [exact Hcd | exact Scs | intros r Hr; apply Bcs in Hr; lia |].
  assert (Ih1 : incl (map fst h1) (map fst cs)) by (rewrite Hcs1; apply incl_map_app_l).
  assert (Ih2 : incl (map fst h2) (map fst cs)) by (rewrite Hcs1; apply incl_map_app_r).
  assert (It1 : incl (map fst t1) (map fst cs)) by (rewrite Hcs2; apply incl_map_app_l).
  assert (It2 : incl (map fst t2) (map fst cs)) by (rewrite Hcs2; apply incl_map_app_r).
  assert (Hcsr : forall r, In r (map fst cs) -> S a <= fst r /\ fst r < snd r /\ snd r <= d - 1).
  { intros r Hr. destruct (snf_in _ _ _ Scs Hr) as [H1 [H2 _]]. apply Bcs in Hr. lia. }
  assert (Hb'd : b' < d).
  { destruct Hendh as [Hb' | [r [Hr Hb']]]; [lia|]. apply Ih1, Hcsr in Hr. lia. }
  assert (Hac' : a < c').
  { destruct Hendt as [Hc' | [r [Hr Hc']]]; [lia|]. apply It2, Hcsr in Hr. lia. }
  assert (Esrc : endpoints_of (map fst cs) ((a, b) :: (c, d) :: src)).
  { apply endpoints_of_incl with (src := src); [|exact Ecs].
    apply incl_tl, incl_tl, incl_refl. }
  assert (Eb' : exists r2, In r2 ((a, b) :: (c, d) :: src) /\ b' = snd r2).
  { destruct Hendh as [Hb' | [r [Hr Hb']]].
    - exists (a, b). split; [left; reflexivity | exact Hb'].
    - destruct (Esrc r (Ih1 r Hr)) as [_ [r2 [Hr2 Hs]]]. exists r2. split; [exact Hr2 | congruence]. }
  assert (Ec' : exists r1, In r1 ((a, b) :: (c, d) :: src) /\ c' = fst r1).
  { destruct Hendt as [Hc' | [r [Hr Hc']]].
    - exists (c, d). split; [right; left; reflexivity | exact Hc'].
    - destruct (Esrc r (It2 r Hr)) as [[r1 [Hr1 Hs]] _]. exists r1. split; [exact Hr1 | congruence]. }
  assert (Hlen : length cs = length t1 + length t2) by (rewrite Hcs2 at 1; apply app_length).
  unfold merge_tree_body. rewrite Hh, Ht. cbn [Nat.add fst snd].
  rewrite (csub_le (length cs) (length t2)) by lia.
  replace (length cs - length t2) with (length t1) by lia. cbn [bind].
  assert (Hsplit : h1 ++ h2 = t1 ++ t2) by congruence.
  apply app_eq_split in Hsplit. destruct Hsplit as [Hsp1 Hsp2].
  destruct (Nat.ltb_spec (length t1) (length h1)) as [Hlt | Hge].
  - (* bridged: some child was absorbed from both sides *)
    destruct (Hsp2 Hlt) as [x [mid [Eh1 Et2]]]. clear Hsp1 Hsp2.
    exists [((a, d), None)]. split; [reflexivity|].
    assert (Hc'b' : c' <= b').
    { assert (Hx1 : In (fst x) (map fst h1)).
      { rewrite Eh1, map_app. apply in_or_app. right. left. reflexivity. }
      assert (Hx2 : In (fst x) (map fst t2)).
      { rewrite Et2. left. reflexivity. }
      destruct (Hcsr _ (Ih1 _ Hx1)) as [_ [Hne _]].
      assert (Hi : Ranges.in_range (fst x) (fst (fst x))) by (unfold Ranges.in_range; lia).
      assert (P1 : a <= fst (fst x) < b').
      { apply Hposh. right. exists (fst x). auto. }
      assert (P2 : c' <= fst (fst x) < d).
      { apply Hpost. right. exists (fst x). auto. }
      lia. }
    unfold seg_inv. cbn [map fst]. split; [simpl; lia|].
    split; [intros r [Hr | []]; subst r; simpl; lia|].
    split.
    + intros i. rewrite in_ranges_single, !in_ranges_cons, !in_range_pair, <- Pcs.
      split.
      * intros Hi. destruct (Nat.lt_ge_cases i b') as [Hib | Hib].
        -- assert (Hi' : a <= i < b') by lia. apply Hposh in Hi'.
           destruct Hi' as [Hi' | Hi']; [left; exact Hi'|].
           right; right. apply in_ranges_incl with (l := map fst h1); assumption.
        -- assert (Hi' : c' <= i < d) by lia. apply Hpost in Hi'.
           destruct Hi' as [Hi' | Hi']; [right; left; exact Hi'|].
           right; right. apply in_ranges_incl with (l := map fst t2); assumption.
      * intros [Hi | [Hi | [r [Hr Hi]]]]; [lia | lia |].
        apply Hcsr in Hr. unfold Ranges.in_range in Hi. lia.
    + split; [|apply pcf_single_none].
      intros r [Hr | []]. subst r. split.
      * exists (a, b). split; [left; reflexivity | reflexivity].
      * exists (c, d). split; [right; left; reflexivity | reflexivity].
  - (* head, kept children, tail *)
    destruct (Hsp1 Hge) as [mid [Et1 Eh2]]. clear Hsp1 Hsp2.
    assert (Im1 : incl (map fst mid) (map fst t1)) by (rewrite Et1; apply incl_map_app_r).
    assert (Im2 : incl (map fst mid) (map fst h2)) by (rewrite Eh2; apply incl_map_app_l).
    assert (Ih1t1 : incl (map fst h1) (map fst t1)) by (rewrite Et1; apply incl_map_app_l).
    assert (It2h2 : incl (map fst t2) (map fst h2)) by (rewrite Eh2; apply incl_map_app_r).
    assert (Hslice : slice_list cs (length h1) (length t1) = Ok mid).
    { unfold slice_list.
      assert (Hc : (length h1 <=? length t1) && (length t1 <=? length cs) = true).
      { apply andb_true_iff. split; apply Nat.leb_le; lia. }
      rewrite Hc. f_equal. rewrite Hcs1 at 1. rewrite skipn_length_app, Eh2.
      replace (length t1 - length h1) with (length mid)
        by (rewrite Et1, app_length; lia).
      apply firstn_length_app. }
    rewrite Hslice. cbn [bind]. rewrite rebase_foldM. cbn [bind app].
    assert (Hlt1 : length t1 = length h1 + length mid) by (rewrite Et1; apply app_length).
    rewrite Hlt1.
    exists (((a, b'), Some (length acc + length mid + 1))
              :: map (rebase_one (length h1) (length h1 + length mid) (length acc)) mid
              ++ [((c', d), Some (length acc))]).
    split; [reflexivity|].
    assert (Hb'c' : b' <= c').
    { destruct Hendt as [Hc' | [r [Hr Hc']]].
      - destruct Hendh as [Hb' | [r [Hr Hb']]]; [lia|].
        apply Ih1t1, Bt1 in Hr. lia.
      - apply It2h2 in Hr. destruct (snf_in _ _ _ Sh2 Hr) as [H1 _]. lia. }
    assert (Smid : sorted_nonempty_from b' (map fst mid)).
    { rewrite Eh2, map_app in Sh2. apply snf_app in Sh2. tauto. }
    assert (Bmid : forall r, In r (map fst mid) -> snd r < c').
    { intros r Hr. apply Bt1, Im1, Hr. }
    unfold seg_inv. cbn [map fst]. rewrite map_app, map_fst_rebase. cbn [map fst].
    split.
    { cbn [sorted_nonempty_from]. split; [exact Hlo|]. split; [lia|].
      apply snf_snoc. split; [exact Smid|]. split; [|lia].
      apply last_end_bounded; [exact Hb'c'|]. intros r Hr. apply Bmid in Hr. lia. }
    split.
    { intros r [Hr | Hr]; [subst r; simpl; lia|].
      apply in_app_or in Hr. destruct Hr as [Hr | [Hr | []]].
      - apply Bmid in Hr. lia.
      - subst r. simpl. lia. }
    split.
    { intros i.
      rewrite in_ranges_cons, in_ranges_app, in_ranges_single, in_range_pair, Hposh, Hpost.
      rewrite !in_ranges_cons, !in_range_pair, <- Pcs.
      assert (Hcsi : in_ranges (map fst cs) i <->
                     in_ranges (map fst h1) i \/ in_ranges (map fst mid) i
                     \/ in_ranges (map fst t2) i).
      { rewrite Hcs1 at 1. rewrite Eh2, !map_app, !in_ranges_app. tauto. }
      rewrite Hcsi. tauto. }
    split.
    { intros r [Hr | Hr].
      - subst r. cbn [fst snd]. split; [|exact Eb'].
        exists (a, b). split; [left; reflexivity | reflexivity].
      - apply in_app_or in Hr. destruct Hr as [Hr | [Hr | []]].
        + apply Esrc, It1, Im1, Hr.
        + subst r. cbn [fst snd]. split; [exact Ec'|].
          exists (c, d). split; [right; left; reflexivity | reflexivity]. }
    apply pcf_rebase with (t2 := t2).
    rewrite <- Eh2, <- Hcs1. exact Ccs.
Qed.

(** * Well-formedness *)

Lemma wf_rtree_unfold : forall lo hi h cl ch,
  wf_rtree lo hi (RT (h, cl) ch) <->
  (lo <= fst h /\ fst h < snd h /\ rr_hi (h, cl) <= hi /\
   match cl with Some tl => snd h <= fst tl /\ fst tl < snd tl | None => True end /\
   wf_forest (S (fst h)) (rr_hi (h, cl) - 1) ch).
Proof.
  intros lo hi h cl ch.
  assert (Hch : forall l lo' hi',
    (fix wf_children (lo' : nat) (l : list rtree) {struct l} : Prop :=
       match l with
       | [] => True
       | c :: l' => wf_rtree lo' hi' c /\ wf_children (rtree_hi c) l'
       end) lo' l <-> wf_forest lo' hi' l).
  { induction l as [|c l IH]; intros lo' hi'; [simpl; tauto|].
    cbn [wf_forest]. rewrite <- IH. tauto. }
  cbn [wf_rtree]. rewrite Hch. unfold rr_hi. cbn [fst snd]. tauto.
Qed.

Lemma wf_rtree_bounds : forall lo hi t, wf_rtree lo hi t -> lo <= rtree_hi t /\ rtree_hi t <= hi.
Proof.
  intros lo hi [[h cl] ch] H. apply wf_rtree_unfold in H.
  destruct H as [H1 [H2 [H3 [H4 _]]]]. cbn [rtree_hi]. split; [|exact H3].
  unfold rr_hi. cbn [fst snd]. destruct cl as [tl|]; lia.
Qed.

(** * The invariant for trees and forests *)

Definition tree_ok (t : rtree) : Prop :=
  forall acc lo hi, wf_rtree lo hi t ->
    exists new, merge_tree acc t = Ok (acc ++ new) /\
                seg_inv (length acc) lo (rtree_hi t) (rtree_ranges t) new.

Lemma forest_ok : forall f, Forall tree_ok f ->
  forall acc lo hi, wf_forest lo hi f ->
    exists new, foldM merge_tree f acc = Ok (acc ++ new) /\
                seg_inv (length acc) lo hi (forest_ranges f) new.
Proof.
  induction f as [|t f IH]; intros HF acc lo hi Hwf.
  - exists []. simpl. rewrite app_nil_r. split; [reflexivity | apply seg_inv_nil].
  - inversion HF as [|t0 f0 Ht Hf]; subst t0 f0.
    cbn [wf_forest] in Hwf. destruct Hwf as [Hwt Hwf].
    destruct (Ht acc lo hi Hwt) as [new1 [E1 I1]].
    destruct (IH Hf (acc ++ new1) (rtree_hi t) hi Hwf) as [new2 [E2 I2]].
    destruct (wf_rtree_bounds _ _ _ Hwt) as [Hb1 Hb2].
    exists (new1 ++ new2). cbn [foldM]. rewrite E1. cbn [bind]. rewrite E2.
    split; [rewrite app_assoc; reflexivity|].
    unfold forest_ranges. cbn [flat_map].
    rewrite app_length in I2.
    apply seg_inv_app with (mid := rtree_hi t); assumption.
Qed.

Lemma all_tree_ok : forall t, tree_ok t.
Proof.
  induction t as [[h cl] ch IHch] using rtree_ind'.
  intros acc lo hi Hwf. apply wf_rtree_unfold in Hwf.
  destruct Hwf as [H1 [H2 [H3 [H4 H5]]]].
  destruct (forest_ok ch IHch [] _ _ H5) as [cs [Ecs Ics]].
  cbn [app length] in Ecs, Ics.
  rewrite merge_tree_unfold_body, Ecs. cbn [bind].
  cbn [rtree_hi rtree_ranges]. fold (forest_ranges ch).
  destruct h as [a b]. cbn [fst snd] in *.
  destruct cl as [[c d]|]; unfold rr_hi, rr_ranges in *; cbn [fst snd app] in *.
  - destruct H4 as [H4 H6]. apply body_some; assumption.
  - apply body_none; assumption.
Qed.

(** * Main theorems *)

Theorem merge_markers_spec : forall f lo hi,
  wf_forest lo hi f ->
  exists ms, merge_markers f = Ok ms /\
    sorted_nonempty_from lo (map fst ms) /\
    bounded_by hi (map fst ms) /\
    (forall i, in_ranges (map fst ms) i <-> in_ranges (forest_ranges f) i) /\
    pairs_consistent ms /\
    (forall r, In r (map fst ms) ->
       (exists r1, In r1 (forest_ranges f) /\ fst r = fst r1) /\
       (exists r2, In r2 (forest_ranges f) /\ snd r = snd r2)).
Proof.
  intros f lo hi Hwf.
  assert (HF : Forall tree_ok f) by (apply Forall_forall; intros t _; apply all_tree_ok).
  destruct (forest_ok f HF [] lo hi Hwf) as [ms [E [S1 [B1 [P1 [E1 C1]]]]]].
  exists ms. unfold merge_markers. cbn [app] in E.
  split; [exact E|]. split; [exact S1|]. split; [exact B1|]. split; [exact P1|].
  split; [apply pcf_zero; exact C1 | exact E1].
Qed.

(** In a sorted list an earlier range ends at or before the start of a later one. *)
Lemma snf_nth_order : forall l lo k p r r',
  sorted_nonempty_from lo l -> nth_error l k = Some r -> nth_error l p = Some r' -> k < p ->
  snd r <= fst r'.
Proof.
  induction l as [|[a b] l IH]; intros lo k p r r' Hs Hk Hp Hkp.
  - destruct k; discriminate Hk.
  - simpl in Hs. destruct Hs as [H1 [H2 H3]].
    destruct p as [|p]; [lia|]. simpl in Hp.
    destruct k as [|k].
    + simpl in Hk. injection Hk as Hk. subst r. simpl.
      apply nth_error_In in Hp. destruct (snf_in _ _ _ H3 Hp) as [H4 _]. exact H4.
    + simpl in Hk. apply (IH b k p r r' H3 Hk Hp). lia.
Qed.

Theorem merge_markers_pair_order : forall f lo hi ms k r p,
  wf_forest lo hi f -> merge_markers f = Ok ms -> nth_error ms k = Some (r, Some p) -> k < p ->
  exists r', nth_error ms p = Some (r', Some k) /\ snd r <= fst r'.
Proof.
  intros f lo hi ms k r p Hwf Hm Hk Hkp.
  destruct (merge_markers_spec f lo hi Hwf) as [ms' [E [S1 [_ [_ [C1 _]]]]]].
  rewrite Hm in E. injection E as E. subst ms'.
  destruct (C1 k r p Hk) as [_ [r' Hp]].
  exists r'. split; [exact Hp|].
  apply (snf_nth_order (map fst ms) lo k p r r' S1); [| |exact Hkp].
  - exact (map_nth_error fst k ms Hk).
  - exact (map_nth_error fst p ms Hp).
Qed.

Print Assumptions merge_tree_unfold.
Print Assumptions merge_markers_spec.
Print Assumptions merge_markers_pair_order.
