(** The JSON form of the list can be read back: a small reader for exactly the shape the writer
    produces (an array of objects with the keys line_range, annotated_code_block, current_status),
    and the round trip  read (write items) = items. *)
From Coq Require Import List NArith Arith Bool Lia PeanoNat.
Import ListNotations.
From Chiri Require Import Base.Bytes Base.Res Model.ListRender Proofs.BytesLemmas.

(* ------------------------------------------------------------------------- *)
(** * The reader *)

(** Consume a literal. *)
Definition expect (p s : str) : option str :=
  if prefix p s then Some (skipn (length p) s) else None.

Definition is_digit_byte (b : byte) : bool := (48 <=? b)%N && (b <=? 57)%N.

(** Value of one hexadecimal digit (lower case, as serde_json writes them; upper case accepted). *)
Definition unhex (b : byte) : option N :=
  if is_digit_byte b then Some (b - 48)%N
  else if (97 <=? b)%N && (b <=? 102)%N then Some (b - 87)%N
  else if (65 <=? b)%N && (b <=? 70)%N then Some (b - 55)%N
  else None.

(** Reads the body of a JSON string literal up to and including the closing quote (the opening
    quote has been consumed).  Escapes: backslash followed by a quote, a backslash, a slash, b, t, n,
    f, r, or u00XX with two hexadecimal digits; raw bytes below 32 are
    rejected.  [fuel] bounds the number of characters read; [acc] is the text read so far.
    Returns the text and the rest of the input. *)
Fixpoint json_read_string (fuel : nat) (s : str) (acc : str) : option (str * str) :=
  match fuel with
  | 0 => None
  | S f =>
    match s with
    | [] => None
    | b :: s1 =>
      if (b =? 34)%N then Some (acc, s1)
      else if (b =? 92)%N then
        match s1 with
        | [] => None
        | e :: s2 =>
          if (e =? 34)%N then json_read_string f s2 (acc ++ [34%N])
          else if (e =? 92)%N then json_read_string f s2 (acc ++ [92%N])
          else if (e =? 47)%N then json_read_string f s2 (acc ++ [47%N])
          else if (e =? 98)%N then json_read_string f s2 (acc ++ [8%N])
          else if (e =? 116)%N then json_read_string f s2 (acc ++ [9%N])
          else if (e =? 110)%N then json_read_string f s2 (acc ++ [10%N])
          else if (e =? 102)%N then json_read_string f s2 (acc ++ [12%N])
          else if (e =? 114)%N then json_read_string f s2 (acc ++ [13%N])
          else if (e =? 117)%N then
            match s2 with
            | z1 :: z2 :: h :: l :: s3 =>
              if (z1 =? 48)%N && (z2 =? 48)%N then
                match unhex h, unhex l with
                | Some x, Some y => json_read_string f s3 (acc ++ [(16 * x + y)%N])
                | _, _ => None
                end
              else None
            | _ => None
            end
          else None
        end
      else if (b <? 32)%N then None
      else json_read_string f s1 (acc ++ [b])
    end
  end.

(** A complete string literal at the front of the input. *)
Definition json_read_string_top (s : str) : option (str * str) :=
  match expect [DQ] s with
  | Some s1 => json_read_string (length s1) s1 []
  | None => None
  end.

(** A maximal run of decimal digits. *)
Fixpoint read_digits (s : str) (acc : N) : N * str :=
  match s with
  | b :: s' => if is_digit_byte b then read_digits s' (acc * 10 + (b - 48))%N else (acc, s)
  | [] => (acc, [])
  end.

(** A JSON number without sign, fraction or exponent; no leading zero except for 0 itself. *)
Definition json_read_nat (s : str) : option (nat * str) :=
  match s with
  | [] => None
  | b :: s' =>
    if (b =? 48)%N then
      match s' with
      | c :: _ => if is_digit_byte c then None else Some (0, s')
      | [] => Some (0, s')
      end
    else if is_digit_byte b then let '(n, r) := read_digits s 0%N in Some (N.to_nat n, r)
    else None
  end.

Definition obind {A B} (o : option A) (f : A -> option B) : option B :=
  match o with Some a => f a | None => None end.

(** One object  {"line_range":[a,b],"annotated_code_block":"...","current_status":"Ready"|"Pending"} *)
Definition json_read_item (s : str) : option (list_item * str) :=
  obind (expect J_LINE_RANGE s) (fun s1 =>
  obind (json_read_nat s1) (fun '(a, s2) =>
  obind (expect [44%N] s2) (fun s3 =>
  obind (json_read_nat s3) (fun '(b, s4) =>
  obind (expect J_BLOCK s4) (fun s5 =>
  obind (json_read_string_top s5) (fun '(blk, s6) =>
  obind (expect J_STATUS s6) (fun s7 =>
  match expect J_READY s7 with
  | Some r => Some (mkItem a b blk true, r)
  | None =>
    match expect J_PENDING s7 with
    | Some r => Some (mkItem a b blk false, r)
    | None => None
    end
  end))))))).

(** The objects of a non-empty array, separated by commas, up to the closing bracket, which must
    end the input. *)
Fixpoint json_read_items (fuel : nat) (s : str) : option (list list_item) :=
  match fuel with
  | 0 => None
  | S f =>
    match json_read_item s with
    | Some (it, r) =>
      match expect [44%N] r with
      | Some r' => option_map (cons it) (json_read_items f r')
      | None =>
        match expect [93%N] r with
        | Some [] => Some [it]
        | _ => None
        end
      end
    | None => None
    end
  end.

(** The whole array. *)
Definition json_read_list (s : str) : option (list list_item) :=
  match expect [91%N] s with
  | None => None
  | Some s1 =>
    match expect [93%N] s1 with
    | Some [] => Some []
    | Some _ => None
    | None => json_read_items (length s1) s1
    end
  end.

(* ------------------------------------------------------------------------- *)
(** * Literals *)

Lemma expect_app p s : expect p (p ++ s) = Some s.
Proof.
  unfold expect. rewrite prefix_app.
  rewrite skipn_app, skipn_all, Nat.sub_diag. reflexivity.
Qed.

Lemma expect_cons b s : expect [b] (b :: s) = Some s.
Proof. apply (expect_app [b] s). Qed.

Lemma expect_mismatch b c p s : b <> c -> expect (b :: p) (c :: s) = None.
Proof.
  intros H. unfold expect. cbn [prefix]. apply beq_neq in H. rewrite H. reflexivity.
Qed.

(* ------------------------------------------------------------------------- *)
(** * Strings *)

Lemma hex_round_trip_small : forall b, (b < 32)%N ->
  unhex (hex_digit (b / 16)) = Some (b / 16)%N /\ unhex (hex_digit (b mod 16)) = Some (b mod 16)%N.
Proof.
  intros b Hb.
  destruct b as [|p]; [split; reflexivity|].
  do 5 (destruct p as [p|p|]; try (exfalso; lia); try (split; reflexivity)).
Qed.

(** one character of the source is read back from its escaped form with one unit of fuel *)
Lemma json_read_string_step : forall b f s acc,
  json_read_string (S f) (json_escape_byte b ++ s) acc = json_read_string f s (acc ++ [b]).
Proof.
  intros b f s acc.
  destruct (N.ltb_spec b 32) as [L|L].
  - (* control characters: enumerate *)
    destruct b as [|p]; [reflexivity|].
    do 5 (destruct p as [p|p|]; try (exfalso; lia); try reflexivity).
  - destruct (N.eqb_spec b 34) as [->|N1]; [reflexivity|].
    destruct (N.eqb_spec b 92) as [->|N2]; [reflexivity|].
    assert (json_escape_byte b = [b]) as E.
    { unfold json_escape_byte.
      destruct (N.eqb_spec b 34) as [?|_]; [contradiction|].
      destruct (N.eqb_spec b 92) as [?|_]; [contradiction|].
      destruct (N.eqb_spec b 8) as [?|_]; [lia|].
      destruct (N.eqb_spec b 9) as [?|_]; [lia|].
      destruct (N.eqb_spec b 10) as [?|_]; [lia|].
      destruct (N.eqb_spec b 12) as [?|_]; [lia|].
      destruct (N.eqb_spec b 13) as [?|_]; [lia|].
      destruct (N.ltb_spec b 32) as [?|_]; [lia|]. reflexivity. }
    rewrite E. cbn [app json_read_string].
    destruct (N.eqb_spec b 34) as [?|_]; [contradiction|].
    destruct (N.eqb_spec b 92) as [?|_]; [contradiction|].
    destruct (N.ltb_spec b 32) as [?|_]; [lia|]. reflexivity.
Qed.

Lemma json_read_string_body : forall s f acc rest, length s < f ->
  json_read_string f (flat_map json_escape_byte s ++ [DQ] ++ rest) acc = Some (acc ++ s, rest).
Proof.
  induction s as [|b s IH]; intros f acc rest Hf.
  - destruct f as [|f]; [cbn [length] in Hf; lia|]. rewrite app_nil_r. reflexivity.
  - destruct f as [|f]; [lia|]. cbn [length] in Hf. cbn [flat_map]. rewrite <- app_assoc.
    rewrite json_read_string_step. rewrite IH by lia. rewrite <- app_assoc. reflexivity.
Qed.

Lemma json_escape_byte_length b : 1 <= length (json_escape_byte b).
Proof.
  unfold json_escape_byte.
  repeat match goal with |- context [if ?c then _ else _] => destruct c end; cbn [length]; lia.
Qed.

Lemma json_escape_length s : length s <= length (flat_map json_escape_byte s).
Proof.
  induction s as [|b s IH]; [reflexivity|]. cbn [flat_map length]. rewrite app_length.
  pose proof (json_escape_byte_length b). lia.
Qed.

(** a written string literal is read back, whatever follows it *)
Theorem json_string_round_trip : forall s rest,
  json_read_string_top (json_string s ++ rest) = Some (s, rest).
Proof.
  intros s rest. unfold json_read_string_top, json_string.
  rewrite <- !app_assoc. rewrite expect_app.
  apply (json_read_string_body s _ [] rest).
  rewrite !app_length. cbn [length]. pose proof (json_escape_length s). lia.
Qed.

(* ------------------------------------------------------------------------- *)
(** * Numbers *)

Definition digits_val (acc : N) (ds : str) : N :=
  fold_left (fun a d => (a * 10 + (d - 48))%N) ds acc.

Lemma digits_val_snoc acc ds d : digits_val acc (ds ++ [d]) = (digits_val acc ds * 10 + (d - 48))%N.
Proof. unfold digits_val. rewrite fold_left_app. reflexivity. Qed.

Lemma read_digits_run : forall ds acc rest,
  Forall (fun d => is_digit_byte d = true) ds ->
  match rest with b :: _ => is_digit_byte b = false | [] => True end ->
  read_digits (ds ++ rest) acc = (digits_val acc ds, rest).
Proof.
  induction ds as [|d ds IH]; intros acc rest Hd Hr.
  - cbn [app]. destruct rest as [|b r]; [reflexivity|]. cbn [read_digits]. rewrite Hr. reflexivity.
  - inversion Hd as [|d' ds' H1 H2]; subst. cbn [app read_digits]. rewrite H1.
    apply IH; assumption.
Qed.

Lemma digit_of_small (m : N) : (m < 10)%N -> is_digit_byte (48 + m)%N = true.
Proof.
  intros H. unfold is_digit_byte. apply andb_true_iff. split; [apply N.leb_le | apply N.leb_le]; lia.
Qed.

(** what [dec_loop] writes: the digits of [n], most significant first, without a leading zero *)
Lemma dec_loop_spec : forall fuel n acc, (n < N.of_nat fuel)%N ->
  exists d ds, dec_loop fuel n acc = (d :: ds) ++ acc /\
    Forall (fun d => is_digit_byte d = true) (d :: ds) /\
    digits_val 0 (d :: ds) = n /\
    (n = 0%N -> ds = [] /\ d = 48%N) /\ (n <> 0%N -> d <> 48%N).
Proof.
  induction fuel as [|f IH]; intros n acc Hn; [lia|].
  cbn [dec_loop].
  assert (n mod 10 < 10)%N as Hm by (apply N.mod_lt; lia).
  destruct (N.ltb_spec n 10) as [L|L].
  - exists (48 + n mod 10)%N, []. rewrite N.mod_small by exact L.
    split; [reflexivity|]. split; [constructor; [apply digit_of_small; exact L | constructor]|].
    split; [unfold digits_val; cbn [fold_left]; lia|].
    split; [intros ->; split; reflexivity | intros H; lia].
  - assert (n / 10 < N.of_nat f)%N as Hq.
    { assert (n / 10 < n)%N by (apply N.div_lt; lia). lia. }
    destruct (IH (n / 10)%N ((48 + n mod 10)%N :: acc) Hq) as (d & ds & E & Hd & Hv & _ & Hnz).
    exists d, (ds ++ [(48 + n mod 10)%N]). split; [|split; [|split; [|split]]].
    + rewrite E. cbn [app]. rewrite <- app_assoc. reflexivity.
    + change (d :: ds ++ [(48 + n mod 10)%N]) with ((d :: ds) ++ [(48 + n mod 10)%N]).
      apply Forall_app. split; [exact Hd|]. constructor; [apply digit_of_small; exact Hm | constructor].
    + change (d :: ds ++ [(48 + n mod 10)%N]) with ((d :: ds) ++ [(48 + n mod 10)%N]).
      rewrite digits_val_snoc, Hv.
      rewrite (N.add_comm 48), N.add_sub.
      pose proof (N.div_mod n 10 ltac:(lia)) as Hdm. lia.
    + intros ->. exfalso. lia.
    + intros _. apply Hnz. intros E0.
      assert (10 * 1 <= n)%N as H10 by lia.
      apply N.div_le_lower_bound in H10; lia.
Qed.

(** a written number is read back when no digit follows it *)
Theorem dec_round_trip : forall n rest,
  (match rest with b :: _ => is_digit_byte b = false | [] => True end) ->
  json_read_nat (dec n ++ rest) = Some (n, rest).
Proof.
  intros n rest Hr. unfold dec.
  destruct (dec_loop_spec (S n) (N.of_nat n) []) as (d & ds & E & Hd & Hv & Hz & Hnz); [lia|].
  rewrite E, app_nil_r. unfold json_read_nat. cbn [app].
  destruct (N.eqb_spec d 48) as [E0|E0].
  - destruct (N.eq_dec (N.of_nat n) 0) as [Z|Z]; [|exfalso; exact (Hnz Z E0)].
    destruct (Hz Z) as [-> _]. cbn [app]. assert (n = 0) as -> by lia.
    destruct rest as [|c r]; [reflexivity|]. rewrite Hr. reflexivity.
  - inversion Hd as [|d' ds' H1 H2]; subst. rewrite H1.
    change (d :: ds ++ rest) with ((d :: ds) ++ rest).
    rewrite (read_digits_run (d :: ds) 0%N rest Hd Hr), Hv, Nat2N.id. reflexivity.
Qed.

(* ------------------------------------------------------------------------- *)
(** * Objects *)

Theorem json_item_round_trip : forall it rest,
  json_read_item (json_item it ++ rest) = Some (it, rest).
Proof.
  intros [a b blk ready] rest. unfold json_item, json_read_item. cbn [li_first li_last li_block li_ready].
  rewrite <- !app_assoc. rewrite expect_app. cbn [obind].
  rewrite dec_round_trip by reflexivity. cbn [obind].
  rewrite expect_app. cbn [obind].
  rewrite dec_round_trip by reflexivity. cbn [obind].
  rewrite expect_app. cbn [obind].
  rewrite json_string_round_trip. cbn [obind].
  rewrite expect_app. cbn [obind].
  destruct ready.
  - rewrite expect_app. reflexivity.
  - assert (expect J_READY (J_PENDING ++ rest) = None) as E by reflexivity.
    rewrite E, expect_app. reflexivity.
Qed.

Lemma json_item_head it : exists tl, json_item it = 123%N :: tl.
Proof. unfold json_item, J_LINE_RANGE. eexists. reflexivity. Qed.

(* ------------------------------------------------------------------------- *)
(** * Arrays *)

Lemma json_read_items_round_trip : forall items it f, length items < f ->
  json_read_items f (join_comma (map json_item (it :: items)) ++ [93%N]) = Some (it :: items).
Proof.
  induction items as [|it2 items IH]; intros it f Hf; (destruct f as [|f]; [cbn [length] in Hf; lia|]).
  - cbn [map join_comma json_read_items]. rewrite json_item_round_trip.
    assert (expect [44%N] [93%N] = None) as E by reflexivity. rewrite E.
    rewrite expect_cons. reflexivity.
  - cbn [length] in Hf.
    change (join_comma (map json_item (it :: it2 :: items)))
      with (json_item it ++ [44%N] ++ join_comma (map json_item (it2 :: items))).
    cbn [json_read_items]. rewrite <- !app_assoc. rewrite json_item_round_trip.
    cbn [app]. rewrite expect_cons. rewrite IH by lia. reflexivity.
Qed.

Lemma join_comma_length its : length its <= length (join_comma (map json_item its)).
Proof.
  induction its as [|it its IH]; [reflexivity|].
  destruct (json_item_head it) as [tl E].
  destruct its as [|it2 its]; [cbn [map join_comma length]; rewrite E; cbn [length]; lia|].
  change (join_comma (map json_item (it :: it2 :: its)))
    with (json_item it ++ [44%N] ++ join_comma (map json_item (it2 :: its))).
  rewrite !app_length. cbn [length] in *.
  match goal with |- _ <= _ + (1 + ?x) =>
    assert (S (length its) <= x) as IH' by exact IH; revert IH'; generalize x end.
  intros x Hx. lia.
Qed.

(** the written array is read back: every item is recovered *)
Theorem json_list_round_trip : forall items, json_read_list (json_list items) = Some items.
Proof.
  intros [|it items]; [reflexivity|].
  unfold json_list, json_read_list. rewrite expect_app.
  assert (expect [93%N] (join_comma (map json_item (it :: items)) ++ [93%N]) = None) as E.
  { destruct (json_item_head it) as [tl Et].
    destruct items as [|it2 items]; cbn [map join_comma]; rewrite Et; cbn [app];
      apply expect_mismatch; discriminate. }
  rewrite E. apply json_read_items_round_trip.
  rewrite app_length. pose proof (join_comma_length (it :: items)) as H. cbn [length] in *. lia.
Qed.

(* ------------------------------------------------------------------------- *)
(** * The reader at work *)

(** two items; the code block of the first holds a quote, a backslash, a tab, a line break, the
    control character 27 and a three-byte character *)
Example json_read_list_example :
  let items := [mkItem 3 12 [34; 92; 9; 10; 27; 226; 128; 190; 97]%N true; mkItem 0 0 [] false] in
  json_read_list (json_list items) = Some items.
Proof. vm_compute. reflexivity. Qed.

(** the reader is strict: it rejects trailing input, a missing bracket, a raw control character in
    a string, a leading zero, an unknown status and a missing key *)
Example json_read_list_rejects :
  json_read_list (json_list [] ++ [32%N]) = None /\
  json_read_list (removelast (json_list [mkItem 1 2 [97%N] true])) = None /\
  json_read_string_top [34; 9; 34]%N = None /\
  json_read_nat [48; 49]%N = None /\
  json_read_item (J_LINE_RANGE ++ dec 1 ++ [44%N] ++ dec 2 ++ J_BLOCK ++ json_string [] ++ J_STATUS
                  ++ [34; 68; 111; 110; 101; 34; 125]%N) = None /\
  json_read_item (J_LINE_RANGE ++ dec 1 ++ [44%N] ++ dec 2 ++ J_BLOCK ++ json_string [] ++ [125%N]) = None.
Proof. vm_compute. repeat split. Qed.

Print Assumptions json_string_round_trip.
Print Assumptions dec_round_trip.
Print Assumptions json_item_round_trip.
Print Assumptions json_list_round_trip.
