(** The relaxed RFC 3339 reader behind --time-limited-current ([Model.Current.parse_current]) on rendered
    wall-clock times: every accepted spelling reads as the instant it denotes, Z / z / UTC stand for offset
    zero, white space around the text does not matter, and the same instant written in two zones reads the
    same. *)
From Coq Require Import List NArith ZArith Arith Bool Lia.
Import ListNotations.
From Chiri Require Import Base.Bytes Base.Res Model.TagParser Model.Chrono Model.Markers
     Spec.CivilTime Proofs.BytesLemmas Proofs.C06Proofs Proofs.C05Proofs Proofs.ChronoProofs
     Model.Current Proofs.ChronoPadding.
Local Open Scope Z_scope.

Definition is_sep (b : byte) : bool := ((b =? 84) || (b =? 116) || (b =? 32))%N.     (* T t blank *)
(* the fraction of a second: nothing, or a dot and at least one digit *)
Definition is_frac (f : str) : bool :=
  match f with [] => true | 46%N :: ds => negb (match ds with [] => true | _ => false end) && forallb is_digit ds | _ => false end.

Definition render_date (y m d : Z) : str := render4 y ++ [45%N] ++ render2 m ++ [45%N] ++ render2 d.
Definition render_time (h mi s : Z) : str := render2 h ++ [58%N] ++ render2 mi ++ [58%N] ++ render2 s.

(** * The parse on a skeleton "dddd-dd-ddSdd:dd:dd" followed by anything *)

(** What [parse_current] does once the six fields are read. *)
Definition cfinish (year month day hour minute second : Z) (rest : str) : option (Z * bool) :=
  match nanosecond_item rest with None => None | Some s =>
  match current_offset s with None => None | Some (s, offset) =>
  match trim_ws s with _ :: _ => None | [] =>
  if negb ((MIN_YEAR <=? year) && (year <=? MAX_YEAR)) then None else
  if negb (day <=? days_in_month year month) then None else
  if negb ((-86400 <? offset) && (offset <? 86400)) then None else
  let local := days_from_civil year month day * 86400 + hour * 3600 + minute * 60
               + (if second =? 60 then 59 else second) in
  let utc := local - offset in
  if (utc <? days_from_civil MIN_YEAR 1 1 * 86400) || (days_from_civil (MAX_YEAR + 1) 1 1 * 86400 <=? utc)
  then None
  else Some (utc, second =? 60)
  end end end.

Definition cfields_then (month day hour minute second : Z) (k : option (Z * bool)) : option (Z * bool) :=
  if negb ((1 <=? month) && (month <=? 12)) then None else
  if negb ((1 <=? day) && (day <=? 31)) then None else
  if negb (hour <=? 23) then None else
  if negb (minute <=? 59) then None else
  if negb (second <=? 60) then None else k.

Lemma is_sep_model sep : is_sep sep = true -> ((sep =? 116) || (sep =? 84) || (sep =? 32))%N = true.
Proof.
  unfold is_sep. intros H.
  destruct (sep =? 84)%N, (sep =? 116)%N, (sep =? 32)%N; try reflexivity; discriminate H.
Qed.

Lemma current_skeleton y1 y2 y3 y4 m1 m2 d1 d2 sep h1 h2 i1 i2 s1 s2 rest :
  is_digit y1 = true -> is_digit y2 = true -> is_digit y3 = true -> is_digit y4 = true ->
  is_digit m1 = true -> is_digit m2 = true -> is_digit d1 = true -> is_digit d2 = true ->
  is_digit h1 = true -> is_digit h2 = true -> is_digit i1 = true -> is_digit i2 = true ->
  is_digit s1 = true -> is_digit s2 = true -> is_sep sep = true ->
  parse_current (y1 :: y2 :: y3 :: y4 :: 45%N :: m1 :: m2 :: 45%N :: d1 :: d2 :: sep ::
                 h1 :: h2 :: 58%N :: i1 :: i2 :: 58%N :: s1 :: s2 :: rest)
  = cfields_then (val2 m1 m2) (val2 d1 d2) (val2 h1 h2) (val2 i1 i2) (val2 s1 s2)
      (cfinish (val4 y1 y2 y3 y4) (val2 m1 m2) (val2 d1 d2) (val2 h1 h2) (val2 i1 i2) (val2 s1 s2) rest).
Proof.
  intros Hy1 Hy2 Hy3 Hy4 Hm1 Hm2 Hd1 Hd2 Hh1 Hh2 Hi1 Hi2 Hs1 Hs2 Hsep.
  unfold parse_current.
  rewrite (numeric4_signed _ _ _ _ _ Hy1 Hy2 Hy3 Hy4). cbv beta iota zeta.
  change (trim_ws (45%N :: ?r)) with (45%N :: r).
  change (literal 45%N (45%N :: ?r)) with (Some r). cbv beta iota.
  rewrite (numeric2 _ _ _ Hm1 Hm2). cbv beta iota.
  change (trim_ws (45%N :: ?r)) with (45%N :: r).
  change (literal 45%N (45%N :: ?r)) with (Some r). cbv beta iota.
  rewrite (numeric2 _ _ _ Hd1 Hd2). cbv beta iota.
  rewrite (is_sep_model sep Hsep). cbn [negb].
  rewrite (numeric2 _ _ _ Hh1 Hh2). cbv beta iota.
  change (trim_ws (58%N :: ?r)) with (58%N :: r).
  change (literal 58%N (58%N :: ?r)) with (Some r). cbv beta iota.
  rewrite (numeric2 _ _ _ Hi1 Hi2). cbv beta iota.
  change (trim_ws (58%N :: ?r)) with (58%N :: r).
  change (literal 58%N (58%N :: ?r)) with (Some r). cbv beta iota.
  rewrite (numeric2 _ _ _ Hs1 Hs2). cbv beta iota.
  reflexivity.
Qed.

(** "YYYY-MM-DDsHH:MM:SS" followed by anything, all two-digit fields arbitrary. *)
Lemma current_render_to y m d sep h mi s rest :
  0 <= y <= 9999 -> 0 <= m <= 99 -> 0 <= d <= 99 -> 0 <= h <= 99 -> 0 <= mi <= 99 -> 0 <= s <= 99 ->
  is_sep sep = true ->
  parse_current (render_date y m d ++ [sep] ++ render_time h mi s ++ rest)
  = cfields_then m d h mi s (cfinish y m d h mi s rest).
Proof.
  intros Hy Hm Hd Hh Hmi Hs Hsep.
  destruct (render4_digits y Hy) as [Y1 [Y2 [Y3 [Y4 YV]]]].
  destruct (render2_digits m Hm) as [M1 [M2 MV]].
  destruct (render2_digits d Hd) as [D1 [D2 DV]].
  destruct (render2_digits h Hh) as [H1 [H2 HV]].
  destruct (render2_digits mi Hmi) as [I1 [I2 IV]].
  destruct (render2_digits s Hs) as [S1 [S2 SV]].
  pose proof (current_skeleton _ _ _ _ _ _ _ _ sep _ _ _ _ _ _ rest
                Y1 Y2 Y3 Y4 M1 M2 D1 D2 H1 H2 I1 I2 S1 S2 Hsep) as P.
  rewrite YV, MV, DV, HV, IV, SV in P. exact P.
Qed.

(** * The fraction of a second *)

(** the text after the fraction does not begin with a digit or a dot *)
Definition stops (rest : str) : bool :=
  match rest with [] => true | b :: _ => negb (is_digit b) && negb (b =? 46)%N end.

Lemma skip_digits_stops rest : stops rest = true -> skip_digits rest = rest.
Proof.
  destruct rest as [|b r]; [reflexivity|]. cbn [stops skip_digits]. intros H.
  apply andb_true_iff in H. destruct H as [H _]. apply negb_true_iff in H. rewrite H. reflexivity.
Qed.

Lemma skip_digits_app ds rest : forallb is_digit ds = true -> stops rest = true ->
  skip_digits (ds ++ rest) = rest.
Proof.
  induction ds as [|b ds IH]; intros Hd Hr; [apply skip_digits_stops; exact Hr|].
  cbn [forallb] in Hd. apply andb_true_iff in Hd. destruct Hd as [Hb Hd].
  cbn [app skip_digits]. rewrite Hb. apply IH; assumption.
Qed.

Fixpoint pow10 (f : nat) : Z := match f with O => 1 | S m => 10 * pow10 m end.

Lemma pow10_pos f : 1 <= pow10 f.
Proof. induction f as [|f IH]; cbn [pow10]; lia. Qed.

(** [number] on digits then a stop: some digits are the value, the others are left; no overflow as long as
    the value stays below 10^9. *)
Lemma number_loop_digits rest : stops rest = true -> forall f ds n seen,
  forallb is_digit ds = true -> (seen = true \/ (ds <> [] /\ f <> O)) ->
  0 <= n -> (n + 1) * pow10 f <= 1000000000 ->
  exists r' v, number_loop f (ds ++ rest) n seen = Some (r', v) /\ skip_digits r' = rest.
Proof.
  intros Hr. induction f as [|f IH]; intros ds n seen Hd Hseen Hn Hb.
  - destruct Hseen as [-> | [_ F]]; [|congruence].
    cbn [number_loop]. exists (ds ++ rest), n. split; [reflexivity | apply skip_digits_app; assumption].
  - destruct ds as [|b ds].
    + destruct Hseen as [-> | [F _]]; [|congruence].
      cbn [app]. exists rest, n. split; [|apply skip_digits_stops; exact Hr].
      destruct rest as [|c r]; [reflexivity|].
      cbn [stops] in Hr. apply andb_true_iff in Hr. destruct Hr as [Hc _]. apply negb_true_iff in Hc.
      cbn [number_loop]. rewrite Hc. reflexivity.
    + cbn [forallb] in Hd. apply andb_true_iff in Hd. destruct Hd as [Hb1 Hd].
      pose proof (digit_val_range b Hb1) as Rb.
      pose proof (pow10_pos f) as P1.
      cbn [pow10] in Hb.
      assert (B' : (n * 10 + digit_val b + 1) * pow10 f <= 1000000000).
      { assert (n * 10 + digit_val b + 1 <= (n + 1) * 10) by lia.
        assert ((n * 10 + digit_val b + 1) * pow10 f <= ((n + 1) * 10) * pow10 f)
          by (apply Z.mul_le_mono_nonneg_r; lia).
        lia. }
      assert (Small : n * 10 + digit_val b + 1 <= 1000000000).
      { assert ((n * 10 + digit_val b + 1) * 1 <= (n * 10 + digit_val b + 1) * pow10 f)
          by (apply Z.mul_le_mono_nonneg_l; lia).
        lia. }
      cbn [app number_loop]. rewrite Hb1.
      assert (E : (n * 10 + digit_val b >? I64_MAX) = false).
      { unfold I64_MAX. rewrite Z.gtb_ltb. apply Z.ltb_ge. lia. }
      cbv zeta. rewrite E.
      apply IH; [exact Hd | left; reflexivity | lia | exact B'].
Qed.

Lemma nanosecond_frac frac rest : is_frac frac = true -> stops rest = true ->
  nanosecond_item (frac ++ rest) = Some rest.
Proof.
  intros Hf Hr. destruct frac as [|b ds].
  - cbn [app]. destruct rest as [|c r]; [reflexivity|].
    cbn [stops] in Hr. apply andb_true_iff in Hr. destruct Hr as [_ Hc]. apply negb_true_iff in Hc.
    apply N.eqb_neq in Hc. unfold nanosecond_item.
    destruct c as [|p]; [reflexivity|].
    do 6 (try (destruct p as [p|p|]; try reflexivity)). congruence.
  - assert (Eb : b = 46%N).
    { unfold is_frac in Hf. destruct b as [|p]; [discriminate Hf|].
      do 6 (try (destruct p as [p|p|]; try discriminate Hf)). reflexivity. }
    subst b. cbn [is_frac] in Hf. apply andb_true_iff in Hf. destruct Hf as [Hne Hd].
    assert (Nds : ds <> []) by (destruct ds; [discriminate Hne | discriminate]).
    cbn [app]. unfold nanosecond_item.
    assert (Nn : number (ds ++ rest) (Some 9%nat) = number_loop 9 (ds ++ rest) 0 false).
    { unfold number. destruct ds; [congruence | reflexivity]. }
    rewrite Nn.
    destruct (number_loop_digits rest Hr 9%nat ds 0 false Hd) as [r' [v [E S]]].
    + right. split; [exact Nds | discriminate].
    + lia.
    + vm_compute. discriminate.
    + rewrite E. rewrite S. reflexivity.
Qed.

(** * The offset *)

Lemma ascii_ws_stops b : ascii_ws b = true -> is_digit b = false /\ (b =? 46)%N = false.
Proof.
  unfold ascii_ws, is_digit. intros H. apply orb_true_iff in H.
  split.
  - apply andb_false_iff.
    destruct H as [H | H].
    + apply andb_true_iff in H. destruct H as [_ H]. apply N.leb_le in H. left. apply N.leb_gt. lia.
    + apply N.eqb_eq in H. left. apply N.leb_gt. lia.
  - apply N.eqb_neq. destruct H as [H | H].
    + apply andb_true_iff in H. destruct H as [_ H]. apply N.leb_le in H. lia.
    + apply N.eqb_eq in H. lia.
Qed.

Lemma stops_gap gap rest : forallb ascii_ws gap = true -> stops rest = true -> stops (gap ++ rest) = true.
Proof.
  intros Hg Hr. destruct gap as [|b g]; [exact Hr|].
  cbn [forallb] in Hg. apply andb_true_iff in Hg. destruct Hg as [Hb _].
  destruct (ascii_ws_stops b Hb) as [E1 E2]. cbn [app stops]. rewrite E1, E2. reflexivity.
Qed.

Lemma stops_offset negative colon oh om : stops (render_offset negative colon oh om) = true.
Proof. destruct negative; reflexivity. Qed.

Lemma current_offset_rendered gap negative colon oh om :
  forallb ascii_ws gap = true -> 0 <= oh <= 99 -> 0 <= om <= 99 ->
  current_offset (gap ++ render_offset negative colon oh om)
  = if om <=? 59
    then Some ([], if negative then - (oh * 3600 + om * 60) else oh * 3600 + om * 60)
    else None.
Proof.
  intros Hg Hoh Hom.
  pose proof (tz_rendered negative colon oh om Hoh Hom) as T.
  rewrite (trim_ws_app_ws [SP] _ eq_refl) in T.
  unfold current_offset. rewrite (trim_ws_app_ws gap _ Hg).
  assert (E : trim_ws (render_offset negative colon oh om) = render_offset negative colon oh om)
    by (destruct negative; reflexivity).
  rewrite E in T. rewrite E. rewrite <- T.
  destruct negative, colon; reflexivity.
Qed.

Definition is_zulu (z : str) : bool :=
  match z with
  | [a] => ((a =? 90) || (a =? 122))%N
  | [a; b; c] => is_utc3 a b c
  | _ => false
  end.

Lemma zulu_cases z : is_zulu z = true ->
  (exists a, z = [a] /\ (a = 90%N \/ a = 122%N)) \/
  (exists a b c, z = [a; b; c] /\ (a = 85%N \/ a = 117%N) /\ is_utc3 a b c = true).
Proof.
  intros H. destruct z as [|a [|b [|c [|e z]]]]; try discriminate H.
  - left. exists a. split; [reflexivity|]. cbn [is_zulu] in H.
    apply orb_true_iff in H. destruct H as [H|H]; apply N.eqb_eq in H; auto.
  - right. exists a, b, c. split; [reflexivity|]. cbn [is_zulu] in H. split; [|exact H].
    unfold is_utc3 in H. apply andb_true_iff in H. destruct H as [H _].
    apply andb_true_iff in H. destruct H as [H _].
    apply orb_true_iff in H. destruct H as [H|H]; apply N.eqb_eq in H; auto.
Qed.

Lemma stops_zulu z : is_zulu z = true -> stops z = true.
Proof.
  intros H. destruct (zulu_cases z H) as [[a [-> [-> | ->]]] | [a [b [c [-> [[-> | ->] _]]]]]]; reflexivity.
Qed.

Lemma current_offset_zulu gap z : forallb ascii_ws gap = true -> is_zulu z = true ->
  current_offset (gap ++ z) = Some ([], 0).
Proof.
  intros Hg Hz. unfold current_offset. rewrite (trim_ws_app_ws gap _ Hg).
  destruct (zulu_cases z Hz) as [[a [-> [-> | ->]]] | [a [b [c [-> [Ha U]]]]]]; try reflexivity.
  assert (E : trim_ws [a; b; c] = [a; b; c]) by (destruct Ha as [-> | ->]; reflexivity).
  rewrite E. rewrite U. reflexivity.
Qed.

(** * The range checks *)

Lemma cfinish_offset y m d h mi s rest rest' off :
  0 <= y <= 9999 -> 1 <= m <= 12 -> 1 <= d <= 31 -> 0 <= h <= 23 -> 0 <= mi <= 59 -> 0 <= s <= 60 ->
  -86400 < off < 86400 ->
  nanosecond_item rest = Some rest' -> current_offset rest' = Some ([], off) ->
  cfinish y m d h mi s rest
  = if d <=? days_in_month y m
    then Some (days_from_civil y m d * 86400 + h * 3600 + mi * 60 + (if s =? 60 then 59 else s) - off,
               s =? 60)
    else None.
Proof.
  intros Hy Hm Hd Hh Hmi Hs Hoff EN EO.
  unfold cfinish. rewrite EN, EO. cbv beta iota zeta.
  change (trim_ws []) with (@nil byte). cbv iota.
  replace ((MIN_YEAR <=? y) && (y <=? MAX_YEAR)) with true
    by (symmetry; unfold MIN_YEAR, MAX_YEAR; apply andb_true_iff; split; apply Z.leb_le; lia).
  cbn [negb].
  destruct (d <=? days_in_month y m); cbn [negb]; [|reflexivity].
  replace ((-86400 <? off) && (off <? 86400)) with true
    by (symmetry; apply andb_true_iff; split; apply Z.ltb_lt; lia).
  cbn [negb].
  rewrite min_bound_val, max_bound_val.
  pose proof (days_from_civil_bounds y m d Hy Hm Hd) as B.
  set (dc := days_from_civil y m d) in *.
  set (s' := if s =? 60 then 59 else s).
  assert (Hs' : 0 <= s' <= 59) by (subst s'; destruct (s =? 60) eqn:E; [lia | apply Z.eqb_neq in E; lia]).
  match goal with |- (if ?c then _ else _) = _ => replace c with false end; [reflexivity|].
  symmetry. apply orb_false_iff. split; [apply Z.ltb_ge | apply Z.leb_gt]; lia.
Qed.

Lemma cfields_valid y m d h mi s k : valid_civil y m d h mi s -> cfields_then m d h mi s k = k.
Proof.
  intros [Hy [Hm [Hd [Hh [Hmi Hs]]]]].
  pose proof (days_in_month_le_31 y m) as D31.
  unfold cfields_then.
  replace ((1 <=? m) && (m <=? 12)) with true
    by (symmetry; apply andb_true_iff; split; apply Z.leb_le; lia).
  replace ((1 <=? d) && (d <=? 31)) with true
    by (symmetry; apply andb_true_iff; split; apply Z.leb_le; lia).
  replace (h <=? 23) with true by (symmetry; apply Z.leb_le; lia).
  replace (mi <=? 59) with true by (symmetry; apply Z.leb_le; lia).
  replace (s <=? 60) with true by (symmetry; apply Z.leb_le; lia).
  reflexivity.
Qed.

(** * 1: every accepted spelling of a wall-clock time at an offset reads as the instant it denotes *)

Theorem current_rendered : forall y m d h mi s sep frac gap negative colon oh om,
  valid_civil y m d h mi s -> valid_offset oh om ->
  is_sep sep = true -> is_frac frac = true -> forallb ascii_ws gap = true ->
  parse_current (render_date y m d ++ [sep] ++ render_time h mi s ++ frac ++ gap ++ render_offset negative colon oh om)
  = Some (instant y m d h mi s negative oh om, false).
Proof.
  intros y m d h mi s sep frac gap negative colon oh om Hc [Hoh Hom] Hsep Hfrac Hgap.
  pose proof Hc as [Hy [Hm [Hd [Hh [Hmi Hs]]]]].
  pose proof (days_in_month_le_31 y m) as D31.
  rewrite current_render_to by (assumption || lia).
  rewrite (cfields_valid y m d h mi s _ Hc).
  rewrite (cfinish_offset y m d h mi s _ (gap ++ render_offset negative colon oh om)
             (if negative then - (oh * 3600 + om * 60) else oh * 3600 + om * 60)); try lia.
  - replace (d <=? days_in_month y m) with true by (symmetry; apply Z.leb_le; lia).
    replace (s =? 60) with false by (symmetry; apply Z.eqb_neq; lia).
    unfold instant, offset_seconds. destruct negative; do 2 f_equal; lia.
  - destruct negative; lia.
  - apply nanosecond_frac; [exact Hfrac|]. apply stops_gap; [exact Hgap | apply stops_offset].
  - rewrite (current_offset_rendered gap negative colon oh om Hgap) by lia.
    replace (om <=? 59) with true by (symmetry; apply Z.leb_le; lia). reflexivity.
Qed.

Print Assumptions current_rendered.

(** * 2: Z, z and UTC in any letter case stand for offset zero *)

Theorem current_rendered_zulu : forall y m d h mi s sep frac gap z,
  valid_civil y m d h mi s -> is_sep sep = true -> is_frac frac = true -> forallb ascii_ws gap = true -> is_zulu z = true ->
  parse_current (render_date y m d ++ [sep] ++ render_time h mi s ++ frac ++ gap ++ z)
  = Some (instant y m d h mi s false 0 0, false).
Proof.
  intros y m d h mi s sep frac gap z Hc Hsep Hfrac Hgap Hz.
  pose proof Hc as [Hy [Hm [Hd [Hh [Hmi Hs]]]]].
  pose proof (days_in_month_le_31 y m) as D31.
  rewrite current_render_to by (assumption || lia).
  rewrite (cfields_valid y m d h mi s _ Hc).
  rewrite (cfinish_offset y m d h mi s _ (gap ++ z) 0); try lia.
  - replace (d <=? days_in_month y m) with true by (symmetry; apply Z.leb_le; lia).
    replace (s =? 60) with false by (symmetry; apply Z.eqb_neq; lia).
    unfold instant, offset_seconds. do 2 f_equal; lia.
  - apply nanosecond_frac; [exact Hfrac|]. apply stops_gap; [exact Hgap | apply stops_zulu; exact Hz].
  - apply current_offset_zulu; assumption.
Qed.

Print Assumptions current_rendered_zulu.

(** * 3: white space around the whole text does not matter *)

(** ** every scanner commutes with ASCII white space appended to its input *)

Lemma ascii_ws_le b : ascii_ws b = true -> (b <= 32)%N.
Proof.
  unfold ascii_ws. intros H. apply orb_true_iff in H. destruct H as [H | H].
  - apply andb_true_iff in H. destruct H as [_ H]. apply N.leb_le in H. lia.
  - apply N.eqb_eq in H. lia.
Qed.

Lemma ascii_ws_not_digit b : ascii_ws b = true -> is_digit b = false.
Proof. intros H. apply (ascii_ws_stops b H). Qed.

Ltac ne_false e k :=
  replace (e =? k)%N with false in * by (symmetry; apply N.eqb_neq; lia).

Lemma ws_len_app s w : s <> [] -> forallb ascii_ws w = true -> ws_len (s ++ w) = ws_len s.
Proof.
  intros Hs Hw. destruct w as [|e w]; [rewrite app_nil_r; reflexivity|].
  cbn [forallb] in Hw. apply andb_true_iff in Hw. destruct Hw as [He _].
  pose proof (ascii_ws_le e He) as Le.
  rewrite !ws_len_eq.
  destruct s as [|b [|c [|d s]]]; [congruence | | | reflexivity]; cbn [app]; unfold ws_len'.
  - ne_false e 133%N. ne_false e 160%N. ne_false e 154%N. ne_false e 128%N. ne_false e 129%N.
    cbn [orb andb]. destruct w; split_ifs; reflexivity.
  - ne_false e 128%N. ne_false e 159%N. ne_false e 168%N. ne_false e 169%N. ne_false e 175%N.
    replace (128 <=? e)%N with false by (symmetry; apply N.leb_gt; lia).
    rewrite ?andb_false_r. cbn [orb andb]. split_ifs; reflexivity.
Qed.

Lemma ws_len_le_length s : (ws_len s <= length s)%nat.
Proof.
  rewrite ws_len_eq. destruct s as [|b [|c [|d s]]]; unfold ws_len'; cbn [length]; split_ifs; lia.
Qed.

Lemma trim_ws_step s : trim_ws s = match ws_len s with O => s | S n => trim_ws (skipn (S n) s) end.
Proof.
  unfold trim_ws at 1. destruct s as [|b r]; [reflexivity|].
  cbn [length trim_ws_fuel]. destruct (ws_len (b :: r)) as [|n]; [reflexivity|].
  apply trim_ws_fuel_trim_ws. cbn [skipn]. rewrite skipn_length. lia.
Qed.

Lemma trim_ws_all_ws w : forallb ascii_ws w = true -> trim_ws w = [].
Proof. intros H. rewrite <- (app_nil_r w). rewrite (trim_ws_app_ws w [] H). reflexivity. Qed.

Lemma trim_ws_app w : forallb ascii_ws w = true -> forall s,
  trim_ws (s ++ w) = match trim_ws s with [] => [] | x => x ++ w end.
Proof.
  intros Hw s. remember (length s) as k eqn:Ek. revert s Ek.
  induction k as [k IH] using lt_wf_ind. intros s Ek.
  destruct s as [|b r].
  - cbn [app]. rewrite (trim_ws_all_ws w Hw). reflexivity.
  - rewrite (trim_ws_step ((b :: r) ++ w)), (trim_ws_step (b :: r)).
    rewrite (ws_len_app (b :: r) w) by (discriminate || exact Hw).
    pose proof (ws_len_le_length (b :: r)) as L.
    destruct (ws_len (b :: r)) as [|n]; [reflexivity|].
    rewrite skipn_app_le by exact L.
    apply (IH (length (skipn (S n) (b :: r)))); [|reflexivity].
    subst k. rewrite skipn_length. cbn [length]. lia.
Qed.

(** [number] *)

Lemma number_loop_app w : forallb ascii_ws w = true -> forall f s n seen,
  number_loop f (s ++ w) n seen
  = match number_loop f s n seen with Some (r, v) => Some (r ++ w, v) | None => None end.
Proof.
  intros Hw. induction f as [|f IH]; intros s n seen.
  - cbn [number_loop]. destruct seen; reflexivity.
  - destruct s as [|b r].
    + cbn [app]. destruct w as [|e w']; [cbn [number_loop]; destruct seen; reflexivity|].
      cbn [forallb] in Hw. apply andb_true_iff in Hw. destruct Hw as [He _].
      cbn [number_loop]. rewrite (ascii_ws_not_digit e He). destruct seen; reflexivity.
    + cbn [app number_loop]. destruct (is_digit b); [|destruct seen; reflexivity].
      cbv zeta. destruct (n * 10 + digit_val b >? I64_MAX); [reflexivity|]. apply IH.
Qed.

Lemma number_loop_fuel f1 : forall f2 s n seen, (length s <= f1)%nat -> (length s <= f2)%nat ->
  number_loop f1 s n seen = number_loop f2 s n seen.
Proof.
  induction f1 as [|f1 IH]; intros f2 s n seen H1 H2.
  - destruct s as [|b r]; [|cbn [length] in H1; lia]. destruct f2; reflexivity.
  - destruct f2 as [|f2].
    + destruct s as [|b r]; [reflexivity | cbn [length] in H2; lia].
    + destruct s as [|b r]; [reflexivity|]. cbn [length] in H1, H2.
      cbn [number_loop]. destruct (is_digit b); [|reflexivity].
      cbv zeta. destruct (n * 10 + digit_val b >? I64_MAX); [reflexivity|]. apply IH; lia.
Qed.

Lemma number_ws_none w max : forallb ascii_ws w = true -> number w max = None.
Proof.
  intros Hw. destruct w as [|e w']; [reflexivity|].
  cbn [forallb] in Hw. apply andb_true_iff in Hw. destruct Hw as [He _].
  unfold number. destruct max as [[|m]|]; cbn [length number_loop]; rewrite ?(ascii_ws_not_digit e He); reflexivity.
Qed.

Lemma number_app w max : forallb ascii_ws w = true -> forall s,
  number (s ++ w) max = match number s max with Some (r, v) => Some (r ++ w, v) | None => None end.
Proof.
  intros Hw s. destruct s as [|b r].
  - cbn [app]. rewrite (number_ws_none w max Hw). reflexivity.
  - unfold number. cbn [app]. destruct max as [m|].
    + apply (number_loop_app w Hw m (b :: r)).
    + change (b :: r ++ w) with ((b :: r) ++ w).
      rewrite (number_loop_app w Hw).
      rewrite (number_loop_fuel (length ((b :: r) ++ w)) (length (b :: r)) (b :: r));
        [reflexivity | rewrite app_length; lia | lia].
Qed.

(** [numeric], with the sign test as comparisons *)

Definition numeric' (s : str) (width : nat) (signed : bool) : option (str * Z) :=
  let s := trim_ws s in
  if signed then
    match s with
    | b :: r =>
      if (b =? 45)%N then match number r None with Some (r', v) => Some (r', - v) | None => None end
      else if (b =? 43)%N then number r None
      else number s (Some width)
    | [] => number s (Some width)
    end
  else number s (Some width).

Lemma numeric_eq s width signed : numeric s width signed = numeric' s width signed.
Proof.
  unfold numeric, numeric'. cbv zeta. destruct signed; [|reflexivity].
  destruct (trim_ws s) as [|b r]; [reflexivity|].
  destruct b as [|p]; [reflexivity|].
  do 6 (try (destruct p as [p|p|]; try reflexivity)).
Qed.

Lemma numeric_app w width signed : forallb ascii_ws w = true -> forall s,
  numeric (s ++ w) width signed
  = match numeric s width signed with Some (r, v) => Some (r ++ w, v) | None => None end.
Proof.
  intros Hw s. rewrite !numeric_eq. unfold numeric'. cbv zeta.
  rewrite (trim_ws_app w Hw s).
  destruct (trim_ws s) as [|b r].
  - destruct signed; reflexivity.
  - change ((b :: r) ++ w) with (b :: (r ++ w)).
    destruct signed.
    + destruct (b =? 45)%N.
      * rewrite (number_app w None Hw r). destruct (number r None) as [[r' v]|]; reflexivity.
      * destruct (b =? 43)%N; [apply (number_app w None Hw r)|].
        apply (number_app w (Some width) Hw (b :: r)).
    + apply (number_app w (Some width) Hw (b :: r)).
Qed.

Lemma numeric_ws_none w width : forallb ascii_ws w = true -> numeric w width false = None.
Proof. intros Hw. unfold numeric. rewrite (trim_ws_all_ws w Hw). reflexivity. Qed.

(** the fraction *)

Lemma skip_digits_app_ws w : forallb ascii_ws w = true -> forall r,
  skip_digits (r ++ w) = skip_digits r ++ w.
Proof.
  intros Hw. induction r as [|b r IH].
  - cbn [app skip_digits]. destruct w as [|e w']; [reflexivity|].
    cbn [forallb] in Hw. apply andb_true_iff in Hw. destruct Hw as [He _].
    cbn [skip_digits]. rewrite (ascii_ws_not_digit e He). reflexivity.
  - cbn [app skip_digits]. destruct (is_digit b); [exact IH | reflexivity].
Qed.

Lemma nanosecond_other b r : b <> 46%N -> nanosecond_item (b :: r) = Some (b :: r).
Proof.
  intros H. unfold nanosecond_item. destruct b as [|p]; [reflexivity|].
  do 6 (try (destruct p as [p|p|]; try reflexivity)). congruence.
Qed.

Lemma nanosecond_app w : forallb ascii_ws w = true -> forall s,
  nanosecond_item (s ++ w) = match nanosecond_item s with Some r => Some (r ++ w) | None => None end.
Proof.
  intros Hw s. destruct s as [|b r].
  - cbn [app]. destruct w as [|e w']; [reflexivity|].
    pose proof Hw as Hw'. cbn [forallb] in Hw'. apply andb_true_iff in Hw'. destruct Hw' as [He _].
    pose proof (ascii_ws_le e He) as Le.
    rewrite nanosecond_other by lia. reflexivity.
  - cbn [app]. destruct (N.eq_dec b 46) as [-> | Nb].
    + unfold nanosecond_item. rewrite (number_app w (Some 9%nat) Hw r).
      destruct (number r (Some 9%nat)) as [[r' v]|]; [|reflexivity].
      rewrite (skip_digits_app_ws w Hw r'). reflexivity.
    + rewrite !nanosecond_other by exact Nb. reflexivity.
Qed.

(** [colon_or_space] *)

Lemma cos_step f b r :
  colon_or_space_fuel (S f) (b :: r)
  = if (b =? 58)%N then colon_or_space_fuel f r
    else match ws_len (b :: r) with
         | O => b :: r
         | S n => colon_or_space_fuel f (skipn (S n) (b :: r))
         end.
Proof.
  cbn [colon_or_space_fuel]. destruct b as [|p]; [reflexivity|].
  do 6 (try (destruct p as [p|p|]; try reflexivity)).
Qed.

Lemma cos_nil f : colon_or_space_fuel f [] = [].
Proof. destruct f; reflexivity. Qed.

Lemma cos_fuel f1 : forall f2 s, (length s <= f1)%nat -> (length s <= f2)%nat ->
  colon_or_space_fuel f1 s = colon_or_space_fuel f2 s.
Proof.
  induction f1 as [|f1 IH]; intros f2 s H1 H2.
  - destruct s as [|b r]; [|cbn [length] in H1; lia]. rewrite !cos_nil. reflexivity.
  - destruct f2 as [|f2].
    + destruct s as [|b r]; [reflexivity | cbn [length] in H2; lia].
    + destruct s as [|b r]; [reflexivity|]. cbn [length] in H1, H2.
      rewrite !cos_step. destruct (b =? 58)%N; [apply IH; lia|].
      destruct (ws_len (b :: r)) as [|n]; [reflexivity|].
      apply IH; cbn [skipn]; rewrite skipn_length; lia.
Qed.

Lemma cos_ws f : forall w, forallb ascii_ws w = true -> (length w <= f)%nat ->
  colon_or_space_fuel f w = [].
Proof.
  induction f as [|f IH]; intros w Hw L.
  - destruct w; [reflexivity | cbn [length] in L; lia].
  - destruct w as [|e w']; [reflexivity|].
    cbn [forallb] in Hw. apply andb_true_iff in Hw. destruct Hw as [He Hw'].
    pose proof (ascii_ws_le e He) as Le. cbn [length] in L.
    rewrite cos_step. ne_false e 58%N. rewrite (ws_len_ascii_ws e w' He). cbn [skipn].
    apply IH; [exact Hw' | lia].
Qed.

Lemma cos_app_fuel w : forallb ascii_ws w = true -> forall f s, (length s + length w <= f)%nat ->
  colon_or_space_fuel f (s ++ w) = match colon_or_space_fuel f s with [] => [] | x => x ++ w end.
Proof.
  intros Hw. induction f as [|f IH]; intros s L.
  - destruct s as [|b r]; [|cbn [length] in L; lia]. destruct w; [reflexivity | cbn [length] in L; lia].
  - destruct s as [|b r].
    + cbn [app]. cbn [length] in L. rewrite (cos_ws (S f) w Hw) by lia. reflexivity.
    + cbn [length] in L. change ((b :: r) ++ w) with (b :: (r ++ w)). rewrite !cos_step.
      destruct (b =? 58)%N; [apply IH; lia|].
      change (b :: (r ++ w)) with ((b :: r) ++ w).
      rewrite (ws_len_app (b :: r) w) by (discriminate || exact Hw).
      pose proof (ws_len_le_length (b :: r)) as L2.
      destruct (ws_len (b :: r)) as [|n]; [reflexivity|].
      rewrite skipn_app_le by exact L2.
      apply IH. rewrite skipn_length. cbn [length]. lia.
Qed.

Lemma cos_app w : forallb ascii_ws w = true -> forall s,
  colon_or_space_fuel (length (s ++ w)) (s ++ w)
  = match colon_or_space_fuel (length s) s with [] => [] | x => x ++ w end.
Proof.
  intros Hw s. rewrite (cos_app_fuel w Hw) by (rewrite app_length; lia).
  rewrite (cos_fuel (length (s ++ w)) (length s) s); [reflexivity | rewrite app_length; lia | lia].
Qed.

(** [timezone_offset] *)

Definition sign_split' (s : str) : option (bool * str) :=
  match s with
  | [] => None
  | b :: r =>
    if (b =? 43)%N then Some (false, r) else
    if (b =? 45)%N then Some (true, r) else
    if (b =? 226)%N then
      match r with
      | c :: d :: r' => if (c =? 136)%N && (d =? 146)%N then Some (true, r') else None
      | _ => None
      end
    else None
  end.

Lemma sign_split_eq s : sign_split s = sign_split' s.
Proof.
  destruct s as [|b r]; [reflexivity|].
  brute b.
  all: destruct r as [|c [|d r]]; try reflexivity.
  all: brute c.
  all: brute d.
Qed.

Lemma sign_split_app w : forallb ascii_ws w = true -> forall x,
  sign_split (x ++ w) = match sign_split x with Some (neg, r) => Some (neg, r ++ w) | None => None end.
Proof.
  intros Hw x. rewrite !sign_split_eq.
  destruct w as [|e w']; [rewrite app_nil_r; destruct (sign_split' x) as [[neg r]|]; [rewrite app_nil_r|]; reflexivity|].
  pose proof Hw as Hw'. cbn [forallb] in Hw'. apply andb_true_iff in Hw'. destruct Hw' as [He _].
  pose proof (ascii_ws_le e He) as Le.
  destruct x as [|b [|c [|d x]]]; cbn [app]; unfold sign_split'.
  - ne_false e 43%N. ne_false e 45%N. ne_false e 226%N. reflexivity.
  - ne_false e 136%N. cbn [andb]. destruct w'; split_ifs; reflexivity.
  - ne_false e 146%N. rewrite ?andb_false_r. split_ifs; reflexivity.
  - split_ifs; reflexivity.
Qed.

Lemma tz_body_app w : forallb ascii_ws w = true -> forall negative x,
  tz_body negative (x ++ w)
  = match tz_body negative x with Some (r, v) => Some (r ++ w, v) | None => None end.
Proof.
  intros Hw negative x.
  assert (Hd : match w with [] => True | e :: _ => is_digit e = false end).
  { destruct w as [|e w']; [exact I|]. cbn [forallb] in Hw. apply andb_true_iff in Hw.
    destruct Hw as [He _]. apply ascii_ws_not_digit. exact He. }
  destruct x as [|h1 [|h2 r]].
  - cbn [app]. unfold tz_body. destruct w as [|e [|e2 w']]; try reflexivity. rewrite Hd. reflexivity.
  - cbn [app]. unfold tz_body. destruct w as [|e w']; [reflexivity|]. rewrite Hd, andb_false_r. reflexivity.
  - change ((h1 :: h2 :: r) ++ w) with (h1 :: h2 :: (r ++ w)). unfold tz_body.
    destruct (is_digit h1 && is_digit h2); [|reflexivity]. cbv zeta.
    rewrite (cos_app w Hw r).
    destruct (colon_or_space_fuel (length r) r) as [|m1 [|m2 s]].
    + reflexivity.
    + cbn [app]. destruct w as [|e w']; [reflexivity|]. rewrite Hd, andb_false_r. reflexivity.
    + change ((m1 :: m2 :: s) ++ w) with (m1 :: m2 :: (s ++ w)).
      cbv beta iota. destruct (is_digit m1 && is_digit m2 && (m1 <=? 53)%N); reflexivity.
Qed.

Lemma timezone_offset_app w : forallb ascii_ws w = true -> forall s,
  timezone_offset (s ++ w)
  = match timezone_offset s with Some (r, v) => Some (r ++ w, v) | None => None end.
Proof.
  intros Hw s. rewrite !tz_unfold. rewrite (trim_ws_app w Hw s).
  destruct (trim_ws s) as [|b r] eqn:E; [reflexivity|].
  rewrite (sign_split_app w Hw (b :: r)).
  destruct (sign_split (b :: r)) as [[negative s']|]; [|reflexivity].
  apply (tz_body_app w Hw).
Qed.

(** [current_offset] *)

Definition co_body (s : str) : option (str * Z) :=
  match s with
  | a :: b :: c :: r =>
    if is_utc3 a b c then Some (r, 0)
    else if ((a =? 90) || (a =? 122))%N then Some (b :: c :: r, 0)
    else timezone_offset s
  | a :: r => if ((a =? 90) || (a =? 122))%N then Some (r, 0) else timezone_offset s
  | [] => timezone_offset s
  end.

Lemma current_offset_unfold s : current_offset s = co_body (trim_ws s).
Proof. reflexivity. Qed.

Lemma is_utc3_ws2 a e c : ascii_ws e = true -> is_utc3 a e c = false.
Proof.
  intros He. pose proof (ascii_ws_le e He) as Le. unfold is_utc3.
  ne_false e 84%N. ne_false e 116%N. cbn [orb]. rewrite andb_false_r. reflexivity.
Qed.

Lemma is_utc3_ws3 a b e : ascii_ws e = true -> is_utc3 a b e = false.
Proof.
  intros He. pose proof (ascii_ws_le e He) as Le. unfold is_utc3.
  ne_false e 67%N. ne_false e 99%N. cbn [orb]. rewrite andb_false_r. reflexivity.
Qed.

Lemma co_body_app w : forallb ascii_ws w = true -> forall x, x <> [] ->
  co_body (x ++ w) = match co_body x with Some (r, v) => Some (r ++ w, v) | None => None end.
Proof.
  intros Hw x Hx.
  destruct x as [|a [|b [|c r]]]; [congruence | | |].
  - (* one byte *)
    destruct w as [|e [|e2 w']].
    + rewrite app_nil_r. destruct (co_body [a]) as [[r v]|]; [rewrite app_nil_r|]; reflexivity.
    + cbn [app]. unfold co_body. destruct ((a =? 90) || (a =? 122))%N; [reflexivity|].
      apply (timezone_offset_app [e] Hw [a]).
    + pose proof Hw as Hw'. cbn [forallb] in Hw'. apply andb_true_iff in Hw'. destruct Hw' as [He _].
      cbn [app]. unfold co_body. rewrite (is_utc3_ws2 a e e2 He).
      destruct ((a =? 90) || (a =? 122))%N; [reflexivity|].
      apply (timezone_offset_app (e :: e2 :: w') Hw [a]).
  - (* two bytes *)
    destruct w as [|e w'].
    + rewrite app_nil_r. destruct (co_body [a; b]) as [[r v]|]; [rewrite app_nil_r|]; reflexivity.
    + pose proof Hw as Hw'. cbn [forallb] in Hw'. apply andb_true_iff in Hw'. destruct Hw' as [He _].
      cbn [app]. unfold co_body. rewrite (is_utc3_ws3 a b e He).
      destruct ((a =? 90) || (a =? 122))%N; [reflexivity|].
      apply (timezone_offset_app (e :: w') Hw [a; b]).
  - change ((a :: b :: c :: r) ++ w) with (a :: b :: c :: (r ++ w)). unfold co_body.
    destruct (is_utc3 a b c); [reflexivity|].
    destruct ((a =? 90) || (a =? 122))%N; [reflexivity|].
    apply (timezone_offset_app w Hw (a :: b :: c :: r)).
Qed.

Lemma current_offset_app w : forallb ascii_ws w = true -> forall s,
  current_offset (s ++ w)
  = match current_offset s with Some (r, v) => Some (r ++ w, v) | None => None end.
Proof.
  intros Hw s. rewrite !current_offset_unfold. rewrite (trim_ws_app w Hw s).
  destruct (trim_ws s) as [|b r]; [reflexivity|].
  apply (co_body_app w Hw (b :: r)). discriminate.
Qed.

(** ** white space behind the text *)

Lemma parse_current_app_ws w t : forallb ascii_ws w = true -> parse_current (t ++ w) = parse_current t.
Proof.
  intros Hw. unfold parse_current.
  (* year *)
  rewrite (numeric_app w 4 true Hw t).
  destruct (numeric t 4 true) as [[s1 year]|]; [|reflexivity]. cbv beta iota zeta.
  rewrite (trim_ws_app w Hw s1).
  destruct (trim_ws s1) as [|b1 r1]; [reflexivity|].
  change ((b1 :: r1) ++ w) with (b1 :: (r1 ++ w)). cbn [literal].
  destruct (beq b1 45%N); [|reflexivity].
  (* month *)
  rewrite (numeric_app w 2 false Hw r1).
  destruct (numeric r1 2 false) as [[s2 month]|]; [|reflexivity]. cbv beta iota.
  destruct (negb ((1 <=? month) && (month <=? 12))); [reflexivity|].
  rewrite (trim_ws_app w Hw s2).
  destruct (trim_ws s2) as [|b2 r2]; [reflexivity|].
  change ((b2 :: r2) ++ w) with (b2 :: (r2 ++ w)). cbn [literal].
  destruct (beq b2 45%N); [|reflexivity].
  (* day *)
  rewrite (numeric_app w 2 false Hw r2).
  destruct (numeric r2 2 false) as [[s3 day]|]; [|reflexivity]. cbv beta iota.
  destruct (negb ((1 <=? day) && (day <=? 31))); [reflexivity|].
  (* separator *)
  destruct s3 as [|sep s4].
  { cbn [app]. destruct w as [|e w']; [reflexivity|].
    cbn [forallb] in Hw. apply andb_true_iff in Hw. destruct Hw as [_ Hw'].
    destruct (negb ((e =? 116) || (e =? 84) || (e =? 32))%N); [reflexivity|].
    rewrite (numeric_ws_none w' 2 Hw'). reflexivity. }
  change ((sep :: s4) ++ w) with (sep :: (s4 ++ w)). cbv beta iota.
  destruct (negb ((sep =? 116) || (sep =? 84) || (sep =? 32))%N); [reflexivity|].
  (* hour *)
  rewrite (numeric_app w 2 false Hw s4).
  destruct (numeric s4 2 false) as [[s5 hour]|]; [|reflexivity]. cbv beta iota.
  destruct (negb (hour <=? 23)); [reflexivity|].
  rewrite (trim_ws_app w Hw s5).
  destruct (trim_ws s5) as [|b5 r5]; [reflexivity|].
  change ((b5 :: r5) ++ w) with (b5 :: (r5 ++ w)). cbn [literal].
  destruct (beq b5 58%N); [|reflexivity].
  (* minute *)
  rewrite (numeric_app w 2 false Hw r5).
  destruct (numeric r5 2 false) as [[s6 minute]|]; [|reflexivity]. cbv beta iota.
  destruct (negb (minute <=? 59)); [reflexivity|].
  rewrite (trim_ws_app w Hw s6).
  destruct (trim_ws s6) as [|b6 r6]; [reflexivity|].
  change ((b6 :: r6) ++ w) with (b6 :: (r6 ++ w)). cbn [literal].
  destruct (beq b6 58%N); [|reflexivity].
  (* second *)
  rewrite (numeric_app w 2 false Hw r6).
  destruct (numeric r6 2 false) as [[s7 second]|]; [|reflexivity]. cbv beta iota.
  destruct (negb (second <=? 60)); [reflexivity|].
  (* fraction, offset, end *)
  rewrite (nanosecond_app w Hw s7).
  destruct (nanosecond_item s7) as [s8|]; [|reflexivity].
  rewrite (current_offset_app w Hw s8).
  destruct (current_offset s8) as [[s9 offset]|]; [|reflexivity]. cbv beta iota.
  rewrite (trim_ws_app w Hw s9).
  destruct (trim_ws s9) as [|b9 r9]; reflexivity.
Qed.

Lemma parse_current_ws_app w t : forallb ascii_ws w = true -> parse_current (w ++ t) = parse_current t.
Proof. intros H. unfold parse_current. rewrite (numeric_app_ws w t 4 true H). reflexivity. Qed.

Theorem current_outer_padding : forall w1 w2 t,
  forallb ascii_ws w1 = true -> forallb ascii_ws w2 = true ->
  parse_current (w1 ++ t ++ w2) = parse_current t.
Proof.
  intros w1 w2 t H1 H2. rewrite (parse_current_ws_app w1 _ H1). apply parse_current_app_ws. exact H2.
Qed.

Print Assumptions current_outer_padding.

(** * 4: the same instant written in two zones reads the same *)

Theorem current_zone_independent : forall y m d h mi s y' m' d' h' mi' s' sep sep' negative colon oh om negative' colon' oh' om',
  valid_civil y m d h mi s -> valid_civil y' m' d' h' mi' s' -> valid_offset oh om -> valid_offset oh' om' ->
  is_sep sep = true -> is_sep sep' = true ->
  instant y m d h mi s negative oh om = instant y' m' d' h' mi' s' negative' oh' om' ->
  parse_current (render_date y m d ++ [sep] ++ render_time h mi s ++ render_offset negative colon oh om)
  = parse_current (render_date y' m' d' ++ [sep'] ++ render_time h' mi' s' ++ render_offset negative' colon' oh' om').
Proof.
  intros y m d h mi s y' m' d' h' mi' s' sep sep' negative colon oh om negative' colon' oh' om'
         Hc Hc' Ho Ho' Hsep Hsep' E.
  pose proof (current_rendered y m d h mi s sep [] [] negative colon oh om Hc Ho Hsep eq_refl eq_refl) as P.
  pose proof (current_rendered y' m' d' h' mi' s' sep' [] [] negative' colon' oh' om' Hc' Ho' Hsep' eq_refl eq_refl) as P'.
  cbn [app] in P, P'. cbn [app].
  rewrite P, P', E. reflexivity.
Qed.

Print Assumptions current_zone_independent.

(** * Non-vacuity *)

(** "2001-09-09T01:46:40Z" *)
Example current_example_Z :
  parse_current [50;48;48;49;45;48;57;45;48;57;84;48;49;58;52;54;58;52;48;90]%N = Some (1000000000, false).
Proof. vm_compute. reflexivity. Qed.

Example current_example_Z_is_instance :
  valid_civil 2001 9 9 1 46 40 /\ is_sep 84%N = true /\ is_frac [] = true /\ forallb ascii_ws [] = true /\
  is_zulu [90%N] = true /\ instant 2001 9 9 1 46 40 false 0 0 = 1000000000 /\
  render_date 2001 9 9 ++ [84%N] ++ render_time 1 46 40 ++ [] ++ [] ++ [90%N]
  = [50;48;48;49;45;48;57;45;48;57;84;48;49;58;52;54;58;52;48;90]%N.
Proof.
  split; [unfold valid_civil; change (days_in_month 2001 9) with 30; lia|].
  vm_compute. repeat split.
Qed.

(** "2001-09-09 10:46:40.5 +0900" *)
Example current_example_offset :
  parse_current [50;48;48;49;45;48;57;45;48;57;32;49;48;58;52;54;58;52;48;46;53;32;43;48;57;48;48]%N
  = Some (1000000000, false).
Proof. vm_compute. reflexivity. Qed.

Example current_example_offset_is_instance :
  valid_civil 2001 9 9 10 46 40 /\ valid_offset 9 0 /\ is_sep 32%N = true /\ is_frac [46%N; 53%N] = true /\
  forallb ascii_ws [32%N] = true /\ instant 2001 9 9 10 46 40 false 9 0 = 1000000000 /\
  render_date 2001 9 9 ++ [32%N] ++ render_time 10 46 40 ++ [46%N; 53%N] ++ [32%N] ++ render_offset false false 9 0
  = [50;48;48;49;45;48;57;45;48;57;32;49;48;58;52;54;58;52;48;46;53;32;43;48;57;48;48]%N.
Proof.
  split; [unfold valid_civil; change (days_in_month 2001 9) with 30; lia|].
  split; [unfold valid_offset; lia|].
  vm_compute. repeat split.
Qed.

(** "2001-09-09t01:46:40utc" *)
Example current_example_utc :
  parse_current [50;48;48;49;45;48;57;45;48;57;116;48;49;58;52;54;58;52;48;117;116;99]%N
  = Some (1000000000, false).
Proof. vm_compute. reflexivity. Qed.

Example current_example_utc_is_instance :
  valid_civil 2001 9 9 1 46 40 /\ is_sep 116%N = true /\ is_frac [] = true /\ forallb ascii_ws [] = true /\
  is_zulu [117%N; 116%N; 99%N] = true /\
  render_date 2001 9 9 ++ [116%N] ++ render_time 1 46 40 ++ [] ++ [] ++ [117%N; 116%N; 99%N]
  = [50;48;48;49;45;48;57;45;48;57;116;48;49;58;52;54;58;52;48;117;116;99]%N.
Proof.
  split; [unfold valid_civil; change (days_in_month 2001 9) with 30; lia|].
  vm_compute. repeat split.
Qed.

(** "2001-09-09T01:46:40": an offset is required *)
Example current_example_no_offset :
  parse_current [50;48;48;49;45;48;57;45;48;57;84;48;49;58;52;54;58;52;48]%N = None.
Proof. vm_compute. reflexivity. Qed.

(** white space around "2001-09-09T01:46:40Z" (an instance of [current_outer_padding]) *)
Example current_example_padded :
  parse_current ([32; 9]%N ++ [50;48;48;49;45;48;57;45;48;57;84;48;49;58;52;54;58;52;48;90]%N ++ [32; 10]%N)
  = Some (1000000000, false).
Proof. vm_compute. reflexivity. Qed.

Print Assumptions current_example_Z.
Print Assumptions current_example_offset.
Print Assumptions current_example_utc.
Print Assumptions current_example_no_offset.
Print Assumptions current_example_padded.
