(** The outputs of the list renderer are well-formed UTF-8: the pretty item, the pretty list, the
    JSON string escaping and the JSON list. *)
From Coq Require Import List NArith Arith Bool Lia PeanoNat.
Import ListNotations.
From Chiri Require Import Base.Bytes Base.Res Model.Finders Model.Markers Model.ListRender Spec.ListSpec
     Proofs.ResLemmas Proofs.BytesLemmas Proofs.Utf8 Proofs.ListProofs Proofs.ListTotal.

(* ------------------------------------------------------------------------- *)
(** * ASCII strings *)

Definition Ascii (s : str) : Prop := Forall (fun b => (b < 128)%N) s.

Lemma ascii_WF : forall s, Forall (fun b => (b < 128)%N) s -> WF s.
Proof.
  induction 1 as [|b s Hb Hs IH]; [constructor|].
  change (b :: s) with (b :: [] ++ s).
  assert ((b <? 128)%N = true) as Hlt by (apply N.ltb_lt; exact Hb).
  apply WF_char; [| |reflexivity | exact IH].
  - unfold is_lead. rewrite Hlt. reflexivity.
  - unfold char_len. rewrite Hlt. reflexivity.
Qed.

Lemma Ascii_forallb s : forallb (fun b => (b <? 128)%N) s = true -> Ascii s.
Proof.
  intros H. apply Forall_forall. intros x Hx. rewrite forallb_forall in H.
  apply N.ltb_lt. apply H. exact Hx.
Qed.

Lemma Ascii_app x y : Ascii x -> Ascii y -> Ascii (x ++ y).
Proof. intros Hx Hy. apply Forall_app. split; assumption. Qed.

Lemma Ascii_repeat b n : (b < 128)%N -> Ascii (repeat b n).
Proof. intros H. apply Forall_forall. intros x Hx. apply repeat_spec in Hx. subst x. exact H. Qed.

Lemma Ascii_repeat_str s n : Ascii s -> Ascii (repeat_str s n).
Proof.
  intros H. unfold repeat_str. induction n as [|n IH]; cbn [repeat concat]; [constructor|].
  apply Ascii_app; assumption.
Qed.

Lemma dec_loop_Ascii : forall fuel n acc, Ascii acc -> Ascii (dec_loop fuel n acc).
Proof.
  induction fuel as [|f IH]; intros n acc H; cbn [dec_loop]; [exact H|].
  assert (Ascii ((48 + n mod 10)%N :: acc)) as H'.
  { constructor; [|exact H]. assert (n mod 10 < 10)%N by (apply N.mod_lt; lia). lia. }
  destruct (n <? 10)%N; [exact H' | apply IH; exact H'].
Qed.

Lemma dec_Ascii n : Ascii (dec n).
Proof. unfold dec. apply dec_loop_Ascii. constructor. Qed.

Lemma line_column_Ascii i : Ascii (line_column i).
Proof.
  unfold line_column. cbv zeta. apply Ascii_app; [apply Ascii_repeat; reflexivity|].
  apply Ascii_app; [apply dec_Ascii | apply Ascii_forallb; reflexivity].
Qed.

Lemma ascii_lead_len b : (b < 128)%N -> char_len b = 1 /\ is_cont b = false.
Proof.
  intros H. unfold char_len, is_cont. apply N.ltb_lt in H. rewrite H. split; [reflexivity|].
  apply N.ltb_lt in H. destruct (N.leb_spec 128 b); [lia | reflexivity].
Qed.

Lemma cont_ge128 b : is_cont b = true -> (128 <= b)%N.
Proof. unfold is_cont. intros H. apply andb_true_iff in H. destruct H as [H _]. apply N.leb_le. exact H. Qed.

(* ------------------------------------------------------------------------- *)
(** * Splitting a well-formed string *)

(** A well-formed string cut before a byte that is not a continuation byte (or at its end) gives
    two well-formed strings. *)
Lemma WF_split : forall s, WF s -> forall x y, s = x ++ y ->
  match y with [] => True | c :: _ => is_cont c = false end -> WF x /\ WF y.
Proof.
  induction 1 as [|b cs rest Hl Hlen Hc Hrest IH]; intros x y E Hy.
  - symmetry in E. apply app_eq_nil in E. destruct E as [-> ->]. split; constructor.
  - destruct x as [|b' x'].
    + cbn [app] in E. subst y. split; [constructor | apply WF_char; assumption].
    + cbn [app] in E. inversion E as [[Eb Et]]. subst b'.
      apply app_eq_app in Et. destruct Et as [l [[E1 E2] | [E1 E2]]].
      * destruct l as [|d l].
        -- rewrite app_nil_r in E1. cbn [app] in E2. subst x' y. split; [|exact Hrest].
           rewrite <- (app_nil_r cs). apply WF_char; try assumption. constructor.
        -- exfalso. subst cs y. cbn [app] in Hy.
           rewrite forallb_app in Hc. apply andb_true_iff in Hc. destruct Hc as [_ Hc].
           cbn [forallb] in Hc. apply andb_true_iff in Hc. destruct Hc as [Hd _]. congruence.
      * subst x'. destruct (IH l y E2 Hy) as [Wl Wy]. split; [|exact Wy].
        apply WF_char; assumption.
Qed.

Lemma WF_split_ascii x c y : (c < 128)%N -> WF (x ++ c :: y) -> WF x /\ WF y.
Proof.
  intros Hc H. destruct (ascii_lead_len c Hc) as [Hlen Hcont].
  destruct (WF_split _ H x (c :: y) eq_refl Hcont) as [Wx Wy]. split; [exact Wx|].
  apply WF_cons_inv in Wy. destruct Wy as (_ & cs & rest & E & Hl & _ & Wr).
  rewrite Hlen in Hl. destruct cs; [|discriminate Hl]. cbn [app] in E. subst y. exact Wr.
Qed.

Lemma WF_prefix' x y : WF (x ++ y) -> WF y -> WF x.
Proof.
  intros H Hy. apply (WF_split _ H x y eq_refl).
  destruct y as [|c y]; [exact I | apply (WF_head_not_cont c y Hy)].
Qed.

Lemma WF_slice s a b : WF s -> a <= b -> is_boundary s a = true -> is_boundary s b = true ->
  WF (sub s a b).
Proof.
  intros Hs Hab Ha Hb.
  pose proof (boundary_WF_skipn s a Hs Ha) as Wa.
  pose proof (boundary_WF_skipn s b Hs Hb) as Wb.
  apply (WF_prefix' (sub s a b) (skipn b s)); [|exact Wb].
  assert (sub s a b ++ skipn b s = skipn a s) as E.
  { unfold sub. rewrite <- (firstn_skipn (b - a) (skipn a s)) at 2.
    rewrite skipn_add. replace (a + (b - a)) with b by lia. reflexivity. }
  rewrite E. exact Wa.
Qed.

(** a successful slice of a well-formed string is well formed *)
Lemma slice_WF s a b v : WF s -> slice s a b = Ok v -> WF v.
Proof.
  intros Hs H. unfold slice in H.
  destruct (Nat.leb_spec a b) as [L1|L1]; [|discriminate H].
  destruct (Nat.leb_spec b (length s)) as [L2|L2]; [|discriminate H].
  destruct (is_boundary s a) eqn:Ba; [|discriminate H].
  destruct (is_boundary s b) eqn:Bb; [|discriminate H].
  cbn [andb] in H. inversion H; subst. apply WF_slice; assumption.
Qed.

(* ------------------------------------------------------------------------- *)
(** * Lines *)

Lemma strip_cr_WF l : WF l -> WF (strip_cr l).
Proof.
  intros H. destruct (strip_cr_cases l) as [[E _]|E]; [rewrite E; exact H|].
  rewrite E in H. apply (WF_split_ascii (strip_cr l) CR []) in H; [apply H | reflexivity].
Qed.

Lemma lines_loop_WF : forall s cur, WF (cur ++ s) -> Forall WF (lines_loop s cur).
Proof.
  induction s as [|b s IH]; intros cur H; cbn [lines_loop].
  - rewrite app_nil_r in H. destruct cur; constructor; [exact H | constructor].
  - destruct (beq b NL) eqn:B.
    + apply beq_eq in B. subst b. apply WF_split_ascii in H; [|reflexivity]. destruct H as [Wc Ws].
      constructor; [apply strip_cr_WF; exact Wc | apply IH; exact Ws].
    + apply IH. rewrite <- app_assoc. exact H.
Qed.

(** the lines of a well-formed text are well formed *)
Lemma lines_WF s : WF s -> Forall WF (lines s).
Proof. intros H. apply lines_loop_WF. exact H. Qed.

Lemma join_nl_WF L : Forall WF L -> WF (join_nl L).
Proof.
  induction 1 as [|l L Hl HL IH]; [constructor|].
  destruct L as [|l2 L]; [exact Hl|].
  change (WF (l ++ [NL] ++ join_nl (l2 :: L))).
  apply WF_app; [exact Hl|]. apply WF_app; [|exact IH]. apply ascii_WF. repeat constructor.
Qed.

Lemma map_wrap_WF sc rc L : WF sc -> WF rc -> Forall WF L ->
  Forall WF (map (fun l => sc ++ l ++ rc) L).
Proof.
  intros Hsc Hrc. induction 1 as [|l L Hl HL IH]; cbn [map]; constructor; [|exact IH].
  apply WF_app; [exact Hsc|]. apply WF_app; assumption.
Qed.

Lemma go_WF : forall n i ls, Forall WF ls -> WF (go n i ls).
Proof.
  induction n as [|n IH]; intros i ls H; cbn [go]; [constructor|].
  destruct H as [|l ls Hl Hls]; [apply IH; constructor|].
  apply WF_app; [apply ascii_WF, line_column_Ascii|].
  apply WF_app; [exact Hl|]. apply WF_app; [apply ascii_WF; repeat constructor|].
  apply IH. exact Hls.
Qed.

(* ------------------------------------------------------------------------- *)
(** * Bytewise substitutions *)

(** Replacing ASCII bytes by ASCII strings and keeping every other byte preserves well-formedness. *)
Lemma flat_map_WF (f : byte -> str) :
  (forall b, (128 <= b)%N -> f b = [b]) ->
  (forall b, (b < 128)%N -> Ascii (f b)) ->
  forall s, WF s -> WF (flat_map f s).
Proof.
  intros Hhi Hlo. induction 1 as [|b cs rest Hl Hlen Hc Hrest IH]; [constructor|].
  cbn [flat_map]. rewrite flat_map_app.
  destruct (N.lt_ge_cases b 128) as [L|L].
  - destruct (ascii_lead_len b L) as [Hone _]. rewrite Hone in Hlen.
    destruct cs; [|discriminate Hlen]. cbn [flat_map app].
    apply WF_app; [apply ascii_WF, Hlo; exact L | exact IH].
  - rewrite (Hhi b L).
    assert (flat_map f cs = cs) as E.
    { clear Hlen. induction cs as [|c cs IHc]; [reflexivity|].
      cbn [forallb] in Hc. apply andb_true_iff in Hc. destruct Hc as [Hc1 Hc2].
      cbn [flat_map]. rewrite (Hhi c (cont_ge128 c Hc1)), (IHc Hc2). reflexivity. }
    rewrite E. cbn [app]. apply WF_char; assumption.
Qed.

Lemma replace_tabs_WF s : WF s -> WF (replace_tabs s).
Proof.
  unfold replace_tabs. apply flat_map_WF.
  - intros b Hb. destruct (beq b TAB) eqn:B; [|reflexivity].
    apply beq_eq in B. subst b. unfold TAB in Hb. lia.
  - intros b Hb. destruct (beq b TAB); [apply Ascii_forallb; reflexivity|].
    constructor; [exact Hb | constructor].
Qed.

Lemma hex_digit_Ascii n : (n < 16)%N -> (hex_digit n < 128)%N.
Proof. intros H. unfold hex_digit. destruct (n <? 10)%N; lia. Qed.

Lemma json_escape_byte_hi b : (128 <= b)%N -> json_escape_byte b = [b].
Proof.
  intros H. unfold json_escape_byte.
  destruct (N.eqb_spec b 34) as [?|_]; [lia|].
  destruct (N.eqb_spec b 92) as [?|_]; [lia|].
  destruct (N.eqb_spec b 8) as [?|_]; [lia|].
  destruct (N.eqb_spec b 9) as [?|_]; [lia|].
  destruct (N.eqb_spec b 10) as [?|_]; [lia|].
  destruct (N.eqb_spec b 12) as [?|_]; [lia|].
  destruct (N.eqb_spec b 13) as [?|_]; [lia|].
  destruct (N.ltb_spec b 32) as [?|_]; [lia|]. reflexivity.
Qed.

Lemma json_escape_byte_lo b : (b < 128)%N -> Ascii (json_escape_byte b).
Proof.
  intros H. unfold json_escape_byte.
  destruct (b =? 34)%N; [apply Ascii_forallb; reflexivity|].
  destruct (b =? 92)%N; [apply Ascii_forallb; reflexivity|].
  destruct (b =? 8)%N; [apply Ascii_forallb; reflexivity|].
  destruct (b =? 9)%N; [apply Ascii_forallb; reflexivity|].
  destruct (b =? 10)%N; [apply Ascii_forallb; reflexivity|].
  destruct (b =? 12)%N; [apply Ascii_forallb; reflexivity|].
  destruct (b =? 13)%N; [apply Ascii_forallb; reflexivity|].
  destruct (N.ltb_spec b 32) as [L|L]; [|constructor; [exact H | constructor]].
  assert (b / 16 < 16)%N as H1.
  { apply N.div_lt_upper_bound; lia. }
  assert (b mod 16 < 16)%N as H2 by (apply N.mod_lt; lia).
  repeat (constructor; [first [apply hex_digit_Ascii; assumption | reflexivity]|]). constructor.
Qed.

Lemma json_string_WF s : WF s -> WF (json_string s).
Proof.
  intros H. unfold json_string.
  apply WF_app; [apply ascii_WF, Ascii_forallb; reflexivity|].
  apply WF_app; [|apply ascii_WF, Ascii_forallb; reflexivity].
  apply flat_map_WF; [apply json_escape_byte_hi | apply json_escape_byte_lo | exact H].
Qed.

(** JSON string escaping keeps well-formedness *)
Theorem json_string_wf : forall s, wf_utf8 s = true -> wf_utf8 (json_string s) = true.
Proof. intros s H. apply wf_utf8_WF, json_string_WF, wf_utf8_WF, H. Qed.

(* ------------------------------------------------------------------------- *)
(** * One item *)

Lemma WF_closed s : wf_utf8 s = true -> WF s.
Proof. apply wf_utf8_WF. Qed.

Ltac wf_piece :=
  first
    [ assumption
    | apply WF_nil
    | apply ascii_WF, Ascii_repeat_str, Ascii_forallb; reflexivity
    | apply ascii_WF, Ascii_repeat; reflexivity
    | apply ascii_WF, dec_Ascii
    | apply WF_closed; reflexivity ].

Ltac wf_apps := repeat (apply WF_app; [wf_piece|]); try wf_piece.

(** Every successful rendering of an item of a well-formed source is well formed: whatever the
    region, with or without colours, with or without line numbers (a successful slice is cut at
    character boundaries). *)
Lemma build_item_WF : forall content a b is_removal coloring lr out,
  WF content -> build_item content a b is_removal coloring lr = Ok out -> WF out.
Proof.
  intros content a b is_removal coloring lr out HW H.
  unfold build_item in H.
  apply bind_ok in H. destruct H as [d [_ H]].
  match type of H with (if ?c then _ else _) = _ => destruct c end.
  { inversion H; subst. constructor. }
  assert (WF (if is_removal then COL_RED else COL_YELLOW)) as Wsc
    by (destruct is_removal; apply WF_closed; reflexivity).
  destruct coloring; cbv beta iota zeta in H.
  - apply bind_ok in H. destruct H as [e1 [_ H]].
    apply bind_ok in H. destruct H as [x0 [_ H]].
    apply bind_ok in H. destruct H as [colored [Ecol H]].
    apply bind_ok in H. destruct H as [before [Ebef H]].
    apply bind_ok in H. destruct H as [after [Eaft H]].
    apply (slice_WF content _ _ _ HW) in Ecol.
    apply (slice_WF content _ _ _ HW) in Ebef.
    apply (slice_WF content _ _ _ HW) in Eaft.
    assert (WF (before ++ join_nl (map (fun l => (if is_removal then COL_RED else COL_YELLOW) ++ l ++ COL_RESET)
                                       (lines colored)) ++ after ++ [NL])) as Wrem.
    { apply WF_app; [exact Ebef|]. apply WF_app; [|apply WF_app; [exact Eaft | apply WF_closed; reflexivity]].
      apply join_nl_WF, map_wrap_WF; [exact Wsc | apply WF_closed; reflexivity | apply lines_WF; exact Ecol]. }
    destruct lr as [[p q]|]; cbv beta iota zeta in H.
    + repeat (apply bind_ok in H; destruct H as [? [_ H]]).
      apply Ok_inj in H. subst out.
      wf_apps.
      apply WF_app; [|wf_apps].
      apply replace_tabs_WF. apply go_WF. apply lines_WF. exact Wrem.
    + repeat (apply bind_ok in H; destruct H as [? [_ H]]).
      apply Ok_inj in H. subst out.
      wf_apps.
      apply WF_app; [|wf_apps].
      apply replace_tabs_WF. exact Wrem.
  - apply bind_ok in H. destruct H as [e1 [_ H]].
    apply bind_ok in H. destruct H as [x0 [_ H]].
    apply bind_ok in H. destruct H as [colored [Ecol H]].
    apply bind_ok in H. destruct H as [before [Ebef H]].
    apply bind_ok in H. destruct H as [after [Eaft H]].
    apply (slice_WF content _ _ _ HW) in Ecol.
    apply (slice_WF content _ _ _ HW) in Ebef.
    apply (slice_WF content _ _ _ HW) in Eaft.
    assert (WF (before ++ join_nl (map (fun l : str => [] ++ l ++ []) (lines colored)) ++ after ++ [NL])) as Wrem.
    { apply WF_app; [exact Ebef|]. apply WF_app; [|apply WF_app; [exact Eaft | apply WF_closed; reflexivity]].
      apply join_nl_WF, map_wrap_WF; [constructor | constructor | apply lines_WF; exact Ecol]. }
    destruct lr as [[p q]|]; cbv beta iota zeta in H.
    + repeat (apply bind_ok in H; destruct H as [? [_ H]]).
      apply Ok_inj in H. subst out.
      wf_apps.
      apply WF_app; [|wf_apps].
      apply replace_tabs_WF. apply go_WF. apply lines_WF. exact Wrem.
    + repeat (apply bind_ok in H; destruct H as [? [_ H]]).
      apply Ok_inj in H. subst out.
      wf_apps.
      apply WF_app; [|wf_apps].
      apply replace_tabs_WF. exact Wrem.
Qed.

(** the rendered item is well-formed UTF-8 *)
Theorem build_item_wf : forall content a b is_removal coloring lr out,
  wf_utf8 content = true -> a < b -> b <= length content ->
  is_boundary content a = true -> is_boundary content b = true ->
  build_item content a b is_removal coloring (Some lr) = Ok out -> wf_utf8 out = true.
Proof.
  intros content a b is_removal coloring lr out Hwf _ _ _ _ H.
  apply wf_utf8_WF. apply (build_item_WF content a b is_removal coloring (Some lr) out); [|exact H].
  apply wf_utf8_WF. exact Hwf.
Qed.

(* ------------------------------------------------------------------------- *)
(** * The lists *)

Lemma foldM_inv {A B} (P : A -> Prop) (f : A -> B -> res A) : forall l,
  (forall a x a', In x l -> P a -> f a x = Ok a' -> P a') ->
  forall a a', P a -> foldM f l a = Ok a' -> P a'.
Proof.
  induction l as [|x l IH]; intros Hstep a a' Ha H; cbn [foldM] in H.
  - inversion H; subst. exact Ha.
  - apply bind_ok in H. destruct H as [a1 [E H]].
    apply (IH (fun a0 y a0' Hy => Hstep a0 y a0' (or_intror Hy)) a1 a'); [|exact H].
    apply (Hstep a x a1 (or_introl eq_refl) Ha E).
Qed.

Lemma build_pretty_string_WF : forall content markers out,
  WF content -> build_pretty_string content markers = Ok out -> WF out.
Proof.
  intros content markers out HW H. unfold build_pretty_string in H. cbv zeta in H.
  apply bind_ok in H. destruct H as [[o idx] [E H]]. apply Ok_inj in H. subst out.
  apply WF_app; [|apply WF_closed; reflexivity].
  change (WF (fst (o, idx))).
  match type of E with foldM ?f _ _ = _ =>
    apply (foldM_inv (fun acc : str * nat => WF (fst acc)) f markers) with (a := ([], 1));
      [ | constructor | exact E] end.
  - intros [o1 i1] [[r p] st] [o2 i2] _ Ho Hs. cbn [fst] in *.
    apply bind_ok in Hs. destruct Hs as [lr [_ Hs]].
    apply bind_ok in Hs. destruct Hs as [item [Eit Hs]].
    apply Ok_inj in Hs. apply (f_equal fst) in Hs. cbn [fst] in Hs. subst o2.
    apply build_item_WF in Eit; [|exact HW].
    apply WF_app; [exact Ho|].
    apply WF_app; [apply WF_closed; reflexivity|].
    apply WF_app; [apply ascii_WF, dec_Ascii|].
    apply WF_app; [destruct st; apply WF_closed; reflexivity|].
    apply WF_app; [apply WF_closed; reflexivity | exact Eit].
Qed.

(** the pretty list is well-formed UTF-8 *)
Theorem build_pretty_string_wf : forall content markers out,
  wf_utf8 content = true -> regions_ok content markers ->
  build_pretty_string content markers = Ok out -> wf_utf8 out = true.
Proof.
  intros content markers out Hwf _ H. apply wf_utf8_WF.
  apply (build_pretty_string_WF content markers out); [apply wf_utf8_WF; exact Hwf | exact H].
Qed.

Lemma build_list_blocks_WF : forall content markers items,
  WF content -> build_list content markers = Ok items ->
  Forall (fun it => WF (li_block it)) items.
Proof.
  intros content markers items HW H. unfold build_list in H. cbv zeta in H.
  match type of H with foldM ?f _ _ = _ =>
    apply (foldM_inv (fun acc : list list_item => Forall (fun it => WF (li_block it)) acc) f markers)
      with (a := []); [ | constructor | exact H] end.
  - intros acc [[r p] st] acc' _ Hacc Hs.
    apply bind_ok in Hs. destruct Hs as [lr [_ Hs]].
    apply bind_ok in Hs. destruct Hs as [text [Eit Hs]].
    apply Ok_inj in Hs. subst acc'.
    apply build_item_WF in Eit; [|exact HW].
    apply Forall_app. split; [exact Hacc|]. constructor; [exact Eit | constructor].
Qed.

Lemma json_item_WF it : WF (li_block it) -> WF (json_item it).
Proof.
  intros H. unfold json_item.
  apply WF_app; [apply WF_closed; reflexivity|].
  apply WF_app; [apply ascii_WF, dec_Ascii|].
  apply WF_app; [apply WF_closed; reflexivity|].
  apply WF_app; [apply ascii_WF, dec_Ascii|].
  apply WF_app; [apply WF_closed; reflexivity|].
  apply WF_app; [apply json_string_WF; exact H|].
  apply WF_app; [apply WF_closed; reflexivity|].
  destruct (li_ready it); apply WF_closed; reflexivity.
Qed.

Lemma join_comma_WF L : Forall WF L -> WF (join_comma L).
Proof.
  induction 1 as [|l L Hl HL IH]; [constructor|].
  destruct L as [|l2 L]; [exact Hl|].
  change (WF (l ++ [44%N] ++ join_comma (l2 :: L))).
  apply WF_app; [exact Hl|]. apply WF_app; [apply WF_closed; reflexivity | exact IH].
Qed.

Lemma json_list_WF items : Forall (fun it => WF (li_block it)) items -> WF (json_list items).
Proof.
  intros H. unfold json_list.
  apply WF_app; [apply WF_closed; reflexivity|].
  apply WF_app; [|apply WF_closed; reflexivity].
  apply join_comma_WF. apply Forall_forall. intros x Hx. apply in_map_iff in Hx.
  destruct Hx as (it & <- & Hit). apply json_item_WF.
  rewrite Forall_forall in H. apply H. exact Hit.
Qed.

(** the JSON list is well-formed UTF-8 *)
Theorem json_list_wf : forall content markers items,
  wf_utf8 content = true -> regions_ok content markers ->
  build_list content markers = Ok items -> wf_utf8 (json_list items) = true.
Proof.
  intros content markers items Hwf _ H. apply wf_utf8_WF. apply json_list_WF.
  apply (build_list_blocks_WF content markers items); [apply wf_utf8_WF; exact Hwf | exact H].
Qed.

Print Assumptions build_item_wf.
Print Assumptions build_item_WF.
Print Assumptions json_string_wf.
Print Assumptions build_pretty_string_wf.
Print Assumptions json_list_wf.
