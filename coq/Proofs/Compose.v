(** C19, second half: cleaning step by step with growing readiness (later times, larger target
    sets) and cleaning once with the final configuration give the same text up to whitespace.

    Proved for the renderings of abstract syntax trees in which no element uses the
    [unwrap-block] strategy (the documents of [Proofs.Idempotent]).

    Part 1: the skeleton of a document: its non-whitespace text bytes and its tag bodies, in
            order; the skeleton of a syntax tree pruned by a readiness predicate ([sks]).
    Part 2: masks on syntax trees that delete the whole span of every ready node that is not
            inside another deleted span, keep all other tags, and otherwise delete whitespace
            bytes of texts ([moks]); the skeleton of the masked tree ([sks_mask]).
    Part 3: one run of [clean] deletes such a mask ([clean_run_mask'], [run_mask_moks]).
    Part 4: one run, structurally ([clean_run_ast]): the output is the rendering of a tree [f1]
            with [sks r f1 = sks (ready || r) f] for every [r].
    Part 5: chains of runs ([clean_chain_ast]); composition ([clean_composes_default],
            [clean_chain_composes]); nothing is stranded ([clean_steps_not_stranded]).
    Part 6: readiness grows with the time and with the target set.
    Part 7: an instance. *)
From Coq Require Import List NArith ZArith Arith Bool Lia PeanoNat.
Import ListNotations.
From Chiri Require Import Base.Bytes Base.Res Model.Tokenizer Model.TagParser Model.TreeParser
     Model.Finders Model.Markers Model.Format Model.Clean
     Spec.Ranges Spec.Forest Spec.Rename Spec.Simulation Spec.Extents
     Proofs.ResLemmas Proofs.Utf8 Proofs.MarkerProofs Proofs.RangeProofs Proofs.CollectProofs
     Proofs.FormatterProofs Proofs.FormatAssembly Proofs.CleanProofs Proofs.ConfinedProofs
     Proofs.RenameProofs Proofs.SimFlat Proofs.SimStrings Proofs.SimFront Proofs.MonoMap
     Proofs.SimClean Proofs.WellNested Proofs.DocMask Proofs.AstCollect Proofs.Idempotent
     Proofs.C05Proofs Proofs.C06Proofs Proofs.CliProofs.

(* ------------------------------------------------------------------------- *)
(** * Part 1: skeletons *)

(** A token of the skeleton: a non-whitespace text byte, or the body of a tag. *)
Definition tok : Type := (byte + str)%type.

Definition tk_txt (t : str) : list tok := map (@inl byte str) (nonws t).

Definition isk (it : item) : list tok :=
  match it with Txt t => tk_txt t | Tag b => [inr b] end.

(** The skeleton of a document. *)
Definition dsk (doc : list item) : list tok := flat_map isk doc.

(** The bytes of a token under a spelling, without whitespace. *)
Definition rtok (ds de : str) (x : tok) : str :=
  match x with inl c => [c] | inr b => nonws (ds ++ b ++ de) end.

Lemma nonws_app a b : nonws (a ++ b) = nonws a ++ nonws b.
Proof. unfold nonws. apply filter_app. Qed.

Lemma tk_txt_app a b : tk_txt (a ++ b) = tk_txt a ++ tk_txt b.
Proof. unfold tk_txt. rewrite nonws_app, map_app. reflexivity. Qed.

Lemma dsk_app a b : dsk (a ++ b) = dsk a ++ dsk b.
Proof. apply flat_map_app. Qed.

Lemma rtok_txt ds de s : flat_map (rtok ds de) (map (@inl byte str) s) = s.
Proof. induction s as [|c s IH]; [reflexivity|]. cbn [map flat_map rtok app]. rewrite IH. reflexivity. Qed.

(** The non-whitespace bytes of a rendering are a function of the skeleton. *)
Theorem nonws_render ds de doc : nonws (render ds de doc) = flat_map (rtok ds de) (dsk doc).
Proof.
  induction doc as [|it doc IH]; [reflexivity|].
  unfold render, dsk in *. cbn [flat_map]. rewrite nonws_app, flat_map_app, IH. f_equal.
  destruct it as [t|b]; cbn [render_item isk].
  - unfold tk_txt. rewrite rtok_txt. reflexivity.
  - cbn [flat_map rtok]. rewrite app_nil_r. reflexivity.
Qed.

(** The tag bodies of a document are a function of the skeleton. *)
Definition tok_tag (x : tok) : list str := match x with inl _ => [] | inr b => [b] end.

Lemma tok_tag_txt s : flat_map tok_tag (map (@inl byte str) s) = [].
Proof. induction s as [|c s IH]; [reflexivity|]. cbn [map flat_map tok_tag app]. exact IH. Qed.

Theorem tags_of_dsk doc : tags_of doc = flat_map tok_tag (dsk doc).
Proof.
  induction doc as [|it doc IH]; [reflexivity|].
  unfold tags_of, dsk in *. cbn [flat_map]. rewrite flat_map_app, IH. f_equal.
  destruct it as [t|b]; cbn [tag_body isk]; [unfold tk_txt; rewrite tok_tag_txt|]; reflexivity.
Qed.

(** The skeleton of a syntax tree from which the elements whose opening tag body satisfies [r]
    are pruned. *)
Fixpoint sk1 (r : str -> bool) (a : ast) : list tok :=
  match a with
  | AT t => tk_txt t
  | AC b => [inr b]
  | AE b1 b2 kids => if r b1 then [] else inr b1 :: flat_map (sk1 r) kids ++ [inr b2]
  end.
Definition sks (r : str -> bool) (f : list ast) : list tok := flat_map (sk1 r) f.

Definition r_none : str -> bool := fun _ => false.

Lemma sk1_AE r b1 b2 kids :
  sk1 r (AE b1 b2 kids) = if r b1 then [] else inr b1 :: sks r kids ++ [inr b2].
Proof. reflexivity. Qed.

Lemma sks_cons r x f : sks r (x :: f) = sk1 r x ++ sks r f.
Proof. reflexivity. Qed.

Lemma sks_app r a b : sks r (a ++ b) = sks r a ++ sks r b.
Proof. apply flat_map_app. Qed.

Lemma sks_none_both :
  (forall a, sk1 r_none a = dsk (items_of a)) /\ (forall f, sks r_none f = dsk (doc_of f)).
Proof.
  apply (ast_forest_ind (fun a => sk1 r_none a = dsk (items_of a))
                        (fun f => sks r_none f = dsk (doc_of f))).
  - intros t. cbn [sk1 items_of dsk flat_map isk]. rewrite app_nil_r. reflexivity.
  - intros b. reflexivity.
  - intros b1 b2 kids IH. rewrite sk1_AE, items_AE, !dsk_app, IH. reflexivity.
  - reflexivity.
  - intros x f Hx Hf. rewrite sks_cons, doc_of_cons, dsk_app, Hx, Hf. reflexivity.
Qed.

(** Without pruning: the skeleton of the document. *)
Theorem sks_none f : sks r_none f = dsk (doc_of f).
Proof. apply (proj2 sks_none_both). Qed.

Lemma sks_ext_both r r' : (forall b, r b = r' b) ->
  (forall a, sk1 r a = sk1 r' a) /\ (forall f, sks r f = sks r' f).
Proof.
  intros H.
  apply (ast_forest_ind (fun a => sk1 r a = sk1 r' a) (fun f => sks r f = sks r' f)).
  - reflexivity.
  - reflexivity.
  - intros b1 b2 kids IH. rewrite !sk1_AE, IH, (H b1). reflexivity.
  - reflexivity.
  - intros x f Hx Hf. rewrite !sks_cons, Hx, Hf. reflexivity.
Qed.

Lemma sks_ext r r' f : (forall b, r b = r' b) -> sks r f = sks r' f.
Proof. intros H. apply (proj2 (sks_ext_both r r' H)). Qed.

(** Normalisation does not change a skeleton. *)
Lemma sks_acons r t nr : sks r (acons t nr) = tk_txt t ++ sks r nr.
Proof.
  destruct t as [|c t]; [reflexivity|]. destruct nr as [|[u|b|b1 b2 k] l]; cbn [acons]; try reflexivity.
  rewrite !sks_cons. cbn [sk1]. rewrite tk_txt_app, <- app_assoc. reflexivity.
Qed.

Lemma sks_acons' r x nr : sks r (acons' x nr) = sk1 r x ++ sks r nr.
Proof. destruct x as [t|b|b1 b2 k]; cbn [acons']; try reflexivity. apply sks_acons. Qed.

Lemma sks_norm_both r :
  (forall a, sk1 r (norm_a a) = sk1 r a) /\ (forall f, sks r (ast_norm f) = sks r f).
Proof.
  apply (ast_forest_ind (fun a => sk1 r (norm_a a) = sk1 r a)
                        (fun f => sks r (ast_norm f) = sks r f)).
  - reflexivity.
  - reflexivity.
  - intros b1 b2 kids IH. rewrite norm_a_AE, !sk1_AE, IH. reflexivity.
  - reflexivity.
  - intros x f Hx Hf. cbn [ast_norm]. rewrite sks_acons', sks_cons, Hx, Hf. reflexivity.
Qed.

Theorem sks_norm r f : sks r (ast_norm f) = sks r f.
Proof. apply (proj2 (sks_norm_both r)). Qed.

(* ------------------------------------------------------------------------- *)
(** * Part 2: the masks of a run, structurally *)

Lemma flen_AT t : flen (AT t) = length t.
Proof. unfold flen. cbn [items_of flat flat_map flat_item]. rewrite app_nil_r. apply map_length. Qed.

Lemma flen_AC b : flen (AC b) = length b + 2.
Proof. unfold flen. cbn [items_of]. apply flat_tag_len. Qed.

(** [mok1 r1 del sb a]: on the symbols of [a] (the first one has the index [sb]) the mask [del]
    deletes the whole span of every outermost [r1]-node, keeps the tags of all other nodes and
    all other tags, and deletes only whitespace bytes of the texts outside those spans. *)
Fixpoint mok1 (r1 : str -> bool) (del : nat -> bool) (sb : nat) (a : ast) : Prop :=
  match a with
  | AT t => nonws (kept_from sb del t) = nonws t
  | AC b => del sb = false
  | AE b1 b2 kids =>
    if r1 b1 then forall k, k < (length b1 + 2) + flens kids + (length b2 + 2) -> del (sb + k) = true
    else del sb = false /\
         (fix go (s : nat) (l : list ast) : Prop :=
            match l with
            | [] => True
            | x :: l' => mok1 r1 del s x /\ go (s + flen x) l'
            end) (sb + (length b1 + 2)) kids
  end.
Definition moks (r1 : str -> bool) (del : nat -> bool) : nat -> list ast -> Prop :=
  fix go (s : nat) (l : list ast) : Prop :=
    match l with
    | [] => True
    | x :: l' => mok1 r1 del s x /\ go (s + flen x) l'
    end.

Lemma mok1_AE r1 del sb b1 b2 kids :
  mok1 r1 del sb (AE b1 b2 kids) =
  if r1 b1 then forall k, k < flen (AE b1 b2 kids) -> del (sb + k) = true
  else del sb = false /\ moks r1 del (sb + (length b1 + 2)) kids.
Proof. rewrite flen_AE. reflexivity. Qed.

Lemma moks_cons r1 del sb x f :
  moks r1 del sb (x :: f) = (mok1 r1 del sb x /\ moks r1 del (sb + flen x) f).
Proof. reflexivity. Qed.

(** A tree all of whose symbols are deleted leaves nothing in the skeleton. *)
Lemma sks_dead_both r del :
  (forall a sb, (forall k, k < flen a -> del (sb + k) = true) -> sks r (mask1 del sb a) = []) /\
  (forall f sb, (forall k, k < flens f -> del (sb + k) = true) -> sks r (ast_mask del sb f) = []).
Proof.
  apply (ast_forest_ind
    (fun a => forall sb, (forall k, k < flen a -> del (sb + k) = true) -> sks r (mask1 del sb a) = [])
    (fun f => forall sb, (forall k, k < flens f -> del (sb + k) = true) ->
                         sks r (ast_mask del sb f) = [])).
  - intros t sb H. rewrite flen_AT in H. cbn [mask1]. rewrite (kept_from_all t sb del H). reflexivity.
  - intros b sb H. rewrite flen_AC in H. cbn [mask1].
    rewrite <- (Nat.add_0_r sb) at 1. rewrite (H 0) by lia. reflexivity.
  - intros b1 b2 kids IH sb H. rewrite flen_AE in H. rewrite mask1_AE.
    rewrite <- (Nat.add_0_r sb) at 1. rewrite (H 0) by lia.
    apply IH. intros k Hk. rewrite <- Nat.add_assoc. apply H. lia.
  - reflexivity.
  - intros x f Hx Hf sb H. rewrite flens_cons in H. rewrite ast_mask_cons, sks_app.
    rewrite (Hx sb), (Hf (sb + flen x)); [reflexivity | |].
    + intros k Hk. rewrite <- Nat.add_assoc. apply H. lia.
    + intros k Hk. apply H. lia.
Qed.

(** The skeleton of the masked tree, pruned by any [r2], is the skeleton of the tree pruned by
    [r1] or [r2]. *)
Lemma sks_mask_both r1 r2 del :
  (forall a sb, mok1 r1 del sb a -> sks r2 (mask1 del sb a) = sk1 (fun b => r1 b || r2 b) a) /\
  (forall f sb, moks r1 del sb f -> sks r2 (ast_mask del sb f) = sks (fun b => r1 b || r2 b) f).
Proof.
  apply (ast_forest_ind
    (fun a => forall sb, mok1 r1 del sb a -> sks r2 (mask1 del sb a) = sk1 (fun b => r1 b || r2 b) a)
    (fun f => forall sb, moks r1 del sb f ->
                         sks r2 (ast_mask del sb f) = sks (fun b => r1 b || r2 b) f)).
  - intros t sb H. cbn [mok1] in H. cbn [mask1 sks flat_map sk1]. rewrite app_nil_r.
    unfold tk_txt. rewrite H. reflexivity.
  - intros b sb H. cbn [mok1] in H. cbn [mask1]. rewrite H. reflexivity.
  - intros b1 b2 kids IH sb H. rewrite mok1_AE in H. rewrite sk1_AE.
    destruct (r1 b1) eqn:E1; cbn [orb].
    + apply (proj1 (sks_dead_both r2 del)). exact H.
    + destruct H as [H0 Hk]. rewrite mask1_AE, H0, sks_cons, sk1_AE, (IH _ Hk).
      cbn [sks flat_map]. rewrite app_nil_r. reflexivity.
  - reflexivity.
  - intros x f Hx Hf sb H. rewrite moks_cons in H. destruct H as [H1 H2].
    rewrite ast_mask_cons, sks_app, sks_cons, (Hx _ H1), (Hf _ H2). reflexivity.
Qed.

Theorem sks_mask r1 r2 del f : moks r1 del 0 f ->
  sks r2 (ast_norm (ast_mask del 0 f)) = sks (fun b => r1 b || r2 b) f.
Proof. intros H. rewrite sks_norm. apply (proj2 (sks_mask_both r1 r2 del)). exact H. Qed.

(* ------------------------------------------------------------------------- *)
(** * Part 3: the mask of one run *)

(** What [Proofs.Idempotent.clean_run_mask] states about the mask of one run, and in addition:
    a symbol that is deleted outside the spans of the ready nodes is a whitespace byte. *)
Definition run_mask (cfg : config) (f : list ast) (del : nat -> bool) : Prop :=
  pair_respecting del f /\
  (forall i t, nth_error (doc_of f) i = Some (Txt t) ->
     wf_utf8 (kept_from (fstart (doc_of f) i) del t) = true) /\
  (forall i, del1 cfg f i = true -> del i = true) /\
  (forall it b, nth_error (doc_of f) it = Some (Tag b) ->
     del (fstart (doc_of f) it) = del1 cfg f (fstart (doc_of f) it)) /\
  (forall i c, del i = true -> del1 cfg f i = false ->
     nth_error (flat (doc_of f)) i = Some (B c) -> is_ws c = true).

(** The proof follows [clean_run_mask]; the last component is new. *)
Theorem clean_run_mask' cfg ds de f :
  good_delims ds de -> good_doc ds de (doc_of f) -> bodies_ok (doc_of f) ->
  Forall ast_ok f -> no_unwrap f ->
  exists del, run_mask cfg f del /\
    clean cfg ds de (render ds de (doc_of f)) =
      Ok (rs ds de (sdel_from 0 del (flat (doc_of f)))).
Proof.
  intros Hgd Hdoc Hbod Hok Hnu.
  pose proof (good_delims_sp_ok ds de Hgd) as Hsp.
  destruct (a_collect_markers cfg f Hok Hnu) as (ams & E & S1 & _ & _ & K' & _).
  pose proof (markers_no_pairs cfg f ams Hok Hnu E) as Hnp.
  destruct (clean_rendered_np cfg ds de (doc_of f) ams Hgd Hdoc Hbod E Hnp)
    as (aR & _ & Ecl & Hws & Hconf).
  pose proof (kept_tag_untouched ds de cfg f ams aR Hsp S1 K' Hconf) as KT.
  set (doc := doc_of f) in *. set (R := map fst ams) in *. set (P1 := in_rangesb R) in *.
  set (l := flat doc) in *. set (l' := sdelete R l) in *.
  unfold sindex in KT. fold P1 in KT.
  exists (fun i => P1 i || in_rangesb aR (rank P1 i)). unfold run_mask. cbv beta. fold doc. fold l.
  split; [split; [split|split; [|split; [|split]]]|].
  - (* constant on every tag *)
    intros it b Hit j Hj. cbn [Nat.add] in *. fold doc in Hit, Hj. fold doc.
    assert (P1 j = P1 (fstart doc it)) as Ec.
    { unfold P1. rewrite !K'. apply (del1_const_tag cfg f it b _ _ Hit); fold doc; [lia|].
      rewrite (AstCollect.fstart_tag doc it b Hit). lia. }
    rewrite Ec. destruct (P1 (fstart doc it)) eqn:E0; [reflexivity|]. cbn [orb].
    rewrite (KT it b Hit E0 j Hj). rewrite (KT it b Hit E0 (fstart doc it)); [reflexivity|].
    rewrite (AstCollect.fstart_tag doc it b Hit). lia.
  - (* the two tags of a node *)
    intros b1 b2 o c Hn.
    pose proof (ast_nodes_at f 0 _ Hn) as (i & j & -> & -> & _ & Hi & Hj). cbn [Nat.add].
    fold doc in Hi, Hj. fold doc.
    assert (P1 (fstart doc i) = P1 (fstart doc j)) as Ec.
    { unfold P1. rewrite !K'. apply (del1_node_tags' cfg f b1 b2 i j Hn). }
    rewrite <- Ec. destruct (P1 (fstart doc i)) eqn:E0; [reflexivity|]. cbn [orb].
    rewrite (KT i b1 Hi E0 (fstart doc i)) by (rewrite (AstCollect.fstart_tag doc i b1 Hi); lia).
    symmetry in Ec.
    rewrite (KT j b2 Hj Ec (fstart doc j)) by (rewrite (AstCollect.fstart_tag doc j b2 Hj); lia).
    reflexivity.
  - (* the kept bytes of a text *)
    intros i t Hi. set (s := fstart doc i).
    pose proof (fstart_S doc i _ Hi) as HS. rewrite (flat_item_len (Txt t)) in HS. fold s in HS.
    assert (forall q, q < length t -> P1 (s + q) = P1 s) as Hconst.
    { intros q Hq. unfold P1. rewrite !K'. apply (del1_const_item cfg f i); fold doc; fold s; lia. }
    destruct (P1 s) eqn:E0.
    + rewrite kept_from_all; [reflexivity|]. intros q Hq. cbv beta. rewrite (Hconst q Hq). reflexivity.
    + apply wf_kept_ws.
      * destruct Hdoc as (_ & _ & Hwt & _). apply Hwt. apply (nth_error_In _ _ Hi).
      * intros q c Hq Hn.
        assert (q < length t) as Hql by (apply nth_error_Some; congruence).
        cbv beta in Hq. rewrite (Hconst q Hql) in Hq. cbn [orb] in Hq. apply in_rangesb_spec in Hq.
        apply (Hws _ c Hq). fold doc R l l'. unfold l', sdelete. fold P1.
        rewrite (nth_sdel P1 l (s + q)) by (apply Hconst; exact Hql).
        pose proof (sym_at_txt doc i q t Hi Hql) as Hb. cbn [aidx] in Hb. fold s in Hb.
        unfold l. rewrite Hb, Hn. reflexivity.
  - intros i Hi. fold (P1 i) in K'. unfold P1 at 1. rewrite K', Hi. reflexivity.
  - intros it b Hit. fold doc in Hit. fold doc. rewrite <- K'.
    destruct (P1 (fstart doc it)) eqn:E0; [reflexivity|]. cbn [orb].
    apply (KT it b Hit E0). rewrite (AstCollect.fstart_tag doc it b Hit). lia.
  - (* new: beyond the spans only whitespace bytes are deleted *)
    intros i c Hd H1 Hn. fold doc in Hn. fold l in Hn.
    assert (P1 i = false) as E0 by (unfold P1; rewrite K'; exact H1).
    rewrite E0 in Hd. cbn [orb] in Hd. apply in_rangesb_spec in Hd.
    apply (Hws _ c Hd). fold doc R l l'. unfold l', sdelete. fold P1.
    rewrite (nth_sdel P1 l i E0). exact Hn.
  - rewrite Ecl. fold doc R l l'. unfold l', sdelete. rewrite sdel_compose. reflexivity.
Qed.

(** ** From the indexed statement to the structural one *)

Lemma nth_ctx {A} (pre : list A) x post : nth_error (pre ++ x :: post) (length pre) = Some x.
Proof. rewrite nth_error_app2 by lia. rewrite Nat.sub_diag. reflexivity. Qed.

Lemma fstart_at (doc pre rest : list item) n s :
  doc = pre ++ rest -> n = length pre -> s = length (flat pre) -> fstart doc n = s.
Proof. intros -> -> ->. apply fstart_pre. Qed.

Lemma nonws_kept del : forall t sb,
  (forall q c, nth_error t q = Some c -> del (sb + q) = true -> is_ws c = true) ->
  nonws (kept_from sb del t) = nonws t.
Proof.
  induction t as [|a t IH]; intros sb H; [reflexivity|].
  assert (nonws (kept_from (S sb) del t) = nonws t) as E.
  { apply IH. intros q c Hn Hd. apply (H (S q) c Hn). replace (sb + S q) with (S sb + q) by lia. exact Hd. }
  cbn [kept_from]. destruct (del sb) eqn:E0.
  - assert (is_ws a = true) as Hw by (apply (H 0 a eq_refl); rewrite Nat.add_0_r; exact E0).
    rewrite E. unfold nonws. cbn [filter]. rewrite Hw. reflexivity.
  - unfold nonws in *. cbn [filter]. rewrite E. reflexivity.
Qed.

(** Every ready node whose span meets the symbols [lo, hi) is one of [ns]. *)
Definition confined (cfg : config) (f : list ast) (ns : list node) (lo hi : nat) : Prop :=
  forall m, In m (ast_nodes 0 f) -> ready cfg m ->
  forall p, fstart (doc_of f) (node_open m) <= p < fstart (doc_of f) (S (node_close m)) ->
  lo <= p < hi -> In m ns.

Lemma del1_false_confined cfg f ns lo hi p : confined cfg f ns lo hi -> lo <= p < hi ->
  (forall m, In m ns -> ready cfg m ->
     fstart (doc_of f) (node_open m) <= p < fstart (doc_of f) (S (node_close m)) -> False) ->
  del1 cfg f p = false.
Proof.
  intros Hc Hp H. destruct (del1 cfg f p) eqn:E; [exfalso | reflexivity].
  apply del1_spec in E. destruct E as (m & Hm & R & Hs).
  apply (H m (Hc m Hm R p Hs Hp) R Hs).
Qed.

Lemma flat_AT t : flat (items_of (AT t)) = map B t.
Proof. cbn [items_of flat flat_map flat_item]. apply app_nil_r. Qed.

Lemma moks_ctx_both cfg f del : run_mask cfg f del ->
  (forall a pre post ib sb, doc_of f = pre ++ items_of a ++ post -> ib = length pre ->
     sb = length (flat pre) ->
     (forall n, In n (nodes1 ib a) -> In n (ast_nodes 0 f)) ->
     confined cfg f (nodes1 ib a) sb (sb + flen a) ->
     mok1 (el_readyb cfg) del sb a) /\
  (forall g pre post ib sb, doc_of f = pre ++ doc_of g ++ post -> ib = length pre ->
     sb = length (flat pre) ->
     (forall n, In n (ast_nodes ib g) -> In n (ast_nodes 0 f)) ->
     confined cfg f (ast_nodes ib g) sb (sb + flens g) ->
     moks (el_readyb cfg) del sb g).
Proof.
  intros (Hpr & _ & Hsup & Htag & Hws).
  apply (ast_forest_ind
    (fun a => forall pre post ib sb, doc_of f = pre ++ items_of a ++ post -> ib = length pre ->
       sb = length (flat pre) ->
       (forall n, In n (nodes1 ib a) -> In n (ast_nodes 0 f)) ->
       confined cfg f (nodes1 ib a) sb (sb + flen a) ->
       mok1 (el_readyb cfg) del sb a)
    (fun g => forall pre post ib sb, doc_of f = pre ++ doc_of g ++ post -> ib = length pre ->
       sb = length (flat pre) ->
       (forall n, In n (ast_nodes ib g) -> In n (ast_nodes 0 f)) ->
       confined cfg f (ast_nodes ib g) sb (sb + flens g) ->
       moks (el_readyb cfg) del sb g)).
  - (* a text *)
    intros t pre post ib sb Hd Hi Hs _ Hc. cbn [mok1]. apply nonws_kept. intros q c Hn Hq.
    assert (q < length t) as Hql by (apply nth_error_Some; congruence).
    rewrite flen_AT in Hc.
    assert (del1 cfg f (sb + q) = false) as E1.
    { apply (del1_false_confined cfg f _ _ _ _ Hc); [lia|]. intros m []. }
    apply (Hws (sb + q) c Hq E1).
    rewrite Hd, !flat_app, flat_AT, nth_error_app2 by lia.
    replace (sb + q - length (flat pre)) with q by lia.
    rewrite nth_error_app1 by (rewrite map_length; exact Hql).
    rewrite nth_error_map, Hn. reflexivity.
  - (* a tag that is not an element *)
    intros b pre post ib sb Hd Hi Hs _ Hc. cbn [mok1]. rewrite flen_AC in Hc.
    assert (fstart (doc_of f) ib = sb) as EF by (apply (fstart_at _ pre _ _ _ Hd Hi Hs)).
    assert (nth_error (doc_of f) ib = Some (Tag b)) as Hit.
    { rewrite Hd, Hi. cbn [items_of app]. apply nth_ctx. }
    rewrite <- EF, (Htag ib b Hit), EF.
    apply (del1_false_confined cfg f _ _ _ _ Hc); [lia|]. intros m [].
  - (* an element *)
    intros b1 b2 kids IH pre post ib sb Hd Hi Hs Hsub Hc. rewrite mok1_AE.
    set (n0 := (b1, b2, ib, S ib + sizes kids) : node).
    assert (fstart (doc_of f) ib = sb) as EF by (apply (fstart_at _ pre _ _ _ Hd Hi Hs)).
    assert (fstart (doc_of f) (S ib) = sb + (length b1 + 2)) as EF1.
    { apply (fstart_at _ (pre ++ [Tag b1]) (doc_of kids ++ Tag b2 :: post)).
      - rewrite Hd, items_AE. rewrite <- !app_assoc. reflexivity.
      - rewrite app_length, Hi. cbn [length]. lia.
      - rewrite flat_app, app_length, flat_tag_len, Hs. reflexivity. }
    assert (fstart (doc_of f) (S (S ib + sizes kids)) = sb + flen (AE b1 b2 kids)) as EF2.
    { apply (fstart_at _ (pre ++ items_of (AE b1 b2 kids)) post).
      - rewrite Hd, <- app_assoc. reflexivity.
      - rewrite app_length, size_items, Hi. cbn [size]. fold (sizes kids). lia.
      - rewrite flat_app, app_length, Hs. reflexivity. }
    assert (In n0 (ast_nodes 0 f)) as Hn0 by (apply Hsub; rewrite nodes1_AE; left; reflexivity).
    destruct (el_readyb cfg b1) eqn:Er.
    + (* ready: the whole span is deleted *)
      intros k Hk. apply Hsup. apply del1_spec. exists n0. split; [exact Hn0|]. split.
      * apply readyb_spec. exact Er.
      * cbn [n0 node_open node_close]. rewrite EF, EF2. lia.
    + (* not ready: the tags stay *)
      assert (forall m, In m (nodes1 ib (AE b1 b2 kids)) -> ready cfg m ->
                        In m (ast_nodes (S ib) kids)) as Hkid.
      { intros m Hm R. rewrite nodes1_AE in Hm. destruct Hm as [<-|Hm]; [|exact Hm].
        apply readyb_spec in R. unfold readyb in R. cbn [n0 node_b1] in R.
        rewrite Er in R. discriminate R. }
      split.
      * assert (nth_error (doc_of f) ib = Some (Tag b1)) as Hit.
        { rewrite Hd, Hi, items_AE. cbn [app]. apply nth_ctx. }
        rewrite <- EF, (Htag ib b1 Hit), EF.
        apply (del1_false_confined cfg f _ _ _ _ Hc); [rewrite flen_AE; lia|].
        intros m Hm R Hsp. pose proof (Hkid m Hm R) as Hk.
        apply ast_nodes_range' in Hk.
        pose proof (fstart_mono (doc_of f) (S ib) (node_open m) ltac:(lia)). lia.
      * apply (IH (pre ++ [Tag b1]) (Tag b2 :: post) (S ib)).
        -- rewrite Hd, items_AE. rewrite <- !app_assoc. reflexivity.
        -- rewrite app_length, Hi. cbn [length]. lia.
        -- rewrite flat_app, app_length, flat_tag_len, Hs. reflexivity.
        -- intros n Hn. apply Hsub. rewrite nodes1_AE. right. exact Hn.
        -- intros m Hm R p Hsp Hp. apply Hkid; [|exact R].
           apply (Hc m Hm R p Hsp). rewrite flen_AE. lia.
  - intros pre post ib sb _ _ _ _ _. exact I.
  - (* a forest *)
    intros x g Hx Hg pre post ib sb Hd Hi Hs Hsub Hc. rewrite moks_cons.
    rewrite flens_cons in Hc. cbn [ast_nodes] in Hsub, Hc.
    assert (fstart (doc_of f) (ib + size x) = sb + flen x) as EF.
    { apply (fstart_at _ (pre ++ items_of x) (doc_of g ++ post)).
      - rewrite Hd, doc_of_cons, <- !app_assoc. reflexivity.
      - rewrite app_length, size_items, Hi. reflexivity.
      - rewrite flat_app, app_length, Hs. reflexivity. }
    split.
    + apply (Hx pre (doc_of g ++ post) ib); try assumption.
      * rewrite Hd, doc_of_cons, <- !app_assoc. reflexivity.
      * intros n Hn. apply Hsub. apply in_or_app. left. exact Hn.
      * intros m Hm R p Hsp Hp.
        pose proof (Hc m Hm R p Hsp ltac:(lia)) as Hin. apply in_app_or in Hin.
        destruct Hin as [Hin|Hin]; [exact Hin | exfalso].
        apply ast_nodes_range' in Hin.
        pose proof (fstart_mono (doc_of f) (ib + size x) (node_open m) ltac:(lia)). lia.
    + apply (Hg (pre ++ items_of x) post (ib + size x)).
      * rewrite Hd, doc_of_cons, <- !app_assoc. reflexivity.
      * rewrite app_length, size_items, Hi. reflexivity.
      * rewrite flat_app, app_length, Hs. reflexivity.
      * intros n Hn. apply Hsub. apply in_or_app. right. exact Hn.
      * intros m Hm R p Hsp Hp.
        pose proof (Hc m Hm R p Hsp ltac:(lia)) as Hin. apply in_app_or in Hin.
        destruct Hin as [Hin|Hin]; [exfalso | exact Hin].
        apply nodes1_range in Hin.
        pose proof (fstart_mono (doc_of f) (S (node_close m)) (ib + size x) ltac:(lia)). lia.
Qed.

(** The mask of a run has the structural shape of Part 2. *)
Theorem run_mask_moks cfg f del : run_mask cfg f del -> moks (el_readyb cfg) del 0 f.
Proof.
  intros H. apply (proj2 (moks_ctx_both cfg f del H) f [] [] 0 0); try reflexivity.
  - cbn [app]. rewrite app_nil_r. reflexivity.
  - intros n Hn. exact Hn.
  - intros m Hm _ _ _ _. exact Hm.
Qed.

(* ------------------------------------------------------------------------- *)
(** * Part 4: one run, structurally *)

Lemma el_readyb_false cfg b : el_readyb cfg b = false <-> status cfg (el_of b) <> Some true.
Proof.
  unfold el_readyb. destruct (status cfg (el_of b)) as [[|]|]; split; intros H; try reflexivity;
    try discriminate; try (intros E; discriminate E). exfalso. apply H. reflexivity.
Qed.

Lemma node_b1_bodies (n : node) : node_b1 n = fst (node_bodies n).
Proof. destruct n as [[[b1 b2] o] c]. reflexivity. Qed.

(** One run of [clean] on the rendering of a forest [f] without unwrap-block elements returns the
    rendering of a forest [f1] of the same kind; the skeleton of [f1] pruned by any [r] is the
    skeleton of [f] pruned by "ready or [r]"; and every element of [f1] is an element of [f] that
    is not ready. *)
Theorem clean_run_ast : forall cfg ds de f out,
  good_delims ds de -> good_doc ds de (doc_of f) -> bodies_ok (doc_of f) ->
  Forall ast_ok f -> no_unwrap f ->
  clean cfg ds de (render ds de (doc_of f)) = Ok out ->
  exists f1, out = render ds de (doc_of f1) /\ Forall ast_ok f1 /\
    good_doc ds de (doc_of f1) /\ bodies_ok (doc_of f1) /\ no_unwrap f1 /\
    (forall r, sks r f1 = sks (fun b => el_readyb cfg b || r b) f) /\
    (forall p, In p (ast_pairs f1) -> In p (ast_pairs f) /\ el_readyb cfg (fst p) = false).
Proof.
  intros cfg ds de f out Hgd Hdoc Hbod Hok Hnu Hc.
  destruct (clean_run_mask' cfg ds de f Hgd Hdoc Hbod Hok Hnu) as (del & Hrm & Ecl).
  pose proof (run_mask_moks cfg f del Hrm) as Hmk.
  destruct Hrm as (Hpr & Hwf & _ & Htag & _).
  rewrite Ecl in Hc. inversion Hc as [Eout]. clear Hc.
  set (f1 := ast_norm (ast_mask del 0 f)).
  destruct (masked_good ds de f del Hpr Hdoc Hbod Hwf) as [Hg2 Hb2]. fold f1 in Hg2, Hb2.
  assert (forall p, In p (ast_pairs f1) -> In p (ast_pairs f) /\ el_readyb cfg (fst p) = false) as Hp.
  { intros p Hin. rewrite <- (nodes_pairs f1 0) in Hin. unfold f1 in Hin.
    rewrite masked_nodes in Hin. apply in_map_iff in Hin. destruct Hin as (n & <- & Hn).
    apply filter_In in Hn. destruct Hn as [Hn Hk]. apply negb_true_iff in Hk.
    split; [rewrite <- (nodes_pairs f 0); apply in_map; exact Hn|].
    destruct n as [[[b1 b2] o] c]. cbn [node_open] in Hk. cbn [node_bodies fst].
    apply el_readyb_false. apply (del1_open_kept' cfg f b1 b2 o c Hn).
    pose proof (ast_nodes_at f 0 _ Hn) as (i & j & -> & _ & _ & Hi & _). cbn [Nat.add] in *.
    rewrite <- (Htag i b1 Hi). exact Hk. }
  exists f1. split; [apply masked_rendering; exact Hpr|]. split; [apply masked_ok; exact Hok|].
  split; [exact Hg2|]. split; [exact Hb2|]. split; [|split; [|exact Hp]].
  - intros n Hn.
    assert (In (node_bodies n) (ast_pairs f1)) as Hb.
    { rewrite <- (nodes_pairs f1 0). apply in_map. exact Hn. }
    apply Hp in Hb. destruct Hb as [Hb _]. rewrite <- (nodes_pairs f 0) in Hb.
    apply in_map_iff in Hb. destruct Hb as (n' & E & Hn').
    rewrite node_b1_bodies, <- E, <- node_b1_bodies. apply Hnu. exact Hn'.
  - intros r. apply sks_mask. exact Hmk.
Qed.

(** Up to whitespace the output is the input without its ready elements. *)
Corollary clean_nonws_ast : forall cfg ds de f out,
  good_delims ds de -> good_doc ds de (doc_of f) -> bodies_ok (doc_of f) ->
  Forall ast_ok f -> no_unwrap f ->
  clean cfg ds de (render ds de (doc_of f)) = Ok out ->
  nonws out = flat_map (rtok ds de) (sks (el_readyb cfg) f).
Proof.
  intros cfg ds de f out Hgd Hdoc Hbod Hok Hnu Hc.
  destruct (clean_run_ast cfg ds de f out Hgd Hdoc Hbod Hok Hnu Hc) as (f1 & -> & _ & _ & _ & _ & Hs & _).
  rewrite nonws_render, <- sks_none, (Hs r_none). f_equal. apply sks_ext.
  intros b. apply orb_false_r.
Qed.

(* ------------------------------------------------------------------------- *)
(** * Part 5: chains of runs, composition, nothing stranded *)

(** Cleaning with the configurations of a list, one after the other. *)
Fixpoint clean_chain (cs : list config) (ds de s : str) : res str :=
  match cs with
  | [] => Ok s
  | c :: cs' => bind (clean c ds de s) (clean_chain cs' ds de)
  end.

(** Readiness only grows from one configuration to the next. *)
Definition ready_le (c c' : config) : Prop :=
  forall el, status c el = Some true -> status c' el = Some true.

Fixpoint grows (c : config) (cs : list config) : Prop :=
  match cs with
  | [] => True
  | c' :: cs' => ready_le c c' /\ grows c' cs'
  end.

Lemma el_readyb_mono c c' : ready_le c c' -> forall b, el_readyb c b = true -> el_readyb c' b = true.
Proof.
  intros H b. unfold el_readyb. destruct (status c (el_of b)) as [[|]|] eqn:E; try discriminate.
  intros _. rewrite (H _ E). reflexivity.
Qed.

Lemma last_cons {A} (a : A) l d : last (a :: l) d = last l a.
Proof.
  revert a d. induction l as [|x l IH]; intros a d; [reflexivity|].
  change (last (a :: x :: l) d) with (last (x :: l) d). rewrite (IH x d), (IH x a). reflexivity.
Qed.

Lemma last_map {A B} (g : A -> B) : forall l d, last (map g l) (g d) = g (last l d).
Proof.
  induction l as [|x l IH]; intros d; [reflexivity|].
  cbn [map]. rewrite !last_cons. apply IH.
Qed.

Lemma grows_last : forall cs c, grows c cs -> forall b, el_readyb c b = true -> el_readyb (last cs c) b = true.
Proof.
  induction cs as [|c' cs IH]; intros c H b Hb; [exact Hb|].
  destruct H as [H1 H2]. rewrite last_cons. apply (IH c' H2). apply (el_readyb_mono c c' H1). exact Hb.
Qed.

Lemma orb_absorb (r1 r2 : str -> bool) : (forall b, r1 b = true -> r2 b = true) ->
  forall r b, r1 b || (r2 b || r b) = r2 b || r b.
Proof. intros H r b. destruct (r1 b) eqn:E; [rewrite (H b E)|]; reflexivity. Qed.

(** A chain of runs with growing readiness: the output is the rendering of a forest whose
    skeleton is that of the input pruned by the readiness of the LAST configuration; its elements
    are elements of the input that are not ready under the last configuration; and it is a fixed
    point of the last configuration. *)
Theorem clean_chain_ast : forall cs c ds de f outn,
  good_delims ds de -> good_doc ds de (doc_of f) -> bodies_ok (doc_of f) ->
  Forall ast_ok f -> no_unwrap f -> grows c cs ->
  clean_chain (c :: cs) ds de (render ds de (doc_of f)) = Ok outn ->
  exists fn, outn = render ds de (doc_of fn) /\ Forall ast_ok fn /\
    good_doc ds de (doc_of fn) /\ bodies_ok (doc_of fn) /\ no_unwrap fn /\
    (forall r, sks r fn = sks (fun b => el_readyb (last cs c) b || r b) f) /\
    (forall p, In p (ast_pairs fn) -> In p (ast_pairs f) /\ el_readyb (last cs c) (fst p) = false) /\
    clean (last cs c) ds de outn = Ok outn.
Proof.
  induction cs as [|c' cs IH]; intros c ds de f outn Hgd Hdoc Hbod Hok Hnu Hg H.
  - cbn [clean_chain] in H. inv_bind H. inversion Hk; subst v. cbn [last].
    destruct (clean_run_ast c ds de f outn Hgd Hdoc Hbod Hok Hnu Hb)
      as (f1 & E & Hok1 & Hg1 & Hb1 & Hnu1 & Hs1 & Hp1).
    exists f1. repeat (split; [assumption|]).
    apply (clean_idempotent_default c ds de f outn Hgd Hdoc Hbod Hok Hnu Hb).
  - destruct Hg as [Hle Hg]. change (clean_chain (c :: c' :: cs) ds de (render ds de (doc_of f)))
      with (bind (clean c ds de (render ds de (doc_of f))) (clean_chain (c' :: cs) ds de)) in H.
    inv_bind H.
    destruct (clean_run_ast c ds de f v Hgd Hdoc Hbod Hok Hnu Hb)
      as (f1 & -> & Hok1 & Hg1 & Hb1 & Hnu1 & Hs1 & Hp1).
    destruct (IH c' ds de f1 outn Hgd Hg1 Hb1 Hok1 Hnu1 Hg Hk)
      as (fn & E & Hokn & Hgn & Hbn & Hnun & Hsn & Hpn & Hfix).
    rewrite last_cons. exists fn. repeat (split; [assumption|]).
    split; [|split; [|exact Hfix]].
    + intros r. rewrite (Hsn r), (Hs1 (fun b => el_readyb (last cs c') b || r b)).
      apply sks_ext. apply orb_absorb. intros b Hb'.
      apply (grows_last cs c' Hg). apply (el_readyb_mono c c' Hle). exact Hb'.
    + intros p Hp. destruct (Hpn p Hp) as [Hin Hr]. split; [|exact Hr]. apply (Hp1 p Hin).
Qed.

(** Two texts with the same skeleton: they are renderings of well-formed forests with the same
    non-whitespace text bytes and the same tag bodies in the same order. *)
Definition same_skeleton (ds de o o' : str) : Prop :=
  exists h h', o = render ds de (doc_of h) /\ o' = render ds de (doc_of h') /\
    Forall ast_ok h /\ Forall ast_ok h' /\ dsk (doc_of h) = dsk (doc_of h').

Lemma same_skeleton_nonws ds de o o' : same_skeleton ds de o o' -> nonws o = nonws o'.
Proof. intros (h & h' & -> & -> & _ & _ & E). rewrite !nonws_render, E. reflexivity. Qed.

Lemma same_skeleton_tags ds de o o' : same_skeleton ds de o o' ->
  exists h h', o = render ds de (doc_of h) /\ o' = render ds de (doc_of h') /\
    tags_of (doc_of h) = tags_of (doc_of h').
Proof.
  intros (h & h' & E1 & E2 & _ & _ & E). exists h, h'. split; [exact E1|]. split; [exact E2|].
  rewrite !tags_of_dsk, E. reflexivity.
Qed.

(** The chain and the single run with the last configuration have the same skeleton. *)
Theorem clean_chain_skeleton : forall cs c ds de f outn out,
  good_delims ds de -> good_doc ds de (doc_of f) -> bodies_ok (doc_of f) ->
  Forall ast_ok f -> no_unwrap f -> grows c cs ->
  clean_chain (c :: cs) ds de (render ds de (doc_of f)) = Ok outn ->
  clean (last cs c) ds de (render ds de (doc_of f)) = Ok out ->
  same_skeleton ds de outn out.
Proof.
  intros cs c ds de f outn out Hgd Hdoc Hbod Hok Hnu Hg H1 H2.
  destruct (clean_chain_ast cs c ds de f outn Hgd Hdoc Hbod Hok Hnu Hg H1)
    as (fn & En & Hokn & _ & _ & _ & Hsn & _).
  destruct (clean_run_ast (last cs c) ds de f out Hgd Hdoc Hbod Hok Hnu H2)
    as (f2 & E2 & Hok2 & _ & _ & _ & Hs2 & _).
  exists fn, f2. repeat (split; [assumption|]).
  rewrite <- !sks_none, (Hsn r_none), (Hs2 r_none). reflexivity.
Qed.

(** C19, second half, for a chain of configurations. *)
Theorem clean_chain_composes : forall cs c ds de f outn out,
  good_delims ds de -> good_doc ds de (doc_of f) -> bodies_ok (doc_of f) ->
  Forall ast_ok f -> no_unwrap f -> grows c cs ->
  clean_chain (c :: cs) ds de (render ds de (doc_of f)) = Ok outn ->
  clean (last cs c) ds de (render ds de (doc_of f)) = Ok out ->
  nonws outn = nonws out.
Proof.
  intros cs c ds de f outn out Hgd Hdoc Hbod Hok Hnu Hg H1 H2.
  apply (same_skeleton_nonws ds de).
  apply (clean_chain_skeleton cs c ds de f outn out); assumption.
Qed.

Lemma chain_two c1 c2 ds de s out1 out12 :
  clean c1 ds de s = Ok out1 -> clean c2 ds de out1 = Ok out12 ->
  clean_chain [c1; c2] ds de s = Ok out12.
Proof. intros H1 H2. cbn [clean_chain]. rewrite H1. cbn [bind]. rewrite H2. reflexivity. Qed.

(** Two steps: the same skeleton ... *)
Theorem clean_composes_skeleton : forall cfg1 cfg2 ds de f out1 out12 out2,
  good_delims ds de -> good_doc ds de (doc_of f) -> bodies_ok (doc_of f) -> Forall ast_ok f ->
  no_unwrap f ->
  (forall el, status cfg1 el = Some true -> status cfg2 el = Some true) ->
  clean cfg1 ds de (render ds de (doc_of f)) = Ok out1 ->
  clean cfg2 ds de out1 = Ok out12 ->
  clean cfg2 ds de (render ds de (doc_of f)) = Ok out2 ->
  same_skeleton ds de out12 out2.
Proof.
  intros cfg1 cfg2 ds de f out1 out12 out2 Hgd Hdoc Hbod Hok Hnu Hle H1 H12 H2.
  apply (clean_chain_skeleton [cfg2] cfg1 ds de f out12 out2 Hgd Hdoc Hbod Hok Hnu).
  - split; [exact Hle | exact I].
  - apply (chain_two cfg1 cfg2 ds de _ out1 out12 H1 H12).
  - exact H2.
Qed.

(** ... and C19, second half, as stated. *)
Theorem clean_composes_default : forall cfg1 cfg2 ds de f out1 out12 out2,
  good_delims ds de -> good_doc ds de (doc_of f) -> bodies_ok (doc_of f) -> Forall ast_ok f ->
  no_unwrap f ->
  (forall el, status cfg1 el = Some true -> status cfg2 el = Some true) ->
  clean cfg1 ds de (render ds de (doc_of f)) = Ok out1 ->
  clean cfg2 ds de out1 = Ok out12 ->
  clean cfg2 ds de (render ds de (doc_of f)) = Ok out2 ->
  nonws out12 = nonws out2.
Proof.
  intros cfg1 cfg2 ds de f out1 out12 out2 Hgd Hdoc Hbod Hok Hnu Hle H1 H12 H2.
  apply (same_skeleton_nonws ds de).
  apply (clean_composes_skeleton cfg1 cfg2 ds de f out1 out12 out2); assumption.
Qed.

(** No tag of a ready element is ever stranded by an earlier run: the step-by-step output is the
    rendering of a well-formed forest (every tag has its partner), every element of it is an
    element of the input that is not ready under the final configuration, and it is a fixed point
    of the final configuration.  For a chain: *)
Theorem clean_chain_not_stranded : forall cs c ds de f outn,
  good_delims ds de -> good_doc ds de (doc_of f) -> bodies_ok (doc_of f) ->
  Forall ast_ok f -> no_unwrap f -> grows c cs ->
  clean_chain (c :: cs) ds de (render ds de (doc_of f)) = Ok outn ->
  (exists fn, outn = render ds de (doc_of fn) /\ Forall ast_ok fn /\
     forall b1 b2 o c', In (b1, b2, o, c') (ast_nodes 0 fn) ->
       In (b1, b2) (map node_bodies (ast_nodes 0 f)) /\
       status (last cs c) (el_of b1) <> Some true) /\
  clean (last cs c) ds de outn = Ok outn.
Proof.
  intros cs c ds de f outn Hgd Hdoc Hbod Hok Hnu Hg H.
  destruct (clean_chain_ast cs c ds de f outn Hgd Hdoc Hbod Hok Hnu Hg H)
    as (fn & En & Hokn & _ & _ & _ & _ & Hpn & Hfix).
  split; [|exact Hfix]. exists fn. split; [exact En|]. split; [exact Hokn|].
  intros b1 b2 o c' Hin.
  assert (In (b1, b2) (ast_pairs fn)) as Hp.
  { rewrite <- (nodes_pairs fn 0). apply (in_map node_bodies _ _ Hin). }
  destruct (Hpn _ Hp) as [Hf Hr]. cbn [fst] in Hr. rewrite (nodes_pairs f 0).
  split; [exact Hf | apply el_readyb_false; exact Hr].
Qed.

(** For two steps: *)
Theorem clean_steps_not_stranded : forall cfg1 cfg2 ds de f out1 out12,
  good_delims ds de -> good_doc ds de (doc_of f) -> bodies_ok (doc_of f) -> Forall ast_ok f ->
  no_unwrap f ->
  (forall el, status cfg1 el = Some true -> status cfg2 el = Some true) ->
  clean cfg1 ds de (render ds de (doc_of f)) = Ok out1 ->
  clean cfg2 ds de out1 = Ok out12 ->
  (exists f12, out12 = render ds de (doc_of f12) /\ Forall ast_ok f12 /\
     forall b1 b2 o c, In (b1, b2, o, c) (ast_nodes 0 f12) ->
       In (b1, b2) (map node_bodies (ast_nodes 0 f)) /\ status cfg2 (el_of b1) <> Some true) /\
  clean cfg2 ds de out12 = Ok out12.
Proof.
  intros cfg1 cfg2 ds de f out1 out12 Hgd Hdoc Hbod Hok Hnu Hle H1 H12.
  apply (clean_chain_not_stranded [cfg2] cfg1 ds de f out12 Hgd Hdoc Hbod Hok Hnu).
  - split; [exact Hle | exact I].
  - apply (chain_two cfg1 cfg2 ds de _ out1 out12 H1 H12).
Qed.

(* ------------------------------------------------------------------------- *)
(** * Part 6: readiness grows with the time and with the target set *)

Lemma marker_targets_monotone t1 t2 el : (forall v, In v t1 -> In v t2) ->
  marker_is_removal t1 el = true -> marker_is_removal t2 el = true.
Proof.
  intros H M. apply marker_ready_iff in M. destruct M as (v & E & Hin).
  apply marker_ready_iff. exists v. split; [exact E | apply H; exact Hin].
Qed.

(** The general statement: same tag names and offset, a later time, more targets. *)
Theorem status_grows cfg cfg2 el :
  tl_tag cfg2 = tl_tag cfg -> tl_offset cfg2 = tl_offset cfg -> rm_tag cfg2 = rm_tag cfg ->
  (now cfg <= now cfg2)%Z -> (forall v, In v (targets cfg) -> In v (targets cfg2)) ->
  status cfg el = Some true -> status cfg2 el = Some true.
Proof.
  intros E1 E2 E3 Hn Ht H. apply status_ready_iff in H. apply status_ready_iff.
  rewrite E1, E2, E3.
  destruct H as [Hs [[Hm Hr]|[Hm [Hl Hr]]]]; split; try assumption.
  - left. split; [exact Hm|]. apply (marker_targets_monotone _ _ el Ht Hr).
  - right. split; [exact Hm|]. split; [exact Hl|]. apply (time_monotone _ _ _ el Hn Hr).
Qed.

(** Readiness is monotone in the target set. *)
Theorem status_targets_monotone cfg t2 el : (forall v, In v (targets cfg) -> In v t2) ->
  status cfg el = Some true -> status (with_targets cfg t2) el = Some true.
Proof.
  intros Ht. apply status_grows; try reflexivity. exact Ht.
Qed.

(** Later times. *)
Corollary clean_composes_time : forall cfg now2 ds de f out1 out12 out2,
  good_delims ds de -> good_doc ds de (doc_of f) -> bodies_ok (doc_of f) -> Forall ast_ok f ->
  no_unwrap f -> (now cfg <= now2)%Z ->
  clean cfg ds de (render ds de (doc_of f)) = Ok out1 ->
  clean (with_now cfg now2) ds de out1 = Ok out12 ->
  clean (with_now cfg now2) ds de (render ds de (doc_of f)) = Ok out2 ->
  nonws out12 = nonws out2.
Proof.
  intros cfg now2 ds de f out1 out12 out2 Hgd Hdoc Hbod Hok Hnu Hle H1 H12 H2.
  apply (clean_composes_default cfg (with_now cfg now2) ds de f out1 out12 out2); try assumption.
  intros el. apply status_monotone. exact Hle.
Qed.

(** Growing target sets. *)
Corollary clean_composes_targets : forall cfg t2 ds de f out1 out12 out2,
  good_delims ds de -> good_doc ds de (doc_of f) -> bodies_ok (doc_of f) -> Forall ast_ok f ->
  no_unwrap f -> (forall v, In v (targets cfg) -> In v t2) ->
  clean cfg ds de (render ds de (doc_of f)) = Ok out1 ->
  clean (with_targets cfg t2) ds de out1 = Ok out12 ->
  clean (with_targets cfg t2) ds de (render ds de (doc_of f)) = Ok out2 ->
  nonws out12 = nonws out2.
Proof.
  intros cfg t2 ds de f out1 out12 out2 Hgd Hdoc Hbod Hok Hnu Hle H1 H12 H2.
  apply (clean_composes_default cfg (with_targets cfg t2) ds de f out1 out12 out2); try assumption.
  intros el. apply status_targets_monotone. exact Hle.
Qed.

(** A later time and more targets at once. *)
Corollary clean_composes_time_targets : forall cfg now2 t2 ds de f out1 out12 out2,
  good_delims ds de -> good_doc ds de (doc_of f) -> bodies_ok (doc_of f) -> Forall ast_ok f ->
  no_unwrap f -> (now cfg <= now2)%Z -> (forall v, In v (targets cfg) -> In v t2) ->
  clean cfg ds de (render ds de (doc_of f)) = Ok out1 ->
  clean (with_now (with_targets cfg t2) now2) ds de out1 = Ok out12 ->
  clean (with_now (with_targets cfg t2) now2) ds de (render ds de (doc_of f)) = Ok out2 ->
  nonws out12 = nonws out2.
Proof.
  intros cfg now2 t2 ds de f out1 out12 out2 Hgd Hdoc Hbod Hok Hnu Hle Ht H1 H12 H2.
  apply (clean_composes_default cfg (with_now (with_targets cfg t2) now2) ds de f out1 out12 out2);
    try assumption.
  intros el. apply status_grows; try reflexivity; [exact Hle | exact Ht].
Qed.

(** Chains of times: a list of increasing times. *)
Fixpoint times_grow (n : Z) (ns : list Z) : Prop :=
  match ns with [] => True | n' :: ns' => (n <= n')%Z /\ times_grow n' ns' end.

Lemma grows_times cfg : forall ns n, times_grow n ns ->
  grows (with_now cfg n) (map (with_now cfg) ns).
Proof.
  induction ns as [|n' ns IH]; intros n H; [exact I|]. destruct H as [H1 H2].
  cbn [map grows]. split; [|apply IH; exact H2].
  intros el. apply status_grows; try reflexivity; [exact H1|]. intros v Hv. exact Hv.
Qed.

Corollary clean_chain_composes_times : forall cfg n ns ds de f outn out,
  good_delims ds de -> good_doc ds de (doc_of f) -> bodies_ok (doc_of f) ->
  Forall ast_ok f -> no_unwrap f -> times_grow n ns ->
  clean_chain (map (with_now cfg) (n :: ns)) ds de (render ds de (doc_of f)) = Ok outn ->
  clean (with_now cfg (last ns n)) ds de (render ds de (doc_of f)) = Ok out ->
  nonws outn = nonws out.
Proof.
  intros cfg n ns ds de f outn out Hgd Hdoc Hbod Hok Hnu Hg H1 H2.
  apply (clean_chain_composes (map (with_now cfg) ns) (with_now cfg n) ds de f outn out);
    try assumption.
  - apply grows_times. exact Hg.
  - rewrite last_map. exact H2.
Qed.

(* ------------------------------------------------------------------------- *)
(** * Part 7: instances *)

(** The configuration [ac_cfg] of [Proofs.AstCollect] (time-limited tag "tl", now = 1000000000 =
    2001-09-09) and the same configuration at the later time 1300000000 = 2011-03-13; the
    delimiters "<!" and ">".

      a
      <!tl to='2010-01-01 00:00:00'>            (ready only at the later time)
        p
        <!tl to='2000-01-01 00:00:00'>q<!/tl>   (ready at both times)
        r
      <!/tl>
      <!tl to='2030-01-01 00:00:00'>k<!/tl>     (pending at both times)
      c                                                                            *)
Definition b_tl_2010 : str :=
  [116;108;32;116;111;61;39;50;48;49;48;45;48;49;45;48;49;32;48;48;58;48;48;58;48;48;39]%N.

Definition cc_cfg1 : config := ac_cfg.
Definition cc_cfg2 : config := with_now ac_cfg 1300000000%Z.

Definition cc_ast : list ast :=
  [ AT [97; 10]%N;
    AE b_tl_2010 b_tl_close
       [ AT [10; 32; 32; 112; 10; 32; 32]%N;
         AE b_tl_ready b_tl_close [ AT [113%N] ];
         AT [10; 32; 32; 114; 10]%N ];
    AT [10]%N;
    AE b_tl_pending b_tl_close [ AT [107%N] ];
    AT [10; 99]%N ].

Definition cc_src : str := render id_ds id_de (doc_of cc_ast).

(** After the first run: the line of the inner element is gone. *)
Definition cc_out1 : str :=
  ([97; 10; 60; 33] ++ b_tl_2010 ++ [62; 10; 32; 32; 112; 10; 32; 32; 114; 10; 60; 33; 47; 116; 108; 62;
   10; 60; 33] ++ b_tl_pending ++ [62; 107; 60; 33; 47; 116; 108; 62; 10; 99])%N.

(** After the second run, and after the single run at the later time: "a\n<!tl ..2030..>k<!/tl>\nc". *)
Definition cc_out2 : str :=
  ([97; 10; 60; 33] ++ b_tl_pending ++ [62; 107; 60; 33; 47; 116; 108; 62; 10; 99])%N.

Example cc_ok : Forall ast_ok cc_ast.
Proof.
  apply Forall_forall. intros a Ha. apply ast_okb_sound.
  assert (forallb ast_okb cc_ast = true) as H by (vm_compute; reflexivity).
  rewrite forallb_forall in H. apply H. exact Ha.
Qed.

Example cc_no_unwrap : no_unwrap cc_ast.
Proof.
  assert (forallb (fun n : node => negb (has_attr S_UNWRAP (el_attrs (el_of (node_b1 n)))))
                  (ast_nodes 0 cc_ast) = true) as H by (vm_compute; reflexivity).
  rewrite forallb_forall in H. intros n Hn. apply negb_true_iff. apply H. exact Hn.
Qed.

(** The nodes: the item index of the opening tag, ready at the first time, ready at the second. *)
Example cc_nodes :
  map (fun n : node => (node_open n, readyb cc_cfg1 n, readyb cc_cfg2 n)) (ast_nodes 0 cc_ast) =
  [ (1, false, true); (3, true, true); (9, false, false) ].
Proof. vm_compute. reflexivity. Qed.

Example cc_good : good_doc id_ds id_de (doc_of cc_ast) /\ bodies_ok (doc_of cc_ast).
Proof.
  split.
  - apply doc_checkb_ok; [cbn; repeat split; discriminate | vm_compute; reflexivity].
  - intros b Hin. cbn in Hin.
    repeat (destruct Hin as [E|Hin]; [try discriminate E; inversion E; subst; cbn; lia|]).
    destruct Hin.
Qed.

Example cc_grows : forall el, status cc_cfg1 el = Some true -> status cc_cfg2 el = Some true.
Proof. intros el. apply status_monotone. vm_compute. discriminate. Qed.

(** The three runs, computed. *)
Example cc_first : clean cc_cfg1 id_ds id_de cc_src = Ok cc_out1.
Proof. vm_compute. reflexivity. Qed.

Example cc_second : clean cc_cfg2 id_ds id_de cc_out1 = Ok cc_out2.
Proof. vm_compute. reflexivity. Qed.

Example cc_direct : clean cc_cfg2 id_ds id_de cc_src = Ok cc_out2.
Proof. vm_compute. reflexivity. Qed.

(** Here the two outputs are even equal; by the theorem they agree up to whitespace ... *)
Example cc_composes : nonws cc_out2 = nonws cc_out2.
Proof.
  apply (clean_composes_default cc_cfg1 cc_cfg2 id_ds id_de cc_ast cc_out1 cc_out2 cc_out2
           id_delims (proj1 cc_good) (proj2 cc_good) cc_ok cc_no_unwrap cc_grows
           cc_first cc_second cc_direct).
Qed.

(** ... and the step-by-step output is a fixed point whose only element is the pending one. *)
Example cc_not_stranded :
  (exists f12, cc_out2 = render id_ds id_de (doc_of f12) /\ Forall ast_ok f12 /\
     forall b1 b2 o c, In (b1, b2, o, c) (ast_nodes 0 f12) ->
       In (b1, b2) (map node_bodies (ast_nodes 0 cc_ast)) /\ status cc_cfg2 (el_of b1) <> Some true) /\
  clean cc_cfg2 id_ds id_de cc_out2 = Ok cc_out2.
Proof.
  apply (clean_steps_not_stranded cc_cfg1 cc_cfg2 id_ds id_de cc_ast cc_out1 cc_out2
           id_delims (proj1 cc_good) (proj2 cc_good) cc_ok cc_no_unwrap cc_grows
           cc_first cc_second).
Qed.

(** "Up to whitespace" cannot be dropped.  Two siblings on lines of their own, the first ready at
    both times, the second only at the later time:

      a
      <!tl to='2000-01-01 00:00:00'>x<!/tl>
      <!tl to='2010-01-01 00:00:00'>y<!/tl>
      c

    Step by step every run removes the line of its element: "a\nc".  The single run at the later
    time leaves an empty line: "a\n\nc". *)
Definition cs_ast : list ast :=
  [ AT [97; 10]%N; AE b_tl_ready b_tl_close [ AT [120%N] ]; AT [10]%N;
    AE b_tl_2010 b_tl_close [ AT [121%N] ]; AT [10; 99]%N ].
Definition cs_src : str := render id_ds id_de (doc_of cs_ast).
Definition cs_out1 : str :=
  ([97; 10; 60; 33] ++ b_tl_2010 ++ [62; 121; 60; 33; 47; 116; 108; 62; 10; 99])%N.
Definition cs_out12 : str := [97; 10; 99]%N.
Definition cs_out2 : str := [97; 10; 10; 99]%N.

Example cs_ok : Forall ast_ok cs_ast.
Proof.
  apply Forall_forall. intros a Ha. apply ast_okb_sound.
  assert (forallb ast_okb cs_ast = true) as H by (vm_compute; reflexivity).
  rewrite forallb_forall in H. apply H. exact Ha.
Qed.

Example cs_no_unwrap : no_unwrap cs_ast.
Proof.
  assert (forallb (fun n : node => negb (has_attr S_UNWRAP (el_attrs (el_of (node_b1 n)))))
                  (ast_nodes 0 cs_ast) = true) as H by (vm_compute; reflexivity).
  rewrite forallb_forall in H. intros n Hn. apply negb_true_iff. apply H. exact Hn.
Qed.

Example cs_good : good_doc id_ds id_de (doc_of cs_ast) /\ bodies_ok (doc_of cs_ast).
Proof.
  split.
  - apply doc_checkb_ok; [cbn; repeat split; discriminate | vm_compute; reflexivity].
  - intros b Hin. cbn in Hin.
    repeat (destruct Hin as [E|Hin]; [try discriminate E; inversion E; subst; cbn; lia|]).
    destruct Hin.
Qed.

Example cs_first : clean cc_cfg1 id_ds id_de cs_src = Ok cs_out1.
Proof. vm_compute. reflexivity. Qed.

Example cs_second : clean cc_cfg2 id_ds id_de cs_out1 = Ok cs_out12.
Proof. vm_compute. reflexivity. Qed.

Example cs_direct : clean cc_cfg2 id_ds id_de cs_src = Ok cs_out2.
Proof. vm_compute. reflexivity. Qed.

Example cs_differ : cs_out12 <> cs_out2.
Proof. discriminate. Qed.

Example cs_composes : nonws cs_out12 = nonws cs_out2.
Proof.
  apply (clean_composes_default cc_cfg1 cc_cfg2 id_ds id_de cs_ast cs_out1 cs_out12 cs_out2
           id_delims (proj1 cs_good) (proj2 cs_good) cs_ok cs_no_unwrap cc_grows
           cs_first cs_second cs_direct).
Qed.

Example cs_composes_computed : nonws cs_out12 = [97; 99]%N /\ nonws cs_out2 = [97; 99]%N.
Proof. split; vm_compute; reflexivity. Qed.

(** A chain of three times (2001, 2005, 2011) on the first instance. *)
Example cc_chain :
  clean_chain (map (with_now ac_cfg) [1000000000; 1100000000; 1300000000]%Z) id_ds id_de cc_src
  = Ok cc_out2.
Proof. vm_compute. reflexivity. Qed.

Example cc_chain_composes : nonws cc_out2 = nonws cc_out2.
Proof.
  apply (clean_chain_composes_times ac_cfg 1000000000%Z [1100000000; 1300000000]%Z id_ds id_de
           cc_ast cc_out2 cc_out2 id_delims (proj1 cc_good) (proj2 cc_good) cc_ok cc_no_unwrap).
  - cbn [times_grow]. repeat split; discriminate.
  - exact cc_chain.
  - exact cc_direct.
Qed.

(** Growing target sets: the removal marker "rm" with the targets ["f"], then ["f"; "g"], on the
    instance of [Proofs.Idempotent] (an element named "f" inside an element named "g"). *)
Definition ct_cfg2 : config := with_targets ac_cfg [[102]%N; [103]%N].

Example ct_grows : forall el, status ac_cfg el = Some true -> status ct_cfg2 el = Some true.
Proof.
  intros el. apply status_targets_monotone. intros v Hv. cbn in Hv. destruct Hv as [<-|[]].
  left. reflexivity.
Qed.

Example ct_second : clean ct_cfg2 id_ds id_de id_out = Ok [97; 10; 99]%N.
Proof. vm_compute. reflexivity. Qed.

Example ct_direct :
  clean ct_cfg2 id_ds id_de (render id_ds id_de (doc_of id_ast)) = Ok [97; 10; 99]%N.
Proof. vm_compute. reflexivity. Qed.

Example ct_composes : nonws [97; 10; 99]%N = nonws [97; 10; 99]%N.
Proof.
  apply (clean_composes_default ac_cfg ct_cfg2 id_ds id_de id_ast id_out _ _
           id_delims (proj1 id_good) (proj2 id_good) id_ok id_no_unwrap ct_grows
           id_first ct_second ct_direct).
Qed.

Print Assumptions nonws_render.
Print Assumptions tags_of_dsk.
Print Assumptions sks_none.
Print Assumptions sks_norm.
Print Assumptions sks_mask.
Print Assumptions clean_run_mask'.
Print Assumptions run_mask_moks.
Print Assumptions clean_run_ast.
Print Assumptions clean_nonws_ast.
Print Assumptions clean_chain_ast.
Print Assumptions clean_chain_skeleton.
Print Assumptions clean_chain_composes.
Print Assumptions clean_composes_skeleton.
Print Assumptions clean_composes_default.
Print Assumptions clean_chain_not_stranded.
Print Assumptions clean_steps_not_stranded.
Print Assumptions status_grows.
Print Assumptions status_targets_monotone.
Print Assumptions clean_composes_time.
Print Assumptions clean_composes_targets.
Print Assumptions clean_composes_time_targets.
Print Assumptions clean_chain_composes_times.
Print Assumptions cc_first.
Print Assumptions cc_second.
Print Assumptions cc_direct.
Print Assumptions cc_composes.
Print Assumptions cc_not_stranded.
Print Assumptions cs_differ.
Print Assumptions cs_composes.
Print Assumptions cc_chain_composes.
Print Assumptions ct_composes.
