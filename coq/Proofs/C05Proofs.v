(** C05: the expiry decision (part 1: decision shape, malformed input, monotonicity). *)
From Coq Require Import List NArith ZArith Arith Bool Lia.
Import ListNotations.
From Chiri Require Import Base.Bytes Base.Res Model.Tokenizer Model.TagParser
     Model.Chrono Model.Markers Proofs.BytesLemmas Proofs.C06Proofs.
Local Open Scope Z_scope.

(** Ready exactly when the first `to` attribute has a value that parses (with the offset) to an
    instant at or before the current one; equality counts as expired. *)
Theorem time_ready_iff offset now el :
  time_is_removal offset now el = true <->
  exists v expires,
    find_attr S_TO (el_attrs el) = Some (S_TO, Some v) /\
    parse_datetime (v ++ [SP] ++ offset) = Some expires /\ expires <= now.
Proof.
  unfold time_is_removal. split.
  - destruct (find_attr S_TO (el_attrs el)) as [[a [v|]]|] eqn:E; try discriminate.
    pose proof (find_attr_some _ _ _ _ E) as [-> _].
    destruct (parse_datetime (v ++ [SP] ++ offset)) as [expires|] eqn:P; try discriminate.
    intros H. exists v, expires. split; [reflexivity|]. split; [exact P|].
    apply negb_true_iff in H. apply Z.ltb_ge in H. exact H.
  - intros [v [expires [E [P H]]]]. rewrite E, P. apply negb_true_iff. apply Z.ltb_ge. exact H.
Qed.

Lemma time_missing_to offset now el :
  find_attr S_TO (el_attrs el) = None -> time_is_removal offset now el = false.
Proof. intros E. unfold time_is_removal. rewrite E. reflexivity. Qed.

Lemma time_valueless_to offset now el a :
  find_attr S_TO (el_attrs el) = Some (a, None) -> time_is_removal offset now el = false.
Proof. intros E. unfold time_is_removal. rewrite E. reflexivity. Qed.

Lemma time_unparseable offset now el a v :
  find_attr S_TO (el_attrs el) = Some (a, Some v) ->
  parse_datetime (v ++ [SP] ++ offset) = None -> time_is_removal offset now el = false.
Proof. intros E P. unfold time_is_removal. rewrite E, P. reflexivity. Qed.

(** The set of ready elements only grows as the current time advances. *)
Theorem time_monotone offset now1 now2 el :
  now1 <= now2 -> time_is_removal offset now1 el = true -> time_is_removal offset now2 el = true.
Proof.
  intros Hle H. apply time_ready_iff in H. destruct H as [v [e [E [P Hn]]]].
  apply time_ready_iff. exists v, e. repeat split; try assumption. lia.
Qed.

Definition with_now (cfg : config) (n : Z) : config :=
  mkConfig (tl_tag cfg) (tl_offset cfg) n (rm_tag cfg) (targets cfg).

Theorem status_monotone cfg now2 el :
  now cfg <= now2 -> status cfg el = Some true -> status (with_now cfg now2) el = Some true.
Proof.
  intros Hle H. apply status_ready_iff in H. apply status_ready_iff. simpl.
  destruct H as [Hs [[Hn Hm]|[Hn [Ht Hr]]]]; split; try assumption.
  - left. split; assumption.
  - right. repeat split; try assumption. eapply time_monotone; eauto.
Qed.
