(** C18, stage 4: listing line ranges on a rendering.  The markers computed by [list] and
    [list_all] on [render ds de doc] are the images, under the position map of the spelling, of
    abstract markers that depend on the configuration and the document only; the line numbers of
    a rendered range depend on the symbol indices only.  Hence the line ranges and the statuses of
    the list items do not depend on the spelling of the delimiters. *)
From Coq Require Import List NArith ZArith Arith Bool Lia PeanoNat.
Import ListNotations.
From Chiri Require Import Base.Bytes Base.Res Model.Tokenizer Model.TagParser Model.TreeParser
     Model.Finders Model.Markers Model.Format Model.Clean Model.ListRender
     Spec.Ranges Spec.Forest Spec.Rename Spec.Simulation
     Proofs.ResLemmas Proofs.Utf8 Proofs.MarkerProofs Proofs.RangeProofs Proofs.CollectProofs
     Proofs.FormatterProofs Proofs.FormatAssembly Proofs.CleanProofs
     Proofs.C15Proofs Proofs.ListProofs Proofs.MergeAllProofs Proofs.ListTotal Proofs.ListAllProofs
     Proofs.RenameProofs Proofs.SimFlat Proofs.SimStrings Proofs.SimFront Proofs.MonoMap
     Proofs.SimClean.

(* ------------------------------------------------------------------------- *)
(** * 1. [take_pending] and [merge_all] commute with strictly monotone position maps *)

(** The image of a listed marker (a marker with its status). *)
Definition map_mb (f : nat -> nat) (x : marker * bool) : marker * bool := (map_marker f (fst x), snd x).

Definition mb_le (n : nat) (x : marker * bool) : Prop := marker_le n (fst x).

Lemma take_pending_mono f n r : mono_on f n -> range_le n r -> forall pend before after,
  Forall (marker_le n) pend ->
  take_pending (map_range f r) (map (map_marker f) pend) (map (map_mb f) before) (map (map_mb f) after) =
  (map (map_mb f) (fst (fst (take_pending r pend before after))),
   map (map_mb f) (snd (fst (take_pending r pend before after))),
   map (map_marker f) (snd (take_pending r pend before after))).
Proof.
  intros Hf Hr. induction pend as [|[p pidx] rest IH]; intros before after Hp; [reflexivity|].
  inversion Hp as [|x l Hp0 Hrest]; subst. destruct Hp0 as [Hp1 Hp2]. cbn [fst] in Hp1, Hp2.
  destruct Hr as [Hr1 Hr2].
  cbn [map]. change (map_marker f (p, pidx)) with (map_range f p, pidx). cbn [take_pending].
  rewrite !fst_map_range, !snd_map_range.
  rewrite (mono_leb f n (snd r) (fst p) Hf Hr2 Hp1).
  destruct (snd r <=? fst p); [reflexivity|].
  rewrite (contains_mono f n r (fst p) Hf (conj Hr1 Hr2) Hp1).
  rewrite (contains_mono f n r (snd p) Hf (conj Hr1 Hr2) Hp2).
  rewrite (mono_ltb f n (fst p) (fst r) Hf Hp1 Hr1).
  destruct (contains r (fst p) && contains r (snd p)); [apply IH; exact Hrest|].
  destruct (fst p <? fst r).
  - change (map (map_mb f) before ++ [((map_range f p, pidx), false)])
      with (map (map_mb f) before ++ map (map_mb f) [((p, pidx), false)]).
    rewrite <- map_app. apply IH. exact Hrest.
  - change (map (map_mb f) after ++ [((map_range f p, pidx), false)])
      with (map (map_mb f) after ++ map (map_mb f) [((p, pidx), false)]).
    rewrite <- map_app. apply IH. exact Hrest.
Qed.

(** What [take_pending] returns is made of what it was given. *)
Lemma take_pending_forall (Q : marker -> Prop) r : forall pend before after,
  Forall Q pend -> Forall (fun x => Q (fst x)) before -> Forall (fun x => Q (fst x)) after ->
  Forall (fun x => Q (fst x)) (fst (fst (take_pending r pend before after))) /\
  Forall (fun x => Q (fst x)) (snd (fst (take_pending r pend before after))) /\
  Forall Q (snd (take_pending r pend before after)).
Proof.
  induction pend as [|[p pidx] rest IH]; intros before after Hp Hb Ha.
  - cbn [take_pending fst snd]. repeat split; assumption || constructor.
  - inversion Hp as [|x l Hp0 Hrest]; subst. cbn [take_pending].
    destruct (snd r <=? fst p); [cbn [fst snd]; repeat split; assumption|].
    destruct (contains r (fst p) && contains r (snd p)); [apply IH; assumption|].
    destruct (fst p <? fst r); apply IH; try assumption;
      (apply Forall_app; split; [assumption | constructor; [exact Hp0 | constructor]]).
Qed.

Theorem merge_all_mono f n : mono_on f n -> forall ranges pend merged,
  Forall (marker_le n) ranges -> Forall (marker_le n) pend ->
  merge_all (map (map_marker f) ranges) (map (map_marker f) pend) (map (map_mb f) merged) =
  map (map_mb f) (merge_all ranges pend merged).
Proof.
  intros Hf. induction ranges as [|[r idx] rest IH]; intros pend merged Hr Hp.
  - cbn [map merge_all]. rewrite map_app, !map_map. reflexivity.
  - inversion Hr as [|x l Hr0 Hrest]; subst.
    cbn [map]. change (map_marker f (r, idx)) with (map_range f r, idx). cbn [merge_all].
    pose proof (take_pending_mono f n r Hf Hr0 pend [] [] Hp) as E. cbn [map] in E. rewrite E.
    destruct (take_pending_forall (marker_le n) r pend [] [] Hp (Forall_nil _) (Forall_nil _))
      as (_ & _ & Hp').
    destruct (take_pending r pend [] []) as [[b a] p']. cbn [fst snd] in *.
    change [((map_range f r, idx), true)] with (map (map_mb f) [((r, idx), true)]).
    rewrite <- !map_app. apply IH; assumption.
Qed.

(** The statement in the requested form (the bound on [merged] is not needed). *)
Corollary merge_all_mono' f n ranges pend merged : mono_on f n ->
  Forall (marker_le n) ranges -> Forall (marker_le n) pend -> Forall (mb_le n) merged ->
  merge_all (map (map_marker f) ranges) (map (map_marker f) pend)
            (map (fun x => (map_marker f (fst x), snd x)) merged) =
  map (fun x => (map_marker f (fst x), snd x)) (merge_all ranges pend merged).
Proof. intros Hf Hr Hp _. apply (merge_all_mono f n Hf); assumption. Qed.

Theorem merge_all_forall (Q : marker -> Prop) : forall ranges pend merged,
  Forall Q ranges -> Forall Q pend -> Forall (fun x => Q (fst x)) merged ->
  Forall (fun x => Q (fst x)) (merge_all ranges pend merged).
Proof.
  induction ranges as [|[r idx] rest IH]; intros pend merged Hr Hp Hm.
  - cbn [merge_all]. apply Forall_app. split; [exact Hm|].
    apply Forall_forall. intros x Hx. apply in_map_iff in Hx. destruct Hx as (v & <- & Hv).
    cbn [fst]. rewrite Forall_forall in Hp. apply Hp. exact Hv.
  - inversion Hr as [|x l Hr0 Hrest]; subst. cbn [merge_all].
    destruct (take_pending_forall Q r pend [] [] Hp (Forall_nil _) (Forall_nil _))
      as (Hb & Ha & Hp').
    destruct (take_pending r pend [] []) as [[b a] p']. cbn [fst snd] in *.
    apply IH; [exact Hrest | exact Hp' |].
    apply Forall_app. split; [exact Hm|]. apply Forall_app. split; [exact Hb|].
    apply Forall_app. split; [|exact Ha]. constructor; [exact Hr0 | constructor].
Qed.

(* ------------------------------------------------------------------------- *)
(** * 2. The markers of a rendering *)

(** The abstract markers: functions of the configuration and the document only. *)
Definition a_markers (cfg : config) (doc : list item) : res (list marker) :=
  merge_markers (fst (a_collect cfg doc false)).

Definition a_markers_all (cfg : config) (doc : list item) : res (list (marker * bool)) :=
  r <- merge_markers (fst (a_collect cfg doc true)) ;;
  p <- merge_markers (snd (a_collect cfg doc true)) ;;
  Ok (merge_all r p []).

(** Mirror of [list_markers]. *)
Definition a_list_markers (cfg : config) (doc : list item) : res (list (marker * bool)) :=
  ms <- a_markers cfg doc ;; Ok (map (fun v => (v, true)) ms).

Lemma a_forest_le cfg doc pending :
  Forall (rtree_le (length (flat doc))) (fst (a_collect cfg doc pending)) /\
  Forall (rtree_le (length (flat doc))) (snd (a_collect cfg doc pending)).
Proof.
  split; apply forest_positions_le; apply (a_collect_bound cfg doc pending).
Qed.

Theorem markers_rendered : forall cfg ds de doc,
  good_delims ds de -> good_doc ds de doc -> bodies_ok doc ->
  markers_of cfg ds de (render ds de doc) =
  match a_markers cfg doc with
  | Ok ms => Ok (map (map_marker (pos ds de (flat doc))) ms)
  | Panic => Panic
  end.
Proof.
  intros cfg ds de doc Hgd Hdoc Hbod.
  destruct (good_delims_ne ds de Hgd) as [Nds Nde].
  destruct (collect_rendered cfg ds de doc false Hgd Hdoc Hbod) as (parts & Hf & Ec & _).
  unfold markers_of. rewrite Hf. cbn [bind]. unfold build_remove_marker. rewrite Ec.
  apply (merge_markers_mono _ (length (flat doc))).
  - apply pos_mono_on; assumption.
  - apply (a_forest_le cfg doc false).
Qed.

Theorem markers_all_rendered : forall cfg ds de doc,
  good_delims ds de -> good_doc ds de doc -> bodies_ok doc ->
  markers_all_of cfg ds de (render ds de doc) =
  match a_markers_all cfg doc with
  | Ok xs => Ok (map (map_mb (pos ds de (flat doc))) xs)
  | Panic => Panic
  end.
Proof.
  intros cfg ds de doc Hgd Hdoc Hbod.
  destruct (good_delims_ne ds de Hgd) as [Nds Nde].
  pose proof (pos_mono_on ds de (flat doc) Nds Nde) as Hmono.
  destruct (a_forest_le cfg doc true) as [HF1 HF2].
  destruct (collect_rendered cfg ds de doc true Hgd Hdoc Hbod) as (parts & Hf & Ec1 & Ec2).
  unfold markers_all_of. rewrite Hf. cbn [bind]. unfold build_remove_marker_all.
  destruct (collect cfg (render ds de doc) true parts) as [rg rp]. cbn [fst snd] in Ec1, Ec2.
  subst rg rp.
  rewrite (merge_markers_mono _ _ _ Hmono HF1), (merge_markers_mono _ _ _ Hmono HF2).
  unfold a_markers_all.
  destruct (merge_markers (fst (a_collect cfg doc true))) as [r|] eqn:Er; cbn [bind]; [|reflexivity].
  destruct (merge_markers (snd (a_collect cfg doc true))) as [p|] eqn:Ep; cbn [bind]; [|reflexivity].
  f_equal.
  apply (merge_all_mono _ _ Hmono r p []).
  - apply (merge_markers_le _ _ _ HF1 Er).
  - apply (merge_markers_le _ _ _ HF2 Ep).
Qed.

Theorem list_markers_rendered : forall cfg ds de doc,
  good_delims ds de -> good_doc ds de doc -> bodies_ok doc ->
  list_markers cfg ds de (render ds de doc) =
  match a_list_markers cfg doc with
  | Ok xs => Ok (map (map_mb (pos ds de (flat doc))) xs)
  | Panic => Panic
  end.
Proof.
  intros cfg ds de doc Hgd Hdoc Hbod. unfold list_markers, a_list_markers.
  rewrite (markers_rendered cfg ds de doc Hgd Hdoc Hbod).
  destruct (a_markers cfg doc) as [ms|]; cbn [bind]; [|reflexivity].
  rewrite !map_map. reflexivity.
Qed.

(** A listed range that can be shown: non-empty and within the symbol list. *)
Definition mb_good (n : nat) (x : marker * bool) : Prop :=
  fst (fst (fst x)) < snd (fst (fst x)) /\ snd (fst (fst x)) <= n.

(** Non-emptiness is reflected by a strictly monotone map. *)
Lemma regions_good f n s xs : mono_on f n -> Forall (mb_le n) xs ->
  regions_ok s (map (map_mb f) xs) -> Forall (mb_good n) xs.
Proof.
  intros Hf Hle Hok. rewrite Forall_forall in *. intros [[r p] st] Hin.
  pose proof (Hle _ Hin) as [H1 H2]. cbn [fst] in H1, H2.
  destruct (Hok (map_range f r) p st) as (Hlt & _).
  { apply in_map_iff. exists ((r, p), st). split; [reflexivity | exact Hin]. }
  rewrite fst_map_range, snd_map_range in Hlt.
  split; cbn [fst]; [|exact H2].
  apply (mono_lt_iff f n (fst r) (snd r) Hf H1 H2). exact Hlt.
Qed.

(** The abstract markers exist, are bounded and non-empty, and their images are the regions of a
    total run of the list builders. *)
Theorem a_list_markers_ok : forall cfg ds de doc,
  good_delims ds de -> good_doc ds de doc -> bodies_ok doc ->
  exists ams, a_markers cfg doc = Ok ams /\
    a_list_markers cfg doc = Ok (map (fun v => (v, true)) ams) /\
    Forall (marker_le (length (flat doc))) ams /\
    Forall (mb_good (length (flat doc))) (map (fun v => (v, true)) ams) /\
    regions_ok (render ds de doc)
               (map (map_mb (pos ds de (flat doc))) (map (fun v => (v, true)) ams)).
Proof.
  intros cfg ds de doc Hgd Hdoc Hbod.
  destruct (good_delims_ne ds de Hgd) as [Nds Nde].
  pose proof Hgd as (_ & _ & Wds & Wde & _).
  pose proof (render_wf ds de doc Hgd Hdoc) as Hs.
  pose proof (pos_mono_on ds de (flat doc) Nds Nde) as Hmono.
  destruct (collect_rendered cfg ds de doc false Hgd Hdoc Hbod) as (parts & Hf & _ & _).
  destruct (markers_spec cfg ds de _ parts Hs Wds Wde Nds Nde Hf)
    as (ms & Em & Hsnf & Hbd & Hob & _ & _).
  rewrite (markers_rendered cfg ds de doc Hgd Hdoc Hbod) in Em.
  destruct (a_markers cfg doc) as [ams|] eqn:Ea; [|discriminate Em].
  inversion Em as [Ems]. clear Em.
  assert (Forall (marker_le (length (flat doc))) ams) as Hle.
  { apply (merge_markers_le _ (fst (a_collect cfg doc false)));
      [apply (a_forest_le cfg doc false) | exact Ea]. }
  assert (regions_ok (render ds de doc)
            (map (map_mb (pos ds de (flat doc))) (map (fun v : marker => (v, true)) ams))) as Hok.
  { intros r p st Hin. rewrite map_map in Hin. apply in_map_iff in Hin.
    destruct Hin as (m & Em' & Hm). unfold map_mb in Em'. cbn [fst snd] in Em'.
    inversion Em' as [[E1 E2]]. subst st.
    assert (Hr : In r (map fst ms)).
    { rewrite <- Ems. apply in_map_iff. exists (map_marker (pos ds de (flat doc)) m).
      split; [exact E1 | apply in_map; exact Hm]. }
    destruct (Hob r Hr) as [B1 B2]. rewrite E1.
    split; [exact (snf_In_lt _ _ _ Hsnf Hr)|]. split; [exact (Hbd r Hr)|]. split; assumption. }
  exists ams. split; [reflexivity|]. split; [unfold a_list_markers; rewrite Ea; reflexivity|].
  split; [exact Hle|]. split; [|exact Hok].
  apply (regions_good _ _ (render ds de doc) _ Hmono); [|exact Hok].
  apply Forall_forall. intros x Hx. apply in_map_iff in Hx. destruct Hx as (m & <- & Hm).
  unfold mb_le. cbn [fst]. rewrite Forall_forall in Hle. apply Hle. exact Hm.
Qed.

Theorem a_markers_all_ok : forall cfg ds de doc,
  good_delims ds de -> good_doc ds de doc -> bodies_ok doc ->
  exists axs, a_markers_all cfg doc = Ok axs /\
    Forall (mb_le (length (flat doc))) axs /\
    Forall (mb_good (length (flat doc))) axs /\
    regions_ok (render ds de doc) (map (map_mb (pos ds de (flat doc))) axs).
Proof.
  intros cfg ds de doc Hgd Hdoc Hbod.
  destruct (good_delims_ne ds de Hgd) as [Nds Nde].
  pose proof Hgd as (_ & _ & Wds & Wde & _).
  pose proof (render_wf ds de doc Hgd Hdoc) as Hs.
  pose proof (pos_mono_on ds de (flat doc) Nds Nde) as Hmono.
  destruct (a_forest_le cfg doc true) as [HF1 HF2].
  destruct (collect_rendered cfg ds de doc true Hgd Hdoc Hbod) as (parts & Hf & _ & _).
  destruct (markers_all_spec cfg ds de _ parts Hs Wds Wde Nds Nde Hf)
    as (ready & pend & _ & _ & _ & Ea & _ & _ & _ & Hoka).
  rewrite (markers_all_rendered cfg ds de doc Hgd Hdoc Hbod) in Ea.
  destruct (a_markers_all cfg doc) as [axs|] eqn:Eax; [|discriminate Ea].
  inversion Ea as [Exs]. clear Ea. rewrite <- Exs in Hoka.
  assert (Forall (mb_le (length (flat doc))) axs) as Hle.
  { unfold a_markers_all in Eax.
    destruct (merge_markers (fst (a_collect cfg doc true))) as [r|] eqn:Er; cbn [bind] in Eax;
      [|discriminate Eax].
    destruct (merge_markers (snd (a_collect cfg doc true))) as [p|] eqn:Ep; cbn [bind] in Eax;
      [|discriminate Eax].
    inversion Eax; subst axs.
    apply (merge_all_forall (marker_le (length (flat doc))) r p []).
    - apply (merge_markers_le _ _ _ HF1 Er).
    - apply (merge_markers_le _ _ _ HF2 Ep).
    - constructor. }
  exists axs. split; [reflexivity|]. split; [exact Hle|]. split; [|exact Hoka].
  apply (regions_good _ _ (render ds de doc) _ Hmono Hle Hoka).
Qed.

(** The bounds in the requested form: every position of an abstract marker is a symbol index. *)
Corollary a_markers_le cfg ds de doc ams :
  good_delims ds de -> good_doc ds de doc -> bodies_ok doc ->
  a_markers cfg doc = Ok ams ->
  forall m, In m ams -> fst (fst m) <= length (flat doc) /\ snd (fst m) <= length (flat doc).
Proof.
  intros Hgd Hdoc Hbod Ea m Hm.
  destruct (a_list_markers_ok cfg ds de doc Hgd Hdoc Hbod) as (ams' & Ea' & _ & Hle & _).
  rewrite Ea in Ea'. inversion Ea'; subst ams'.
  rewrite Forall_forall in Hle. apply (Hle m Hm).
Qed.

Corollary a_markers_all_le cfg ds de doc axs :
  good_delims ds de -> good_doc ds de doc -> bodies_ok doc ->
  a_markers_all cfg doc = Ok axs ->
  forall x, In x axs ->
    fst (fst (fst x)) <= length (flat doc) /\ snd (fst (fst x)) <= length (flat doc).
Proof.
  intros Hgd Hdoc Hbod Ea x Hx.
  destruct (a_markers_all_ok cfg ds de doc Hgd Hdoc Hbod) as (axs' & Ea' & Hle & _).
  rewrite Ea in Ea'. inversion Ea'; subst axs'.
  rewrite Forall_forall in Hle. apply (Hle x Hx).
Qed.

(* ------------------------------------------------------------------------- *)
(** * 3. Line numbers do not depend on the spelling *)

Definition is_bnl (x : sym) : bool := match x with B c => beq c NL | _ => false end.

(** The number of line-break symbols of a symbol list. *)
Definition a_count_nl (l : list sym) : nat := length (filter is_bnl l).

(** One plus the number of line-break symbols among the first [j] symbols. *)
Definition a_line (l : list sym) (j : nat) : nat := 1 + a_count_nl (firstn j l).

Lemma a_count_nl_app x y : a_count_nl (x ++ y) = a_count_nl x + a_count_nl y.
Proof. unfold a_count_nl. rewrite filter_app, app_length. reflexivity. Qed.

Lemma notin_NoB (d : str) : ~ In NL d -> NoB NL d.
Proof. intros H. apply Forall_forall. intros b Hb E. subst b. exact (H Hb). Qed.

Lemma count_nl_single c : count_nl [c] = if beq c NL then 1 else 0.
Proof. unfold count_nl. cbn [filter]. destruct (beq c NL); reflexivity. Qed.

Lemma count_nl_rsym ds de x : ~ In NL ds -> ~ In NL de ->
  count_nl (rsym ds de x) = a_count_nl [x].
Proof.
  intros Hds Hde. destruct x as [c| |]; cbn [rsym].
  - rewrite count_nl_single. unfold a_count_nl. cbn [filter is_bnl].
    destruct (beq c NL); reflexivity.
  - apply count_nl_NoB. apply notin_NoB. exact Hds.
  - apply count_nl_NoB. apply notin_NoB. exact Hde.
Qed.

(** The line breaks of a rendering are its line-break symbols. *)
Theorem count_nl_rs ds de l : ~ In NL ds -> ~ In NL de -> count_nl (rs ds de l) = a_count_nl l.
Proof.
  intros Hds Hde. induction l as [|x l IH]; [reflexivity|].
  change (rs ds de (x :: l)) with (rsym ds de x ++ rs ds de l).
  change (x :: l) with ([x] ++ l).
  rewrite count_nl_app, a_count_nl_app, IH, (count_nl_rsym ds de x Hds Hde). reflexivity.
Qed.

(** The bytes before the position of symbol [j] are the rendering of the symbols before [j]. *)
Lemma firstn_pos ds de l j : firstn (pos ds de l j) (rs ds de l) = rs ds de (firstn j l).
Proof.
  unfold pos.
  transitivity (firstn (length (rs ds de (firstn j l)))
                       (rs ds de (firstn j l) ++ rs ds de (skipn j l))).
  - rewrite <- rs_app, firstn_skipn. reflexivity.
  - rewrite firstn_app, Nat.sub_diag, firstn_all, firstn_O, app_nil_r. reflexivity.
Qed.

(** ... and one byte more is the first byte of symbol [j]. *)
Lemma firstn_S_pos ds de l j x c cs : nth_error l j = Some x -> rsym ds de x = c :: cs ->
  firstn (S (pos ds de l j)) (rs ds de l) = rs ds de (firstn j l) ++ [c].
Proof.
  intros Hj Hx. rewrite (rs_split ds de l j x Hj), Hx. unfold pos.
  rewrite firstn_app. rewrite firstn_all2 by lia.
  replace (S (length (rs ds de (firstn j l))) - length (rs ds de (firstn j l))) with 1 by lia.
  reflexivity.
Qed.

(** The line of the first byte of symbol [a]. *)
Theorem find_line_first ds de l a : ne2 ds de -> ~ In NL ds -> ~ In NL de -> a < length l ->
  find_line (build_line_map (rs ds de l)) (pos ds de l a) = a_line l (S a).
Proof.
  intros [Nds Nde] Hds Hde Ha. rewrite find_line_counts_line_breaks. unfold a_line. f_equal.
  destruct (nth_error l a) as [x|] eqn:Hx; [|apply nth_error_None in Hx; lia].
  rewrite (SimFlat.firstn_S_nth l a x Hx), a_count_nl_app.
  assert (exists c cs, rsym ds de x = c :: cs /\ count_nl [c] = a_count_nl [x]) as (c & cs & Ex & Ec).
  { destruct x as [c| |]; cbn [rsym].
    - exists c, []. split; [reflexivity|]. apply (count_nl_rsym ds de (B c) Hds Hde).
    - destruct ds as [|d ds']; [congruence|]. exists d, ds'. split; [reflexivity|].
      apply count_nl_NoB. constructor; [|constructor]. intros E. apply Hds. left. exact E.
    - destruct de as [|d de']; [congruence|]. exists d, de'. split; [reflexivity|].
      apply count_nl_NoB. constructor; [|constructor]. intros E. apply Hde. left. exact E. }
  rewrite (firstn_S_pos ds de l a x c cs Hx Ex), count_nl_app, Ec.
  rewrite (count_nl_rs ds de _ Hds Hde). reflexivity.
Qed.

(** The line of the last byte before symbol [b]. *)
Theorem find_line_last ds de l b : ne2 ds de -> ~ In NL ds -> ~ In NL de ->
  1 <= b -> b <= length l ->
  find_line (build_line_map (rs ds de l)) (pos ds de l b - 1) = a_line l b.
Proof.
  intros Hne Hds Hde Hb1 Hb. rewrite find_line_counts_line_breaks. unfold a_line. f_equal.
  pose proof (pos_ge ds de l b Hne Hb) as Hge.
  replace (S (pos ds de l b - 1)) with (pos ds de l b) by lia.
  rewrite firstn_pos. apply count_nl_rs; assumption.
Qed.

(** The line range of a rendered non-empty range of symbol indices. *)
Theorem line_range_rendered : forall ds de l a b,
  good_delims ds de -> a < b -> b <= length l ->
  get_line_range (build_line_map (rs ds de l)) (pos ds de l a, pos ds de l b) =
  Ok (a_line l (S a), a_line l b).
Proof.
  intros ds de l a b Hgd Hab Hb.
  pose proof (good_ne2 ds de Hgd) as Hne.
  pose proof Hgd as (_ & _ & _ & _ & Hds & Hde & _).
  unfold get_line_range. cbn [fst snd].
  pose proof (pos_ge ds de l b Hne Hb) as Hge.
  rewrite (csub_le (pos ds de l b) 1) by lia. cbn [bind].
  rewrite (find_line_first ds de l a Hne Hds Hde) by lia.
  rewrite (find_line_last ds de l b Hne Hds Hde) by lia.
  reflexivity.
Qed.

(* ------------------------------------------------------------------------- *)
(** * 4. The list items of a rendering *)

Definition item_key (it : list_item) : nat * nat * bool := (li_first it, li_last it, li_ready it).

(** The key of the item built for one listed marker. *)
Definition marker_key (lm : list nat) (x : marker * bool) : nat * nat * bool :=
  (find_line lm (fst (fst (fst x))), find_line lm (snd (fst (fst x)) - 1), snd x).

(** The step of the fold of [build_list]. *)
Definition bl_step (content : str) (acc : list list_item) (m : marker * bool) : res (list list_item) :=
  let '((r, _), is_removal) := m in
  lr <- get_line_range (build_line_map content) r ;;
  text <- build_item content (fst r) (snd r) is_removal false (Some lr) ;;
  Ok (acc ++ [mkItem (fst lr) (snd lr) text is_removal]).

Lemma build_list_unfold content markers :
  build_list content markers = foldM (bl_step content) markers [].
Proof. reflexivity. Qed.

Lemma bl_fold_keys content : forall markers acc items,
  foldM (bl_step content) markers acc = Ok items ->
  map item_key items = map item_key acc ++ map (marker_key (build_line_map content)) markers.
Proof.
  induction markers as [|[[r p] st] rest IH]; intros acc items H.
  - cbn [foldM] in H. inversion H; subst. cbn [map]. rewrite app_nil_r. reflexivity.
  - cbn [foldM] in H.
    revert H.
    match goal with |- bind ?t _ = _ -> _ => destruct t as [acc'|] eqn:Es end; cbn [bind]; intros H;
      [|discriminate H].
    rewrite (IH acc' items H). clear H IH.
    unfold bl_step in Es. unfold get_line_range in Es. revert Es.
    destruct (csub (snd r) 1) as [e1|] eqn:Ec; cbn [bind]; intros Es; [|discriminate Es].
    apply csub_ok in Ec. destruct Ec as [_ Ee]. subst e1. cbn [fst snd] in Es. revert Es.
    match goal with |- bind ?t _ = _ -> _ => destruct t as [text|] end; cbn [bind]; intros Es;
      [|discriminate Es].
    inversion Es; subst acc'. rewrite map_app, <- app_assoc. reflexivity.
Qed.

(** The keys of the items do not depend on the text blocks. *)
Theorem build_list_keys content markers items :
  build_list content markers = Ok items ->
  map item_key items = map (marker_key (build_line_map content)) markers.
Proof.
  intros H. rewrite build_list_unfold in H. apply bl_fold_keys in H. exact H.
Qed.

(** The abstract key of a listed marker over the symbol list. *)
Definition a_key (l : list sym) (x : marker * bool) : nat * nat * bool :=
  (a_line l (S (fst (fst (fst x)))), a_line l (snd (fst (fst x))), snd x).

Lemma marker_key_rendered ds de l x : good_delims ds de -> mb_good (length l) x ->
  marker_key (build_line_map (rs ds de l)) (map_mb (pos ds de l) x) = a_key l x.
Proof.
  intros Hgd [H1 H2].
  pose proof (good_ne2 ds de Hgd) as Hne.
  pose proof Hgd as (_ & _ & _ & _ & Hds & Hde & _).
  unfold marker_key, a_key, map_mb, map_marker. cbn [fst snd].
  rewrite fst_map_range, snd_map_range.
  rewrite (find_line_first ds de l _ Hne Hds Hde) by lia.
  rewrite (find_line_last ds de l _ Hne Hds Hde) by lia.
  reflexivity.
Qed.

(** The list builder on rendered markers: total, and the keys are the abstract keys. *)
Theorem build_list_rendered : forall ds de doc xs,
  good_delims ds de -> good_doc ds de doc ->
  Forall (mb_good (length (flat doc))) xs ->
  regions_ok (render ds de doc) (map (map_mb (pos ds de (flat doc))) xs) ->
  exists items,
    build_list (render ds de doc) (map (map_mb (pos ds de (flat doc))) xs) = Ok items /\
    map item_key items = map (a_key (flat doc)) xs.
Proof.
  intros ds de doc xs Hgd Hdoc Hgood Hok.
  pose proof (render_wf ds de doc Hgd Hdoc) as Hs.
  destruct (build_list_total _ _ Hs Hok) as [items E].
  exists items. split; [exact E|].
  rewrite (build_list_keys _ _ _ E), <- rs_flat, map_map.
  apply map_ext_in. intros x Hx. rewrite Forall_forall in Hgood.
  apply (marker_key_rendered ds de (flat doc) x Hgd (Hgood x Hx)).
Qed.

(** The keys of the items of [list] and of [list_all]: functions of [cfg] and [doc] only. *)
Definition a_item_keys (cfg : config) (doc : list item) : list (nat * nat * bool) :=
  match a_list_markers cfg doc with
  | Ok xs => map (a_key (flat doc)) xs
  | Panic => []
  end.

Definition a_item_keys_all (cfg : config) (doc : list item) : list (nat * nat * bool) :=
  match a_markers_all cfg doc with
  | Ok xs => map (a_key (flat doc)) xs
  | Panic => []
  end.

(** One spelling: [list] on a rendering. *)
Theorem list_rendered : forall cfg ds de doc,
  good_delims ds de -> good_doc ds de doc -> bodies_ok doc ->
  exists items,
    (ms <- list_markers cfg ds de (render ds de doc) ;; build_list (render ds de doc) ms) = Ok items /\
    map item_key items = a_item_keys cfg doc.
Proof.
  intros cfg ds de doc Hgd Hdoc Hbod.
  destruct (a_list_markers_ok cfg ds de doc Hgd Hdoc Hbod) as (ams & _ & Ea & _ & Hgood & Hok).
  destruct (build_list_rendered ds de doc _ Hgd Hdoc Hgood Hok) as (items & E & K).
  exists items. split.
  - rewrite (list_markers_rendered cfg ds de doc Hgd Hdoc Hbod), Ea. cbn [bind]. exact E.
  - unfold a_item_keys. rewrite Ea. exact K.
Qed.

(** One spelling: [list_all] on a rendering. *)
Theorem list_all_rendered : forall cfg ds de doc,
  good_delims ds de -> good_doc ds de doc -> bodies_ok doc ->
  exists items,
    (ms <- markers_all_of cfg ds de (render ds de doc) ;; build_list (render ds de doc) ms) = Ok items /\
    map item_key items = a_item_keys_all cfg doc.
Proof.
  intros cfg ds de doc Hgd Hdoc Hbod.
  destruct (a_markers_all_ok cfg ds de doc Hgd Hdoc Hbod) as (axs & Ea & _ & Hgood & Hok).
  destruct (build_list_rendered ds de doc _ Hgd Hdoc Hgood Hok) as (items & E & K).
  exists items. split.
  - rewrite (markers_all_rendered cfg ds de doc Hgd Hdoc Hbod), Ea. cbn [bind]. exact E.
  - unfold a_item_keys_all. rewrite Ea. exact K.
Qed.

(** The JSON listings are total on renderings and made of these items. *)
Corollary list_json_rendered : forall cfg ds de doc,
  good_delims ds de -> good_doc ds de doc -> bodies_ok doc ->
  exists items items',
    list_json cfg ds de (render ds de doc) = Ok (json_list items) /\
    map item_key items = a_item_keys cfg doc /\
    list_all_json cfg ds de (render ds de doc) = Ok (json_list items') /\
    map item_key items' = a_item_keys_all cfg doc.
Proof.
  intros cfg ds de doc Hgd Hdoc Hbod.
  destruct (list_rendered cfg ds de doc Hgd Hdoc Hbod) as (items & E & K).
  destruct (list_all_rendered cfg ds de doc Hgd Hdoc Hbod) as (items' & E' & K').
  exists items, items'. unfold list_json, list_all_json.
  destruct (list_markers cfg ds de (render ds de doc)) as [ms|]; cbn [bind] in E |- *;
    [|discriminate E].
  destruct (markers_all_of cfg ds de (render ds de doc)) as [ms'|]; cbn [bind] in E' |- *;
    [|discriminate E'].
  rewrite E, E'. cbn [bind]. repeat split; assumption.
Qed.

(** Two spellings: the line ranges and the statuses of the items are the same. *)
Theorem list_two_spellings : forall cfg dsA deA dsB deB doc,
  good_delims dsA deA -> good_delims dsB deB -> good_doc dsA deA doc -> good_doc dsB deB doc ->
  bodies_ok doc ->
  exists itemsA itemsB itemsA' itemsB',
    (ms <- list_markers cfg dsA deA (render dsA deA doc) ;; build_list (render dsA deA doc) ms) = Ok itemsA /\
    (ms <- list_markers cfg dsB deB (render dsB deB doc) ;; build_list (render dsB deB doc) ms) = Ok itemsB /\
    map item_key itemsA = map item_key itemsB /\
    (ms <- markers_all_of cfg dsA deA (render dsA deA doc) ;; build_list (render dsA deA doc) ms) = Ok itemsA' /\
    (ms <- markers_all_of cfg dsB deB (render dsB deB doc) ;; build_list (render dsB deB doc) ms) = Ok itemsB' /\
    map item_key itemsA' = map item_key itemsB'.
Proof.
  intros cfg dsA deA dsB deB doc HgA HgB HdA HdB Hbod.
  destruct (list_rendered cfg dsA deA doc HgA HdA Hbod) as (iA & EA & KA).
  destruct (list_rendered cfg dsB deB doc HgB HdB Hbod) as (iB & EB & KB).
  destruct (list_all_rendered cfg dsA deA doc HgA HdA Hbod) as (iA' & EA' & KA').
  destruct (list_all_rendered cfg dsB deB doc HgB HdB Hbod) as (iB' & EB' & KB').
  exists iA, iB, iA', iB'.
  split; [exact EA|]. split; [exact EB|]. split; [rewrite KA, KB; reflexivity|].
  split; [exact EA'|]. split; [exact EB'|]. rewrite KA', KB'. reflexivity.
Qed.

(* ------------------------------------------------------------------------- *)
(** * 5. Non-vacuity *)

(** [ex_doc] of Proofs/SimClean.v (one ready, unwrapped element over lines 2..6) followed by a
    pending element [<rm name='g'> "z\n" </rm>] on lines 7..8 and a final line break. *)
Definition ex_doc2 : list item :=
  ex_doc ++ [Tag [114;109;32;110;97;109;101;61;39;103;39]%N; Txt [122;10]%N; Tag [47;114;109]%N;
             Txt [10]%N].

Definition keys_of (r : res (list list_item)) : list (nat * nat * bool) :=
  match r with Ok items => map item_key items | Panic => [] end.

Example list_keys_example :
  a_item_keys ex_cfg ex_doc2 = [(2, 3, true); (5, 6, true)] /\
  a_item_keys_all ex_cfg ex_doc2 = [(2, 3, true); (5, 6, true); (7, 8, false)] /\
  keys_of (ms <- list_markers ex_cfg [60;33]%N [62]%N (render [60;33]%N [62]%N ex_doc2) ;;
           build_list (render [60;33]%N [62]%N ex_doc2) ms) = a_item_keys ex_cfg ex_doc2 /\
  keys_of (ms <- list_markers ex_cfg [123;123]%N [125;125]%N (render [123;123]%N [125;125]%N ex_doc2) ;;
           build_list (render [123;123]%N [125;125]%N ex_doc2) ms) = a_item_keys ex_cfg ex_doc2 /\
  keys_of (ms <- markers_all_of ex_cfg [60;33]%N [62]%N (render [60;33]%N [62]%N ex_doc2) ;;
           build_list (render [60;33]%N [62]%N ex_doc2) ms) = a_item_keys_all ex_cfg ex_doc2 /\
  keys_of (ms <- markers_all_of ex_cfg [123;123]%N [125;125]%N (render [123;123]%N [125;125]%N ex_doc2) ;;
           build_list (render [123;123]%N [125;125]%N ex_doc2) ms) = a_item_keys_all ex_cfg ex_doc2.
Proof.
  repeat split; vm_compute; reflexivity.
Qed.

(** The premises of [list_two_spellings] hold for the example with both spellings. *)
Example list_keys_example_premises :
  good_delims [60;33]%N [62]%N /\ good_delims [123;123]%N [125;125]%N /\
  good_doc [60;33]%N [62]%N ex_doc2 /\ good_doc [123;123]%N [125;125]%N ex_doc2 /\
  bodies_ok ex_doc2.
Proof.
  destruct a_clean_example_premises as (G1 & G2 & _).
  assert (normal ex_doc2) as Hn by (cbn; repeat split; discriminate).
  split; [exact G1|]. split; [exact G2|].
  split; [apply doc_checkb_ok; [exact Hn | vm_compute; reflexivity]|].
  split; [apply doc_checkb_ok; [exact Hn | vm_compute; reflexivity]|].
  intros b Hin. cbn in Hin.
  repeat (destruct Hin as [E|Hin]; [try discriminate E; inversion E; subst; cbn; lia|]).
  destruct Hin.
Qed.

Print Assumptions merge_all_mono.
Print Assumptions merge_all_mono'.
Print Assumptions merge_all_forall.
Print Assumptions markers_rendered.
Print Assumptions markers_all_rendered.
Print Assumptions list_markers_rendered.
Print Assumptions a_list_markers_ok.
Print Assumptions a_markers_all_ok.
Print Assumptions a_markers_le.
Print Assumptions a_markers_all_le.
Print Assumptions count_nl_rs.
Print Assumptions find_line_first.
Print Assumptions find_line_last.
Print Assumptions line_range_rendered.
Print Assumptions build_list_keys.
Print Assumptions build_list_rendered.
Print Assumptions list_rendered.
Print Assumptions list_all_rendered.
Print Assumptions list_json_rendered.
Print Assumptions list_two_spellings.
Print Assumptions list_keys_example.
Print Assumptions list_keys_example_premises.
